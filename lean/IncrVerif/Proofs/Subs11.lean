import IncrVerif.Proofs.Subs10
/-!
# Subscriptions, part 11: what one `stabilise` delivers (S2)
-/
namespace IncrVerif.Proofs.SubsH
open IncrVerif.Engine IncrVerif.Driver IncrVerif.Proofs IncrVerif.Proofs.Step IncrVerif.Proofs.Sched
open IncrVerif.Proofs.Quiet

/-- the token of a notification event -/
def notifTok : Event → Option Nat
  | .notif t _ => some t
  | _ => none

/-- what a `stabilise` from `s` to `s'` tells the handler with record `h` (as registered in `s`) on observer
`o`: nothing unless `o` is in use afterwards; `Initialised v` if the handler was never called; `Changed v` if
it was and the node carries the stamp of this round; `v` is the node's value afterwards -/
def expected (s s' : State) (o : Nat) (h : HandlerRec) : Option Update :=
  match s'.observers[o]? with
  | some ob' =>
    if ob'.state = .inUse then
      match (s'.nodeD ob'.node).value with
      | some v =>
        if h.prev = .neverBeenUpdated then some (.initialised v)
        else if (s'.nodeD ob'.node).changedAt = s.stabNum then some (.changed v) else none
      | none => none
    else none
  | none => none

/-! ## lists -/

theorem P11.nodup_flatMap {α β} {l : List α} {f : α → List β} (h1 : l.Nodup)
    (h2 : ∀ a, a ∈ l → (f a).Nodup)
    (h3 : ∀ a b x, a ∈ l → b ∈ l → x ∈ f a → x ∈ f b → a = b) : (l.flatMap f).Nodup := by
  refine List.pairwise_flatMap.2 ⟨h2, List.Pairwise.imp_of_mem ?_ h1⟩
  intro a b ha hb hab x hx y hy hxy
  subst hxy
  exact hab (h3 a b x ha hb hx hy)

theorem P11.sublist_flatMap {α β} {f g : α → List β} : ∀ (l : List α), (∀ a, a ∈ l → (f a).Sublist (g a)) →
    (l.flatMap f).Sublist (l.flatMap g)
  | [], _ => by simp
  | a :: l, h => by
    rw [List.flatMap_cons, List.flatMap_cons]
    exact List.Sublist.append (h a List.mem_cons_self)
      (P11.sublist_flatMap l fun b hb => h b (List.mem_cons_of_mem _ hb))

theorem P11.filterMap_sublist_map {α β} {f : α → Option β} {g : α → β} (h : ∀ a, f a = none ∨ f a = some (g a)) :
    ∀ (l : List α), (l.filterMap f).Sublist (l.map g)
  | [] => by simp
  | a :: l => by
    rcases h a with e | e
    · rw [List.filterMap_cons_none e, List.map_cons]
      exact (P11.filterMap_sublist_map h l).cons _
    · rw [List.filterMap_cons_some e, List.map_cons]
      exact (P11.filterMap_sublist_map h l).cons_cons _

theorem P11.filterMap_congr {α β} {f g : α → Option β} : ∀ {l : List α}, (∀ a, a ∈ l → f a = g a) →
    l.filterMap f = l.filterMap g
  | [], _ => rfl
  | a :: l, h => by
    rw [List.filterMap_cons, List.filterMap_cons, h a List.mem_cons_self,
      P11.filterMap_congr fun b hb => h b (List.mem_cons_of_mem _ hb)]

theorem P11.le_sum {α} (f : α → Int) (hf : ∀ a, 0 ≤ f a) {a : α} : ∀ {l : List α}, a ∈ l → f a ≤ (l.map f).sum
  | [], h => by cases h
  | b :: l, h => by
    have hnn : ∀ (l : List α), 0 ≤ (l.map f).sum := by
      intro l
      induction l with
      | nil => simp
      | cons c l ih => rw [List.map_cons, List.sum_cons]; have := hf c; omega
    rw [List.map_cons, List.sum_cons]
    rcases List.mem_cons.1 h with e | e
    · subst e; have := hnn l; omega
    · have := P11.le_sum f hf e; have := hf b; omega

/-! ## the model's table -/

theorem P11.nuAt_eq {env : Env} {s : State} {n : Nat} {v : Val} (h1 : (s.nodeD n).valid = true)
    (h2 : s.isNecessary n = true) (h3 : s.value env n = some v) :
    nuAt env s n = if (s.nodeD n).changedAt = s.stabNum then .changed else .necessary := by
  have e1 : (State.nodeD { s with stabNum := s.stabNum + 1 } n) = s.nodeD n := rfl
  have hv' : State.value env { s with stabNum := s.stabNum + 1 } n = s.value env n :=
    Obs.value_congr_nodes env (s := s) (s' := { s with stabNum := s.stabNum + 1 }) rfl n
  unfold nuAt State.nodeUpdate
  simp only [e1, h1, hv', h3]
  rw [State.isNecessary] at h2
  simp only [h2]
  by_cases hc : (s.nodeD n).changedAt = s.stabNum
  · simp [hc]
  · have : ¬ ((s.nodeD n).changedAt + 1 = s.stabNum + 1) := by omega
    simp [hc, this]

theorem P11.notifOf_eq {c : Prop} [Decidable c] {v : Val} {h : HandlerRec} (hp : PrevOK h.prev) :
    notifOf (if c then .changed else .necessary) v h =
      (if h.prev = .neverBeenUpdated then some (Update.initialised v)
        else if c then some (.changed v) else none).map (Event.notif h.token) := by
  unfold notifOf
  by_cases hc : c
  · simp only [hc, if_true]
    cases hh : h.prev <;> simp [hh, PrevOK] at hp ⊢ <;> simp [handlerStep]
  · simp only [hc, if_false]
    cases hh : h.prev <;> simp [hh, PrevOK] at hp ⊢ <;> simp [handlerStep]

/-! ## the intermediate state -/

theorem P11.hrec {env : Env} {s t3 s' : State} (M : MidState env s t3 s') {o : Nat} {ob : ObsRec}
    (ho : t3.observers[o]? = some ob) :
    ∃ ob', s'.observers[o]? = some ob' ∧ ob'.node = ob.node ∧ ob'.state = ob.state := by
  refine ⟨_, M.ended.obs o ob ho, ?_, ?_⟩ <;> split <;> rfl

theorem P11.hback {env : Env} {s t3 s' : State} (M : MidState env s t3 s') {o : Nat} {ob' : ObsRec}
    (ho' : s'.observers[o]? = some ob') :
    ∃ ob, t3.observers[o]? = some ob ∧ ob'.node = ob.node ∧ ob'.state = ob.state := by
  have hlt : o < t3.observers.size := by
    rw [← M.ended.obsSize]; exact (Array.getElem?_eq_some_iff.1 ho').1
  obtain ⟨ob, ho⟩ : ∃ ob, t3.observers[o]? = some ob := ⟨_, Array.getElem?_eq_getElem hlt⟩
  obtain ⟨ob1, h1, h2, h3⟩ := P11.hrec M ho
  rw [ho'] at h1; cases h1
  exact ⟨ob, ho, h2, h3⟩

/-- a linked observer of `t3`: in use, its node is valid and has a value -/
theorem P11.mem_obs {env : Env} {s t3 s' : State} (M : MidState env s t3 s') {n o : Nat}
    (ho : o ∈ (t3.nodeD n).observers) :
    ∃ ob3 v, t3.observers[o]? = some ob3 ∧ ob3.node = n ∧ ob3.state = .inUse ∧
      (t3.nodeD n).valid = true ∧ t3.isNecessary n = true ∧ t3.value env n = some v ∧
      (t3.nodeD n).value = some v := by
  obtain ⟨ob3, h1, h2, h3⟩ := (M.obs.mem n o).1 ho
  have hst : ob3.state = .inUse := by
    rcases h3 with h3 | h3
    · exact h3
    · have := (M.obs.dis o ob3 h1).1 h3; cases this
  have hnec : t3.isNecessary n = true :=
    (Quiet.isNecessary_iff t3 n).2 (Or.inr (Or.inl (List.ne_nil_of_mem ho)))
  obtain ⟨hv1, hv2⟩ := M.hval n hnec
  obtain ⟨v, hv⟩ := Option.isSome_iff_exists.1 hv2
  exact ⟨ob3, v, h1, h2, hst, hv1, hnec, hv, by rw [← M.plain n hnec]; exact hv⟩

/-- `expected`, read in `t3` -/
theorem P11.expected_eq {env : Env} {s t3 s' : State} (M : MidState env s t3 s') {o : Nat} {ob3 : ObsRec}
    {v : Val} (h : HandlerRec) (ho : t3.observers[o]? = some ob3) (hst : ob3.state = .inUse)
    (hv : (t3.nodeD ob3.node).value = some v) :
    expected s s' o h = if h.prev = .neverBeenUpdated then some (.initialised v)
      else if (t3.nodeD ob3.node).changedAt = s.stabNum then some (.changed v) else none := by
  obtain ⟨ob', h1, h2, h3⟩ := P11.hrec M ho
  have e1 : (s'.nodeD ob3.node).value = some v := by rw [M.ended.node]; exact hv
  have e2 : (s'.nodeD ob3.node).changedAt = (t3.nodeD ob3.node).changedAt := by rw [M.ended.node]
  unfold expected
  simp only [h1, h2, h3, hst, if_true, e1, e2]

/-- the handlers of a linked observer of `t3`, as registered in `s` -/
theorem P11.handlers_s {env : Env} {s t3 s' : State} (M : MidState env s t3 s') {o : Nat} {ob3 : ObsRec}
    (ho : t3.observers[o]? = some ob3) : ∃ ob, s.observers[o]? = some ob ∧ ob.handlers = ob3.handlers := by
  have hlt : o < s.observers.size := by
    rw [← M.obsMap.1]; exact (Array.getElem?_eq_some_iff.1 ho).1
  have hs : s.observers[o]? = some s.observers[o] := Array.getElem?_eq_getElem hlt
  refine ⟨_, hs, ?_⟩
  rw [← hOf_of_some hs, ← M.handlers o, hOf_of_some ho]

/-- the notifications of one linked observer -/
theorem P11.obsNotifs_eq {env : Env} {s t3 s' : State} (M : MidState env s t3 s') {n o : Nat}
    (ho : o ∈ (t3.nodeD n).observers) :
    ∃ ob3, t3.observers[o]? = some ob3 ∧ ob3.node = n ∧ ob3.state = .inUse ∧
      obsNotifs env t3 n o =
        ob3.handlers.filterMap fun h => (expected s s' o h).map (Event.notif h.token) := by
  obtain ⟨ob3, v, h1, h2, hst, hvalid, hnec, hv, hv'⟩ := P11.mem_obs M ho
  refine ⟨ob3, h1, h2, hst, ?_⟩
  have e : obsNotifs env t3 n o = ob3.handlers.filterMap (notifOf (nuAt env t3 n) v) := by
    simp only [obsNotifs, h1, hv]
  rw [e]
  refine P11.filterMap_congr fun h hh => ?_
  subst h2
  rw [P11.nuAt_eq hvalid hnec hv, P11.notifOf_eq (M.hinv.prev o ob3 h h1 hh), P11.expected_eq M h h1 hst hv',
    M.stabNum]

theorem P11.mem_endNotifs {env : Env} {s t3 s' : State} (M : MidState env s t3 s') (e : Event) :
    e ∈ endNotifs env t3 ↔ ∃ n o ob3 h, n ∈ t3.handleAfterStab ∧ o ∈ (t3.nodeD n).observers ∧
      t3.observers[o]? = some ob3 ∧ ob3.node = n ∧ ob3.state = .inUse ∧ h ∈ ob3.handlers ∧
      (expected s s' o h).map (Event.notif h.token) = some e := by
  unfold endNotifs
  simp only [List.mem_flatMap]
  constructor
  · rintro ⟨n, hn, o, ho, he⟩
    obtain ⟨ob3, h1, h2, h3, h4⟩ := P11.obsNotifs_eq M ho
    rw [h4] at he
    obtain ⟨h, hh, hhe⟩ := List.mem_filterMap.1 he
    exact ⟨n, o, ob3, h, hn, ho, h1, h2, h3, hh, hhe⟩
  · rintro ⟨n, o, ob3, h, hn, ho, h1, h2, h3, hh, hhe⟩
    refine ⟨n, hn, o, ho, ?_⟩
    obtain ⟨ob3', h1', -, -, h4⟩ := P11.obsNotifs_eq M ho
    rw [h1] at h1'; cases h1'
    rw [h4]
    exact List.mem_filterMap.2 ⟨h, hh, hhe⟩

/-- the tokens registered on the linked observers of the queued nodes of `t3`: no token twice -/
theorem P11.tokens_nodup {env : Env} {s t3 s' : State} (M : MidState env s t3 s') :
    (t3.handleAfterStab.flatMap fun n => (t3.nodeD n).observers.flatMap fun o =>
      (hOf t3 o).map (·.token)).Nodup := by
  have huniq : ∀ o o' x, x ∈ (hOf t3 o).map (·.token) → x ∈ (hOf t3 o').map (·.token) → o = o' := by
    intro o o' x hx hx'
    cases e : t3.observers[o]? with
    | none => simp [hOf, e] at hx
    | some ob =>
      cases e' : t3.observers[o']? with
      | none => simp [hOf, e'] at hx'
      | some ob' =>
        rw [hOf_of_some e] at hx
        rw [hOf_of_some e'] at hx'
        exact M.hinv.tok.unique o o' ob ob' e e' x hx hx'
  refine P11.nodup_flatMap M.hinv.has.nodup (fun n _ => ?_) ?_
  · refine P11.nodup_flatMap (M.hinv.obsNodup n) (fun o _ => ?_) (fun o o' x _ _ hx hx' => huniq o o' x hx hx')
    cases e : t3.observers[o]? with
    | none => simp [hOf, e]
    | some ob => rw [hOf_of_some e]; exact M.hinv.tokNodup o ob e
  · intro n n' x _ _ hx hx'
    obtain ⟨o, ho, hxo⟩ := List.mem_flatMap.1 hx
    obtain ⟨o', ho', hxo'⟩ := List.mem_flatMap.1 hx'
    have := huniq o o' x hxo hxo'
    subst this
    obtain ⟨ob, h1, h2, -⟩ := (M.obs.mem n o).1 ho
    obtain ⟨ob', h1', h2', -⟩ := (M.obs.mem n' o).1 ho'
    rw [h1] at h1'; cases h1'
    rw [← h2, ← h2']

theorem P11.obsNotifs_toks (env : Env) (t3 : State) (n o : Nat) :
    ((obsNotifs env t3 n o).filterMap notifTok).Sublist ((hOf t3 o).map (·.token)) := by
  unfold obsNotifs
  split
  · rename_i ob v e _
    rw [hOf_of_some e, List.filterMap_filterMap]
    refine P11.filterMap_sublist_map (fun h => ?_) _
    unfold notifOf
    split <;> simp [notifTok]
  · simp

/-- **S2, from the intermediate state.**  The notifications `stabiliseEnd` logs are exactly the expected ones,
each token at most once. -/
theorem endNotifs_spec {env : Env} {s t3 s' : State} (U : UInv env s) (M : MidState env s t3 s') :
    (∀ e, e ∈ endNotifs env t3 → ∃ t u, e = .notif t u) ∧
    (∀ t u, Event.notif t u ∈ endNotifs env t3 ↔
      ∃ (o : Nat) (ob : ObsRec) (h : HandlerRec), s.observers[o]? = some ob ∧ h ∈ ob.handlers ∧ h.token = t ∧
        expected s s' o h = some u) ∧
    ((endNotifs env t3).filterMap notifTok).Nodup := by
  have _ := U
  refine ⟨fun e he => ?_, fun t u => ⟨fun he => ?_, ?_⟩, ?_⟩
  · obtain ⟨n, o, ob3, h, -, -, -, -, -, -, hhe⟩ := (P11.mem_endNotifs M e).1 he
    obtain ⟨u, -, hu⟩ := Option.map_eq_some_iff.1 hhe
    exact ⟨_, _, hu.symm⟩
  · obtain ⟨n, o, ob3, h, -, -, h1, -, -, hh, hhe⟩ := (P11.mem_endNotifs M _).1 he
    obtain ⟨u', hu', hu⟩ := Option.map_eq_some_iff.1 hhe
    cases hu
    obtain ⟨ob, hs, hsh⟩ := P11.handlers_s M h1
    exact ⟨o, ob, h, hs, by rw [hsh]; exact hh, rfl, hu'⟩
  · rintro ⟨o, ob, h, hs, hh, ht, hexp⟩
    -- the record in `s'`, then in `t3`
    have hex := hexp
    unfold expected at hex
    split at hex
    · rename_i ob' ho'
      split at hex
      · rename_i hst'
        obtain ⟨ob3, h1, h2, h3⟩ := P11.hback M ho'
        have hst : ob3.state = .inUse := by rw [← h3]; exact hst'
        have hmem : o ∈ (t3.nodeD ob3.node).observers := (M.obs.mem _ o).2 ⟨ob3, h1, rfl, Or.inl hst⟩
        obtain ⟨ob, hs', hsh⟩ := P11.handlers_s M h1
        rw [hs] at hs'; cases hs'
        have hh3 : h ∈ ob3.handlers := by rw [← hsh]; exact hh
        obtain ⟨ob3', v, h1', -, -, -, -, -, hv⟩ := P11.mem_obs (env := env) M hmem
        rw [h1] at h1'; cases h1'
        have hE := P11.expected_eq M h h1 hst hv
        rw [hexp] at hE
        have hq : ob3.node ∈ t3.handleAfterStab := by
          by_cases hp : h.prev = .neverBeenUpdated
          · exact M.hinv.pending o ob3 h h1 (Or.inr hst) hh3 hp
          · rw [if_neg hp] at hE
            by_cases hc : (t3.nodeD ob3.node).changedAt = s.stabNum
            · refine M.queued _ hc ?_
              rw [M.hinv.count]
              unfold numOf
              have h1le := P11.le_sum (fun o => ((hOf t3 o).length : Int)) (fun _ => Int.natCast_nonneg _) hmem
              have : 0 < (hOf t3 o).length := by
                rw [hOf_of_some h1]; exact List.length_pos_of_mem hh3
              omega
            · rw [if_neg hc] at hE; cases hE
        refine (P11.mem_endNotifs M _).2 ⟨ob3.node, o, ob3, h, hq, hmem, h1, rfl, hst, hh3, ?_⟩
        rw [hexp, ← ht]; rfl
      · cases hex
    · cases hex
  · refine List.Sublist.nodup ?_ (P11.tokens_nodup M)
    unfold endNotifs
    rw [List.filterMap_flatMap]
    refine P11.sublist_flatMap _ fun n _ => ?_
    rw [List.filterMap_flatMap]
    exact P11.sublist_flatMap _ fun o _ => P11.obsNotifs_toks env t3 n o

/-- **S2.**  For a state satisfying the invariant and a `stabilise` that returns: the log grows by `pre`
(events of the observer phases and the drain: no notification) and then by the notifications `del`, logged by
`stabiliseEnd` after the drain; `del` contains exactly the expected notification of every handler registered
before the call, and every token at most once. -/
theorem stabilise_delivers {env : Env} {fuel : Nat} {s s' : State} (U : UInv env s) (heff : PureHandlers env)
    (h : (stabilise env fuel).run.run s = (.ok (), s')) :
    ∃ (pre del : List Event), s'.log = del.reverse ++ (pre ++ s.log) ∧ (∀ e, e ∈ pre → NotNotif e) ∧
      (∀ e, e ∈ del → ∃ t u, e = .notif t u) ∧
      (∀ t u, Event.notif t u ∈ del ↔
        ∃ (o : Nat) (ob : ObsRec) (h : HandlerRec), s.observers[o]? = some ob ∧ h ∈ ob.handlers ∧
          h.token = t ∧ expected s s' o h = some u) ∧
      (del.filterMap notifTok).Nodup := by
  obtain ⟨t3, M⟩ := (stabilise_u U heff h).mid
  obtain ⟨pre, hpre, hnn⟩ := M.log
  obtain ⟨a, b, c⟩ := endNotifs_spec U M
  exact ⟨pre, endNotifs env t3, by rw [M.ended.log, hpre], hnn, a, b, c⟩

end IncrVerif.Proofs.SubsH
