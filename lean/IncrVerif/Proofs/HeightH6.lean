import IncrVerif.Proofs.HeightH1
/-!
# `maxHeightSeen` is untouched by the drain of a static graph and by a handler-free `stabiliseEnd`
-/
namespace IncrVerif.Proofs.HeightH
open IncrVerif.Engine IncrVerif.Driver IncrVerif.Proofs IncrVerif.Proofs.Step IncrVerif.Proofs.Sched
open IncrVerif.Proofs.Quiet

/-- the frame on `maxHeightSeen` -/
def SeenEq (s s' : State) : Prop := s'.maxHeightSeen = s.maxHeightSeen

theorem SeenEq.refl (s : State) : SeenEq s s := rfl
theorem SeenEq.trans {a b c : State} (h1 : SeenEq a b) (h2 : SeenEq b c) : SeenEq a c :=
  Eq.trans h2 h1
instance : PreOrd SeenEq := ⟨SeenEq.refl, SeenEq.trans⟩

theorem PresQ.modNode (n : Nat) (f : Node → Node) : Step.Pres SeenEq (modNode n f) := by
  unfold Engine.modNode; exact Step.Pres.modify fun _ => rfl

macro_rules
  | `(tactic| qleaf) =>
    `(tactic| ((with_reducible apply Step.Pres.modify); intro _;
               exact (rfl : State.maxHeightSeen _ = State.maxHeightSeen _)))
macro_rules
  | `(tactic| qleaf) => `(tactic| (with_reducible apply PresQ.modNode))

macro "seen_leaf " n:ident : command =>
  `(macro_rules | `(tactic| qleaf) => `(tactic| with_reducible apply $n))

theorem PresQ.tick : Step.Pres SeenEq tick := by unfold Engine.tick; qpres
seen_leaf PresQ.tick
theorem PresQ.logEv (e) : Step.Pres SeenEq (logEv e) := by unfold Engine.logEv; qpres
seen_leaf PresQ.logEv
theorem PresQ.bumpCounter (f) : Step.Pres SeenEq (bumpCounter f) := by unfold Engine.bumpCounter; qpres
seen_leaf PresQ.bumpCounter
theorem PresQ.modExpert (e f) : Step.Pres SeenEq (modExpert e f) := by unfold Engine.modExpert; qpres
seen_leaf PresQ.modExpert
theorem PresQ.shouldCutoff (env n o v) : Step.Pres SeenEq (shouldCutoff env n o v) := by
  unfold Engine.shouldCutoff; qpres
seen_leaf PresQ.shouldCutoff
theorem PresQ.edgeOnChange (env e edge) : Step.Pres SeenEq (edgeOnChange env e edge) := by
  unfold Engine.edgeOnChange; qpres
seen_leaf PresQ.edgeOnChange
theorem PresQ.runEdgeCallback (env e i) : Step.Pres SeenEq (runEdgeCallback env e i) := by
  unfold Engine.runEdgeCallback; qpres
seen_leaf PresQ.runEdgeCallback
theorem PresQ.rchLink (n) : Step.Pres SeenEq (rchLink n) := by unfold Engine.rchLink; qpres
seen_leaf PresQ.rchLink
theorem PresQ.rchInsert (n) : Step.Pres SeenEq (rchInsert n) := by unfold Engine.rchInsert; qpres
seen_leaf PresQ.rchInsert
theorem PresQ.rchMinHeight : Step.Pres SeenEq rchMinHeight := by unfold Engine.rchMinHeight; qpres
seen_leaf PresQ.rchMinHeight
theorem PresQ.handleAfterStabilisation (n) : Step.Pres SeenEq (handleAfterStabilisation n) := by
  unfold Engine.handleAfterStabilisation; qpres
seen_leaf PresQ.handleAfterStabilisation
theorem PresQ.maybeHandleAfterStabilisation (n) : Step.Pres SeenEq (maybeHandleAfterStabilisation n) := by
  unfold Engine.maybeHandleAfterStabilisation; qpres
seen_leaf PresQ.maybeHandleAfterStabilisation

theorem PresQ.childChanged (env : Env) (fuel p c ci : Nat) (o : Option Val) :
    Step.Pres SeenEq (childChanged env fuel p c ci o) := by
  induction fuel generalizing p c ci o with
  | zero => unfold Engine.childChanged; qpres
  | succ fuel ih =>
    unfold Engine.childChanged
    qpres
    all_goals (apply Step.Pres.forIn; intro a b; qpres; exact ih _ _ _ _)
seen_leaf PresQ.childChanged

theorem PresQ.parentIterCanRecomputeNow (p c : Nat) :
    Step.Pres SeenEq (parentIterCanRecomputeNow p c) := by
  unfold Engine.parentIterCanRecomputeNow; qpres
seen_leaf PresQ.parentIterCanRecomputeNow

theorem PresQ.maybeChangeValueManual (env fuel n o d b) :
    Step.Pres SeenEq (maybeChangeValueManual env fuel n o d b) := by
  unfold Engine.maybeChangeValueManual
  qpres
  all_goals (apply Step.Pres.forIn; intro a b; qpres)
seen_leaf PresQ.maybeChangeValueManual

theorem PresQ.maybeChangeValue (env fuel n v) : Step.Pres SeenEq (maybeChangeValue env fuel n v) := by
  unfold Engine.maybeChangeValue; qpres

theorem SeenEq.started (n : Nat) (s : State) : SeenEq s (Step.started n s) := rfl
theorem SeenEq.logged (es : List Event) (s : State) : SeenEq s (Step.logged es s) := rfl

theorem recomputeOne_seen {env : Env} {fuel n : Nat} {s s' : State} {r : Option Nat}
    (g : Graph env s) (hn : s.isNecessary n = true)
    (hvals : ∃ vals, plainVals s (kids (s.nodeD n).kind) = some vals)
    (h : (recomputeOne env fuel n).run.run s = (.ok r, s')) : SeenEq s s' := by
  obtain ⟨hlt, hv, hk, _, _⟩ := g.nec n hn
  have hnn := some_of_lt hlt
  obtain ⟨vals, hvals⟩ := hvals
  have hvo := g.valuesOf hn
  rw [hvals] at hvo
  have mcv := fun v S0 (h0 : (maybeChangeValue env fuel n v).run.run S0 = (.ok r, s')) =>
    (PresQ.maybeChangeValue env fuel n v).h S0 _ s' h0
  cases hkd : (s.nodeD n).kind with
  | const w =>
    rw [recomputeOne_const_run env fuel n s _ w hnn hv hkd] at h
    exact (SeenEq.started n s).trans (mcv _ _ h)
  | var c =>
    obtain ⟨vc, hvc⟩ := g.var n c hn hkd
    rw [recomputeOne_var_run env fuel n s _ c vc hnn hv hkd hvc] at h
    exact (SeenEq.started n s).trans (mcv _ _ h)
  | map f args =>
    rw [hkd] at hk hvo
    by_cases hf : f < fnZip
    · rw [recomputeOne_map_run env fuel n s _ f args vals hnn hv hkd hf hvo (hk.2 hf vals) g.pc] at h
      exact ((SeenEq.started n s).trans (SeenEq.logged _ _)).trans (mcv _ _ h)
    · rw [recomputeOne_mapBuiltin_run env fuel n s _ f args vals hnn hv hkd hf hk.1 hvo] at h
      exact (SeenEq.started n s).trans (mcv _ _ h)
  | fold f init cs =>
    rw [hkd] at hvo
    rw [recomputeOne_fold_run env fuel n s _ f init cs vals hnn hv hkd hvo g.pc] at h
    exact ((SeenEq.started n s).trans (SeenEq.logged _ _)).trans (mcv _ _ h)
  | mapRef _ _ => rw [hkd] at hk; exact hk.elim
  | mapWithOld _ _ => rw [hkd] at hk; exact hk.elim
  | bindLhsChange _ => rw [hkd] at hk; exact hk.elim
  | bindMain _ _ => rw [hkd] at hk; exact hk.elim
  | expert _ => rw [hkd] at hk; exact hk.elim

theorem recompute_seen {env : Env} : ∀ (fuel n : Nat) (s s' : State), Inv env s (some n) →
    (recompute env fuel n).run.run s = (.ok (), s') → SeenEq s s' := by
  intro fuel
  induction fuel with
  | zero => intro n s s' _ h; unfold recompute at h; cases h
  | succ fuel ih =>
    intro n s s' I h
    unfold recompute at h
    obtain ⟨r, s1, h1, h2⟩ := bind_ok_inv h
    have c1 := recomputeOne_seen I.graph (I.cur n rfl).1 I.kids_values h1
    obtain ⟨I1, -, -⟩ := recomputeOne_inv I h1
    cases r with
    | none => obtain ⟨-, rfl⟩ := pure_ok_inv h2; exact c1
    | some p => exact c1.trans (ih p s1 s' I1 h2)

theorem pop_seen {s s1 : State} {n : Nat} (hi : HeapInv s)
    (hr : rchRemoveMin.run.run s = (.ok (some n), s1)) : SeenEq s s1 := by
  obtain ⟨-, -, -, hs1, -⟩ := rchRemoveMin_inv hi hr
  show s1.maxHeightSeen = s.maxHeightSeen
  rw [hs1]

theorem drainHeap_seen' {env : Env} : ∀ (fuel : Nat) (s s' : State), DrainInv env s →
    (drainHeap env fuel).run.run s = (.ok (), s') → SeenEq s s' := by
  intro fuel
  induction fuel with
  | zero => intro s s' _ h; unfold drainHeap at h; cases h
  | succ fuel ih =>
    intro s s' I h
    unfold drainHeap at h
    obtain ⟨r, s1, h1, h2⟩ := bind_ok_inv h
    cases r with
    | none =>
      obtain ⟨-, rfl⟩ := pure_ok_inv h2
      obtain ⟨rfl, -⟩ := rchRemoveMin_inv I.heap h1
      exact SeenEq.refl _
    | some n =>
      obtain ⟨u, s2, h3, h4⟩ := bind_ok_inv h2
      obtain ⟨I1, -⟩ := pop_inv I h1
      obtain ⟨I2, -⟩ := recompute_inv fuel n s1 s2 I1 h3
      exact ((pop_seen I.heap h1).trans (recompute_seen fuel n s1 s2 I1 h3)).trans (ih s2 s' I2 h4)

/-- the drain of a static graph never sets a height -/
theorem drainHeap_seen {env : Env} {fuel : Nat} {s s' : State} (I : DrainInv env s)
    (h : (drainHeap env fuel).run.run s = (.ok (), s')) : s'.maxHeightSeen = s.maxHeightSeen :=
  drainHeap_seen' fuel s s' I h

/-! ## `stabiliseEnd` -/

/-- the invariant of the loops of `stabiliseEnd` -/
def MidQ (s t : State) : Prop := t.maxHeightSeen = s.maxHeightSeen ∧ t.observers = s.observers

/-- the end of a stabilisation without pending writes/handlers never sets a height -/
theorem stabiliseEnd_seen {env : Env} {fuel : Nat} {s s' : State} (h1 : s.setDuringStab = [])
    (h2 : s.deadVars = []) (hobs : ∀ (o : Nat) (ob : ObsRec), s.observers[o]? = some ob → ob.handlers = [])
    (h : (stabiliseEnd env fuel).run.run s = (.ok (), s')) : s'.maxHeightSeen = s.maxHeightSeen := by
  unfold stabiliseEnd at h
  obtain ⟨s1, e1, h⟩ := bind_modify_inv h
  rw [run_bind_get] at h
  try dsimp only at h
  obtain ⟨s2, e2, h⟩ := bind_modify_inv h
  have h1' : s1.setDuringStab = [] := by rw [e1]; exact h1
  rw [h1', List.forIn_nil] at h
  obtain ⟨_, s3, hp, h⟩ := bind_ok_inv h
  obtain ⟨_, e3⟩ := pure_ok_inv hp
  rw [e3] at h
  rw [run_bind_get] at h
  try dsimp only at h
  obtain ⟨s4, e4, h⟩ := bind_modify_inv h
  have h2' : s2.deadVars = [] := by rw [e2, e1]; exact h2
  rw [h2', List.forIn_nil] at h
  obtain ⟨_, s5, hp5, h⟩ := bind_ok_inv h
  obtain ⟨_, e5⟩ := pure_ok_inv hp5
  rw [e5] at h
  rw [run_bind_get] at h
  try dsimp only at h
  obtain ⟨s6, e6, h⟩ := bind_modify_inv h
  have M6 : MidQ s s6 := by
    rw [e6, e4, e2, e1]
    exact ⟨rfl, rfl⟩
  -- loop 3: only `inHandleAfterStab` flags change
  obtain ⟨q, s7, hl3, h⟩ := bind_ok_inv h
  have M7 : MidQ s s7 := by
    refine forIn_ok_keepB (MidQ s) _ _ ?_ _ _ _ _ M6 hl3
    intro n _ b t r t' Mt hb
    obtain ⟨t1, et1, hb⟩ := bind_modNode_inv hb
    rw [run_bind_get] at hb
    obtain ⟨_, et'⟩ := pure_ok_inv hb
    rw [et', et1]
    exact Mt
  obtain ⟨s8, e8, h⟩ := bind_modify_inv h
  rw [run_bind_get] at h
  -- loop 4: no handler runs
  obtain ⟨_, s9, hl4, h⟩ := bind_ok_inv h
  have e9 : s9 = s8 := by
    refine forIn_ok_keepB (fun t => t = s8) _ _ ?_ _ _ _ _ rfl hl4
    intro x _ b t r t' et hb
    obtain ⟨nd, _, hb⟩ := bind_getNode_inv hb
    obtain ⟨_, t1, hb1, hb⟩ := bind_ok_inv hb
    obtain ⟨_, et'⟩ := pure_ok_inv hb
    rw [et']
    refine forIn_ok_keepB (fun t => t = s8) _ _ ?_ _ _ _ _ et hb1
    intro o _ b2 u r2 u' eu hr
    obtain ⟨_, u1, hr1, hr⟩ := bind_ok_inv hr
    obtain ⟨_, eu'⟩ := pure_ok_inv hr
    rw [eu']
    have hobs' : ∀ (o : Nat) (ob : ObsRec), u.observers[o]? = some ob → ob.handlers = [] := by
      intro o ob ho
      rw [eu, e8] at ho
      exact hobs o ob (by rw [← M7.2]; exact ho)
    rw [runAll_nohandlers hobs' hr1]; exact eu
  obtain ⟨s10, e10, h⟩ := bind_modify_inv h
  rw [run_modify] at h
  obtain ⟨_, e11⟩ := Prod.mk.inj h
  rw [← e11, e10, e9, e8]
  exact M7.1

end IncrVerif.Proofs.HeightH
