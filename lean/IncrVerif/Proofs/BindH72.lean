import IncrVerif.Proofs.BindH71
/-!
# Binds, fragment F1, phase 3 (`lhsInvalidateOld`), part 2: the structural invariant after the dying generation has been invalidated

`Ctx`: the hypotheses of `InvalSpec1` + the exact description `CI.Mid s (· ∈ dy) s'` of the final state.  From it: `GInv1 env s' allClosed ex []` and
`IRel dy s s'`.  Headline: `inval_spec1 : InvalSpec1 env`.
-/
namespace IncrVerif.Proofs.BindH
open IncrVerif.Engine IncrVerif.Proofs IncrVerif.Proofs.Step IncrVerif.Proofs.Sched IncrVerif.Proofs.Quiet

namespace CI

/-- the situation after phase 3 -/
structure Ctx (env : Env) (s : State) (ex : Nat → Prop) (dy : List Nat) (b : Nat) (s' : State) : Prop where
  I : GInv1 env s allClosed ex dy
  hdy : ∀ m, m ∈ dy → (s.nodeD m).createdIn = .bind b ∧ (s.nodeD m).parents = [] ∧ (s.nodeD m).valid = true
  hrhs : ∀ br1 r, s.binds[b]? = some br1 → br1.rhs = some r → r ∉ dy
  hnf : ∀ m, (s.nodeD m).forceNecessary = false
  M : Mid s (fun m => m ∈ dy) s'

/-- the dying nodes are leaves -/
theorem leaf_of_dying {env : Env} {s : State} {ex : Nat → Prop} {dy : List Nat} {b : Nat}
    (I : GInv1 env s allClosed ex dy)
    (hdy : ∀ m, m ∈ dy → (s.nodeD m).createdIn = .bind b ∧ (s.nodeD m).parents = [] ∧ (s.nodeD m).valid = true)
    (hnf : ∀ m, (s.nodeD m).forceNecessary = false) (hnh : ∀ m, (s.nodeD m).numOnUpdateHandlers = 0)
    {a : Nat} (ha : a ∈ dy) : Leaf s a := by
  obtain ⟨hsc, hpar, hv⟩ := hdy a ha
  have hlt := (I.frag.dyIn a ha).1
  have hnec : s.isNecessary a = false := by
    simp only [State.isNecessary, Node.isNecessary, hpar, I.scopeObs a b hsc, hnf a]
    rfl
  refine ⟨hlt, hv, hnec, ?_, ?_, hnh a⟩
  · intro b' lc hk
    obtain ⟨h1, -⟩ := (I.frag.node a hlt).inScope b hsc
    rw [hk] at h1
    exact h1
  · cases hq : (s.nodeD a).inRch with
    | false => rfl
    | true =>
      rcases I.qnec a hq with h | ⟨k, h⟩
      · rw [hnec] at h; cases h
      · cases h

namespace Ctx
variable {env : Env} {s s' : State} {ex : Nat → Prop} {dy : List Nat} {b : Nat}

theorem kindEq (C : Ctx env s ex dy b s') (m : Nat) : (s'.nodeD m).kind = (s.nodeD m).kind := by
  by_cases h : m ∈ dy
  · rw [C.M.dead m h]; rfl
  · rw [C.M.other m h]

theorem createdEq (C : Ctx env s ex dy b s') (m : Nat) : (s'.nodeD m).createdIn = (s.nodeD m).createdIn := by
  by_cases h : m ∈ dy
  · rw [C.M.dead m h]; rfl
  · rw [C.M.other m h]

theorem cutoffEq (C : Ctx env s ex dy b s') (m : Nat) : (s'.nodeD m).cutoff = (s.nodeD m).cutoff := by
  by_cases h : m ∈ dy
  · rw [C.M.dead m h]; rfl
  · rw [C.M.other m h]

theorem parentsEq (C : Ctx env s ex dy b s') (m : Nat) : (s'.nodeD m).parents = (s.nodeD m).parents := by
  by_cases h : m ∈ dy
  · rw [C.M.dead m h]; rfl
  · rw [C.M.other m h]

theorem obsEq (C : Ctx env s ex dy b s') (m : Nat) : (s'.nodeD m).observers = (s.nodeD m).observers := by
  by_cases h : m ∈ dy
  · rw [C.M.dead m h]; rfl
  · rw [C.M.other m h]

theorem forceEq (C : Ctx env s ex dy b s') (m : Nat) :
    (s'.nodeD m).forceNecessary = (s.nodeD m).forceNecessary := by
  by_cases h : m ∈ dy
  · rw [C.M.dead m h]; rfl
  · rw [C.M.other m h]

theorem heightEq (C : Ctx env s ex dy b s') (m : Nat) : (s'.nodeD m).height = (s.nodeD m).height := by
  by_cases h : m ∈ dy
  · rw [C.M.dead m h]; rfl
  · rw [C.M.other m h]

theorem hrchEq (C : Ctx env s ex dy b s') (m : Nat) : (s'.nodeD m).heightInRch = (s.nodeD m).heightInRch := by
  by_cases h : m ∈ dy
  · rw [C.M.dead m h]; rfl
  · rw [C.M.other m h]

theorem inRchEq (C : Ctx env s ex dy b s') (m : Nat) : (s'.nodeD m).inRch = (s.nodeD m).inRch := by
  simp only [Node.inRch, C.hrchEq m]

theorem necEq (C : Ctx env s ex dy b s') (m : Nat) : s'.isNecessary m = s.isNecessary m := by
  simp only [State.isNecessary, Node.isNecessary, C.parentsEq m, C.obsEq m, C.forceEq m]

theorem deadInvalid (C : Ctx env s ex dy b s') {m : Nat} (h : m ∈ dy) : (s'.nodeD m).valid = false := by
  rw [C.M.dead m h]; rfl

theorem dyNec (C : Ctx env s ex dy b s') {m : Nat} (h : m ∈ dy) : s.isNecessary m = false := by
  obtain ⟨hsc, hpar, -⟩ := C.hdy m h
  simp only [State.isNecessary, Node.isNecessary, hpar, C.I.scopeObs m b hsc, C.hnf m]
  rfl

theorem dyUnq (C : Ctx env s ex dy b s') {m : Nat} (h : m ∈ dy) : (s.nodeD m).inRch = false := by
  cases hq : (s.nodeD m).inRch with
  | false => rfl
  | true =>
    rcases C.I.qnec m hq with h1 | ⟨k, h1⟩
    · rw [C.dyNec h] at h1; cases h1
    · cases h1

/-- no surviving node has a dying child -/
theorem kids_not_dying (C : Ctx env s ex dy b s') {m c : Nat} (hm : m ∉ dy) (hc : c ∈ s.children m) : c ∉ dy := by
  intro hcd
  have hml := lt_size_of_mem_children hc
  have N := C.I.frag.node m hml
  obtain ⟨hcs, -, -⟩ := C.hdy c hcd
  cases hsc : (s.nodeD m).createdIn with
  | top =>
    rcases (N.top hsc).2 c hc with ⟨h1, -⟩ | ⟨b', lc, hk, h1⟩
    · rw [hcs] at h1; cases h1
    · rw [hcs] at h1
      injection h1 with h1
      subst h1
      obtain ⟨br, hb, hmn, -⟩ := N.mainRec b lc hk
      have hch := C.I.main_children hb
      rw [hmn] at hch
      rw [hch] at hc
      rcases List.mem_cons.1 hc with e | e
      · obtain ⟨-, -, -, -, h5, -⟩ := C.I.frag.recs b br hb
        rw [← e, hcs] at h5
        cases h5
      · cases hr : br.rhs with
        | none => rw [hr] at e; cases e
        | some r =>
          rw [hr] at e
          simp only [Option.toList_some, List.mem_singleton] at e
          subst e
          exact C.hrhs br c hb hr hcd
  | bind b' =>
    obtain ⟨-, -, br, -, -, hkids⟩ := N.inScope b' hsc
    rcases hkids c hc with ⟨h1, -⟩ | ⟨-, -, h3⟩
    · rw [hcs] at h1; cases h1
    · exact hm (h3.1 hcd)

theorem children_other (C : Ctx env s ex dy b s') {m : Nat} (hm : m ∉ dy) : s'.children m = s.children m := by
  by_cases hl : m < s.nodes.size
  · exact children_congr_B (C.kindEq m) (by rw [C.M.other m hm]) C.M.binds (C.I.frag.node m hl).kind
  · rw [children_default s m (by omega), children_default s' m (by rw [C.M.size]; omega)]

theorem children_dead (C : Ctx env s ex dy b s') {m : Nat} (hm : m ∈ dy) : s'.children m = [] :=
  Inval.children_invalid s' m (C.deadInvalid hm)

theorem stale_other (C : Ctx env s ex dy b s') {m : Nat} (hm : m ∉ dy) : s'.isStale m = s.isStale m := by
  by_cases hl : m < s.nodes.size
  · refine isStale_congr_B (C.I.frag.node m hl).kind (C.kindEq m) (by rw [C.M.other m hm])
      (by rw [C.M.other m hm]) C.M.vars C.M.binds (fun c hc => ?_)
    rw [C.M.other c (C.kids_not_dying hm hc)]
  · rw [BL.isStale_default s m (by omega), BL.isStale_default s' m (by rw [C.M.size]; omega)]

/-! ## the static facts -/

theorem node' (C : Ctx env s ex dy b s') (n : Nat) (hn : n < s'.nodes.size) : N1 env s' [] n := by
  have hl : n < s.nodes.size := by rw [← C.M.size]; exact hn
  have N := C.I.frag.node n hl
  by_cases hd : n ∈ dy
  · -- a dead node: no children any more
    have hch := C.children_dead hd
    refine ⟨by rw [C.kindEq]; exact N.kind, by rw [C.cutoffEq]; exact N.cutoff, ?_, ?_, ?_, ?_, ?_, ?_, ?_⟩
    · intro c hc; rw [hch] at hc; cases hc
    · intro c hc; rw [hch] at hc; cases hc
    · rw [C.kindEq, C.M.binds]; exact N.lcRec
    · rw [C.kindEq, C.M.binds]; exact N.mainRec
    · intro c b' hc; rw [hch] at hc; cases hc
    · intro h
      rw [C.createdEq, (C.hdy n hd).1] at h
      cases h
    · intro b' h
      rw [C.createdEq] at h
      obtain ⟨h1, h2, br, h3, h4, -⟩ := N.inScope b' h
      refine ⟨by rw [C.kindEq]; exact h1, by rw [C.kindEq]; exact h2, br, by rw [C.M.binds]; exact h3, h4, ?_⟩
      intro c hc; rw [hch] at hc; cases hc
  · have hch := C.children_other hd
    refine ⟨by rw [C.kindEq]; exact N.kind, by rw [C.cutoffEq]; exact N.cutoff, ?_, ?_, ?_, ?_, ?_, ?_, ?_⟩
    · rw [hch, C.M.size]; exact N.kidsIn
    · intro c hc
      rw [hch] at hc
      rw [C.M.other c (C.kids_not_dying hd hc)]
      exact N.kidsValid c hc
    · rw [C.kindEq, C.M.binds]; exact N.lcRec
    · rw [C.kindEq, C.M.binds]; exact N.mainRec
    · intro c b' hc hk
      rw [hch] at hc
      rw [C.kindEq] at hk ⊢
      exact N.lcChild c b' hc hk
    · intro h
      rw [C.createdEq] at h
      obtain ⟨h1, h2⟩ := N.top h
      refine ⟨by rw [C.M.other n hd]; exact h1, ?_⟩
      intro c hc
      rw [hch] at hc
      rw [C.createdEq, C.kindEq]
      exact h2 c hc
    · intro b' h
      rw [C.createdEq] at h
      obtain ⟨h1, h2, br, h3, h4, h5⟩ := N.inScope b' h
      refine ⟨by rw [C.kindEq]; exact h1, by rw [C.kindEq]; exact h2, br, by rw [C.M.binds]; exact h3, h4, ?_⟩
      intro c hc
      rw [hch] at hc
      rw [C.createdEq]
      rcases h5 c hc with h6 | ⟨h6, h7, -⟩
      · exact Or.inl h6
      · exact Or.inr ⟨h6, h7, by simp⟩

theorem frag' (C : Ctx env s ex dy b s') : All1 env s' [] := by
  have A := C.I.frag
  refine ⟨by rw [C.M.pc]; exact A.pc, by rw [C.M.scope]; exact A.scope, C.node', ?_, ?_, ?_, ?_⟩
  · intro b' br hb
    rw [C.M.binds] at hb
    rw [C.M.size, C.kindEq, C.kindEq, C.createdEq, C.createdEq]
    exact A.recs b' br hb
  · intro b' br hb m
    rw [C.M.binds] at hb
    rw [C.M.size]
    constructor
    · rintro (h | ⟨h, -⟩)
      · have hnd := A.genDy b' br hb m h
        rw [C.M.other m hnd]
        exact (A.gen b' br hb m).1 (Or.inl h)
      · cases h
    · rintro ⟨h1, h2, h3⟩
      have hnd : m ∉ dy := fun hd => by rw [C.deadInvalid hd] at h2; cases h2
      rw [C.M.other m hnd] at h2 h3
      rcases (A.gen b' br hb m).2 ⟨h1, h2, h3⟩ with h | ⟨h, -⟩
      · exact Or.inl h
      · exact absurd h hnd
  · intro b' br _ m _ hm; cases hm
  · intro m hm; cases hm

/-! ## the structural invariant -/

theorem ginv' (C : Ctx env s ex dy b s') : GInv1 env s' allClosed ex [] where
  frag := C.frag'
  par c p i h := by
    rw [C.parentsEq] at h
    obtain ⟨h1, h2⟩ := C.I.par c p i h
    have hnec : s.isNecessary p = true := (wants_closed rfl).1 h2
    have hp : p ∉ dy := fun hd => by rw [C.dyNec hd] at hnec; cases hnec
    refine ⟨by rw [C.children_other hp]; exact h1, (wants_closed rfl).2 ?_⟩
    rw [C.necEq]; exact hnec
  conv p i c hk hw := by
    by_cases hp : p ∈ dy
    · rw [C.children_dead hp] at hk; simp at hk
    · rw [C.children_other hp] at hk
      rw [C.parentsEq]
      refine C.I.conv p i c hk ((wants_closed rfl).2 ?_)
      rw [← C.necEq]; exact (wants_closed rfl).1 hw
  nodup c := by rw [C.parentsEq]; exact C.I.nodup c
  hlt c p i h hop := by
    rw [C.parentsEq] at h
    rw [C.heightEq, C.heightEq]
    exact C.I.hlt c p i h hop
  hpos n hn hop := by
    rw [C.necEq] at hn
    rw [C.heightEq]
    exact C.I.hpos n hn hop
  lnec p k h := by cases h
  unec p k h := by cases h
  heap := C.I.heap.congr C.M.rch C.M.size C.hrchEq
  hgt m hm hop := by
    rw [C.inRchEq] at hm
    rw [C.hrchEq, C.heightEq]
    exact C.I.hgt m hm hop
  qnec m hm := by
    rw [C.inRchEq] at hm
    rw [C.necEq]
    exact C.I.qnec m hm
  queued m hop hn hs hex := by
    rw [C.necEq] at hn
    have hm : m ∉ dy := fun hd => by rw [C.dyNec hd] at hn; cases hn
    rw [C.stale_other hm] at hs
    rw [C.inRchEq]
    exact C.I.queued m hop hn hs hex
  qstale m hm := by
    rw [C.inRchEq] at hm
    have hnd : m ∉ dy := fun hd => by rw [C.dyUnq hd] at hm; cases hm
    rw [C.stale_other hnd]
    exact C.I.qstale m hm
  opLt m h := absurd rfl h
  scopeH n b' br hv hsc hb hn hop := by
    have hnd : n ∉ dy := fun hd => by rw [C.deadInvalid hd] at hv; cases hv
    rw [C.M.other n hnd] at hv
    rw [C.createdEq] at hsc
    rw [C.M.binds] at hb
    rw [C.necEq] at hn
    rw [C.heightEq, C.heightEq]
    exact C.I.scopeH n b' br hv hsc hb hn hop
  inv m hv := by
    by_cases hd : m ∈ dy
    · obtain ⟨hsc, hpar, -⟩ := C.hdy m hd
      refine ⟨by rw [C.parentsEq]; exact hpar, by rw [C.obsEq]; exact C.I.scopeObs m b hsc,
        by rw [C.forceEq]; exact C.hnf m, by rw [C.inRchEq]; exact C.dyUnq hd, rfl⟩
    · rw [C.M.other m hd] at hv ⊢
      exact C.I.inv m hv
  scopeObs m b' h := by
    rw [C.createdEq] at h
    rw [C.obsEq]
    exact C.I.scopeObs m b' h
  lcObs m b' h := by
    rw [C.kindEq] at h
    rw [C.obsEq]
    exact C.I.lcObs m b' h

/-- what phase 3 changed -/
theorem irel (C : Ctx env s ex dy b s') : IRel dy s s' where
  size := C.M.size
  other := C.M.other
  dead m hm := by
    obtain ⟨hsc, hpar, -⟩ := C.hdy m hm
    have hlt := (C.I.frag.dyIn m hm).1
    have hq := (inRch_false_iff _).1 (C.dyUnq hm)
    have hr : (s.nodeD m).heightInRch = -1 := by
      rcases C.I.heap.wf.range m hlt with h | ⟨h, -⟩
      · exact h
      · omega
    rw [C.M.dead m hm]
    exact ⟨rfl, rfl, rfl, hpar, C.I.scopeObs m b hsc, C.hnf m, hr, rfl, Int.le_refl _, Int.le_refl _, rfl⟩
  binds := C.M.binds
  vars := C.M.vars
  stabNum := C.M.stabNum
  status := C.M.status
  cfg := C.M.cfg
  scope := C.M.scope
  pc := C.M.pc
  rch := C.M.rch
  ahh := C.M.ahh
  top := C.M.top
  pinv := C.M.pinv

end Ctx

end CI

/-- **Phase 3 keeps the structural invariant**: invalidating the previous generation of a bind -/
theorem inval_spec1 (env : Env) : InvalSpec1 env := by
  intro fuel b br s s' ex h I hnone hdy hrhs hnf hnh hp
  have M := CI.lhsInvalidateOld_mid h hnone (fun a ha => CI.leaf_of_dying I hdy hnf hnh ha) hp
  have C : CI.Ctx env s ex br.allNodesCreatedOnRhs b s' := ⟨I, hdy, hrhs, hnf, M⟩
  exact ⟨C.ginv', C.irel⟩

end IncrVerif.Proofs.BindH
