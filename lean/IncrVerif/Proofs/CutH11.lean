import IncrVerif.Proofs.CutH8
-- Port of Proofs/Quiet5.lean to ARBITRARY cutoffs (scratch name Q5); overview in Props/C06History.lean
/-!
# Part 4: pure step lemmas for `GInv` (unlinking)
-/
namespace IncrVerif.Proofs.CutH
open IncrVerif.Engine IncrVerif.Proofs IncrVerif.Proofs.Step IncrVerif.Proofs.Sched


/-! ## helpers -/
namespace U4

theorem swapRemove_spec {α} [BEq α] [LawfulBEq α] (q : List α) (x : α) (idx : Nat) (hnd : q.Nodup)
    (hidx : q.idxOf? x = some idx) :
    (∀ m, m ∈ swapRemove q idx ↔ (m ∈ q ∧ m ≠ x)) ∧ (swapRemove q idx).Nodup := by
  rw [List.idxOf?_eq_some_iff] at hidx
  obtain ⟨hlt, hget, -⟩ := hidx
  unfold swapRemove
  cases hl : q.getLast? with
  | none =>
    rw [List.getLast?_eq_none_iff] at hl
    subst hl; simp at hlt
  | some last =>
    rw [List.getLast?_eq_some_iff] at hl
    obtain ⟨ys, rfl⟩ := hl
    have hlen : (ys ++ [last]).length = ys.length + 1 := by simp
    by_cases hc : idx = ys.length
    · subst hc
      simp at hget
      subst hget
      simp [List.nodup_append] at hnd ⊢
      refine ⟨fun m => ?_, hnd.1⟩
      constructor
      · intro hm; exact ⟨Or.inl hm, hnd.2 m hm⟩
      · rintro ⟨h1 | h1, h2⟩
        · exact h1
        · exact absurd h1 h2
    · have hlt' : idx < ys.length := by omega
      rw [List.getElem_append_left hlt'] at hget
      have hys : ys = ys.take idx ++ x :: ys.drop (idx + 1) := by
        rw [← hget]; simp
      have hset : (ys ++ [last]).set idx last = (ys.take idx ++ last :: ys.drop (idx + 1)) ++ [last] := by
        rw [List.set_append, if_pos hlt', List.set_eq_take_append_cons_drop, if_pos hlt']
      have hne : (idx + 1 == (ys ++ [last]).length) = false := by
        simp; omega
      simp only [hne, hset, List.dropLast_concat]
      generalize ys.take idx = A at *
      generalize ys.drop (idx+1) = B at *
      subst hys
      simp [List.nodup_append] at hnd ⊢
      grind

/-- the two states agree on everything the invariant reads except parents, observers, heap markers, heap -/
structure SameB (s s' : State) : Prop where
  pc : s'.panicCountdown = s.panicCountdown
  scope : s'.currentScope = s.currentScope
  size : s'.nodes.size = s.nodes.size
  vars : s'.vars = s.vars
  valid : ∀ m, (s'.nodeD m).valid = (s.nodeD m).valid
  kind : ∀ m, (s'.nodeD m).kind = (s.nodeD m).kind
  cutoff : ∀ m, (s'.nodeD m).cutoff = (s.nodeD m).cutoff
  createdIn : ∀ m, (s'.nodeD m).createdIn = (s.nodeD m).createdIn
  forceNecessary : ∀ m, (s'.nodeD m).forceNecessary = (s.nodeD m).forceNecessary
  height : ∀ m, (s'.nodeD m).height = (s.nodeD m).height
  recomputedAt : ∀ m, (s'.nodeD m).recomputedAt = (s.nodeD m).recomputedAt
  changedAt : ∀ m, (s'.nodeD m).changedAt = (s.nodeD m).changedAt

theorem SameB.refl (s : State) : SameB s s :=
  ⟨rfl, rfl, rfl, rfl, fun _ => rfl, fun _ => rfl, fun _ => rfl, fun _ => rfl, fun _ => rfl, fun _ => rfl,
   fun _ => rfl, fun _ => rfl⟩

theorem SameB.static {env : Env} {s s' : State} (h : SameB s s') (A : AllStatic env s) : AllStatic env s' := by
  refine ⟨by rw [h.pc]; exact A.pc, by rw [h.scope]; exact A.scope, fun n hn => ?_⟩
  have sn := A.node n (by rw [← h.size]; exact hn)
  exact ⟨by rw [h.valid]; exact sn.valid, by rw [h.kind]; exact sn.kind,
    by rw [h.createdIn]; exact sn.top, by rw [h.forceNecessary]; exact sn.force,
    by rw [h.kind]; exact sn.kidsLt⟩

theorem SameB.staleOf {s s' : State} (h : SameB s s') (m : Nat) : staleOf s' m = staleOf s m :=
  staleOf_congr (h.kind m) (h.recomputedAt m) h.vars (fun c _ => h.changedAt c)

/-- `f` only touches parents / observers -/
structure KeepB (f : Node → Node) : Prop where
  valid : ∀ x, (f x).valid = x.valid
  kind : ∀ x, (f x).kind = x.kind
  cutoff : ∀ x, (f x).cutoff = x.cutoff
  createdIn : ∀ x, (f x).createdIn = x.createdIn
  forceNecessary : ∀ x, (f x).forceNecessary = x.forceNecessary
  height : ∀ x, (f x).height = x.height
  heightInRch : ∀ x, (f x).heightInRch = x.heightInRch
  recomputedAt : ∀ x, (f x).recomputedAt = x.recomputedAt
  changedAt : ∀ x, (f x).changedAt = x.changedAt

theorem keepB_fParents (l : List (Nat × Nat)) : KeepB (fParents l) :=
  ⟨fun _ => rfl, fun _ => rfl, fun _ => rfl, fun _ => rfl, fun _ => rfl, fun _ => rfl, fun _ => rfl,
   fun _ => rfl, fun _ => rfl⟩

theorem keepB_fObservers (l : List Nat) : KeepB (fObservers l) :=
  ⟨fun _ => rfl, fun _ => rfl, fun _ => rfl, fun _ => rfl, fun _ => rfl, fun _ => rfl, fun _ => rfl,
   fun _ => rfl, fun _ => rfl⟩

theorem sameB_of_upd {n : Nat} {f : Node → Node} {s s' : State} (U : NodeUpd n f s s') (hf : KeepB f) :
    SameB s s' := by
  refine ⟨U.pc, U.scope, U.size, U.vars, ?_, ?_, ?_, ?_, ?_, ?_, ?_, ?_⟩ <;> intro m <;> by_cases e : m = n
  · rw [e, U.self.valid, hf.valid]
  · exact (U.other m e).valid
  · rw [e, U.self.kind, hf.kind]
  · exact (U.other m e).kind
  · rw [e, U.self.cutoff, hf.cutoff]
  · exact (U.other m e).cutoff
  · rw [e, U.self.createdIn, hf.createdIn]
  · exact (U.other m e).createdIn
  · rw [e, U.self.forceNecessary, hf.forceNecessary]
  · exact (U.other m e).forceNecessary
  · rw [e, U.self.height, hf.height]
  · exact (U.other m e).height
  · rw [e, U.self.recomputedAt, hf.recomputedAt]
  · exact (U.other m e).recomputedAt
  · rw [e, U.self.changedAt, hf.changedAt]
  · exact (U.other m e).changedAt

theorem hir_of_upd {n : Nat} {f : Node → Node} {s s' : State} (U : NodeUpd n f s s') (hf : KeepB f) (m : Nat) :
    (s'.nodeD m).heightInRch = (s.nodeD m).heightInRch := by
  by_cases e : m = n
  · rw [e, U.self.heightInRch, hf.heightInRch]
  · exact (U.other m e).heightInRch

theorem inRch_of_hir {s s' : State} {m : Nat} (h : (s'.nodeD m).heightInRch = (s.nodeD m).heightInRch) :
    (s'.nodeD m).inRch = (s.nodeD m).inRch := by
  simp only [Node.inRch, h]

theorem nec_congr {s s' : State} {m : Nat} (h1 : (s'.nodeD m).parents = (s.nodeD m).parents)
    (h2 : (s'.nodeD m).observers = (s.nodeD m).observers)
    (h3 : (s'.nodeD m).forceNecessary = (s.nodeD m).forceNecessary) :
    s'.isNecessary m = s.isNecessary m := by
  simp only [State.isNecessary, Node.isNecessary, h1, h2, h3]

/-- `Wants` of an open node does not depend on the state -/
theorem wants_open {s s' : State} {op op' : Nat → Op} {q i : Nat} (h : op' q = op q) (hq : op q ≠ .closed) :
    Wants s' op' q i ↔ Wants s op q i := by
  unfold Wants; rw [h]
  cases e : op q with
  | closed => exact absurd e hq
  | linking k => exact Iff.rfl
  | unlinking k => exact Iff.rfl

theorem wants_same {s : State} {op op' : Nat → Op} {q i : Nat} (h : op' q = op q) :
    Wants s op' q i ↔ Wants s op q i := by
  unfold Wants; rw [h]

theorem parents_nil_of_unnec {s : State} {n : Nat} (h : s.isNecessary n = false) : (s.nodeD n).parents = [] := by
  cases e : (s.nodeD n).parents with
  | nil => rfl
  | cons x l =>
    have : s.isNecessary n = true := nec_of_mem_parents (x := x) (by rw [e]; exact List.mem_cons_self)
    rw [h] at this; cases this

/-- the parents / observers of a closed necessary node `n` shrink; `n` stays closed if it is still necessary and
becomes `unlinking 0` otherwise; the labels of open nodes may move -/
theorem core {env : Env} {s s' : State} {op op' : Nat → Op} {n : Nat} (I : GInv env s op) (B : SameB s s')
    (hrch : s'.rch = s.rch) (hhr : ∀ m, (s'.nodeD m).heightInRch = (s.nodeD m).heightInRch)
    (hoth : ∀ m, m ≠ n → (s'.nodeD m).parents = (s.nodeD m).parents ∧
      (s'.nodeD m).observers = (s.nodeD m).observers)
    (hsub : ∀ x, x ∈ (s'.nodeD n).parents → x ∈ (s.nodeD n).parents)
    (hnd : (s'.nodeD n).parents.Nodup)
    (hkeep : ∀ q i, (q, i) ∈ (s.nodeD n).parents → op q = .closed → (q, i) ∈ (s'.nodeD n).parents)
    (hn : s.isNecessary n = true) (hcl : op n = .closed)
    (hd : (s'.isNecessary n = true ∧ op' n = .closed) ∨ (s'.isNecessary n = false ∧ op' n = .unlinking 0))
    (g1 : ∀ m, m ≠ n → (op' m = .closed ↔ op m = .closed))
    (g2 : ∀ m k, m ≠ n → (op' m = .linking k ↔ op m = .linking k))
    (g3 : ∀ m, m ≠ n → ((∃ k, op' m = .unlinking k) ↔ (∃ k, op m = .unlinking k)))
    (hpar : ∀ c q i, (q, i) ∈ (s'.nodeD c).parents → op q ≠ .closed → Wants s' op' q i)
    (hconv : ∀ q i c, (kids (s.nodeD q).kind)[i]? = some c → op q ≠ .closed → Wants s' op' q i →
      (q, i) ∈ (s'.nodeD c).parents) :
    GInv env s' op' := by
  have necO : ∀ m, m ≠ n → s'.isNecessary m = s.isNecessary m := fun m h =>
    nec_congr (hoth m h).1 (hoth m h).2 (B.forceNecessary m)
  have necI : ∀ m, s'.isNecessary m = true → s.isNecessary m = true := by
    intro m h
    by_cases e : m = n
    · rw [e]; exact hn
    · rw [← necO m e]; exact h
  have mem0 : ∀ c x, x ∈ (s'.nodeD c).parents → x ∈ (s.nodeD c).parents := by
    intro c x h
    by_cases e : c = n
    · rw [e] at h ⊢; exact hsub x h
    · rw [← (hoth c e).1]; exact h
  have Wn : ∀ i, Wants s' op' n i := by
    intro i
    rcases hd with ⟨h1, h2⟩ | ⟨h1, h2⟩
    · exact (wants_closed h2).2 h1
    · exact (wants_unlinking h2).2 (Nat.zero_le _)
  have cl : ∀ m, op' m = .closed → op m = .closed := by
    intro m h
    by_cases e : m = n
    · rw [e]; exact hcl
    · exact (g1 m e).1 h
  have inR : ∀ m, (s'.nodeD m).inRch = (s.nodeD m).inRch := fun m => inRch_of_hir (hhr m)
  have nopen : ∀ k, op' n ≠ .linking k := by
    intro k h
    rcases hd with ⟨_, h2⟩ | ⟨_, h2⟩ <;> rw [h2] at h <;> cases h
  refine { static := B.static I.static, par := ?_, conv := ?_, nodup := ?_, hlt := ?_, hpos := ?_, lnec := ?_,
           unec := ?_, heap := I.heap.congr hrch B.size hhr, hgt := ?_, qnec := ?_, queued := ?_, qstale := ?_,
           opLt := ?_ }
  · -- par
    intro c q i hm
    have hm0 := mem0 c _ hm
    refine ⟨by rw [B.kind]; exact (I.par c q i hm0).1, ?_⟩
    by_cases e : q = n
    · rw [e]; exact Wn i
    · by_cases hq : op q = .closed
      · rw [wants_closed ((g1 q e).2 hq), necO q e]
        exact (wants_closed hq).1 (I.par c q i hm0).2
      · exact hpar c q i hm hq
  · -- conv
    intro q i c hk hw
    rw [B.kind] at hk
    by_cases e : q = n
    · rw [e] at hk ⊢
      have hm0 := I.conv n i c hk ((wants_closed hcl).2 hn)
      have hc : c ≠ n := Nat.ne_of_lt (I.kid_lt hk)
      rw [(hoth c hc).1]; exact hm0
    · by_cases hq : op q = .closed
      · rw [wants_closed ((g1 q e).2 hq)] at hw
        have hm0 := I.conv q i c hk ((wants_closed hq).2 (necI q hw))
        by_cases hc : c = n
        · rw [hc] at hm0 ⊢; exact hkeep q i hm0 hq
        · rw [(hoth c hc).1]; exact hm0
      · exact hconv q i c hk hq hw
  · -- nodup
    intro c
    by_cases hc : c = n
    · rw [hc]; exact hnd
    · rw [(hoth c hc).1]; exact I.nodup c
  · -- hlt
    intro c q i hm ho
    rw [B.height, B.height]
    exact I.hlt c q i (mem0 c _ hm) (cl q ho)
  · -- hpos
    intro m hm ho
    rw [B.height]; exact I.hpos m (necI m hm) (cl m ho)
  · -- lnec
    intro q k ho
    have e : q ≠ n := fun e => nopen k (e ▸ ho)
    rw [necO q e, inR]
    exact I.lnec q k ((g2 q k e).1 ho)
  · -- unec
    intro q k ho
    by_cases e : q = n
    · rw [e] at ho ⊢
      rcases hd with ⟨_, h2⟩ | ⟨h1, _⟩
      · rw [h2] at ho; cases ho
      · exact h1
    · obtain ⟨k', h⟩ := (g3 q e).1 ⟨k, ho⟩
      rw [necO q e]; exact I.unec q k' h
  · -- hgt
    intro m hq ho
    rw [inR] at hq
    rw [hhr, B.height]; exact I.hgt m hq (cl m ho)
  · -- qnec
    intro m hq
    rw [inR] at hq
    by_cases e : m = n
    · rw [e]
      rcases hd with ⟨h1, _⟩ | ⟨_, h2⟩
      · exact Or.inl h1
      · exact Or.inr ⟨0, h2⟩
    · rcases I.qnec m hq with h | h
      · exact Or.inl (by rw [necO m e]; exact h)
      · exact Or.inr ((g3 m e).2 h)
  · -- queued
    intro m ho hm hs
    rw [B.staleOf] at hs
    rw [inR]; exact I.queued m (cl m ho) (necI m hm) hs
  · -- qstale
    intro m hq
    rw [inR] at hq
    rw [B.staleOf]; exact I.qstale m hq
  · -- opLt
    intro m ho
    rw [B.size]
    by_cases e : m = n
    · rw [e]; exact nec_lt_size hn
    · exact I.opLt m (fun h => ho ((g1 m e).2 h))

theorem g1_upd {op : Nat → Op} {p a b : Nat} (hop : op p = .unlinking a) (m : Nat) :
    upd op p (.unlinking b) m = .closed ↔ op m = .closed := by
  simp only [upd]; split
  · rename_i e; rw [e, hop]; constructor <;> intro h <;> cases h
  · exact Iff.rfl

theorem g2_upd {op : Nat → Op} {p a b : Nat} (hop : op p = .unlinking a) (m k : Nat) :
    upd op p (.unlinking b) m = .linking k ↔ op m = .linking k := by
  simp only [upd]; split
  · rename_i e; rw [e, hop]; constructor <;> intro h <;> cases h
  · exact Iff.rfl

theorem g3_upd {op : Nat → Op} {p a b : Nat} (hop : op p = .unlinking a) (m : Nat) :
    (∃ k, upd op p (.unlinking b) m = .unlinking k) ↔ (∃ k, op m = .unlinking k) := by
  simp only [upd]; split
  · rename_i e; rw [e, hop]; exact ⟨fun _ => ⟨a, rfl⟩, fun _ => ⟨b, rfl⟩⟩
  · exact Iff.rfl

theorem removedAt_nodeD (n h : Nat) (q : List Nat) (idx : Nat) (s : State) (m : Nat) :
    (removedAt n h q idx s).nodeD m =
      if n = m ∧ m < s.nodes.size then { s.nodeD m with heightInRch := -1 } else s.nodeD m :=
  nodeD_modify s n m _

end U4

section
variable {env : Env} {s s' : State} {op : Nat → Op}

/-! ## unlinking -/

/-- `removeParent c idx p` -/
theorem GInv.removeEdge {c p idx pi : Nat} (I : GInv env s op)
    (hidx : (s.nodeD c).parents.idxOf? (p, idx) = some pi)
    (U : NodeUpd c (fParents (swapRemove (s.nodeD c).parents pi)) s s')
    (hop : op p = .unlinking idx) (hk : (kids (s.nodeD p).kind)[idx]? = some c) (hcl : op c = .closed) :
    (s'.isNecessary c = true → GInv env s' (upd op p (.unlinking (idx + 1)))) ∧
    (s'.isNecessary c = false →
      GInv env s' (upd (upd op p (.unlinking (idx + 1))) c (.unlinking 0))) := by
  have B := U4.sameB_of_upd U (U4.keepB_fParents _)
  have hhr := U4.hir_of_upd U (U4.keepB_fParents _)
  have hpc : (s'.nodeD c).parents = swapRemove (s.nodeD c).parents pi := U.self.parents
  obtain ⟨hmem, hnd'⟩ := U4.swapRemove_spec _ _ _ (I.nodup c) hidx
  rw [← hpc] at hmem hnd'
  have hoth : ∀ m, m ≠ c → (s'.nodeD m).parents = (s.nodeD m).parents ∧
      (s'.nodeD m).observers = (s.nodeD m).observers :=
    fun m h => ⟨(U.other m h).parents, (U.other m h).observers⟩
  have hin : (p, idx) ∈ (s.nodeD c).parents := I.conv p idx c hk ((wants_unlinking hop).2 (Nat.le_refl _))
  have hn : s.isNecessary c = true := nec_of_mem_parents hin
  have hpc' : p ≠ c := Nat.ne_of_gt (I.kid_lt hk)
  have mem0 : ∀ c' x, x ∈ (s'.nodeD c').parents → x ∈ (s.nodeD c').parents := by
    intro c' x h
    by_cases e : c' = c
    · rw [e] at h ⊢; exact ((hmem x).1 h).1
    · rw [← (hoth c' e).1]; exact h
  have common : ∀ op' : Nat → Op,
      ((s'.isNecessary c = true ∧ op' c = .closed) ∨ (s'.isNecessary c = false ∧ op' c = .unlinking 0)) →
      (∀ m, m ≠ c → op' m = upd op p (.unlinking (idx + 1)) m) → GInv env s' op' := by
    intro op' hd ho
    refine U4.core I B U.rch hhr hoth (fun x h => ((hmem x).1 h).1) hnd' ?_ hn hcl hd
      (fun m e => by rw [ho m e]; exact U4.g1_upd hop m) (fun m k e => by rw [ho m e]; exact U4.g2_upd hop m k)
      (fun m e => by rw [ho m e]; exact U4.g3_upd hop m) ?_ ?_
    · intro q i h hq
      refine (hmem (q, i)).2 ⟨h, fun e => ?_⟩
      have : q = p := congrArg Prod.fst e
      rw [this, hop] at hq; cases hq
    · intro c' q i hm hq
      have hm0 := mem0 c' _ hm
      have e : q ≠ c := fun e => hq (e ▸ hcl)
      by_cases ep : q = p
      · rw [ep] at hm hm0 ⊢
        have h1 := I.par c' p i hm0
        have h2 : idx ≤ i := (wants_unlinking hop).1 h1.2
        have hop' : op' p = .unlinking (idx + 1) := by rw [ho p hpc', upd_self]
        rw [wants_unlinking hop']
        by_cases ei : i = idx
        · rw [ei] at h1 hm
          have : c' = c := by
            have := h1.1; rw [hk] at this; exact (Option.some.inj this).symm
          rw [this] at hm
          exact absurd rfl ((hmem _).1 hm).2
        · omega
      · have hop' : op' q = op q := by rw [ho q e, upd_other _ _ _ ep]
        exact (U4.wants_open hop' hq).2 (I.par c' q i hm0).2
    · intro q i c' hk' hq hw
      have e : q ≠ c := fun e => hq (e ▸ hcl)
      by_cases ep : q = p
      · rw [ep] at hk' hw ⊢
        have hop' : op' p = .unlinking (idx + 1) := by rw [ho p hpc', upd_self]
        rw [wants_unlinking hop'] at hw
        have hm0 := I.conv p i c' hk' ((wants_unlinking hop).2 (by omega))
        by_cases ec : c' = c
        · rw [ec] at hm0 ⊢
          refine (hmem _).2 ⟨hm0, fun h => ?_⟩
          have : i = idx := congrArg Prod.snd h
          omega
        · rw [(hoth c' ec).1]; exact hm0
      · have hop' : op' q = op q := by rw [ho q e, upd_other _ _ _ ep]
        have hm0 := I.conv q i c' hk' ((U4.wants_open hop' hq).1 hw)
        by_cases ec : c' = c
        · rw [ec] at hm0 ⊢
          exact (hmem _).2 ⟨hm0, fun h => ep (congrArg Prod.fst h)⟩
        · rw [(hoth c' ec).1]; exact hm0
  constructor
  · intro h
    refine common _ (Or.inl ⟨h, ?_⟩) (fun _ _ => rfl)
    rw [upd_other _ _ _ (Ne.symm hpc')]; exact hcl
  · intro h
    exact common _ (Or.inr ⟨h, upd_self _ _ _⟩) (fun m e => upd_other _ _ _ e)

/-- the entry that `removeParent c idx p` looks for exists -/
theorem GInv.removeEdge_mem {c p idx : Nat} (I : GInv env s op)
    (hop : op p = .unlinking idx) (hk : (kids (s.nodeD p).kind)[idx]? = some c) :
    (p, idx) ∈ (s.nodeD c).parents :=
  I.conv p idx c hk ((wants_unlinking hop).2 (Nat.le_refl _))

/-- closing an unlinking node that is not queued -/
theorem GInv.close_unlink {n k : Nat} (I : GInv env s op) (hop : op n = .unlinking k)
    (hk : (kids (s.nodeD n).kind).length ≤ k) (hq : (s.nodeD n).inRch = false) :
    GInv env s (upd op n .closed) := by
  have hun := I.unec n k hop
  have noent : ∀ c i, (n, i) ∉ (s.nodeD c).parents := by
    intro c i h
    have h1 := I.par c n i h
    have h2 : k ≤ i := (wants_unlinking hop).1 h1.2
    have h3 : i < (kids (s.nodeD n).kind).length := (List.getElem?_eq_some_iff.1 h1.1).1
    omega
  have oo : ∀ m, m ≠ n → upd op n .closed m = op m := fun m e => upd_other _ _ _ e
  have on : upd op n .closed n = .closed := upd_self _ _ _
  refine { static := I.static, par := ?_, conv := ?_, nodup := I.nodup, hlt := ?_, hpos := ?_, lnec := ?_,
           unec := ?_, heap := I.heap, hgt := ?_, qnec := ?_, queued := ?_, qstale := I.qstale, opLt := ?_ }
  · intro c q i hm
    have e : q ≠ n := fun e => noent c i (e ▸ hm)
    exact ⟨(I.par c q i hm).1, (U4.wants_same (oo q e)).2 (I.par c q i hm).2⟩
  · intro q i c hk' hw
    by_cases e : q = n
    · rw [e] at hw
      rw [wants_closed on, hun] at hw; cases hw
    · exact I.conv q i c hk' ((U4.wants_same (oo q e)).1 hw)
  · intro c q i hm ho
    have e : q ≠ n := fun e => noent c i (e ▸ hm)
    exact I.hlt c q i hm (by rw [← oo q e]; exact ho)
  · intro m hm ho
    have e : m ≠ n := fun e => by rw [e, hun] at hm; cases hm
    exact I.hpos m hm (by rw [← oo m e]; exact ho)
  · intro q kk ho
    have e : q ≠ n := fun e => by rw [e, on] at ho; cases ho
    rw [oo q e] at ho; exact I.lnec q kk ho
  · intro q kk ho
    have e : q ≠ n := fun e => by rw [e, on] at ho; cases ho
    rw [oo q e] at ho; exact I.unec q kk ho
  · intro m hq' ho
    have e : m ≠ n := fun e => by rw [e, hq] at hq'; cases hq'
    exact I.hgt m hq' (by rw [← oo m e]; exact ho)
  · intro m hq'
    have e : m ≠ n := fun e => by rw [e, hq] at hq'; cases hq'
    rcases I.qnec m hq' with h | ⟨k', h⟩
    · exact Or.inl h
    · exact Or.inr ⟨k', by rw [oo m e]; exact h⟩
  · intro m ho hm hs
    have e : m ≠ n := fun e => by rw [e, hun] at hm; cases hm
    exact I.queued m (by rw [← oo m e]; exact ho) hm hs
  · intro m ho
    by_cases e : m = n
    · rw [e]; exact I.opLt n (by rw [hop]; intro h; cases h)
    · exact I.opLt m (by rw [← oo m e]; exact ho)

/-- a successful `rchRemove` of an unlinking node -/
theorem GInv.rchRemove_open {n k : Nat} {u : Unit} (I : GInv env s op) (hop : op n = .unlinking k)
    (hr : (rchRemove n).run.run s = (.ok u, s')) :
    GInv env s' op ∧ (s'.nodeD n).inRch = false := by
  obtain ⟨nd, q, idx, hnd, h0, hq, hi, hs'⟩ := rchRemove_ok_inv hr
  obtain ⟨hH, hnq, hoth, -, -⟩ := I.heap.removed hr
  refine ⟨?_, hnq⟩
  have hsz : s'.nodes.size = s.nodes.size := by rw [hs']; simp [removedAt]
  have B : U4.SameB s s' := by
    refine ⟨by rw [hs']; rfl, by rw [hs']; rfl, hsz, by rw [hs']; rfl, ?_, ?_, ?_, ?_, ?_, ?_, ?_, ?_⟩ <;>
      intro m <;> rw [hs', U4.removedAt_nodeD] <;> split <;> rfl
  have hP : ∀ m, (s'.nodeD m).parents = (s.nodeD m).parents := by
    intro m; rw [hs', U4.removedAt_nodeD]; split <;> rfl
  have hO : ∀ m, (s'.nodeD m).observers = (s.nodeD m).observers := by
    intro m; rw [hs', U4.removedAt_nodeD]; split <;> rfl
  have nec : ∀ m, s'.isNecessary m = s.isNecessary m := fun m => U4.nec_congr (hP m) (hO m) (B.forceNecessary m)
  have wants : ∀ q i, Wants s' op q i ↔ Wants s op q i := by
    intro q i; unfold Wants; rw [nec]
  have inR : ∀ m, m ≠ n → (s'.nodeD m).inRch = (s.nodeD m).inRch := fun m e => U4.inRch_of_hir (hoth m e)
  have nq : ∀ m, (s'.nodeD m).inRch = true → m ≠ n := fun m h e => by rw [e, hnq] at h; cases h
  refine { static := B.static I.static, par := ?_, conv := ?_, nodup := ?_, hlt := ?_, hpos := ?_, lnec := ?_,
           unec := ?_, heap := hH, hgt := ?_, qnec := ?_, queued := ?_, qstale := ?_, opLt := ?_ }
  · intro c p i hm
    rw [hP] at hm
    rw [B.kind, wants]; exact I.par c p i hm
  · intro p i c hk hw
    rw [B.kind] at hk
    rw [wants] at hw
    rw [hP]; exact I.conv p i c hk hw
  · intro c; rw [hP]; exact I.nodup c
  · intro c p i hm ho
    rw [hP] at hm
    rw [B.height, B.height]; exact I.hlt c p i hm ho
  · intro m hm ho
    rw [nec] at hm
    rw [B.height]; exact I.hpos m hm ho
  · intro p kk ho
    have e : p ≠ n := fun e => by rw [e, hop] at ho; cases ho
    rw [nec, inR p e]; exact I.lnec p kk ho
  · intro p kk ho
    rw [nec]; exact I.unec p kk ho
  · intro m hq' ho
    have e := nq m hq'
    rw [inR m e] at hq'
    rw [hoth m e, B.height]; exact I.hgt m hq' ho
  · intro m hq'
    have e := nq m hq'
    rw [inR m e] at hq'
    rw [nec]; exact I.qnec m hq'
  · intro m ho hm hs
    have e : m ≠ n := fun e => by rw [e, hop] at ho; cases ho
    rw [nec] at hm
    rw [B.staleOf] at hs
    rw [inR m e]; exact I.queued m ho hm hs
  · intro m hq'
    have e := nq m hq'
    rw [inR m e] at hq'
    rw [B.staleOf]; exact I.qstale m hq'
  · intro m ho
    rw [hsz]; exact I.opLt m ho

/-- removing an observer from a closed node -/
theorem GInv.remObs {n : Nat} {l : List Nat} (I : GInv env s op) (U : NodeUpd n (fObservers l) s s')
    (hcl : op n = .closed) (hn : s.isNecessary n = true) :
    (s'.isNecessary n = true → GInv env s' op) ∧
    (s'.isNecessary n = false → GInv env s' (upd op n (.unlinking 0))) := by
  have B := U4.sameB_of_upd U (U4.keepB_fObservers l)
  have hhr := U4.hir_of_upd U (U4.keepB_fObservers l)
  have hpn : (s'.nodeD n).parents = (s.nodeD n).parents := U.self.parents
  have hoth : ∀ m, m ≠ n → (s'.nodeD m).parents = (s.nodeD m).parents ∧
      (s'.nodeD m).observers = (s.nodeD m).observers :=
    fun m h => ⟨(U.other m h).parents, (U.other m h).observers⟩
  have hpall : ∀ m, (s'.nodeD m).parents = (s.nodeD m).parents := by
    intro m
    by_cases e : m = n
    · rw [e]; exact hpn
    · exact (hoth m e).1
  have common : ∀ op' : Nat → Op,
      ((s'.isNecessary n = true ∧ op' n = .closed) ∨ (s'.isNecessary n = false ∧ op' n = .unlinking 0)) →
      (∀ m, m ≠ n → op' m = op m) → GInv env s' op' := by
    intro op' hd ho
    refine U4.core I B U.rch hhr hoth (fun x h => by rw [← hpn]; exact h) (by rw [hpn]; exact I.nodup n)
      (fun q i h _ => by rw [hpn]; exact h) hn hcl hd
      (fun m e => by rw [ho m e]) (fun m k e => by rw [ho m e]) (fun m e => by rw [ho m e]) ?_ ?_
    · intro c q i hm hq
      have e : q ≠ n := fun e => hq (e ▸ hcl)
      rw [hpall] at hm
      exact (U4.wants_open (ho q e) hq).2 (I.par c q i hm).2
    · intro q i c hk hq hw
      have e : q ≠ n := fun e => hq (e ▸ hcl)
      rw [hpall]
      exact I.conv q i c hk ((U4.wants_open (ho q e) hq).1 hw)
  constructor
  · intro h; exact common op (Or.inl ⟨h, hcl⟩) (fun _ _ => rfl)
  · intro h; exact common _ (Or.inr ⟨h, upd_self _ _ _⟩) (fun m e => upd_other _ _ _ e)

end

end IncrVerif.Proofs.CutH
