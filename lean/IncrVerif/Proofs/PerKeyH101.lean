import IncrVerif.Proofs.PerKeyH100
/-!
# Per-key operators, API actions part 10: `create (.perKey ..)` — fragment, heap, frame, staleness, slots, key sets
-/
namespace IncrVerif.Proofs.PerKeyH
open IncrVerif.Engine IncrVerif.Driver IncrVerif.Proofs IncrVerif.Proofs.Step IncrVerif.Proofs.Sched
open IncrVerif.Proofs.ExpertH IncrVerif.Proofs.EffH IncrVerif.Proofs.DriverH

section
variable {env : Env} {s : State} (fam : FamCut) (a0 : Nat)

/-! ## the fragment -/

theorem pfrag_pkc (F : PFrag env s) : PFrag env (pkCreated fam a0 s) := by
  refine ⟨F.pc, fun n hn => ?_, fun n hn => ?_, fun n hn => ?_, fun n hn => ?_, fun n hn => ?_,
    fun n e hn hk => ?_, fun e er he => ?_, fun e er he => ?_, rfl⟩
  · rcases pkc_cases fam a0 s hn with h | rfl | rfl | rfl | rfl
    · rw [pkc_nodeD_lt fam a0 s h]; exact F.kind n h
    · rw [pkc_nodeD_0]; exact Or.inr (Or.inr (Or.inl rfl))
    · rw [pkc_nodeD_1]; trivial
    · rw [pkc_nodeD_2]; exact Or.inr (Or.inr (Or.inr (Nat.le_add_right _ _)))
    · rw [pkc_nodeD_3]; exact Or.inr (Or.inr (Or.inl rfl))
  · rcases pkc_cases fam a0 s hn with h | rfl | rfl | rfl | rfl
    · rw [pkc_nodeD_lt fam a0 s h]; exact F.valid n h
    · rw [pkc_nodeD_0]
    · rw [pkc_nodeD_1]
    · rw [pkc_nodeD_2]
    · rw [pkc_nodeD_3]
  · rcases pkc_cases fam a0 s hn with h | rfl | rfl | rfl | rfl
    · rw [pkc_nodeD_lt fam a0 s h]; exact F.cutoff n h
    · rw [pkc_nodeD_0]
    · rw [pkc_nodeD_1]
    · rw [pkc_nodeD_2]
    · rw [pkc_nodeD_3]
  · rcases pkc_cases fam a0 s hn with h | rfl | rfl | rfl | rfl
    · rw [pkc_nodeD_lt fam a0 s h]; exact F.top n h
    · rw [pkc_nodeD_0]
    · rw [pkc_nodeD_1]
    · rw [pkc_nodeD_2]
    · rw [pkc_nodeD_3]
  · rcases pkc_cases fam a0 s hn with h | rfl | rfl | rfl | rfl
    · rw [pkc_nodeD_lt fam a0 s h]; exact F.force n h
    · rw [pkc_nodeD_0]
    · rw [pkc_nodeD_1]
    · rw [pkc_nodeD_2]
    · rw [pkc_nodeD_3]
  · rcases pkc_cases fam a0 s hn with h | rfl | rfl | rfl | rfl
    · rw [pkc_nodeD_lt fam a0 s h] at hk
      obtain ⟨er, he, hnode⟩ := F.xrec n e h hk
      exact ⟨er, pkc_expert_old fam a0 s he, hnode⟩
    · rw [pkc_nodeD_0] at hk; cases hk
    · rw [pkc_nodeD_1] at hk; cases hk
      exact ⟨pkNewRec s, pkc_expert_new fam a0 s, rfl⟩
    · rw [pkc_nodeD_2] at hk; cases hk
    · rw [pkc_nodeD_3] at hk; cases hk
  · rcases pkc_expert_inv fam a0 s he with h | ⟨rfl, rfl⟩
    · obtain ⟨h1, h2⟩ := F.xnode e er h
      exact ⟨by rw [pkc_size]; omega, by rw [pkc_nodeD_lt fam a0 s h1]; exact h2⟩
    · exact ⟨by rw [pkc_size]; show s.nodes.size + 1 < _; omega, by
        show ((pkCreated fam a0 s).nodeD (s.nodes.size + 1)).kind = _
        rw [pkc_nodeD_1]⟩
  · rcases pkc_expert_inv fam a0 s he with h | ⟨rfl, rfl⟩
    · exact F.xok e er h
    · exact ⟨rfl, rfl, rfl⟩

theorem ahhEmpty_pkc (A : QR.AhhEmpty s) : QR.AhhEmpty (pkCreated fam a0 s) := by
  refine ⟨A.length, A.buckets, fun m => ?_⟩
  by_cases hm : m < (pkCreated fam a0 s).nodes.size
  · rcases pkc_cases fam a0 s hm with h | rfl | rfl | rfl | rfl
    · rw [pkc_nodeD_lt fam a0 s h]; exact A.marks m
    · rw [pkc_nodeD_0]
    · rw [pkc_nodeD_1]
    · rw [pkc_nodeD_2]
    · rw [pkc_nodeD_3]
  · rw [nodeD_default_ge _ m (by omega)]; rfl

/-! ## the frame -/

theorem kidsX_pkc_old (F : PFrag env s) {m : Nat} (hm : m < s.nodes.size) :
    kidsX (pkCreated fam a0 s).experts ((pkCreated fam a0 s).nodeD m).kind = kidsX s.experts (s.nodeD m).kind := by
  rw [pkc_nodeD_lt fam a0 s hm]
  cases hk : (s.nodeD m).kind <;> try rfl
  rename_i e
  obtain ⟨er, he, -⟩ := F.xrec m e hm hk
  simp only [kidsX]
  rw [xRec_pkc_lt fam a0 s (Array.getElem?_eq_some_iff.1 he).1]

theorem kf_pkc (F : PFrag env s) : KF s (pkCreated fam a0 s) :=
  ⟨by rw [pkc_size]; omega, fun m hm => by rw [pkc_nodeD_lt fam a0 s hm],
    fun e er he => ⟨er, pkc_expert_old fam a0 s he, rfl⟩, fun j n h => pkc_top_old fam a0 s h,
    fun m hm => kidsX_pkc_old fam a0 F hm,
    fun m e hm hk hs => V_stamp_keep hk (by rw [pkc_nodeD_lt fam a0 s hm]) (by rw [pkc_nodeD_lt fam a0 s hm]) (by
      obtain ⟨er, he, -⟩ := F.xrec m e hm hk
      rw [xRec_pkc_lt fam a0 s (Array.getElem?_eq_some_iff.1 he).1]; exact id) hs⟩

/-- the children of the new nodes -/
theorem kidsX_pkc_new {c x : Nat} (hc : s.nodes.size ≤ c)
    (hx : x ∈ kidsX (pkCreated fam a0 s).experts ((pkCreated fam a0 s).nodeD c).kind) :
    (c = s.nodes.size ∧ x = a0) ∨ (c = s.nodes.size + 1 ∧ x = s.nodes.size + 2) ∨
      (c = s.nodes.size + 2 ∧ x = s.nodes.size) ∨ (c = s.nodes.size + 3 ∧ x = s.nodes.size + 1) := by
  by_cases hlt : c < (pkCreated fam a0 s).nodes.size
  · rcases pkc_cases fam a0 s hlt with h | rfl | rfl | rfl | rfl
    · omega
    · rw [pkc_nodeD_0] at hx
      simp only [kidsX, List.mem_cons, List.not_mem_nil, or_false] at hx
      exact Or.inl ⟨rfl, hx⟩
    · rw [pkc_nodeD_1] at hx
      simp only [kidsX, xRec_some (pkc_expert_new fam a0 s), pkNewRec, List.map, List.mem_cons, List.not_mem_nil,
        or_false] at hx
      exact Or.inr (Or.inl ⟨rfl, hx⟩)
    · rw [pkc_nodeD_2] at hx
      simp only [kidsX, List.mem_cons, List.not_mem_nil, or_false] at hx
      exact Or.inr (Or.inr (Or.inl ⟨rfl, hx⟩))
    · rw [pkc_nodeD_3] at hx
      simp only [kidsX, List.mem_cons, List.not_mem_nil, or_false] at hx
      exact Or.inr (Or.inr (Or.inr ⟨rfl, hx⟩))
  · rw [nodeD_default_ge _ c (by omega)] at hx
    simp [kidsX_default] at hx

/-! ## staleness and values of old nodes -/

theorem children_eq_kidsX (F : PFrag env s) (m : Nat) : s.children m = kidsX s.experts (s.nodeD m).kind := by
  unfold State.children Node.kind?
  rw [F.validD m]
  simp only [if_true]
  have hk := F.kindD m
  cases hkd : (s.nodeD m).kind <;> rw [hkd] at hk <;> try exact hk.elim
  all_goals try rfl
  rename_i e
  simp only [kidsX, xRec]
  cases s.experts[e]? <;> rfl

theorem children_pkc_old (F : PFrag env s) {m : Nat} (hm : m < s.nodes.size) :
    (pkCreated fam a0 s).children m = s.children m := by
  rw [children_eq_kidsX (pfrag_pkc fam a0 F), children_eq_kidsX F, kidsX_pkc_old fam a0 F hm]

theorem isStale_pkc_old (F : PFrag env s)
    (hin : ∀ n c, n < s.nodes.size → c ∈ kidsX s.experts (s.nodeD n).kind → c < s.nodes.size) {m : Nat}
    (hm : m < s.nodes.size) : (pkCreated fam a0 s).isStale m = s.isStale m := by
  have hch : ∀ c, c ∈ s.children m → (pkCreated fam a0 s).nodeD c = s.nodeD c := by
    intro c hc
    rw [children_eq_kidsX F] at hc
    exact pkc_nodeD_lt fam a0 s (hin m c hm hc)
  unfold State.isStale
  rw [children_pkc_old fam a0 F hm, pkc_nodeD_lt fam a0 s hm]
  have hany : ((s.children m).any fun c => decide (((pkCreated fam a0 s).nodeD c).changedAt > (s.nodeD m).recomputedAt))
      = ((s.children m).any fun c => decide ((s.nodeD c).changedAt > (s.nodeD m).recomputedAt)) :=
    any_congr_mem fun c hc => by rw [hch c hc]
  simp only [hany]
  cases hk : (s.nodeD m).kind? <;> try rfl
  rename_i k
  cases k <;> try rfl
  rename_i e
  have hkk : (s.nodeD m).kind = .expert e := by
    unfold Node.kind? at hk
    split at hk
    · exact Option.some.inj hk
    · cases hk
  obtain ⟨er, he, -⟩ := F.xrec m e hm hkk
  simp only [pkc_expert_lt fam a0 s (Array.getElem?_eq_some_iff.1 he).1]

theorem value_pkc_old (F : PFrag env s) {m : Nat} (hm : m < s.nodes.size) :
    (pkCreated fam a0 s).value env m = s.value env m := by
  have h1 : ∀ p i, (s.nodeD m).kind ≠ .mapRef p i := by
    intro p i h; have := F.kindD m; rw [h] at this; exact this
  rw [value_plain env _ m (by rw [pkc_nodeD_lt fam a0 s hm]; exact h1), value_plain env s m h1,
    pkc_nodeD_lt fam a0 s hm]

/-! ## slots -/

theorem slotInv_pkc (F : PFrag env s) (L : SlotInv env s)
    (hin : ∀ n c, n < s.nodes.size → c ∈ kidsX s.experts (s.nodeD n).kind → c < s.nodes.size) :
    SlotInv env (pkCreated fam a0 s) := by
  refine ⟨fun e er he => ?_, fun n e er hk he hw => ?_, fun n e er hk he hw => ?_⟩
  · rcases pkc_expert_inv fam a0 s he with h | ⟨rfl, rfl⟩
    · obtain ⟨h1, h2, h3⟩ := L.deps e er h
      exact ⟨h1, fun ed hed => Nat.lt_succ_of_lt (h2 ed hed), fun p hp => Nat.lt_succ_of_lt (h3 p hp)⟩
    · refine ⟨by simp [pkNewRec], fun ed hed => ?_, fun p hp => by cases hp⟩
      simp only [pkNewRec, List.mem_cons, List.not_mem_nil, or_false] at hed
      rw [hed]; exact Nat.lt_succ_self _
  · rcases pkc_expert_inv fam a0 s he with h | ⟨rfl, rfl⟩
    · have hlt : n < s.nodes.size := by
        by_cases hn : n < s.nodes.size
        · exact hn
        · exfalso
          have he' := (Array.getElem?_eq_some_iff.1 h).1
          by_cases hlt : n < (pkCreated fam a0 s).nodes.size
          · rcases pkc_cases fam a0 s hlt with h0 | rfl | rfl | rfl | rfl
            · exact hn h0
            · rw [pkc_nodeD_0] at hk; cases hk
            · rw [pkc_nodeD_1] at hk; cases hk; omega
            · rw [pkc_nodeD_2] at hk; cases hk
            · rw [pkc_nodeD_3] at hk; cases hk
          · rw [nodeD_default_ge _ n (by omega)] at hk; cases hk
      rw [pkc_nodeD_lt fam a0 s hlt] at hk
      have := L.flag n e er hk h hw
      rw [State.isNecessary] at this ⊢
      rw [pkc_nodeD_lt fam a0 s hlt]; exact this
    · cases hw
  · rcases pkc_expert_inv fam a0 s he with h | ⟨rfl, rfl⟩
    · have hlt : n < s.nodes.size := by
        by_cases hn : n < s.nodes.size
        · exact hn
        · exfalso
          have he' := (Array.getElem?_eq_some_iff.1 h).1
          by_cases hlt : n < (pkCreated fam a0 s).nodes.size
          · rcases pkc_cases fam a0 s hlt with h0 | rfl | rfl | rfl | rfl
            · exact hn h0
            · rw [pkc_nodeD_0] at hk; cases hk
            · rw [pkc_nodeD_1] at hk; cases hk; omega
            · rw [pkc_nodeD_2] at hk; cases hk
            · rw [pkc_nodeD_3] at hk; cases hk
          · rw [nodeD_default_ge _ n (by omega)] at hk; cases hk
      rw [pkc_nodeD_lt fam a0 s hlt] at hk
      rw [isStale_pkc_old fam a0 F hin hlt] at hw
      have G := L.good n e er hk h hw
      intro ed hed hcb
      have hc : ed.child < s.nodes.size := by
        refine hin n ed.child hlt ?_
        rw [hk]
        simp only [kidsX, xRec_some h]
        exact List.mem_map.2 ⟨ed, hed, rfl⟩
      rw [value_pkc_old fam a0 F hc]; exact G ed hed hcb
    · intro ed hed hcb
      simp only [pkNewRec, List.mem_cons, List.not_mem_nil, or_false] at hed
      rw [hed] at hcb; cases hcb

end

end IncrVerif.Proofs.PerKeyH
