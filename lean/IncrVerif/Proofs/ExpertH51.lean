import IncrVerif.Proofs.ExpertH50
import IncrVerif.Proofs.ExpertH49
import IncrVerif.Proofs.ExpertH43
/-!
# Expert nodes (fragment X1): every API action keeps the invariant; whole histories

* `AddDepOK s eo co`: both operands name top-level nodes, the first an expert node, and the second does not depend
  on the first (`¬ Below s c n`: the new edge closes no cycle).
* `XActionOK env s a`: the API actions of fragment X1 (static actions, `create (expert f)` with a "sum of the
  dependencies" closure, `addDep`, `stabilise`); `RunOK env acts s tk`: every action of a run is `XActionOK` in the
  state in which it is executed.
* `step_x`, `run_x`, `prefix_x`, `stabilise_in_run_x`, `history_x`, `history_stabilise_x`.
-/
namespace IncrVerif.Proofs.ExpertH
open IncrVerif.Engine IncrVerif.Driver IncrVerif.Proofs IncrVerif.Proofs.Step IncrVerif.Proofs.Sched
open IncrVerif.Proofs.ExpertH.QR IncrVerif.Proofs.Xp

def AddDepOK (s : State) : Opnd → Opnd → Prop
  | .outer kn, .outer kc => ∀ n c, s.top[kn]? = some n → s.top[kc]? = some c →
      (∃ e, (s.nodeD n).kind = .expert e) ∧ ¬ Below s c n
  | _, _ => False

theorem resolve_outer_inv {k n : Nat} {s s1 : State} (h : (resolveOpnd [] (.outer k)).run.run s = (.ok n, s1)) :
    s1 = s ∧ s.top[k]? = some n := by
  unfold resolveOpnd at h
  simp only at h
  rw [run_bind_get] at h
  cases hm : s.top[k]? with
  | some m =>
    rw [hm] at h
    obtain ⟨e1, e2⟩ := pure_ok_inv h
    rw [e1]; exact ⟨e2, rfl⟩
  | none => rw [hm] at h; cases h

/-- **`addDep` keeps the invariant** (for a new rank) -/
theorem step_addDep {env : Env} {rk : Nat → Nat} {s s' : State} {eo co : Opnd} {cb : Bool} {tk : Array Nat}
    {r : String × Array Nat} (Q : QInvX env rk s) (hok : AddDepOK s eo co)
    (h : (stepAction env (.addDep eo co cb) tk).run.run s = (.ok r, s')) : ∃ rk', QInvX env rk' s' := by
  cases eo <;> try exact hok.elim
  rename_i kn
  cases co <;> try exact hok.elim
  rename_i kc
  unfold stepAction at h
  dsimp only at h
  obtain ⟨n, s1, h1, h⟩ := bind_ok_inv h
  obtain ⟨e1, hn⟩ := resolve_outer_inv h1
  rw [e1] at h
  obtain ⟨c, s2, h2, h⟩ := bind_ok_inv h
  obtain ⟨e2, hcc⟩ := resolve_outer_inv h2
  rw [e2] at h
  obtain ⟨dep, s3, h3, h⟩ := bind_ok_inv h
  obtain ⟨-, e3⟩ := pure_ok_inv h
  rw [← e3] at h3
  obtain ⟨⟨e, hk⟩, hacyc⟩ := hok n c hn hcc
  have hnlt : n < s.nodes.size := Q.frag.lt_of_expert hk
  have hclt : c < s.nodes.size := by
    have := Q.q.top kc c hcc; rwa [virt_size] at this
  have hnd := some_of_lt hnlt
  obtain ⟨er, hx, -⟩ := Q.frag.xrec n e hnlt hk
  have hX : IsExpert s n (s.nodeD n) e er := ⟨hnd, Q.frag.valid n hnlt, hk, hx⟩
  cases hnec : (s.nodeD n).isNecessary with
  | false =>
    obtain ⟨rk', F', Q', A', -⟩ := addDep_unnec Q.frag Q.q Q.ahh hX hnec hclt hacyc h3
    exact ⟨rk', F', Q', A'⟩
  | true =>
    obtain ⟨rk', F', Q', A'⟩ := addDep_nec Q.frag Q.q Q.ahh hX hnec hclt hacyc h3
    exact ⟨rk', F', Q', A'⟩

/-! ## the actions of fragment X1 -/

/-- the API actions of fragment X1, relative to the state in which the action is executed -/
def XActionOK (env : Env) (s : State) : Action → Prop
  | .create (.expert f) => XEnvOK env f ∧ f < xBase
  | .addDep eo co _ => AddDepOK s eo co
  | .stabilise => True
  | a => XStaticAction env a

/-- **every action of fragment X1 that returns keeps the invariant** (`addDep` may change the rank) -/
theorem step_x {env : Env} {rk : Nat → Nat} {s s' : State} {a : Action} {tk : Array Nat} {r : String × Array Nat}
    (Q : QInvX env rk s) (ha : XActionOK env s a)
    (h : (stepAction env a tk).run.run s = (.ok r, s')) : ∃ rk', QInvX env rk' s' := by
  cases a
  case create i =>
    cases i
    case expert f => exact ⟨rk, step_create_expert Q ha.1 ha.2 h⟩
    all_goals exact ⟨rk, by refine action_static Q ?_ h; exact ha⟩
  case addDep eo co cb => exact step_addDep Q ha h
  case stabilise => exact ⟨rk, (stabiliseX Q (step_stabilise h)).inv⟩
  all_goals exact ⟨rk, by refine action_static Q ?_ h; exact ha⟩

/-- every action of a run is an action of the fragment, in the state in which it is executed -/
def RunOK (env : Env) : List Action → State → Array Nat → Prop
  | [], _, _ => True
  | a :: as, s, tk => XActionOK env s a ∧
      ∀ r s', (stepAction env a tk).run.run s = (.ok r, s') → RunOK env as s' r.2

theorem RunOK.append {env : Env} {as bs : List Action} {s s1 : State} {tk tk1 : Array Nat}
    (h : RunOK env (as ++ bs) s tk) (h1 : runActions env as s tk = .ok (s1, tk1)) :
    RunOK env as s tk ∧ RunOK env bs s1 tk1 := by
  induction as generalizing s tk with
  | nil => simp only [runActions] at h1; cases h1; exact ⟨trivial, h⟩
  | cons a as ih =>
    simp only [runActions] at h1
    rcases hx : (stepAction env a tk).run.run s with ⟨_ | r, s2⟩
    · rw [hx] at h1; cases h1
    · rw [hx] at h1
      obtain ⟨ha, hrest⟩ := h
      obtain ⟨i1, i2⟩ := ih (hrest r s2 hx) h1
      refine ⟨⟨ha, fun r' s' hx' => ?_⟩, i2⟩
      rw [hx] at hx'; cases hx'; exact i1

/-- **whole runs**: from a state satisfying the invariant, a run of the fragment that returns ends in a state
satisfying the invariant -/
theorem run_x {env : Env} {rk : Nat → Nat} {acts : List Action} {s s' : State} {tk tk' : Array Nat}
    (Q : QInvX env rk s) (ha : RunOK env acts s tk)
    (h : runActions env acts s tk = .ok (s', tk')) : ∃ rk', QInvX env rk' s' := by
  induction acts generalizing s tk rk with
  | nil => simp only [runActions] at h; cases h; exact ⟨rk, Q⟩
  | cons a as ih =>
    simp only [runActions] at h
    rcases hx : (stepAction env a tk).run.run s with ⟨_ | r, s1⟩
    · rw [hx] at h; cases h
    · rw [hx] at h
      obtain ⟨rk1, Q1⟩ := step_x Q ha.1 hx
      exact ih Q1 (ha.2 r s1 hx) h

theorem prefix_x {env : Env} {rk : Nat → Nat} {as bs : List Action} {s0 s : State} {tk0 tk : Array Nat}
    (Q0 : QInvX env rk s0) (ha : RunOK env (as ++ bs) s0 tk0)
    (h : runActions env (as ++ bs) s0 tk0 = .ok (s, tk)) :
    ∃ s1 tk1 rk1, runActions env as s0 tk0 = .ok (s1, tk1) ∧ QInvX env rk1 s1 ∧ RunOK env bs s1 tk1 ∧
      runActions env bs s1 tk1 = .ok (s, tk) := by
  obtain ⟨s1, tk1, h1, h2⟩ := runActions_prefix h
  obtain ⟨i1, i2⟩ := ha.append h1
  obtain ⟨rk1, Q1⟩ := run_x Q0 i1 h1
  exact ⟨s1, tk1, rk1, h1, Q1, i2, h2⟩

/-- **every `stabilise` of a run of the fragment**: the state before satisfies the invariant; afterwards every
observer in use reads the from-scratch value `evalX` of its node, no necessary node is stale -/
theorem stabilise_in_run_x {env : Env} {rk : Nat → Nat} {as bs : List Action} {s0 s : State}
    {tk0 tk : Array Nat} (Q0 : QInvX env rk s0) (ha : RunOK env (as ++ Action.stabilise :: bs) s0 tk0)
    (h : runActions env (as ++ Action.stabilise :: bs) s0 tk0 = .ok (s, tk)) :
    ∃ s1 tk1 s2 rk1, runActions env as s0 tk0 = .ok (s1, tk1) ∧ QInvX env rk1 s1 ∧
      (stabilise env fuelDefault).run.run s1 = (.ok (), s2) ∧ StabilisedX env rk1 fuelDefault s1 s2 ∧
      ReadsOKX env s2 ∧ ObsSettled s2 ∧ (∀ n, s2.isNecessary n = true → s2.isStale n = false) ∧
      runActions env bs s2 tk1 = .ok (s, tk) := by
  obtain ⟨s1, tk1, rk1, h1, Q1, -, h2⟩ := prefix_x Q0 ha h
  simp only [runActions] at h2
  rcases hx : (stepAction env .stabilise tk1).run.run s1 with ⟨_ | r, s2⟩
  · rw [hx] at h2; cases h2
  · rw [hx] at h2
    replace h2 : runActions env bs s2 r.2 = .ok (s, tk) := h2
    have hst := step_stabilise hx
    have hr : r.2 = tk1 := by
      unfold stepAction at hx
      dsimp only at hx
      obtain ⟨u, s1', h1', h2'⟩ := bind_ok_inv hx
      obtain ⟨e, -⟩ := pure_ok_inv h2'
      subst e; rfl
    rw [hr] at h2
    have R := stabiliseX Q1 hst
    obtain ⟨r1, r2, r3⟩ := stabilisedX_reads R
    exact ⟨s1, tk1, s2, rk1, h1, Q1, hst, R, r1, r2, r3, h2⟩

/-- **whole histories** from the initial state -/
theorem history_x {env : Env} {N : Nat} {d : Bool} {acts : List Action} {s : State} {tk : Array Nat}
    (ha : RunOK env acts (State.init N d) #[])
    (h : runActions env acts (State.init N d) #[] = .ok (s, tk)) : ∃ rk, QInvX env rk s :=
  run_x (qinvX_init env N d) ha h

theorem history_stabilise_x {env : Env} {N : Nat} {d : Bool} {as bs : List Action} {s : State} {tk : Array Nat}
    (ha : RunOK env (as ++ Action.stabilise :: bs) (State.init N d) #[])
    (h : runActions env (as ++ Action.stabilise :: bs) (State.init N d) #[] = .ok (s, tk)) :
    ∃ s1 tk1 s2 rk1, runActions env as (State.init N d) #[] = .ok (s1, tk1) ∧ QInvX env rk1 s1 ∧
      (stabilise env fuelDefault).run.run s1 = (.ok (), s2) ∧ StabilisedX env rk1 fuelDefault s1 s2 ∧
      ReadsOKX env s2 ∧ ObsSettled s2 ∧ (∀ n, s2.isNecessary n = true → s2.isStale n = false) ∧
      runActions env bs s2 tk1 = .ok (s, tk) :=
  stabilise_in_run_x (qinvX_init env N d) ha h

end IncrVerif.Proofs.ExpertH
