import IncrVerif.Proofs.FullT7
import IncrVerif.Proofs.FullT10
import IncrVerif.Proofs.FullT12
import IncrVerif.Proofs.ExpertH34
/-!
# C04 combined fragment: bisimulation of the observer and variable operations and of the two phases of `stabilise` before the drain
(twin of `Proofs/FullH37`)
-/
namespace IncrVerif.Proofs.FullT
set_option linter.unusedSectionVars false
open IncrVerif.Engine IncrVerif.Proofs IncrVerif.Proofs.Step IncrVerif.Proofs.Sched IncrVerif.Proofs.Quiet IncrVerif.Proofs.FullH

section
variable {K : Kind → Prop} {P : State → Prop} [Keeps P] {g : Nat → Option Val} {sp : Nat → Val → Val}

theorem BSim.getObs (o : Nat) : BSim K P g (Engine.getObs o) (Engine.getObs o) := by
  intro s; unfold Engine.getObs; bsim
  split <;> bsim
macro_rules | `(tactic| bsim_leaf) => `(tactic| with_reducible exact BSim.getObs _)

theorem BSim.modObs (o : Nat) (f : ObsRec → ObsRec) : BSim K P g (Engine.modObs o f) (Engine.modObs o f) := by
  intro s; unfold Engine.modObs; bsim
macro_rules | `(tactic| bsim_leaf) => `(tactic| with_reducible exact BSim.modObs _ _)

theorem BSim.getVar (v : Nat) : BSim K P g (Engine.getVar v) (Engine.getVar v) := by
  intro s; unfold Engine.getVar; bsim
  split <;> bsim
macro_rules | `(tactic| bsim_leaf) => `(tactic| with_reducible exact BSim.getVar _)

theorem BSim.modVar (v : Nat) (f : VarCell → VarCell) : BSim K P g (Engine.modVar v f) (Engine.modVar v f) := by
  intro s; unfold Engine.modVar; bsim
macro_rules | `(tactic| bsim_leaf) => `(tactic| with_reducible exact BSim.modVar _ _)

/-- (`BSim.bumpCounter` of L9 under another name: LP does not import L9) -/
theorem BSim.bumpCounterP (f : Counters → Counters) : BSim K P g (Engine.bumpCounter f) (Engine.bumpCounter f) := by
  intro s; unfold Engine.bumpCounter; bsim
macro_rules | `(tactic| bsim_leaf) => `(tactic| with_reducible exact BSim.bumpCounterP _)

theorem BSim.disallowFutureUse (o : Nat) : BSim K P g (Engine.disallowFutureUse o) (Engine.disallowFutureUse o) := by
  intro s; unfold Engine.disallowFutureUse; bsim
  split <;> bsim
macro_rules | `(tactic| bsim_leaf) => `(tactic| with_reducible exact BSim.disallowFutureUse _)

theorem BSim.didSetVarWhileNotStabilising (v : Nat) :
    BSim K P g (Engine.didSetVarWhileNotStabilising v) (Engine.didSetVarWhileNotStabilising v) := by
  intro s; unfold Engine.didSetVarWhileNotStabilising; bsim
macro_rules | `(tactic| bsim_leaf) => `(tactic| with_reducible exact BSim.didSetVarWhileNotStabilising _)

theorem BSim.writeVar (v : Nat) (f : Val → Val) (isSet : Bool) :
    BSim K P g (Engine.writeVar v f isSet) (Engine.writeVar v f isSet) := by
  intro s; unfold Engine.writeVar; bsim
  split <;> bsim
  split <;> bsim
macro_rules | `(tactic| bsim_leaf) => `(tactic| with_reducible exact BSim.writeVar _ _ _)

end

/-! ## the node updates of the observer phases: kinds and parent lists are kept, necessity is not — carried invariant `PInv` -/

/-- `PInv` only reads kinds and parent lists -/
theorem PInv.modifyKP {s : State} (n : Nat) (f : Node → Node) (h : PInv s)
    (hk : ∀ nd, (f nd).kind = nd.kind ∧ (f nd).parents = nd.parents) : PInv { s with nodes := s.nodes.modify n f } :=
  h.of_nodeD (by simp)
    (fun m => by rw [nodeD_modify]; split; exact (hk _).1; rfl)
    (fun m x hx => by
      rw [nodeD_modify] at hx; split at hx
      · rw [(hk _).2] at hx; exact hx
      · exact hx)

section
variable {K : Kind → Prop} {g : Nat → Option Val} {sp : Nat → Val → Val}

/-- a commuting node update that touches neither kinds nor parent lists (but maybe the observer list, hence necessity) -/
theorem BSim.modNodeKP (n : Nat) {f f' : Node → Node} (hf : ∀ gv nd, virtNode gv (f nd) = f' (virtNode gv nd))
    (hk : ∀ nd, (f nd).kind = nd.kind ∧ (f nd).cutoff = nd.cutoff ∧ (f nd).oldState = nd.oldState ∧
      (nd.valid = false → (f nd).valid = false) ∧ ((f nd).didChange = false → nd.didChange = false))
    (hp : ∀ nd, (f nd).kind = nd.kind ∧ (f nd).parents = nd.parents) :
    BSim K PInv g (Engine.modNode n f) (Engine.modNode n f') :=
  fun _ => BSimAt.modNode' n hf hk fun h => PInv.modifyKP n f h hp
macro_rules | `(tactic| bsim_leaf) => `(tactic| ((with_reducible refine BSim.modNodeKP _ ?_ ?_ ?_) <;> first | fcomm | fkind | (intro nd; exact ⟨rfl, rfl⟩)))

theorem BSim.unlinkDisallowedObservers (fuel : Nat) :
    BSim K PInv g (Engine.unlinkDisallowedObservers fuel) (Engine.unlinkDisallowedObservers fuel) := by
  intro s; unfold Engine.unlinkDisallowedObservers; bsim
macro_rules | `(tactic| bsim_leaf) => `(tactic| with_reducible exact BSim.unlinkDisallowedObservers _)

end
/-! ## `add_new_observers`: the loop runs in changing states, but no node is created (`ExpertH.AhF`), so the fuel bound of `BnC` is carried through -/

section
variable {K : Kind → Prop} {P : State → Prop} {g : Nat → Option Val} {env : Env} {sp : Nat → Val → Val}

/-- sequencing that carries the fuel bound: the first program creates no node (`ExpertH.AhF`: same node count) -/
theorem BSimXAt.seqF {α β : Type} {s : State} {x x' : M α} {f f' : α → M β} {fuel : Nat} (hfu : 3 * s.nodes.size + 2 ≤ fuel)
    (hp : Step.Pres ExpertH.AhF x) (hx : BSimAt K P g s x x')
    (hf : ∀ a s1, 3 * s1.nodes.size + 2 ≤ fuel → BSimXAt K P g s1 (f a) (f' a)) :
    BSimXAt K P g s (x >>= f) (x' >>= f') :=
  BSimXAt.seqA hx fun a s1 h1 _ => hf a s1 (by rw [(hp.h _ _ _ h1).size]; exact hfu)

/-- loops whose body creates no node: the fuel bound is carried through -/
theorem BSimX.forInF {γ β : Type} (l : List γ) {f f' : γ → β → M (ForInStep β)} {fuel : Nat}
    (hp : ∀ a b, Step.Pres ExpertH.AhF (f a b))
    (h : ∀ a, a ∈ l → ∀ b g s, 3 * s.nodes.size + 2 ≤ fuel → BSimXAt K P g s (f a b) (f' a b)) (b : β) (g : Nat → Option Val)
    (s : State) (hfu : 3 * s.nodes.size + 2 ≤ fuel) : BSimXAt K P g s (ForIn.forIn l b f) (ForIn.forIn l b f') := by
  induction l generalizing b g s with
  | nil => rw [List.forIn_nil, List.forIn_nil]; exact BSimXAt.ret _
  | cons a l ih =>
    rw [List.forIn_cons, List.forIn_cons]
    refine BSimXAt.seq (h a (List.mem_cons_self ..) b g s hfu) fun r s1 g1 h1 => ?_
    have hfu1 : 3 * s1.nodes.size + 2 ≤ fuel := by rw [((hp a b).h _ _ _ h1).size]; exact hfu
    cases r with
    | done b' => exact BSimXAt.ret _
    | yield b' => exact ih (fun a ha => h a (List.mem_cons_of_mem _ ha)) b' g1 s1 hfu1

theorem BSimXAt.addNewObservers (B : BnC K env sp) (fuel : Nat) {s : State} (hfu : 3 * s.nodes.size + 2 ≤ fuel) :
    BSimXAt K PInv g s (Engine.addNewObservers env fuel) (Engine.addNewObservers (virtEnv env sp) fuel) := by
  unfold Engine.addNewObservers
  refine BSimXAt.get_seq ?_
  fnorm
  refine BSimXAt.mod_seq rfl rfl rfl ?_
  refine BSimXAt.seq (BSimX.forInF _ (fun a b => ?_) (fun o _ b g s hfu => ?_) _ _ _ hfu) fun _ _ _ _ => BSimXAt.ret _
  · qpres
  refine BSimXAt.seqF hfu (ExpertH.PresAh.getObs o) (BSim.getObs o s) fun ob s1 hfu1 => ?_
  split
  · bsimx
  · bsimx
  · bsimx
  · refine BSimXAt.seqF hfu1 (ExpertH.PresAh.modObs _ _) (BSim.modObs _ _ s1) fun _ s2 hfu2 => ?_
    refine BSimXAt.get_seq ?_
    refine BSimXAt.mod_seq rfl rfl rfl ?_
    refine BSimXAt.seqF (s := { s2 with allObservers := s2.allObservers ++ [o] }) hfu2 (ExpertH.PresAh.modNode _ _ fun _ => rfl)
      (BSim.at (by bsim_leaf) _) fun _ s3 hfu3 => ?_
    refine BSimXAt.seqF hfu3 (ExpertH.PresAh.handleAfterStabilisation _) (BSim.handleAfterStabilisation _ s3) fun _ s4 hfu4 => ?_
    refine BSimXAt.get_seq ?_
    fnorm
    refine BSimXAt.seqF hfu4 (by qpres) (BSim.dassert _ _ s4) fun _ s5 hfu5 => ?_
    refine BSimXAt.cond Iff.rfl (fun _ => ?_) (fun _ => BSimXAt.ret _)
    refine BSimXAt.seq (BSimXAt.becameNecessaryPropagate B fuel _ hfu5) fun _ _ _ _ => BSimXAt.ret _

end
end IncrVerif.Proofs.FullT
