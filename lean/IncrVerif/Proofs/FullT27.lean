import IncrVerif.Proofs.FullT9
/-!
# C04 combined fragment: the CONVERSE of one simulated step, part 1 (twin of `FullH41`)
(static kinds, and `bindMain` with a valid right-hand side: if the VIRTUAL `recomputeOne` returns, so does the actual one)
-/
namespace IncrVerif.Proofs.FullT
set_option linter.unusedSectionVars false
open IncrVerif.Engine IncrVerif.Proofs IncrVerif.Proofs.Step IncrVerif.Proofs.Sched IncrVerif.Proofs.Quiet IncrVerif.Proofs.FullH

/-! ## the bookkeeping at the start of a step is benign -/

theorem sub_started (n : Nat) (es : List Event) (s : State) : SubSt s (logged es (started n s)) := by
  refine ⟨by simp [started, logged], fun m => ?_, fun m x hx => ?_⟩
  · show valueCore ((started n s).nodeD m) = _
    rw [started_nodeD]; split <;> rfl
  · have e : ((logged es (started n s)).nodeD m).parents = (s.nodeD m).parents := by
      show ((started n s).nodeD m).parents = _
      rw [started_nodeD]; split <;> rfl
    rw [e] at hx; exact hx

theorem pinv_started {s : State} (h : PInv s) (n : Nat) (es : List Event) : PInv (logged es (started n s)) :=
  (sub_started n es s).pinv h

theorem mrpv_started {s : State} (h : MRPV s) (n : Nat) (es : List Event) : MRPV (logged es (started n s)) :=
  (sub_started n es s).mrpv h

theorem size_started (n : Nat) (es : List Event) (s : State) : (logged es (started n s)).nodes.size = s.nodes.size :=
  (sub_started n es s).size

section
variable {K : Kind → Prop} {P : State → Prop} {g : Nat → Option Val} {env : Env} {sp : Nat → Val → Val}

/-- twin of `ST.simAt_of_started` -/
theorem bsimAt_of_started {α} {s : State} {n : Nat} {es : List Event} {x x' y y' : M α}
    (ha : x.run.run s = y.run.run (logged es (started n s)))
    (hv : x'.run.run (virt g s) = y'.run.run (logged es (started n (virt g s))))
    (hP : P s → P (logged es (started n s)))
    (hy : BSimAt K P g (logged es (started n s)) y y') : BSimAt K P g s x x' := by
  refine BSimAt.mk' (ST.simAt_of_started ha hv hy.1) (fun hfr hp r s' h => ?_) (fun hfr hp r t h => ?_)
  · rw [ha] at h
    exact (hy.fwd (ST.fr_logged (ST.fr_started hfr n) es) (hP hp) h).2.2.2
  · rw [hv, ← ST.virt_started, ← ST.virt_logged] at h
    obtain ⟨s', hs', -⟩ := hy.rev (ST.fr_logged (ST.fr_started hfr n) es) (hP hp) h
    exact ⟨s', by rw [ha]; exact hs'⟩

/-- twin of `ST.simXAt_of_started` -/
theorem bsimXAt_of_started {α} {s : State} {n : Nat} {es : List Event} {x x' y y' : M α}
    (ha : x.run.run s = y.run.run (logged es (started n s)))
    (hv : x'.run.run (virt g s) = y'.run.run (logged es (started n (virt g s))))
    (hP : P s → P (logged es (started n s)))
    (hy : BSimXAt K P g (logged es (started n s)) y y') : BSimXAt K P g s x x' := by
  refine BSimXAt.mk' (ST.simXAt_of_started ha hv hy.1) (fun hfr hp r s' h => ?_) (fun hfr hp r t h => ?_)
  · rw [ha] at h
    obtain ⟨_, -, -, -, p⟩ := hy.fwd (ST.fr_logged (ST.fr_started hfr n) es) (hP hp) h
    exact p
  · rw [hv, ← ST.virt_started, ← ST.virt_logged] at h
    obtain ⟨s', -, hs', -⟩ := hy.rev (ST.fr_logged (ST.fr_started hfr n) es) (hP hp) h
    exact ⟨s', by rw [ha]; exact hs'⟩

/-- twin of `ST.sim_finish`: both steps reduce to `maybe_change_value` from corresponding states -/
theorem bsim_finish {s : State} {fuel n : Nat} (es : List Event) (v : Val)
    (hm : MRPV s) (hk : ∀ p i, (s.nodeD n).kind ≠ .mapRef p i) (hc : ST.Exact s n) (hfuel : s.nodes.size ≤ fuel)
    (ha : (recomputeOne env fuel n).run.run s
      = (maybeChangeValue env fuel n v).run.run (logged es (started n s)))
    (hv : (recomputeOne (VE env sp) fuel n).run.run (virt g s)
      = (maybeChangeValue (VE env sp) fuel n v).run.run (logged es (started n (virt g s)))) :
    BSimAt K PInv g s (recomputeOne env fuel n) (recomputeOne (VE env sp) fuel n) := by
  have hk' : ∀ p i, ((logged es (started n s)).nodeD n).kind ≠ .mapRef p i := by
    intro p i
    show ((started n s).nodeD n).kind ≠ _
    rw [ST.started_kind]; exact hk p i
  exact bsimAt_of_started ha hv (fun hp => pinv_started hp n es)
    (mcvC' K env sp g fuel n v _ hk' (ST.exact_started hc es) (mrpv_started hm n es) (by rw [size_started]; exact hfuel))

/-- the `bindMain` branch when the right-hand side is valid: same ghost (twin of `ST.SimAt.bindMainTail`) -/
theorem BSimAt.bindMainTail {fuel n b : Nat} {t : State} (hk : ∀ p i, (t.nodeD n).kind ≠ .mapRef p i)
    (hc : ST.Exact t n) (hm : MRPV t) (hfuel : t.nodes.size ≤ fuel)
    (hread : ∀ br r, t.binds[b]? = some br → br.rhs = some r →
      tv g t r = t.value env r ∧ (t.nodeD r).valid = true) :
    BSimAt K PInv g t (ST.bindMainTail env fuel n b) (ST.bindMainTail (VE env sp) fuel n b) := by
  unfold ST.bindMainTail
  refine BSimAt.seq (BSim.getBind b t) fun br t1 h1 => ?_
  obtain ⟨rfl, hb⟩ := ST.getBind_inv h1
  cases hr : br.rhs with
  | none => exact BSimAt.pan _ _
  | some r =>
    obtain ⟨hrd, hrv⟩ := hread br r hb hr
    dsimp only
    refine BSimAt.getNode_seq fun nd hnd _ => ?_
    rw [virtNode_valid]
    have hv : nd.valid = true := by rw [nodeD_of_some hnd] at hrv; exact hrv
    rw [if_pos hv, if_pos hv]
    refine BSimAt.get_seq ?_
    rw [virt_value, hrd]
    cases t1.value env r with
    | none => exact BSimAt.ret _
    | some v => exact mcvC' K env sp g fuel n v t1 hk hc hm hfuel

end

section
variable {env : Env} {sp : Nat → Val → Val} {g : Nat → Option Val}

/-- **one `recomputeOne` of a node of a static kind, or of a `bindMain` node whose right-hand side is valid, CONVERSE**: if the virtual step returns, the
actual step returns the same result, in a state whose virtual image is the virtual final state -/
theorem recomputeOne_sim_rev {s t : State} {fuel n : Nat} {r : Option Nat} 
    (F : FFrag env sp g s) (hP : PInv s) (hM : MRPV s) (hfuel : s.nodes.size ≤ fuel)
    (hn : n < s.nodes.size) (hv : (s.nodeD n).valid = true)
    (hk1 : ∀ p i, (s.nodeD n).kind ≠ .mapRef p i) (hk2 : ∀ m i, (s.nodeD n).kind ≠ .mapWithOld m i)
    (hk3 : ∀ b, (s.nodeD n).kind ≠ .bindLhsChange b) (hcn0 : (s.nodeD n).cutoff = .eq)
    (hrhs : ∀ b lc br r, (s.nodeD n).kind = .bindMain b lc → s.binds[b]? = some br → br.rhs = some r →
      (s.nodeD r).valid = true)
    (hkids : ∀ a, a ∈ s.children n → tv g s a = s.value env a)
    (h : (recomputeOne (VE env sp) fuel n).run.run (virt g s) = (.ok r, t)) :
    ∃ s', (recomputeOne env fuel n).run.run s = (.ok r, s') ∧ t = virt g s' ∧ Fr (FK env sp) g s' ∧ VM s s' ∧ PInv s' := by
  have hcn : ST.Exact s n := ST.exact_of_eq hcn0
  have hnd := some_of_lt hn
  have hrk := F.fr.kinds n hn
  have hvn : (virt g s).nodes[n]? = some (virtNode (g n) (s.nodeD n)) := by rw [virt_getElem?, hnd]; rfl
  have hvval : (virtNode (g n) (s.nodeD n)).valid = true := by rw [virtNode_valid]; exact hv
  have hvk := virtNode_kind (g n) (s.nodeD n)
  have hk? : (s.nodeD n).kind? = some (s.nodeD n).kind := by simp [Node.kind?, hv]
  have hkl : ∀ es, ∀ p i, ((logged es (started n s)).nodeD n).kind ≠ .mapRef p i := by
    intro es p i
    show ((started n s).nodeD n).kind ≠ _
    rw [ST.started_kind]; exact hk1 p i
  have hch : s.children n = kidsF (s.nodeD n).kind ∨ ∃ b lc, (s.nodeD n).kind = .bindMain b lc := by
    unfold State.children
    rw [hk?]
    cases hkd : (s.nodeD n).kind <;> first | exact Or.inl rfl | exact Or.inr ⟨_, _, rfl⟩ | skip
    · exact absurd hkd (hk3 _)
    · exact absurd hkd (F.fr.noExp n _)
  cases hkd : (s.nodeD n).kind with
  | const v =>
    rw [hkd] at hvk
    refine (bsim_finish [] v hM hk1 hcn hfuel ?_ ?_).rev F.fr hP h
    · exact recomputeOne_const_run env fuel n s _ v hnd hv hkd
    · exact recomputeOne_const_run (VE env sp) fuel n (virt g s) _ v hvn hvval hvk
  | var c =>
    rw [hkd] at hvk
    obtain ⟨vc, hvc⟩ := ST.recomputeOne_ok_var hvn hvval hvk h
    have hvc' : s.vars[c]? = some vc := hvc
    refine (bsim_finish [] vc.value hM hk1 hcn hfuel ?_ ?_).rev F.fr hP h
    · exact recomputeOne_var_run env fuel n s _ c vc hnd hv hkd hvc'
    · exact recomputeOne_var_run (VE env sp) fuel n (virt g s) _ c vc hvn hvval hvk hvc
  | map f args =>
    rw [hkd] at hvk hrk
    have hkids' : ∀ a, a ∈ args → tv g s a = s.value env a := by
      intro a ha; apply hkids
      rcases hch with e | ⟨b, lc, e⟩
      · rw [e, hkd]; exact ha
      · rw [hkd] at e; cases e
    obtain ⟨vals, hvvals⟩ := ST.recomputeOne_ok_vals hvn hvval (Or.inl ⟨f, hvk⟩) h
    have hvals : valuesOf env s args = some vals := by
      rw [← ST.valuesOf_virt s args hkids']; exact hvvals
    by_cases hf : f < fnZip
    · refine (bsim_finish [.inv s!"f{f}" n vals (env.fn f vals).render] (env.fn f vals) hM hk1 hcn hfuel ?_ ?_).rev F.fr hP h
      · exact recomputeOne_map_run env fuel n s _ f args vals hnd hv hkd hf hvals (hrk.2 hf vals) F.pc
      · have := recomputeOne_map_run (VE env sp) fuel n (virt g s) _ f args vals hvn hvval hvk hf hvvals
          (hrk.2 hf vals) F.pc
        rw [virtEnv_fn_real env sp hrk.1] at this
        exact this
    · have hpk : f < fnPerKey := by
        have := hrk.1; unfold pBase at this; unfold fnPerKey; omega
      refine (bsim_finish [] (env.fn f vals) hM hk1 hcn hfuel ?_ ?_).rev F.fr hP h
      · exact recomputeOne_mapBuiltin_run env fuel n s _ f args vals hnd hv hkd hf hpk hvals
      · have := recomputeOne_mapBuiltin_run (VE env sp) fuel n (virt g s) _ f args vals hvn hvval hvk hf hpk hvvals
        rw [virtEnv_fn_real env sp hrk.1] at this
        exact this
  | fold f init cs =>
    rw [hkd] at hvk
    have hkids' : ∀ a, a ∈ cs → tv g s a = s.value env a := by
      intro a ha; apply hkids
      rcases hch with e | ⟨b, lc, e⟩
      · rw [e, hkd]; exact ha
      · rw [hkd] at e; cases e
    obtain ⟨vals, hvvals⟩ := ST.recomputeOne_ok_vals hvn hvval (Or.inr ⟨f, init, hvk⟩) h
    have hvals : valuesOf env s cs = some vals := by
      rw [← ST.valuesOf_virt s cs hkids']; exact hvvals
    refine (bsim_finish [.inv s!"fold{f}" n vals (vals.foldl (env.foldStep f) init).render] (vals.foldl (env.foldStep f) init)
      hM hk1 hcn hfuel ?_ ?_).rev F.fr hP h
    · exact recomputeOne_fold_run env fuel n s _ f init cs vals hnd hv hkd hvals F.pc
    · exact recomputeOne_fold_run (VE env sp) fuel n (virt g s) _ f init cs vals hvn hvval hvk hvvals F.pc
  | mapRef p i => exact absurd hkd (hk1 p i)
  | mapWithOld m i => exact absurd hkd (hk2 m i)
  | bindLhsChange b => exact absurd hkd (hk3 b)
  | expert e => exact absurd hkd (F.fr.noExp n e)
  | bindMain b lc =>
    rw [hkd] at hvk
    refine (bsimAt_of_started (es := []) (ST.recomputeOne_bindMain_tail env fuel n s _ b lc hnd hv hkd)
      (ST.recomputeOne_bindMain_tail (VE env sp) fuel n (virt g s) _ b lc hvn hvval hvk)
      (fun hp => pinv_started hp n [])
      (BSimAt.bindMainTail (hkl []) (ST.exact_started hcn []) (mrpv_started hM n [])
        (by rw [size_started]; exact hfuel) ?_)).rev F.fr hP h
    intro br r0 hb hr
    have hb' : s.binds[b]? = some br := hb
    refine ⟨?_, ?_⟩
    · show tv g (started n s) r0 = (started n s).value env r0
      rw [ST.tv_started, started_value]
      apply hkids
      unfold State.children
      rw [hk?, hkd]
      simp only [hb', hr]
      simp
    · show ((started n s).nodeD r0).valid = true
      rw [ST.started_valid]
      exact hrhs b lc br r0 hkd hb' hr

end
end IncrVerif.Proofs.FullT
