import IncrVerif.Proofs.MapOld20
/-!
# map_with_old fragment: node creation keeps `QInvW` — the instructions
-/
namespace IncrVerif.Proofs.MapOldH
open IncrVerif.Engine IncrVerif.Driver IncrVerif.Proofs IncrVerif.Proofs.Step IncrVerif.Proofs.Sched IncrVerif.Proofs.Quiet

section
variable {env : Env} {C : Val → Prop} {sp : Nat → Val → Val}

theorem CrWKind_ident (l : List Nat) : WKind env (Good env C sp) (.map fnIdent l) :=
  ⟨woBase_gt, fun h => absurd h (by decide)⟩

theorem CrWKind_zip (l : List Nat) : WKind env (Good env C sp) (.map fnZip l) :=
  ⟨by decide, fun h => absurd h (by decide)⟩

/-- the three nodes of a unary operator keep the invariant -/
theorem CrRes_unary {s s1 : State} {g kx x : Nat} {sa sb : State} {ro : Option Nat} (Q : QInvW env C sp s)
    (hg : WId g) (hG : Good env C sp g) (hx : s.top[kx]? = some x)
    (Ca : Created (.map fnIdent [x]) s sa s.top) (Cb : Created (.mapWithOld g s.nodes.size) sa sb s.top)
    (Cc : Created (.map fnIdent [s.nodes.size + 1]) sb s1 s.top) (ero : ro = some (s.nodes.size + 2)) :
    CrRes env C sp s s1 ro := by
  have Qa : QInvW env C sp sa := CrMid Q Ca (by intro c e; cases e) (CrWKind_ident _) trivial (by
    intro c hc
    simp only [kidsW, List.mem_cons, List.not_mem_nil, or_false] at hc
    rw [hc]; exact Q.top_lt kx x hx)
  have Cb' : Created (.mapWithOld g s.nodes.size) sa sb sa.top := by rw [Ca.top]; exact Cb
  have Qb : QInvW env C sp sb := CrMid Qa Cb' (by intro c e; cases e) ⟨hg, hG⟩ trivial (by
    intro c hc
    simp only [kidsW, List.mem_cons, List.not_mem_nil, or_false] at hc
    rw [hc, Ca.size]; omega)
  have Cc' : Created (.map fnIdent [s.nodes.size + 1]) sb s1 sb.top := by rw [Cb.top]; exact Cc
  refine ⟨_, sb, Qb, Cb.top, by rw [ero, Cb.size, Ca.size], Cc', CrWKind_ident _, trivial, ?_,
    CrVars_old Cc (by intro c e; cases e) Qb.m⟩
  intro c hc
  simp only [kidsW, List.mem_cons, List.not_mem_nil, or_false] at hc
  rw [hc, Cb.size, Ca.size]; omega

/-- the five nodes of `merge` keep the invariant -/
theorem CrRes_binary {s s1 : State} {g kx ky x y : Nat} {sa sb sc sd : State} {ro : Option Nat}
    (Q : QInvW env C sp s) (hg : WId g) (hG : Good env C sp g)
    (hx : s.top[kx]? = some x) (hy : s.top[ky]? = some y)
    (Ca : Created (.map fnIdent [x]) s sa s.top) (Cb : Created (.map fnIdent [y]) sa sb s.top)
    (Cc : Created (.map fnZip [s.nodes.size, s.nodes.size + 1]) sb sc s.top)
    (Cd : Created (.mapWithOld g (s.nodes.size + 2)) sc sd s.top)
    (Ce : Created (.map fnIdent [s.nodes.size + 3]) sd s1 s.top) (ero : ro = some (s.nodes.size + 4)) :
    CrRes env C sp s s1 ro := by
  have Qa : QInvW env C sp sa := CrMid Q Ca (by intro c e; cases e) (CrWKind_ident _) trivial (by
    intro c hc
    simp only [kidsW, List.mem_cons, List.not_mem_nil, or_false] at hc
    rw [hc]; exact Q.top_lt kx x hx)
  have Cb' : Created (.map fnIdent [y]) sa sb sa.top := by rw [Ca.top]; exact Cb
  have Qb : QInvW env C sp sb := CrMid Qa Cb' (by intro c e; cases e) (CrWKind_ident _) trivial (by
    intro c hc
    simp only [kidsW, List.mem_cons, List.not_mem_nil, or_false] at hc
    have := Q.top_lt ky y hy
    rw [hc, Ca.size]; omega)
  have Cc' : Created (.map fnZip [s.nodes.size, s.nodes.size + 1]) sb sc sb.top := by rw [Cb.top]; exact Cc
  have Qc : QInvW env C sp sc := CrMid Qb Cc' (by intro c e; cases e) (CrWKind_zip _) trivial (by
    intro c hc
    simp only [kidsW, List.mem_cons, List.not_mem_nil, or_false] at hc
    rw [Cb.size, Ca.size]; omega)
  have Cd' : Created (.mapWithOld g (s.nodes.size + 2)) sc sd sc.top := by rw [Cc.top]; exact Cd
  have Qd : QInvW env C sp sd := CrMid Qc Cd' (by intro c e; cases e) ⟨hg, hG⟩ trivial (by
    intro c hc
    simp only [kidsW, List.mem_cons, List.not_mem_nil, or_false] at hc
    rw [hc, Cc.size, Cb.size, Ca.size]; omega)
  have Ce' : Created (.map fnIdent [s.nodes.size + 3]) sd s1 sd.top := by rw [Cd.top]; exact Ce
  refine ⟨_, sd, Qd, Cd.top, by rw [ero, Cd.size, Cc.size, Cb.size, Ca.size], Ce', CrWKind_ident _, trivial, ?_,
    CrVars_old Ce (by intro c e; cases e) Qd.m⟩
  intro c hc
  simp only [kidsW, List.mem_cons, List.not_mem_nil, or_false] at hc
  rw [hc, Cd.size, Cc.size, Cb.size, Ca.size]; omega

/-- **what a creation instruction of the fragment does** -/
theorem CrElabW {s s1 : State} {i : Instr} {ro : Option Nat} (V : ValOK env C sp) (Q : QInvW env C sp s)
    (hi : WInstr env C sp i) (h : (elabInstrM env [] .unit i).run.run s = (.ok ro, s1)) :
    CrRes env C sp s s1 ro := by
  have hsc := Q.scope
  cases i with
  | const v =>
    unfold elabInstrM at h
    simp only at h
    unfold elabInstr at h
    rw [run_bind_get] at h
    simp only [hsc] at h
    obtain ⟨n, h1, e⟩ := map_ok_inv h
    exact CrRes_one Q (by intro c e; cases e) h1 e trivial hi (fun c hc => by cases hc)
  | var v =>
    unfold elabInstrM at h
    simp only at h
    unfold elabInstr at h
    rw [run_bind_get] at h
    simp only at h
    obtain ⟨n, h1, e⟩ := map_ok_inv h
    obtain ⟨en, Cr⟩ := createVar_created h1
    refine ⟨.var s.vars.size, s, Q, rfl, by rw [e, en], Cr, trivial, trivial, (fun c hc => by cases hc), ?_⟩
    rw [createVar_top_run] at h1
    cases h1
    intro c vc hc
    simp only [Array.getElem?_push] at hc
    split at hc
    · injection hc with hc; rw [← hc]; exact hi
    · exact Q.m.vars c vc hc
  | map f args =>
    unfold elabInstrM at h
    simp only at h
    unfold elabInstr at h
    rw [run_bind_get] at h
    simp only [hsc] at h
    obtain ⟨as, t, h1, h2⟩ := bind_ok_inv h
    obtain ⟨et, has⟩ := mapM_resolve_inv Q.top_lt args as t hi.2.2 h1
    rw [et] at h2
    obtain ⟨n, h3, e⟩ := map_ok_inv h2
    exact CrRes_one Q (by intro c e; cases e) h3 e ⟨hi.1, hi.2.1⟩ trivial has
  | fold f init cs =>
    unfold elabInstrM at h
    simp only at h
    unfold elabInstr at h
    rw [run_bind_get] at h
    simp only [hsc] at h
    obtain ⟨as, t, h1, h2⟩ := bind_ok_inv h
    obtain ⟨et, has⟩ := mapM_resolve_inv Q.top_lt cs as t hi.2 h1
    rw [et] at h2
    split at h2
    · obtain ⟨n, h3, e⟩ := map_ok_inv h2
      exact CrRes_one Q (by intro c e; cases e) h3 e trivial hi.1 (fun c hc => by cases hc)
    · obtain ⟨n, h3, e⟩ := map_ok_inv h2
      exact CrRes_one Q (by intro c e; cases e) h3 e trivial hi.1 has
  | zip a b =>
    unfold elabInstrM at h
    simp only at h
    unfold elabInstr at h
    rw [run_bind_get] at h
    simp only [hsc] at h
    obtain ⟨na, t, h1, h2⟩ := bind_ok_inv h
    obtain ⟨et, ka, hka⟩ := resolveOpnd_outer_inv hi.1 h1
    rw [et] at h2
    obtain ⟨nb, t, h1, h2⟩ := bind_ok_inv h2
    obtain ⟨et, kb, hkb⟩ := resolveOpnd_outer_inv hi.2 h1
    rw [et] at h2
    obtain ⟨ca, t, ha, h2⟩ := bind_ok_inv h2
    rw [isConstant_ok_inv ha] at h2
    obtain ⟨cb, t, hb, h2⟩ := bind_ok_inv h2
    rw [isConstant_ok_inv hb] at h2
    split at h2
    · obtain ⟨n, h3, e⟩ := map_ok_inv h2
      rename_i va vb _
      obtain ⟨hla, hka'⟩ := CrIsConstant_some ha
      obtain ⟨hlb, hkb'⟩ := CrIsConstant_some hb
      have h1 := Q.m.lits na hla
      have h2 := Q.m.lits nb hlb
      rw [hka'] at h1
      rw [hkb'] at h2
      exact CrRes_one Q (by intro c e; cases e) h3 e trivial (V.pair va vb h1 h2) (fun c hc => by cases hc)
    · obtain ⟨n, h3, e⟩ := map_ok_inv h2
      refine CrRes_one Q (by intro c e; cases e) h3 e (CrWKind_zip _) trivial ?_
      intro c hc
      simp only [kidsW, List.mem_cons, List.not_mem_nil, or_false] at hc
      rcases hc with e | e
      · rw [e]; exact Q.top_lt ka na hka
      · rw [e]; exact Q.top_lt kb nb hkb
  | mapWithOld g o =>
    unfold elabInstrM at h
    simp only at h
    unfold elabInstr at h
    rw [run_bind_get] at h
    simp only [hsc] at h
    obtain ⟨no, t, h1, h2⟩ := bind_ok_inv h
    obtain ⟨et, ko, hko⟩ := resolveOpnd_outer_inv hi.2.2 h1
    rw [et] at h2
    obtain ⟨n, h3, e⟩ := map_ok_inv h2
    refine CrRes_one Q (by intro c e; cases e) h3 e ⟨hi.1, hi.2.1⟩ trivial ?_
    intro c hc
    simp only [kidsW, List.mem_cons, List.not_mem_nil, or_false] at hc
    rw [hc]; exact Q.top_lt ko no hko
  | mapOp op =>
    unfold elabInstrM at h
    simp only at h
    unfold elabInstr at h
    rw [run_bind_get] at h
    simp only [hsc] at h
    cases op with
    | fm m o =>
      cases o with
      | outer kx =>
        simp only at h
        obtain ⟨x, sa, sb, hx, Ca, Cb, Cc, ero⟩ := CrUnary h
        exact CrRes_unary Q hi.1 hi.2.1 hx Ca Cb Cc ero
      | _ => exact (hi.2.2 _ (List.mem_cons_self ..)).elim
    | fold m rev upd o =>
      cases o with
      | outer kx =>
        simp only at h
        obtain ⟨x, sa, sb, hx, Ca, Cb, Cc, ero⟩ := CrUnary h
        exact CrRes_unary Q hi.1 hi.2.1 hx Ca Cb Cc ero
      | _ => exact (hi.2.2 _ (List.mem_cons_self ..)).elim
    | part m o =>
      cases o with
      | outer kx =>
        simp only at h
        obtain ⟨x, sa, sb, hx, Ca, Cb, Cc, ero⟩ := CrUnary h
        exact CrRes_unary Q hi.1 hi.2.1 hx Ca Cb Cc ero
      | _ => exact (hi.2.2 _ (List.mem_cons_self ..)).elim
    | merge m o1 o2 =>
      cases o1 with
      | outer kx =>
        cases o2 with
        | outer ky =>
          simp only at h
          obtain ⟨x, y, sa, sb, sc, sd, hx, hy, Ca, Cb, Cc, Cd, Ce, ero⟩ := CrBinary h
          exact CrRes_binary Q hi.1 hi.2.1 hx hy Ca Cb Cc Cd Ce ero
        | _ => exact (hi.2.2 _ (List.mem_cons_of_mem _ (List.mem_cons_self ..))).elim
      | _ => exact (hi.2.2 _ (List.mem_cons_self ..)).elim
  | _ => exact hi.elim

end
end IncrVerif.Proofs.MapOldH
