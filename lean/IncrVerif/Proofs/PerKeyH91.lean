import IncrVerif.Proofs.PerKeyH90
/-!
# `VSim`, part 3 (port of ExpertH25): the necessity cascade (`became_necessary`, `add_parent_without_adjusting_heights`)

The tails `match (← getNode n).kind? with | some (.expert e) => … | _ => pure ()`: the actual expert branch is
invisible in the virtual state, whose node is a `fold`.
-/
namespace IncrVerif.Proofs.PerKeyH
open IncrVerif.Engine IncrVerif.Driver IncrVerif.Proofs IncrVerif.Proofs.Step IncrVerif.Proofs.Sched
open IncrVerif.Proofs.ExpertH IncrVerif.Proofs.EffH

theorem VSim.link (env : Env) (fuel : Nat) :
    (∀ n, VSim (becameNecessary env fuel n) (becameNecessary (penv env) fuel n)) ∧
    (∀ c i p, VSim (addParentWithoutAdjustingHeights env fuel c i p)
      (addParentWithoutAdjustingHeights (penv env) fuel c i p)) := by
  induction fuel with
  | zero =>
    constructor
    · intro n s; unfold becameNecessary; vsim
    · intro c i p s; unfold addParentWithoutAdjustingHeights; vsim
  | succ fuel ih =>
    constructor
    · intro n s
      unfold becameNecessary
      vsim
      all_goals first
        | exact ih.2 _ _ _ _
        | vsim_kind
    · intro c i p s
      unfold addParentWithoutAdjustingHeights
      vsim
      all_goals first
        | exact ih.1 _ _
        | vsim_kind
        | (exfalso; simp_all; done)
      all_goals first
        | vsim_kind
        | skip

theorem VSim.becameNecessary (env : Env) (fuel n : Nat) :
    VSim (Engine.becameNecessary env fuel n) (Engine.becameNecessary (penv env) fuel n) := (VSim.link env fuel).1 n
theorem VSim.addParentWithoutAdjustingHeights (env : Env) (fuel c i p : Nat) :
    VSim (Engine.addParentWithoutAdjustingHeights env fuel c i p)
      (Engine.addParentWithoutAdjustingHeights (penv env) fuel c i p) := (VSim.link env fuel).2 c i p
macro_rules | `(tactic| vsim_leaf) => `(tactic|
  with_reducible exact IncrVerif.Proofs.PerKeyH.VSim.becameNecessary _ _ _)
macro_rules | `(tactic| vsim_leaf) => `(tactic|
  with_reducible exact IncrVerif.Proofs.PerKeyH.VSim.addParentWithoutAdjustingHeights _ _ _ _ _)

end IncrVerif.Proofs.PerKeyH
