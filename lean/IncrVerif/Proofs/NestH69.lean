import IncrVerif.Proofs.NestH63
import IncrVerif.Proofs.NestH25
import IncrVerif.Proofs.BindH102
/-!
# Nested binds (F2), part 5e1: the closure run registers exactly the IMAGE of the closure's template — operands, instructions, one iteration

Port of BindH101 (`C3e`) to closures that may contain `bind body' o` instructions.
`N5e.resolve_eq2`, `N5e.mapM_resolve_eq2`: in the fragment `resolveOpnd` computes `resolveP`/`resolveAll`.
`N5e.elab_kind2`: an instruction of an F2 closure pushes a node of kind `kindOfInstr …`, or is `createBind` on the resolved operand.
`N5e.LK2`: the second loop invariant of `elabTemplate` (self-contained: it carries the current scope, so `NN.LI2` is not needed): the list registered
so far is `regOf t loc`, the locals are the images (`InstrImg`) of the instructions; `LK2.step_push` (static node), `LK2.step_bind` (inner bind).
-/
namespace IncrVerif.Proofs.NestH
open IncrVerif.Engine IncrVerif.Proofs IncrVerif.Proofs.Step IncrVerif.Proofs.Sched IncrVerif.Proofs.Quiet
open IncrVerif.Proofs.BindH

namespace N5e

/-! ## operands -/

theorem resolve_eq2 {rk0 : Nat → Nat} {s0 t t' : State} {lc j : Nat} {loc : List Nat} {o : Opnd} {c : Nat}
    (htop : t.top = s0.top) (hlen : loc.length = j) (ho : OpndOK2 rk0 s0 lc j o)
    (h : (resolveOpnd loc o).run.run t = (.ok c, t')) : t' = t ∧ resolveP t loc o = some c := by
  cases o with
  | outer k =>
    obtain ⟨r, hr, -⟩ := ho
    unfold resolveOpnd at h
    simp only at h
    rw [run_bind_get, htop, hr] at h
    obtain ⟨e1, e2⟩ := pure_ok_inv h
    refine ⟨e2, ?_⟩
    show t.top[k]? = some c
    rw [htop, hr, e1]
  | loc i =>
    have hi : i < loc.length := by rw [hlen]; exact ho
    have hc : loc[i]? = some loc[i] := List.getElem?_eq_getElem hi
    unfold resolveOpnd at h
    simp only [hc] at h
    obtain ⟨e1, e2⟩ := pure_ok_inv h
    refine ⟨e2, ?_⟩
    show loc[i]? = some c
    rw [hc, e1]
  | abs _ => exact ho.elim
  | slot _ => exact ho.elim

theorem mapM_resolve_eq2 {rk0 : Nat → Nat} {s0 t : State} {lc j : Nat} {loc : List Nat}
    (htop : t.top = s0.top) (hlen : loc.length = j) :
    ∀ (l : List Opnd) (r : List Nat) (t' : State), (∀ a, a ∈ l → OpndOK2 rk0 s0 lc j a) →
      (l.mapM (fun o => resolveOpnd loc o)).run.run t = (.ok r, t') →
      t' = t ∧ resolveAll t loc l = some r := by
  intro l
  induction l with
  | nil =>
    intro r t' _ h
    rw [List.mapM_nil] at h
    obtain ⟨e1, e2⟩ := pure_ok_inv h
    rw [e1]; exact ⟨e2, rfl⟩
  | cons a l ih =>
    intro r t' hl h
    rw [List.mapM_cons] at h
    obtain ⟨x, t1, h1, h2⟩ := bind_ok_inv h
    obtain ⟨et, hx⟩ := resolve_eq2 htop hlen (hl a (List.mem_cons_self ..)) h1
    rw [et] at h2
    obtain ⟨xs, t2, h3, h4⟩ := bind_ok_inv h2
    obtain ⟨et2, hxs⟩ := ih xs t2 (fun y hy => hl y (List.mem_cons_of_mem _ hy)) h3
    obtain ⟨e1, e2⟩ := pure_ok_inv h4
    rw [e1, e2]
    refine ⟨et2, ?_⟩
    simp only [resolveAll, hx, hxs]

/-! ## `InstrImg`, `regOf` -/

/-- for an instruction that creates a static node the image is given by `kindOfInstr` -/
theorem instrImg_of_kind {s : State} {locs : List Nat} {v : Val} {i : Instr} {m : Nat}
    (h : kindOfInstr s locs v i = some (s.nodeD m).kind) : InstrImg s locs v i m := by
  cases i <;> first | exact h | cases h

/-- `kindOfInstr` never yields the main node of a bind -/
theorem kindOfInstr_ne_main {s : State} {locs : List Nat} {v : Val} {i : Instr} {k : Kind}
    (h : kindOfInstr s locs v i = some k) : ∀ b2 lc2, k ≠ .bindMain b2 lc2 := by
  intro b2 lc2 e
  subst e
  cases i with
  | const w => cases h
  | lhsConst => cases h
  | map f args =>
    simp only [kindOfInstr] at h
    cases hr : resolveAll s locs args with
    | none => rw [hr] at h; cases h
    | some l => rw [hr] at h; cases h
  | fold f init cs =>
    simp only [kindOfInstr] at h
    cases hr : resolveAll s locs cs with
    | none => rw [hr] at h; cases h
    | some l =>
      rw [hr] at h
      simp only [Option.map_some] at h
      split at h <;> cases h
  | _ => cases h

/-- the image of an instruction only reads the naming table, the node itself and the record of the bind whose main node it is -/
theorem instrImg_frame {s s' : State} {locs : List Nat} {v : Val} {i : Instr} {m : Nat} (htop : s'.top = s.top)
    (hm : s'.nodeD m = s.nodeD m)
    (hb : ∀ (b2 : Nat) (br2 : BindRec), s.binds[b2]? = some br2 → br2.main = m → s'.binds[b2]? = some br2)
    (h : InstrImg s locs v i m) : InstrImg s' locs v i m := by
  cases i with
  | bind body' o =>
    obtain ⟨b2, br2, lc2, h1, h2, h3, h4, h5, h6⟩ := h
    exact ⟨b2, br2, lc2, by rw [hm]; exact h1, hb b2 br2 h2 h4, h3, h4, h5, by rw [C3e.resolveP_congr htop]; exact h6⟩
  | _ =>
    show kindOfInstr s' locs v _ = some (s'.nodeD m).kind
    rw [C3e.kindOfInstr_congr htop, hm]
    exact h

theorem regOf_nil (s : State) : regOf s [] = [] := rfl

theorem regOf_append (s : State) (l1 l2 : List Nat) : regOf s (l1 ++ l2) = regOf s l1 ++ regOf s l2 := by
  unfold regOf
  exact List.flatMap_append

theorem regOf_congr {s s' : State} : ∀ {locs : List Nat}, (∀ m, m ∈ locs → s'.nodeD m = s.nodeD m) →
    regOf s' locs = regOf s locs
  | [], _ => rfl
  | m :: l, h => by
    have ih := regOf_congr (s := s) (s' := s') (locs := l) (fun x hx => h x (List.mem_cons_of_mem _ hx))
    unfold regOf at ih ⊢
    rw [List.flatMap_cons, List.flatMap_cons, ih, h m (List.mem_cons_self ..)]

theorem regOf_single_main {s : State} {m b2 lc2 : Nat} (h : (s.nodeD m).kind = .bindMain b2 lc2) :
    regOf s [m] = [lc2, m] := by
  unfold regOf
  simp only [List.flatMap_cons, List.flatMap_nil, List.append_nil, h]

theorem regOf_single_other {s : State} {m : Nat} (h : ∀ b2 lc2, (s.nodeD m).kind ≠ .bindMain b2 lc2) :
    regOf s [m] = [m] := by
  unfold regOf
  simp only [List.flatMap_cons, List.flatMap_nil, List.append_nil]

/-! ## one instruction -/

/-- an instruction of an F2 closure pushes exactly one node, of the kind `kindOfInstr` prescribes, or is `createBind` on the resolved operand -/
theorem elab_kind2 {env : Env} {rk0 : Nat → Nat} {s0 t t1 : State} {P : Nat → Prop} {b lc j : Nat} {loc : List Nat}
    {i : Instr} {v : Val} {ro : Option Nat} (htop : t.top = s0.top) (hlen : loc.length = j)
    (hsc : t.currentScope = .bind b)
    (hi : InstrOK2 env rk0 s0 P lc j i) (h : (elabInstrM env loc v i).run.run t = (.ok ro, t1)) :
    (∃ k, ro = some t.nodes.size ∧ kindOfInstr t loc v i = some k ∧ CN.Push k b t t1) ∨
    (∃ body' o lhs, i = .bind body' o ∧ ro = some (t.nodes.size + 1) ∧ resolveP t loc o = some lhs ∧
      NN.PushBind body' lhs b t t1) := by
  cases i with
  | const w =>
    left
    unfold elabInstrM at h
    simp only at h
    unfold elabInstr at h
    rw [run_bind_get] at h
    simp only [hsc] at h
    obtain ⟨n, h1, e⟩ := map_ok_inv h
    obtain ⟨en, C⟩ := CN.createNode_push h1
    exact ⟨.const w, by rw [e, en], rfl, C⟩
  | lhsConst =>
    left
    unfold elabInstrM at h
    simp only at h
    unfold elabInstr at h
    rw [run_bind_get] at h
    simp only [hsc] at h
    obtain ⟨n, h1, e⟩ := map_ok_inv h
    obtain ⟨en, C⟩ := CN.createNode_push h1
    exact ⟨.const v, by rw [e, en], rfl, C⟩
  | map f args =>
    left
    unfold elabInstrM at h
    simp only at h
    unfold elabInstr at h
    rw [run_bind_get] at h
    simp only [hsc] at h
    obtain ⟨as, t2, h1, h2⟩ := bind_ok_inv h
    obtain ⟨et, has⟩ := mapM_resolve_eq2 htop hlen args as t2 hi.2.2 h1
    rw [et] at h2
    obtain ⟨n, h3, e⟩ := map_ok_inv h2
    obtain ⟨en, C⟩ := CN.createNode_push h3
    refine ⟨.map f as, by rw [e, en], ?_, C⟩
    simp only [kindOfInstr, has, Option.map_some]
  | fold f init cs =>
    left
    unfold elabInstrM at h
    simp only at h
    unfold elabInstr at h
    rw [run_bind_get] at h
    simp only [hsc] at h
    obtain ⟨as, t2, h1, h2⟩ := bind_ok_inv h
    obtain ⟨et, has⟩ := mapM_resolve_eq2 htop hlen cs as t2 hi h1
    rw [et] at h2
    split at h2
    · rename_i hemp
      obtain ⟨n, h3, e⟩ := map_ok_inv h2
      obtain ⟨en, C⟩ := CN.createNode_push h3
      refine ⟨.const init, by rw [e, en], ?_, C⟩
      simp only [kindOfInstr, has, Option.map_some, hemp, if_true]
    · rename_i hemp
      obtain ⟨n, h3, e⟩ := map_ok_inv h2
      obtain ⟨en, C⟩ := CN.createNode_push h3
      refine ⟨.fold f init as, by rw [e, en], ?_, C⟩
      simp only [kindOfInstr, has, Option.map_some, hemp]
      rfl
  | bind body' o =>
    right
    unfold elabInstrM at h
    simp only at h
    unfold elabInstr at h
    rw [run_bind_get] at h
    simp only at h
    obtain ⟨x, t2, h1, h2⟩ := bind_ok_inv h
    obtain ⟨et, hx⟩ := resolve_eq2 htop hlen hi.2 h1
    rw [et] at h2
    obtain ⟨n, h3, e⟩ := map_ok_inv h2
    obtain ⟨en, C⟩ := NN.createBind_pushBind hsc h3
    exact ⟨body', o, x, rfl, by rw [e, en], hx, C⟩
  | _ => exact hi.elim

/-! ## the second loop invariant -/

/-- the list registered so far is `regOf t loc` for the local list `loc` of `elabTemplate`, and the locals are the images of the instructions of template
`tm` for lhs value `v`; the locals are younger than the bind's main node; the current scope is `.bind b` -/
structure LK2 (b : Nat) (br : BindRec) (s0 : State) (tm : Template) (v : Val) (j : Nat) (loc : List Nat)
    (t : State) : Prop where
  bind : t.binds[b]? = some { br with allNodesCreatedOnRhs := regOf t loc }
  top : t.top = s0.top
  len : loc.length = j
  scope : t.currentScope = .bind b
  mainLt : br.main < t.nodes.size
  lt : ∀ m, m ∈ loc → br.main < m ∧ m < t.nodes.size
  img : ∀ j' i m, tm.instrs[j']? = some i → loc[j']? = some m → InstrImg t (loc.take j') v i m

/-- one iteration, from the frame facts of the step that created the local `n` (registered nodes `r`) -/
theorem LK2.step_gen {b : Nat} {br : BindRec} {s0 t t1 : State} {tm : Template} {v : Val} {j : Nat} {loc : List Nat}
    {i : Instr} {n : Nat} {r : List Nat} (L : LK2 b br s0 tm v j loc t) (hj : tm.instrs[j]? = some i)
    (htop : t1.top = t.top) (hsc : t1.currentScope = t.currentScope)
    (hold : ∀ m, m < t.nodes.size → t1.nodeD m = t.nodeD m)
    (hbo : ∀ b', b' ≠ b → b' < t.binds.size → t1.binds[b']? = t.binds[b']?)
    (hsz : t.nodes.size ≤ t1.nodes.size) (hn : t.nodes.size ≤ n) (hn1 : n < t1.nodes.size)
    (hbb : t1.binds[b]? = some { br with allNodesCreatedOnRhs := regOf t loc ++ r })
    (hr : regOf t1 [n] = r) (himg : InstrImg t1 loc v i n) :
    LK2 b br s0 tm v (j + 1) (loc ++ [n]) t1 := by
  have hreg : regOf t1 (loc ++ [n]) = regOf t loc ++ r := by
    rw [regOf_append, hr, regOf_congr (s := t) (s' := t1) (fun m hm => hold m (L.lt m hm).2)]
  refine ⟨by rw [hreg]; exact hbb, htop.trans L.top, by rw [List.length_append, L.len]; rfl,
    hsc.trans L.scope, Nat.lt_of_lt_of_le L.mainLt hsz, ?_, ?_⟩
  · intro m hm
    rcases List.mem_append.1 hm with hm | hm
    · have := L.lt m hm
      exact ⟨this.1, by omega⟩
    · rw [List.mem_singleton.1 hm]
      have := L.mainLt
      exact ⟨by omega, hn1⟩
  · intro j' i' m hi' hm
    rcases Nat.lt_or_ge j' loc.length with hlt | hge
    · rw [List.getElem?_append_left hlt] at hm
      have hml : m ∈ loc := List.mem_of_getElem? hm
      rw [List.take_append_of_le_length (Nat.le_of_lt hlt)]
      refine instrImg_frame htop (hold m (L.lt m hml).2) ?_ (L.img j' i' m hi' hm)
      intro b2 br2 hb2 hmain
      have hne : b2 ≠ b := by
        intro e
        rw [e, L.bind] at hb2
        cases hb2
        have := (L.lt m hml).1
        have hmain' : br.main = m := hmain
        omega
      rw [hbo b2 hne (NN.lt_of_getElem? hb2)]
      exact hb2
    · have hj' : j' = loc.length := by
        rcases Nat.lt_or_ge loc.length j' with h | h
        · rw [List.getElem?_eq_none (by rw [List.length_append, List.length_singleton]; omega)] at hm
          cases hm
        · omega
      subst hj'
      rw [List.getElem?_append_right (Nat.le_refl _), Nat.sub_self] at hm
      have hm' : n = m := by simpa using hm
      subst hm'
      rw [L.len, hj] at hi'
      cases hi'
      rw [List.take_left']
      · exact himg
      · rfl

/-- one iteration: a static node -/
theorem LK2.step_push {b : Nat} {br : BindRec} {s0 t t1 : State} {tm : Template} {v : Val} {j : Nat} {loc : List Nat}
    {i : Instr} {k : Kind} (L : LK2 b br s0 tm v j loc t) (hj : tm.instrs[j]? = some i)
    (hk : kindOfInstr t loc v i = some k) (C : CN.Push k b t t1) :
    LK2 b br s0 tm v (j + 1) (loc ++ [t.nodes.size]) t1 := by
  have hkd : (t1.nodeD t.nodes.size).kind = k := by rw [C.nodeD_new]
  refine L.step_gen (r := [t.nodes.size]) hj C.top C.scope (fun m hm => C.nodeD_lt hm) ?_ (by rw [C.size]; omega)
    (Nat.le_refl _) (by rw [C.size]; omega) ?_ ?_ ?_
  · intro b' hne _
    rw [C.binds, Array.getElem?_modify, if_neg (fun e => hne e.symm)]
  · rw [C.binds, Array.getElem?_modify, if_pos rfl, L.bind]; rfl
  · apply regOf_single_other
    intro b2 lc2
    rw [hkd]
    exact kindOfInstr_ne_main hk b2 lc2
  · apply instrImg_of_kind
    rw [C3e.kindOfInstr_congr C.top, hkd]
    exact hk

/-- one iteration: an inner bind — the local is the main node, the change detector is registered before it -/
theorem LK2.step_bind {b : Nat} {br : BindRec} {s0 t t1 : State} {tm : Template} {v : Val} {j : Nat} {loc : List Nat}
    {body' lhs : Nat} {o : Opnd} (L : LK2 b br s0 tm v j loc t) (hj : tm.instrs[j]? = some (.bind body' o))
    (hr : resolveP t loc o = some lhs) (C : NN.PushBind body' lhs b t t1) :
    LK2 b br s0 tm v (j + 1) (loc ++ [t.nodes.size + 1]) t1 := by
  have hkd : (t1.nodeD (t.nodes.size + 1)).kind = .bindMain t.binds.size t.nodes.size := by rw [C.nodeD_main]
  refine L.step_gen (r := [t.nodes.size, t.nodes.size + 1]) hj C.top C.scope (fun m hm => C.nodeD_lt hm)
    (fun b' hne hlt => C.binds_other hne hlt) (by rw [C.size]; omega)
    (by omega) (by rw [C.size]; omega) ?_ (regOf_single_main hkd) ?_
  · rw [C.binds_b L.bind]
    show some { br with allNodesCreatedOnRhs := regOf t loc ++ [t.nodes.size] ++ [t.nodes.size + 1] } = _
    rw [List.append_assoc]
    rfl
  · exact ⟨t.binds.size, _, t.nodes.size, hkd, C.binds_new L.bind, rfl, rfl, rfl,
      by rw [C3e.resolveP_congr C.top]; exact hr⟩

end N5e

end IncrVerif.Proofs.NestH
