import IncrVerif.Proofs.MemoH17
/-!
# C20 over whole histories, part 10: harness runs as `RunI` histories; all nodes of a memo body are top-level

* `RunI.of_runStates`: what the harness runs (`Life.runStates`) is a `RunI` history when every action satisfies `A`
  and the state after every action satisfies `I`.
* `Produced.block`: the nodes created by the run that produced an entry form a block of top-level nodes.
* a concrete sharing history for the non-vacuity example of `sharing_anchored`.
-/
namespace IncrVerif.Proofs.MemoH
open IncrVerif.Engine IncrVerif.Proofs.Obs IncrVerif.Proofs.Memo IncrVerif.Proofs.Own

theorem RunI.of_runStates (env : Env) (I : State → Prop) (A : Action → Prop) (as : List Action)
    (hA : ∀ a ∈ as, A a) (idx : Nat) (rs : RunState)
    (hI : ∀ k, k < as.length → I (Life.runStates env (as.take (k + 1)) idx rs).s) :
    RunI env I A rs.s (Life.runStates env as idx rs).s := by
  induction as generalizing idx rs with
  | nil => exact .nil _
  | cons a rest ih =>
    have h0 : I (traceAction env idx a rs).1.s := by
      have := hI 0 (by simp)
      simpa [Life.runStates] using this
    refine .clearLog (.step a rs.tokens _ (hA a List.mem_cons_self) (run_eta _ _) ?_ ?_)
    · rw [← Life.traceAction_state env idx a rs]; exact h0
    · rw [← Life.traceAction_state env idx a rs]
      refine ih (fun b hb => hA b (List.mem_cons_of_mem _ hb)) (idx + 1) _ fun k hk => ?_
      have := hI (k + 1) (by simp; omega)
      simpa [Life.runStates] using this

/-- all nodes created by the run that produced an entry are top-level nodes, and the entry is one of them -/
theorem Produced.block {env : Env} {s : State} {m : Nat} {key : Int} {n : Nat}
    (h : Produced env s m key n) :
    ∃ lo hi, lo ≤ n ∧ n < hi ∧ hi ≤ s.nodes.size ∧ ∀ i, lo ≤ i → i < hi → (s.nodeD i).createdIn = .top := by
  obtain ⟨s0, s2, h1, h2, h3, h4, h5⟩ := h
  refine ⟨s0.nodes.size, s2.nodes.size, h3, h4, h5.nodesLe, fun i hi1 hi2 => ?_⟩
  have hsc := elabTemplateBase_sc _ _ _ _ _ _ h2
  have := hsc.new i hi1 hi2
  rw [h1, or_self] at this
  have hc := h5.core i hi2
  simp only [nodeK, Prod.mk.injEq] at hc
  rw [hc.2]; exact this

/-! ## a concrete sharing history -/

/-- `var 2; memocall m0 1` … -/
def exPre : List Action := [.create (.var (.int 2)), .create (.memoCall 0 1)]
/-- … `set v0 3; observe n1; stabilise; drophandle n0` (the handle on the memo node `#2` is kept) … -/
def exMid : List Action := [.set 0 (.int 3), .observe (.outer 1), .stabilise, .dropHandle (.outer 0)]

def exRs0 : RunState := Life.runStates exEnvH [.create (.var (.int 2))] 0 { s := State.init 8 }
def exRs1' : RunState := Life.runStates exEnvH exPre 0 { s := State.init 8 }
def exRs2 : RunState := Life.runStates exEnvH exMid 2 exRs1'

/-- the second action of `exPre` returned node 2 -/
theorem exPre_call : CallRet exEnvH 0 1 exRs0.s 2 exRs1'.s := by
  have h1 : exRs1'.s = ((stepAction exEnvH (.create (.memoCall 0 1)) exRs0.tokens).run.run
      { exRs0.s with log := [] }).2 := by
    simp only [exRs1', exRs0, exPre, Life.runStates]
    exact Life.traceAction_state exEnvH 1 _ _
  rw [stepAction_memo_run] at h1
  rcases hm : (memoCall exEnvH 0 1).run.run { exRs0.s with log := [] } with ⟨_ | n, sx⟩
  · exfalso
    have : ((memoCall exEnvH 0 1).run.run { exRs0.s with log := [] }).1.toOption.isSome = true := by
      decide +kernel
    rw [hm] at this; cases this
  · rw [hm] at h1
    have hn : ((memoCall exEnvH 0 1).run.run { exRs0.s with log := [] }).1.toOption = some 2 := by
      decide +kernel
    rw [hm] at hn
    cases hn
    -- the memoised call does not look at the log: the same run from the uncleared state
    refine ⟨{ sx with log := sx.log }, ?_, h1⟩
    have hlog : ({ exRs0.s with log := [] } : State) = exRs0.s := by
      have : exRs0.s.log = [] := by decide +kernel
      cases hs : exRs0.s
      rw [hs] at this
      simp only at this
      subst this; rfl
    rw [← hlog]; exact hm

/-- node 2 stays in `handles` through `exMid` -/
theorem exMid_run : RunI exEnvH (fun t => Anchored t 2) (fun _ => True) exRs1'.s exRs2.s := by
  refine RunI.of_runStates exEnvH _ _ exMid (fun _ _ => trivial) 2 exRs1' fun k hk => ?_
  have hh : ∀ t : State, 2 ∈ t.handles → Anchored t 2 := fun t h => ⟨2, .inl h, .refl 2⟩
  apply hh
  have : k = 0 ∨ k = 1 ∨ k = 2 ∨ k = 3 := by simp [exMid] at hk; omega
  rcases this with rfl | rfl | rfl | rfl <;> decide +kernel

end IncrVerif.Proofs.MemoH
