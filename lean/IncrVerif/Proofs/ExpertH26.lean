import IncrVerif.Proofs.ExpertH24
/-!
# Expert fragment: simulation of the unlinking cascade, `propagate_invalidity`
-/
namespace IncrVerif.Proofs.ExpertH
open IncrVerif.Engine IncrVerif.Driver IncrVerif.Proofs IncrVerif.Proofs.Step IncrVerif.Proofs.Sched

theorem Sim.unlink (fuel : Nat) :
    (∀ n, Sim (becameUnnecessary fuel n) (becameUnnecessary fuel n)) ∧
    (∀ n, Sim (checkIfUnnecessary fuel n) (checkIfUnnecessary fuel n)) ∧
    (∀ n, Sim (removeChildren fuel n) (removeChildren fuel n)) := by
  induction fuel with
  | zero =>
    refine ⟨?_, ?_, ?_⟩
    · intro n s; unfold becameUnnecessary; xsim
    · intro n s; unfold checkIfUnnecessary; xsim
    · intro n s; unfold removeChildren; xsim
  | succ fuel ih =>
    refine ⟨?_, ?_, ?_⟩
    · intro n s
      unfold becameUnnecessary
      xsim
      all_goals first
        | exact ih.2.2 _ _
        | xsim_kind
      refine SimAt.veq_seq (PresV.observabilityChange _ _) fun _ _ => ?_
      xsim
    · intro n s
      unfold checkIfUnnecessary
      xsim
      all_goals exact ih.1 _ _
    · intro n s
      unfold removeChildren
      xsim
      all_goals exact ih.2.1 _ _

theorem Sim.becameUnnecessary (fuel n : Nat) :
    Sim (Engine.becameUnnecessary fuel n) (Engine.becameUnnecessary fuel n) := (Sim.unlink fuel).1 n
theorem Sim.checkIfUnnecessary (fuel n : Nat) :
    Sim (Engine.checkIfUnnecessary fuel n) (Engine.checkIfUnnecessary fuel n) := (Sim.unlink fuel).2.1 n
theorem Sim.removeChildren (fuel n : Nat) :
    Sim (Engine.removeChildren fuel n) (Engine.removeChildren fuel n) := (Sim.unlink fuel).2.2 n
macro_rules | `(tactic| xsim_leaf) => `(tactic|
  with_reducible exact IncrVerif.Proofs.ExpertH.Sim.becameUnnecessary _ _)
macro_rules | `(tactic| xsim_leaf) => `(tactic|
  with_reducible exact IncrVerif.Proofs.ExpertH.Sim.checkIfUnnecessary _ _)
macro_rules | `(tactic| xsim_leaf) => `(tactic|
  with_reducible exact IncrVerif.Proofs.ExpertH.Sim.removeChildren _ _)

/-- `Fr.pinv`: the stack is empty, a no-op on both sides -/
theorem Sim.propagateInvalidity (fuel : Nat) :
    Sim (Engine.propagateInvalidity fuel) (Engine.propagateInvalidity fuel) := by
  intro s hn r s' hr
  cases fuel with
  | zero => unfold Engine.propagateInvalidity at hr; cases hr
  | succ fuel =>
    unfold Engine.propagateInvalidity at hr ⊢
    rw [run_bind_get] at hr ⊢
    rw [virt_propagateInvalidity]
    rw [hn.pinv] at hr ⊢
    cases hr
    exact ⟨rfl, hn⟩
macro_rules | `(tactic| xsim_leaf) => `(tactic|
  with_reducible exact IncrVerif.Proofs.ExpertH.Sim.propagateInvalidity _)

end IncrVerif.Proofs.ExpertH
