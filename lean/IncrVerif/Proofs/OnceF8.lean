import IncrVerif.Proofs.OnceF3
import IncrVerif.Proofs.NestH122
/-!
# C02, combined fragment, part 8: INPUTS BEFORE OUTPUTS — no child of a node runs after the node in the same drain

`SKid s n c`: `c` is a child of `n` in `s` whose edge cannot be re-pointed — every child of a map / fold / map_ref / map_with_old node, the lhs of a change detector, the change
detector of a bind's main node (NOT the current rhs of a main node: that edge is re-pointed by the change detector's run).
`drain_orderF`: in the list of steps of a drain from the drain invariant `DInvF`, whenever step `p` comes before step `q`, the node of `q` is not such a child (taken at the
moment `p` ran) of the node of `p`.  Proof: the node of `p` keeps its stamp and its validity (`FrameB.ran`), existing nodes keep their kind and bind records their lhs
(`NestH.N7k.BKey`, preserved by every engine function), so the edge still exists when `q` runs, and `DInv.fresh` (nothing above the current node has run in this round) is
contradicted.
-/
namespace IncrVerif.Proofs.OnceF
open IncrVerif.Engine IncrVerif.Driver IncrVerif.Proofs IncrVerif.Proofs.Step IncrVerif.Proofs.Sched IncrVerif.Proofs.Quiet
open IncrVerif.Proofs.FullH IncrVerif.Proofs.TidyH
open IncrVerif.Proofs.BindH (DInv FrameB RanOnceB Edge Below)
open IncrVerif.Proofs.NestH.N7k

/-- `c` is a child of `n` whose edge is not re-pointed while `n` stays valid -/
def SKid (s : State) (n c : Nat) : Prop :=
  c ∈ s.children n ∧ ∀ b lc, (s.nodeD n).kind = .bindMain b lc → c = lc

/-- "the node of the later step `q` is no stable child of the node of the earlier step `p`" -/
def Ord (p q : Nat × State) : Prop := ∀ c, SKid p.2 p.1 c → q.1 ≠ c

theorem bkey_refl (s : State) : BKey s s := ⟨Nat.le_refl _, fun _ _ => rfl, fun _ br h => ⟨br, h, rfl, rfl⟩⟩

theorem bkey_trans {a b c : State} (h1 : BKey a b) (h2 : BKey b c) : BKey a c := by
  refine ⟨Nat.le_trans h1.size h2.size, fun m hm => ?_, fun b br h => ?_⟩
  · rw [h2.kind m (Nat.lt_of_lt_of_le hm h1.size), h1.kind m hm]
  · obtain ⟨br1, k1, k2, k3⟩ := h1.binds b br h
    obtain ⟨br2, k4, k5, k6⟩ := h2.binds b br1 k1
    exact ⟨br2, k4, k5.trans k2, k6.trans k3⟩

/-- a stable child is still a child later, as long as the node is valid -/
theorem kid_stable {s s' : State} {n c : Nat} (K : BKey s s') (hn : n < s.nodes.size) (hv : (s.nodeD n).valid = true)
    (hv' : (s'.nodeD n).valid = true) (hx : ∀ e, (s.nodeD n).kind ≠ .expert e) (h : SKid s n c) : c ∈ s'.children n := by
  obtain ⟨hc, hm⟩ := h
  have hk := K.kind n hn
  have hk1 : (s.nodeD n).kind? = some (s.nodeD n).kind := by simp [Node.kind?, hv]
  have hk2 : (s'.nodeD n).kind? = some (s.nodeD n).kind := by simp [Node.kind?, hv', hk]
  unfold State.children at hc ⊢
  rw [hk1] at hc
  rw [hk2]
  cases hkd : (s.nodeD n).kind with
  | const v => rw [hkd] at hc; cases hc
  | var v => rw [hkd] at hc; cases hc
  | map f args => rw [hkd] at hc; exact hc
  | mapRef p i => rw [hkd] at hc; exact hc
  | mapWithOld m i => rw [hkd] at hc; exact hc
  | fold f i cs => rw [hkd] at hc; exact hc
  | expert e => exact absurd hkd (hx e)
  | bindLhsChange b =>
    rw [hkd] at hc
    simp only at hc ⊢
    cases hb : s.binds[b]? with
    | none => rw [hb] at hc; cases hc
    | some br =>
      rw [hb] at hc
      obtain ⟨br', k1, -, k3⟩ := K.binds b br hb
      rw [k1]
      simp only [List.mem_singleton] at hc ⊢
      rw [k3]; exact hc
  | bindMain b lc =>
    have := hm b lc hkd
    subst this
    simp only
    cases s'.binds[b]? with
    | none => simp
    | some br' => simp

section
variable {env : Env} {sp : Nat → Val → Val}

/-- the core: `n` ran in state `a` (it was the current node there), it is stamped and valid in the later state `b` where `c'` is the current node: `c'` is no stable child of `n` -/
theorem ord_core {t a b : State} {ga gb : Nat → Option Val} {n c' : Nat} (Da : DInvF env sp t a ga (some n))
    (Db : DInvF env sp t b gb (some c')) (K : BKey a b)
    (hst : ((virt gb b).nodeD n).recomputedAt = (virt gb b).stabNum) (hvb : ((virt gb b).nodeD n).valid = true) :
    Ord (n, a) (c', b) := by
  intro c hk e
  simp only at hk e
  subst e
  obtain ⟨-, hlt, hv, -, -⟩ := Da.inv.cur_facts
  rw [virt_size] at hlt
  have hva : (a.nodeD n).valid = true := by rw [virt_nodeD, virtNode_valid] at hv; exact hv
  have hvb' : (b.nodeD n).valid = true := by rw [virt_nodeD, virtNode_valid] at hvb; exact hvb
  have hx : ∀ e, (a.nodeD n).kind ≠ .expert e := by
    intro e he
    have := (Da.inv.graph.node n (by rw [virt_size]; exact hlt) hv).1
    rw [virt_nodeD, virtNode_kind, he] at this
    exact this
  have hmem := kid_stable K hlt hva hvb' hx hk
  have hedge : Edge (virt gb b) n c' := Edge.child (by rw [virt_children]; exact hmem)
  have := Db.inv.fresh n c' (Below.of_edge hedge) (Or.inr rfl)
  omega

/-- the states of the steps of a direct-recompute chain: reached from the start, and the end is reached from them, by engine functions -/
theorem chainSteps_bkey : ∀ (fuel n : Nat) (s s' : State), (recompute env fuel n).run.run s = (.ok (), s') →
    ∀ q, q ∈ chainSteps env fuel n s → BKey s q.2 ∧ BKey q.2 s' := by
  intro fuel
  induction fuel with
  | zero => intro n s s' h; unfold recompute at h; cases h
  | succ fuel ih =>
    intro n s s' h q hq
    have hall := (PresBK.recompute env (fuel+1) n).h s _ s' h
    unfold recompute at h
    obtain ⟨r, s1, h1, h2⟩ := bind_ok_inv h
    have k1 := (PresBK.recomputeOne env fuel n).h s _ s1 h1
    unfold chainSteps at hq
    rw [h1] at hq
    rcases List.mem_cons.1 hq with rfl | hq
    · exact ⟨bkey_refl _, hall⟩
    · cases r with
      | none => cases hq
      | some p =>
        obtain ⟨a, b⟩ := ih p s1 s' h2 q hq
        exact ⟨bkey_trans k1 a, b⟩

theorem drainSteps_bkey : ∀ (fuel : Nat) (s s' : State), (drainHeap env fuel).run.run s = (.ok (), s') →
    ∀ q, q ∈ drainSteps env fuel s → BKey s q.2 ∧ BKey q.2 s' := by
  intro fuel
  induction fuel with
  | zero => intro s s' h; unfold drainHeap at h; cases h
  | succ fuel ih =>
    intro s s' h q hq
    unfold drainHeap at h
    obtain ⟨r, s1, h1, h2⟩ := bind_ok_inv h
    have k1 := PresBK.rchRemoveMin.h s _ s1 h1
    unfold drainSteps at hq
    rw [h1] at hq
    cases r with
    | none => cases hq
    | some n =>
      obtain ⟨u, s2, h3, h4⟩ := bind_ok_inv h2
      dsimp only at hq
      rw [h3] at hq
      dsimp only at hq
      have k2 := (PresBK.recompute env fuel n).h s1 _ s2 h3
      have k3 := (PresBK.drainHeap env fuel).h s2 _ s' h4
      rcases List.mem_append.1 hq with hq | hq
      · obtain ⟨a, b⟩ := chainSteps_bkey fuel n s1 s2 h3 q hq
        exact ⟨bkey_trans k1 a, bkey_trans b k3⟩
      · obtain ⟨a, b⟩ := ih s2 s' h4 q hq
        exact ⟨bkey_trans k1 (bkey_trans k2 a), b⟩

theorem chain_orderF (X : Kit env sp) : ∀ (fuel n : Nat) (t s s' : State) (g : Nat → Option Val),
    DInvF env sp t s g (some n) → (recompute env fuel n).run.run s = (.ok (), s') →
    (chainSteps env fuel n s).Pairwise Ord := by
  intro fuel
  induction fuel with
  | zero => intro n t s s' g _ h; unfold recompute at h; cases h
  | succ fuel ih =>
    intro n t s s' g D h
    unfold recompute at h
    obtain ⟨r, s1, h1, h2⟩ := bind_ok_inv h
    obtain ⟨g1, D1, f1, hn1, hv1⟩ := recomputeOne_full X D h1
    have k1 := (PresBK.recomputeOne env fuel n).h s _ s1 h1
    have hn1' : ((virt g1 s1).nodeD n).recomputedAt = (virt g1 s1).stabNum := by rw [f1.stabNum]; exact hn1
    unfold chainSteps
    rw [h1]
    cases r with
    | none => simp
    | some p =>
      obtain ⟨g2, R⟩ := chain_onceF X fuel p t s1 s' g1 D1 h2
      refine List.pairwise_cons.2 ⟨?_, ih p t s1 s' g1 D1 h2⟩
      intro q hq
      obtain ⟨gq, Dq, fq⟩ := R.steps q hq
      obtain ⟨a1, a2⟩ := fq.ran n hn1'
      have hb := (chainSteps_bkey fuel p s1 s' h2 q hq).1
      exact ord_core D Dq (bkey_trans k1 hb) (by rw [fq.stabNum]; exact a1) (by rw [a2]; exact hv1)

/-- **INPUTS BEFORE OUTPUTS, the drain of the combined fragment** -/
theorem drain_orderF (X : Kit env sp) : ∀ (fuel : Nat) (t s s' : State) (g : Nat → Option Val),
    DInvF env sp t s g none → (drainHeap env fuel).run.run s = (.ok (), s') →
    (drainSteps env fuel s).Pairwise Ord := by
  intro fuel
  induction fuel with
  | zero => intro t s s' g _ h; unfold drainHeap at h; cases h
  | succ fuel ih =>
    intro t s s' g D h
    unfold drainHeap at h
    obtain ⟨r, s1, h1, h2⟩ := bind_ok_inv h
    unfold drainSteps
    rw [h1]
    cases r with
    | none => simp
    | some n =>
      obtain ⟨u, s2, h3, h4⟩ := bind_ok_inv h2
      dsimp only
      rw [h3]
      dsimp only
      obtain ⟨D1, f1⟩ := pop_full D h1
      obtain ⟨g2, R1⟩ := chain_onceF X fuel n t s1 s2 g D1 h3
      obtain ⟨g3, R2, -⟩ := drain_onceF X fuel t s2 s' g2 R1.inv h4
      refine List.pairwise_append.2 ⟨chain_orderF X fuel n t s1 s2 g D1 h3, ih t s2 s' g2 R1.inv h4, ?_⟩
      intro a ha b hb
      obtain ⟨ga, Da, -⟩ := R1.steps a ha
      obtain ⟨gb, Db, fb⟩ := R2.steps b hb
      obtain ⟨-, o2, o3⟩ := R1.once a.1 (List.mem_map_of_mem ha)
      have o2' : ((virt g2 s2).nodeD a.1).recomputedAt = (virt g2 s2).stabNum := by rw [R1.fr.stabNum]; exact o2
      obtain ⟨a1, a2⟩ := fb.ran a.1 o2'
      have ka := (chainSteps_bkey fuel n s1 s2 h3 a ha).2
      have kb := (drainSteps_bkey fuel s2 s' h4 b hb).1
      exact ord_core (n := a.1) (c' := b.1) Da Db (bkey_trans ka kb) (by rw [fb.stabNum]; exact a1) (by rw [a2]; exact o3)

end
end IncrVerif.Proofs.OnceF
