import IncrVerif.Proofs.NestH19
import IncrVerif.Proofs.Quiet28
import IncrVerif.Proofs.Sched13
/-!
# Total correctness for binds (F1 ⊂ F2), part a: definitions

* `cnt rk N n`: the number of nodes (among the first `N`) of smaller rank than `n` — the POSITION of `n` in the rank order.  It bounds the height of `n`
  (`HBo2`): heights strictly increase along child edges and from a change detector to the nodes of its scope, and both have increasing rank.  So the height limit
  is never hit while the number of nodes EVER CREATED stays `≤ N` (`Quiet.Room N s`).  (Heights of live nodes are NOT bounded by the live graph: a main node keeps
  the height a deep earlier generation gave it.)
* `TInv2 rk N s`: what the "no panic" argument needs besides the structural invariants.
* `Quiet.Tot x s Q` (the run returns, in a state satisfying `Q`) is reused for everything that creates no node; runs that create nodes (closure runs, the drain,
  `stabilise`, histories) are handled with `TotIf`: IF the state the run ends in (whatever the outcome) still has room, then the run returned.
-/
namespace IncrVerif.Proofs.NestH
open IncrVerif.Engine IncrVerif.Proofs IncrVerif.Proofs.Step IncrVerif.Proofs.Sched IncrVerif.Proofs.Quiet
open IncrVerif.Proofs.BindH

/-- the position of `n` in the rank order of the first `N` nodes -/
def cnt (rk : Nat → Nat) (N n : Nat) : Nat := (List.range N).countP fun m => decide (rk m < rk n)

theorem cnt_lt_cnt {rk : Nat → Nat} {N a b : Nat} (ha : a < N) (h : rk a < rk b) : cnt rk N a < cnt rk N b := by
  unfold cnt
  apply countP_lt_of_imp _ _ _ _ a (List.mem_range.2 ha)
  · exact decide_eq_true h
  · exact decide_eq_false (Nat.lt_irrefl _)
  · intro m _ hm
    have := of_decide_eq_true hm
    exact decide_eq_true (by omega)

theorem cnt_le_cnt {rk : Nat → Nat} {N a b : Nat} (h : rk a ≤ rk b) : cnt rk N a ≤ cnt rk N b := by
  unfold cnt
  apply countP_le_of_imp
  intro m _ hm
  have := of_decide_eq_true hm
  exact decide_eq_true (by omega)

theorem cnt_lt_size {rk : Nat → Nat} {N n : Nat} (hn : n < N) : cnt rk N n < N := by
  have h1 : cnt rk N n < (List.range N).countP fun _ => true := by
    unfold cnt
    apply countP_lt_of_imp _ _ _ _ n (List.mem_range.2 hn) rfl
    · exact decide_eq_false (Nat.lt_irrefl _)
    · intro _ _ _; rfl
  have h2 : ((List.range N).countP fun _ => true) ≤ (List.range N).length := List.countP_le_length
  rw [List.length_range] at h2
  omega

theorem cnt_le_size (rk : Nat → Nat) (N n : Nat) : cnt rk N n ≤ N := by
  have h2 : cnt rk N n ≤ (List.range N).length := List.countP_le_length
  rw [List.length_range] at h2
  exact h2

/-- re-ranking that keeps the order of the old nodes, and growth of the node table, only increase the position of an old node -/
theorem cnt_ext {rk rk' : Nat → Nat} {N N' n : Nat} (hx : RkExt rk rk' N) (hn : n < N) (hN : N ≤ N') :
    cnt rk N n ≤ cnt rk' N' n := by
  unfold cnt
  have h1 : (List.range N).countP (fun m => decide (rk m < rk n)) = (List.range N).countP (fun m => decide (rk' m < rk' n)) := by
    apply List.countP_congr
    intro m hm
    have hm' := List.mem_range.1 hm
    simp only [decide_eq_true_eq]
    exact (hx m n hm' hn).symm
  rw [h1]
  obtain ⟨k, rfl⟩ : ∃ k, N' = N + k := ⟨N' - N, by omega⟩
  rw [List.range_add, List.countP_append]
  omega

/-- closed necessary nodes are not higher than their position in the rank order plus one (`becameNecessary` starts a top-level node at height 1) -/
def HBo2 (rk : Nat → Nat) (s : State) (op : Nat → Op) : Prop :=
  ∀ m, s.isNecessary m = true → op m = .closed → (s.nodeD m).height ≤ (cnt rk s.nodes.size m : Int) + 1

structure TInv2 (rk : Nat → Nat) (N : Nat) (s : State) : Prop where
  hb : HBo2 rk s allClosed
  room : Room N s
  linked : ∀ (c : Nat) (vc : VarCell), s.vars[c]? = some vc → vc.linked = true
  /-- the observers waiting to be added: no duplicates, each still `created` or already `unlinked` -/
  newNodup : s.newObservers.Nodup
  newState : ∀ (o : Nat) (ob : ObsRec), o ∈ s.newObservers → s.observers[o]? = some ob →
    ob.state = .created ∨ ob.state = .unlinked

/-- a node of the state with a bounded position is below the height limit -/
theorem HBo2.le_max {rk : Nat → Nat} {N : Nat} {s : State} {op : Nat → Op} (hb : HBo2 rk s op) (R : Room N s) {m : Nat}
    (hm : m < s.nodes.size) (hn : s.isNecessary m = true) (ho : op m = .closed) : (s.nodeD m).height ≤ (N : Int) := by
  have h1 := hb m hn ho
  have h2 := cnt_lt_size (rk := rk) hm
  have h3 := R.size
  omega

/-! ## runs that create nodes -/

/-- the resources the final state must still respect: at most `N` nodes, and fuel `F` for `c * size + d` steps -/
def ResOK (N : Nat) (s : State) : Prop := s.nodes.size ≤ N

/-- IF the state the run ends in (whatever the outcome) satisfies `B`, THEN the run returned normally, in a state satisfying `Q` -/
def TotIf {α} (x : M α) (s : State) (B : State → Prop) (Q : α → State → Prop) : Prop :=
  ∀ r s', x.run.run s = (r, s') → B s' → ∃ a, r = .ok a ∧ Q a s'

theorem TotIf.of_tot {α} {x : M α} {s : State} {B : State → Prop} {Q : α → State → Prop} (T : Tot x s Q) :
    TotIf x s B Q := by
  obtain ⟨a, s1, h1, h2⟩ := T
  intro r s' h _
  rw [h1] at h
  cases h
  exact ⟨a, rfl, h2⟩

theorem TotIf.mono {α} {x : M α} {s : State} {B : State → Prop} {Q Q' : α → State → Prop} (T : TotIf x s B Q)
    (h : ∀ a t, Q a t → Q' a t) : TotIf x s B Q' := by
  intro r s' hr hB
  obtain ⟨a, e, hq⟩ := T r s' hr hB
  exact ⟨a, e, h a s' hq⟩

/-- sequencing: the bound `B` must be downward closed along the continuation (`hmono`: if the final state of `f a` from `s1` satisfies `B` then so does `s1`) -/
theorem TotIf.bind {α β} {x : M α} {f : α → M β} {s : State} {B : State → Prop} {Q : α → State → Prop} {Q' : β → State → Prop}
    (hx : TotIf x s B Q)
    (hmono : ∀ a s1 r s', x.run.run s = (.ok a, s1) → (f a).run.run s1 = (r, s') → B s' → B s1)
    (hf : ∀ a s1, x.run.run s = (.ok a, s1) → Q a s1 → TotIf (f a) s1 B Q') : TotIf (x >>= f) s B Q' := by
  intro r s' h hB
  rw [run_bind] at h
  rcases hx1 : x.run.run s with ⟨e | a, s1⟩
  · rw [hx1] at h
    cases h
    obtain ⟨a, e', -⟩ := hx _ _ hx1 hB
    cases e'
  · rw [hx1] at h
    have hB1 := hmono a s1 r s' hx1 h hB
    obtain ⟨a', e', hq⟩ := hx (.ok a) s1 hx1 hB1
    cases e'
    exact hf a s1 hx1 hq r s' h hB

end IncrVerif.Proofs.NestH
