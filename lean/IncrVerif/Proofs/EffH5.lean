import IncrVerif.Proofs.EffH4
/-!
# Effects, part 5: the drain with write effects

`DI env s x`: the facts carried along the drain (scheduling invariant for the effect-free environment, `UnnecOK`,
status, live handles).  `DR s s'`: the drain's frame up to deferred writes.  `drainSteps`: the nodes the drain runs
TOGETHER WITH the state each of them ran in.
-/
namespace IncrVerif.Proofs.EffH
open IncrVerif.Engine IncrVerif.Driver IncrVerif.Proofs IncrVerif.Proofs.Step IncrVerif.Proofs.Sched
open IncrVerif.Proofs.Quiet

/-- what holds in every state of a drain with write effects -/
structure DI (env : Env) (s : State) (x : Option Nat) : Prop where
  inv : Inv (noEff env) s x
  unnec : UnnecOK (noEff env) s
  status : s.status = .stabilising
  handles : HandlesOK s

/-- the frame of a drain with write effects -/
structure DR (s s' : State) : Prop where
  frame : FrameP s s'
  calm : CalmP s s'
  keyD : KeyD s s'

theorem DR.refl (s : State) : DR s s := ⟨FrameP.refl s, CalmP.refl s, KeyD.refl s⟩
theorem DR.trans {a b c : State} (h1 : DR a b) (h2 : DR b c) : DR a c :=
  ⟨h1.frame.trans h2.frame, h1.calm.trans h2.calm, h1.keyD.trans h2.keyD⟩
theorem DR.of_sameP {s s' : State} (h : SameP s s') : DR s s' :=
  ⟨FrameP.of_sameP h, CalmP.of_sameP h, h.keyD⟩

theorem handlesOK_of_vars {s s' : State} (h : HandlesOK s) (e : s'.vars = s.vars) : HandlesOK s' := by
  intro v c hc; rw [e] at hc; exact h v c hc

/-- **one `recomputeOne` with write effects** -/
theorem recomputeOne_effstep {env : Env} {fuel n : Nat} {s s' : State} {r : Option Nat}
    (hw : WOnly env) (D : DI env s (some n)) (h : (recomputeOne env fuel n).run.run s = (.ok r, s')) :
    DI env s' r ∧ DR s s' ∧ (s'.nodeD n).recomputedAt = s.stabNum ∧
    ∀ t W, Pend t W s → Pend t (W ++ writesOf (nodeEffs env s n)) s' := by
  obtain ⟨h0, hex⟩ := recomputeOne_eff_eq D.inv D.status hw D.handles h
  have P := effSteps_sameP (nodeEffs env s n) s
  have I1 := P.inv D.inv
  obtain ⟨I', f1, hst⟩ := recomputeOne_inv I1 h0
  have c1 := recomputeOne_calm I1.graph (I1.cur n rfl).1 I1.kids_values h0
  have k1 := recomputeOne_keyD I1.graph (I1.cur n rfl).1 I1.kids_values h0
  have U' := recomputeOne_unnec I1 (P.unnecOK D.unnec) h0
  refine ⟨⟨I', U', ?_, ?_⟩, ?_, ?_, ?_⟩
  · rw [c1.status, P.status]; exact D.status
  · exact handlesOK_of_vars (P.handlesOK D.handles) f1.vars
  · exact (DR.of_sameP P).trans ⟨FrameP.of_frame f1, CalmP.of_calm c1, k1⟩
  · rw [hst, P.stabNum]
  · intro t W hP
    exact (effSteps_pend hP hex).congr f1.vars c1.setDuringStab

/-! ## the steps of a drain, with their states -/

/-- the nodes `recompute env fuel n` runs from `s`, each with the state it runs in -/
def chainSteps (env : Env) : Nat → Nat → State → List (Nat × State)
  | 0, _, _ => []
  | fuel+1, n, s =>
    (n, s) :: (match (recomputeOne env fuel n).run.run s with
      | (.ok (some p), s1) => chainSteps env fuel p s1
      | _ => [])

/-- the nodes `drainHeap env fuel` runs from `s`, each with the state it runs in -/
def drainSteps (env : Env) : Nat → State → List (Nat × State)
  | 0, _ => []
  | fuel+1, s =>
    match rchRemoveMin.run.run s with
    | (.ok (some n), s1) =>
      chainSteps env fuel n s1 ++
        (match (recompute env fuel n).run.run s1 with
         | (.ok _, s2) => drainSteps env fuel s2
         | _ => [])
    | _ => []

theorem chainSteps_fst (env : Env) : ∀ (fuel n : Nat) (s : State),
    (chainSteps env fuel n s).map (·.1) = chainTrace env fuel n s := by
  intro fuel
  induction fuel with
  | zero => intro n s; rfl
  | succ fuel ih =>
    intro n s
    unfold chainSteps chainTrace
    rcases hx : (recomputeOne env fuel n).run.run s with ⟨_ | _ | p, s1⟩
    · simp
    · simp
    · simp [ih]

theorem drainSteps_fst (env : Env) : ∀ (fuel : Nat) (s : State),
    (drainSteps env fuel s).map (·.1) = drainTrace env fuel s := by
  intro fuel
  induction fuel with
  | zero => intro s; rfl
  | succ fuel ih =>
    intro s
    unfold drainSteps drainTrace
    rcases hx : rchRemoveMin.run.run s with ⟨_ | _ | n, s1⟩
    · simp
    · simp
    · simp only [List.map_append, chainSteps_fst]
      rcases hy : (recompute env fuel n).run.run s1 with ⟨_ | _, s2⟩
      · simp
      · simp [ih]

/-- the deferred writes of a list of steps, in program order -/
def stepsWrites (env : Env) (l : List (Nat × State)) : Writes :=
  l.flatMap fun p => writesOf (nodeEffs env p.2 p.1)

theorem stepsWrites_append (env : Env) (a b : List (Nat × State)) :
    stepsWrites env (a ++ b) = stepsWrites env a ++ stepsWrites env b := by
  simp only [stepsWrites, List.flatMap_append]

theorem stepsWrites_cons (env : Env) (p : Nat × State) (l : List (Nat × State)) :
    stepsWrites env (p :: l) = writesOf (nodeEffs env p.2 p.1) ++ stepsWrites env l := by
  simp only [stepsWrites, List.flatMap_cons]

/-- what is known about the state `p.2` in which node `p.1` ran, relative to the state `s` the drain started in -/
structure StepOK (env : Env) (s : State) (p : Nat × State) : Prop where
  di : DI env p.2 (some p.1)
  dr : DR s p.2

theorem StepOK.extend {env : Env} {a b : State} {p : Nat × State} (h : DR a b) (o : StepOK env b p) :
    StepOK env a p := ⟨o.di, h.trans o.dr⟩

theorem RanOnce.extend_leftP {a b c : State} {m : Nat} (f : FrameP a b) (st : Stamps a)
    (h : RanOnce b c m) : RanOnce a c m := by
  obtain ⟨h1, h2, h3⟩ := h
  rw [f.stabNum] at h2 h3
  exact ⟨by rw [← f.nec]; exact h1, f.not_yet st h2, h3⟩

/-- the conclusions about a run `s → s'` of the drain (or of a direct-recompute chain) -/
structure RunOK (env : Env) (l : List (Nat × State)) (s s' : State) : Prop where
  di : DI env s' none
  dr : DR s s'
  pend : ∀ t W, Pend t W s → Pend t (W ++ stepsWrites env l) s'
  steps : ∀ p, p ∈ l → StepOK env s p
  nodup : (l.map (·.1)).Nodup
  once : ∀ m, m ∈ l.map (·.1) → RanOnce s s' m

theorem recompute_eff {env : Env} (hw : WOnly env) : ∀ (fuel n : Nat) (s s' : State),
    DI env s (some n) → (recompute env fuel n).run.run s = (.ok (), s') →
    RunOK env (chainSteps env fuel n s) s s' := by
  intro fuel
  induction fuel with
  | zero => intro n s s' _ h; unfold recompute at h; cases h
  | succ fuel ih =>
    intro n s s' D h
    unfold recompute at h
    obtain ⟨r, s1, h1, h2⟩ := bind_ok_inv h
    obtain ⟨D1, r1, hn1, p1⟩ := recomputeOne_effstep hw D h1
    have hn0 := D.inv.cur_not_yet
    have hnec := (D.inv.cur n rfl).1
    unfold chainSteps
    rw [h1]
    cases r with
    | none =>
      obtain ⟨-, rfl⟩ := pure_ok_inv h2
      refine ⟨D1, r1, ?_, ?_, by simp, ?_⟩
      · intro t W hP
        rw [stepsWrites_cons]; simp only [stepsWrites, List.flatMap_nil, List.append_nil]
        exact p1 t W hP
      · intro p hp
        simp only [List.mem_singleton] at hp
        subst hp
        exact ⟨D, DR.refl s⟩
      · intro m hm
        simp only [List.map_cons, List.map_nil, List.mem_singleton] at hm
        subst hm
        exact ⟨hnec, hn0, hn1⟩
    | some p =>
      have R := ih p s1 s' D1 h2
      dsimp only
      refine ⟨R.di, r1.trans R.dr, ?_, ?_, ?_, ?_⟩
      · intro t W hP
        rw [stepsWrites_cons, ← List.append_assoc]
        exact R.pend t _ (p1 t W hP)
      · intro q hq
        rcases List.mem_cons.1 hq with rfl | hq
        · exact ⟨D, DR.refl s⟩
        · exact (R.steps q hq).extend r1
      · rw [List.map_cons, List.nodup_cons]
        refine ⟨?_, R.nodup⟩
        intro hmem
        have := (R.once n hmem).2.1
        rw [r1.frame.stabNum] at this
        omega
      · intro m hm
        rw [List.map_cons] at hm
        rcases List.mem_cons.1 hm with rfl | hm
        · refine ⟨hnec, hn0, ?_⟩
          have := R.dr.frame.ran m (by rw [r1.frame.stabNum]; exact hn1)
          rw [r1.frame.stabNum] at this; exact this
        · exact RanOnce.extend_leftP r1.frame D.inv.stamps (R.once m hm)

/-- taking the minimum out of the heap -/
theorem pop_eff {env : Env} {s s1 : State} {n : Nat} (D : DI env s none)
    (h : rchRemoveMin.run.run s = (.ok (some n), s1)) : DI env s1 (some n) ∧ DR s s1 ∧ Frame s s1 ∧ Calm s s1 := by
  obtain ⟨I1, f1⟩ := pop_inv D.inv h
  have c1 := pop_calm D.inv.heap h
  have k1 := pop_keyD D.inv.heap h
  have U1 := pop_unnec D.inv.heap D.unnec h
  exact ⟨⟨I1, U1, by rw [c1.status]; exact D.status, handlesOK_of_vars D.handles f1.vars⟩,
    ⟨FrameP.of_frame f1, CalmP.of_calm c1, k1⟩, f1, c1⟩

/-- **the drain with write effects** -/
theorem drainHeap_eff {env : Env} (hw : WOnly env) : ∀ (fuel : Nat) (s s' : State),
    DI env s none → (drainHeap env fuel).run.run s = (.ok (), s') →
    RunOK env (drainSteps env fuel s) s s' ∧ s'.rch.length = 0 := by
  intro fuel
  induction fuel with
  | zero => intro s s' _ h; unfold drainHeap at h; cases h
  | succ fuel ih =>
    intro s s' D h
    unfold drainHeap at h
    obtain ⟨r, s1, h1, h2⟩ := bind_ok_inv h
    unfold drainSteps
    rw [h1]
    cases r with
    | none =>
      obtain ⟨-, rfl⟩ := pure_ok_inv h2
      obtain ⟨rfl, he⟩ := rchRemoveMin_inv D.inv.heap h1
      refine ⟨⟨D, DR.refl _, ?_, ?_, List.nodup_nil, ?_⟩, he⟩
      · intro t W hP
        simp only [stepsWrites, List.flatMap_nil, List.append_nil]; exact hP
      · intro p hp; cases hp
      · intro m hm; cases hm
    | some n =>
      obtain ⟨u, s2, h3, h4⟩ := bind_ok_inv h2
      dsimp only
      rw [h3]
      dsimp only
      obtain ⟨D1, r1, f1, c1⟩ := pop_eff D h1
      have R2 := recompute_eff hw fuel n s1 s2 D1 h3
      obtain ⟨R3, he⟩ := ih s2 s' R2.di h4
      refine ⟨⟨R3.di, (r1.trans R2.dr).trans R3.dr, ?_, ?_, ?_, ?_⟩, he⟩
      · intro t W hP
        rw [stepsWrites_append, ← List.append_assoc]
        exact R3.pend t _ (R2.pend t W (hP.congr f1.vars c1.setDuringStab))
      · intro p hp
        rcases List.mem_append.1 hp with hp | hp
        · exact (R2.steps p hp).extend r1
        · exact (R3.steps p hp).extend (r1.trans R2.dr)
      · rw [List.map_append, List.nodup_append]
        refine ⟨R2.nodup, R3.nodup, ?_⟩
        intro a ha b hb e
        subst e
        have h5 := (R2.once a ha).2.2
        have h6 := (R3.once a hb).2.1
        rw [R2.dr.frame.stabNum] at h6
        omega
      · intro m hm
        rw [List.map_append] at hm
        rcases List.mem_append.1 hm with hm | hm
        · obtain ⟨a1, a2, a3⟩ := R2.once m hm
          have : RanOnce s1 s' m := by
            refine ⟨a1, a2, ?_⟩
            have := R3.dr.frame.ran m (by rw [R2.dr.frame.stabNum]; exact a3)
            rw [R2.dr.frame.stabNum] at this; exact this
          exact RanOnce.extend_leftP r1.frame D.inv.stamps this
        · exact RanOnce.extend_leftP (r1.trans R2.dr).frame D.inv.stamps (R3.once m hm)

end IncrVerif.Proofs.EffH
