import IncrVerif.Proofs.FullT16
import IncrVerif.Proofs.FullT9
import IncrVerif.Proofs.FullH30
import IncrVerif.Proofs.NestH109
/-!
# C04 combined fragment: THE OWN STEP OF A `map_ref` NODE returns and keeps the totality invariants

The step `modNode n {value := none, didChange := false}; maybeChangeValueManual env fuel n none nd.didChange false` (after the common prologue) is not simulated by the virtual
engine.  It returns: if the flag is down the walk is `return none`; if it is up, by the contract `McvmQC` (file `L10`: the actual walk WITHOUT `child_changed` against the virtual
walk WITH it) it suffices that the virtual walk returns, which is `NestH.T2b.mcvm_noerr`.  The totality invariant `NestH.DT` of the virtual state is kept: `dt_vstep` on the
`VStep` built by the partial-correctness proof (`FullH.step_mapRef_rel`, replayed here keeping the frames).
-/
namespace IncrVerif.Proofs.FullT
open IncrVerif.Engine IncrVerif.Proofs IncrVerif.Proofs.Step IncrVerif.Proofs.Sched IncrVerif.Proofs.Quiet IncrVerif.Proofs.FullH
open IncrVerif.Proofs.MapRefH (upd1 upd1_self upd1_other cleared cleared_nodeD cleared_started_nodeD After IsMapRef FM value_congr_mr)
open IncrVerif.Proofs.BindH (DInv BGraph StepRelB TargetB DKey NKey FrameB Below Edge children_congr_kind)

/-- contract with ft-cc (L10): the actual walk WITHOUT child_changed against the virtual walk WITH it -/
def McvmQC (K : Kind → Prop) (env : Env) (sp : Nat → Val → Val) : Prop :=
  ∀ (g : Nat → Option Val) (fuel n : Nat) (o o' : Option Val) (did : Bool) (s : State), 0 < fuel →
    (∀ x ∈ (s.nodeD n).parents, (s.nodeD x.1).valid = true) →
    BSimAt K PInv g s (maybeChangeValueManual env fuel n o did false) (maybeChangeValueManual (virtEnv env sp) fuel n o' did true)

/-- the contract holds (`L10`: `BSimAt.maybeChangeValueManual_quiet`) -/
theorem mcvmQC (K : Kind → Prop) (env : Env) (sp : Nat → Val → Val) : McvmQC K env sp :=
  fun _ fuel n o o' did _ hf hpv => BSimAt.maybeChangeValueManual_quiet env fuel n o o' did hf hpv

section
variable {env : Env} {sp : Nat → Val → Val}

/-- the facts of the step that do not depend on the flag, from the drain invariant -/
theorem mrs_of_dinvF {t s : State} {g : Nat → Option Val} {n p i : Nat}
    (D : DInvF env sp t s g (some n)) (hk : (s.nodeD n).kind = .mapRef p i) :
    ∃ vi, MR.MRS env sp g s n p i vi := by
  have I := D.inv
  obtain ⟨hnv, hltv, hvv, -, -⟩ := I.cur_facts
  have hn : s.isNecessary n = true := by rw [← virt_isNecessary g s]; exact hnv
  have hlt : n < s.nodes.size := D.frag.lt_of_mapRef hk
  have hv : (s.nodeD n).valid = true := by rw [virt_nodeD, virtNode_valid] at hvv; exact hvv
  obtain ⟨htv, hsome⟩ := kids_settled D i (by rw [children_mapRef hv hk]; exact List.mem_singleton.2 rfl)
  obtain ⟨vi, hvi⟩ := Option.isSome_iff_exists.1 hsome
  exact ⟨vi, D.frag, I, hlt, hk, hn, hv, hvi, by rw [htv]; exact hvi⟩

/-- the prologue and the `modNode` keep the carried invariant -/
theorem pinv_cleared_started {s : State} {n : Nat} (hP : PInv s) (hlt : n < s.nodes.size) : PInv (cleared n (started n s)) := by
  have hX := fun m => cleared_started_nodeD n m s hlt
  refine hP.of_nodeD (by simp [cleared, started]) (fun m => ?_) (fun m x hx => ?_)
  · rw [hX]; split
    · rename_i e; rw [e]
    · rfl
  · rw [hX] at hx; split at hx
    · rename_i e; rw [e]; exact hx
    · exact hx

/-- **the own step of a `map_ref` node returns**, and keeps the carried invariant -/
theorem step_mapRef_returns (Q : McvmQC (FK env sp) env sp) {t s : State} {g : Nat → Option Val} {N fuel n p i : Nat}
    (D : DInvF env sp t s g (some n)) (hP : PInv s) (T : NestH.DT (VE env sp) N (virt g s)) (hroom : s.nodes.size ≤ N)
    (hk : (s.nodeD n).kind = .mapRef p i) (hf : 1 ≤ fuel) :
    ∃ r s', (recomputeOne env fuel n).run.run s = (.ok r, s') ∧ PInv s' := by
  obtain ⟨vi, S⟩ := mrs_of_dinvF D hk
  have I := D.inv
  have gr := I.graph
  have hi := I.heap
  have hlt := S.lt
  rw [MapRefH.recomputeOne_mapRef_run (some_of_lt hlt) S.valid hk]
  have hPX := pinv_cleared_started hP hlt
  cases hd : (s.nodeD n).didChange with
  | false => rw [run_mcvm_false]; exact ⟨_, _, rfl, hPX⟩
  | true =>
    have hUW := S.upd
    have frX := (S.frX (some (env.proj p vi))).fr
    generalize hg' : upd1 g n (some (env.proj p vi)) = g' at hUW frX
    have B := Q g' fuel n none none true (cleared n (started n s)) (by omega) S.parentsValid
    generalize hW : virt g' (cleared n (started n s)) = W at hUW
    -- the virtual notification walk cannot panic
    obtain ⟨rk, -, hb, -, L⟩ := T
    have hmax := NestH.T2b.hmax_of gr hb (L.room (by rw [virt_size]; exact hroom))
    have hltv : n < (virt g s).nodes.size := by rw [virt_size]; exact hlt
    have hltW : n < W.nodes.size := by rw [hUW.size]; exact hltv
    have hUT : Upd n (virt g s) (touched n W) := hUW.touched
    have hbW : W.binds = (virt g s).binds := by rw [← hW]; rfl
    have hbT : (touched n W).binds = (virt g s).binds := hbW
    have eT : (touched n W).nodeD n = { W.nodeD n with changedAt := W.stabNum } := by
      rw [touched_nodeD, if_pos ⟨rfl, hltW⟩]
    have hparT : ((touched n W).nodeD n).parents = ((virt g s).nodeD n).parents := hUT.shape.parents
    have hfresh : ∀ q, q ∈ ((virt g s).nodeD n).parents.map (·.1) →
        ((virt g s).nodeD q).recomputedAt < (virt g s).stabNum := by
      intro q hq
      obtain ⟨⟨p', ci⟩, hmem, rfl⟩ := List.mem_map.1 hq
      have hci := (gr.parent n p' ci hmem).2
      exact I.fresh p' n (Below.of_edge (Edge.child (List.mem_of_getElem? hci))) (Or.inr rfl)
    rcases hvr : (maybeChangeValueManual (VE env sp) fuel n none true true).run.run W with ⟨e | r, t'⟩
    · exfalso
      refine NestH.T2b.mcvm_noerr hltW (hUT.heap hi) ?_ hf hvr
      intro q hq
      rw [hparT] at hq
      have hfr := hfresh q hq
      obtain ⟨⟨p', ci⟩, hmem, rfl⟩ := List.mem_map.1 hq
      dsimp only at hfr ⊢
      obtain ⟨hpn, hci⟩ := gr.parent n p' ci hmem
      have h1 := gr.nec_lt hpn
      obtain ⟨h2, h5⟩ := gr.nec p' hpn
      obtain ⟨h3, -, hkids⟩ := gr.node p' h1 h2
      have hcm : n ∈ (virt g s).children p' := List.mem_of_getElem? hci
      have hne : p' ≠ n := gr.edge_ne (Edge.child hcm)
      have ep : (touched n W).nodeD p' = (virt g s).nodeD p' := hUT.other p' hne
      have sh := hUT.shapeAll p'
      have hchT : (touched n W).children p' = (virt g s).children p' :=
        children_congr_kind sh.kind sh.valid hbT (fun e => h3.not_expert e)
      refine ⟨⟨by rw [hUT.size]; exact h1, by rw [sh.valid]; exact h2, by rw [sh.kind]; exact h3,
        by rw [hUT.nec]; exact hpn⟩, by rw [hchT]; exact hcm, by rw [hUT.size]; exact hltv, ?_,
        by rw [ep]; exact h5, by rw [ep, hUT.rch]; exact hmax p' hpn, ?_, ?_⟩
      · rw [ep, eT]
        show _ < W.stabNum
        rw [hUW.stabNum]; exact hfr
      · intro b hsc
        rw [ep] at hsc
        obtain ⟨br, k1, k2, -, -⟩ := gr.scope p' b h1 h2 hsc
        exact ⟨br, by rw [hbT]; exact k1, by rw [hUT.size]; exact k2⟩
      · intro b lc hkd
        rw [ep] at hkd
        obtain ⟨br, hbr, -, -, -⟩ := gr.mainRec p' b lc h1 h2 hkd
        have hlc : lc ∈ (virt g s).children p' := by
          simp only [State.children, BindH.BS.kind?_of_valid h2, hkd, hbr]
          exact List.mem_cons_self ..
        rw [hUT.size]
        exact (hkids lc hlc).1
    · rw [← hW] at hvr
      obtain ⟨s', hs', -, -, -, hp'⟩ := B.rev frX hPX hvr
      exact ⟨r, s', hs', hp'⟩

/-- the same, with the contract discharged -/
theorem step_mapRef_returns' {t s : State} {g : Nat → Option Val} {N fuel n p i : Nat}
    (D : DInvF env sp t s g (some n)) (hP : PInv s) (T : NestH.DT (VE env sp) N (virt g s)) (hroom : s.nodes.size ≤ N)
    (hk : (s.nodeD n).kind = .mapRef p i) (hf : 1 ≤ fuel) :
    ∃ r s', (recomputeOne env fuel n).run.run s = (.ok r, s') ∧ PInv s' :=
  step_mapRef_returns (mcvmQC _ env sp) D hP T hroom hk hf

/-- the step of a `map_ref` node with the FRAMES of the virtual states (`FullH.step_mapRef_rel`, keeping the `VStep` it builds) -/
theorem step_mapRef_vstep {t s s' : State} {g : Nat → Option Val} {fuel n p i : Nat} {r : Option Nat}
    (D : DInvF env sp t s g (some n)) (hk : (s.nodeD n).kind = .mapRef p i)
    (h : (recomputeOne env fuel n).run.run s = (.ok r, s')) :
    ∃ g' v ch, DInvF env sp t s' g' r ∧ MR.VStep n v ch r (virt g s) (virt g' s') := by
  obtain ⟨vi, S⟩ := mrs_of_dinvF D hk
  have hlt := S.lt
  rw [MapRefH.recomputeOne_mapRef_run (some_of_lt hlt) S.valid hk] at h
  have A0 := MR.AfterF.cleared n s hlt
  have fin : ∀ {ch : Bool},
      StepRelB n (env.proj p vi) ch r (virt g s) (virt (upd1 g n (some (env.proj p vi))) s') →
      MR.VFr (virt g s) (virt (upd1 g n (some (env.proj p vi))) s') → MR.AfterF n s s' →
      ∃ g' v ch, DInvF env sp t s' g' r ∧ MR.VStep n v ch r (virt g s) (virt g' s') := by
    intro ch R Fv A
    exact ⟨_, _, ch, MR.dinvF_after D S R Fv A, R, Fv.key, Fv.hah, Fv.num, Fv.dk⟩
  rcases Bool.eq_false_or_eq_true (s.nodeD n).didChange with hd | hd
  · rw [hd] at h
    obtain ⟨R, Fv⟩ := S.stepRel_fire h
    have q : Step.Quiet (touched n (cleared n (started n s))) s' := mcvm_true_quiet _ _ _ _ _ _ _ _ h
    have fm : FM (cleared n (started n s)) s' := (MapRefH.PresFM.maybeChangeValueManual ..).h _ _ _ h
    exact fin (ch := true) R Fv (A0.quiet q fm)
  · rw [hd, run_mcvm_false] at h
    cases h
    exact fin (ch := false) (S.stepRel_quiet D.k hd) S.vfr A0

/-- **the own step of a `map_ref` node keeps the drain invariant and the totality invariant** of the virtual state -/
theorem step_mapRef_dt {t s s' : State} {g : Nat → Option Val} {N fuel n p i : Nat} {r : Option Nat}
    (D : DInvF env sp t s g (some n)) (T : NestH.DT (VE env sp) N (virt g s)) (hk : (s.nodeD n).kind = .mapRef p i)
    (h : (recomputeOne env fuel n).run.run s = (.ok r, s')) :
    ∃ g', DInvF env sp t s' g' r ∧ BindH.FrameB (virt g s) (virt g' s') ∧ ((virt g' s').nodeD n).recomputedAt = s.stabNum ∧
      ((virt g' s').nodeD n).valid = true ∧ NestH.DT (VE env sp) N (virt g' s') := by
  obtain ⟨g', v, ch, D', V⟩ := step_mapRef_vstep D hk h
  obtain ⟨-, -, hvv, -, -⟩ := D.inv.cur_facts
  have hk' : ∀ b, ((virt g s).nodeD n).kind ≠ .bindLhsChange b := by
    intro b; rw [virt_nodeD, virtNode_kind, hk]; intro e; cases e
  exact ⟨g', D', V.rel.frame, V.rel.recomputedAt, V.rel.shape.valid.trans hvv, dt_vstep T D.inv V hk'⟩

end
end IncrVerif.Proofs.FullT
