import IncrVerif.Proofs.NestH59
import IncrVerif.Proofs.BindH99
/-!
# Nested binds (F2), part 5d1: `den2` is monotone in the fuel (and `denBody`, `denInstrs2` in the fuel, in `ev` and in `rec`)

Port of BindH99 (`den_mono`).  Reused from `BindH.C3d`: `LeEv`, `LeVals`, `LeVals.refl`, `LeVals.snoc`, `evalArgs_mono`, `allSome_mono`, `denOpnd_mono`,
`denInstr_mono`.
-/
namespace IncrVerif.Proofs.NestH
open IncrVerif.Engine IncrVerif.Proofs IncrVerif.Proofs.Step IncrVerif.Proofs.Sched
open IncrVerif.Proofs.BindH

namespace N5d
open IncrVerif.Proofs.BindH.C3d

/-- `rec'` knows at least what `rec` knows -/
def LeRec (rec rec' : Nat → Val → Option Val) : Prop := ∀ b v w, rec b v = some w → rec' b v = some w

theorem LeRec.refl (rec : Nat → Val → Option Val) : LeRec rec rec := fun _ _ _ h => h

theorem LeEv.refl (ev : Nat → Option Val) : LeEv ev ev := fun _ _ h => h

/-- an instruction that is not a `bind` is evaluated as in F1 -/
theorem denInstr2_not_bind (env : Env) (ev : Nat → Option Val) (top : Array Nat) (rec : Nat → Val → Option Val) (v : Val)
    (V : List (Option Val)) (i : Instr) (h : ∀ b o, i ≠ .bind b o) :
    denInstr2 env ev top rec v V i = denInstr env ev top v V i := by
  cases i <;> first | rfl | exact absurd rfl (h _ _)

theorem denInstr2_bind (env : Env) (ev : Nat → Option Val) (top : Array Nat) (rec : Nat → Val → Option Val) (v : Val)
    (V : List (Option Val)) (b : Nat) (o : Opnd) :
    denInstr2 env ev top rec v V (.bind b o) = (denOpnd ev top V o).bind (rec b) := rfl

theorem denInstr2_mono (env : Env) {ev ev' : Nat → Option Val} (h : LeEv ev ev') (top : Array Nat)
    {rec rec' : Nat → Val → Option Val} (hr : LeRec rec rec') (v : Val)
    {V V' : List (Option Val)} (hV : LeVals V V') (i : Instr) (w : Val)
    (e : denInstr2 env ev top rec v V i = some w) : denInstr2 env ev' top rec' v V' i = some w := by
  by_cases hb : ∃ b o, i = .bind b o
  · obtain ⟨b, o, rfl⟩ := hb
    rw [denInstr2_bind] at e ⊢
    cases h1 : denOpnd ev top V o with
    | none => rw [h1] at e; cases e
    | some x =>
      rw [h1] at e
      rw [denOpnd_mono h top hV o x h1]
      exact hr b x w e
  · have hb' : ∀ b o, i ≠ .bind b o := fun b o e => hb ⟨b, o, e⟩
    rw [denInstr2_not_bind _ _ _ _ _ _ _ hb'] at e ⊢
    exact denInstr_mono env h top v hV i w e

theorem denInstrs2_mono (env : Env) {ev ev' : Nat → Option Val} (h : LeEv ev ev') (top : Array Nat)
    {rec rec' : Nat → Val → Option Val} (hr : LeRec rec rec') (v : Val) :
    ∀ (is : List Instr) {V V' : List (Option Val)}, LeVals V V' →
      LeVals (denInstrs2 env ev top rec v is V) (denInstrs2 env ev' top rec' v is V') := by
  intro is
  induction is with
  | nil => intro V V' hV; exact hV
  | cons i is ih =>
    intro V V' hV
    simp only [denInstrs2]
    exact ih (hV.snoc (fun w hw => denInstr2_mono env h top hr v hV i w hw))

/-- `denBody` is monotone in `ev` and in the fuel -/
theorem denBody_mono (env : Env) {ev ev' : Nat → Option Val} (h : LeEv ev ev') (top : Array Nat) :
    ∀ (k k' : Nat), k ≤ k' → LeRec (denBody env ev top k) (denBody env ev' top k') := by
  intro k
  induction k with
  | zero => intro k' _ b v w e; unfold denBody at e; cases e
  | succ k ih =>
    intro k' hk b v w e
    cases k' with
    | zero => omega
    | succ k' =>
      unfold denBody at e ⊢
      exact denOpnd_mono h top (denInstrs2_mono env h top (ih k' (by omega)) v _ (LeVals.refl [])) _ w e

theorem den2_mono_aux (env : Env) (s : State) :
    ∀ (k k' : Nat), k ≤ k' → ∀ n w, den2 env s k n = some w → den2 env s k' n = some w := by
  intro k
  induction k with
  | zero => intro k' _ n w e; unfold den2 at e; cases e
  | succ k ih =>
    intro k' hk n w e
    cases k' with
    | zero => omega
    | succ k' =>
      have hle : LeEv (den2 env s k) (den2 env s k') := fun a w ha => ih k' (by omega) a w ha
      unfold den2 at e ⊢
      cases hkd : (s.nodeD n).kind with
      | const c => rw [hkd] at e; exact e
      | var c => rw [hkd] at e; exact e
      | map f args =>
        rw [hkd] at e
        simp only at e ⊢
        cases h1 : evalArgs (fun a => den2 env s k a) args with
        | none => rw [h1] at e; cases e
        | some ws =>
          rw [h1] at e
          rw [evalArgs_mono hle args ws h1]
          exact e
      | fold f init cs =>
        rw [hkd] at e
        simp only at e ⊢
        cases h1 : evalArgs (fun a => den2 env s k a) cs with
        | none => rw [h1] at e; cases e
        | some ws =>
          rw [h1] at e
          rw [evalArgs_mono hle cs ws h1]
          exact e
      | bindLhsChange b => rw [hkd] at e; exact e
      | bindMain b lc =>
        rw [hkd] at e
        simp only at e ⊢
        cases hb : s.binds[b]? with
        | none => rw [hb] at e; cases e
        | some br =>
          rw [hb] at e
          simp only at e ⊢
          cases h1 : den2 env s k br.lhs with
          | none => rw [h1] at e; cases e
          | some v =>
            rw [h1] at e
            simp only at e
            rw [hle _ _ h1]
            exact denBody_mono env hle s.top k k' (by omega) br.body v w e
      | mapRef _ _ => rw [hkd] at e; cases e
      | mapWithOld _ _ => rw [hkd] at e; cases e
      | expert _ => rw [hkd] at e; cases e

end N5d

/-- more fuel does not change a result -/
theorem den2_mono {env : Env} {s : State} {k n : Nat} {w : Val} (h : den2 env s k n = some w) (k' : Nat)
    (hk : k ≤ k') : den2 env s k' n = some w :=
  N5d.den2_mono_aux env s k k' hk n w h

/-- more fuel and a better evaluator of the top-level nodes do not change the result of a closure -/
theorem denBody_mono2 {env : Env} {ev ev' : Nat → Option Val} (h : ∀ a w, ev a = some w → ev' a = some w) {top : Array Nat}
    {k body : Nat} {v w : Val} (e : denBody env ev top k body v = some w) (k' : Nat) (hk : k ≤ k') :
    denBody env ev' top k' body v = some w :=
  N5d.denBody_mono env h top k k' hk body v w e

end IncrVerif.Proofs.NestH
