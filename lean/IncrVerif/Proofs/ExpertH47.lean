import IncrVerif.Proofs.ExpertH46
import IncrVerif.Proofs.ExpertH35
/-!
# Expert nodes, `add_dependency` on a NECESSARY node: the run, phase by phase
-/
namespace IncrVerif.Proofs.ExpertH
open IncrVerif.Engine IncrVerif.Driver IncrVerif.Proofs IncrVerif.Proofs.Step IncrVerif.Proofs.Sched
open IncrVerif.Proofs.ExpertH.QR IncrVerif.Proofs.Xp

theorem inserted_inRch {n : Nat} {h : Int} {s : State} (hn : n < s.nodes.size) (h0 : 0 ≤ h) :
    ((inserted n h s).nodeD n).inRch = true := by
  rw [inserted_nodeD, if_pos ⟨rfl, hn⟩]
  simp only [Node.inRch]
  exact decide_eq_true h0

/-- the end of the call: after `propagate_invalidity` (nothing to do) the node is inserted into the recompute heap
exactly once, unless it is there already -/
theorem finish_phase {fuel n c dep0 dep : Nat} {s4 s5 s' : State}
    (hjp : (do propagateInvalidity fuel
               dassert ((← get).isNecessary n) "node:state_add_parent:parent-necessary"
               let p ← getNode n
               let c ← getNode c
               if !p.inRch && (p.recomputedAt == -1 || c.changedAt > p.recomputedAt) then
                 rchInsert n : M Unit).run.run s4 = (.ok (), s5))
    (htail : (do dassert ((← get).needsToBeComputed n) "node:expert_add_dependency:needs-to-be-computed"
                 if !(← getNode n).inRch then rchInsert n
                 pure dep0 : M Nat).run.run s5 = (.ok dep, s'))
    (hp : s4.propagateInvalidity = []) :
    dep = dep0 ∧ (((s4.nodeD n).inRch = true ∧ s' = s4) ∨
      ((s4.nodeD n).inRch = false ∧ (rchInsert n).run.run s4 = (.ok (), s'))) := by
  obtain ⟨_, s4', hpi, hjp⟩ := bind_ok_inv hjp
  have e4 : s4' = s4 := by
    cases fuel with
    | zero => unfold propagateInvalidity at hpi; cases hpi
    | succ f => rw [propagateInvalidity_nil f hp] at hpi; cases hpi; rfl
  rw [e4] at hjp
  clear hpi e4 s4'
  rw [run_bind_get] at hjp
  replace hjp := bind_dassert_inv hjp
  obtain ⟨p, hpn, hjp⟩ := bind_getNode_inv hjp
  obtain ⟨cn, hcn, hjp⟩ := bind_getNode_inv hjp
  have hD : s4.nodeD n = p := nodeD_of_some hpn
  rw [run_bind_get] at htail
  replace htail := bind_dassert_inv htail
  obtain ⟨p2, hp2, htail⟩ := bind_getNode_inv htail
  have hD2 : s5.nodeD n = p2 := nodeD_of_some hp2
  dsimp only at htail
  by_cases hq : p.inRch = true
  · -- already queued: both tests fail
    have e5 : s5 = s4 := by
      simp only [hq, Bool.not_true, Bool.false_and, Bool.false_eq_true, if_false] at hjp
      exact ((pure_ok_inv hjp).2)
    subst e5
    rw [hpn] at hp2; cases hp2
    simp only [hq, Bool.not_true, Bool.false_eq_true, if_false] at htail
    obtain ⟨rfl, rfl⟩ := pure_ok_inv htail
    exact ⟨rfl, Or.inl ⟨by rw [hD]; exact hq, rfl⟩⟩
  · have hq' : p.inRch = false := by cases h : p.inRch <;> simp_all
    refine ⟨?_, Or.inr ⟨by rw [hD]; exact hq', ?_⟩⟩
    · split at htail
      · obtain ⟨_, s6, _, htail⟩ := bind_ok_inv htail
        exact (pure_ok_inv htail).1
      · exact (pure_ok_inv htail).1
    · split at hjp
      · -- inserted by `state_add_parent`
        obtain ⟨nd, hnd, h0, -, e⟩ := rchInsert_ok_inv hjp
        have hlt : n < s4.nodes.size := lt_of_some hnd
        have : p2.inRch = true := by rw [← hD2, e]; exact inserted_inRch hlt h0
        simp only [this, Bool.not_true, Bool.false_eq_true, if_false] at htail
        obtain ⟨-, rfl⟩ := pure_ok_inv htail
        exact hjp
      · -- inserted by `expert_add_dependency`
        obtain ⟨-, rfl⟩ := pure_ok_inv hjp
        rw [hpn] at hp2; cases hp2
        simp only [hq', Bool.not_false, if_true] at htail
        obtain ⟨_, s6, h6, htail⟩ := bind_ok_inv htail
        obtain ⟨-, rfl⟩ := pure_ok_inv htail
        exact h6

end IncrVerif.Proofs.ExpertH
