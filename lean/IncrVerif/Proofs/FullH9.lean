import IncrVerif.Proofs.FullH8
/-!
# C01 full fragment: simulation of the notification walk, part 1 (port of MapRef7 / MapOld7)
(`tick`, `bumpCounter`, `shouldCutoff`, `childChanged`, `parentIterCanRecomputeNow`)
-/
namespace IncrVerif.Proofs.FullH
open IncrVerif.Engine IncrVerif.Proofs IncrVerif.Proofs.Step IncrVerif.Proofs.Sched IncrVerif.Proofs.Quiet

section
variable {K : Kind → Prop} {g : Nat → Option Val} {sp : Nat → Val → Val}

theorem Sim.tick : Sim K g Engine.tick Engine.tick := by
  intro s; unfold Engine.tick; fsim
  split <;> fsim
macro_rules | `(tactic| fsim_leaf) => `(tactic| with_reducible exact Sim.tick)

theorem Sim.bumpCounter (f : Counters → Counters) : Sim K g (Engine.bumpCounter f) (Engine.bumpCounter f) := by
  intro s; unfold Engine.bumpCounter; fsim
macro_rules | `(tactic| fsim_leaf) => `(tactic| with_reducible exact Sim.bumpCounter _)

/-- the cutoff test of an EXACT node (its actual cutoff is the virtual one) -/
theorem SimAt.shouldCutoff (env : Env) (n : Nat) (o v : Val) {s : State}
    (hc : (s.nodeD n).cutoff = virtCut (s.nodeD n).kind (s.nodeD n).cutoff) :
    SimAt K g s (Engine.shouldCutoff env n o v) (Engine.shouldCutoff (virtEnv env sp) n o v) := by
  unfold Engine.shouldCutoff; simp only [virtEnv_cutoff]
  refine SimAt.getNode_seq fun nd hnd hne => ?_
  fnorm
  rw [nodeD_of_some hnd] at hc
  rw [← hc]
  split <;> fsim

/-! ## `child_changed` is invisible in the virtual state -/

theorem kind?_none_of_invalid {nd : Node} (h : nd.valid = false) : nd.kind? = none := by simp [Node.kind?, h]

theorem valid_of_kind? {nd : Node} {k : Kind} (h : nd.kind? = some k) : nd.valid = true := by
  unfold Node.kind? at h; split at h
  · assumption
  · cases h

theorem childChanged_veq {env : Env} {fuel p c ci : Nat} {o : Option Val} {t t' : State} {u : Unit}
    (hfr : Fr K g t) (h : (Engine.childChanged env fuel p c ci o).run.run t = (.ok u, t')) : VEq g t t' := by
  induction fuel generalizing p c ci o t t' u with
  | zero => unfold Engine.childChanged at h; cases h
  | succ fuel ih =>
    unfold Engine.childChanged at h
    obtain ⟨nd, hnd, h⟩ := bind_getNode_inv h
    have hne := hfr.some hnd
    rcases hk? : nd.kind? with _ | k
    · rw [hk?] at h; cases h
    rw [hk?] at h
    have hkd := kind_of_kind? hk?
    cases k
    case expert e => exact absurd hkd (hne e)
    case mapRef pr i =>
      dsimp only at h
      obtain ⟨cn, t1, h1, h2⟩ := bind_ok_inv h
      clear h
      have e1 : t1 = t := by
        rw [run_valueUnwrap] at h1; split at h1 <;> cases h1; rfl
      subst e1
      have hcut : nd.cutoff = .eq ∨ nd.cutoff = .never := by
        have := hfr.cut p; rw [nodeD_of_some hnd, hkd] at this
        rcases this with h | h | ⟨a, b, -, h⟩
        · exact Or.inl h
        · exact Or.inr h
        · cases h
      have key : ∃ did, ((do
          modNode p fun x => { x with didChange := x.didChange || did }
          for (pp, ci) in (← getNode p).parents do
            childChanged env fuel pp p ci (o.map (env.proj pr))) : M Unit).run.run t1 = (.ok u, t') := by
        cases o with
        | none => exact ⟨true, h2⟩
        | some ov =>
          simp only [Option.map_some] at h2
          unfold Engine.shouldCutoff at h2
          simp only [bind_assoc] at h2
          rcases hcut with hcut | hcut
          · rw [run_bind_ok (run_getNode_some hnd), hcut] at h2
            exact ⟨_, h2⟩
          · rw [run_bind_ok (run_getNode_some hnd), hcut] at h2
            exact ⟨_, h2⟩
      obtain ⟨did, h3⟩ := key
      rw [run_bind_modNode] at h3
      obtain ⟨nd', hnd', h4⟩ := bind_getNode_inv h3
      obtain ⟨_, t3, h, h5⟩ := bind_ok_inv h4
      obtain ⟨-, rfl⟩ := pure_ok_inv h5
      have v1 : VEq g t1 { t1 with nodes := t1.nodes.modify p fun x => { x with didChange := x.didChange || did } } :=
        VEq.modNode t1 p _ (by fflag)
      refine Sched.forIn_ok_keep (fun s => VEq g t1 s) _ nd'.parents ?_ _ _ _ v1 h
      intro a _ s r s' k hb
      obtain ⟨pp, ci'⟩ := a
      obtain ⟨_, s1, hcc, hb1⟩ := bind_ok_inv hb
      obtain ⟨-, rfl⟩ := pure_ok_inv hb1
      exact Step.PreOrd.trans k (ih (k.fr hfr) hcc)
    all_goals (obtain ⟨-, rfl⟩ := pure_ok_inv h; exact Step.PreOrd.refl _)

theorem virt_childChanged_run {env' : Env} {fuel p c ci : Nat} {o' : Option Val} {t : State} {nd : Node}
    (hp : t.nodes[p]? = some nd) (hv : nd.valid = true) (hne : ∀ e, nd.kind ≠ .expert e) :
    (Engine.childChanged env' (fuel + 1) p c ci o').run.run (virt g t) = (.ok (), virt g t) := by
  unfold Engine.childChanged
  have hvn : (virt g t).nodes[p]? = some (virtNode (g p) nd) := by rw [virt_getElem?, hp]; rfl
  rw [run_bind_ok (run_getNode_some hvn), virtNode_kind?]
  have hk? : nd.kind? = some nd.kind := by simp [Node.kind?, hv]
  rw [hk?]
  cases hkd : nd.kind <;> first | rfl | exact absurd hkd (hne _)

/-- a successful `child_changed` found a valid parent -/
theorem childChanged_ok_parent {env : Env} {fuel p c ci : Nat} {o : Option Val} {t t' : State} {u : Unit}
    (h : (Engine.childChanged env (fuel + 1) p c ci o).run.run t = (.ok u, t')) :
    ∃ nd, t.nodes[p]? = some nd ∧ nd.valid = true := by
  unfold Engine.childChanged at h
  obtain ⟨nd, hnd, h⟩ := bind_getNode_inv h
  refine ⟨nd, hnd, ?_⟩
  rcases hk? : nd.kind? with _ | k
  · rw [hk?] at h; cases h
  · exact valid_of_kind? hk?

/-- `child_changed` with unrelated fuels and old values: the virtual call only needs one unit of fuel -/
theorem Sim.childChanged' (env : Env) (fuel fuel' p c ci : Nat) (o o' : Option Val) (hf : 0 < fuel' ∨ fuel = 0) :
    Sim K g (Engine.childChanged env fuel p c ci o) (Engine.childChanged (virtEnv env sp) fuel' p c ci o') := by
  intro s hfr r s' h
  cases fuel with
  | zero => unfold Engine.childChanged at h; cases h
  | succ fuel =>
    obtain ⟨f', rfl⟩ : ∃ f', fuel' = f' + 1 := ⟨fuel' - 1, by omega⟩
    have hv := childChanged_veq (g := g) hfr h
    obtain ⟨nd, hnd, hval⟩ := childChanged_ok_parent h
    rw [virt_childChanged_run hnd hval (hfr.some hnd), hv.veq]
    exact ⟨rfl, hv.fr hfr, hv.vm⟩

theorem Sim.childChanged (env : Env) (fuel p c ci : Nat) (o o' : Option Val) :
    Sim K g (Engine.childChanged env fuel p c ci o) (Engine.childChanged (virtEnv env sp) fuel p c ci o') := by
  refine Sim.childChanged' env fuel fuel p c ci o o' ?_
  cases fuel with
  | zero => exact Or.inr rfl
  | succ f => exact Or.inl (Nat.succ_pos _)
macro_rules | `(tactic| fsim_leaf) => `(tactic| with_reducible exact Sim.childChanged _ _ _ _ _ _ _)

/-! ## `parent_iter_can_recompute_now` -/

theorem Sim.parentIterCanRecomputeNow (p child : Nat) :
    Sim K g (Engine.parentIterCanRecomputeNow p child) (Engine.parentIterCanRecomputeNow p child) := by
  intro s; unfold Engine.parentIterCanRecomputeNow; fsim
  fsim_kind
  all_goals try rw [if_neg (by simp)]
  all_goals fsim
  all_goals exact SimAt.ret _
macro_rules | `(tactic| fsim_leaf) => `(tactic| with_reducible exact Sim.parentIterCanRecomputeNow _ _)

end
end IncrVerif.Proofs.FullH
