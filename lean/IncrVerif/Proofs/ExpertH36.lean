import IncrVerif.Proofs.ExpertH10
/-!
# `adjustHeights` for `QR.GInv` (port of BindH27), part 1: definitions (`AhhEmpty`, `HRel`, `AhhWF`), the adjust-heights heap as a bucket
structure against the marker `heightInAhh`, and the run-form inversions of the heap primitives
-/
namespace IncrVerif.Proofs.ExpertH.QR
open IncrVerif.Engine IncrVerif.Proofs IncrVerif.Proofs.Step IncrVerif.Proofs.Sched

/-- the adjust-heights heap is empty and no node is marked as a member -/
structure AhhEmpty (s : State) : Prop where
  length : s.ahh.length = 0
  buckets : ∀ i (hi : i < s.ahh.queues.size), s.ahh.queues[i] = []
  marks : ∀ m, (s.nodeD m).heightInAhh = -1

/-- what `adjustHeights` may change: heights (only upwards), the recompute-heap position of queued nodes,
`maxHeightSeen`, the adjust-heights heap -/
structure HRel (s s' : State) : Prop where
  size : s'.nodes.size = s.nodes.size
  node : ∀ m, nodeKey (s'.nodeD m) = nodeKey (s.nodeD m)
  parents : ∀ m, (s'.nodeD m).parents = (s.nodeD m).parents
  inRch : ∀ m, (s'.nodeD m).inRch = (s.nodeD m).inRch
  height : ∀ m, (s.nodeD m).height ≤ (s'.nodeD m).height
  vars : s'.vars = s.vars
  binds : s'.binds = s.binds
  experts : s'.experts = s.experts
  observers : s'.observers = s.observers
  stabNum : s'.stabNum = s.stabNum
  status : s'.status = s.status
  cfg : s'.cfg = s.cfg
  scope : s'.currentScope = s.currentScope
  pinv : s'.propagateInvalidity = s.propagateInvalidity
  pc : s'.panicCountdown = s.panicCountdown
  qsize : s'.rch.queues.size = s.rch.queues.size
  top : s'.top = s.top
  misc : s'.setDuringStab = s.setDuringStab ∧ s'.deadVars = s.deadVars ∧ s'.newObservers = s.newObservers ∧
    s'.disallowedObservers = s.disallowedObservers ∧ s'.allObservers = s.allObservers ∧
    s'.handleAfterStab = s.handleAfterStab ∧ s'.alive = s.alive

/-! ## `HRel` -/

/-- the state fields `HRel` wants unchanged -/
def BA.hKey (s : State) :=
  (s.vars, s.binds, s.experts, s.observers, s.stabNum, s.status, s.cfg, s.currentScope, s.propagateInvalidity,
    s.panicCountdown, s.rch.queues.size, s.top, s.setDuringStab, s.deadVars, s.newObservers,
    s.disallowedObservers, s.allObservers, s.handleAfterStab, s.alive)

theorem HRel.of_key {s s' : State} (hsz : s'.nodes.size = s.nodes.size)
    (hnode : ∀ m, nodeKey (s'.nodeD m) = nodeKey (s.nodeD m) ∧ (s'.nodeD m).parents = (s.nodeD m).parents ∧
      (s'.nodeD m).inRch = (s.nodeD m).inRch ∧ (s.nodeD m).height ≤ (s'.nodeD m).height)
    (hk : BA.hKey s' = BA.hKey s) : HRel s s' := by
  simp only [BA.hKey, Prod.mk.injEq] at hk
  obtain ⟨h1, h2, h3, h4, h5, h6, h7, h8, h9, h10, h11, h12, h13, h14, h15, h16, h17, h18, h19⟩ := hk
  exact ⟨hsz, fun m => (hnode m).1, fun m => (hnode m).2.1, fun m => (hnode m).2.2.1, fun m => (hnode m).2.2.2,
    h1, h2, h3, h4, h5, h6, h7, h8, h9, h10, h11, h12, h13, h14, h15, h16, h17, h18, h19⟩

theorem HRel.key {s s' : State} (h : HRel s s') : BA.hKey s' = BA.hKey s := by
  obtain ⟨m1, m2, m3, m4, m5, m6, m7⟩ := h.misc
  simp only [BA.hKey, h.vars, h.binds, h.experts, h.observers, h.stabNum, h.status, h.cfg, h.scope, h.pinv, h.pc,
    h.qsize, h.top, m1, m2, m3, m4, m5, m6, m7]

theorem HRel.refl (s : State) : HRel s s :=
  HRel.of_key rfl (fun _ => ⟨rfl, rfl, rfl, Int.le_refl _⟩) rfl

theorem HRel.trans {a b c : State} (h1 : HRel a b) (h2 : HRel b c) : HRel a c :=
  HRel.of_key (h2.size.trans h1.size)
    (fun m => ⟨(h2.node m).trans (h1.node m), (h2.parents m).trans (h1.parents m),
      (h2.inRch m).trans (h1.inRch m), Int.le_trans (h1.height m) (h2.height m)⟩)
    (h2.key.trans h1.key)

theorem BA.nodeD_of_modify {s s' : State} {n : Nat} {f : Node → Node} (hn : s'.nodes = s.nodes.modify n f)
    (m : Nat) : s'.nodeD m = if n = m ∧ m < s.nodes.size then f (s.nodeD m) else s.nodeD m := by
  have := nodeD_modify s n m f
  simp only [State.nodeD] at this ⊢
  rw [hn]; exact this

/-- one node is updated by a function that touches only `height`, `heightInRch`, `heightInAhh` -/
theorem HRel.upd {s s' : State} {n : Nat} {f : Node → Node} (hn : s'.nodes = s.nodes.modify n f)
    (hk : BA.hKey s' = BA.hKey s) (hf : ∀ x, nodeKey (f x) = nodeKey x ∧ (f x).parents = x.parents)
    (hin : (f (s.nodeD n)).inRch = (s.nodeD n).inRch) (hh : (s.nodeD n).height ≤ (f (s.nodeD n)).height) :
    HRel s s' := by
  refine HRel.of_key (by rw [hn]; simp) (fun m => ?_) hk
  rw [BA.nodeD_of_modify hn]
  split
  · rename_i e
    rw [← e.1]
    exact ⟨(hf _).1, (hf _).2, hin, hh⟩
  · exact ⟨rfl, rfl, rfl, Int.le_refl _⟩

theorem HRel.same_nodes {s s' : State} (hn : s'.nodes = s.nodes) (hk : BA.hKey s' = BA.hKey s) : HRel s s' := by
  have e : ∀ m, s'.nodeD m = s.nodeD m := fun m => by simp [State.nodeD, hn]
  exact HRel.of_key (by rw [hn]) (fun m => by rw [e]; exact ⟨rfl, rfl, rfl, Int.le_refl _⟩) hk

section proj
variable {s s' : State} (h : HRel s s') (m : Nat)
include h
theorem HRel.kind : (s'.nodeD m).kind = (s.nodeD m).kind := by
  have := h.node m; simp only [nodeKey, Prod.mk.injEq] at this; exact this.1
theorem HRel.createdIn : (s'.nodeD m).createdIn = (s.nodeD m).createdIn := by
  have := h.node m; simp only [nodeKey, Prod.mk.injEq] at this; exact this.2.1
theorem HRel.cutoff : (s'.nodeD m).cutoff = (s.nodeD m).cutoff := by
  have := h.node m; simp only [nodeKey, Prod.mk.injEq] at this; exact this.2.2.1
theorem HRel.valid : (s'.nodeD m).valid = (s.nodeD m).valid := by
  have := h.node m; simp only [nodeKey, Prod.mk.injEq] at this; exact this.2.2.2.2.1
theorem HRel.recomputedAt : (s'.nodeD m).recomputedAt = (s.nodeD m).recomputedAt := by
  have := h.node m; simp only [nodeKey, Prod.mk.injEq] at this; exact this.2.2.2.2.2.1
theorem HRel.changedAt : (s'.nodeD m).changedAt = (s.nodeD m).changedAt := by
  have := h.node m; simp only [nodeKey, Prod.mk.injEq] at this; exact this.2.2.2.2.2.2.1
theorem HRel.nobservers : (s'.nodeD m).observers = (s.nodeD m).observers := by
  have := h.node m; simp only [nodeKey, Prod.mk.injEq] at this; exact this.2.2.2.2.2.2.2.1
theorem HRel.forceNecessary : (s'.nodeD m).forceNecessary = (s.nodeD m).forceNecessary := by
  have := h.node m; simp only [nodeKey, Prod.mk.injEq] at this; exact this.2.2.2.2.2.2.2.2.1
theorem HRel.nec : s'.isNecessary m = s.isNecessary m := by
  simp only [State.isNecessary, Node.isNecessary, h.parents m, h.nobservers m, h.forceNecessary m]
end proj

theorem HRel.staleOf {s s' : State} (h : HRel s s') (m : Nat) : staleOf s' m = staleOf s m :=
  staleOf_congr (h.kind m) (h.recomputedAt m) h.vars (fun c _ => h.changedAt c)

theorem HRel.static {env : Env} {rk : Nat → Nat} {s s' : State} (h : HRel s s') (A : AllStatic env rk s) :
    AllStatic env rk s' := by
  refine ⟨by rw [h.pc]; exact A.pc, by rw [h.scope]; exact A.scope, fun n hn => ?_, A.inj,
    by rw [h.size]; exact A.top⟩
  have sn := A.node n (by rw [← h.size]; exact hn)
  exact ⟨by rw [h.valid]; exact sn.valid, by rw [h.kind]; exact sn.kind, by rw [h.cutoff]; exact sn.cutoff,
    by rw [h.createdIn]; exact sn.top, by rw [h.forceNecessary]; exact sn.force,
    by rw [h.kind]; exact sn.kidsLt, by rw [h.kind, h.size]; exact sn.kidsIn⟩

namespace BA

/-! ## the adjust-heights heap against its marker -/

/-- the marker of the adjust-heights heap -/
def ahhMk (s : State) (m : Nat) : Int := (s.nodeD m).heightInAhh

/-- well-formedness of the adjust-heights heap: buckets ↔ markers, `length`, and the lower bound -/
structure AhhWF (s : State) : Prop where
  b : BucketsOK s.ahh.queues (ahhMk s)
  len : s.ahh.length = bucketSum s.ahh.queues
  lb : ∀ m, ahhMk s m ≠ -1 → s.ahh.lowerBound ≤ ahhMk s m

theorem sum_len_zero_iff (l : List (List Nat)) : (l.map List.length).sum = 0 ↔ ∀ x, x ∈ l → x = [] := by
  induction l with
  | nil => simp
  | cons a l ih =>
    simp only [List.map_cons, List.sum_cons, List.mem_cons, forall_eq_or_imp]
    rw [← ih, ← List.length_eq_zero_iff]
    omega

theorem bucketSum_zero_iff (q : Array (List Nat)) :
    bucketSum q = 0 ↔ ∀ j (h : j < q.size), q[j] = [] := by
  unfold bucketSum
  rw [sum_len_zero_iff]
  constructor
  · intro h j hj
    exact h _ (by simp)
  · intro h x hx
    rw [Array.mem_toList_iff, Array.mem_iff_getElem] at hx
    obtain ⟨j, hj, e⟩ := hx
    rw [← e]; exact h j hj

theorem AhhEmpty.wf {s : State} (h : AhhEmpty s) : AhhWF s := by
  refine ⟨⟨fun j hj n => ?_, fun j hj => ?_, fun n => Or.inl (h.marks n)⟩, ?_, fun m hm => ?_⟩
  · rw [h.buckets j hj]
    simp only [ahhMk, h.marks n]
    constructor
    · intro x; cases x
    · intro x; omega
  · rw [h.buckets j hj]; exact List.nodup_nil
  · rw [h.length, (bucketSum_zero_iff _).2 h.buckets]
  · exact absurd (h.marks m) hm

/-- the bucket `ahhRemoveMin` looks at -/
def ahhFirst (s : State) : Nat :=
  firstNonEmpty s.ahh.queues (s.ahh.queues.size + 1) s.ahh.lowerBound.toNat

/-- a member sits in a non-empty bucket at or above the first non-empty one -/
theorem AhhWF.first_le {s : State} (w : AhhWF s) {m : Nat} (hm : ahhMk s m ≠ -1) :
    (ahhFirst s : Int) ≤ ahhMk s m ∧ ∃ x xs, s.ahh.queues[ahhFirst s]? = some (x :: xs) := by
  have hr := w.b.range m
  have hlb := w.lb m hm
  have h0 : 0 ≤ ahhMk s m := by omega
  have hlt : (ahhMk s m).toNat < s.ahh.queues.size := by omega
  have hmem : m ∈ s.ahh.queues[(ahhMk s m).toNat] := (w.b.mem _ hlt m).2 (by omega)
  have := firstNonEmpty_spec s.ahh.queues (s.ahh.queues.size + 1) s.ahh.lowerBound.toNat (ahhMk s m).toNat
    (by omega) hlt (List.ne_nil_of_mem hmem) (by omega)
  refine ⟨?_, this.2⟩
  have := this.1
  unfold ahhFirst
  omega

theorem AhhWF.none_empty {s : State} (w : AhhWF s)
    (h : s.ahh.length = 0 ∨ s.ahh.queues[ahhFirst s]? = none ∨ s.ahh.queues[ahhFirst s]? = some []) :
    AhhEmpty s := by
  have hnm : ∀ m, ahhMk s m = -1 := by
    intro m
    apply Decidable.byContradiction
    intro hm
    have hr := w.b.range m
    obtain ⟨-, x, xs, hq⟩ := w.first_le hm
    rcases h with h | h | h
    · rw [w.len, bucketSum_zero_iff] at h
      have hlt : (ahhMk s m).toNat < s.ahh.queues.size := by omega
      have hmem : m ∈ s.ahh.queues[(ahhMk s m).toNat] := (w.b.mem _ hlt m).2 (by omega)
      rw [h _ hlt] at hmem; cases hmem
    · rw [h] at hq; cases hq
    · rw [h] at hq; cases hq
  have hb : ∀ i (hi : i < s.ahh.queues.size), s.ahh.queues[i] = [] := by
    intro i hi
    apply List.eq_nil_iff_forall_not_mem.2
    intro n hn
    have := (w.b.mem i hi n).1 hn
    rw [hnm n] at this
    omega
  exact ⟨by rw [w.len]; exact (bucketSum_zero_iff _).2 hb, hb, hnm⟩

theorem default_heightInAhh : (default : Node).heightInAhh = -1 := rfl

theorem ahhMk_modify {s s' : State} {n : Nat} {v : Int}
    (hn : s'.nodes = s.nodes.modify n fun x => { x with heightInAhh := v })
    (hv : n < s.nodes.size ∨ v = -1) : ahhMk s' = setMk n v (ahhMk s) := by
  funext m
  simp only [ahhMk, setMk]
  rw [nodeD_of_modify hn]
  by_cases e : m = n
  · subst e
    by_cases hlt : m < s.nodes.size
    · rw [if_pos ⟨rfl, hlt⟩, if_pos rfl]
    · rw [if_neg (fun h => hlt h.2), if_pos rfl, nodeD_default s m (by omega)]
      rcases hv with hv | hv
      · exact absurd hv hlt
      · rw [hv]; rfl
  · rw [if_neg (fun h => e h.1.symm), if_neg e]

theorem ahhMk_frame {s s' : State} {n : Nat} {f : Node → Node} (hn : s'.nodes = s.nodes.modify n f)
    (hf : ∀ x, (f x).heightInAhh = x.heightInAhh) : ahhMk s' = ahhMk s := by
  funext m
  simp only [ahhMk]
  rw [nodeD_of_modify hn]
  split
  · exact hf _
  · rfl

theorem AhhWF.congr {s s' : State} (w : AhhWF s) (ha : s'.ahh = s.ahh) (hm : ahhMk s' = ahhMk s) : AhhWF s' := by
  refine ⟨?_, ?_, ?_⟩
  · rw [ha, hm]; exact w.b
  · rw [ha]; exact w.len
  · rw [ha, hm]; exact w.lb

/-- the state after a successful pop of `n` from bucket `lb` -/
def ahhPopped (lb n : Nat) (rest : List Nat) (s : State) : State :=
  { s with
    ahh := { s.ahh with queues := s.ahh.queues.set! lb rest, lowerBound := lb, length := s.ahh.length - 1 }
    nodes := s.nodes.modify n fun x => { x with heightInAhh := -1 } }

theorem AhhWF.popped {s : State} (w : AhhWF s) {n : Nat} {rest : List Nat}
    (hq : s.ahh.queues[ahhFirst s]? = some (n :: rest)) :
    AhhWF (ahhPopped (ahhFirst s) n rest s) ∧ ahhMk s n = (ahhFirst s : Int) := by
  have hlt : ahhFirst s < s.ahh.queues.size := (Array.getElem?_eq_some_iff.1 hq).1
  have hqe : s.ahh.queues[ahhFirst s] = n :: rest := (Array.getElem?_eq_some_iff.1 hq).2
  obtain ⟨hb, hs, hn⟩ := w.b.pop (ahhFirst s) hlt hqe
  have hmk : ahhMk (ahhPopped (ahhFirst s) n rest s) = setMk n (-1) (ahhMk s) :=
    ahhMk_modify (s := s) rfl (Or.inr rfl)
  refine ⟨⟨?_, ?_, ?_⟩, hn⟩
  · rw [hmk]
    show BucketsOK (s.ahh.queues.set! (ahhFirst s) rest) _
    rw [Array.set!_eq_setIfInBounds]; exact hb
  · show s.ahh.length - 1 = bucketSum (s.ahh.queues.set! (ahhFirst s) rest)
    rw [Array.set!_eq_setIfInBounds, w.len]; omega
  · intro m hm
    rw [hmk] at hm ⊢
    show (ahhFirst s : Int) ≤ _
    simp only [setMk] at hm ⊢
    by_cases e : m = n
    · rw [if_pos e] at hm; exact absurd rfl hm
    · rw [if_neg e] at hm ⊢
      exact (w.first_le hm).1

theorem AhhWF.added {s : State} (w : AhhWF s) {p : Nat} {x : Int} (hp : p < s.nodes.size)
    (hm : ahhMk s p = -1) (h0 : 0 ≤ x) (hx : x.toNat < s.ahh.queues.size) (hlb : s.ahh.lowerBound ≤ x) :
    AhhWF (ahhAdded p x s) := by
  have hb0 : BucketsOK s.ahh.queues (setMk p (-1) (ahhMk s)) := by
    rw [setMk_self p _ _ hm]; exact w.b
  obtain ⟨hb', hs'⟩ := BucketsOK.link hb0 x.toNat hx
  have e : ((x.toNat : Nat) : Int) = x := by omega
  rw [e] at hb'
  have hmk : ahhMk (ahhAdded p x s) = setMk p x (ahhMk s) := ahhMk_modify (s := s) rfl (Or.inl hp)
  refine ⟨?_, ?_, ?_⟩
  · rw [hmk]; exact hb'
  · show s.ahh.length + 1 = bucketSum (s.ahh.queues.modify x.toNat (· ++ [p]))
    rw [hs', w.len]
  · intro m hmm
    rw [hmk] at hmm ⊢
    show s.ahh.lowerBound ≤ _
    simp only [setMk] at hmm ⊢
    by_cases e : m = p
    · rw [if_pos e]; exact hlb
    · rw [if_neg e] at hmm ⊢; exact w.lb m hmm

/-! ## inversions -/

theorem ahhRemoveMin_ok_inv {s s' : State} {r : Option Nat} (h : ahhRemoveMin.run.run s = (.ok r, s')) :
    (r = none ∧ s' = s ∧
      (s.ahh.length = 0 ∨ s.ahh.queues[ahhFirst s]? = none ∨ s.ahh.queues[ahhFirst s]? = some [])) ∨
    (∃ n rest, r = some n ∧ s.ahh.queues[ahhFirst s]? = some (n :: rest) ∧
      s' = ahhPopped (ahhFirst s) n rest s) := by
  unfold ahhRemoveMin at h
  rw [run_bind_get] at h
  dsimp only at h
  by_cases hl : s.ahh.length = 0
  · simp only [hl, beq_self_eq_true, if_true] at h
    obtain ⟨e1, e2⟩ := pure_ok_inv h
    exact Or.inl ⟨e1, e2, Or.inl hl⟩
  · have hl' : (s.ahh.length == 0) = false := by simpa using hl
    simp only [hl', Bool.false_eq_true, if_false] at h
    change (match s.ahh.queues[ahhFirst s]? with
      | none => pure none
      | some [] => pure none
      | some (n :: rest) => _ : M (Option Nat)).run.run s = _ at h
    cases hq : s.ahh.queues[ahhFirst s]? with
    | none =>
      rw [hq] at h
      obtain ⟨e1, e2⟩ := pure_ok_inv h
      exact Or.inl ⟨e1, e2, Or.inr (Or.inl rfl)⟩
    | some l =>
      cases l with
      | nil =>
        rw [hq] at h
        obtain ⟨e1, e2⟩ := pure_ok_inv h
        exact Or.inl ⟨e1, e2, Or.inr (Or.inr rfl)⟩
      | cons n rest =>
        rw [hq] at h
        dsimp only at h
        rw [run_bind_modify, run_bind_modNode, run_pure] at h
        cases h
        exact Or.inr ⟨n, rest, rfl, rfl, rfl⟩

end BA
end IncrVerif.Proofs.ExpertH.QR
