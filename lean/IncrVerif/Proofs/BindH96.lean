import IncrVerif.Proofs.BindH95
/-!
# Binds, part 4k-2: every step of a drain keeps the frames `DKey` and `NKey`

* `C2k.lhsRunClosure_dk`: the closure run of a change detector of bind `b` (templates of `const`/`lhsConst`/`map`/`fold` instructions) keeps `DK b`.
* `recomputeOne_dkey`, `pop_dkey`: the two hypotheses of `lcStepsOK_auxS`.
-/
namespace IncrVerif.Proofs.BindH
open IncrVerif.Engine IncrVerif.Proofs IncrVerif.Proofs.Step IncrVerif.Proofs.Sched IncrVerif.Proofs.Quiet
namespace C2k

/-! ## run-level rules for a relation -/

theorem bind_rel {α β} {R : State → State → Prop} [PreOrd R] {x : M α} {f : α → M β} {s s' : State}
    {r : Except Panic β} (h : (x >>= f).run.run s = (r, s'))
    (hx : ∀ r1 s1, x.run.run s = (r1, s1) → R s s1) (hf : ∀ a, Step.Pres R (f a)) : R s s' := by
  rw [run_bind] at h
  rcases hx' : x.run.run s with ⟨r1, s1⟩
  rw [hx'] at h
  have h1 := hx r1 s1 hx'
  cases r1 with
  | ok a => exact PreOrd.trans h1 ((hf a).h s1 r s' h)
  | error e => cases h; exact h1

/-- a loop whose iterations relate their states by `R` provided `K` holds, where `K` is kept along `R` -/
theorem forIn_rel {α β} {R : State → State → Prop} [PreOrd R] (K : State → Prop)
    (hK : ∀ s s', K s → R s s' → K s') (l : List α) (f : α → β → M (ForInStep β))
    (hf : ∀ a, a ∈ l → ∀ c s r s', K s → (f a c).run.run s = (r, s') → R s s') :
    ∀ init s r s', K s → (forIn l init f).run.run s = (r, s') → R s s' := by
  induction l with
  | nil =>
    intro init s r s' _ h
    rw [List.forIn_nil, run_pure] at h; cases h; exact PreOrd.refl s
  | cons a l ih =>
    intro init s r s' hk h
    rw [List.forIn_cons, run_bind] at h
    rcases hx : (f a init).run.run s with ⟨r1, s1⟩
    rw [hx] at h
    have h1 := hf a (List.mem_cons_self ..) init s r1 s1 hk hx
    cases r1 with
    | error e => cases h; exact h1
    | ok y =>
      cases y with
      | done c => simp only [run_pure] at h; cases h; exact h1
      | yield c =>
        exact PreOrd.trans h1
          (ih (fun a' ha' => hf a' (List.mem_cons_of_mem _ ha')) c s1 r s' (hK s s1 hk h1) h)

/-! ## the closure run -/

/-- the creation instructions of F1 closures -/
def F1I : Instr → Prop
  | .const _ => True
  | .lhsConst => True
  | .map _ _ => True
  | .fold _ _ _ => True
  | _ => False

theorem f1i_of_instrOK {env : Env} {s : State} {lc nloc : Nat} {i : Instr} (h : InstrOK env s lc nloc i) : F1I i := by
  cases i <;> first | trivial | exact h.elim

theorem elabInstrM_dk {b : Nat} {env : Env} {loc : List Nat} {v : Val} {i : Instr} (hi : F1I i) {s s' : State}
    {r : Except Panic (Option Nat)} (hsc : s.currentScope = .bind b)
    (h : (elabInstrM env loc v i).run.run s = (r, s')) : DKS b s s' := by
  cases i <;> first | exact hi.elim | skip
  all_goals
    simp only [Engine.elabInstrM, Engine.elabInstr, run_bind_get, hsc] at h
    refine Step.Pres.h ?_ _ _ _ h
    c2kpres

theorem elabTemplate_dk {b : Nat} {env : Env} {t : Template} {v : Val} (ht : ∀ (j : Nat) (i : Instr), t.instrs[j]? = some i → F1I i)
    {s s' : State} {r : Except Panic Nat} (hsc : s.currentScope = .bind b)
    (h : (elabTemplate env t v).run.run s = (r, s')) : DKS b s s' := by
  unfold Engine.elabTemplate at h
  refine bind_rel h (fun r1 s1 hx => ?_) (fun a => by c2kpres)
  refine forIn_rel (R := DKS b) (fun s => s.currentScope = .bind b) (fun s s' hk hr => hr.2.trans hk) _ _ ?_ _ s r1 s1 hsc hx
  intro i hi c t0 r0 t1 hk hb
  obtain ⟨j, hj⟩ := List.getElem?_of_mem hi
  exact bind_rel hb (fun r2 s2 hx2 => elabInstrM_dk (ht j i hj) hk hx2) (fun a => by c2kpres)

theorem lhsRunClosure_dk {env : Env} {n b : Nat} {br : BindRec} {s s' : State} {rhs : Nat}
    (hc : ∀ (v : Val) (j : Nat) (i : Instr), (env.body br.body v).instrs[j]? = some i → F1I i)
    (h : (Inval.lhsRunClosure env n b br).run.run s = (.ok rhs, s')) : DK b s s' := by
  unfold Inval.lhsRunClosure at h
  obtain ⟨_, s1, h1, h⟩ := bind_ok_inv h
  have d1 := (PresD.modBind (b := b) _ _).h _ _ _ h1
  obtain ⟨lv, s2, h2, h⟩ := bind_ok_inv h
  have d2 := (Step.Pres.valueUnwrap (R := DKS b) _ _ _).h _ _ _ h2
  rw [run_bind_get] at h
  dsimp only at h
  rw [run_bind_modify] at h
  obtain ⟨_, s4, h4, h⟩ := bind_ok_inv h
  have d4 := (PresD.tick (b := b)).h _ _ _ h4
  obtain ⟨_, s5, h5, h⟩ := bind_ok_inv h
  have d5 := (PresD.logEv (b := b) _).h _ _ _ h5
  obtain ⟨rhs', s6, h6, h⟩ := bind_ok_inv h
  have hsc5 : s5.currentScope = .bind b := d5.2.trans d4.2
  have d6 := elabTemplate_dk (hc lv) hsc5 h6
  rw [run_bind_modify, run_pure] at h
  cases h
  have d3 : DK b s2 { s2 with currentScope := .bind b } := DK.of_nodes rfl rfl rfl rfl rfl rfl rfl rfl rfl rfl
  have d7 : DK b s6 { s6 with currentScope := s2.currentScope } := DK.of_nodes rfl rfl rfl rfl rfl rfl rfl rfl rfl rfl
  exact (((((d1.1.trans d2.1).trans d3).trans d4.1).trans d5.1).trans d6.1).trans d7

/-! ## one `recomputeOne` -/

/-- a run of the change detector of bind `b` -/
theorem lc_dk {env : Env} {fuel n b : Nat} {s s' : State} {r : Option Nat}
    (I : DInv env s (some n)) (A : F1Inv env s) (hk : (s.nodeD n).kind = .bindLhsChange b)
    (h : (recomputeOne env fuel n).run.run s = (.ok r, s')) : DK b s s' := by
  obtain ⟨-, hnlt, hnv, -, -⟩ := I.cur_facts
  obtain ⟨br, hb, -⟩ := I.graph.lcRec n b hnlt hnv hk
  rw [Inval.recomputeOne_bindLhsChange_run env fuel n s (s.nodeD n) b br (some_of_lt hnlt) hnv hk hb] at h
  obtain ⟨rhs, t1, h1, h⟩ := bind_ok_inv h
  obtain ⟨_, t2, h2, h⟩ := bind_ok_inv h
  obtain ⟨_, t3, h3, h⟩ := bind_ok_inv h
  have d0 := DKS.started b n s
  have d1 := lhsRunClosure_dk (fun v j i hj => f1i_of_instrOK ((A.closures b br v hb).1 j i hj)) h1
  have d2 := (PresD.lhsRelink (b := b) env fuel n b br s.stabNum rhs).h _ _ _ h2
  have d3 := (PresD.lhsInvalidateOld (b := b) fuel br).h _ _ _ h3
  have d4 := (PresD.lhsFinish (b := b) env fuel n).h _ _ _ h
  exact (((d0.1.trans d1).trans d2.1).trans d3.1).trans d4.1

/-- a run of a static-kind or `bindMain` node -/
theorem other_dk {env : Env} {fuel n : Nat} {s s' : State} {r : Option Nat} (b : Nat)
    (I : DInv env s (some n))
    (hk : StaticKind env (s.nodeD n).kind ∨ ∃ b lc, (s.nodeD n).kind = .bindMain b lc)
    (h : (recomputeOne env fuel n).run.run s = (.ok r, s')) : DK b s s' := by
  obtain ⟨hn, -, -, -, -⟩ := I.cur_facts
  obtain ⟨v, es, h0⟩ := CF.recomputeOne_closed' I.graph hn hk I.kids_values h
  have d0 := DKS.started b n s
  have d1 := DKS.logged b es (Step.started n s)
  have d2 := (PresD.maybeChangeValue (b := b) env fuel n v).h _ _ _ h0
  exact ((d0.1.trans d1.1).trans d2.1)

theorem dkey_of_dk {b : Nat} {s s' : State} (d : DK b s s') (hh : ∀ m, (s.nodeD m).numOnUpdateHandlers = 0) :
    DKey s s' ∧ NKey s s' :=
  ⟨⟨d.observers, d.allObservers, d.newObservers, d.disallowedObservers, d.setDuringStab, d.deadVars, (d.has hh).2,
      d.alive, d.status⟩,
    ⟨d.grow, d.old, fun m h1 h2 => ⟨b, d.new m h1 h2⟩⟩⟩

/-! ## `remove_min` -/

/-- `handleAfterStab` is unchanged -/
def HS (s s' : State) : Prop := s'.handleAfterStab = s.handleAfterStab
instance : PreOrd HS := ⟨fun _ => rfl, fun h1 h2 => Eq.trans h2 h1⟩

theorem hs_modNode (n : Nat) (f : Node → Node) : Step.Pres HS (modNode n f) := by
  unfold Engine.modNode; exact Step.Pres.modify fun _ => rfl

local macro_rules
  | `(tactic| c2kleaf) => `(tactic| ((with_reducible apply Step.Pres.modify); intro _; exact (rfl : _ = _)))
local macro_rules
  | `(tactic| c2kleaf) => `(tactic| with_reducible apply hs_modNode)

theorem hs_rchRemoveMin : Step.Pres HS rchRemoveMin := by unfold Engine.rchRemoveMin; c2kpres

end C2k

/-- **One `recomputeOne` of a drain keeps the frames.** -/
theorem recomputeOne_dkey {env : Env} {fuel n : Nat} {s s' : State} {r : Option Nat}
    (I : DInv env s (some n)) (A : F1Inv env s)
    (h : (recomputeOne env fuel n).run.run s = (.ok r, s')) : DKey s s' ∧ NKey s s' := by
  have g := I.graph
  obtain ⟨-, hnlt, hnv, -, -⟩ := I.cur_facts
  have hB := (g.node n hnlt hnv).1
  have hstatic : (StaticKind env (s.nodeD n).kind ∨ ∃ b lc, (s.nodeD n).kind = .bindMain b lc) ∨
      ∃ b, (s.nodeD n).kind = .bindLhsChange b := by
    cases hk : (s.nodeD n).kind <;> rw [hk] at hB <;>
      first
      | exact Or.inl (Or.inl hB)
      | exact Or.inl (Or.inr ⟨_, _, rfl⟩)
      | exact Or.inr ⟨_, rfl⟩
  rcases hstatic with hk | ⟨b, hk⟩
  · exact C2k.dkey_of_dk (C2k.other_dk 0 I hk h) A.noHandlers
  · exact C2k.dkey_of_dk (C2k.lc_dk I A hk h) A.noHandlers

/-- **`remove_min` keeps the frames.** -/
theorem pop_dkey {s s1 : State} {n : Nat} (h : rchRemoveMin.run.run s = (.ok (some n), s1)) :
    DKey s s1 ∧ NKey s s1 := by
  have d := ((C2k.PresD.rchRemoveMin (b := 0)).h _ _ _ h).1
  have hs : s1.handleAfterStab = s.handleAfterStab := C2k.hs_rchRemoveMin.h _ _ _ h
  exact ⟨⟨d.observers, d.allObservers, d.newObservers, d.disallowedObservers, d.setDuringStab, d.deadVars, hs,
      d.alive, d.status⟩,
    ⟨d.grow, d.old, fun m h1 h2 => ⟨0, d.new m h1 h2⟩⟩⟩

end IncrVerif.Proofs.BindH
