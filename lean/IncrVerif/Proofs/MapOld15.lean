import IncrVerif.Proofs.MapOld6
/-!
# map_with_old fragment: simulation of the observer and variable operations
-/
namespace IncrVerif.Proofs.MapOldH
open IncrVerif.Engine IncrVerif.Proofs IncrVerif.Proofs.Step IncrVerif.Proofs.Sched IncrVerif.Proofs.Quiet

variable {sp : Nat → Val → Val}

section
theorem Sim.getObs (o : Nat) : Sim (Engine.getObs o) (Engine.getObs o) := by
  intro s; unfold Engine.getObs; wsim
  split <;> wsim
macro_rules | `(tactic| wsim_leaf) => `(tactic| with_reducible exact Sim.getObs _)

theorem Sim.modObs (o : Nat) (f : ObsRec → ObsRec) : Sim (Engine.modObs o f) (Engine.modObs o f) := by
  intro s; unfold Engine.modObs; wsim
macro_rules | `(tactic| wsim_leaf) => `(tactic| with_reducible exact Sim.modObs _ _)

theorem Sim.bumpCounter (f : Counters → Counters) : Sim (Engine.bumpCounter f) (Engine.bumpCounter f) := by
  intro s; unfold Engine.bumpCounter; wsim
macro_rules | `(tactic| wsim_leaf) => `(tactic| with_reducible exact Sim.bumpCounter _)

theorem Sim.getVar (v : Nat) : Sim (Engine.getVar v) (Engine.getVar v) := by
  intro s; unfold Engine.getVar; wsim
  split <;> wsim
macro_rules | `(tactic| wsim_leaf) => `(tactic| with_reducible exact Sim.getVar _)

theorem Sim.modVar (v : Nat) (f : VarCell → VarCell) : Sim (Engine.modVar v f) (Engine.modVar v f) := by
  intro s; unfold Engine.modVar; wsim
macro_rules | `(tactic| wsim_leaf) => `(tactic| with_reducible exact Sim.modVar _ _)

theorem Sim.addNewObservers (env : Env) (fuel : Nat) :
    Sim (Engine.addNewObservers env fuel) (Engine.addNewObservers (virtEnv env sp) fuel) := by
  intro s; unfold Engine.addNewObservers; wsim
  split <;> wsim
macro_rules | `(tactic| wsim_leaf) => `(tactic| with_reducible exact Sim.addNewObservers _ _)

theorem Sim.unlinkDisallowedObservers (fuel : Nat) :
    Sim (Engine.unlinkDisallowedObservers fuel) (Engine.unlinkDisallowedObservers fuel) := by
  intro s; unfold Engine.unlinkDisallowedObservers; wsim
macro_rules | `(tactic| wsim_leaf) => `(tactic| with_reducible exact Sim.unlinkDisallowedObservers _)

theorem Sim.disallowFutureUse (o : Nat) : Sim (Engine.disallowFutureUse o) (Engine.disallowFutureUse o) := by
  intro s; unfold Engine.disallowFutureUse; wsim
  split <;> wsim
macro_rules | `(tactic| wsim_leaf) => `(tactic| with_reducible exact Sim.disallowFutureUse _)

theorem Sim.didSetVarWhileNotStabilising (v : Nat) :
    Sim (Engine.didSetVarWhileNotStabilising v) (Engine.didSetVarWhileNotStabilising v) := by
  intro s; unfold Engine.didSetVarWhileNotStabilising; wsim
macro_rules | `(tactic| wsim_leaf) => `(tactic| with_reducible exact Sim.didSetVarWhileNotStabilising _)

theorem Sim.writeVar (v : Nat) (f : Val → Val) (isSet : Bool) :
    Sim (Engine.writeVar v f isSet) (Engine.writeVar v f isSet) := by
  intro s; unfold Engine.writeVar; wsim
  split <;> wsim
  split <;> wsim
macro_rules | `(tactic| wsim_leaf) => `(tactic| with_reducible exact Sim.writeVar _ _ _)

end
end IncrVerif.Proofs.MapOldH
