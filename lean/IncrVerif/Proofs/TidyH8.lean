import IncrVerif.Proofs.TidyH6
import IncrVerif.Proofs.TidyH7
/-!
# C17 for the whole log of a `stabilise`: the user-function calls of an operator node, as a filter of the log
-/
namespace IncrVerif.Proofs.TidyH
open IncrVerif IncrVerif.Engine IncrVerif.Driver IncrVerif.Proofs IncrVerif.Proofs.Step IncrVerif.Proofs.Sched IncrVerif.Proofs.Quiet
open IncrVerif.Proofs.MapOldH

/-- `e` is an `inv` event of node `n` that is not an expert edge callback: a call of the user function(s) of `n` -/
def isCallAt (n : Nat) : Event → Bool
  | .inv w m _ _ => decide (m = n ∧ w ≠ "cb")
  | _ => false

/-- the user-function calls of node `n` in a piece of the log (most recent first, as the log) -/
def callsAt (n : Nat) (l : List Event) : List Event := l.filter (isCallAt n)

theorem callsAt_append (n : Nat) (a b : List Event) : callsAt n (a ++ b) = callsAt n a ++ callsAt n b := by
  simp [callsAt]

theorem NoCalls.callsAt {n : Nat} {l : List Event} (h : NoCalls n l) : callsAt n l = [] := by
  unfold TidyH.callsAt
  rw [List.filter_eq_nil_iff]
  intro e he
  rcases h e he with hn | hn
  · cases e with
    | inv w m a r =>
      have : w = "cb" := hn
      simp only [isCallAt, decide_eq_true_eq]
      exact fun h => h.2 this
    | cut => simp [isCallAt]
    | notif => exact hn.elim
    | note => exact hn.elim
  · cases e with
    | inv w m a r =>
      have : m ≠ n := hn
      simp only [isCallAt, decide_eq_true_eq]
      exact fun h => this h.1
    | cut => simp [isCallAt]
    | notif => simp [isCallAt]
    | note => simp [isCallAt]

theorem callsAt_callEvents {n : Nat} {calls : List (String × List Val × String)} (h : ∀ c, c ∈ calls → c.1 ≠ "cb") :
    callsAt n (callEvents n calls) = callEvents n calls := by
  unfold callsAt callEvents
  rw [List.filter_eq_self]
  intro e he
  rw [List.mem_reverse, List.mem_map] at he
  obtain ⟨c, hc, rfl⟩ := he
  simp only [isCallAt, decide_eq_true_eq]
  exact ⟨trivial, h c hc⟩

theorem callsAt_sandwich {n : Nat} {A B : List Event} {calls : List (String × List Val × String)}
    (hA : NoCalls n A) (hB : NoCalls n B) (h : ∀ c, c ∈ calls → c.1 ≠ "cb") :
    callsAt n (A ++ callEvents n calls ++ B) = callEvents n calls := by
  rw [callsAt_append, callsAt_append, hA.callsAt, hB.callsAt, callsAt_callEvents h]
  simp

/-- **T2c, as a filter.** The user-function calls of the operator node `n` among the events logged by one `stabilise`:
none if `n` was not recomputed; otherwise exactly the events of `opCalls d g σ old x`. -/
theorem stabCalls_filter {d : Defs} {n g i : Nat} {s s' : State} {new : List Event}
    (hlt : (s.nodeD n).recomputedAt < s.stabNum) (H : StabCalls d n g i s s' new) :
    ((s'.nodeD n).recomputedAt ≠ s.stabNum → callsAt n new = [] ∧
        (s'.nodeD n).oldState = (s.nodeD n).oldState ∧ (s'.nodeD n).value = (s.nodeD n).value) ∧
    ((s'.nodeD n).recomputedAt = s.stabNum → ∃ x, (s'.nodeD i).value = some x ∧ Canon x ∧
      callsAt n new = callEvents n (opCalls d g (s.nodeD n).oldState (s.nodeD n).value x)) := by
  cases H with
  | idle h1 h2 h3 h4 =>
    refine ⟨fun _ => ⟨h4.callsAt, h2, h3⟩, fun h => ?_⟩
    rw [h1] at h; omega
  | ran x A B h1 h2 h3 h4 h5 h6 =>
    refine ⟨fun h => absurd h1 h, fun _ => ⟨x, h2, h3, ?_⟩⟩
    rw [h4]
    exact callsAt_sandwich h5 h6 (opCalls_name_ne_cb d g _ _ x)

end IncrVerif.Proofs.TidyH
