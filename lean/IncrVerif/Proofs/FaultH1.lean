import IncrVerif.Proofs.Subs16
import IncrVerif.Proofs.TidyH9
/-!
# Faults in whole histories, part 0: the armed fault commutes with everything but `tick`

`setCd c s` is `s` with the fault countdown set to `c`.  `Comm x`: WHATEVER the outcome of the run of `x` from a state
`s` of the fragment (`Fr s`: every node valid, neither expert nor map_ref, no closure cutoff, nothing to invalidate), the
run from `setCd c s` has the same outcome and ends in `setCd c` of the final state, and the run logs nothing.  The only
function of the model that reads or writes `panicCountdown` is `tick`; in the fragment the functions proved `Comm` here
never reach it.
-/
namespace IncrVerif.Proofs.FaultH
open IncrVerif.Engine IncrVerif.Proofs IncrVerif.Proofs.Step IncrVerif.Proofs.Sched

/-- set the fault countdown -/
@[reducible] def setCd (c : Option Nat) (s : State) : State := { s with panicCountdown := c }

theorem setCd_self {s : State} {c : Option Nat} (h : s.panicCountdown = c) : setCd c s = s := by
  cases s; simp only [setCd] at h ⊢; subst h; rfl

theorem setCd_setCd (c d : Option Nat) (s : State) : setCd c (setCd d s) = setCd c s := rfl

/-- what the commutation needs to know of the state all along -/
structure Fr (env : Env) (s : State) : Prop where
  kind : ∀ n, StaticKind env (s.nodeD n).kind
  noExp : ∀ n e, (s.nodeD n).kind ≠ .expert e
  valid : ∀ n, (s.nodeD n).valid = true
  pinv : s.propagateInvalidity = []
  noRef : ∀ n p i, (s.nodeD n).kind ≠ .mapRef p i
  cut : ∀ n c, (s.nodeD n).cutoff ≠ .fn c ∧ (s.nodeD n).cutoff ≠ .boxed c

variable {env : Env}

theorem Fr.of_nodes {s s' : State} (h : Fr env s) (e : s'.nodes = s.nodes)
    (e2 : s'.propagateInvalidity = s.propagateInvalidity) : Fr env s' := by
  have hn : ∀ n, s'.nodeD n = s.nodeD n := fun n => by simp [State.nodeD, e]
  exact ⟨fun n => by rw [hn]; exact h.kind n, fun n x => by rw [hn]; exact h.noExp n x, fun n => by rw [hn]; exact h.valid n, by rw [e2]; exact h.pinv,
    fun n p i => by rw [hn]; exact h.noRef n p i, fun n c => by rw [hn]; exact h.cut n c⟩

theorem Fr.setCd {s : State} (h : Fr env s) (c : Option Nat) : Fr env (setCd c s) := h.of_nodes rfl rfl

theorem Fr.some {s : State} (h : Fr env s) {n : Nat} {nd : Node} (hn : s.nodes[n]? = some nd) :
    (∀ e, nd.kind ≠ .expert e) ∧ (∀ p i, nd.kind ≠ .mapRef p i) ∧ nd.valid = true ∧
      (∀ c, nd.cutoff ≠ .fn c ∧ nd.cutoff ≠ .boxed c) := by
  have h1 := h.noExp n; have h2 := h.valid n; have h3 := h.noRef n; have h4 := h.cut n
  rw [nodeD_of_some hn] at h1 h2 h3 h4; exact ⟨h1, h3, h2, h4⟩

theorem fr_modify {s : State} (h : Fr env s) (n : Nat) (f : Node → Node)
    (hk : ∀ nd, (f nd).kind = nd.kind ∧ (f nd).valid = nd.valid ∧ (f nd).cutoff = nd.cutoff) :
    Fr env ({ s with nodes := s.nodes.modify n f } : State) := by
  have hn : ∀ m, (({ s with nodes := s.nodes.modify n f } : State).nodeD m).kind = (s.nodeD m).kind ∧
      (({ s with nodes := s.nodes.modify n f } : State).nodeD m).valid = (s.nodeD m).valid ∧
      (({ s with nodes := s.nodes.modify n f } : State).nodeD m).cutoff = (s.nodeD m).cutoff := by
    intro m
    rw [nodeD_modify]
    split
    · exact hk _
    · exact ⟨rfl, rfl, rfl⟩
  exact ⟨fun m => by rw [(hn m).1]; exact h.kind m, fun m e => by rw [(hn m).1]; exact h.noExp m e, fun m => by rw [(hn m).2.1]; exact h.valid m, h.pinv,
    fun m p i => by rw [(hn m).1]; exact h.noRef m p i, fun m c => by rw [(hn m).2.2]; exact h.cut m c⟩

/-- the run of `x` from `s` is matched, outcome and state, by the run with the countdown set to `c`; it logs nothing -/
def CommAt (env : Env) (c : Option Nat) (s : State) {α} (x : M α) : Prop :=
  Fr env s → ∀ (r : Except Panic α) s', x.run.run s = (r, s') →
    x.run.run (setCd c s) = (r, setCd c s') ∧ Fr env s' ∧ s'.log = s.log

def Comm (env : Env) {α} (x : M α) : Prop := ∀ c s, CommAt env c s x

section
variable {c : Option Nat} {s : State} {α β : Type}

theorem run_bind_err {x : M α} {f : α → M β} {e : Panic} {s1 : State} (h : x.run.run s = (.error e, s1)) :
    (x >>= f).run.run s = (.error e, s1) := TidyH.WT.run_bind_err h

theorem Comm.at {x : M α} (h : Comm env x) (c : Option Nat) (s : State) : CommAt env c s x := h c s

theorem CommAt.ret (a : α) : CommAt env c s (pure a : M α) := by
  intro hn r s' h; rw [run_pure] at h; cases h; exact ⟨rfl, hn, rfl⟩

theorem CommAt.thr (e : Panic) : CommAt env c s (throw e : M α) := by
  intro hn r s' h; rw [run_throw] at h; cases h; exact ⟨rfl, hn, rfl⟩

theorem CommAt.pan (e : String) : CommAt env c s (Engine.panic e : M α) := CommAt.thr _

theorem CommAt.seq {x : M α} {f : α → M β} (hx : CommAt env c s x)
    (hf : ∀ a s1, x.run.run s = (.ok a, s1) → CommAt env c s1 (f a)) :
    CommAt env c s (x >>= f) := by
  intro hn r s' h
  rcases h1 : x.run.run s with ⟨a | a, s1⟩
  · obtain ⟨e1, n1, l1⟩ := hx hn _ s1 h1
    rw [run_bind_err h1] at h; cases h
    exact ⟨run_bind_err e1, n1, l1⟩
  · obtain ⟨e1, n1, l1⟩ := hx hn _ s1 h1
    rw [run_bind_ok h1] at h; rw [run_bind_ok e1]
    obtain ⟨e2, n2, l2⟩ := hf a s1 h1 n1 r s' h
    exact ⟨e2, n2, l2.trans l1⟩

/-- `get`: the continuation must not look at the countdown -/
theorem CommAt.get_seq {k : State → M β} (hk : k (setCd c s) = k s) (h : CommAt env c s (k s)) :
    CommAt env c s (get >>= k) := by
  intro hn r s' hr
  rw [run_bind_get] at hr ⊢
  rw [hk]
  exact h hn r s' hr

theorem run_getNode_none {n : Nat} (h : s.nodes[n]? = none) :
    (getNode n).run.run s = (.error (.site "model:no-such-node"), s) := TidyH.WT.run_getNode_none h

theorem CommAt.getNode_seq {n : Nat} {k : Node → M β}
    (h : ∀ nd, s.nodes[n]? = some nd → (∀ e, nd.kind ≠ .expert e) → (∀ p i, nd.kind ≠ .mapRef p i) →
      nd.valid = true → (∀ c, nd.cutoff ≠ .fn c ∧ nd.cutoff ≠ .boxed c) → CommAt env c s (k nd)) :
    CommAt env c s (getNode n >>= k) := by
  intro hn r s' hr
  cases hnd : s.nodes[n]? with
  | none =>
    have hv : (setCd c s).nodes[n]? = none := hnd
    rw [run_bind_err (run_getNode_none hnd)] at hr
    cases hr
    exact ⟨run_bind_err (run_getNode_none hv), hn, rfl⟩
  | some nd =>
    have hv : (setCd c s).nodes[n]? = some nd := hnd
    rw [run_bind_ok (run_getNode_some hnd)] at hr
    rw [run_bind_ok (run_getNode_some hv)]
    exact h nd hnd (hn.some hnd).1 (hn.some hnd).2.1 (hn.some hnd).2.2.1 (hn.some hnd).2.2.2 hn r s' hr

theorem CommAt.mod {f : State → State} (h : setCd c (f s) = f (setCd c s)) (hn : (f s).nodes = s.nodes)
    (hp : (f s).propagateInvalidity = s.propagateInvalidity) (hl : (f s).log = s.log) :
    CommAt env c s (modify f : M Unit) := by
  intro hne r s' hr; rw [run_modify] at hr ⊢; cases hr; rw [h]; exact ⟨rfl, hne.of_nodes hn hp, hl⟩

theorem CommAt.mod_seq {f : State → State} {k : Unit → M β} (h : setCd c (f s) = f (setCd c s))
    (hn : (f s).nodes = s.nodes) (hp : (f s).propagateInvalidity = s.propagateInvalidity)
    (hl : (f s).log = s.log) (hk : CommAt env c (f s) (k ())) :
    CommAt env c s ((modify f : M Unit) >>= k) := by
  intro hne r s' hr
  rw [run_bind_modify] at hr ⊢
  rw [← h]
  obtain ⟨e2, n2, l2⟩ := hk (hne.of_nodes hn hp) r s' hr
  exact ⟨e2, n2, l2.trans hl⟩

theorem CommAt.cond {p : Prop} {_ : Decidable p} {a b : M α}
    (ha : p → CommAt env c s a) (hb : ¬ p → CommAt env c s b) :
    CommAt env c s (if p then a else b) := by
  by_cases h : p
  · rw [if_pos h]; exact ha h
  · rw [if_neg h]; exact hb h

/-- a node update that keeps kind, validity and cutoff -/
theorem Comm.modNode (n : Nat) {f : Node → Node}
    (hk : ∀ nd, (f nd).kind = nd.kind ∧ (f nd).valid = nd.valid ∧ (f nd).cutoff = nd.cutoff) :
    Comm env (Engine.modNode n f) := by
  intro c s hne r s' hr
  rw [run_modNode] at hr ⊢
  cases hr
  exact ⟨rfl, fr_modify hne n f hk, rfl⟩

theorem Comm.forIn {γ : Type} (l : List γ) {f : γ → β → M (ForInStep β)} (h : ∀ a b, Comm env (f a b))
    (b : β) : Comm env (ForIn.forIn l b f) := by
  induction l generalizing b with
  | nil => intro c s; rw [List.forIn_nil]; exact CommAt.ret _
  | cons a l ih =>
    intro c s
    rw [List.forIn_cons]
    refine CommAt.seq (h a b c s) fun r s1 _ => ?_
    cases r with
    | done b' => exact CommAt.ret _
    | yield b' => exact ih b' c s1

theorem Comm.mapM {γ : Type} {f : γ → M β} (h : ∀ a, Comm env (f a)) (l : List γ) : Comm env (l.mapM f) := by
  induction l with
  | nil => intro c s; rw [List.mapM_nil]; exact CommAt.ret _
  | cons a l ih =>
    intro c s
    rw [List.mapM_cons]
    exact CommAt.seq (h a c s) fun _ s1 _ => CommAt.seq (ih c s1) fun _ _ _ => CommAt.ret _

theorem Comm.dassert (b : Bool) (site : String) : Comm env (Engine.dassert b site) := by
  intro c s hn r s' h
  rw [run_dassert] at h ⊢
  by_cases hc : s.cfg.debug = true ∧ b = false
  · rw [if_pos hc] at h; cases h; exact ⟨if_pos hc, hn, rfl⟩
  · rw [if_neg hc] at h; cases h; exact ⟨if_neg hc, hn, rfl⟩

theorem Comm.assertM (b : Bool) (site : String) : Comm env (Engine.assertM b site) := by
  intro c s hn r s' h
  rw [run_assertM] at h ⊢
  split at h
  · rename_i hc; cases h; rw [if_pos hc]; exact ⟨rfl, hn, rfl⟩
  · rename_i hc; cases h; rw [if_neg hc]; exact ⟨rfl, hn, rfl⟩

theorem CommAt.map {x : M α} (f : α → β) (hx : CommAt env c s x) : CommAt env c s (f <$> x) := by
  rw [map_eq_pure_bind]
  exact CommAt.seq hx fun _ _ _ => CommAt.ret _

theorem CommAt.discard {x : M α} (hx : CommAt env c s x) : CommAt env c s (discard x) := by
  unfold Functor.discard
  exact CommAt.map (Function.const α PUnit.unit) hx

end

theorem kind_of_kind? {nd : Node} {k : Kind} (h : nd.kind? = some k) : nd.kind = k :=
  MapOldH.kind_of_kind? h

/-! ## the tactics -/

/-- how to show that the continuation of a `get` does not look at the countdown (extended by `macro_rules`) -/
syntax "csim_get" : tactic
macro_rules | `(tactic| csim_get) => `(tactic| first | with_reducible rfl | rfl)

/-- registered `Comm` lemmas -/
syntax "csim_leaf" : tactic
macro_rules | `(tactic| csim_leaf) => `(tactic| fail "no leaf")

set_option hygiene false in
macro "csim_step" : tactic => `(tactic| first
  | with_reducible exact CommAt.ret _
  | with_reducible exact CommAt.thr _
  | with_reducible exact CommAt.pan _
  | ((with_reducible refine CommAt.get_seq ?hk ?_); (case hk => csim_get); try dsimp only)
  | ((with_reducible refine CommAt.getNode_seq fun nd hnd hne hnr hval hcut => ?_); try dsimp only)
  | ((with_reducible refine CommAt.mod_seq ?_ ?_ ?_ ?_ ?_) <;> (first | rfl | skip))
  | ((with_reducible refine CommAt.mod ?_ ?_ ?_ ?_) <;> rfl)
  | ((with_reducible refine Comm.at ?_ _ _); csim_leaf)
  | ((with_reducible refine Comm.at (Comm.forIn _ (fun _ _ => ?_) _) _ _); intro _ _)
  | (with_reducible refine CommAt.seq ?_ fun _ _ _ => ?_)
  | (refine CommAt.cond (fun _ => ?_) (fun _ => ?_)))

macro "csim" : tactic => `(tactic| repeat (any_goals csim_step))

set_option hygiene false in
/-- a `match` on the kind of the node last read by `getNode` -/
macro "csim_kind" : tactic => `(tactic| (
  rcases hk : nd.kind? with _ | k
  all_goals try cases k
  all_goals try dsimp only
  all_goals try exact absurd (kind_of_kind? hk) (hne _)
  all_goals try exact absurd (kind_of_kind? hk) (hnr _ _)
  csim))

end IncrVerif.Proofs.FaultH
