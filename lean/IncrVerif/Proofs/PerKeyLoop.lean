import IncrVerif.Proofs.StepStamp
import IncrVerif.Proofs.PerKey
/-!
# Helper lemmas for C16.4: which keys the per-key driver touches

* `perKeyStep`: the body of the driver's loop (a copy of the code), `perKeyDriver_eq_forIn`: the driver
  is `for kd in symmetricDiff prevMap newMap do perKeyStep … kd` followed by `prevMap := newMap`.
* `Sz`: no node and no expert record is created, no operator record changes — preserved by everything
  the `Unequal` and `Left` branches call (`expert_make_stale`, `expert_remove_dependency`,
  `expert invalidate` with their cascades), in the `Pres` style of `Proofs/Step.lean`.
-/
open IncrVerif.Engine IncrVerif.Proofs IncrVerif.Proofs.Step
namespace IncrVerif.Proofs.PKL

/-! ## the loop -/

/-- one iteration of the `for` loop of `perKeyDriver` (copied from the code) -/
def perKeyStep (env : Env) (fuel op : Nat) (sc : Scope) (kd : Int × IncrVerif.MapOps.DiffElement Int) :
    M Unit := do
  let (key, diff) := kd
  let pr := (← get).perkeys[op]?.getD default
  match diff with
  | .unequal _ _ =>
    match pr.prevNodes.lookup key with
    | none => Engine.panic "incremental-map:per-key:nodes-get-unwrap"
    | some (node, _) => if (← get).isAlive node then expertMakeStale node
  | .left _ =>
    match pr.prevNodes.lookup key with
    | none => Engine.panic "incremental-map:per-key:nodes-remove-unwrap"
    | some (node, dep) =>
      modify fun s => { s with perkeys := s.perkeys.modify op fun p =>
        { p with prevNodes := p.prevNodes.filter (·.1 != key) } }
      let wasAlive := (← get).isAlive node
      expertRemoveDependency fuel pr.result dep
      if wasAlive then expertInvalidate fuel node
  | .right _ =>
    let e := (← get).experts.size
    modify fun s => { s with experts := s.experts.push { f := 0, pk := some (op, some key) } }
    let node ← createNode (.expert e) sc
    modExpert e fun r => { r with node := node }
    match pr.cut with
    | some c => modNode node fun x => { x with cutoff := c }
    | none => pure ()
    discard <| expertAddDependency env fuel node pr.lhsChange false
    tick
    logEv (.note s!"pk P{pr.fam} key {key} node n{node}")
    let mapped ← elabTemplateBase (env.perKey pr.fam) (.int key) [node]
    let dep ← expertAddDependency env fuel pr.result mapped true
    modify fun s => { s with perkeys := s.perkeys.modify op fun p =>
      { p with prevNodes := (key, (node, dep)) :: p.prevNodes.filter (·.1 != key) } }

/-- the driver, with its loop made explicit -/
def perKeyDriver' (env : Env) (fuel op : Nat) (newMap : List (Int × Int)) : M Unit := do
  let pr := (← get).perkeys[op]?.getD default
  let sc := (← get).currentScope
  for kd in IncrVerif.MapOps.symmetricDiff pr.prevMap newMap do
    perKeyStep env fuel op sc kd
  modify fun s => { s with perkeys := s.perkeys.modify op fun p => { p with prevMap := newMap } }

theorem perKeyDriver_eq_forIn (env : Env) (fuel op : Nat) (newMap : List (Int × Int)) :
    perKeyDriver env fuel op newMap = perKeyDriver' env fuel op newMap := by
  unfold perKeyDriver perKeyDriver'
  refine bind_congr fun s0 => ?_
  refine bind_congr fun s1 => ?_
  dsimp only
  congr 1
  congr 1
  funext kd u
  obtain ⟨key, diff⟩ := kd
  simp only [perKeyStep, bind_assoc]
  refine bind_congr fun s2 => ?_
  cases diff with
  | unequal a b =>
    dsimp only
    cases hl : List.lookup key (s2.perkeys[op]?.getD default).prevNodes with
    | none => simp
    | some p =>
      obtain ⟨node, d⟩ := p
      dsimp only
      simp only [bind_assoc]
      refine bind_congr fun s3 => ?_
      split <;> simp
  | left a =>
    dsimp only
    cases hl : List.lookup key (s2.perkeys[op]?.getD default).prevNodes with
    | none => simp
    | some p =>
      obtain ⟨node, d⟩ := p
      dsimp only
      simp only [bind_assoc]
      refine bind_congr fun _ => bind_congr fun s3 => bind_congr fun _ => ?_
      split <;> simp
  | right a =>
    dsimp only
    simp only [bind_assoc]
    refine bind_congr fun s3 => bind_congr fun _ => bind_congr fun node => bind_congr fun _ => ?_
    cases hc : (s2.perkeys[op]?.getD default).cut <;> simp [Functor.discard]

/-! ## `Sz`: nothing is created, no operator record changes -/

/-- same number of nodes, same number of expert records, same operator records -/
structure Sz (s s' : State) : Prop where
  nodes : s'.nodes.size = s.nodes.size
  experts : s'.experts.size = s.experts.size
  perkeys : s'.perkeys = s.perkeys

instance : PreOrd Sz :=
  ⟨fun _ => ⟨rfl, rfl, rfl⟩,
   fun h1 h2 => ⟨h2.nodes.trans h1.nodes, h2.experts.trans h1.experts, h2.perkeys.trans h1.perkeys⟩⟩

theorem Sz.of_eq {s s' : State} (h1 : s'.nodes = s.nodes) (h2 : s'.experts = s.experts)
    (h3 : s'.perkeys = s.perkeys) : Sz s s' := ⟨by rw [h1], by rw [h2], h3⟩

theorem sz_modNode (n : Nat) (f : Node → Node) : Pres Sz (modNode n f) := by
  unfold Engine.modNode; exact Pres.modify fun s => ⟨by simp, rfl, rfl⟩
theorem sz_modExpert (e : Nat) (f : ExpertRec → ExpertRec) : Pres Sz (modExpert e f) := by
  unfold Engine.modExpert; exact Pres.modify fun s => ⟨rfl, by simp, rfl⟩

macro_rules
  | `(tactic| qleaf) => `(tactic| ((with_reducible apply Pres.modify); intro _; exact Sz.of_eq rfl rfl rfl))
macro_rules | `(tactic| qleaf) => `(tactic| with_reducible apply sz_modNode)
macro_rules | `(tactic| qleaf) => `(tactic| with_reducible apply sz_modExpert)
macro_rules | `(tactic| qleaf) => `(tactic| apply Pres.forIn)

/-- register a `Pres Sz` lemma as a leaf -/
macro "sz_leaf " n:ident : command =>
  `(macro_rules | `(tactic| qleaf) => `(tactic| with_reducible apply $n))

theorem sz_logEv (e) : Pres Sz (logEv e) := by unfold Engine.logEv; qpres
sz_leaf sz_logEv
theorem sz_modBind (b f) : Pres Sz (modBind b f) := by unfold Engine.modBind; qpres
sz_leaf sz_modBind
theorem sz_rchLink (n) : Pres Sz (rchLink n) := by unfold Engine.rchLink; qpres
sz_leaf sz_rchLink
theorem sz_rchUnlink (n) : Pres Sz (rchUnlink n) := by unfold Engine.rchUnlink; qpres
sz_leaf sz_rchUnlink
theorem sz_rchInsert (n) : Pres Sz (rchInsert n) := by unfold Engine.rchInsert; qpres
sz_leaf sz_rchInsert
theorem sz_rchRemove (n) : Pres Sz (rchRemove n) := by unfold Engine.rchRemove; qpres
sz_leaf sz_rchRemove
theorem sz_setHeight (n h) : Pres Sz (setHeight n h) := by unfold Engine.setHeight; qpres
sz_leaf sz_setHeight
theorem sz_removeParent (a b c) : Pres Sz (removeParent a b c) := by unfold Engine.removeParent; qpres
sz_leaf sz_removeParent
theorem sz_handleAfterStabilisation (n) : Pres Sz (handleAfterStabilisation n) := by
  unfold Engine.handleAfterStabilisation; qpres
sz_leaf sz_handleAfterStabilisation
theorem sz_maybeHandleAfterStabilisation (n) : Pres Sz (maybeHandleAfterStabilisation n) := by
  unfold Engine.maybeHandleAfterStabilisation; qpres
sz_leaf sz_maybeHandleAfterStabilisation
theorem sz_observabilityChange (e b) : Pres Sz (observabilityChange e b) := by
  unfold Engine.observabilityChange; qpres
sz_leaf sz_observabilityChange

theorem sz_unnecessary (fuel : Nat) :
    (∀ n, Pres Sz (becameUnnecessary fuel n)) ∧ (∀ n, Pres Sz (checkIfUnnecessary fuel n)) ∧
    (∀ n, Pres Sz (removeChildren fuel n)) := by
  induction fuel with
  | zero =>
    refine ⟨?_, ?_, ?_⟩
    · intro n; unfold Engine.becameUnnecessary; qpres
    · intro n; unfold Engine.checkIfUnnecessary; qpres
    · intro n; unfold Engine.removeChildren; qpres
  | succ fuel ih =>
    refine ⟨?_, ?_, ?_⟩
    · intro n; unfold Engine.becameUnnecessary; qpres; all_goals exact ih.2.2 _
    · intro n; unfold Engine.checkIfUnnecessary; qpres; all_goals exact ih.1 _
    · intro n; unfold Engine.removeChildren; qpres; all_goals exact ih.2.1 _
theorem sz_becameUnnecessary (fuel n) : Pres Sz (becameUnnecessary fuel n) := (sz_unnecessary fuel).1 n
sz_leaf sz_becameUnnecessary
theorem sz_checkIfUnnecessary (fuel n) : Pres Sz (checkIfUnnecessary fuel n) := (sz_unnecessary fuel).2.1 n
sz_leaf sz_checkIfUnnecessary
theorem sz_removeChildren (fuel n) : Pres Sz (removeChildren fuel n) := (sz_unnecessary fuel).2.2 n
sz_leaf sz_removeChildren

theorem sz_invalidateNode (fuel n) : Pres Sz (invalidateNode fuel n) := by
  induction fuel generalizing n with
  | zero => unfold Engine.invalidateNode; qpres
  | succ fuel ih => unfold Engine.invalidateNode; qpres; all_goals exact ih _
sz_leaf sz_invalidateNode
theorem sz_propagateInvalidity (fuel) : Pres Sz (propagateInvalidity fuel) := by
  induction fuel with
  | zero => unfold Engine.propagateInvalidity; qpres
  | succ fuel ih => unfold Engine.propagateInvalidity; qpres; all_goals exact ih
sz_leaf sz_propagateInvalidity

theorem sz_assertRunningIsChild (n name) : Pres Sz (assertRunningIsChild n name) := by
  unfold Engine.assertRunningIsChild; qpres
sz_leaf sz_assertRunningIsChild
theorem sz_expertOf (n) : Pres Sz (expertOf n) := by unfold Engine.expertOf; qpres
sz_leaf sz_expertOf
theorem sz_swapEdgeIndices (n c1 i1 c2 i2) : Pres Sz (swapEdgeIndices n c1 i1 c2 i2) := by
  unfold Engine.swapEdgeIndices; qpres
sz_leaf sz_swapEdgeIndices

/-- `expert_make_stale` creates nothing -/
theorem sz_expertMakeStale (n) : Pres Sz (expertMakeStale n) := by
  unfold Engine.expertMakeStale; qpres
/-- `expert_remove_dependency` (with the unlinking cascade it may start) creates nothing -/
theorem sz_expertRemoveDependency (fuel n dep) : Pres Sz (expertRemoveDependency fuel n dep) := by
  unfold Engine.expertRemoveDependency; qpres
/-- `expert invalidate` (with the invalidation cascade) creates nothing -/
theorem sz_expertInvalidate (fuel n) : Pres Sz (expertInvalidate fuel n) := by
  unfold Engine.expertInvalidate; qpres

/-! ## what one iteration does, by tag -/

/-- an `Unequal` key: at most `expert_make_stale` on the key's node — nothing is created, no operator
record changes -/
theorem step_unequal (env : Env) (fuel op : Nat) (sc : Scope) (key a b : Int) :
    Pres Sz (perKeyStep env fuel op sc (key, .unequal a b)) := by
  unfold perKeyStep; dsimp only; qpres; all_goals exact sz_expertMakeStale _

/-- the operator record `op` without its entry for `key` -/
def forget (op : Nat) (key : Int) (s : State) : State :=
  { s with perkeys := s.perkeys.modify op fun p =>
      { p with prevNodes := p.prevNodes.filter (·.1 != key) } }

/-- a `Left` key: the entry is dropped from `prevNodes`, the dependency removed, the node
invalidated — nothing is created -/
theorem step_left (env : Env) (fuel op : Nat) (sc : Scope) (key a : Int) (s s' : State) (r)
    (hrun : (perKeyStep env fuel op sc (key, .left a)).run.run s = (r, s')) :
    s'.nodes.size = s.nodes.size ∧ s'.experts.size = s.experts.size ∧
      (s'.perkeys = s.perkeys ∨ s'.perkeys = (forget op key s).perkeys) := by
  unfold perKeyStep at hrun
  rw [run_bind_get] at hrun
  dsimp only at hrun
  cases hl : List.lookup key (s.perkeys[op]?.getD default).prevNodes with
  | none =>
    rw [hl] at hrun
    cases hrun
    exact ⟨rfl, rfl, .inl rfl⟩
  | some p =>
    obtain ⟨node, dep⟩ := p
    rw [hl] at hrun
    dsimp only at hrun
    rw [run_bind_modify] at hrun
    have h : Sz (forget op key s) s' := by
      refine Pres.h (R := Sz) ?_ _ r s' hrun
      qpres
      · exact sz_expertRemoveDependency _ _ _
      · exact sz_expertInvalidate _ _
    exact ⟨h.nodes, h.experts, .inr h.perkeys⟩

/-- the state after the first three actions of a `Right` key: the per-key input node exists -/
def withInputNode (op : Nat) (key : Int) (sc : Scope) (s : State) : State :=
  let s1 : State := PerKey.created (.expert s.experts.size) sc .eq
    { s with experts := s.experts.push { f := 0, pk := some (op, some key) } }
  { s1 with experts := s1.experts.modify s.experts.size fun r => { r with node := s.nodes.size } }

theorem withInputNode_nodes (op : Nat) (key : Int) (sc : Scope) (s : State) :
    (withInputNode op key sc s).nodes
      = s.nodes.push { kind := .expert s.experts.size, createdIn := sc } := by
  simp [withInputNode]

theorem withInputNode_experts (op : Nat) (key : Int) (sc : Scope) (s : State) :
    (withInputNode op key sc s).experts
      = s.experts.push { f := 0, pk := some (op, some key), node := s.nodes.size } := by
  simp [withInputNode, PerKey.modify_push_self]

/-- a `Right` key: first the per-key input node is created (an expert node whose record says
`pk = some (op, some key)`); whatever happens afterwards (it may panic), no node is removed -/
theorem step_right (env : Env) (fuel op : Nat) (sc : Scope) (key a : Int) (s s' : State) (r)
    (hrun : (perKeyStep env fuel op sc (key, .right a)).run.run s = (r, s')) :
    (withInputNode op key sc s).nodes.size ≤ s'.nodes.size := by
  unfold perKeyStep at hrun
  rw [run_bind_get] at hrun
  dsimp only at hrun
  rw [run_bind_get, run_bind_modify, Proofs.run_bind, PerKey.createNode_run'] at hrun
  dsimp only at hrun
  rw [Proofs.run_bind] at hrun
  have hm : ∀ (S : State) (e : Nat) (f : ExpertRec → ExpertRec),
      (modExpert e f).run.run S = (.ok (), { S with experts := S.experts.modify e f }) := fun _ _ _ => rfl
  rw [hm] at hrun
  dsimp only at hrun
  have h : Stamp (withInputNode op key sc s) s' := by
    refine Pres.h (R := Stamp) ?_ _ r s' hrun
    qpres
  exact h.size

/-! ## the whole loop when no key is new -/

/-- no node and no expert record created -/
def Sz2 (s s' : State) : Prop := s'.nodes.size = s.nodes.size ∧ s'.experts.size = s.experts.size

instance : PreOrd Sz2 := ⟨fun _ => ⟨rfl, rfl⟩, fun h1 h2 => ⟨h2.1.trans h1.1, h2.2.trans h1.2⟩⟩

theorem forIn_mem {R : State → State → Prop} [PreOrd R] {α β} (l : List α) (init : β)
    (f : α → β → M (ForInStep β)) (hf : ∀ a, a ∈ l → ∀ b, Pres R (f a b)) :
    Pres R (forIn l init f) := by
  induction l generalizing init with
  | nil => rw [List.forIn_nil]; exact Pres.pure _
  | cons a l ih =>
    rw [List.forIn_cons]
    refine Pres.bind (hf a (List.mem_cons_self ..) init) fun r => ?_
    cases r with
    | done b => exact Pres.pure _
    | yield b => exact ih b fun a' ha' => hf a' (List.mem_cons_of_mem _ ha')

theorem step_not_right (env : Env) (fuel op : Nat) (sc : Scope)
    (kd : Int × IncrVerif.MapOps.DiffElement Int) (h : ∀ v, kd.2 ≠ .right v) :
    Pres Sz2 (perKeyStep env fuel op sc kd) := by
  obtain ⟨key, diff⟩ := kd
  cases diff with
  | unequal a b => exact (step_unequal env fuel op sc key a b).mono fun _ _ h => ⟨h.nodes, h.experts⟩
  | left a =>
    exact ⟨fun s r s' hrun =>
      have := step_left env fuel op sc key a s s' r hrun
      ⟨this.1, this.2.1⟩⟩
  | right a => exact absurd rfl (h a)

/-- if every key of the new map was already a key of the previous map, the driver creates no node and
no expert record (whether it returns or panics) -/
theorem driver_no_new_keys (env : Env) (fuel op : Nat) (newMap : List (Int × Int)) (s s' : State) (r)
    (hs : IncrVerif.AMap.Sorted (s.perkeys[op]?.getD default).prevMap)
    (hn : IncrVerif.AMap.Sorted newMap)
    (hkeys : ∀ k, IncrVerif.AMap.lookup (s.perkeys[op]?.getD default).prevMap k = none →
      IncrVerif.AMap.lookup newMap k = none)
    (hrun : (perKeyDriver env fuel op newMap).run.run s = (r, s')) :
    s'.nodes.size = s.nodes.size ∧ s'.experts.size = s.experts.size := by
  rw [perKeyDriver_eq_forIn] at hrun
  unfold perKeyDriver' at hrun
  rw [run_bind_get] at hrun
  dsimp only at hrun
  rw [run_bind_get] at hrun
  refine Pres.h (R := Sz2) ?_ s r s' hrun
  refine Pres.bind (forIn_mem _ _ _ fun kd hkd _ => ?_) fun _ => Pres.modify fun _ => ⟨rfl, rfl⟩
  refine Pres.bind (step_not_right env fuel op _ kd fun v hv => ?_) fun _ => Pres.pure _
  obtain ⟨key, diff⟩ := kd
  rcases (IncrVerif.Proofs.symmetricDiff_mem _ _ hs hn key diff).1 hkd with
    ⟨x, _, _, he⟩ | ⟨y, h1, h2, _⟩ | ⟨x, y, _, _, _, he⟩
  · rw [he] at hv; cases hv
  · rw [hkeys key h1] at h2; cases h2
  · rw [he] at hv; cases hv

end IncrVerif.Proofs.PKL
