import IncrVerif.Proofs.FaultH2
/-!
# Faults in whole histories, part 2: ticks and log entries in lockstep

In the fragment every invocation of a user closure (`tick`) is immediately followed by exactly one log entry (the `inv`
event of a node function or fold pass, the `notif` event of an update handler), and nothing else is logged.  `LockAt env P s
x`: if the fault-free run of `x` from `s` logs the events `evs` (oldest first), then the run with the fault armed at `k`
* returns the same result in the same state with the countdown decreased by `evs.length`, if `evs.length < eff k`;
* otherwise panics with `Panic.user`, the countdown consumed, at a state whose log holds exactly the first `eff k - 1`
  events of `evs`.
`eff k = max k 1`: `arm 0` fires at the first invocation, like `arm 1`.
-/
namespace IncrVerif.Proofs.FaultH
open IncrVerif.Engine IncrVerif.Proofs IncrVerif.Proofs.Step IncrVerif.Proofs.Sched

variable {env : Env}

/-- the invocation at which a fault armed with `k` fires -/
def eff (k : Nat) : Nat := max k 1

theorem eff_pos (k : Nat) : 1 ≤ eff k := by unfold eff; omega
theorem eff_sub {k c : Nat} (h : c < eff k) : eff (k - c) = eff k - c := by unfold eff at *; omega
theorem eff_of_pos {k : Nat} (h : 1 ≤ k) : eff k = k := by unfold eff; omega

structure Locked {α} (P : Event → Prop) (s : State) (x : M α) (r : Except Panic α) (s' : State) (evs : List Event) : Prop where
  all : ∀ e, e ∈ evs → P e
  log : s'.log = evs.reverse ++ s.log
  pass : ∀ k, evs.length < eff k → x.run.run (setCd (some k) s) = (r, setCd (some (k - evs.length)) s')
  fire : ∀ k, eff k ≤ evs.length → ∃ t, x.run.run (setCd (some k) s) = (.error (.site "user"), t) ∧
    t.panicCountdown = none ∧ t.log = (evs.take (eff k - 1)).reverse ++ s.log

def LockAt (env : Env) (P : Event → Prop) (s : State) {α} (x : M α) : Prop :=
  Fr env s → s.panicCountdown = none → ∀ (r : Except Panic α) s', x.run.run s = (r, s') →
    Fr env s' ∧ s'.panicCountdown = none ∧ ∃ evs, Locked P s x r s' evs

def Lock (env : Env) (P : Event → Prop) {α} (x : M α) : Prop := ∀ s, LockAt env P s x

section
variable {s : State} {α β : Type} {P : Event → Prop}

theorem Lock.at {x : M α} (h : Lock env P x) (s : State) : LockAt env P s x := h s

/-- a program that commutes with the countdown: no invocation, no log entry -/
theorem LockAt.of_comm {x : M α} (h : ∀ c, CommAt env c s x) : LockAt env P s x := by
  intro hn hp r s' hr
  obtain ⟨e0, n0, l0⟩ := h none hn r s' hr
  rw [setCd_self hp, hr] at e0
  have hp' : s'.panicCountdown = none := by
    have := congrArg (fun p => p.2.panicCountdown) e0
    exact this
  refine ⟨n0, hp', [], ⟨fun e he => (List.not_mem_nil he).elim, by simpa using l0, fun k _ => ?_, fun k hk => ?_⟩⟩
  · exact (h (some k) hn r s' hr).1
  · have := eff_pos k
    simp at hk; omega

theorem Lock.of_comm {x : M α} (h : Comm env x) : Lock env P x := fun s => LockAt.of_comm fun c => h c s

theorem LockAt.ret (a : α) : LockAt env P s (pure a : M α) := LockAt.of_comm fun _ => CommAt.ret a
theorem LockAt.thr (e : Panic) : LockAt env P s (throw e : M α) := LockAt.of_comm fun _ => CommAt.thr e
theorem LockAt.pan (e : String) : LockAt env P s (Engine.panic e : M α) := LockAt.thr _

theorem LockAt.seq {x : M α} {f : α → M β} (hx : LockAt env P s x)
    (hf : ∀ a s1, x.run.run s = (.ok a, s1) → LockAt env P s1 (f a)) :
    LockAt env P s (x >>= f) := by
  intro hn hp r s' h
  rcases h1 : x.run.run s with ⟨e | a, s1⟩
  · obtain ⟨n1, p1, evs, L⟩ := hx hn hp _ s1 h1
    rw [run_bind_err h1] at h; cases h
    refine ⟨n1, p1, evs, L.all, L.log, fun k hk => ?_, fun k hk => ?_⟩
    · exact run_bind_err (L.pass k hk)
    · obtain ⟨t, ht, h2, h3⟩ := L.fire k hk
      exact ⟨t, run_bind_err ht, h2, h3⟩
  · obtain ⟨n1, p1, evs1, L1⟩ := hx hn hp _ s1 h1
    rw [run_bind_ok h1] at h
    obtain ⟨n2, p2, evs2, L2⟩ := hf a s1 h1 n1 p1 r s' h
    refine ⟨n2, p2, evs1 ++ evs2, ?_, ?_, fun k hk => ?_, fun k hk => ?_⟩
    · intro e he; rcases List.mem_append.1 he with h | h
      · exact L1.all e h
      · exact L2.all e h
    · rw [L2.log, L1.log, List.reverse_append, List.append_assoc]
    · rw [List.length_append] at hk
      have hk1 : evs1.length < eff k := by omega
      rw [run_bind_ok (L1.pass k hk1), L2.pass (k - evs1.length) (by rw [eff_sub hk1]; omega),
        List.length_append, Nat.sub_sub]
    · rw [List.length_append] at hk
      by_cases hk1 : eff k ≤ evs1.length
      · obtain ⟨t, ht, h2, h3⟩ := L1.fire k hk1
        refine ⟨t, run_bind_err ht, h2, ?_⟩
        rw [h3, List.take_append_of_le_length (by have := eff_pos k; omega)]
      · have hk1 : evs1.length < eff k := by omega
        obtain ⟨t, ht, h2, h3⟩ := L2.fire (k - evs1.length) (by rw [eff_sub hk1]; omega)
        refine ⟨t, ?_, h2, ?_⟩
        · rw [run_bind_ok (L1.pass k hk1)]; exact ht
        · rw [h3, L1.log, eff_sub hk1]
          have e : eff k - 1 = evs1.length + (eff k - evs1.length - 1) := by omega
          rw [e, List.take_length_add_append, List.reverse_append, List.append_assoc]

/-- one invocation and its log entry -/
theorem LockAt.tickLog (e : Event) (he : P e) : LockAt env P s (tick >>= fun _ => logEv e) := by
  intro hn hp r s' h
  rw [run_bind_tick_none _ _ hp, run_logEv] at h
  cases h
  refine ⟨hn.of_nodes rfl rfl, hp, [e], fun x hx => by rw [List.mem_singleton.1 hx]; exact he, rfl, fun k hk => ?_, fun k hk => ?_⟩
  · have hk2 : ¬ k ≤ 1 := by unfold eff at hk; simp at hk; omega
    simp only [tick, run_bind, run_get, hk2, if_false, run_modify, run_logEv, List.length_cons, List.length_nil]
  · have hk2 : k ≤ 1 := by unfold eff at hk; simp at hk; omega
    refine ⟨setCd none s, ?_, rfl, ?_⟩
    · simp only [tick, run_bind, run_get, hk2, if_true, run_modify]
      rfl
    · have : eff k - 1 = 0 := by unfold eff; omega
      rw [this]; rfl

theorem LockAt.tick_log_seq {e : Event} {k : Unit → M β} (he : P e)
    (hk : LockAt env P { s with log := e :: s.log } (k ())) :
    LockAt env P s (tick >>= fun _ => logEv e >>= k) := by
  have : (tick >>= fun _ => logEv e >>= k) = ((tick >>= fun _ => logEv e) >>= k) := by
    rw [bind_assoc]
  rw [this]
  intro hn hp
  refine LockAt.seq (LockAt.tickLog e he) (fun a s1 h1 => ?_) hn hp
  rw [run_bind_tick_none _ _ hp, run_logEv] at h1
  cases h1
  exact hk

theorem LockAt.get_seq {k : State → M β} (hk : ∀ c, k (setCd c s) = k s) (h : LockAt env P s (k s)) :
    LockAt env P s (get >>= k) := by
  intro hn hp r s' hr
  rw [run_bind_get] at hr
  obtain ⟨n1, p1, evs, L⟩ := h hn hp r s' hr
  refine ⟨n1, p1, evs, L.all, L.log, fun j hj => ?_, fun j hj => ?_⟩
  · rw [run_bind_get, hk]; exact L.pass j hj
  · obtain ⟨t, ht, h2, h3⟩ := L.fire j hj
    exact ⟨t, by rw [run_bind_get, hk]; exact ht, h2, h3⟩

theorem Fr.someK {s : State} (h : Fr env s) {n : Nat} {nd : Node} (hn : s.nodes[n]? = Option.some nd) :
    StaticKind env nd.kind := by
  have := h.kind n; rw [nodeD_of_some hn] at this; exact this

theorem LockAt.getNode_seq {n : Nat} {k : Node → M β}
    (h : ∀ nd, s.nodes[n]? = some nd → StaticKind env nd.kind → nd.valid = true → LockAt env P s (k nd)) :
    LockAt env P s (getNode n >>= k) := by
  intro hn hp r s' hr
  cases hnd : s.nodes[n]? with
  | none =>
    exact LockAt.seq (LockAt.of_comm fun c => by
      intro _ r s' h; rw [run_getNode_none hnd] at h; cases h
      exact ⟨run_getNode_none (s := setCd c s) hnd, hn, rfl⟩) (fun a s1 h1 => by
        rw [run_getNode_none hnd] at h1; cases h1) hn hp r s' hr
  | some nd =>
    obtain ⟨n1, p1, evs, L⟩ := h nd hnd (hn.someK hnd) (hn.some hnd).2.2.1 hn hp r s'
      (by rw [run_bind_ok (run_getNode_some hnd)] at hr; exact hr)
    refine ⟨n1, p1, evs, L.all, L.log, fun j hj => ?_, fun j hj => ?_⟩
    · rw [run_bind_ok (run_getNode_some (s := setCd (some j) s) hnd)]; exact L.pass j hj
    · obtain ⟨t, ht, h2, h3⟩ := L.fire j hj
      exact ⟨t, by rw [run_bind_ok (run_getNode_some (s := setCd (some j) s) hnd)]; exact ht, h2, h3⟩

theorem LockAt.cond {p : Prop} {_ : Decidable p} {a b : M α}
    (ha : p → LockAt env P s a) (hb : ¬ p → LockAt env P s b) :
    LockAt env P s (if p then a else b) := by
  by_cases h : p
  · rw [if_pos h]; exact ha h
  · rw [if_neg h]; exact hb h

theorem Lock.forIn {γ : Type} (l : List γ) {f : γ → β → M (ForInStep β)} (h : ∀ a b, Lock env P (f a b))
    (b : β) : Lock env P (ForIn.forIn l b f) := by
  induction l generalizing b with
  | nil => intro s; rw [List.forIn_nil]; exact LockAt.ret _
  | cons a l ih =>
    intro s
    rw [List.forIn_cons]
    refine LockAt.seq (h a b s) fun r s1 _ => ?_
    cases r with
    | done b' => exact LockAt.ret _
    | yield b' => exact ih b' s1

theorem LockAt.map {x : M α} (f : α → β) (hx : LockAt env P s x) : LockAt env P s (f <$> x) := by
  rw [map_eq_pure_bind]
  exact LockAt.seq hx fun _ _ _ => LockAt.ret _

end

/-! ## the tactic -/

syntax "lsim_leaf" : tactic
macro_rules | `(tactic| lsim_leaf) => `(tactic| fail "no leaf")

set_option hygiene false in
macro "lsim_step" : tactic => `(tactic| first
  | with_reducible exact LockAt.ret _
  | with_reducible exact LockAt.thr _
  | with_reducible exact LockAt.pan _
  | ((with_reducible refine LockAt.get_seq (fun _ => rfl) ?_); try dsimp only)
  | ((with_reducible refine LockAt.getNode_seq fun nd hnd hsk hval => ?_); try dsimp only)
  | ((with_reducible refine LockAt.tick_log_seq ?_ ?_); (first | exact ⟨_, _, _, _, rfl⟩ | exact ⟨_, _, rfl⟩ | skip))
  | ((with_reducible refine LockAt.tickLog _ ?_); (first | exact ⟨_, _, _, _, rfl⟩ | exact ⟨_, _, rfl⟩ | skip))
  | ((with_reducible refine Lock.at ?_ _); lsim_leaf)
  | ((with_reducible refine LockAt.of_comm fun c => Comm.at ?_ c _); csim_leaf)
  | ((with_reducible refine LockAt.of_comm fun c => ?_); (with_reducible refine CommAt.mod ?_ ?_ ?_ ?_) <;> rfl)
  | ((with_reducible refine Lock.at (Lock.forIn _ (fun _ _ => ?_) _) _); intro _)
  | (with_reducible refine LockAt.seq ?_ fun _ _ _ => ?_)
  | (refine LockAt.cond (fun _ => ?_) (fun _ => ?_)))

macro "lsim" : tactic => `(tactic| repeat (any_goals lsim_step))

end IncrVerif.Proofs.FaultH
