import IncrVerif.Proofs.NecRel6
/-!
# NecRel7 — debug-mode preservation of `NecWF` by the driver's step function, and its release form

`stepAction_np`: for every action of a history, the debug-mode step keeps `NecV` (hence `NecWF`); obtained
from the specifications of `Proofs/Necessity.lean` (plus a frame lemma for `setMaxHeightAllowed`, which does not
touch what the invariant reads).  `stepAction_release_necwf` combines it with `sim_stepAction`.
-/
namespace IncrVerif.Proofs.Nec
open IncrVerif.Engine IncrVerif.Proofs Std.Do

@[spec 100000] theorem setMaxHeightAllowed_v (v : View) (k : Nat) : VF v (setMaxHeightAllowed k) := by
  nv_mvcgen [setMaxHeightAllowed]
  vf_fin

theorem stepAction_np (v : View) (env : Env) (a : Action) (tokens : Array Nat) :
    NP v (stepAction env a tokens) := by
  cases a
  all_goals
    nv_mvcgen [stepAction, Functor.discard]
    all_goals vsimp
    nv_fin

/-- debug mode: every action of the driver keeps the invariant (normal outcome) -/
theorem stepAction_ok (env : Env) (a : Action) (tokens : Array Nat) (s s' : State) (r : String × Array Nat)
    (hN : NecWF s) (hd : s.cfg.debug = true) (hr : (stepAction env a tokens).run.run s = (.ok r, s')) :
    NecWF s' ∧ s'.cfg.debug = true :=
  NP.run (fun v => stepAction_np v env a tokens) s s' r hN hd hr

end IncrVerif.Proofs.Nec

namespace IncrVerif.Proofs.NecRel
open IncrVerif.Engine IncrVerif.Proofs IncrVerif.Proofs.Nec

/-- release mode: every action of the driver whose debug twin returns normally returns the same result and
keeps the invariant -/
theorem stepAction_release_necwf (env : Env) (a : Action) (tokens : Array Nat) (s : State) (hrel : Release s)
    (hN : NecWF s) (cr : Option Nat) (r : String × Array Nat) (sd' : State)
    (hdbg : (stepAction env a tokens).run.run (debugTwin s cr) = (.ok r, sd')) :
    (stepAction env a tokens).run.run s = (.ok r, erase sd') ∧ NecWF (erase sd') ∧ Release (erase sd') :=
  Sim.release (sim_stepAction env a tokens) (fun s s' r => stepAction_ok env a tokens s s' r)
    s hrel hN cr r sd' hdbg

end IncrVerif.Proofs.NecRel
