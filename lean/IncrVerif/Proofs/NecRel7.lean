import IncrVerif.Proofs.NecRel6
/-!
# NecRel7 — debug-mode preservation of `NecWF` by the driver's step function, and its release form

`stepAction_np`: for every action of a history, the debug-mode step keeps `NecV` (hence `NecWF`); obtained
from the specifications of `Proofs/Necessity.lean` (plus a frame lemma for `setMaxHeightAllowed`, which does not
touch what the invariant reads).  `stepAction_release_necwf` combines it with `sim_stepAction`.
-/
namespace IncrVerif.Proofs.Nec
open IncrVerif.Engine IncrVerif.Proofs Std.Do

@[spec 100000] theorem setMaxHeightAllowed_v (v : View) (k : Nat) : VF v (setMaxHeightAllowed k) := by
  nv_mvcgen [setMaxHeightAllowed]
  vf_fin

theorem stepAction_np (v : View) (env : Env) (a : Action) (tokens : Array Nat) :
    NP v (stepAction env a tokens) := by
  cases a
  all_goals
    nv_mvcgen [stepAction, Functor.discard]
    all_goals vsimp
    nv_fin

/-- debug mode: every action of the driver keeps the invariant (normal outcome) -/
theorem stepAction_ok (env : Env) (a : Action) (tokens : Array Nat) (s s' : State) (r : String × Array Nat)
    (hN : NecWF s) (hd : s.cfg.debug = true) (hr : (stepAction env a tokens).run.run s = (.ok r, s')) :
    NecWF s' ∧ s'.cfg.debug = true :=
  NP.run (fun v => stepAction_np v env a tokens) s s' r hN hd hr

/-- a sequence of driver actions, each returning normally (the token table is threaded as the driver does) -/
def runActs (env : Env) : List Action → Array Nat → M (Array Nat)
  | [], t => pure t
  | a :: as, t => do
    let r ← stepAction env a t
    runActs env as r.2

theorem runActs_ok (env : Env) (as : List Action) (t : Array Nat) (s s' : State) (r : Array Nat)
    (hN : NecWF s) (hd : s.cfg.debug = true) (hr : (runActs env as t).run.run s = (.ok r, s')) :
    NecWF s' ∧ s'.cfg.debug = true := by
  induction as generalizing t s with
  | nil =>
    simp only [runActs] at hr
    rw [run_pure] at hr
    cases hr
    exact ⟨hN, hd⟩
  | cons a as ih =>
    simp only [runActs] at hr
    rw [run_bind] at hr
    rcases h1 : (stepAction env a t).run.run s with ⟨r1, s1⟩
    rw [h1] at hr
    cases r1 with
    | error e => cases hr
    | ok p =>
      obtain ⟨g1, g2⟩ := stepAction_ok env a t s s1 p hN hd h1
      exact ih _ _ g1 g2 hr

end IncrVerif.Proofs.Nec

namespace IncrVerif.Proofs.NecRel
open IncrVerif.Engine IncrVerif.Proofs IncrVerif.Proofs.Nec

/-- release mode: every action of the driver whose debug twin returns normally returns the same result and
keeps the invariant -/
theorem stepAction_release_necwf (env : Env) (a : Action) (tokens : Array Nat) (s : State) (hrel : Release s)
    (hN : NecWF s) (cr : Option Nat) (r : String × Array Nat) (sd' : State)
    (hdbg : (stepAction env a tokens).run.run (debugTwin s cr) = (.ok r, sd')) :
    (stepAction env a tokens).run.run s = (.ok r, erase sd') ∧ NecWF (erase sd') ∧ Release (erase sd') :=
  Sim.release (sim_stepAction env a tokens) (fun s s' r => stepAction_ok env a tokens s s' r)
    s hrel hN cr r sd' hdbg

theorem sim_runActs (env : Env) (as : List Action) (t : Array Nat) : Sim (runActs env as t) := by
  induction as generalizing t with
  | nil => unfold runActs; sim
  | cons a as ih =>
    unfold runActs
    exact Sim.bind (sim_stepAction env a t) (fun r => ih r.2)

/-- **histories**: if the debug build runs a sequence of actions from the initial state with every action
returning normally, the release build does too, with the same token table, ends in the erasure of the debug
build's final state, and that state satisfies the invariant -/
theorem runActs_release (env : Env) (N : Nat) (as : List Action) (r : Array Nat) (sd' : State)
    (hdbg : (runActs env as #[]).run.run (State.init N true) = (.ok r, sd')) :
    (runActs env as #[]).run.run (State.init N false) = (.ok r, erase sd') ∧ NecWF (erase sd') ∧
      Release (erase sd') :=
  Sim.release (sim_runActs env as #[]) (fun s s' r => runActs_ok env as #[] s s' r)
    (State.init N false) (release_init N) (necwf_init N false) none r sd' hdbg

end IncrVerif.Proofs.NecRel
