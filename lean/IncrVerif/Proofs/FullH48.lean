import IncrVerif.Proofs.FullH47
/-!
# C01 full fragment: what observers read after a `stabilise`
-/
namespace IncrVerif.Proofs.FullH
open IncrVerif.Engine IncrVerif.Driver IncrVerif.Proofs IncrVerif.Proofs.Step IncrVerif.Proofs.Sched IncrVerif.Proofs.Quiet
open IncrVerif.Proofs.BindH (DInv BGraph ConsistentB Edge Below)
open IncrVerif.Proofs.NestH (GenOK2 F2Inv QG2 QI2 QInv2 den2)

section
variable {env : Env} {sp : Nat → Val → Val}

/-- below a necessary node everything is necessary -/
theorem below_nec {env' : Env} {s : State} (gr : BGraph env' s) {a d : Nat} (h : Below s a d) (ha : s.isNecessary a = true) :
    s.isNecessary d = true := by
  induction h with
  | refl a => exact ha
  | step he _ ih =>
    apply ih
    cases he with
    | child hc =>
      obtain ⟨i, hi⟩ := List.getElem?_of_mem hc
      exact (gr.child _ ha i _ hi).1
    | @scope b br hv hsc hb =>
      have hlt := BindH.BS.nec_lt ha
      obtain ⟨br', hb', -, -, h4⟩ := gr.scope _ b hlt hv hsc
      rw [hb] at hb'; cases hb'
      exact (h4 ha).1

/-- **after a `stabilise` every in-use observer reads `den2` of its node in the virtual state** -/
theorem stabF_reads {s s' : State} {g' : Nat → Option Val} (R : StabF env sp s s' g') :
    ∀ (o : Nat) (ob : ObsRec), s'.observers[o]? = some ob → ob.state = .inUse →
      ∃ v, s'.tryGetValue env o = .ok v ∧ ∃ K, ∀ k, K ≤ k → den2 (VE env sp) (virt g' s') k ob.node = some v := by
  obtain ⟨⟨rk', Q'⟩, G'⟩ := R.inv.q
  have gr := Q'.bgraph
  have O' : ObsInv (virt g' s') [] [] := by
    have := Q'.obs
    unfold ObsOK at this
    have e1 : (virt g' s').newObservers = [] := R.newObservers
    have e2 : (virt g' s').disallowedObservers = [] := R.disallowedObservers
    rw [e1, e2] at this
    exact this
  have hall : ∀ m, (virt g' s').isNecessary m = true → (virt g' s').isStale m = false ∧ ConsistentB (VE env sp) (virt g' s') m := by
    intro m hm
    have hm' : s'.isNecessary m = true := by rw [← virt_isNecessary g' s']; exact hm
    obtain ⟨k1, k2⟩ := R.fresh m hm'
    have k2' : (virt g' s').isStale m = false := by rw [virt_isStale]; exact k2
    exact ⟨k2', Q'.cons m (gr.nec_lt hm) (by rw [virt_nodeD, virtNode_valid]; exact k1) k2'⟩
  intro o ob ho hst
  have hov : (virt g' s').observers[o]? = some ob := ho
  have hmem : o ∈ ((virt g' s').nodeD ob.node).observers := (O'.mem ob.node o).2 ⟨ob, hov, rfl, Or.inl hst⟩
  have hn : (virt g' s').isNecessary ob.node = true := by
    rw [isNecessary_iff]; right; left; exact List.ne_nil_of_mem hmem
  have hn' : s'.isNecessary ob.node = true := by rw [← virt_isNecessary g' s']; exact hn
  obtain ⟨K, w, hw, hden⟩ := NestH.den2_of_consistent gr Q'.f2 G' hall ob.node hn (Q'.obsTop o ob hov).1
  -- what the actual observer reads is what the virtual node stores
  have hset : tv g' s' ob.node = s'.value env ob.node := by
    refine settled R.inv.frag gr (fun m hm hv hs => Q'.cons m hm hv hs) ob.node hn' (fun e he => ?_)
    have := below_nec gr he hn
    rw [virt_isNecessary] at this
    exact (R.fresh e this).2
  refine ⟨w, ?_, K, hden⟩
  have hal : s'.alive = true := Q'.alive
  have hstat : s'.status = .notStabilising := Q'.status
  unfold State.tryGetValue
  rw [hal, hstat, ho]
  simp only [Bool.not_true, Bool.false_eq_true, if_false, hst]
  rw [← hset]
  show (match ((virt g' s').nodeD ob.node).value with | some v => Except.ok v | none => _) = _
  rw [hw]

end
end IncrVerif.Proofs.FullH
