import IncrVerif.Proofs.NestH111
import IncrVerif.Proofs.NestH64
/-!
# Total correctness for nested binds (F2), API actions other than `stabilise`, part 3: every such action returns (`step_total2`); histories without `stabilise`

Port of the non-`stabilise` part of `Quiet28` (`step_total`, `ActionOKc`, `ValidHist`, `runActions_total`).

* `ActionIn2 s a`: the indices named by the action exist (no room condition).
* `step_total2s` (sharp room: `s.nodes.size + (grow2 a).1 ≤ N`), `step_total2` (headline, `ActionOK2 N s a`: room for two nodes before a `create`),
  `step_totIf2` (`TotIf` form: IF the state the action ends in has at most `N` nodes THEN it returned).
* `ActionOKc2`, `ValidHist2` in terms of the numbers of naming-table entries / nodes / var cells / observers (`TInv.topSize` is gone: the naming table is
  counted separately), `runActions_total2` for histories WITHOUT `stabilise` (the segments between two `stabilise`s).
-/
namespace IncrVerif.Proofs.NestH
open IncrVerif.Engine IncrVerif.Driver IncrVerif.Proofs IncrVerif.Proofs.Step IncrVerif.Proofs.Sched IncrVerif.Proofs.Quiet
open IncrVerif.Proofs.BindH

/-- the action names existing things -/
def ActionIn2 (s : State) : Action → Prop
  | .create i => InstrIn2 s i
  | .observe n => OpndIn s n
  | .dropObs o | .disallow o => o < s.observers.size
  | .set v _ | .modify v _ | .update v _ | .replace v _ | .replaceWith v _ | .get v => v < s.vars.size
  | _ => True

theorem ActionOK2.in2 {N : Nat} {s : State} {a : Action} (h : ActionOK2 N s a) : ActionIn2 s a := by
  cases a <;> first | exact h | exact h.1 | trivial

theorem ActionOK2.room {N : Nat} {s : State} {a : Action} (T : s.nodes.size ≤ N) (h : ActionOK2 N s a) :
    s.nodes.size + (grow2 a).1 ≤ N := by
  have hg := (grow2_le a).1
  by_cases hc : ∃ i, a = .create i
  · obtain ⟨i, rfl⟩ := hc
    have := h.2
    omega
  · have h0 : (grow2 a).1 = 0 := by
      cases a <;> first | rfl | exact (hc ⟨_, rfl⟩).elim
    omega

namespace T2k

/-- the actions of F2 other than `create` and `stabilise` are the simple actions of the static fragment -/
theorem simple_of_F2 {env : Env} {T : Nat} {a : Action} (ha : ActionF2 env T a) (hc : ∀ i, a ≠ .create i) (hns : a ≠ .stabilise) :
    SimpleAction a := by
  cases a <;> first | exact ha | exact (hc _ rfl).elim | exact (hns rfl).elim

theorem actionOK_of_in2 {N : Nat} {s : State} {a : Action} (h : ActionIn2 s a) (hc : ∀ i, a ≠ .create i) (hns : a ≠ .stabilise) :
    ActionOK N s a := by
  cases a <;> first | exact h | exact (hc _ rfl).elim | exact (hns rfl).elim

/-- the simple actions keep `QInv2` under the same rank -/
theorem simple_q2 {env : Env} {rk : Nat → Nat} {s s' : State} {a : Action} {tk : Array Nat} {r : String × Array Nat}
    (Q : QInv2 env rk s) (ha : SimpleAction a) (h : (stepAction env a tk).run.run s = (.ok r, s')) : QInv2 env rk s' := by
  cases a <;> try exact ha.elim
  case observe n =>
    cases n <;> try exact ha.elim
    exact step_observe2 Q h
  case cloneObs o => exact step_cloneObs2 Q h
  case dropObs o => exact step_dropObs2 Q h
  case disallow o => exact step_disallow2 Q h
  case set v x => exact step_write2 (a := .set v x) Q trivial h
  case modify v d => exact step_write2 (a := .modify v d) Q trivial h
  case update v d => exact step_write2 (a := .update v d) Q trivial h
  case replace v x => exact step_write2 (a := .replace v x) Q trivial h
  case replaceWith v d => exact step_write2 (a := .replaceWith v d) Q trivial h
  case get v => exact step_write2 (a := .get v) Q trivial h
  case isStable => exact step_write2 (a := .isStable) Q trivial h
  case stats => exact step_write2 (a := .stats) Q trivial h

end T2k

/-- **every API action other than `stabilise` returns** (sharp room condition).  The invariants hold under a rank `rk'` that agrees with `rk` on the old
nodes (`rk' = rk` unless the action is a `create`); the exact sizes. -/
theorem step_total2s {env : Env} {rk : Nat → Nat} {N : Nat} {s : State} {a : Action} {tk : Array Nat}
    (Q : QInv2 env rk s) (T : TInv2 rk N s) (ha : ActionF2 env s.top.size a) (hin : ActionIn2 s a)
    (hroom : s.nodes.size + (grow2 a).1 ≤ N) (hns : a ≠ .stabilise) :
    ∃ r s' rk', (stepAction env a tk).run.run s = (.ok r, s') ∧ r.2 = tk ∧ QInv2 env rk' s' ∧ TInv2 rk' N s' ∧
      Grown2 a s s' ∧ (∀ x, x < s.nodes.size → rk' x = rk x) := by
  by_cases hc : ∃ i, a = .create i
  · obtain ⟨i, rfl⟩ := hc
    obtain ⟨r, s', rk', h, hr, U, Q', T', G, -⟩ := create_total2 (tk := tk) Q T ha hin hroom
    exact ⟨r, s', rk', h, hr, Q', T', G, U.old⟩
  · have hc' : ∀ i, a ≠ .create i := fun i e => hc ⟨i, e⟩
    have hs := T2k.simple_of_F2 ha hc' hns
    obtain ⟨r, s', h, hr, T', G⟩ := simple_total2 (env := env) (tk := tk) Q T hs (T2k.actionOK_of_in2 (N := N) hin hc' hns)
    exact ⟨r, s', rk, h, hr, T2k.simple_q2 Q hs h, T', G, fun _ _ => rfl⟩

/-- **G3 for F2, total (all actions but `stabilise`).**  Every API action of fragment F2 other than `stabilise` whose indices exist returns when there is
room for two nodes before a `create`; the invariants are kept (under an extended rank); nodes grow by `≤ 2`, var cells by `≤ 1`, observers by `≤ 1`,
the naming table by `≤ 1` (exactly `grow2 a`, `growTop a`). -/
theorem step_total2 {env : Env} {rk : Nat → Nat} {N : Nat} {s : State} {a : Action} {tk : Array Nat}
    (Q : QInv2 env rk s) (T : TInv2 rk N s) (ha : ActionF2 env s.top.size a) (hok : ActionOK2 N s a) (hns : a ≠ .stabilise) :
    ∃ r s' rk', (stepAction env a tk).run.run s = (.ok r, s') ∧ r.2 = tk ∧ QInv2 env rk' s' ∧ TInv2 rk' N s' ∧
      Grown2 a s s' ∧ (∀ x, x < s.nodes.size → rk' x = rk x) :=
  step_total2s Q T ha hok.in2 (hok.room T.room.size) hns

/-- the bounds of the headline, spelled out -/
theorem Grown2.le {a : Action} {s s' : State} (G : Grown2 a s s') :
    s.nodes.size ≤ s'.nodes.size ∧ s'.nodes.size ≤ s.nodes.size + 2 ∧ s.vars.size ≤ s'.vars.size ∧ s'.vars.size ≤ s.vars.size + 1 ∧
      s.observers.size ≤ s'.observers.size ∧ s'.observers.size ≤ s.observers.size + 1 ∧
      s.top.size ≤ s'.top.size ∧ s'.top.size ≤ s.top.size + 1 := by
  obtain ⟨g1, g2, g3, g4⟩ := G
  obtain ⟨l1, l2, l3⟩ := grow2_le a
  have l4 : growTop a ≤ 1 := by unfold growTop; split <;> omega
  omega

/-- **`TotIf` form** (for the runs that are bounded by the number of nodes they END with): IF the state the action ends in, whatever the outcome, has at
most `N` nodes, THEN the action returned and the invariants hold. -/
theorem step_totIf2 {env : Env} {rk : Nat → Nat} {N : Nat} {s : State} {a : Action} {tk : Array Nat}
    (Q : QInv2 env rk s) (T : TInv2 rk N s) (ha : ActionF2 env s.top.size a) (hin : ActionIn2 s a) (hns : a ≠ .stabilise) :
    TotIf (stepAction env a tk) s (ResOK N) (fun r s' => r.2 = tk ∧ ∃ rk', QInv2 env rk' s' ∧ TInv2 rk' N s' ∧
      Grown2 a s s' ∧ (∀ x, x < s.nodes.size → rk' x = rk x)) := by
  intro r s' hrun hB
  -- the action returns whatever the room is: take `N' = ` the number of nodes after it
  have hret : ∃ r0 s0, (stepAction env a tk).run.run s = (.ok r0, s0) ∧ Grown2 a s s0 := by
    by_cases hc : ∃ i, a = .create i
    · obtain ⟨i, rfl⟩ := hc
      obtain ⟨r0, s0, -, h, -, -, -, G, -⟩ := create_run2 (tk := tk) Q ha hin
      exact ⟨r0, s0, h, G⟩
    · have hc' : ∀ i, a ≠ .create i := fun i e => hc ⟨i, e⟩
      obtain ⟨r0, s0, h, -, -, G⟩ := simple_total2 (env := env) (tk := tk) Q T (T2k.simple_of_F2 ha hc' hns)
        (T2k.actionOK_of_in2 (N := N) hin hc' hns)
      exact ⟨r0, s0, h, G⟩
  obtain ⟨r0, s0, h0, G0⟩ := hret
  rw [h0] at hrun
  have e1 : r = .ok r0 := (Prod.mk.inj hrun).1.symm
  have e2 : s' = s0 := (Prod.mk.inj hrun).2.symm
  rw [e2] at hB ⊢
  rw [e1]
  have hroom : s.nodes.size + (grow2 a).1 ≤ N := by
    have : s0.nodes.size ≤ N := hB
    rw [G0.1] at this; exact this
  obtain ⟨r1, s1, rk', h1, hr, Q', T', G, hrk⟩ := step_total2s (tk := tk) Q T ha hin hroom hns
  rw [h0] at h1
  have e3 : r0 = r1 := Except.ok.inj (Prod.mk.inj h1).1
  have e4 : s0 = s1 := (Prod.mk.inj h1).2
  rw [e3, e4]
  exact ⟨r1, rfl, hr, rk', Q', T', G, hrk⟩

/-! ## histories without `stabilise` -/

/-- `ActionOK2` in terms of the numbers of naming-table entries, nodes, var cells and observers -/
def ActionOKc2 (N nt nn nv no : Nat) : Action → Prop
  | .create i =>
    (match i with
      | .map _ args => ∀ a, a ∈ args → ∃ k, a = Opnd.outer k ∧ k < nt
      | .fold _ _ cs => ∀ a, a ∈ cs → ∃ k, a = Opnd.outer k ∧ k < nt
      | .zip a b => (∃ k, a = Opnd.outer k ∧ k < nt) ∧ (∃ k, b = Opnd.outer k ∧ k < nt)
      | .bind _ lhs => ∃ k, lhs = Opnd.outer k ∧ k < nt
      | _ => True) ∧ nn + 2 ≤ N
  | .observe n => ∃ k, n = Opnd.outer k ∧ k < nt
  | .dropObs o | .disallow o => o < no
  | .set v _ | .modify v _ | .update v _ | .replace v _ | .replaceWith v _ | .get v => v < nv
  | _ => True

namespace T2k

theorem opndIn_of2 {s : State} {a : Opnd} {nt : Nat} (ht : s.top.size = nt)
    (h : ∃ k, a = Opnd.outer k ∧ k < nt) : OpndIn s a := by
  obtain ⟨k, rfl, hk⟩ := h
  show k < s.top.size
  omega

end T2k

theorem actionOK2_of {N : Nat} {s : State} {a : Action}
    (h : ActionOKc2 N s.top.size s.nodes.size s.vars.size s.observers.size a) : ActionOK2 N s a := by
  cases a <;> try exact h
  case create i =>
    obtain ⟨h1, h2⟩ := h
    refine ⟨?_, h2⟩
    cases i <;> try trivial
    case map f args => exact fun a ha => T2k.opndIn_of2 rfl (h1 a ha)
    case fold f init cs => exact fun a ha => T2k.opndIn_of2 rfl (h1 a ha)
    case zip a b => exact ⟨T2k.opndIn_of2 rfl h1.1, T2k.opndIn_of2 rfl h1.2⟩
    case bind body lhs => exact T2k.opndIn_of2 rfl h1
  case observe n => exact T2k.opndIn_of2 rfl h

/-- a history without `stabilise` whose actions name existing things and which never exceeds `N` nodes;
`nt`, `nn`, `nv`, `no` = numbers of naming-table entries, nodes, var cells, observers before the history -/
def ValidHist2 (N : Nat) : Nat → Nat → Nat → Nat → List Action → Prop
  | _, _, _, _, [] => True
  | nt, nn, nv, no, a :: as =>
    a ≠ .stabilise ∧ ActionOKc2 N nt nn nv no a ∧
      ValidHist2 N (nt + growTop a) (nn + (grow2 a).1) (nv + (grow2 a).2.1) (no + (grow2 a).2.2) as

theorem histF2_top {env : Env} {T : Nat} {a : Action} {as : List Action}
    (h : HistF2 env (match a with | .create _ => T + 1 | _ => T) as) : HistF2 env (T + growTop a) as := by
  cases a <;> exact h

/-- **C04 for F2, segments without `stabilise`.** A valid history of actions of F2 without `stabilise` runs without panic from any state satisfying the
invariants; the final state satisfies them (under a rank that agrees with the old one on the old nodes), and its sizes are the predicted ones. -/
theorem runActions_total2 {env : Env} {N : Nat} {acts : List Action} {rk : Nat → Nat} {s : State} {tk : Array Nat}
    (Q : QInv2 env rk s) (T : TInv2 rk N s) (ha : HistF2 env s.top.size acts)
    (hv : ValidHist2 N s.top.size s.nodes.size s.vars.size s.observers.size acts) :
    ∃ s' rk', Quiet.runActions env acts s tk = .ok (s', tk) ∧ QInv2 env rk' s' ∧ TInv2 rk' N s' ∧
      (∀ x, x < s.nodes.size → rk' x = rk x) ∧ s.nodes.size ≤ s'.nodes.size := by
  induction acts generalizing s rk with
  | nil => exact ⟨s, rk, rfl, Q, T, fun _ _ => rfl, Nat.le_refl _⟩
  | cons a as ih =>
    obtain ⟨hns, hok, hrest⟩ := hv
    obtain ⟨haF, hH⟩ := ha
    obtain ⟨r, s1, rk1, h1, htk, Q1, T1, hg, hrk1⟩ := step_total2 (tk := tk) Q T haF (actionOK2_of hok) hns
    obtain ⟨g1, g2, g3, g4⟩ := hg
    have hH' := histF2_top hH
    rw [← g1, ← g2, ← g3, ← g4] at hrest
    rw [← g4] at hH'
    obtain ⟨s', rk', h2, Q', T', hrk', hsz⟩ := ih Q1 T1 hH' hrest
    refine ⟨s', rk', ?_, Q', T', ?_, by omega⟩
    · simp only [Quiet.runActions]
      rw [h1]
      simp only [htk]
      exact h2
    · intro x hx
      rw [hrk' x (by omega), hrk1 x hx]

end IncrVerif.Proofs.NestH
