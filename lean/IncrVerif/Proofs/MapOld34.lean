import IncrVerif.Proofs.MapOld31
import IncrVerif.Proofs.MapOld33
/-!
# C17 for whole histories: at every operator step of a reachable drain state the user function is called only for keys
that differ between the input the operator LAST RAN ON and the current input
-/
namespace IncrVerif.Proofs.MapOldH
open IncrVerif IncrVerif.Engine IncrVerif.Driver IncrVerif.MapOps IncrVerif.Proofs IncrVerif.Proofs.Step IncrVerif.Proofs.Sched IncrVerif.Proofs.Quiet

variable {d : Defs} {fuel n g i m : Nat} {s s' : State} {r : Option Nat}

/-- the common shape: a step of an operator node that has run before -/
theorem operator_step_rerun (D : DInvW d.toEnv Canon (machSpec d) s (some n))
    (hk : (s.nodeD n).kind = .mapWithOld g i) (hg : opBase ≤ g) (hran : (s.nodeD n).value ≠ none)
    (h : (recomputeOne d.toEnv fuel n).run.run s = (.ok r, s')) :
    ∃ x x0 tail, (s.nodeD i).value = some x ∧ Canon x ∧ (s.nodeD n).oldState = x0 ∧ Canon x0 ∧
      (s.nodeD n).value = some (opSpec d g x0) ∧
      s'.log = tail ++ callEvents n (opCalls d g x0 (some (opSpec d g x0)) x) ++ s.log ∧ (∀ e, e ∈ tail → Noise e) := by
  obtain ⟨x, tail, hx, hC, hlog, hnoise, hst⟩ := operator_step_calls D hk hg h
  rcases hst with ⟨-, hnone⟩ | ⟨hC0, hval⟩
  · exact absurd hnone hran
  · refine ⟨x, _, tail, hx, hC, rfl, hC0, hval, ?_, hnoise⟩
    rw [hlog, hval]

/-- **C17, `incr_filter_mapi`, engine level.** When a filter-map node that has run before is recomputed (in any state of
a drain of a history of the fragment), the events it logs are exactly one `M{m}.fn` call for every binding `k ↦ v` of the
CURRENT input that the input it LAST RAN ON (its closure state `x0`) did not hold — never for removed or untouched keys —
followed by notification noise only. -/
theorem fm_step_calls (D : DInvW d.toEnv Canon (machSpec d) s (some n))
    (hk : (s.nodeD n).kind = .mapWithOld g i) (hg : opBase ≤ g) (hd : decodeOp g = (.fm, m))
    (hran : (s.nodeD n).value ≠ none) (h : (recomputeOne d.toEnv fuel n).run.run s = (.ok r, s')) :
    ∃ x x0 tail calls, (s.nodeD i).value = some x ∧ (s.nodeD n).oldState = x0 ∧
      s'.log = tail ++ callEvents n calls ++ s.log ∧ (∀ e, e ∈ tail → Noise e) ∧
      ∀ c, c ∈ calls ↔ ∃ k v, c = (s!"M{m}.fn", [.int k, .int v], optStr (opFmFn (d.opParams m) k v)) ∧
        AMap.lookup (asMap x) k = some v ∧ AMap.lookup (asMap x0) k ≠ some v := by
  obtain ⟨x, x0, tail, hx, hC, h0, hC0, -, hlog, hnoise⟩ := operator_step_rerun D hk hg hran h
  exact ⟨x, x0, tail, _, hx, h0, hlog, hnoise, fun c => C17_fm_calls_iff d g m hd x0 x hC0 hC c⟩

/-- **C17, every operator: an unchanged input costs no call.** If an operator node is recomputed although its input
still has the value it last ran on, it logs no user-function call. -/
theorem same_input_no_calls (D : DInvW d.toEnv Canon (machSpec d) s (some n))
    (hk : (s.nodeD n).kind = .mapWithOld g i) (hg : opBase ≤ g) (hran : (s.nodeD n).value ≠ none)
    (hsame : (s.nodeD i).value = some (s.nodeD n).oldState)
    (h : (recomputeOne d.toEnv fuel n).run.run s = (.ok r, s')) :
    ∃ tail, s'.log = tail ++ s.log ∧ ∀ e, e ∈ tail → Noise e := by
  obtain ⟨x, x0, tail, hx, hC, h0, hC0, -, hlog, hnoise⟩ := operator_step_rerun D hk hg hran h
  rw [hsame] at hx
  cases hx
  rw [← h0, C17_same d g _ (by rw [h0]; exact hC0)] at hlog
  exact ⟨tail, by rw [hlog]; simp [callEvents], hnoise⟩

/-- **C17, fold / merge / partition, engine level**: every call logged by the step names a key whose binding differs
between the input the operator last ran on and the current input. -/
theorem fold_step_calls {rev upd : Bool} (D : DInvW d.toEnv Canon (machSpec d) s (some n))
    (hk : (s.nodeD n).kind = .mapWithOld g i) (hg : opBase ≤ g) (hd : decodeOp g = (.fold rev upd, m))
    (hran : (s.nodeD n).value ≠ none) (h : (recomputeOne d.toEnv fuel n).run.run s = (.ok r, s')) :
    ∃ x x0 tail calls, (s.nodeD i).value = some x ∧ (s.nodeD n).oldState = x0 ∧
      s'.log = tail ++ callEvents n calls ++ s.log ∧ (∀ e, e ∈ tail → Noise e) ∧
      ∀ c, c ∈ calls → ∃ k rest, c.2.1 = .int k :: rest ∧ AMap.lookup (asMap x) k ≠ AMap.lookup (asMap x0) k ∧
        (c.1 = s!"M{m}.add" ∨ c.1 = s!"M{m}.remove" ∨ c.1 = s!"M{m}.update") := by
  obtain ⟨x, x0, tail, hx, hC, h0, hC0, -, hlog, hnoise⟩ := operator_step_rerun D hk hg hran h
  exact ⟨x, x0, tail, _, hx, h0, hlog, hnoise, C17_fold_calls d g m rev upd hd x0 x hC0 hC⟩

theorem merge_step_calls (D : DInvW d.toEnv Canon (machSpec d) s (some n))
    (hk : (s.nodeD n).kind = .mapWithOld g i) (hg : opBase ≤ g) (hd : decodeOp g = (.merge, m))
    (hran : (s.nodeD n).value ≠ none) (h : (recomputeOne d.toEnv fuel n).run.run s = (.ok r, s')) :
    ∃ x x0 tail calls, (s.nodeD i).value = some x ∧ (s.nodeD n).oldState = x0 ∧
      s'.log = tail ++ callEvents n calls ++ s.log ∧ (∀ e, e ∈ tail → Noise e) ∧
      ∀ c, c ∈ calls → ∃ k, c.1 = s!"M{m}.merge" ∧ (∃ l rr, c.2.1 = [.int k, l, rr]) ∧
        (AMap.lookup (mergeIn x).1 k ≠ AMap.lookup (mergeIn x0).1 k ∨
          AMap.lookup (mergeIn x).2 k ≠ AMap.lookup (mergeIn x0).2 k) := by
  obtain ⟨x, x0, tail, hx, hC, h0, hC0, -, hlog, hnoise⟩ := operator_step_rerun D hk hg hran h
  refine ⟨x, x0, tail, _, hx, h0, hlog, hnoise, fun c hc => ?_⟩
  obtain ⟨k, rfl, hdiff⟩ := C17_merge_calls_gen d g m hd x0 x hC0 hC c hc
  exact ⟨k, rfl, ⟨_, _, rfl⟩, hdiff⟩

theorem part_step_calls (D : DInvW d.toEnv Canon (machSpec d) s (some n))
    (hk : (s.nodeD n).kind = .mapWithOld g i) (hg : opBase ≤ g) (hd : decodeOp g = (.part, m))
    (hran : (s.nodeD n).value ≠ none) (h : (recomputeOne d.toEnv fuel n).run.run s = (.ok r, s')) :
    ∃ x x0 tail calls, (s.nodeD i).value = some x ∧ (s.nodeD n).oldState = x0 ∧
      s'.log = tail ++ callEvents n calls ++ s.log ∧ (∀ e, e ∈ tail → Noise e) ∧
      ∀ c, c ∈ calls → ∃ k v, c.1 = s!"M{m}.fn" ∧ c.2.1 = [.int k, .int v] ∧
        AMap.lookup (asMap x) k = some v ∧ AMap.lookup (asMap x0) k ≠ some v := by
  obtain ⟨x, x0, tail, hx, hC, h0, hC0, -, hlog, hnoise⟩ := operator_step_rerun D hk hg hran h
  refine ⟨x, x0, tail, _, hx, h0, hlog, hnoise, fun c hc => ?_⟩
  obtain ⟨k, v, rfl, h1, h2⟩ := C17_part_calls d g m hd x0 x hC0 hC c hc
  exact ⟨k, v, rfl, rfl, h1, h2⟩

end IncrVerif.Proofs.MapOldH
