import IncrVerif.Proofs.NestH97
import IncrVerif.Proofs.NestH101
/-!
# Total correctness for nested binds (F2), the run of a change detector, part 2: the assembly — `lcStep_total2`

A run of a change detector (`recomputeOne` on a `bindLhsChange` node) from the drain invariant `DInv` and `DT` returns, and re-establishes `DT`, provided
the state it ENDS in (whatever the outcome) has at most `N` nodes and `3 * size + 3 ≤ fuel` (`lcStep_totalG`; `lcStep_total2` for `stepFuel`).

Phase 1 (the closure run) returns unconditionally.  The node count does not change in phases 2–4 whatever their outcome (`T2f.rest_size`), so the proviso
gives room and fuel in the state after phase 1; then phases 2, 3, 4 return (`T2f.phase2_tot`, `T2f.phase3_tot`, `T2f.phase4_tot`), the invariant of each
intermediate state being supplied by the partial-correctness lemmas `NC.phase1/2/3`, `T2f.mid3_of` (= the part of `NC.lc_mid2` before the last step).
Finally `DT` of the final state: `F2Inv` by `NC.f2Inv_of_mid`, `HBo2` by `T2f.hbo2_phase1/3/4` and `lhsRelink_total2`, `RhsRan` by `T2f.rhsRan_of_mid`,
`Lim` by `T2f.lim_*`.
-/
namespace IncrVerif.Proofs.NestH
open IncrVerif.Engine IncrVerif.Proofs IncrVerif.Proofs.Step IncrVerif.Proofs.Sched IncrVerif.Proofs.Quiet
open IncrVerif.Proofs.BindH

namespace T2f
open NC

/-- everything known about the state `t` after phase 3: the part of `NC.Mid2` that does not depend on the last step -/
structure Mid3 (env : Env) (rk rk' : Nat → Nat) (n b rhs : Nat) (br : BindRec) (l : List Nat) (s t : State) : Prop where
  pre : Pre2 env rk n b br s
  ext : RkExt rk rk' s.nodes.size
  rel : MidRel2 env rk' n b rhs br l s t
  rhsK : ∀ b', (t.nodeD rhs).kind ≠ .bindLhsChange b'
  rhsOK : ((t.nodeD rhs).createdIn = .top ∧ rk' rhs < rk' n ∧ rhs < s.nodes.size) ∨
    (s.nodes.size ≤ rhs ∧ rhs < t.nodes.size)
  ginv : GInv2 env rk' t allClosed (· = br.main) []
  ahh : AhhEmpty t
  pinv : t.propagateInvalidity = []
  noForce : ∀ m, (t.nodeD m).forceNecessary = false
  noHandlers : ∀ m, (t.nodeD m).numOnUpdateHandlers = 0
  validMain : (t.nodeD br.main).valid = true
  necMain : t.isNecessary br.main = true
  necN : t.isNecessary n = true
  kidsMain : t.children br.main = [n, rhs]
  graph : BGraph env t

section
variable {env : Env} {rk rk' : Nat → Nat} {N fuel n b rhs : Nat} {br : BindRec} {l : List Nat} {s s1 s2 s3 t s' : State}

/-- the state after phase 3 (copy of the first part of `NC.lc_mid2`, with the phases given) -/
theorem mid3_of (I : DInv env s (some n)) (A : F2Inv env rk s)
    (X : Pre2 env rk n b br s) (P : P1 env rk rk' n b rhs br l s s1) (Q : P2 env rk' n b rhs br l s1 s2)
    (R : P3 env rk' br s2 s3) : Mid3 env rk rk' n b rhs br l s s3 := by
  have M := midRel2_of X A P Q R
  have hD := dying_iff X A P Q
  have hnd := X.n_notDying A
  have hmd := X.main_notDying A
  have hsz3 : s3.nodes.size = s1.nodes.size := R.rel.size.trans Q.rel.size
  have ahh3 : AhhEmpty s3 := by
    refine ⟨by rw [R.rel.ahh]; exact Q.ahh.length, ?_, fun m => ?_⟩
    · intro i hi
      have hi' : i < s2.ahh.queues.size := by rw [← R.rel.ahh]; exact hi
      have := Q.ahh.buckets i hi'
      simp only [R.rel.ahh]; exact this
    · by_cases hd : Dying s2 br.allNodesCreatedOnRhs m
      · rw [(R.rel.dead m hd).2.2.2.2.2.2.2.2.1]; exact Q.ahh.marks m
      · rw [R.rel.other m hd]; exact Q.ahh.marks m
  have nf3 : ∀ m, (s3.nodeD m).forceNecessary = false := by
    intro m
    by_cases hd : Dying s2 br.allNodesCreatedOnRhs m
    · exact (R.rel.dead m hd).2.2.2.2.2.2.1
    · rw [R.rel.other m hd]; exact Q.noForce m
  have nh3 : ∀ m, (s3.nodeD m).numOnUpdateHandlers = 0 := by
    intro m
    by_cases hd : Dying s2 br.allNodesCreatedOnRhs m
    · exact (M.dead m ((hD m).1 hd)).2.2.2.2.2.2.2.2
    · rw [R.rel.other m hd, Q.num]; exact P.noHandlers A m
  have hmd2 : ¬ Dying s2 br.allNodesCreatedOnRhs br.main := fun h => hmd ((hD _).1 h)
  have necMain : s3.isNecessary br.main = true := by
    show (s3.nodeD br.main).isNecessary = true
    rw [R.rel.other _ hmd2]; exact Q.necMain
  have hvm3 : (s3.nodeD br.main).valid = true := by
    rw [(M.nk br.main X.hml hmd).valid]; exact X.hvm
  have hcm : s3.children br.main = [n, rhs] := by
    have := R.g.main_children M.bind hvm3
    rw [← X.hlc]; exact this
  have necN : s3.isNecessary n = true := by
    have h0 : (s3.children br.main)[0]? = some n := by rw [hcm]; rfl
    exact nec_of_mem_parents (R.g.conv br.main 0 n h0 ((wants_closed rfl).2 necMain))
  have g : BGraph env s3 := by
    apply bgraph_of_ginv2 R.g nf3
    intro m c hm hkc
    cases hsc : (s3.nodeD m).createdIn with
    | bind b' => exact absurd hkc (((R.g.frag.node m hm).inScope b' hsc).1 c)
    | top =>
      by_cases hd : Dying s br.allNodesCreatedOnRhs m
      · exfalso
        rw [(M.dead m hd).2.2.1] at hsc
        exact X.notDying_of_top A hsc hd
      · by_cases hlt : m < s.nodes.size
        · have k := M.nk m hlt hd
          rw [k.kind] at hkc
          rw [k.createdIn] at hsc
          rw [M.vars]
          exact I.graph.var m c hlt ((A.frag.node m hlt).top hsc).1 hkc
        · exfalso
          rw [(M.new m (by omega) hm).1] at hsc; cases hsc
  have kind13 : ∀ m, (s3.nodeD m).kind = (s1.nodeD m).kind := by
    intro m
    rw [← Q.kind m]
    by_cases hd : Dying s2 br.allNodesCreatedOnRhs m
    · exact (R.rel.dead m hd).2.1
    · rw [R.rel.other m hd]
  refine ⟨X, P.ext, M, fun b' => by rw [kind13]; exact P.rhsK b', ?_, R.g, ahh3,
    R.rel.pinv.trans Q.pinv, nf3, nh3, hvm3, necMain, necN, hcm, g⟩
  rcases P.rhs with ⟨h5, h6⟩ | h5
  · left
    have hlt := P.old_of_top P.rlt h5
    have hnd' : ¬ Dying s br.allNodesCreatedOnRhs rhs :=
      X.notDying_of_top A (by rw [← (P.sh hlt).2.2.1]; exact h5)
    refine ⟨?_, h6, hlt⟩
    rw [(M.nk rhs hlt hnd').createdIn, ← (P.sh hlt).2.2.1]; exact h5
  · exact Or.inr ⟨h5, by rw [hsz3]; exact P.rlt⟩

/-- with the last step: `NC.Mid2` -/
theorem Mid3.toMid2 (Y : Mid3 env rk rk' n b rhs br l s t) (A : F2Inv env rk s)
    (hk : (s.nodeD n).kind = .bindLhsChange b) {r : Option Nat}
    (h4 : (maybeChangeValue env fuel n .unit).run.run t = (.ok r, s')) :
    Mid2 env rk rk' n b rhs br l r s t s' := by
  have M := Y.rel
  have X := Y.pre
  have hnd := X.n_notDying A
  obtain ⟨S, L⟩ := BC.mcv_last Y.graph (heapInv_of_ginv2 Y.ginv) Y.necN (by rw [M.recN, M.stabNum])
    (by rw [(M.nk n X.hlt hnd).cutoff]; exact A.lcCut n b hk) h4
  exact ⟨Y.pre, Y.ext, Y.rel, Y.rhsK, Y.rhsOK, Y.ginv, Y.ahh, Y.pinv, Y.noForce, Y.noHandlers, Y.validMain,
    Y.necMain, Y.necN, Y.kidsMain, Y.graph, S, L,
    fun m => ((PresC.maybeChangeValue env fuel n .unit).h _ _ _ h4).num m⟩

/-- the only recorded parent of `n` after phase 3 is the main node -/
theorem Mid3.par_n (Y : Mid3 env rk rk' n b rhs br l s t) (A : F2Inv env rk s)
    (hk : (s.nodeD n).kind = .bindLhsChange b)
    {p : Nat} (hp : p ∈ (t.nodeD n).parents.map (·.1)) : p = br.main := by
  obtain ⟨⟨p', i⟩, hmem, rfl⟩ := List.mem_map.1 hp
  obtain ⟨hci, -⟩ := Y.ginv.par n p' i hmem
  have hpl := children_lt_size hci
  have Nd := Y.ginv.frag.node p' hpl
  have hkp := Nd.lcChild n b (List.mem_of_getElem? hci)
    (by rw [(Y.rel.nk n Y.pre.hlt (Y.pre.n_notDying A)).kind]; exact hk)
  obtain ⟨br', hb', hm', -⟩ := Nd.mainRec b n hkp
  rw [Y.rel.bind] at hb'
  cases hb'
  exact hm'.symm

/-- phase 4: `lhsFinish` returns -/
theorem phase4_tot (Y : Mid3 env rk rk' n b rhs br l s t) (A : F2Inv env rk s)
    (hk : (s.nodeD n).kind = .bindLhsChange b) (hB : HBo2 rk' t allClosed) (Rm : Room N t) (hf : 1 ≤ fuel) :
    Tot (Inval.lhsFinish env fuel n) t (fun _ _ => True) := by
  have M := Y.rel
  have X := Y.pre
  have hnd := X.n_notDying A
  have hlt : n < t.nodes.size := nec_lt_size Y.necN
  unfold Inval.lhsFinish
  refine Tot.bind_getNode hlt ?_
  refine Tot.bind_dassert (fun _ => by rw [(M.nk n X.hlt hnd).valid]; exact X.hvn) ?_
  refine maybeChangeValue_total2 Y.graph (heapInv_of_ginv2 Y.ginv) Y.necN ?_ hB Rm
    (BC.Upd.refl' n t Y.ginv.frag.pc) rfl hf
  intro p hp
  rw [Y.par_n A hk hp, M.recO br.main X.hml (X.main_notDying A) X.ne, M.stabNum]
  exact X.hmr

/-- **`RhsRan` is kept by a run of a change detector**: record `b` has a right-hand side; the records of the inner binds created by the run have a pristine
change detector; a record whose change detector is still valid is unchanged, and so is the stamp of its change detector -/
theorem rhsRan_of_mid {r : Option Nat} (A : F2Inv env rk s) (hk : (s.nodeD n).kind = .bindLhsChange b) (H : RhsRan s)
    (Z : Mid2 env rk rk' n b rhs br l r s t s') (A' : F2Inv env rk' s') : RhsRan s' := by
  intro b' br' hbr hv hrec
  rcases Z.bind_back hbr with ⟨-, e2⟩ | ⟨e, br0, h0, hc⟩ | ⟨hge, ht⟩
  · rw [e2]; exact fun h => by cases h
  · have hsame : br'.rhs = br0.rhs ∧ br'.lhsChange = br0.lhsChange := by
      rcases hc with ⟨-, e2⟩ | ⟨-, e2⟩ <;> rw [e2] <;> exact ⟨rfl, rfl⟩
    rw [hsame.1]
    rw [hsame.2] at hv hrec
    have hlc := A.frag.lc_lt h0
    have hd : ¬ Dying s br.allNodesCreatedOnRhs br0.lhsChange := fun hd => by
      rw [Z.deadS hd] at hv; cases hv
    have hvs : (s.nodeD br0.lhsChange).valid = true := by rw [← (Z.surv hlc hd).2.1]; exact hv
    have hne : br0.lhsChange ≠ n := by
      intro e'
      have h3 := (A.frag.recs b' br0 h0).2.2.1
      rw [e', hk] at h3
      injection h3 with h3
      exact e h3.symm
    apply H b' br0 h0 hvs
    rw [← Z.rel.recO _ hlc hd hne, ← Z.recT]; exact hrec
  · exfalso
    obtain ⟨-, -, k3, -⟩ := Z.rel.bindsNew b' br' hge ht
    have hlt' : br'.lhsChange < s'.nodes.size := A'.frag.lc_lt hbr
    rw [Z.step.size] at hlt'
    obtain ⟨-, -, c3, -⟩ := Z.rel.new _ k3 hlt'
    apply hrec
    rw [Z.recT, c3]

end

end T2f

open T2f in
/-- **A run of a change detector never panics** (fragment F2, nested binds), for any fuel bound `need` with `3 * sz + 3 ≤ need sz`: from the drain
invariant and `DT`, IF the state the run ends in (whatever the outcome) has at most `N` nodes and `need` of its node count `≤ fuel`, THEN the run returned
and `DT` holds again (for an extended ghost rank). -/
theorem lcStep_totalG (env : Env) (N : Nat) (need : Nat → Nat) (hneed : ∀ sz, 3 * sz + 3 ≤ need sz) :
    LcStepTotG need env N := by
  intro fuel n b s I D hk r s' hrun hroom
  obtain ⟨rk, A, hB, H, L⟩ := D
  obtain ⟨hN, hfu⟩ := hroom
  have hfu' := hneed s'.nodes.size
  obtain ⟨br, X⟩ := NC.lc_pre2 I A hk
  rw [Inval.recomputeOne_bindLhsChange_run env fuel n s _ b br (some_of_lt X.hlt) X.hvn hk X.hb] at hrun
  -- phase 1
  obtain ⟨rhs, s1, h1, -⟩ := phase1_tot I A X
  have hrest : (rest env fuel n b br s.stabNum rhs).run.run s1 = (r, s') := by
    rw [run_bind_ok h1] at hrun; exact hrun
  have hsz1 := rest_size hrest
  obtain ⟨rk', l, P⟩ := NC.phase1 (closure_spec2 env) X A h1
  have hB1 := hbo2_phase1 P hB
  have L1 : Lim N s1 := lim_eq (lim_started L) P.rel.ahh P.rel.rch
  have R1 : Room N s1 := L1.room (by omega)
  -- phase 2
  obtain ⟨u2, s2, h2, hB2, R2⟩ := phase2_tot (fuel := fuel) X A P hB1 R1 (by omega)
  have Q := NC.phase2 (relink_spec2 env) X A P h2
  -- phase 3
  obtain ⟨u3, s3, h3, -⟩ := phase3_tot (fuel := fuel) X A P Q (by rw [Q.rel.size]; omega)
  have R3 := NC.phase3 (inval_spec2 env) X A P Q h3
  have hB3 := hbo2_phase3 R3.rel hB2
  have Rm3 : Room N s3 := T2d.room_nodes R2 R3.rel.ahh R3.rel.rch R3.rel.size
  have Y := mid3_of I A X P Q R3
  -- phase 4
  obtain ⟨r4, s4, h4, -⟩ := phase4_tot (fuel := fuel) Y A hk hB3 Rm3 (by omega)
  have hall : (rest env fuel n b br s.stabNum rhs).run.run s1 = (.ok r4, s4) := by
    unfold rest
    rw [run_bind_ok h2, run_bind_ok h3]; exact h4
  rw [hall] at hrest
  cases hrest
  refine ⟨r4, rfl, ?_⟩
  have Z := Y.toMid2 A hk (BC.lhsFinish_inv h4)
  have A' := NC.f2Inv_of_mid A hk Z
  exact ⟨rk', A', hbo2_phase4 Z.step hB3, rhsRan_of_mid A hk H Z A', lim_last (Room.lim Rm3) Z.step Z.last⟩

/-- **A run of a change detector never panics**: the contract `LcStepTotG stepFuel` (`stepFuel sz = 3 * sz + 7`) of the drain (`drain_total2`) -/
theorem lcStep_total2 (env : Env) (N : Nat) : LcStepTotG stepFuel env N :=
  lcStep_totalG env N stepFuel (fun sz => by unfold stepFuel; omega)

/-- the original contract `LcStepTot` (`needFuel sz = 4 * sz + 8`) holds as well -/
theorem lcStep_total2' (env : Env) (N : Nat) : LcStepTot env N :=
  lcStep_totalG env N needFuel (fun sz => by unfold needFuel; omega)

end IncrVerif.Proofs.NestH
