import IncrVerif.Proofs.Step
import IncrVerif.Proofs.HeapWF
/-!
# Scheduling invariant of `drainHeap` on a static graph — definitions and the pure-logic layer (L1)

Static fragment: every necessary node is valid and of kind `const`, `var`, `map f args` (with `f` below
`fnPerKey` and, for user functions `f < fnZip`, without side effects) or `fold`; cutoff `.eq` or `.never`;
no fault armed.

* `eval env s k n`: from-scratch evaluation of node `n` (fuel `k`) on the current variable values.
* `Graph env s`: structural well-formedness (static kinds, edge symmetry, heights).
* `HeapInv s`: `HeapWF` plus: a queued node sits in the bucket of its height, the lower bound is below
  every queued node, queued nodes are necessary.
* `Inv env s x`: the scheduling invariant with an optional "current" node `x` (popped from the heap or
  handed over by the direct-recompute chain, about to run).  `DrainInv env s = Inv env s none`.
* L1 `drained_values`: `DrainInv`, empty heap ⟹ every necessary node carries its `eval` value.
-/
namespace IncrVerif.Proofs.Sched
open IncrVerif.Engine IncrVerif.Proofs IncrVerif.Proofs.Step

/-! ## the fragment -/

/-- kinds of the static fragment -/
def StaticKind (env : Env) : Kind → Prop
  | .const _ => True
  | .var _ => True
  | .map f _ => f < fnPerKey ∧ (f < fnZip → ∀ vals, env.fnEff f vals = [])
  | .fold _ _ _ => True
  | _ => False

/-- the children of a static kind -/
def kids : Kind → List Nat
  | .map _ args => args
  | .fold _ _ cs => cs
  | _ => []

theorem StaticKind.not_mapRef {env : Env} {k : Kind} (h : StaticKind env k) (p i : Nat) :
    k ≠ .mapRef p i := by
  intro e; subst e; exact h

theorem children_eq_kids {env : Env} (s : State) (n : Nat) (hv : (s.nodeD n).valid = true)
    (hk : StaticKind env (s.nodeD n).kind) : s.children n = kids (s.nodeD n).kind := by
  unfold State.children Node.kind?
  rw [hv]
  simp only [if_true]
  cases h : (s.nodeD n).kind <;> rw [h] at hk <;> first | rfl | exact hk.elim

/-! ## evaluation from scratch -/

/-- all of a list of optional values -/
def evalArgs (ev : Nat → Option Val) : List Nat → Option (List Val)
  | [] => some []
  | a :: as =>
    match ev a, evalArgs ev as with
    | some v, some vs => some (v :: vs)
    | _, _ => none

theorem evalArgs_congr (ev ev' : Nat → Option Val) (args : List Nat)
    (h : ∀ a, a ∈ args → ev' a = ev a) : evalArgs ev' args = evalArgs ev args := by
  induction args with
  | nil => rfl
  | cons a as ih =>
    simp only [evalArgs]
    rw [h a (List.mem_cons_self ..), ih (fun b hb => h b (List.mem_cons_of_mem _ hb))]

theorem valuesOf_eq_evalArgs (env : Env) (s : State) (args : List Nat) :
    valuesOf env s args = evalArgs (s.value env) args := by
  induction args with
  | nil => rfl
  | cons a as ih =>
    simp only [valuesOf, evalArgs, ih]
    cases s.value env a <;> cases evalArgs (s.value env) as <;> rfl

theorem evalArgs_isSome (ev : Nat → Option Val) (args : List Nat)
    (h : ∀ a, a ∈ args → ∃ v, ev a = some v) : ∃ vs, evalArgs ev args = some vs := by
  induction args with
  | nil => exact ⟨[], rfl⟩
  | cons a as ih =>
    obtain ⟨v, hv⟩ := h a (List.mem_cons_self ..)
    obtain ⟨vs, hvs⟩ := ih (fun b hb => h b (List.mem_cons_of_mem _ hb))
    exact ⟨v :: vs, by simp only [evalArgs, hv, hvs]⟩

/-- the stored values of a list of nodes -/
def plainVals (s : State) (args : List Nat) : Option (List Val) :=
  evalArgs (fun a => (s.nodeD a).value) args

/-- from-scratch evaluation of node `n` along `kind`, on the current values of the variables -/
def eval (env : Env) (s : State) : Nat → Nat → Option Val
  | 0, _ => none
  | k+1, n =>
    match (s.nodeD n).kind with
    | .const v => some v
    | .var c => (s.vars[c]?).map (·.value)
    | .map f args => (evalArgs (fun a => eval env s k a) args).map (env.fn f)
    | .fold f init cs => (evalArgs (fun a => eval env s k a) cs).map (List.foldl (env.foldStep f) init)
    | _ => none

/-! ## structure -/

/-- structural well-formedness of the necessary part of the graph (static fragment) -/
structure Graph (env : Env) (s : State) : Prop where
  pc : s.panicCountdown = none
  nec : ∀ n, s.isNecessary n = true →
    n < s.nodes.size ∧ (s.nodeD n).valid = true ∧ StaticKind env (s.nodeD n).kind ∧
      ((s.nodeD n).cutoff = .eq ∨ (s.nodeD n).cutoff = .never) ∧ 0 ≤ (s.nodeD n).height
  var : ∀ n c, s.isNecessary n = true → (s.nodeD n).kind = .var c → ∃ vc, s.vars[c]? = some vc
  /-- child edges are mirrored in `parents`, children are necessary and strictly lower -/
  child : ∀ n, s.isNecessary n = true → ∀ i c, (kids (s.nodeD n).kind)[i]? = some c →
    s.isNecessary c = true ∧ (n, i) ∈ (s.nodeD c).parents ∧ (s.nodeD c).height < (s.nodeD n).height
  /-- parent entries are mirrored by child edges -/
  parent : ∀ c p i, (p, i) ∈ (s.nodeD c).parents →
    s.isNecessary p = true ∧ (kids (s.nodeD p).kind)[i]? = some c

/-- `a` is a reflexive-transitive parent of `d` (through necessary nodes) -/
inductive Anc (s : State) : Nat → Nat → Prop
  | refl (a : Nat) : Anc s a a
  | step {a c d : Nat} : s.isNecessary a = true → c ∈ kids (s.nodeD a).kind → Anc s c d → Anc s a d

/-- the recompute heap: well-formed buckets, bucket = height, lower bound, only necessary nodes -/
structure HeapInv (s : State) : Prop where
  wf : HeapWF s
  hgt : ∀ m, (s.nodeD m).inRch = true → (s.nodeD m).heightInRch = (s.nodeD m).height
  lb : ∀ m, (s.nodeD m).inRch = true → s.rch.lowerBound ≤ (s.nodeD m).height
  lb0 : 0 ≤ s.rch.lowerBound
  nec : ∀ m, (s.nodeD m).inRch = true → s.isNecessary m = true

/-- no stamp is in the future -/
structure Stamps (s : State) : Prop where
  now : 0 ≤ s.stabNum
  node : ∀ m, (s.nodeD m).recomputedAt ≤ s.stabNum ∧ (s.nodeD m).changedAt ≤ s.stabNum
  var : ∀ (c : Nat) (vc : VarCell), s.vars[c]? = some vc → vc.setAt ≤ s.stabNum

/-- `v` is what node `n`'s defining expression yields on the current values of its children -/
def Target (env : Env) (s : State) (n : Nat) (v : Val) : Prop :=
  match (s.nodeD n).kind with
  | .const w => v = w
  | .var c => ∃ vc, s.vars[c]? = some vc ∧ v = vc.value
  | .map f args => ∃ vals, plainVals s args = some vals ∧ v = env.fn f vals
  | .fold f init cs => ∃ vals, plainVals s cs = some vals ∧ v = vals.foldl (env.foldStep f) init
  | _ => False

/-- node `n` carries the value of its defining expression on the current values of its children -/
def Consistent (env : Env) (s : State) (n : Nat) : Prop :=
  ∃ v, Target env s n v ∧ (s.nodeD n).value = some v

/-- the scheduling invariant.  `x`: the node that has been taken out of the heap (or handed over by
the direct-recompute chain) and is about to be recomputed. -/
structure Inv (env : Env) (s : State) (x : Option Nat) : Prop where
  graph : Graph env s
  heap : HeapInv s
  stamps : Stamps s
  /-- (b) stale necessary nodes are pending -/
  pending : ∀ m, s.isNecessary m = true → s.isStale m = true → (s.nodeD m).inRch = true ∨ x = some m
  /-- (c) necessary nodes that are not stale are consistent with their children -/
  cons : ∀ m, s.isNecessary m = true → s.isStale m = false → Consistent env s m
  /-- (d) above a pending node (and the node itself) nothing has been recomputed in this round -/
  fresh : ∀ d, ((s.nodeD d).inRch = true ∨ x = some d) → ∀ a, Anc s a d →
    (s.nodeD a).recomputedAt < s.stabNum
  /-- the current node is necessary, not queued, and nothing below it is queued -/
  cur : ∀ n, x = some n → s.isNecessary n = true ∧ ∀ d, Anc s n d → (s.nodeD d).inRch = false

/-- the drain invariant: the state between two pops of `drainHeap` -/
def DrainInv (env : Env) (s : State) : Prop := Inv env s none

/-! ## basic consequences -/

theorem nodeD_default_of_ge (s : State) (n : Nat) (h : s.nodes.size ≤ n) : s.nodeD n = default := by
  simp [State.nodeD, Array.getElem?_eq_none h]

theorem Graph.value_plain {env : Env} {s : State} (g : Graph env s) {n : Nat}
    (hn : s.isNecessary n = true) : s.value env n = (s.nodeD n).value :=
  Step.value_plain env s n (fun p i => (g.nec n hn).2.2.1.not_mapRef p i)

theorem Graph.kids_nec {env : Env} {s : State} (g : Graph env s) {n c : Nat}
    (hn : s.isNecessary n = true) (hc : c ∈ kids (s.nodeD n).kind) :
    s.isNecessary c = true ∧ (s.nodeD c).height < (s.nodeD n).height := by
  obtain ⟨i, hi, e⟩ := List.mem_iff_getElem.1 hc
  have h := g.child n hn i c (by rw [List.getElem?_eq_getElem hi, e])
  exact ⟨h.1, h.2.2⟩

theorem Graph.valuesOf {env : Env} {s : State} (g : Graph env s) {n : Nat}
    (hn : s.isNecessary n = true) :
    valuesOf env s (kids (s.nodeD n).kind) = plainVals s (kids (s.nodeD n).kind) := by
  rw [valuesOf_eq_evalArgs]
  exact evalArgs_congr _ _ _ fun a ha => (g.value_plain (g.kids_nec hn ha).1)

/-- heights do not increase downwards -/
theorem Anc.height_le {env : Env} {s : State} (g : Graph env s) {a d : Nat} (h : Anc s a d) :
    (s.nodeD d).height ≤ (s.nodeD a).height := by
  induction h with
  | refl a => exact Int.le_refl _
  | step hn hc _ ih => have := (g.kids_nec hn hc).2; omega

theorem Anc.height_lt {env : Env} {s : State} (g : Graph env s) {a d : Nat} (h : Anc s a d)
    (hne : a ≠ d) : (s.nodeD d).height < (s.nodeD a).height := by
  cases h with
  | refl => exact absurd rfl hne
  | step hn hc h2 => have := (g.kids_nec hn hc).2; have := h2.height_le g; omega

theorem Anc.trans {s : State} {a b c : Nat} (h1 : Anc s a b) (h2 : Anc s b c) : Anc s a c := by
  induction h1 with
  | refl => exact h2
  | step hn hc _ ih => exact Anc.step hn hc (ih h2)

theorem Anc.nec {env : Env} {s : State} (g : Graph env s) {a d : Nat} (h : Anc s a d)
    (ha : s.isNecessary a = true) : s.isNecessary d = true := by
  induction h with
  | refl => exact ha
  | step hn hc _ ih => exact ih (g.kids_nec hn hc).1

/-- a parent entry gives an `Anc` step -/
theorem Graph.parent_anc {env : Env} {s : State} (g : Graph env s) {c p i : Nat}
    (h : (p, i) ∈ (s.nodeD c).parents) : Anc s p c := by
  obtain ⟨hp, hk⟩ := g.parent c p i h
  exact Anc.step hp (List.mem_of_getElem? hk) (Anc.refl c)

/-! ## the empty heap -/

theorem bucketSum_zero_mem (q : Array (List Nat)) (h : bucketSum q = 0) (i : Nat) (hi : i < q.size) :
    q[i] = [] := by
  unfold bucketSum at h
  have : ∀ l : List (List Nat), (l.map List.length).sum = 0 → ∀ x ∈ l, x = [] := by
    intro l
    induction l with
    | nil => intro _ x hx; cases hx
    | cons a l ih =>
      intro hs x hx
      simp only [List.map_cons, List.sum_cons] at hs
      rcases List.mem_cons.1 hx with rfl | hx
      · exact List.eq_nil_of_length_eq_zero (by omega)
      · exact ih (by omega) x hx
  exact this q.toList h q[i] (by simp)

/-- with an empty heap no node is marked as queued -/
theorem HeapInv.empty {s : State} (h : HeapInv s) (he : s.rch.length = 0) (m : Nat) :
    (s.nodeD m).inRch = false := by
  by_cases hm : m < s.nodes.size
  · rcases h.wf.range m hm with h1 | ⟨h1, h2⟩
    · simp [Node.inRch, h1]
    · exfalso
      have hlt : (s.nodeD m).heightInRch.toNat < s.rch.queues.size := by omega
      have hmem := (h.wf.mem _ hlt m).2 ⟨hm, by omega⟩
      have hz := bucketSum_zero_mem s.rch.queues (by rw [← h.wf.length]; exact he) _ hlt
      rw [hz] at hmem
      cases hmem
  · rw [nodeD_default_of_ge s m (by omega)]; rfl

/-! ## L1: after the drain every necessary node carries its from-scratch value -/

theorem eval_of_consistent (env : Env) (s : State) (g : Graph env s)
    (hc : ∀ m, s.isNecessary m = true → Consistent env s m) :
    ∀ k n, s.isNecessary n = true → (s.nodeD n).height.toNat < k →
      (s.nodeD n).value = eval env s k n := by
  intro k
  induction k with
  | zero => intro n _ h; omega
  | succ k ih =>
    intro n hn hk
    obtain ⟨v, ht, hv⟩ := hc n hn
    have hkids : ∀ a, a ∈ kids (s.nodeD n).kind → (s.nodeD a).value = eval env s k a := by
      intro a ha
      obtain ⟨h1, h2⟩ := g.kids_nec hn ha
      have h0 := (g.nec a h1).2.2.2.2
      exact ih a h1 (by omega)
    rw [hv]
    unfold Target at ht
    unfold eval
    cases hkd : (s.nodeD n).kind with
    | const w => rw [hkd] at ht; simp only [ht]
    | var c =>
      rw [hkd] at ht
      obtain ⟨vc, h1, h2⟩ := ht
      simp only [h1, h2, Option.map_some]
    | map f args =>
      rw [hkd] at ht hkids
      obtain ⟨vals, h1, h2⟩ := ht
      simp only
      rw [← evalArgs_congr _ _ args (fun a ha => hkids a ha)]
      unfold plainVals at h1
      rw [h1, h2]; rfl
    | fold f init cs =>
      rw [hkd] at ht hkids
      obtain ⟨vals, h1, h2⟩ := ht
      simp only
      rw [← evalArgs_congr _ _ cs (fun a ha => hkids a ha)]
      unfold plainVals at h1
      rw [h1, h2]; rfl
    | mapRef _ _ => rw [hkd] at ht; exact ht.elim
    | mapWithOld _ _ => rw [hkd] at ht; exact ht.elim
    | bindLhsChange _ => rw [hkd] at ht; exact ht.elim
    | bindMain _ _ => rw [hkd] at ht; exact ht.elim
    | expert _ => rw [hkd] at ht; exact ht.elim

/-- with an empty heap every necessary node is up to date and consistent -/
theorem DrainInv.all_consistent {env : Env} {s : State} (h : DrainInv env s) (he : s.rch.length = 0)
    (m : Nat) (hm : s.isNecessary m = true) : s.isStale m = false ∧ Consistent env s m := by
  have hns : s.isStale m = false := by
    cases hst : s.isStale m with
    | false => rfl
    | true =>
      rcases h.pending m hm hst with h1 | h1
      · rw [h.heap.empty he m] at h1; cases h1
      · cases h1
  exact ⟨hns, h.cons m hm hns⟩

/-- **L1.** `DrainInv`, empty heap: every necessary node is valid, not stale, and its stored value —
which is also what an observer reads (`State.value`) — is the from-scratch evaluation of its defining
expression on the current variable values (any fuel above the node's height). -/
theorem drained_values {env : Env} {s : State} (h : DrainInv env s) (he : s.rch.length = 0)
    (n : Nat) (hn : s.isNecessary n = true) (k : Nat) (hk : (s.nodeD n).height.toNat < k) :
    (s.nodeD n).valid = true ∧ s.isStale n = false ∧
      (s.nodeD n).value = eval env s k n ∧ s.value env n = eval env s k n ∧
      (eval env s k n).isSome = true := by
  have hv := eval_of_consistent env s h.graph (fun m hm => (h.all_consistent he m hm).2) k n hn hk
  obtain ⟨v, _, hval⟩ := (h.all_consistent he n hn).2
  refine ⟨(h.graph.nec n hn).2.1, (h.all_consistent he n hn).1, hv, ?_, ?_⟩
  · rw [h.graph.value_plain hn]; exact hv
  · rw [← hv, hval]; rfl

/-! ## interface: what one successful `recomputeOne` does in the static fragment -/

/-- the fields of a node that make up the graph: unchanged during a drain -/
structure SameShape (a b : Node) : Prop where
  kind : b.kind = a.kind
  createdIn : b.createdIn = a.createdIn
  valid : b.valid = a.valid
  cutoff : b.cutoff = a.cutoff
  height : b.height = a.height
  parents : b.parents = a.parents
  observers : b.observers = a.observers
  forceNecessary : b.forceNecessary = a.forceNecessary

theorem SameShape.refl (a : Node) : SameShape a a := ⟨rfl, rfl, rfl, rfl, rfl, rfl, rfl, rfl⟩

theorem SameShape.trans {a b c : Node} (h1 : SameShape a b) (h2 : SameShape b c) : SameShape a c :=
  ⟨h2.kind.trans h1.kind, h2.createdIn.trans h1.createdIn, h2.valid.trans h1.valid, h2.cutoff.trans h1.cutoff,
   h2.height.trans h1.height, h2.parents.trans h1.parents, h2.observers.trans h1.observers,
   h2.forceNecessary.trans h1.forceNecessary⟩

theorem SameShape.of_nodeSame {a b : Node} (h : NodeSame a b) : SameShape a b :=
  ⟨h.kind, h.createdIn, h.valid, h.cutoff, h.height, h.parents, h.observers, h.forceNecessary⟩

theorem SameShape.isNecessary {a b : Node} (h : SameShape a b) : b.isNecessary = a.isNecessary := by
  simp [Node.isNecessary, h.parents, h.observers, h.forceNecessary]

/-- `s'` is `s` after a successful `recomputeOne env fuel n` that computed `v`, stamped `changedAt`
iff `ch`, and returned `r` (the parent handed over for direct recomputation) -/
structure StepRel (n : Nat) (v : Val) (ch : Bool) (r : Option Nat) (s s' : State) : Prop where
  size : s'.nodes.size = s.nodes.size
  vars : s'.vars = s.vars
  stabNum : s'.stabNum = s.stabNum
  pc : s'.panicCountdown = none
  /-- the number of buckets of the recompute heap never changes -/
  qsize : s'.rch.queues.size = s.rch.queues.size
  /-- other nodes: same up to heap membership (only inserted, never removed) -/
  other : ∀ m, m ≠ n → NodeSame (s.nodeD m) (s'.nodeD m)
  shape : SameShape (s.nodeD n) (s'.nodeD n)
  value : (s'.nodeD n).value = some v
  recomputedAt : (s'.nodeD n).recomputedAt = s.stabNum
  changedAt : (s'.nodeD n).changedAt = if ch = true then s.stabNum else (s.nodeD n).changedAt
  /-- no stamp: the value did not change, nobody was notified -/
  unch : ch = false → (s.nodeD n).value = some v ∧ r = none
  heap : HeapInv s'
  /-- only parents of `n` are inserted, and only when `n` changed -/
  newIn : ∀ m, (s'.nodeD m).inRch = true →
    (s.nodeD m).inRch = true ∨ (ch = true ∧ m ∈ (s.nodeD n).parents.map (·.1))
  /-- changes are never lost -/
  parentsIn : ch = true → ∀ p, p ∈ (s.nodeD n).parents.map (·.1) →
    (s'.nodeD p).inRch = true ∨ r = some p
  /-- the handed-over parent: not queued; a one-argument `map` or not above the heap's minimum -/
  ret : ∀ p, r = some p → ch = true ∧ p ∈ (s.nodeD n).parents.map (·.1) ∧
    (s'.nodeD p).inRch = false ∧
    ((∃ f args, (s.nodeD p).kind = .map f args ∧ args.length ≤ 1) ∨
      ∀ m, (s'.nodeD m).inRch = true → (s.nodeD p).height ≤ (s.nodeD m).height)

end IncrVerif.Proofs.Sched
