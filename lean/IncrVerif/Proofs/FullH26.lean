import IncrVerif.Proofs.FullH4
import IncrVerif.Proofs.FullH24
/-!
# C01 full fragment, stage S3: the `depend_on` invariant `DepInv` and `CRl` through the steps of a drain, from the step relations of the VIRTUAL states
-/
namespace IncrVerif.Proofs.FullH
open IncrVerif.Engine IncrVerif.Driver IncrVerif.Proofs IncrVerif.Proofs.Step IncrVerif.Proofs.Sched IncrVerif.Proofs.Quiet
open IncrVerif.Proofs.BindH (DInv BGraph StepRelB Below Edge)
open IncrVerif.Proofs.NestH (StepL2)

section
variable {env : Env} {sp : Nat → Val → Val}

theorem stored_eq_tv {g : Nat → Option Val} {s : State} {x : Nat} (h : ∀ p i, (s.nodeD x).kind ≠ .mapRef p i) :
    (s.nodeD x).value = tv g s x := (tv_not_mapRef h).symm

theorem not_mapRef_of_map {k : Kind} {f : Nat} {args : List Nat} (h : k = .map f args) : ∀ p i, k ≠ .mapRef p i := by
  intro p i e; rw [h] at e; cases e

theorem children_depend {s : State} {x a b : Nat} (hv : (s.nodeD x).valid = true) (hk : (s.nodeD x).kind = .map fnFirst [a, b]) :
    s.children x = [a, b] := by
  unfold State.children Node.kind?; rw [hv, hk]; rfl

/-- **a step described by `StepRelB`** (static, `bindMain`, map_ref, map_with_old, verdict steps) keeps `DepInv` and `CRl`.  `hself`: if the node that ran is itself a
`depend_on` node over `a` (cutoff `.dependOn a`), its new value is what `a` stores (from `TargetB` and `FirstFn`). -/
theorem dep_stepB {g g' : Nat → Option Val} {s s' : State} {n : Nat} {v : Val} {ch : Bool} {r : Option Nat}
    (Dp : DepInv g s) (C : CRl s) (I : DInv (VE env sp) (virt g s) (some n))
    (R : StepRelB n v ch r (virt g s) (virt g' s'))
    (hk : ∀ m, (s'.nodeD m).kind = (s.nodeD m).kind) (hc : ∀ m, (s'.nodeD m).cutoff = (s.nodeD m).cutoff)
    (hself : ∀ a b, (s.nodeD n).kind = .map fnFirst [a, b] → (s.nodeD n).cutoff = .dependOn a → tv g s a = some v) :
    DepInv g' s' ∧ CRl s' := by
  have hst : s'.stabNum = s.stabNum := R.stabNum
  -- fields of the other nodes
  have oth : ∀ m, m ≠ n → (s'.nodeD m).valid = (s.nodeD m).valid ∧ (s'.nodeD m).changedAt = (s.nodeD m).changedAt ∧
      (s'.nodeD m).recomputedAt = (s.nodeD m).recomputedAt ∧ tv g' s' m = tv g s m := by
    intro m hm
    have N := R.other m hm
    have h1 := N.valid; have h2 := N.changedAt; have h3 := N.recomputedAt; have h4 := N.value
    rw [virt_nodeD, virt_nodeD, virtNode_valid, virtNode_valid] at h1
    rw [virt_nodeD, virt_nodeD, virtNode_changedAt, virtNode_changedAt] at h2
    rw [virt_nodeD, virt_nodeD, virtNode_recomputedAt, virtNode_recomputedAt] at h3
    exact ⟨h1, h2, h3, h4⟩
  have hnv' : ((virt g' s').nodeD n).value = some v := R.value
  have hnr' : (s'.nodeD n).recomputedAt = s.stabNum := by
    have := R.recomputedAt; rw [virt_nodeD, virtNode_recomputedAt] at this; exact this
  have hnc' : (s'.nodeD n).changedAt = if ch = true then s.stabNum else (s.nodeD n).changedAt := by
    have := R.changedAt; rw [virt_nodeD, virt_nodeD, virtNode_changedAt, virtNode_changedAt] at this; exact this
  have hnval' : (s'.nodeD n).valid = (s.nodeD n).valid := by
    have := R.shape.valid; rw [virt_nodeD, virt_nodeD, virtNode_valid, virtNode_valid] at this; exact this
  obtain ⟨rk, hrk⟩ := I.graph.acyc
  constructor
  · intro x a b w hv hkx hcx hca hw
    have hkx0 : (s.nodeD x).kind = .map fnFirst [a, b] := by rw [← hk]; exact hkx
    have hcx0 : (s.nodeD x).cutoff = .dependOn a := by rw [← hc]; exact hcx
    have hnm : ∀ p i, (s'.nodeD x).kind ≠ .mapRef p i := not_mapRef_of_map hkx
    have hnm0 : ∀ p i, (s.nodeD x).kind ≠ .mapRef p i := not_mapRef_of_map hkx0
    by_cases hxn : x = n
    · -- the node that ran is the depend_on node
      subst hxn
      have hv0 : (s.nodeD x).valid = true := by rw [← hnval']; exact hv
      have hax : a ≠ x := by
        intro e
        have hch : a ∈ (virt g s).children x := by rw [virt_children, children_depend hv0 hkx0]; simp
        have := hrk x a (Edge.child hch)
        rw [e] at this; omega
      have : (s'.nodeD x).value = some v := by rw [stored_eq_tv (g := g') hnm]; exact hnv'
      rw [this] at hw; cases hw
      rw [(oth a hax).2.2.2]; exact hself a b hkx0 hcx0
    · obtain ⟨xv, xc, -, xt⟩ := oth x hxn
      have hv0 : (s.nodeD x).valid = true := by rw [← xv]; exact hv
      have hw0 : (s.nodeD x).value = some w := by
        rw [stored_eq_tv (g := g) hnm0, ← xt, ← stored_eq_tv (g := g') hnm]; exact hw
      by_cases han : a = n
      · subst han
        cases hch : ch with
        | true =>
          exfalso
          rw [hnc', hch, if_pos rfl, xc] at hca
          have hr := C x hv0 hnm0 (by rw [hw0]; rfl) hca
          have hedge : Below (virt g s) x a := by
            refine Below.step (Edge.child ?_) (Below.refl a)
            rw [virt_children, children_depend hv0 hkx0]; simp
          have := I.fresh x a hedge (Or.inr rfl)
          rw [virt_nodeD, virtNode_recomputedAt] at this
          have e2 : (virt g s).stabNum = s.stabNum := rfl
          rw [e2] at this; omega
        | false =>
          rw [hnc', hch] at hca
          simp only [Bool.false_eq_true, if_false] at hca
          rw [xc] at hca
          have h1 := Dp x a b w hv0 hkx0 hcx0 hca hw0
          obtain ⟨h2, -⟩ := R.unch hch
          have h2' : tv g s a = some v := h2
          rw [h1] at h2'
          cases h2'
          exact hnv'
      · obtain ⟨-, ac, -, at'⟩ := oth a han
        rw [at']
        exact Dp x a b w hv0 hkx0 hcx0 (by rw [← xc, ← ac]; exact hca) hw0
  · intro m hv hnm hval hcm
    rw [hst] at hcm ⊢
    by_cases hmn : m = n
    · subst hmn; exact hnr'
    · obtain ⟨mv, mc, mr, mt⟩ := oth m hmn
      have hnm0 : ∀ p i, (s.nodeD m).kind ≠ .mapRef p i := by intro p i; rw [← hk]; exact hnm p i
      rw [mr]
      refine C m (by rw [← mv]; exact hv) hnm0 ?_ (by rw [← mc]; exact hcm)
      rw [stored_eq_tv (g := g) hnm0, ← mt, ← stored_eq_tv (g := g') hnm]; exact hval

/-- **a run of a change detector** (described by `StepL2` of the virtual states) keeps `DepInv` and `CRl`: surviving old nodes keep what the invariants read, the change
detector is not a `map` node, new nodes have no stored value -/
theorem dep_stepL2 {g g' : Nat → Option Val} {s s' : State} {n b : Nat} {br br' : BindRec} {r : Option Nat}
    (Dp : DepInv g s) (C : CRl s) (I : DInv (VE env sp) (virt g s) (some n))
    (hkn : (s.nodeD n).kind = .bindLhsChange b)
    (R : StepL2 (VE env sp) n b br br' r (virt g s) (virt g' s'))
    (V : VM s s') (nv : NVn n s s') (hn : n < s.nodes.size)
    (hkids : ∀ x c, (s'.nodeD x).valid = true → c ∈ s'.children x → (s'.nodeD c).valid = true ∧ c < s'.nodes.size) :
    DepInv g' s' ∧ CRl s' := by
  have hst : s'.stabNum = s.stabNum := R.stabNum
  -- a valid old node other than `n` kept what the invariants read
  have old : ∀ m, m < s.nodes.size → m ≠ n → (s'.nodeD m).valid = true →
      (s.nodeD m).valid = true ∧ (s'.nodeD m).changedAt = (s.nodeD m).changedAt ∧
        (s'.nodeD m).recomputedAt = (s.nodeD m).recomputedAt ∧ tv g' s' m = tv g s m := by
    intro m hm hmn hv
    rcases R.old m (by rw [virt_size]; exact hm) hmn with ⟨-, hd, -⟩ | ⟨h1, -, -, h4, h5, h6, -⟩
    · rw [virt_nodeD, virtNode_valid, hv] at hd; cases hd
    · rw [virt_nodeD, virt_nodeD, virtNode_valid, virtNode_valid] at h1
      rw [virt_nodeD, virt_nodeD, virtNode_recomputedAt, virtNode_recomputedAt] at h5
      rw [virt_nodeD, virt_nodeD, virtNode_changedAt, virtNode_changedAt] at h6
      exact ⟨by rw [← h1]; exact hv, h6, h5, h4⟩
  have newv : ∀ m, s.nodes.size ≤ m → m < s'.nodes.size → (s'.nodeD m).value = none := fun m h1 h2 => nv.new m (by omega) h1 h2
  have lt_of_kind : ∀ m f args, (s'.nodeD m).kind = .map f args → m < s'.nodes.size := by
    intro m f args h
    by_cases hm : m < s'.nodes.size
    · exact hm
    · rw [nodeD_default_of_ge s' m (by omega)] at h; cases h
  constructor
  · intro x a b0 w hv hkx hcx hca hw
    have hx' := lt_of_kind x _ _ hkx
    have hnm : ∀ p i, (s'.nodeD x).kind ≠ .mapRef p i := not_mapRef_of_map hkx
    by_cases hx : x < s.nodes.size
    · have hxn : x ≠ n := by
        intro e; subst e
        rw [(V.kind x hx).1, hkn] at hkx; cases hkx
      obtain ⟨xv, xc, -, xt⟩ := old x hx hxn hv
      obtain ⟨k1, k2, -⟩ := V.kind x hx
      have hkx0 : (s.nodeD x).kind = .map fnFirst [a, b0] := by rw [← k1]; exact hkx
      have hnm0 : ∀ p i, (s.nodeD x).kind ≠ .mapRef p i := not_mapRef_of_map hkx0
      have hw0 : (s.nodeD x).value = some w := by
        rw [stored_eq_tv (g := g) hnm0, ← xt, ← stored_eq_tv (g := g') hnm]; exact hw
      -- the input is an old valid node too
      have hca' : a ∈ s'.children x := by rw [children_depend hv hkx]; simp
      obtain ⟨av, alt'⟩ := hkids x a hv hca'
      have ha0 : a ∈ (virt g s).children x := by rw [virt_children, children_depend xv hkx0]; simp
      have halt : a < s.nodes.size := by
        have := (I.graph.node x (by rw [virt_size]; exact hx) (by rw [virt_nodeD, virtNode_valid]; exact xv)).2.2 a ha0
        rw [virt_size] at this; exact this.1
      have han : a ≠ n := by
        intro e; subst e
        -- a depend_on node over a change detector: excluded by `lcChild` (only the main node has the change detector as a child)
        have := I.graph.lcChild x a b (by rw [virt_size]; exact hx) (by rw [virt_nodeD, virtNode_valid]; exact xv) ha0
          (by rw [virt_nodeD, virtNode_kind, hkn]; rfl)
        rw [virt_nodeD, virtNode_kind, hkx0] at this
        simp [virtKind] at this
      obtain ⟨-, ac, -, at'⟩ := old a halt han av
      rw [at']
      exact Dp x a b0 w xv hkx0 (by rw [← k2]; exact hcx) (by rw [← xc, ← ac]; exact hca) hw0
    · rw [newv x (by omega) hx'] at hw; cases hw
  · intro m hv hnm hval hcm
    rw [hst] at hcm ⊢
    by_cases hmn : m = n
    · subst hmn
      have := R.self.1
      rw [virt_nodeD, virtNode_recomputedAt] at this
      exact this
    · by_cases hm : m < s.nodes.size
      · obtain ⟨mv, mc, mr, mt⟩ := old m hm hmn hv
        have hnm0 : ∀ p i, (s.nodeD m).kind ≠ .mapRef p i := by intro p i; rw [← (V.kind m hm).1]; exact hnm p i
        rw [mr]
        refine C m mv hnm0 ?_ (by rw [← mc]; exact hcm)
        rw [stored_eq_tv (g := g) hnm0, ← mt, ← stored_eq_tv (g := g') hnm]; exact hval
      · by_cases hm' : m < s'.nodes.size
        · rw [newv m (by omega) hm'] at hval; cases hval
        · rw [nodeD_default_of_ge s' m (by omega)] at hval; cases hval

end
end IncrVerif.Proofs.FullH
