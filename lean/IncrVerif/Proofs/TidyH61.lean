import IncrVerif.Proofs.TidyH60
import IncrVerif.Proofs.TidyH58
/-!
# T1b, part 4: the linking cascade (`becameNecessary`, `addParentWithoutAdjustingHeights`) bisimulates, with fuel
`N + 2 * n + 2` (the `markMapRefUnknown` calls of D1/D15 need `N - n`).
-/
namespace IncrVerif.Proofs.TidyH.RT
open IncrVerif.Engine IncrVerif.Driver IncrVerif.Proofs IncrVerif.Proofs.Step IncrVerif.Proofs.Sched IncrVerif.Proofs.Quiet
open IncrVerif.Proofs.MapRefH

section
variable {g : Nat → Option Val} {N : Nat} {K : Nat → Kind}

/-- `markMapRefUnknown` against the virtual no-op -/
theorem BSimAt.mmu_noop {fuel n : Nat} {s : State} (hn : n < N) (hf : N ≤ fuel + n) :
    BSimAt (P2 N K) g s (Engine.markMapRefUnknown fuel n) (pure ()) := by
  intro hp
  refine ⟨fun r s' hr => ?_, fun r t hr => ?_⟩
  · exact ⟨(SimAt.of_veq (g := g) (PresV.markMapRefUnknown fuel n) hp.fr r s' hr).1, markMapRefUnknown_p2 hp hr⟩
  · obtain ⟨s', hs'⟩ := markMapRefUnknown_returns fuel n s hp hn hf
    exact ⟨s', hs'⟩

/-- work that the virtual engine does not do, followed by `k` -/
theorem BSimAt.noop_seq {P : State → Prop} {β : Type} {s : State} {x : M Unit} {k : Unit → M β} {k' : M β}
    (hx : BSimAt P g s x (pure ())) (hk : ∀ s1, x.run.run s = (.ok (), s1) → BSimAt P g s1 (k ()) k') :
    BSimAt P g s (x >>= k) k' := by
  have := BSimAt.seq (f' := fun _ => k') hx fun a s1 h1 => hk s1 h1
  simpa only [pure_bind] using this

/-- recording a child edge keeps the carried invariant -/
theorem BSimAt.addParent {c i p : Nat} {s : State} (hc : c ∈ kidsR (K p)) :
    BSimAt (P2 N K) g s (Engine.addParent c i p) (Engine.addParent c i p) := by
  unfold Engine.addParent
  refine BSimAt.modNode' c (by vcomm) fun hp => ?_
  have hnd := fun m => nodeD_modify s c m (fun x => { x with parents := x.parents ++ [(p, i)] })
  refine ⟨fr_modify hp.fr c _ (by vkind), by simpa using hp.size, fun m => ?_, hp.fragK, hp.back,
    fun c' p' i' hm => ?_⟩
  · rw [hnd]; split <;> exact hp.kind m
  · rw [hnd] at hm; split at hm
    · rename_i e
      rcases List.mem_append.1 hm with h | h
      · exact hp.pu c' p' i' h
      · simp only [List.mem_singleton, Prod.mk.injEq] at h
        rw [h.1, ← e.1]; exact hc
    · exact hp.pu c' p' i' hm

theorem BSim.link (env : Env) (fuel : Nat) :
    (∀ n, n < N → N + 2 * n + 2 ≤ fuel →
      BSim (P2 N K) g (becameNecessary env fuel n) (becameNecessary (virtEnv env) fuel n)) ∧
    (∀ c i p, c ∈ kidsR (K p) → p < N → N + 2 * p + 1 ≤ fuel →
      BSim (P2 N K) g (addParentWithoutAdjustingHeights env fuel c i p)
        (addParentWithoutAdjustingHeights (virtEnv env) fuel c i p)) := by
  induction fuel with
  | zero =>
    constructor
    · intro n _ hf; omega
    · intro c i p _ _ hf; omega
  | succ fuel ih =>
    constructor
    · intro n hn hf s
      unfold becameNecessary
      bsim
      all_goals first
        | exact ih.2 _ _ _ (by rw [← P2.children hps]; assumption) hn (by omega) _
        | exact BSimAt.markMapRefUnknown hn (by omega)
        | bsim_kind
    · intro c i p hc hp hf s
      unfold addParentWithoutAdjustingHeights
      bsim
      all_goals first
        | exact BSimAt.addParent hc
        | exact ih.1 _ (Nat.lt_trans (hps.back _ _ hc) hp) (by have := hps.back _ _ hc; omega) _
        | (exfalso; simp_all; done)
        | bsim_kind
      all_goals first
        | bsim_kind
        | (refine BSimAt.ite_left
            (fun _ => BSimAt.noop_seq (BSimAt.mmu_noop hp (by omega)) fun _ _ => ?_) (fun _ => ?_) <;>
           bsim <;> bsim_kind)

/-- on a node that does not exist both engines panic -/
theorem BSimAt.becameNecessary_ge (env : Env) (fuel n : Nat) {s : State} (hn : N ≤ n) :
    BSimAt (P2 N K) g s (becameNecessary env fuel n) (becameNecessary (virtEnv env) fuel n) := by
  intro hp
  have hnone : s.nodes[n]? = none := Array.getElem?_eq_none (by rw [hp.size]; exact hn)
  refine ⟨fun r s' hr => ?_, fun r t hr => ?_⟩
  · cases fuel with
    | zero => unfold becameNecessary at hr; cases hr
    | succ fuel =>
      unfold becameNecessary at hr
      obtain ⟨nd, hnd, -⟩ := bind_getNode_inv hr
      rw [hnone] at hnd; cases hnd
  · cases fuel with
    | zero => unfold becameNecessary at hr; cases hr
    | succ fuel =>
      unfold becameNecessary at hr
      obtain ⟨nd, hnd, -⟩ := bind_getNode_inv hr
      rw [virt_getElem?, hnone] at hnd; cases hnd

theorem BSim.becameNecessary (env : Env) (fuel n : Nat) (hf : 3 * N ≤ fuel) :
    BSim (P2 N K) g (Engine.becameNecessary env fuel n) (Engine.becameNecessary (virtEnv env) fuel n) := by
  intro s
  by_cases hn : n < N
  · exact (BSim.link env fuel).1 n hn (by omega) s
  · exact BSimAt.becameNecessary_ge env fuel n (by omega)

theorem BSim.becameNecessaryPropagate (env : Env) (fuel n : Nat) (hf : 3 * N ≤ fuel) :
    BSim (P2 N K) g (Engine.becameNecessaryPropagate env fuel n)
      (Engine.becameNecessaryPropagate (virtEnv env) fuel n) := by
  intro s; unfold Engine.becameNecessaryPropagate
  refine BSimAt.seq (BSim.becameNecessary env fuel n hf s) fun _ _ _ => ?_
  bsim

/-- **the first phase of `stabilise` bisimulates** (fuel `3 * N`) -/
theorem BSim.addNewObservers (env : Env) (fuel : Nat) (hf : 3 * N ≤ fuel) :
    BSim (P2 N K) g (Engine.addNewObservers env fuel) (Engine.addNewObservers (virtEnv env) fuel) := by
  intro s; unfold Engine.addNewObservers; bsim
  split <;> bsim
  exact BSim.becameNecessaryPropagate env fuel _ hf _

end
end IncrVerif.Proofs.TidyH.RT
