import IncrVerif.Proofs.HeightH3
/-!
# C19 for whole histories: the action `setMaxHeight` between actions
-/
namespace IncrVerif.Proofs.HeightH
open IncrVerif.Engine IncrVerif.Driver IncrVerif.Proofs IncrVerif.Proofs.Step IncrVerif.Proofs.Sched
open IncrVerif.Proofs.Quiet

/-- between actions every recompute-heap bucket above the largest height seen is empty -/
theorem droppedEmpty_of_inv {env : Env} {N k : Nat} {s : State} (Q : QInv env s) (T : TInvH N s)
    (hk : s.maxHeightSeen ≤ (k : Int)) : DroppedEmpty k s.rch.queues := by
  intro i hi x hx
  obtain ⟨hlt, rfl⟩ := Array.getElem?_eq_some_iff.1 hx
  cases hq : s.rch.queues[i] with
  | nil => rfl
  | cons n l =>
    exfalso
    have hmem : n ∈ s.rch.queues[i] := by rw [hq]; exact List.mem_cons_self ..
    obtain ⟨_, hh⟩ := (Q.struct.heap.wf.mem i hlt n).1 hmem
    have hin : (s.nodeD n).inRch = true := by
      simp only [Node.inRch, hh, decide_eq_true_eq]; omega
    have hnec : s.isNecessary n = true := by
      rcases Q.struct.qnec n hin with h | ⟨j, h⟩
      · exact h
      · cases h
    have h1 := Q.struct.hgt n hin rfl
    obtain ⟨h2, h3⟩ := T.hx n hnec rfl
    omega

/-- the recompute heap of the resized state is well formed -/
theorem resized_heapG {env : Env} {N k : Nat} {s : State} (Q : QInv env s) (T : TInvH N s)
    (hk : s.maxHeightSeen ≤ (k : Int)) : HeapG (resized k s) := by
  have hD := droppedEmpty_of_inv Q T hk
  obtain ⟨⟨hb, hl⟩, _⟩ := (HWF_release_iff s).2 Q.struct.heap.wf
  obtain ⟨hb', hs⟩ := BucketsOK.resize hb k ((dropped_all_iff k _).2 hD)
  refine ⟨(HWF_release_iff _).1 ⟨⟨hb', ?_⟩, fun h => by cases h⟩, ?_, ?_⟩
  · show s.rch.length = bucketSum (resizeQueues k s.rch.queues)
    rw [hs]; exact hl
  · intro m hm
    have := Q.struct.heap.lb m hm
    show min s.rch.lowerBound (((resizeQ k s.rch.queues).size : Int) + 1) ≤ (s.nodeD m).heightInRch
    omega
  · have := Q.struct.heap.lb0
    show 0 ≤ min s.rch.lowerBound (((resizeQ k s.rch.queues).size : Int) + 1)
    omega

/-- the structural invariant does not read the bucket vectors, except in `heap` -/
theorem resized_struct {env : Env} {N k : Nat} {s : State} (Q : QInv env s) (T : TInvH N s)
    (hk : s.maxHeightSeen ≤ (k : Int)) : Struct env (resized k s) := by
  have I := Q.struct
  exact {
    static := ⟨I.static.pc, I.static.scope, fun n hn =>
      have h := I.static.node n hn
      ⟨h.valid, h.kind, h.cutoff, h.top, h.force, h.kidsLt⟩⟩
    par := I.par
    conv := I.conv
    nodup := I.nodup
    hlt := I.hlt
    hpos := I.hpos
    lnec := I.lnec
    unec := I.unec
    heap := resized_heapG Q T hk
    hgt := I.hgt
    qnec := I.qnec
    queued := I.queued
    qstale := I.qstale
    opLt := I.opLt }

theorem resized_qinv {env : Env} {N k : Nat} {s : State} (Q : QInv env s) (T : TInvH N s)
    (hk : s.maxHeightSeen ≤ (k : Int)) : QInv env (resized k s) where
  struct := resized_struct Q T hk
  vars := ⟨Q.vars.node, Q.vars.cell⟩
  obs := ⟨Q.obs.inRange, Q.obs.mem, Q.obs.created, Q.obs.newIn, Q.obs.dis, Q.obs.disIn, Q.obs.disNodup⟩
  now := Q.now
  stamps := Q.stamps
  varStamp := Q.varStamp
  cons := Q.cons
  status := Q.status
  alive := Q.alive
  setDuringStab := Q.setDuringStab
  deadVars := Q.deadVars
  handleAfterStab := Q.handleAfterStab
  handlers := Q.handlers
  pinv := Q.pinv
  top := Q.top

theorem resized_tinvH {N k : Nat} {s : State} (T : TInvH N s)
    (hk : s.maxHeightSeen ≤ (k : Int)) : TInvH k (resized k s) where
  hx := by
    intro m hm ho
    have := T.hx m hm ho
    rw [needH_congr (s := s) (s' := resized k s) (fun _ => rfl)]
    exact this
  room := by
    have hf := resized_facts k s
    exact ⟨hf.2.2.2.1, hf.2.2.1, hk, T.room.seen0⟩
  ahh0 := T.ahh0
  linked := T.linked
  topSize := T.topSize
  newNodup := T.newNodup
  newState := T.newState

/-- **`set_max_height_allowed` between actions, exactly.**  It is accepted iff the new limit is at least the
largest height seen; then both heaps are resized, nothing else changes, and the invariants hold with the new limit.
Otherwise it panics with the "below-max-seen" diagnostic and changes nothing. -/
theorem setMaxHeight_step {env : Env} {N k : Nat} {s : State} {tk : Array Nat} (Q : QInv env s) (T : TInvH N s) :
    (s.maxHeightSeen ≤ (k : Int) →
      (stepAction env (.setMaxHeight k) tk).run.run s = (.ok ("ok", tk), resized k s) ∧
      QInv env (resized k s) ∧ TInvH k (resized k s)) ∧
    ((k : Int) < s.maxHeightSeen →
      (stepAction env (.setMaxHeight k) tk).run.run s =
        (.error (.site "adjust_heights_heap:set_max_height_allowed:below-max-seen"), s)) := by
  have hst : s.status ≠ .stabilising := by rw [Q.status]; intro h; cases h
  constructor
  · intro hk
    refine ⟨?_, resized_qinv Q T hk, resized_tinvH T hk⟩
    have hrun : (setMaxHeightAllowed k).run.run s = (.ok (), resized k s) :=
      (smha_ok_iff k s (resized k s)).2 ⟨hst, hk, Or.inr ⟨T.ahh0, droppedEmpty_of_inv Q T hk⟩, rfl⟩
    unfold stepAction
    rw [run_bind_ok hrun, run_pure]
  · intro hk
    have hrun : (setMaxHeightAllowed k).run.run s =
        (.error (.site "adjust_heights_heap:set_max_height_allowed:below-max-seen"), s) := by
      rw [setMaxHeightAllowed_run, if_neg hst, if_pos hk]
    unfold stepAction
    exact run_bind_err hrun

end IncrVerif.Proofs.HeightH
