import IncrVerif.Proofs.ExpertH53
/-!
# Expert nodes, E2: the callback discipline — what the edge callbacks stored (`slots`)

`Good env s er`: for every dependency of the record that has a callback, the stored slot is the CURRENT value of the
dependency's child (`none` when the child has no value yet).
`SlotInv env s`: dependency names are unique and below `nextDep`; a record whose "fire all callbacks" flag is down
belongs to a necessary node; every expert node whose flag is down, or that is not stale, is `Good`.
-/
namespace IncrVerif.Proofs.ExpertH
open IncrVerif.Engine IncrVerif.Driver IncrVerif.Proofs IncrVerif.Proofs.Step IncrVerif.Proofs.Sched
open IncrVerif.Proofs.ExpertH.QR IncrVerif.Proofs.Xp

def Good (env : Env) (s : State) (er : ExpertRec) : Prop :=
  ∀ ed, ed ∈ er.children → ed.cb.isSome = true → er.slots.lookup ed.dep = s.value env ed.child

structure SlotInv (env : Env) (s : State) : Prop where
  /-- dependency names: pairwise distinct within a record, all (also the keys of the slots) below `nextDep` -/
  deps : ∀ (e : Nat) (er : ExpertRec), s.experts[e]? = some er →
    (er.children.map (·.dep)).Nodup ∧ (∀ ed, ed ∈ er.children → ed.dep < s.nextDep) ∧
      (∀ p, p ∈ er.slots → p.1 < s.nextDep)
  /-- the "fire all" flag is down only on necessary nodes -/
  flag : ∀ (n e : Nat) (er : ExpertRec), (s.nodeD n).kind = .expert e → s.experts[e]? = some er →
    er.willFireAllCallbacks = false → s.isNecessary n = true
  /-- the callbacks have kept the slots up to date -/
  good : ∀ (n e : Nat) (er : ExpertRec), (s.nodeD n).kind = .expert e → s.experts[e]? = some er →
    (er.willFireAllCallbacks = false ∨ s.isStale n = false) → Good env s er

theorem slotInv_init (env : Env) (N : Nat) (d : Bool) : SlotInv env (State.init N d) :=
  ⟨fun e er h => by simp [State.init] at h, fun n e er _ h => by simp [State.init] at h,
    fun n e er _ h => by simp [State.init] at h⟩

end IncrVerif.Proofs.ExpertH
