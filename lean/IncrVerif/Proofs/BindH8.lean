import IncrVerif.Proofs.BindH7
/-!
# Binds, part 3e: `stepL_inv` — a run of a change detector re-establishes the drain invariant
-/
namespace IncrVerif.Proofs.BindH
open IncrVerif.Engine IncrVerif.Proofs IncrVerif.Proofs.Step IncrVerif.Proofs.Sched

section
variable {env : Env} {n b : Nat} {br br' : BindRec} {r : Option Nat} {s s' : State}

/-- the key of the `fresh` field: a path of the new graph from a kept old node to a node that is stale (or handed
over) afterwards gives, in the OLD graph, a path to a node that was stale before (and is not `n`), or to `n` itself -/
theorem StepL.path_old (R : StepL env n b br br' r s s') (I : DInv env s (some n))
    (hk : (s.nodeD n).kind = .bindLhsChange b) {a d : Nat} (h : Below s' a d)
    (hd : s'.isStale d = true ∨ r = some d) (ha : a < s.nodes.size)
    (hva : (s'.nodeD a).valid = true) :
    ∃ d0, Below s a d0 ∧ ((s.isStale d0 = true ∧ d0 ≠ n) ∨ (d0 = n ∧ a ≠ n)) := by
  have g := I.graph
  obtain ⟨hn, hnlt, hnv, -, -⟩ := I.cur_facts
  obtain ⟨hmlt, hmc, hmc', hmn⟩ := R.main
  -- the main node always works
  have hmainOK : ∀ x, x = br.main → ∃ d0, Below s x d0 ∧ ((s.isStale d0 = true ∧ d0 ≠ n) ∨ (d0 = n ∧ x ≠ n)) := by
    intro x hx
    subst hx
    exact ⟨n, Below.of_edge (Edge.child hmc), Or.inr ⟨rfl, hmn⟩⟩
  induction h with
  | refl a =>
    by_cases ham : a = br.main
    · exact hmainOK a ham
    by_cases han : a = n
    · exfalso
      subst han
      rcases hd with hd | hd
      · rw [R.self_fresh I] at hd; cases hd
      · exact hmn.symm ((R.ret a hd).1)
    · rcases hd with hd | hd
      · rw [R.stale_kept g hk ha han ham hva] at hd
        exact ⟨a, Below.refl a, Or.inl ⟨hd, han⟩⟩
      · exact absurd (R.ret a hd).1 ham
  | step he hcd ih =>
    rename_i a c d
    by_cases ham : a = br.main
    · exact hmainOK a ham
    have he0 : Edge s a c := R.edge_old hnv ha ham he
    -- `c` is an old node that is still valid
    have hc : c < s.nodes.size ∧ (s'.nodeD c).valid = true :=
      ⟨(g.edge_target he0).1, (R.graph'.edge_target he).2⟩
    obtain ⟨d0, hb0, hcase⟩ := ih hd hc.1 hc.2
    refine ⟨d0, Below.step he0 hb0, ?_⟩
    rcases hcase with h1 | ⟨h1, h2⟩
    · exact Or.inl h1
    · refine Or.inr ⟨h1, ?_⟩
      intro e
      subst e
      subst h1
      exact g.no_cycle hb0 he0

/-- **A run of a change detector re-establishes the drain invariant**, with the bind's main node as the new current
node if it was handed over. -/
theorem stepL_inv (I : DInv env s (some n)) (hk : (s.nodeD n).kind = .bindLhsChange b)
    (R : StepL env n b br br' r s s') : DInv env s' r := by
  have g := I.graph
  obtain ⟨hn, hnlt, hnv, hnq, hnr⟩ := I.cur_facts
  obtain ⟨hmlt, hmc, hmc', hmn⟩ := R.main
  refine ⟨R.graph', R.heap', R.stamps', R.qstale', R.pending', ?_, ?_, ?_⟩
  · -- cons
    intro m hmlt' hmv hst
    by_cases hnew : s.nodes.size ≤ m
    · rw [(R.new m hnew hmlt').2.2 hmv] at hst; cases hst
    have hm : m < s.nodes.size := by omega
    by_cases hmn' : m = n
    · subst hmn'
      refine ⟨.unit, ?_, R.self.2.2.1⟩
      unfold TargetB
      rw [R.self.2.2.2.2.1, hk]
    by_cases hmm : m = br.main
    · subst hmm
      rw [R.main_stale I hmv] at hst; cases hst
    obtain ⟨hv, k1, -, k3, -, -, k6⟩ := R.kept hm hmn' hmv
    have hB := (g.node m hm hv).1
    rw [R.stale_kept g hk hm hmn' hmm hmv] at hst
    obtain ⟨w, hw, hval⟩ := I.cons m hm hv hst
    refine ⟨w, ?_, by rw [k3]; exact hval⟩
    apply TargetB.congr' hv hB k1 R.vars _ _ hw
    · intro b2 lc2 hk2
      by_cases hb2 : b2 = b
      · exfalso
        subst hb2
        obtain ⟨br0, h2, h3, -⟩ := g.mainRec m b2 lc2 hm hv hk2
        rw [R.bind] at h2; cases h2
        exact hmm h3.symm
      · exact R.bindsOther.2 b2 hb2
    · intro c hc
      have hclt := ((g.node m hm hv).2.2 c hc).1
      have hcn : c ≠ n := by
        intro e; subst e
        exact hmm (R.lc_only g hk hm hv hc)
      have hcv' : (s'.nodeD c).valid = true :=
        ((R.graph'.node m hmlt' hmv).2.2 c (by rw [k6 hmm]; exact hc)).2
      exact (R.kept hclt hcn hcv').2.2.2.1
  · -- fresh
    intro a d hbel hd
    rw [R.stabNum]
    by_cases hnew : s.nodes.size ≤ a
    · by_cases ha' : a < s'.nodes.size
      · rw [(R.new a hnew ha').1]; have := I.stamps.now; omega
      · rw [nodeD_default_of_ge s' a (by omega)]
        show (-1 : Int) < s.stabNum
        have := I.stamps.now; omega
    have ha : a < s.nodes.size := by omega
    -- an invalid node has no edges and is neither stale nor handed over
    cases hva : (s'.nodeD a).valid with
    | false =>
      exfalso
      have had : a = d := by
        cases hbel with
        | refl => rfl
        | step he _ => rw [he.valid] at hva; cases hva
      subst had
      rcases hd with hd | hd
      · rw [isStale_invalid hva] at hd; cases hd
      · obtain ⟨-, -, h3, -⟩ := R.ret a hd
        rw [(R.graph'.nec a h3).1] at hva; cases hva
    | true =>
      obtain ⟨d0, hb0, hcase⟩ := R.path_old I hk hbel hd ha hva
      have key : (s.nodeD a).recomputedAt < s.stabNum ∧ a ≠ n := by
        rcases hcase with ⟨h1, h2⟩ | ⟨h1, h2⟩
        · refine ⟨I.fresh a d0 hb0 (Or.inl h1), ?_⟩
          intro e
          subst e
          have hdn := (g.below_nec hb0 hn).1
          rcases I.pending d0 hdn h1 with h3 | h3
          · rw [(I.cur a rfl).2 d0 hb0] at h3; cases h3
          · injection h3 with h3; exact h2 h3.symm
        · subst h1
          exact ⟨I.fresh a d0 hb0 (Or.inr rfl), h2⟩
      rw [(R.kept ha key.2 hva).2.2.2.2.1]
      exact key.1
  · -- cur
    intro p hp
    obtain ⟨-, hq, hnec, hmin⟩ := R.ret p hp
    refine ⟨hnec, ?_⟩
    intro d hd
    by_cases hdp : d = p
    · rw [hdp]; exact hq
    · cases hq' : (s'.nodeD d).inRch with
      | false => rfl
      | true =>
        have := hmin d hq'
        have := R.graph'.below_lt hd hnec (Ne.symm hdp)
        omega

end

end IncrVerif.Proofs.BindH
