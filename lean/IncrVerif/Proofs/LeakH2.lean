import IncrVerif.Proofs.LeakH1
/-!
# C12 over histories, part 2: the invariant does not read the ownership counters

`strip s` forgets what only the ownership component reads: the program's node handles, the `Var` handle counts
and the list of variables waiting for `break_rc_cycle`.  The structural predicates of `Proofs/Quiet*.lean` read
variables only through `(node, value, setAt)`; they transfer from `strip s` to `s`.
-/
namespace IncrVerif.Proofs.LeakH
open IncrVerif.Engine IncrVerif.Driver IncrVerif.Proofs IncrVerif.Proofs.Step IncrVerif.Proofs.Sched
open IncrVerif.Proofs.Quiet

/-- forget the program's handles on nodes and variables and the pending `break_rc_cycle` list -/
def strip (s : State) : State :=
  { s with deadVars := [], handles := [], vars := s.vars.map fun vc => { vc with handles := 1 } }

/-- what the engine reads of a variable cell (outside the ownership component and the write guard) -/
def vkey (vc : VarCell) : Nat × Val × Int := (vc.node, vc.value, vc.setAt)

def VEq (a b : Array VarCell) : Prop := ∀ c : Nat, (b[c]?).map vkey = (a[c]?).map vkey

theorem VEq.symm {a b : Array VarCell} (h : VEq a b) : VEq b a := fun c => (h c).symm

theorem VEq.get_some {a b : Array VarCell} (h : VEq a b) {c : Nat} {vc' : VarCell} (hb : b[c]? = some vc') :
    ∃ vc, a[c]? = some vc ∧ vc.node = vc'.node ∧ vc.value = vc'.value ∧ vc.setAt = vc'.setAt := by
  have := h c
  rw [hb] at this
  cases ha : a[c]? with
  | none => rw [ha] at this; cases this
  | some vc =>
    rw [ha] at this
    simp only [Option.map_some, Option.some.injEq, vkey, Prod.mk.injEq] at this
    exact ⟨vc, rfl, this.1.symm, this.2.1.symm, this.2.2.symm⟩

theorem VEq.get_none {a b : Array VarCell} (h : VEq a b) {c : Nat} (hb : b[c]? = none) : a[c]? = none := by
  have := h c
  rw [hb] at this
  cases ha : a[c]? with
  | none => rfl
  | some vc => rw [ha] at this; cases this

theorem veq_strip (vs : Array VarCell) : VEq (vs.map fun vc => { vc with handles := 1 }) vs := by
  intro c
  rw [Array.getElem?_map]
  cases vs[c]? <;> rfl

theorem staleOf_veq {a b : State} (hnd : ∀ m, b.nodeD m = a.nodeD m) (hv : VEq a.vars b.vars) (m : Nat) :
    staleOf b m = staleOf a m := by
  unfold staleOf
  rw [hnd m]
  cases hk : (a.nodeD m).kind <;> simp only [hnd]
  case var c =>
    cases hb : b.vars[c]? with
    | none => rw [hv.get_none hb]
    | some vc' =>
      obtain ⟨vc, ha, -, -, h3⟩ := hv.get_some hb
      rw [ha]; simp only [h3]

theorem target_veq {env : Env} {a b : State} (hnd : ∀ m, b.nodeD m = a.nodeD m) (hv : VEq a.vars b.vars)
    {m : Nat} {w : Val} (h : Target env a m w) : Target env b m w := by
  unfold Target at h ⊢
  rw [hnd m]
  have hp : ∀ args, plainVals b args = plainVals a args := fun args => by
    unfold plainVals
    exact evalArgs_congr _ _ _ (fun x _ => by rw [hnd x])
  cases hk : (a.nodeD m).kind <;> rw [hk] at h <;> simp only at h ⊢ <;> try exact h
  case var c =>
    obtain ⟨vc, hc, hw⟩ := h
    obtain ⟨vc', hb, -, h2, -⟩ := hv.symm.get_some hc
    exact ⟨vc', hb, by rw [hw, h2]⟩
  case map f args => rw [hp]; exact h
  case fold f init cs => rw [hp]; exact h

theorem consistent_veq {env : Env} {a b : State} (hnd : ∀ m, b.nodeD m = a.nodeD m) (hv : VEq a.vars b.vars)
    {m : Nat} (h : Consistent env a m) : Consistent env b m := by
  obtain ⟨w, hw, hval⟩ := h
  exact ⟨w, target_veq hnd hv hw, by rw [hnd m]; exact hval⟩

theorem varsOK_veq {a b : State} (hsz : b.nodes.size = a.nodes.size) (hnd : ∀ m, b.nodeD m = a.nodeD m)
    (hv : VEq a.vars b.vars) (V : VarsOK a) : VarsOK b where
  node n c hn hk := by
    rw [hsz] at hn
    rw [hnd] at hk
    obtain ⟨vc, hc, hnode⟩ := V.node n c hn hk
    obtain ⟨vc', hb, h1, -, -⟩ := hv.symm.get_some hc
    exact ⟨vc', hb, by rw [h1, hnode]⟩
  cell c vc' hb := by
    obtain ⟨vc, ha, h1, -, -⟩ := hv.get_some hb
    rw [hsz, hnd, ← h1]
    exact V.cell c vc ha

/-- the structural invariant reads variables only through `setAt` -/
theorem ginv_vars {env : Env} {a : State} {op : Nat → Op} {vs : Array VarCell} (I : GInv env a op)
    (hv : VEq a.vars vs) : GInv env { a with vars := vs } op := by
  have hst : ∀ m, staleOf { a with vars := vs } m = staleOf a m :=
    staleOf_veq (a := a) (b := { a with vars := vs }) (fun _ => rfl) hv
  exact {
    static := ⟨I.static.pc, I.static.scope, fun n hn =>
      have sn := I.static.node n hn
      ⟨sn.valid, sn.kind, sn.cutoff, sn.top, sn.force, sn.kidsLt⟩⟩
    par := I.par
    conv := I.conv
    nodup := I.nodup
    hlt := I.hlt
    hpos := I.hpos
    lnec := I.lnec
    unec := I.unec
    heap := ⟨⟨I.heap.wf.mem, I.heap.wf.nodup, I.heap.wf.length, I.heap.wf.range⟩, I.heap.lb, I.heap.lb0⟩
    hgt := I.hgt
    qnec := I.qnec
    queued := fun m ho hn hs => I.queued m ho hn (by rw [← hst]; exact hs)
    qstale := fun m hm => by rw [hst]; exact I.qstale m hm
    opLt := I.opLt }

end IncrVerif.Proofs.LeakH
