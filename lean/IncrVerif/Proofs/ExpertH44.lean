import IncrVerif.Proofs.ExpertH11
import IncrVerif.Proofs.ExpertH2
/-!
# Expert nodes, `add_dependency`: changing the (virtual) kind of one node — pure lemmas about `QR.GInv` / `QR.QInv`

`Rekind n k' S S2`: `S2` is `S` with the kind of node `n` replaced by `k'` and its `recomputedAt` reset to `-1`
(this is what `modExpert … children := … ++ [edge], forceStale := true` does to the virtual state).
* `GInv.rekind_unnec`, `QInv.rekind_unnec`: an UNNECESSARY node may get any static kind (with a rank for the new graph).
* `GInv.open_extend`: a NECESSARY closed node whose kind gets one more child becomes `.linking k` (`k` = old number of
  children): exactly the old child edges are recorded.
-/
namespace IncrVerif.Proofs.ExpertH
open IncrVerif.Engine IncrVerif.Driver IncrVerif.Proofs IncrVerif.Proofs.Step IncrVerif.Proofs.Sched
open IncrVerif.Proofs.ExpertH.QR

/-- the state fields the invariant between actions reads besides nodes, heap and variables -/
def qKey (s : State) :=
  (s.stabNum, s.status, s.alive, s.setDuringStab, s.deadVars, s.handleAfterStab, s.propagateInvalidity, s.top,
    s.observers, s.newObservers, s.disallowedObservers)

structure Rekind (n : Nat) (k' : Kind) (S S2 : State) : Prop where
  lt : n < S.nodes.size
  size : S2.nodes.size = S.nodes.size
  pc : S2.panicCountdown = S.panicCountdown
  scope : S2.currentScope = S.currentScope
  rch : S2.rch = S.rch
  vars : S2.vars = S.vars
  key : qKey S2 = qKey S
  other : ∀ m, m ≠ n → S2.nodeD m = S.nodeD m
  self : S2.nodeD n = { S.nodeD n with kind := k', recomputedAt := -1 }

namespace Rekind
variable {n : Nat} {k' : Kind} {S S2 : State}

theorem parents (R : Rekind n k' S S2) (m : Nat) : (S2.nodeD m).parents = (S.nodeD m).parents := by
  by_cases h : m = n
  · subst h; rw [R.self]
  · rw [R.other m h]
theorem observers (R : Rekind n k' S S2) (m : Nat) : (S2.nodeD m).observers = (S.nodeD m).observers := by
  by_cases h : m = n
  · subst h; rw [R.self]
  · rw [R.other m h]
theorem height (R : Rekind n k' S S2) (m : Nat) : (S2.nodeD m).height = (S.nodeD m).height := by
  by_cases h : m = n
  · subst h; rw [R.self]
  · rw [R.other m h]
theorem heightInRch (R : Rekind n k' S S2) (m : Nat) : (S2.nodeD m).heightInRch = (S.nodeD m).heightInRch := by
  by_cases h : m = n
  · subst h; rw [R.self]
  · rw [R.other m h]
theorem changedAt (R : Rekind n k' S S2) (m : Nat) : (S2.nodeD m).changedAt = (S.nodeD m).changedAt := by
  by_cases h : m = n
  · subst h; rw [R.self]
  · rw [R.other m h]
theorem value (R : Rekind n k' S S2) (m : Nat) : (S2.nodeD m).value = (S.nodeD m).value := by
  by_cases h : m = n
  · subst h; rw [R.self]
  · rw [R.other m h]
theorem num (R : Rekind n k' S S2) (m : Nat) :
    (S2.nodeD m).numOnUpdateHandlers = (S.nodeD m).numOnUpdateHandlers := by
  by_cases h : m = n
  · subst h; rw [R.self]
  · rw [R.other m h]
theorem nec (R : Rekind n k' S S2) (m : Nat) : S2.isNecessary m = S.isNecessary m := by
  by_cases h : m = n
  · subst h; simp only [State.isNecessary, Node.isNecessary, R.self]
  · simp only [State.isNecessary, R.other m h]
theorem inRch (R : Rekind n k' S S2) (m : Nat) : (S2.nodeD m).inRch = (S.nodeD m).inRch := by
  simp only [Node.inRch, R.heightInRch m]
theorem kind_self (R : Rekind n k' S S2) : (S2.nodeD n).kind = k' := by rw [R.self]
theorem kind_other (R : Rekind n k' S S2) {m : Nat} (h : m ≠ n) : (S2.nodeD m).kind = (S.nodeD m).kind := by
  rw [R.other m h]
theorem rec_self (R : Rekind n k' S S2) : (S2.nodeD n).recomputedAt = -1 := by rw [R.self]

theorem staleOf_other (R : Rekind n k' S S2) {m : Nat} (h : m ≠ n) : staleOf S2 m = staleOf S m :=
  staleOf_congr (R.kind_other h) (by rw [R.other m h]) R.vars (fun c _ => R.changedAt c)

theorem wants_other (R : Rekind n k' S S2) (op : Nat → Op) (p i : Nat) : Wants S2 op p i ↔ Wants S op p i := by
  unfold Wants; rw [R.nec]

theorem heap {S S2 : State} (R : Rekind n k' S S2) (h : HeapG S) : HeapG S2 :=
  h.congr R.rch R.size R.heightInRch

theorem plainVals (R : Rekind n k' S S2) (l : List Nat) : plainVals S2 l = plainVals S l := by
  unfold Sched.plainVals
  exact evalArgs_congr _ _ l (fun a _ => R.value a)

theorem consistent_other {env : Env} (R : Rekind n k' S S2) {m : Nat} (h : m ≠ n) (hc : Consistent env S m) :
    Consistent env S2 m := by
  obtain ⟨v, hv, hval⟩ := hc
  refine ⟨v, ?_, by rw [R.value]; exact hval⟩
  unfold Target at hv ⊢
  rw [R.kind_other h, R.vars]
  cases hk : (S.nodeD m).kind <;> rw [hk] at hv <;> simp only [] at hv ⊢ <;> first
    | exact hv
    | (rw [R.plainVals]; exact hv)

end Rekind

section
variable {env : Env} {rk rk' : Nat → Nat} {n : Nat} {k' : Kind} {S S2 : State}

/-- an unnecessary node may get any static kind -/
theorem GInv.rekind_unnec (I : GInv env rk S allClosed) (R : Rekind n k' S S2) (A : AllStatic env rk' S2)
    (hn : S.isNecessary n = false) : GInv env rk' S2 allClosed := by
  have hpn : ∀ c p i, (p, i) ∈ (S.nodeD c).parents → p ≠ n := by
    intro c p i hm e
    have := (I.par c p i hm).2
    rw [wants_closed rfl, e, hn] at this; cases this
  refine { static := A, par := ?_, conv := ?_, nodup := ?_, hlt := ?_, hpos := ?_, lnec := ?_, unec := ?_,
           heap := R.heap I.heap, hgt := ?_, qnec := ?_, queued := ?_, qstale := ?_, opLt := ?_ }
  · intro c p i hm
    rw [R.parents] at hm
    have hp := hpn c p i hm
    rw [R.kind_other hp, R.wants_other]
    exact I.par c p i hm
  · intro p i c hk hw
    rw [R.wants_other] at hw
    have hp : p ≠ n := by
      intro e; rw [wants_closed rfl, e, hn] at hw; cases hw
    rw [R.kind_other hp] at hk
    rw [R.parents]; exact I.conv p i c hk hw
  · intro c; rw [R.parents]; exact I.nodup c
  · intro c p i hm ho
    rw [R.parents] at hm
    rw [R.height, R.height]; exact I.hlt c p i hm ho
  · intro m hm ho
    rw [R.nec] at hm; rw [R.height]; exact I.hpos m hm ho
  · intro p k ho; cases ho
  · intro p k ho; cases ho
  · intro m hq ho
    rw [R.inRch] at hq
    rw [R.heightInRch, R.height]; exact I.hgt m hq ho
  · intro m hq
    rw [R.inRch] at hq
    rw [R.nec]; exact I.qnec m hq
  · intro m ho hm hs
    rw [R.nec] at hm
    have hne : m ≠ n := by intro e; rw [e, hn] at hm; cases hm
    rw [R.staleOf_other hne] at hs
    rw [R.inRch]; exact I.queued m ho hm hs
  · intro m hq
    rw [R.inRch] at hq
    have hne : m ≠ n := by
      intro e
      rcases I.qnec m hq with h | ⟨k, h⟩
      · rw [e, hn] at h; cases h
      · cases h
    rw [R.staleOf_other hne]; exact I.qstale m hq
  · intro m ho; exact absurd rfl ho

theorem obsOK_rekind (R : Rekind n k' S S2) (O : ObsOK S) : ObsOK S2 := by
  have hk := R.key
  simp only [qKey, Prod.mk.injEq] at hk
  obtain ⟨-, -, -, -, -, -, -, -, ho, hno, hdo⟩ := hk
  unfold ObsOK at O ⊢
  rw [hno, hdo]
  exact ⟨fun o ob h => by rw [ho] at h; rw [R.size]; exact O.inRange o ob h,
    fun m o => by rw [R.observers, ho]; exact O.mem m o,
    fun o ob h => by rw [ho] at h; exact O.created o ob h,
    fun o h => by rw [ho]; exact O.newIn o h,
    fun o ob h => by rw [ho] at h; exact O.dis o ob h,
    fun o h => by rw [ho]; exact O.disIn o h, O.disNodup⟩

/-- everything of `QInv` but the structure -/
structure QRest (env : Env) (s : State) : Prop where
  vars : VarsOK s
  obs : ObsOK s
  now : 0 ≤ s.stabNum
  stamps : ∀ m, (s.nodeD m).recomputedAt < s.stabNum ∧ (s.nodeD m).changedAt < s.stabNum
  varStamp : ∀ (c : Nat) (vc : VarCell), s.vars[c]? = some vc → vc.setAt ≤ s.stabNum
  cons : ∀ m, m < s.nodes.size → staleOf s m = false → Consistent env s m
  status : s.status = .notStabilising
  alive : s.alive = true
  setDuringStab : s.setDuringStab = []
  deadVars : s.deadVars = []
  handleAfterStab : s.handleAfterStab = []
  handlers : ∀ m, (s.nodeD m).numOnUpdateHandlers ≤ 0
  pinv : s.propagateInvalidity = []
  top : ∀ (k n : Nat), s.top[k]? = some n → n < s.nodes.size

theorem QInv.rest (Q : QInv env rk S) : QRest env S :=
  ⟨Q.vars, Q.obs, Q.now, Q.stamps, Q.varStamp, Q.cons, Q.status, Q.alive, Q.setDuringStab, Q.deadVars,
    Q.handleAfterStab, Q.handlers, Q.pinv, Q.top⟩

theorem QRest.inv (Q : QRest env S) (I : Struct env rk S) : QInv env rk S :=
  ⟨I, Q.vars, Q.obs, Q.now, Q.stamps, Q.varStamp, Q.cons, Q.status, Q.alive, Q.setDuringStab, Q.deadVars,
    Q.handleAfterStab, Q.handlers, Q.pinv, Q.top⟩

/-- everything of `QInv` but the structure, after a kind change of a node that is stale afterwards -/
theorem QRest.rekind (Q : QRest env S) (R : Rekind n k' S S2)
    (hst : staleOf S2 n = true) (hkv : ∀ c, k' ≠ .var c) (hko : ∀ c, (S.nodeD n).kind ≠ .var c) :
    QRest env S2 := by
  have hk := R.key
  simp only [qKey, Prod.mk.injEq] at hk
  obtain ⟨h1, h2, h3, h4, h5, h6, h7, h8, -, -, -⟩ := hk
  refine { vars := ?_, obs := obsOK_rekind R Q.obs, now := by rw [h1]; exact Q.now, stamps := ?_,
           varStamp := ?_, cons := ?_, status := by rw [h2]; exact Q.status, alive := by rw [h3]; exact Q.alive,
           setDuringStab := by rw [h4]; exact Q.setDuringStab, deadVars := by rw [h5]; exact Q.deadVars,
           handleAfterStab := by rw [h6]; exact Q.handleAfterStab, handlers := ?_,
           pinv := by rw [h7]; exact Q.pinv, top := ?_ }
  · refine ⟨fun m c hm hkm => ?_, fun c vc hc => ?_⟩
    · rw [R.size] at hm
      by_cases e : m = n
      · subst e; rw [R.kind_self] at hkm; exact absurd hkm (hkv c)
      · rw [R.kind_other e] at hkm; rw [R.vars]; exact Q.vars.node m c hm hkm
    · rw [R.vars] at hc
      obtain ⟨h1, h2⟩ := Q.vars.cell c vc hc
      have e : vc.node ≠ n := by intro e; rw [e] at h2; exact hko c h2
      rw [R.size, R.kind_other e]; exact ⟨h1, h2⟩
  · intro m
    rw [h1, R.changedAt]
    by_cases e : m = n
    · subst e; rw [R.rec_self]; exact ⟨by have := Q.now; omega, (Q.stamps m).2⟩
    · rw [R.other m e]; exact ⟨(Q.stamps m).1, (Q.stamps m).2⟩
  · intro c vc hc; rw [R.vars] at hc; rw [h1]; exact Q.varStamp c vc hc
  · intro m hm hs
    rw [R.size] at hm
    by_cases e : m = n
    · subst e; rw [hst] at hs; cases hs
    · rw [R.staleOf_other e] at hs
      exact R.consistent_other e (Q.cons m hm hs)
  · intro m; rw [R.num]; exact Q.handlers m
  · intro k m hkm; rw [h8] at hkm; rw [R.size]; exact Q.top k m hkm

/-- what the rest of the invariant reads of a node -/
def restKey (nd : Node) :=
  (nd.kind, nd.value, nd.recomputedAt, nd.changedAt, nd.observers, nd.numOnUpdateHandlers)

/-- the rest of the invariant only reads `restKey` of the nodes, the variables and `qKey` -/
theorem QRest.frame {S S' : State} (Q : QRest env S) (hsz : S'.nodes.size = S.nodes.size)
    (hnode : ∀ m, restKey (S'.nodeD m) = restKey (S.nodeD m)) (hv : S'.vars = S.vars) (hk : qKey S' = qKey S) :
    QRest env S' := by
  simp only [qKey, Prod.mk.injEq] at hk
  obtain ⟨h1, h2, h3, h4, h5, h6, h7, h8, ho, hno, hdo⟩ := hk
  have hn : ∀ m, (S'.nodeD m).kind = (S.nodeD m).kind ∧ (S'.nodeD m).value = (S.nodeD m).value ∧
      (S'.nodeD m).recomputedAt = (S.nodeD m).recomputedAt ∧ (S'.nodeD m).changedAt = (S.nodeD m).changedAt ∧
      (S'.nodeD m).observers = (S.nodeD m).observers ∧
      (S'.nodeD m).numOnUpdateHandlers = (S.nodeD m).numOnUpdateHandlers := by
    intro m
    have := hnode m
    simp only [restKey, Prod.mk.injEq] at this
    exact this
  have hstale : ∀ m, staleOf S' m = staleOf S m := fun m =>
    staleOf_congr (hn m).1 (hn m).2.2.1 hv (fun c _ => (hn c).2.2.2.1)
  have hpv : ∀ l, plainVals S' l = plainVals S l := fun l => by
    unfold Sched.plainVals
    exact evalArgs_congr _ _ l (fun a _ => (hn a).2.1)
  refine { vars := ?_, obs := ?_, now := by rw [h1]; exact Q.now, stamps := ?_,
           varStamp := ?_, cons := ?_, status := by rw [h2]; exact Q.status, alive := by rw [h3]; exact Q.alive,
           setDuringStab := by rw [h4]; exact Q.setDuringStab, deadVars := by rw [h5]; exact Q.deadVars,
           handleAfterStab := by rw [h6]; exact Q.handleAfterStab, handlers := ?_,
           pinv := by rw [h7]; exact Q.pinv, top := ?_ }
  · refine ⟨fun m c hm hkm => ?_, fun c vc hc => ?_⟩
    · rw [hsz] at hm; rw [(hn m).1] at hkm; rw [hv]; exact Q.vars.node m c hm hkm
    · rw [hv] at hc
      obtain ⟨h1, h2⟩ := Q.vars.cell c vc hc
      rw [hsz, (hn _).1]; exact ⟨h1, h2⟩
  · have O := Q.obs
    unfold ObsOK at O ⊢
    rw [hno, hdo]
    exact ⟨fun o ob h => by rw [ho] at h; rw [hsz]; exact O.inRange o ob h,
      fun m o => by rw [(hn m).2.2.2.2.1, ho]; exact O.mem m o,
      fun o ob h => by rw [ho] at h; exact O.created o ob h,
      fun o h => by rw [ho]; exact O.newIn o h,
      fun o ob h => by rw [ho] at h; exact O.dis o ob h,
      fun o h => by rw [ho]; exact O.disIn o h, O.disNodup⟩
  · intro m; rw [h1, (hn m).2.2.1, (hn m).2.2.2.1]; exact Q.stamps m
  · intro c vc hc; rw [hv] at hc; rw [h1]; exact Q.varStamp c vc hc
  · intro m hm hs
    rw [hsz] at hm
    rw [hstale] at hs
    obtain ⟨v, hv1, hv2⟩ := Q.cons m hm hs
    refine ⟨v, ?_, by rw [(hn m).2.1]; exact hv2⟩
    unfold Target at hv1 ⊢
    rw [(hn m).1, hv]
    cases hkd : (S.nodeD m).kind <;> rw [hkd] at hv1 <;> simp only [] at hv1 ⊢ <;> first
      | exact hv1
      | (rw [hpv]; exact hv1)
  · intro m; rw [(hn m).2.2.2.2.2]; exact Q.handlers m
  · intro k m hkm; rw [h8] at hkm; rw [hsz]; exact Q.top k m hkm

/-- **an unnecessary node may change its static kind** (it is stale afterwards) -/
theorem QInv.rekind_unnec (Q : QInv env rk S) (R : Rekind n k' S S2) (A : AllStatic env rk' S2)
    (hn : S.isNecessary n = false) (hst : staleOf S2 n = true) (hkv : ∀ c, k' ≠ .var c)
    (hko : ∀ c, (S.nodeD n).kind ≠ .var c) : QInv env rk' S2 :=
  (QRest.rekind (QInv.rest Q) R hst hkv hko).inv (GInv.rekind_unnec Q.struct R A hn)

/-- **a necessary closed node whose kind gets one more child is opened**: `.linking k`, `k` the old number of
children -/
theorem GInv.open_extend (I : GInv env rk S allClosed) (R : Rekind n k' S S2) (A : AllStatic env rk' S2)
    (hn : S.isNecessary n = true) {c : Nat} (hk : kids k' = kids (S.nodeD n).kind ++ [c])
    (hst : staleOf S2 n = true) :
    GInv env rk' S2 (upd allClosed n (.linking (kids (S.nodeD n).kind).length)) := by
  have hopn : upd allClosed n (.linking (kids (S.nodeD n).kind).length) n =
      .linking (kids (S.nodeD n).kind).length := upd_self ..
  have hopo : ∀ m, m ≠ n → upd allClosed n (.linking (kids (S.nodeD n).kind).length) m = .closed :=
    fun m h => upd_other _ _ _ h
  have hkidsn : kids (S2.nodeD n).kind = kids (S.nodeD n).kind ++ [c] := by rw [R.kind_self]; exact hk
  refine { static := A, par := ?_, conv := ?_, nodup := ?_, hlt := ?_, hpos := ?_, lnec := ?_, unec := ?_,
           heap := R.heap I.heap, hgt := ?_, qnec := ?_, queued := ?_, qstale := ?_, opLt := ?_ }
  · intro c' p i hm
    rw [R.parents] at hm
    obtain ⟨h1, h2⟩ := I.par c' p i hm
    by_cases e : p = n
    · subst e
      have hi : i < (kids (S.nodeD p).kind).length := by
        rcases Nat.lt_or_ge i (kids (S.nodeD p).kind).length with h | h
        · exact h
        · rw [List.getElem?_eq_none h] at h1; cases h1
      refine ⟨?_, by rw [wants_linking hopn]; exact hi⟩
      rw [hkidsn, List.getElem?_append_left hi]; exact h1
    · rw [R.kind_other e]
      refine ⟨h1, ?_⟩
      rw [wants_closed (hopo p e), R.nec]
      exact (wants_closed rfl).1 h2
  · intro p i c' hkp hw
    rw [R.parents]
    by_cases e : p = n
    · subst e
      rw [wants_linking hopn] at hw
      rw [hkidsn, List.getElem?_append_left hw] at hkp
      exact I.conv p i c' hkp ((wants_closed rfl).2 hn)
    · rw [R.kind_other e] at hkp
      rw [wants_closed (hopo p e), R.nec] at hw
      exact I.conv p i c' hkp ((wants_closed rfl).2 hw)
  · intro c'; rw [R.parents]; exact I.nodup c'
  · intro c' p i hm ho
    rw [R.parents] at hm
    rw [R.height, R.height]; exact I.hlt c' p i hm rfl
  · intro m hm ho
    rw [R.nec] at hm; rw [R.height]; exact I.hpos m hm rfl
  · intro p k ho
    by_cases e : p = n
    · rw [e, R.nec]; exact hn
    · rw [hopo p e] at ho; cases ho
  · intro p k ho
    by_cases e : p = n
    · rw [e, hopn] at ho; cases ho
    · rw [hopo p e] at ho; cases ho
  · intro m hq ho
    rw [R.inRch] at hq
    rw [R.heightInRch, R.height]; exact I.hgt m hq rfl
  · intro m hq
    rw [R.inRch] at hq
    rw [R.nec]
    rcases I.qnec m hq with h | ⟨k, h⟩
    · exact Or.inl h
    · cases h
  · intro m ho hm hs
    have hne : m ≠ n := by intro e; rw [e, hopn] at ho; cases ho
    rw [R.nec] at hm
    rw [R.staleOf_other hne] at hs
    rw [R.inRch]; exact I.queued m rfl hm hs
  · intro m hq
    by_cases e : m = n
    · rw [e]; exact hst
    · rw [R.inRch] at hq
      rw [R.staleOf_other e]; exact I.qstale m hq
  · intro m ho
    by_cases e : m = n
    · rw [e, R.size]; exact R.lt
    · rw [hopo m e] at ho; exact absurd rfl ho

end
end IncrVerif.Proofs.ExpertH
