import IncrVerif.Proofs.NestH63
import IncrVerif.Proofs.NestH25
import IncrVerif.Proofs.NestH69
/-!
# Nested binds (F2), part 5e2: the closure run registers exactly the IMAGE of the closure's template — the loop, the run, `closure_elab2`

Port of BindH102.  The loop invariant `N5e.LK2` is self-contained (it carries the current scope), so the loop needs neither `NN.LI2` nor the structural
invariant; `GInv2` is used only for `All2.recs` (the main node of `b` is a node of the state), `All2.pc`, and for "the lhs is not a `mapRef`".
-/
namespace IncrVerif.Proofs.NestH
open IncrVerif.Engine IncrVerif.Proofs IncrVerif.Proofs.Step IncrVerif.Proofs.Sched IncrVerif.Proofs.Quiet
open IncrVerif.Proofs.BindH

namespace N5e

/-- `ElabOf2` only reads the naming table, the nodes and the bind table -/
theorem elabOf2_congr {s s' : State} {t : Template} {v : Val} {all locs : List Nat} {rhs : Nat}
    (htop : s'.top = s.top) (hn : ∀ m, s'.nodeD m = s.nodeD m) (hb : s'.binds = s.binds)
    (E : ElabOf2 s t v all locs rhs) : ElabOf2 s' t v all locs rhs where
  len := E.len
  img j i m hi hm :=
    instrImg_frame htop (hn m) (fun b2 br2 h _ => by rw [hb]; exact h) (E.img j i m hi hm)
  ret := by
    rw [C3e.resolveP_congr htop]
    exact E.ret
  reg := by
    rw [regOf_congr (s := s) (s' := s') (fun m _ => hn m)]
    exact E.reg

/-- the second loop invariant when `elabTemplate` starts -/
theorem entered_lk2 {s : State} {b : Nat} {br : BindRec} (e : Event) (tm : Template) (v : Val)
    (hb : s.binds[b]? = some br) (hm : br.main < s.nodes.size) : LK2 b br s tm v 0 [] (CN.entered b e s) := by
  refine ⟨?_, rfl, rfl, rfl, hm, ?_, ?_⟩
  · show (s.binds.modify b _)[b]? = _
    rw [Array.getElem?_modify, if_pos rfl, hb]; rfl
  · intro m hm
    cases hm
  · intro j' i m _ hm
    cases hm

/-- **the template**: `elabTemplate` inside the closure run registers the image of the template -/
theorem elabTemplate_elab2 {env : Env} {rk0 : Nat → Nat} {P : Nat → Prop} {b : Nat} {br : BindRec} {s0 : State}
    {tm : Template} {v : Val} {t t' : State} {rhs : Nat}
    (K : LK2 b br s0 tm v 0 [] t) (hT : TemplOK2 env rk0 s0 P br.lhsChange tm)
    (h : (elabTemplate env tm v).run.run t = (.ok rhs, t')) :
    ∃ loc, t'.binds[b]? = some { br with allNodesCreatedOnRhs := regOf t' loc } ∧
      ElabOf2 t' tm v (regOf t' loc) loc rhs := by
  unfold elabTemplate at h
  obtain ⟨loc, t1, h1, h2⟩ := bind_ok_inv h
  have hloop := forIn_ok_inv _ tm.instrs (fun j loc t => LK2 b br s0 tm v j loc t) ?_ tm.instrs 0 [] t loc t1 rfl
    (Nat.zero_le _) K h1
  · have K1 : LK2 b br s0 tm v tm.instrs.length loc t1 := hloop
    obtain ⟨et, hr⟩ := resolve_eq2 K1.top K1.len hT.2 h2
    subst et
    exact ⟨loc, K1.bind, K1.len, K1.img, hr, rfl⟩
  · intro j a loc0 t0 r t0' hj hK hrun
    have hK : LK2 b br s0 tm v j loc0 t0 := hK
    obtain ⟨ro, t2, h3, h4⟩ := bind_ok_inv hrun
    rcases elab_kind2 hK.top hK.len hK.scope (hT.1 j a hj) h3 with ⟨k, e, hk, C⟩ | ⟨body', o, lhs, ei, e, hr, C⟩
    · subst e
      simp only at h4
      obtain ⟨e1, e2⟩ := pure_ok_inv h4
      subst e2
      exact ⟨_, e1, hK.step_push hj hk C⟩
    · subst e
      subst ei
      simp only at h4
      obtain ⟨e1, e2⟩ := pure_ok_inv h4
      subst e2
      exact ⟨_, e1, hK.step_bind hj hr C⟩

/-- the lhs of a LIVE bind is a node of the fragment, hence not a `mapRef` (so its `State.value` is the stored value) -/
theorem lhs_plain2 {env : Env} {rk : Nat → Nat} {s : State} {b : Nat} {br : BindRec} (A : All2 env rk s [])
    (hb : s.binds[b]? = some br) (hv : (s.nodeD br.lhsChange).valid = true) :
    ∀ p i, (s.nodeD br.lhs).kind ≠ .mapRef p i := by
  obtain ⟨h1, h2, h3, -⟩ := A.recs b br hb
  have hlc : br.lhsChange < s.nodes.size := by omega
  have N := A.node br.lhsChange hlc
  have hch : br.lhs ∈ s.children br.lhsChange := by
    unfold State.children Node.kind?
    rw [hv, h3]
    simp only [if_true, hb]
    exact List.mem_singleton.2 rfl
  have hB := (A.node br.lhs (N.kidsIn _ hch)).kind
  intro p i hk
  rw [hk] at hB
  exact hB

end N5e

/-- **the closure run registers exactly the image of the closure's template** (fragment F2): after `lhsRunClosure` the list of registered nodes of bind `b`,
in creation order, is `regOf s' locs` for the list `locs` of locals, `locs` is the image (`ElabOf2`) of the template the closure yields for the stored
value `v` of the lhs, and the result is the resolved `ret` operand. -/
theorem closure_elab2 (env : Env) : ClosureElabSpec2 env := by
  intro n b rhs br rk s s' ex h I _ hb hlc hvalid hbody _
  have A0 := I.frag
  obtain ⟨f, hbody⟩ := hbody
  cases f with
  | zero => exact hbody.elim
  | succ f =>
    obtain ⟨v, e, t, hv, hrun, es'⟩ := C3e.lhsRunClosure_inv A0.pc h
    have hT : TemplOK2 env rk s (fun b' => BodyOK2 env rk s br.lhsChange f b') br.lhsChange (env.body br.body v) := by
      rw [hlc]; exact hbody v
    have hvlc : (s.nodeD br.lhsChange).valid = true := by rw [hlc]; exact hvalid
    obtain ⟨loc, hbl, E⟩ :=
      N5e.elabTemplate_elab2 (N5e.entered_lk2 e _ v hb (A0.recs b br hb).2.1) hT hrun
    have hval : (s.nodeD br.lhs).value = some v := by
      have hp : ∀ p i, ((CN.reset b s).nodeD br.lhs).kind ≠ .mapRef p i := N5e.lhs_plain2 (s := s) A0 hb hvlc
      rw [Step.value_plain env (CN.reset b s) br.lhs hp] at hv
      exact hv
    refine ⟨v, regOf t loc, loc, hval, ?_, ?_⟩
    · rw [es']; exact hbl
    · rw [es']
      exact N5e.elabOf2_congr (s := t) rfl (fun _ => rfl) rfl E

end IncrVerif.Proofs.NestH
