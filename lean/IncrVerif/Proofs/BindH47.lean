import IncrVerif.Proofs.BindH46
/-!
# Binds, fragment F1, part c: scope necessity (nodes of a scope are necessary only through the bind's main node); `BGraph` from `GInv1`
-/
namespace IncrVerif.Proofs.BindH
open IncrVerif.Engine IncrVerif.Proofs IncrVerif.Proofs.Step IncrVerif.Proofs.Sched IncrVerif.Proofs.Quiet

theorem children_lt_size {s : State} {p i c : Nat} (h : (s.children p)[i]? = some c) : p < s.nodes.size := by
  by_cases hp : p < s.nodes.size
  · exact hp
  · rw [children_default s p (by omega)] at h; simp at h

theorem lt_size_of_mem_children {s : State} {p c : Nat} (h : c ∈ s.children p) : p < s.nodes.size := by
  by_cases hp : p < s.nodes.size
  · exact hp
  · rw [children_default s p (by omega)] at h; cases h

namespace GInv1
variable {env : Env} {s : State} {op : Nat → Op} {ex : Nat → Prop} {dy : List Nat}

/-- the child list of a bind's main node -/
theorem main_children (I : GInv1 env s op ex dy) {b : Nat} {br : BindRec} (hb : s.binds[b]? = some br) :
    s.children br.main = br.lhsChange :: br.rhs.toList := by
  obtain ⟨-, h2, -, h4, -, h6⟩ := I.frag.recs b br hb
  have hv := ((I.frag.node br.main h2).top h6).1
  unfold State.children Node.kind?
  rw [hv, h4]
  simp only [if_true, hb]
  cases br.rhs <;> rfl

/-- **Scope necessity.** `P` is a set of nodes of scope `b` that contains, with a node, every node of the scope that has it as a child (e.g. the whole scope, or
the dying generation).  If the main node's edge to its right-hand side is not wanted, or the right-hand side is not in `P`, if no node is unlinking and
no node of `P` is forced, then no node of `P` has a recorded parent. -/
theorem scope_no_parents (I : GInv1 env s op ex dy) {b : Nat} {br : BindRec} (hb : s.binds[b]? = some br)
    (P : Nat → Prop) (hPs : ∀ m, P m → m < s.nodes.size ∧ (s.nodeD m).createdIn = .bind b)
    (hPup : ∀ p m, (s.nodeD p).createdIn = .bind b → m ∈ s.children p → P m → P p)
    (hmain : ∀ m, P m → br.rhs = some m → ¬ Wants s op br.main 1)
    (hnu : ∀ m k, op m ≠ .unlinking k) (hnf : ∀ m, P m → (s.nodeD m).forceNecessary = false) :
    ∀ m, P m → (s.nodeD m).parents = [] := by
  have A := I.frag
  -- induction on the distance of the rank to the main node's rank
  have key : ∀ d m, P m → rkOf s br.main - rkOf s m ≤ d → (s.nodeD m).parents = [] := by
    intro d
    induction d with
    | zero =>
      intro m hP hd
      have := (A.scope_rk (hPs m hP).1 (hPs m hP).2 hb).2
      omega
    | succ d ih =>
      intro m hP hd
      obtain ⟨hml, hmsc⟩ := hPs m hP
      cases hpar : (s.nodeD m).parents with
      | nil => rfl
      | cons x xs =>
        exfalso
        obtain ⟨p, i⟩ := x
        have hmem : (p, i) ∈ (s.nodeD m).parents := by rw [hpar]; exact List.mem_cons_self ..
        obtain ⟨hk, hw⟩ := I.par m p i hmem
        have hpl := children_lt_size hk
        have hmc : m ∈ s.children p := List.mem_of_getElem? hk
        cases hpsc : (s.nodeD p).createdIn with
        | top =>
          rcases ((A.node p hpl).top hpsc).2 m hmc with ⟨h1, -⟩ | ⟨b', lc, hkp, h1⟩
          · rw [hmsc] at h1; cases h1
          · rw [hmsc] at h1
            injection h1 with h1
            subst h1
            obtain ⟨br', hb', hm', hl'⟩ := (A.node p hpl).mainRec b lc hkp
            rw [hb] at hb'; cases hb'
            subst hm'
            rw [I.main_children hb] at hk
            match i, hk with
            | 0, hk =>
              simp at hk
              obtain ⟨-, -, -, -, h5, -⟩ := A.recs b br hb
              rw [hk] at h5
              rw [hmsc] at h5; cases h5
            | 1, hk =>
              cases hr : br.rhs with
              | none => rw [hr] at hk; simp at hk
              | some r =>
                rw [hr] at hk
                simp at hk
                subst hk
                exact hmain r hP hr hw
            | i + 2, hk =>
              cases hr : br.rhs <;> rw [hr] at hk <;> simp at hk
        | bind b' =>
          obtain ⟨-, -, br', hb', -, hkids⟩ := (A.node p hpl).inScope b' hpsc
          rcases hkids m hmc with ⟨h1, -⟩ | ⟨h1, -, -⟩
          · rw [hmsc] at h1; cases h1
          · rw [hmsc] at h1
            injection h1 with h1
            subst h1
            have hPp := hPup p m hpsc hmc hP
            have hrk := A.kid_rk hpl hmc
            have hpp := ih p hPp (by omega)
            -- `p` is not necessary, so the edge is not wanted
            have hnn : s.isNecessary p = false := by
              simp only [State.isNecessary, Node.isNecessary, hpp, I.scopeObs p b hpsc, hnf p hPp]
              rfl
            unfold Wants at hw
            cases hop : op p with
            | closed => rw [hop] at hw; simp only at hw; rw [hnn] at hw; cases hw
            | linking k => rw [I.lnec p k hop] at hnn; cases hnn
            | unlinking k => exact hnu p k hop
  intro m hP
  exact key _ m hP (Nat.le_refl _)

end GInv1

/-! ## at rest -/

/-- at rest, a necessary node of a bind's scope makes the bind's main node and change detector necessary -/
theorem scope_nec_rest {env : Env} {s : State} {ex : Nat → Prop} (I : GInv1 env s allClosed ex [])
    (hnf : ∀ m, (s.nodeD m).forceNecessary = false) {n b : Nat} {br : BindRec} (hn : n < s.nodes.size)
    (hsc : (s.nodeD n).createdIn = .bind b) (hb : s.binds[b]? = some br) (hnec : s.isNecessary n = true) :
    s.isNecessary br.main = true ∧ s.isNecessary br.lhsChange = true := by
  have hmain : s.isNecessary br.main = true := by
    cases h : s.isNecessary br.main with
    | true => rfl
    | false =>
      exfalso
      have hp := I.scope_no_parents hb (fun m => m < s.nodes.size ∧ (s.nodeD m).createdIn = .bind b)
        (fun m h => h)
        (fun p m hp hm _ => ⟨lt_size_of_mem_children hm, hp⟩)
        (fun m _ _ hw => by
          rw [wants_closed rfl] at hw
          rw [h] at hw; cases hw)
        (fun m k h => by cases h) (fun m _ => hnf m) n ⟨hn, hsc⟩
      simp only [State.isNecessary, Node.isNecessary, hp, I.scopeObs n b hsc, hnf n] at hnec
      cases hnec
  refine ⟨hmain, ?_⟩
  have hch := I.main_children hb
  have h0 : (s.children br.main)[0]? = some br.lhsChange := by rw [hch]; rfl
  exact nec_of_mem_parents (I.conv br.main 0 br.lhsChange h0 ((wants_closed rfl).2 hmain))

/-- `BGraph` from the structural invariant at rest -/
theorem bgraph_of_ginv1 {env : Env} {s : State} {ex : Nat → Prop} (I : GInv1 env s allClosed ex [])
    (hnf : ∀ m, (s.nodeD m).forceNecessary = false)
    (hvar : ∀ n c, n < s.nodes.size → (s.nodeD n).kind = .var c → ∃ vc, s.vars[c]? = some vc) :
    BGraph env s where
  pc := I.frag.pc
  node n hn _ := by
    have sn := I.frag.node n hn
    exact ⟨sn.kind, sn.cutoff, fun c hc => ⟨sn.kidsIn c hc, sn.kidsValid c hc⟩⟩
  nec n hn := by
    refine ⟨?_, I.hpos n hn rfl⟩
    cases hv : (s.nodeD n).valid with
    | true => rfl
    | false =>
      obtain ⟨h1, h2, h3, -, -⟩ := I.inv n hv
      simp only [State.isNecessary, Node.isNecessary, h1, h2, h3] at hn
      cases hn
  var n c hn _ hk := hvar n c hn hk
  child n hn i c hk := by
    have hm := I.conv n i c hk ((wants_closed rfl).2 hn)
    exact ⟨nec_of_mem_parents hm, hm, I.hlt c n i hm rfl⟩
  parent c p i h := by
    obtain ⟨h1, h2⟩ := I.par c p i h
    exact ⟨(wants_closed rfl).1 h2, h1⟩
  scope n b hn hv hsc := by
    obtain ⟨br, hb, -⟩ := I.frag.scope_bind hn hsc
    obtain ⟨h1, h2, -, -, h5, -⟩ := I.frag.recs b br hb
    have hl : br.lhsChange < s.nodes.size := by omega
    refine ⟨br, hb, hl, ((I.frag.node _ hl).top h5).1, ?_⟩
    intro hnec
    exact ⟨(scope_nec_rest I hnf hn hsc hb hnec).2, I.scopeH n b br hv hsc hb hnec rfl⟩
  lcRec n b hn _ hk := (I.frag.node n hn).lcRec b hk
  mainRec n b lc hn _ hk := by
    obtain ⟨br, h1, h2, h3⟩ := (I.frag.node n hn).mainRec b lc hk
    obtain ⟨-, -, -, -, h5, h6⟩ := I.frag.recs b br h1
    exact ⟨br, h1, h2, h3, by rw [← h3, ← h2, h5, h6]⟩
  lcChild m c b hm _ hc hk := (I.frag.node m hm).lcChild c b hc hk
  acyc := by
    refine ⟨rkOf s, ?_⟩
    intro a c h
    have ha := h.lt_size
    cases h with
    | child hc => exact I.frag.kid_rk ha hc
    | scope hv hsc hb => exact (I.frag.scope_rk ha hsc hb).1

theorem heapInv_of_ginv1 {env : Env} {s : State} {ex : Nat → Prop} {dy : List Nat}
    (I : GInv1 env s allClosed ex dy) : HeapInv s where
  wf := I.heap.wf
  hgt m hm := I.hgt m hm rfl
  lb m hm := by rw [← I.hgt m hm rfl]; exact I.heap.lb m hm
  lb0 := I.heap.lb0
  nec m hm := by
    rcases I.qnec m hm with h | ⟨k, h⟩
    · exact h
    · cases h

end IncrVerif.Proofs.BindH
