import IncrVerif.Proofs.DriverH1
/-!
# `RmSpec`, part 3: the PREPARE step (pure lemma about `QR.GInv`)
-/
namespace IncrVerif.Proofs.DriverH
open IncrVerif.Engine IncrVerif.Driver IncrVerif.Proofs IncrVerif.Proofs.Step IncrVerif.Proofs.Sched
open IncrVerif.Proofs.ExpertH IncrVerif.Proofs.ExpertH.QR

/-- `S1` is `S` with the children of `x` transposed at `i`/`k` (new kind `k'`), the parent-list entries `(x,i)`/`(x,k)`
renamed accordingly in ALL nodes, and `recomputedAt x := -1` -/
structure Prep (x i k : Nat) (k' : Kind) (S S1 : State) : Prop where
  lt : x < S.nodes.size
  size : S1.nodes.size = S.nodes.size
  pc : S1.panicCountdown = S.panicCountdown
  scope : S1.currentScope = S.currentScope
  rch : S1.rch = S.rch
  vars : S1.vars = S.vars
  parents : ∀ m, (S1.nodeD m).parents = (S.nodeD m).parents.map (Xp.renameIdx x i k)
  other : ∀ m, m ≠ x → S1.nodeD m = { S.nodeD m with parents := (S1.nodeD m).parents }
  self : S1.nodeD x = { S.nodeD x with kind := k', recomputedAt := -1, parents := (S1.nodeD x).parents }
  kidsP : ∀ j, (kids k')[j]? = (kids (S.nodeD x).kind)[Xp.swapNat i k j]?

/-! ## the transposition -/

theorem swapNat_invol (i k j : Nat) : Xp.swapNat i k (Xp.swapNat i k j) = j := by
  have := Xp.renameIdx_invol 0 i k (0, j)
  rw [Xp.renameIdx_same, Xp.renameIdx_same] at this
  exact (Prod.mk.inj this).2

theorem swapNat_lt {i k j K : Nat} (hi : i < K) (hk : k < K) (hj : j < K) : Xp.swapNat i k j < K := by
  unfold Xp.swapNat
  split
  · exact hk
  · split
    · exact hi
    · exact hj

theorem renameIdx_other {x i k p j : Nat} (h : p ≠ x) : Xp.renameIdx x i k (p, j) = (p, j) := by
  simp [Xp.renameIdx, h]

/-! ## field lemmas -/

namespace Prep
variable {x i k : Nat} {k' : Kind} {S S1 : State}

theorem valid (P : Prep x i k k' S S1) (m : Nat) : (S1.nodeD m).valid = (S.nodeD m).valid := by
  by_cases h : m = x
  · rw [h, P.self]
  · rw [P.other m h]
theorem cutoff (P : Prep x i k k' S S1) (m : Nat) : (S1.nodeD m).cutoff = (S.nodeD m).cutoff := by
  by_cases h : m = x
  · rw [h, P.self]
  · rw [P.other m h]
theorem createdIn (P : Prep x i k k' S S1) (m : Nat) : (S1.nodeD m).createdIn = (S.nodeD m).createdIn := by
  by_cases h : m = x
  · rw [h, P.self]
  · rw [P.other m h]
theorem forceNecessary (P : Prep x i k k' S S1) (m : Nat) :
    (S1.nodeD m).forceNecessary = (S.nodeD m).forceNecessary := by
  by_cases h : m = x
  · rw [h, P.self]
  · rw [P.other m h]
theorem observers (P : Prep x i k k' S S1) (m : Nat) : (S1.nodeD m).observers = (S.nodeD m).observers := by
  by_cases h : m = x
  · rw [h, P.self]
  · rw [P.other m h]
theorem height (P : Prep x i k k' S S1) (m : Nat) : (S1.nodeD m).height = (S.nodeD m).height := by
  by_cases h : m = x
  · rw [h, P.self]
  · rw [P.other m h]
theorem heightInRch (P : Prep x i k k' S S1) (m : Nat) : (S1.nodeD m).heightInRch = (S.nodeD m).heightInRch := by
  by_cases h : m = x
  · rw [h, P.self]
  · rw [P.other m h]
theorem changedAt (P : Prep x i k k' S S1) (m : Nat) : (S1.nodeD m).changedAt = (S.nodeD m).changedAt := by
  by_cases h : m = x
  · rw [h, P.self]
  · rw [P.other m h]
theorem kind_self (P : Prep x i k k' S S1) : (S1.nodeD x).kind = k' := by rw [P.self]
theorem kind_other (P : Prep x i k k' S S1) {m : Nat} (h : m ≠ x) : (S1.nodeD m).kind = (S.nodeD m).kind := by
  rw [P.other m h]
theorem rec_other (P : Prep x i k k' S S1) {m : Nat} (h : m ≠ x) :
    (S1.nodeD m).recomputedAt = (S.nodeD m).recomputedAt := by
  rw [P.other m h]
theorem inRch (P : Prep x i k k' S S1) (m : Nat) : (S1.nodeD m).inRch = (S.nodeD m).inRch := by
  simp only [Node.inRch, P.heightInRch m]

theorem nec (P : Prep x i k k' S S1) (m : Nat) : S1.isNecessary m = S.isNecessary m := by
  simp only [State.isNecessary, Node.isNecessary, P.observers m, P.forceNecessary m, P.parents m,
    List.isEmpty_map]

theorem staleOf_other (P : Prep x i k k' S S1) {m : Nat} (h : m ≠ x) : staleOf S1 m = staleOf S m :=
  staleOf_congr (P.kind_other h) (P.rec_other h) P.vars (fun c _ => P.changedAt c)

/-- entries of the new parent lists are the renamed entries of the old ones -/
theorem mem (P : Prep x i k k' S S1) (c : Nat) (q : Nat × Nat) :
    q ∈ (S1.nodeD c).parents ↔ Xp.renameIdx x i k q ∈ (S.nodeD c).parents := by
  rw [P.parents, List.mem_map]
  constructor
  · rintro ⟨a, ha, rfl⟩
    rw [Xp.renameIdx_invol]; exact ha
  · intro h
    exact ⟨_, h, Xp.renameIdx_invol ..⟩

theorem mem_other (P : Prep x i k k' S S1) (c : Nat) {p : Nat} (j : Nat) (h : p ≠ x) :
    (p, j) ∈ (S1.nodeD c).parents ↔ (p, j) ∈ (S.nodeD c).parents := by
  rw [P.mem, renameIdx_other h]

theorem mem_self (P : Prep x i k k' S S1) (c j : Nat) :
    (x, j) ∈ (S1.nodeD c).parents ↔ (x, Xp.swapNat i k j) ∈ (S.nodeD c).parents := by
  rw [P.mem, Xp.renameIdx_same]

end Prep

/-- **PREPARE**: the closed necessary node `x` is opened with ALL its (transposed) edges recorded -/
theorem GInv.prep {env : Env} {rk : Nat → Nat} {x i k : Nat} {k' : Kind} {S S1 : State}
    (I : Struct env rk S) (P : Prep x i k k' S S1) (hn : S.isNecessary x = true)
    (hi : i < (kids (S.nodeD x).kind).length) (hk : k < (kids (S.nodeD x).kind).length)
    (hsk : StaticKind env k') (hst : staleOf S1 x = true) :
    GInv env rk S1 (upd allClosed x (.linking (kids (S.nodeD x).kind).length)) ∧
      (∀ c' j, (x, j) ∈ (S1.nodeD c').parents → (S1.nodeD c').height < (S1.nodeD x).height) ∧
      0 ≤ (S1.nodeD x).height ∧
      ((S1.nodeD x).inRch = true → (S1.nodeD x).heightInRch = (S1.nodeD x).height) := by
  have I : GInv env rk S allClosed := I
  have hopn : upd allClosed x (.linking (kids (S.nodeD x).kind).length) x =
      .linking (kids (S.nodeD x).kind).length := upd_self ..
  have hopo : ∀ m, m ≠ x → upd allClosed x (.linking (kids (S.nodeD x).kind).length) m = .closed :=
    fun m h => upd_other _ _ _ h
  have hkx : ∀ j, (kids (S1.nodeD x).kind)[j]? = (kids (S.nodeD x).kind)[Xp.swapNat i k j]? := by
    rw [P.kind_self]; exact P.kidsP
  -- an index is in range iff its image is
  have hrange : ∀ j, Xp.swapNat i k j < (kids (S.nodeD x).kind).length → j < (kids (S.nodeD x).kind).length := by
    intro j h
    have := swapNat_lt hi hk h
    rwa [swapNat_invol] at this
  have hmemk : ∀ c, c ∈ kids k' → c ∈ kids (S.nodeD x).kind := by
    intro c hc
    obtain ⟨j, hj⟩ := List.mem_iff_getElem?.1 hc
    rw [P.kidsP] at hj
    exact List.mem_of_getElem? hj
  refine ⟨{ static := ?_, par := ?_, conv := ?_, nodup := ?_, hlt := ?_, hpos := ?_, lnec := ?_, unec := ?_,
            heap := I.heap.congr P.rch P.size P.heightInRch, hgt := ?_, qnec := ?_, queued := ?_, qstale := ?_,
            opLt := ?_ }, ?_, ?_, ?_⟩
  · refine ⟨by rw [P.pc]; exact I.static.pc, by rw [P.scope]; exact I.static.scope, fun n hlt => ?_,
      I.static.inj, by rw [P.size]; exact I.static.top⟩
    have sn := I.static.node n (by rw [← P.size]; exact hlt)
    by_cases e : n = x
    · have sx := I.static.node x P.lt
      rw [e]
      exact ⟨by rw [P.valid]; exact sx.valid, by rw [P.kind_self]; exact hsk, by rw [P.cutoff]; exact sx.cutoff,
        by rw [P.createdIn]; exact sx.top, by rw [P.forceNecessary]; exact sx.force,
        by rw [P.kind_self]; exact fun c hc => sx.kidsLt c (hmemk c hc),
        by rw [P.kind_self, P.size]; exact fun c hc => sx.kidsIn c (hmemk c hc)⟩
    · exact ⟨by rw [P.valid]; exact sn.valid, by rw [P.kind_other e]; exact sn.kind,
        by rw [P.cutoff]; exact sn.cutoff, by rw [P.createdIn]; exact sn.top,
        by rw [P.forceNecessary]; exact sn.force, by rw [P.kind_other e]; exact sn.kidsLt,
        by rw [P.kind_other e, P.size]; exact sn.kidsIn⟩
  · -- par
    intro c p j hm
    by_cases e : p = x
    · rw [e] at hm ⊢
      rw [P.mem_self] at hm
      obtain ⟨h1, -⟩ := I.par c x _ hm
      refine ⟨by rw [hkx]; exact h1, ?_⟩
      rw [wants_linking hopn]
      apply hrange
      rcases Nat.lt_or_ge (Xp.swapNat i k j) (kids (S.nodeD x).kind).length with h | h
      · exact h
      · rw [List.getElem?_eq_none h] at h1; cases h1
    · rw [P.mem_other c j e] at hm
      obtain ⟨h1, h2⟩ := I.par c p j hm
      rw [P.kind_other e]
      refine ⟨h1, ?_⟩
      rw [wants_closed (hopo p e), P.nec]
      exact (wants_closed rfl).1 h2
  · -- conv
    intro p j c hkp hw
    by_cases e : p = x
    · rw [e] at hkp ⊢
      rw [hkx] at hkp
      rw [P.mem_self]
      exact I.conv x _ c hkp ((wants_closed rfl).2 hn)
    · rw [P.kind_other e] at hkp
      rw [wants_closed (hopo p e), P.nec] at hw
      rw [P.mem_other c j e]
      exact I.conv p j c hkp ((wants_closed rfl).2 hw)
  · intro c
    rw [P.parents]
    exact List.Pairwise.map _ (fun a b h e => h (Xp.renameIdx_inj x i k e)) (I.nodup c)
  · -- hlt
    intro c p j hm ho
    have e : p ≠ x := by intro e; rw [e, hopn] at ho; cases ho
    rw [P.mem_other c j e] at hm
    rw [P.height, P.height]; exact I.hlt c p j hm rfl
  · intro m hm _
    rw [P.nec] at hm; rw [P.height]; exact I.hpos m hm rfl
  · intro p kk ho
    by_cases e : p = x
    · rw [e, P.nec]; exact hn
    · rw [hopo p e] at ho; cases ho
  · intro p kk ho
    by_cases e : p = x
    · rw [e, hopn] at ho; cases ho
    · rw [hopo p e] at ho; cases ho
  · intro m hq _
    rw [P.inRch] at hq
    rw [P.heightInRch, P.height]; exact I.hgt m hq rfl
  · intro m hq
    rw [P.inRch] at hq
    rw [P.nec]
    rcases I.qnec m hq with h | ⟨kk, h⟩
    · exact Or.inl h
    · cases h
  · intro m ho hm hs
    have hne : m ≠ x := by intro e; rw [e, hopn] at ho; cases ho
    rw [P.nec] at hm
    rw [P.staleOf_other hne] at hs
    rw [P.inRch]; exact I.queued m rfl hm hs
  · intro m hq
    by_cases e : m = x
    · rw [e]; exact hst
    · rw [P.inRch] at hq
      rw [P.staleOf_other e]; exact I.qstale m hq
  · intro m ho
    by_cases e : m = x
    · rw [e, P.size]; exact P.lt
    · rw [hopo m e] at ho; exact absurd rfl ho
  · intro c' j hm
    rw [P.mem_self] at hm
    rw [P.height, P.height]; exact I.hlt c' x _ hm rfl
  · rw [P.height]; exact I.hpos x hn rfl
  · intro hq
    rw [P.inRch] at hq
    rw [P.heightInRch, P.height]; exact I.hgt x hq rfl

end IncrVerif.Proofs.DriverH
