import IncrVerif.Proofs.FullH31
import IncrVerif.Proofs.NestH72
import IncrVerif.Proofs.NestH54
/-!
# C01 full fragment, MW2: what a `StepRelB` step establishes of the auxiliary invariants of fragment F2 (`F2Inv`, `GenOK2`), given the frames of the run;
the patch device for `F2Inv` and `GenOK2`  (pure `BindH`/`NestH` level: no virtual states here)
-/
namespace IncrVerif.Proofs.FullH
open IncrVerif.Engine IncrVerif.Proofs IncrVerif.Proofs.Step IncrVerif.Proofs.Sched IncrVerif.Proofs.Quiet
open IncrVerif.Proofs.BindH (DInv BGraph StepRelB Edge Below TargetB ConsistentB BKind)
open IncrVerif.Proofs.NestH (AuxS2 Aux2 GenOK2 F2Inv)
open IncrVerif.Proofs.MapOldH (setValue_nodeD_with setValue_kind setValue_kind? setValue_recomputedAt setValue_changedAt
  setValue_heightInRch setValue_inRch setValue_shape setValue_value_ne setValue_size setValue_children setValue_isStale
  setValue_isNecessary)
namespace MW

/-- `F2Inv` (same rank) after a `StepRelB` step whose run has the frames of `recomputeOne` on a static node -/
theorem post_F2 {env : Env} {rk : Nat → Nat} {n : Nat} {v : Val} {ch : Bool} {r : Option Nat} {P S' : State}
    (g : BGraph env P) (A : F2Inv env rk P) (R : StepRelB n v ch r P S')
    (hnum : ∀ m, (S'.nodeD m).numOnUpdateHandlers = (P.nodeD m).numOnUpdateHandlers) (hah : BindH.BF.HAh P S')
    (htop : S'.top = P.top) (hahh : S'.ahh = P.ahh) (hpinv : S'.propagateInvalidity = P.propagateInvalidity)
    (hsc : S'.currentScope = P.currentScope) : F2Inv env rk S' := by
  refine NestH.NF.F2Inv.transfer A R.size (fun m => R.shapes m) hnum (fun m hq => ?_) hah R.binds htop hahh hpinv hsc R.pc
  rcases R.newIn m hq with h1 | ⟨-, h2⟩
  · exact Or.inl h1
  · obtain ⟨⟨p, i⟩, hpi, rfl⟩ := List.mem_map.1 h2
    exact Or.inr (g.nec p (g.parent n p i hpi).1).1

/-- `GenOK2` after a `StepRelB` step (the argument of `NestH.N5g.static_gen2`) -/
theorem post_gen {env : Env} {rk : Nat → Nat} {n : Nat} {v : Val} {ch : Bool} {r : Option Nat} {P S' : State}
    (I : DInv env P (some n)) (A : F2Inv env rk P) (G : GenOK2 env P)
    (hk : StaticKind env (P.nodeD n).kind ∨ ∃ b lc, (P.nodeD n).kind = .bindMain b lc)
    (R : StepRelB n v ch r P S') (htop : S'.top = P.top) : GenOK2 env S' := by
  refine NestH.N5g.genOK2_transfer G (BindH.C3g.top_mono_of_eq htop) ?_
  intro b br hb hvl hst
  rw [R.binds] at hb
  rw [(R.shapes _).valid] at hvl
  obtain ⟨f1, f3, f5, -⟩ := NestH.N5g.rec_facts2 A.frag hb hvl
  have hne : br.lhsChange ≠ n := by
    intro e
    rw [e] at f3
    rcases hk with hk | ⟨_, _, hk⟩
    · rw [f3] at hk; exact hk
    · rw [f3] at hk; cases hk
  rcases BindH.stepB_stale_other I R hne f1 hvl with ⟨h1, h2⟩ | ⟨-, -, h1⟩
  · refine ⟨hb, hvl, by rw [← h1]; exact hst, ?_, fun m _ => (R.shapes m).kind,
      fun b2 br2 k2 _ => ⟨br2, by rw [R.binds]; exact k2, NestH.N5g.RecSame.refl _⟩⟩
    by_cases e : br.lhs = n
    · have hchf : ch = false := by
        rcases h2 with h2 | h2
        · exact h2
        · exfalso; apply h2; rw [f5, e]; exact List.mem_singleton.2 rfl
      rw [e, R.value, (R.unch hchf).1]
    · exact (R.other _ e).value
  · rw [h1] at hst; cases hst

section
variable {env : Env} {rk : Nat → Nat} {S : State} {n : Nat}

theorem setValue_num (u : Option Val) (m : Nat) :
    ((setValue n u S).nodeD m).numOnUpdateHandlers = (S.nodeD m).numOnUpdateHandlers := by
  obtain ⟨w, e⟩ := setValue_nodeD_with n u S m; rw [e]

theorem setValue_heightInAhh (u : Option Val) (m : Nat) :
    ((setValue n u S).nodeD m).heightInAhh = (S.nodeD m).heightInAhh := by
  obtain ⟨w, e⟩ := setValue_nodeD_with n u S m; rw [e]

theorem setValue_valid (u : Option Val) (m : Nat) : ((setValue n u S).nodeD m).valid = (S.nodeD m).valid :=
  (setValue_shape n u S m).valid

/-- the patch device for `F2Inv`: it does not read stored values -/
theorem F2Inv.patch (u : Option Val) (A : F2Inv env rk S) : F2Inv env rk (setValue n u S) := by
  refine NestH.NF.F2Inv.transfer A (setValue_size _ _ _) (setValue_shape n u S) (setValue_num u) (fun m hq => Or.inl ?_)
    (fun m => setValue_heightInAhh u m) rfl rfl rfl rfl rfl A.frag.pc
  rw [setValue_inRch] at hq; exact hq

/-- the patch device for `GenOK2`: the lhs of a live, current bind has a value -/
theorem GenOK2.patch (u : Option Val) (G : GenOK2 env S) (hv : (S.nodeD n).value = none) : GenOK2 env (setValue n u S) := by
  refine NestH.N5g.genOK2_transfer G (BindH.C3g.top_mono_of_eq rfl) ?_
  intro b br hb hvl hst
  have hb0 : S.binds[b]? = some br := hb
  rw [setValue_valid] at hvl
  rw [setValue_isStale] at hst
  obtain ⟨w, -, -, h1, -⟩ := G b br hb0 hvl hst
  have hne : br.lhs ≠ n := by intro e; rw [e, hv] at h1; cases h1
  exact ⟨hb0, hvl, hst, setValue_value_ne u S hne, fun m _ => setValue_kind n u S m,
    fun b2 br2 k2 _ => ⟨br2, k2, NestH.N5g.RecSame.refl _⟩⟩

end
end MW
end IncrVerif.Proofs.FullH
