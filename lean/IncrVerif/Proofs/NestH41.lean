import IncrVerif.Proofs.NestH19
import IncrVerif.Proofs.BindH78
/-!
# Nested binds (F2), NF1: the auxiliary invariant `F2Inv env rk` is kept (with the SAME rank) by a run of a static-kind / `bindMain` node and by `remove_min`

Port of `BindH78` (`CF1`) from `F1Inv` to `F2Inv`.  A `bindMain` node may now be a node of a scope, but the right-hand side of a LIVE bind is valid
(`BGraph.node`, from `N2.kidsValid`), so the run is still described by `recomputeOne_stepB` (the `invalidateNode` branch is unreachable); the state after
the run has the same shapes, `binds` and `top`, which is all that `F2Inv` reads.  `CF.recomputeOne_num`, `BF.recomputeOne_keyD_B`, `BF.recomputeOne_hah`
are reused as they are.
-/
namespace IncrVerif.Proofs.NestH
open IncrVerif.Engine IncrVerif.Proofs IncrVerif.Proofs.Step IncrVerif.Proofs.Sched IncrVerif.Proofs.Quiet
open IncrVerif.Proofs.BindH
namespace NF

/-- `All2` only reads the shape of the nodes, the node count, `binds`, `currentScope`, `panicCountdown` (and the ghost rank) -/
theorem all2_transfer {env : Env} {rk : Nat → Nat} {s s' : State} {dy : List Nat} (A : All2 env rk s dy)
    (hsz : s'.nodes.size = s.nodes.size)
    (hsh : ∀ m, SameShape (s.nodeD m) (s'.nodeD m))
    (hb : s'.binds = s.binds) (hsc : s'.currentScope = .top) (hpc : s'.panicCountdown = none) :
    All2 env rk s' dy := by
  have hch : ∀ m, s'.children m = s.children m := fun m => by
    by_cases hm : m < s.nodes.size
    · exact children_congr_B (hsh m).kind (hsh m).valid hb (A.node m hm).kind
    · rw [children_default s m (by omega), children_default s' m (by rw [hsz]; omega)]
  have eK : ∀ m, (s'.nodeD m).kind = (s.nodeD m).kind := fun m => (hsh m).kind
  have eV : ∀ m, (s'.nodeD m).valid = (s.nodeD m).valid := fun m => (hsh m).valid
  have eC : ∀ m, (s'.nodeD m).createdIn = (s.nodeD m).createdIn := fun m => (hsh m).createdIn
  refine ⟨hpc, hsc, fun n hn => ?_, ?_, ?_, ?_, ?_, ?_, ?_, ?_, ?_⟩
  · have sn := A.node n (by rw [← hsz]; exact hn)
    refine ⟨by rw [eK]; exact sn.kind, by rw [(hsh n).cutoff]; exact sn.cutoff, ?_, ?_, ?_, ?_, ?_, ?_, ?_, ?_⟩
    · rw [hch, hsz]; exact sn.kidsIn
    · intro c hc; rw [hch] at hc; rw [eV]; exact sn.kidsValid c hc
    · rw [hch]; exact sn.kidLt
    · rw [eK, hb]; exact sn.lcRec
    · rw [eK, hb]; exact sn.mainRec
    · intro c b hc hk
      rw [hch] at hc
      rw [eK] at hk ⊢
      exact sn.lcChild c b hc hk
    · intro h
      rw [eC] at h
      obtain ⟨h1, h2⟩ := sn.top h
      refine ⟨by rw [eV]; exact h1, ?_⟩
      intro c hc
      rw [hch] at hc
      rw [eC, eK]
      exact h2 c hc
    · intro b h
      rw [eC] at h
      obtain ⟨h2, br, h3, h4, h5⟩ := sn.inScope b h
      refine ⟨by rw [eK]; exact h2, br, by rw [hb]; exact h3, h4, ?_⟩
      intro c hc
      rw [hch] at hc
      rw [eC, eK]
      exact h5 c hc
  · intro b br hbr
    rw [hb] at hbr
    rw [hsz, eK, eK, eC, eC]
    exact A.recs b br hbr
  · intro b br hbr m
    rw [hb] at hbr
    rw [hsz, eV, eC]
    exact A.gen b br hbr m
  · intro b br hbr
    rw [hb] at hbr
    exact A.genDy b br hbr
  · intro m hm
    rw [hsz, eC]
    exact A.dyIn m hm
  · intro n b br hn hv hsc' hbr
    rw [hsz] at hn; rw [eV] at hv; rw [eC] at hsc'; rw [hb] at hbr
    rw [eV, eV]
    exact A.scopeValid n b br hn hv hsc' hbr
  · intro b br hbr
    rw [hb] at hbr
    rw [eV, eV]
    exact A.recValid b br hbr
  · intro n b br hn hsc' hbr
    rw [hsz] at hn; rw [eC] at hsc'; rw [hb] at hbr
    exact A.scopeRk n b br hn hsc' hbr
  · intro n m hn hm
    rw [hsz] at hn hm
    exact A.rkInj n m hn hm

/-- `BodyOK2` only reads `top` (and the rank) -/
theorem bodyOK2_congr {env : Env} {rk : Nat → Nat} {s s' : State} (htop : s'.top = s.top) {lc f body : Nat}
    (h : BodyOK2 env rk s lc f body) : BodyOK2 env rk s' lc f body :=
  BodyOK2.mono htop (fun _ hr _ => hr) f body h

/-- `F2Inv` only reads: the shape of the nodes, the `heightInAhh` and `numOnUpdateHandlers` markers, `inRch` of INVALID nodes,
the number of nodes, `binds`, `top`, `ahh`, `propagateInvalidity`, `currentScope`, `panicCountdown` -/
theorem F2Inv.transfer {env : Env} {rk : Nat → Nat} {s s' : State} (A : F2Inv env rk s)
    (hsz : s'.nodes.size = s.nodes.size)
    (hsh : ∀ m, SameShape (s.nodeD m) (s'.nodeD m))
    (hnum : ∀ m, (s'.nodeD m).numOnUpdateHandlers = (s.nodeD m).numOnUpdateHandlers)
    (hin : ∀ m, (s'.nodeD m).inRch = true → (s.nodeD m).inRch = true ∨ (s.nodeD m).valid = true)
    (hah : BF.HAh s s')
    (hb : s'.binds = s.binds) (htop : s'.top = s.top) (hahh : s'.ahh = s.ahh)
    (hpinv : s'.propagateInvalidity = s.propagateInvalidity) (hsc : s'.currentScope = s.currentScope)
    (hpc : s'.panicCountdown = none) : F2Inv env rk s' := by
  refine
    { frag := all2_transfer A.frag hsz hsh hb (hsc.trans A.frag.scope) hpc
      nodup := fun c => by rw [(hsh c).parents]; exact A.nodup c
      ahh := ⟨by rw [hahh]; exact A.ahh.length, ?_, fun m => (hah m).trans (A.ahh.marks m)⟩
      pinv := hpinv.trans A.pinv
      noForce := fun m => by rw [(hsh m).forceNecessary]; exact A.noForce m
      noHandlers := fun m => by rw [hnum]; exact A.noHandlers m
      inv := fun m hv => ?_
      scopeObs := fun m b h => by
        rw [(hsh m).observers]; exact A.scopeObs m b (by rw [← (hsh m).createdIn]; exact h)
      lcObs := fun m b h => by rw [(hsh m).observers]; exact A.lcObs m b (by rw [← (hsh m).kind]; exact h)
      lcCut := fun m b h => by rw [(hsh m).cutoff]; exact A.lcCut m b (by rw [← (hsh m).kind]; exact h)
      topOK := fun k r h => ?_
      closures := fun b br h => by
        obtain ⟨f, hf⟩ := A.closures b br (by rw [← hb]; exact h)
        exact ⟨f, bodyOK2_congr htop hf⟩
      lhsOK := fun b br h hv b' => by
        rw [(hsh br.lhs).kind]
        exact A.lhsOK b br (by rw [← hb]; exact h) (by rw [← (hsh br.lhsChange).valid]; exact hv) b'
      rhsNone := fun b br h => A.rhsNone b br (by rw [← hb]; exact h)
      deadNone := fun b br h hv =>
        A.deadNone b br (by rw [← hb]; exact h) (by rw [← (hsh br.main).valid]; exact hv)
      rhsOK := fun b br o h ho hv => ?_ }
  · -- the buckets of the adjust-heights heap
    intro i hi
    have hi' : i < s.ahh.queues.size := by rw [← hahh]; exact hi
    have := A.ahh.buckets i hi'
    simp only [hahh]; exact this
  · -- invalid nodes
    have hv0 : (s.nodeD m).valid = false := by rw [← (hsh m).valid]; exact hv
    obtain ⟨h1, h2, h3⟩ := A.inv m hv0
    refine ⟨by rw [(hsh m).parents]; exact h1, by rw [(hsh m).observers]; exact h2, ?_⟩
    cases hq : (s'.nodeD m).inRch with
    | false => rfl
    | true =>
      rcases hin m hq with h | h
      · rw [h3] at h; cases h
      · rw [hv0] at h; cases h
  · obtain ⟨h1, h2, h3⟩ := A.topOK k r (by rw [← htop]; exact h)
    exact ⟨by rw [hsz]; exact h1, by rw [(hsh r).createdIn]; exact h2, fun b' => by rw [(hsh r).kind]; exact h3 b'⟩
  · rw [(hsh o).createdIn, (hsh o).kind, (hsh o).valid]
    exact A.rhsOK b br o (by rw [← hb]; exact h) ho (by rw [← (hsh br.main).valid]; exact hv)

end NF

/-- `F2Inv` (same rank) is kept by a successful `recomputeOne` on a necessary node of a static kind or of kind `bindMain` -/
theorem recomputeOne_stepB_F2 {env : Env} {rk : Nat → Nat} {fuel n : Nat} {s s' : State} {r : Option Nat}
    (g : BGraph env s) (hi : HeapInv s) (hn : s.isNecessary n = true)
    (hk : StaticKind env (s.nodeD n).kind ∨ ∃ b lc, (s.nodeD n).kind = .bindMain b lc)
    (hvals : ∀ c, c ∈ s.children n → ∃ v, (s.nodeD c).value = some v)
    (h : (recomputeOne env fuel n).run.run s = (.ok r, s')) (A : F2Inv env rk s) : F2Inv env rk s' := by
  obtain ⟨v, ch, -, R⟩ := recomputeOne_stepB g hi hn hk hvals h
  have K := BF.recomputeOne_keyD_B g hn hk hvals h
  have H := BF.recomputeOne_hah g hn hk hvals h
  simp only [KeyD, stateKeyD, Prod.mk.injEq] at K
  obtain ⟨-, -, hsc, htop, -, -, hpinv, -, -, -, hahh⟩ := K
  refine NF.F2Inv.transfer A R.size (fun m => ?_) (CF.recomputeOne_num g hn hk hvals h) (fun m hq => ?_) H R.binds
    htop hahh hpinv hsc R.pc
  · by_cases e : m = n
    · rw [e]; exact R.shape
    · exact SameShape.of_nodeSame (R.other m e)
  · rcases R.newIn m hq with h1 | ⟨-, h2⟩
    · exact Or.inl h1
    · obtain ⟨⟨p, i⟩, hpi, rfl⟩ := List.mem_map.1 h2
      exact Or.inr (g.nec p (g.parent n p i hpi).1).1

/-- `F2Inv` (same rank) is kept by `remove_min` -/
theorem pop_F2 {env : Env} {rk : Nat → Nat} {s s1 : State} {n : Nat} (hi : HeapInv s)
    (hr : rchRemoveMin.run.run s = (.ok (some n), s1)) (A : F2Inv env rk s) : F2Inv env rk s1 := by
  have hpop := rchRemoveMin_inv hi hr
  simp only at hpop
  obtain ⟨-, -, -, hs1, -⟩ := hpop
  have hnode : ∀ m, s1.nodeD m =
      if n = m ∧ m < s.nodes.size then { s.nodeD m with heightInRch := -1 } else s.nodeD m := by
    intro m
    rw [hs1]
    exact nodeD_modify { s with rch := s1.rch } n m (fun x => { x with heightInRch := -1 })
  refine NF.F2Inv.transfer A (by rw [hs1]; simp) (fun m => ?_) (fun m => ?_) (fun m hq => Or.inl ?_) (fun m => ?_)
    (by rw [hs1]) (by rw [hs1]) (by rw [hs1]) (by rw [hs1]) (by rw [hs1]) (by rw [hs1]; exact A.frag.pc)
  · rw [hnode]; split <;> exact ⟨rfl, rfl, rfl, rfl, rfl, rfl, rfl, rfl⟩
  · rw [hnode]; split <;> rfl
  · rw [hnode] at hq
    split at hq
    · simp [Node.inRch] at hq
    · exact hq
  · rw [hnode]; split <;> rfl

end IncrVerif.Proofs.NestH
