import IncrVerif.Proofs.NestH76
import IncrVerif.Proofs.NestH25
/-!
# Total correctness for nested binds (F2), phase 1 of the run of a change detector: the closure run never panics

What can panic in `Inval.lhsRunClosure`: `valueUnwrap` (the lhs has a value: hypothesis), `tick` (`panicCountdown = none`: `All2.pc`), `resolveOpnd`
(`"model:bad-outer"`: `OpndOK2` gives `top[k]? = some r`; `"model:bad-local"`: `j < nloc` and the loop keeps `loc.length` = the number of instructions done —
`NN.RC2.locs`; `.abs`/`.slot`: excluded by `OpndOK2`), `memoCall` and the other instructions outside the fragment (`InstrOK2` is `False`).  `createNode`,
`createBind`, `modBind` never panic (`Inval.createNode_run`, `NN.createBind_run`): no fuel, no height limit.

The loop invariant is the one of the partial-correctness proof (`NN.LI2`, `NN.LI2.step`): every iteration RETURNS (`T2c.elab_tot2`), hence — by `LI2.step` —
re-establishes the invariant.  Nothing of NN1–NN6 is re-proved.
-/
namespace IncrVerif.Proofs.NestH
open IncrVerif.Engine IncrVerif.Proofs IncrVerif.Proofs.Step IncrVerif.Proofs.Sched IncrVerif.Proofs.Quiet
open IncrVerif.Proofs.BindH

namespace T2c

theorem run_map_ok {α β} {f : α → β} {x : M α} {s s1 : State} {a : α} (h : x.run.run s = (.ok a, s1)) :
    (f <$> x).run.run s = (.ok (f a), s1) := by
  rw [map_eq_pure_bind, run_bind_ok h, run_pure]

/-! ## operands -/

section resolve
variable {rk0 rk : Nat → Nat} {s0 t : State} {b lc j : Nat} {dy : List Nat} {loc : List Nat}

/-- a legal operand resolves -/
theorem resolve_tot2 (R : NN.RC2 rk0 rk s0 t b lc dy j loc) {o : Opnd} (ho : OpndOK2 rk0 s0 lc j o) :
    ∃ c, (resolveOpnd loc o).run.run t = (.ok c, t) := by
  cases o with
  | outer k =>
    obtain ⟨r, hr, -⟩ := ho
    refine ⟨r, ?_⟩
    unfold resolveOpnd
    simp only
    rw [run_bind_get, R.top, hr]
    exact run_pure r t
  | loc i =>
    obtain ⟨c', hc, -⟩ := R.locs i ho
    refine ⟨c', ?_⟩
    unfold resolveOpnd
    simp only [hc]
    exact run_pure c' t
  | abs _ => exact ho.elim
  | slot _ => exact ho.elim

theorem mapM_resolve_tot2 (R : NN.RC2 rk0 rk s0 t b lc dy j loc) :
    ∀ (l : List Opnd), (∀ a, a ∈ l → OpndOK2 rk0 s0 lc j a) →
      ∃ r, (l.mapM (fun o => resolveOpnd loc o)).run.run t = (.ok r, t) := by
  intro l
  induction l with
  | nil =>
    intro _
    exact ⟨[], by rw [List.mapM_nil, run_pure]⟩
  | cons a l ih =>
    intro hl
    obtain ⟨c, h1⟩ := resolve_tot2 R (hl a (List.mem_cons_self ..))
    obtain ⟨cs, h2⟩ := ih (fun y hy => hl y (List.mem_cons_of_mem _ hy))
    exact ⟨c :: cs, by rw [List.mapM_cons, run_bind_ok h1, run_bind_ok h2, run_pure]⟩

end resolve

/-! ## one instruction -/

/-- an instruction of an F2 closure returns -/
theorem elab_tot2 {env : Env} {rk0 rk : Nat → Nat} {s0 t : State} {P : Nat → Prop} {b lc j : Nat} {dy : List Nat}
    {loc : List Nat} {i : Instr} {v : Val} (R : NN.RC2 rk0 rk s0 t b lc dy j loc)
    (hsc : t.currentScope = .bind b) (hi : InstrOK2 env rk0 s0 P lc j i) :
    ∃ ro t1, (elabInstrM env loc v i).run.run t = (.ok ro, t1) := by
  cases i with
  | const w =>
    unfold elabInstrM
    simp only
    unfold elabInstr
    rw [run_bind_get]
    simp only [hsc]
    exact ⟨_, _, run_map_ok (Inval.createNode_run _ _ _ _)⟩
  | lhsConst =>
    unfold elabInstrM
    simp only
    unfold elabInstr
    rw [run_bind_get]
    simp only [hsc]
    exact ⟨_, _, run_map_ok (Inval.createNode_run _ _ _ _)⟩
  | map f args =>
    unfold elabInstrM
    simp only
    unfold elabInstr
    rw [run_bind_get]
    simp only [hsc]
    obtain ⟨as, h1⟩ := mapM_resolve_tot2 R args hi.2.2
    rw [run_bind_ok h1]
    exact ⟨_, _, run_map_ok (Inval.createNode_run _ _ _ _)⟩
  | fold f init cs =>
    unfold elabInstrM
    simp only
    unfold elabInstr
    rw [run_bind_get]
    simp only [hsc]
    obtain ⟨as, h1⟩ := mapM_resolve_tot2 R cs hi
    rw [run_bind_ok h1]
    split
    · exact ⟨_, _, run_map_ok (Inval.createNode_run _ _ _ _)⟩
    · exact ⟨_, _, run_map_ok (Inval.createNode_run _ _ _ _)⟩
  | bind body' o =>
    unfold elabInstrM
    simp only
    unfold elabInstr
    rw [run_bind_get]
    simp only
    obtain ⟨c, h1⟩ := resolve_tot2 R hi.2
    rw [run_bind_ok h1]
    exact ⟨_, _, run_map_ok (NN.createBind_run _ _ _)⟩
  | _ => exact hi.elim

/-! ## the loop of `elabTemplate` -/

section loop
variable {env : Env} {b : Nat} {br : BindRec} {s0 : State} {rk0 : Nat → Nat} {ex : Nat → Prop}

/-- **the template**: `elabTemplate` inside the closure run returns -/
theorem elabTemplate_tot2 {tm : Template} {v : Val} {t : State} {f : Nat}
    (L : NN.LI2 env b br s0 rk0 ex 0 [] rk0 t) (A0 : All2 env rk0 s0 []) (hb : s0.binds[b]? = some br)
    (hvlc : (s0.nodeD br.lhsChange).valid = true)
    (hdy : ∀ m, m ∈ br.allNodesCreatedOnRhs → m < s0.nodes.size)
    (htop : ∀ (k r : Nat), s0.top[k]? = some r →
      r < s0.nodes.size ∧ (s0.nodeD r).createdIn = .top ∧ ∀ b', (s0.nodeD r).kind ≠ .bindLhsChange b')
    (hT : TemplOK2 env rk0 s0 (fun b' => BodyOK2 env rk0 s0 br.lhsChange f b') br.lhsChange tm) :
    Tot (elabTemplate env tm v) t (fun _ _ => True) := by
  unfold elabTemplate
  refine Tot.bind (Q := fun loc t1 => ∃ rk, NN.LI2 env b br s0 rk0 ex tm.instrs.length loc rk t1) ?_ ?_
  · refine forIn_tot _ tm.instrs (fun j loc t => ∃ rk, NN.LI2 env b br s0 rk0 ex j loc rk t) ?_ tm.instrs 0 [] t rfl
      (Nat.zero_le _) ⟨rk0, L⟩
    intro j a loc0 t0 hj hL
    obtain ⟨rk, hL⟩ := hL
    obtain ⟨ro, t2, h3⟩ := elab_tot2 (v := v) (hL.rc A0 hb hdy htop) hL.scope (hT.1 j a hj)
    obtain ⟨n, rk', e, hL'⟩ := hL.step A0 hb hvlc hdy htop (hT.1 j a hj) h3
    subst e
    refine ⟨loc0 ++ [n], t2, ?_, rk', hL'⟩
    dsimp only
    rw [run_bind_ok h3]
    rfl
  · intro loc t1 _ hQ
    obtain ⟨rk, hloop⟩ := hQ
    obtain ⟨c, hc⟩ := resolve_tot2 (hloop.rc A0 hb hdy htop) hT.2
    exact Tot.of_ok hc trivial

end loop

end T2c

/-- **Phase 1 of the run of a change detector never panics** (fragment F2): the closure run returns.  Hypotheses = those of `ClosureSpec2` (including
`hcut`, which the loop invariant `NN.LI2` of the partial-correctness proof carries along) + the lhs has a value.  No fuel, no height limit, no room: node
creation never fails. -/
theorem lhsRunClosure_total2 {env : Env} {rk : Nat → Nat} {n b : Nat} {br : BindRec} {s : State} {ex : Nat → Prop}
    (I : GInv2 env rk s allClosed ex []) (hah : AhhEmpty s) (hb : s.binds[b]? = some br) (hl : br.lhsChange = n)
    (hv : (s.nodeD n).valid = true) (hB : ∃ f, BodyOK2 env rk s n f br.body)
    (htop : ∀ (k r : Nat), s.top[k]? = some r →
      r < s.nodes.size ∧ (s.nodeD r).createdIn = .top ∧ ∀ b', (s.nodeD r).kind ≠ .bindLhsChange b')
    (hcut : ∀ m b', (s.nodeD m).kind = .bindLhsChange b' → (s.nodeD m).cutoff = .never)
    (hval : ∃ v, s.value env br.lhs = some v) :
    Tot (Inval.lhsRunClosure env n b br) s (fun _ _ => True) := by
  have A0 := I.frag
  obtain ⟨f, hbody⟩ := hB
  obtain ⟨v, hval⟩ := hval
  cases f with
  | zero => exact hbody.elim
  | succ f =>
    have hdy : ∀ m, m ∈ br.allNodesCreatedOnRhs → m < s.nodes.size :=
      fun m hm => ((A0.gen b br hb m).1 (Or.inl hm)).1
    have hT : TemplOK2 env rk s (fun b' => BodyOK2 env rk s br.lhsChange f b') br.lhsChange (env.body br.body v) := by
      rw [hl]; exact hbody v
    have hvlc : (s.nodeD br.lhsChange).valid = true := by rw [hl]; exact hv
    have hrun := T2c.elabTemplate_tot2 (v := v) (NN.entered_li2 (.inv s!"b{br.body}" n [v] "") I hah hb hcut) A0 hb hvlc
      hdy htop hT
    have hvu : ∀ site, (valueUnwrap env br.lhs site).run.run (CN.reset b s) = (.ok v, CN.reset b s) := by
      intro site
      have e : (CN.reset b s).value env br.lhs = some v := by
        rw [value_congr env s (CN.reset b s) rfl (fun m => rfl)]; exact hval
      rw [run_valueUnwrap, e]
    unfold Inval.lhsRunClosure
    simp only [modBind]
    refine Tot.bind_modify ?_
    refine Tot.bind_ok (hvu _) ?_
    refine Tot.bind_get ?_
    refine Tot.bind_modify ?_
    refine Tot.bind_ok (run_tick_none _ A0.pc) ?_
    refine Tot.bind_ok (run_logEv _ _) ?_
    refine Tot.bind hrun ?_
    intro rhs t1 _ _
    exact Tot.bind_modify (Tot.pure trivial)

end IncrVerif.Proofs.NestH
