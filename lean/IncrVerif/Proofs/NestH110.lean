import IncrVerif.Proofs.NestH76
import IncrVerif.Proofs.NestH48
import IncrVerif.Proofs.NestH49
import IncrVerif.Proofs.NestH50
import IncrVerif.Proofs.Quiet27
/-!
# Total correctness for nested binds (F2), API actions other than `stabilise`, part 1: definitions, `TInv2` under extension, `create` returns

Port of `Quiet26` (`elab_ret`, `create_total`) from `Quiet.QInv`/`Quiet.TInv N` to `QInv2 env rk`/`TInv2 rk N`.
The state-generic lemmas `Quiet.resolveOpnd_run`, `Quiet.mapM_resolve_run`, `Quiet.isConstant_run`, `Quiet.map_run_ok` are reused unchanged.

* `InstrIn2 s i`: the operands of the creation instruction exist (`Quiet.InstrIn`, and for `bind body lhs`: `lhs` is an entry of the naming table).
* `ActionOK2 N s a`: the indices exist and there is room (`s.nodes.size + 2 ≤ N` before a `create`: a bind creates two nodes).
* `grow2`, `growTop`, `Grown2 a s s'`: the exact sizes after an action (nodes, var cells, observers, naming table).
* `T2k.tinv2_ext`: `TInv2` survives an extension of the state by pristine nodes (`C2c.Ext`) under an extended rank (`N4c.RkUp`): old nodes keep their rank,
  `cnt` only grows with the node table (`cnt_ext`), new nodes are unnecessary.
* `create_run2`: a `create` of fragment F2 whose operands exist returns (no room needed: node creation checks no limit); `QInv2` under the extended rank.
* `create_total2`: with room for the `(grow2 (.create i)).1 ∈ {1, 2}` new nodes, `TInv2` under the extended rank as well.
-/
namespace IncrVerif.Proofs.NestH
open IncrVerif.Engine IncrVerif.Driver IncrVerif.Proofs IncrVerif.Proofs.Step IncrVerif.Proofs.Sched IncrVerif.Proofs.Quiet
open IncrVerif.Proofs.BindH

/-- the operands of a top-level creation instruction exist -/
def InstrIn2 (s : State) : Instr → Prop
  | .bind _ lhs => OpndIn s lhs
  | i => InstrIn s i

/-- the action names existing things and there is room for two new nodes (`stabilise` is handled elsewhere) -/
def ActionOK2 (N : Nat) (s : State) : Action → Prop
  | .create i => InstrIn2 s i ∧ s.nodes.size + 2 ≤ N
  | .stabilise => True
  | a => ActionOK N s a

/-- how many nodes / var cells / observers an action other than `stabilise` adds -/
def grow2 : Action → Nat × Nat × Nat
  | .create (.bind _ _) => (2, 0, 0)
  | a => grow a

/-- how many entries the naming table gets -/
def growTop : Action → Nat
  | .create _ => 1
  | _ => 0

/-- the sizes after an action -/
def Grown2 (a : Action) (s s' : State) : Prop :=
  s'.nodes.size = s.nodes.size + (grow2 a).1 ∧ s'.vars.size = s.vars.size + (grow2 a).2.1 ∧
    s'.observers.size = s.observers.size + (grow2 a).2.2 ∧ s'.top.size = s.top.size + growTop a

theorem grow2_le (a : Action) : (grow2 a).1 ≤ 2 ∧ (grow2 a).2.1 ≤ 1 ∧ (grow2 a).2.2 ≤ 1 := by
  unfold grow2
  split
  · exact ⟨Nat.le_refl _, Nat.zero_le _, Nat.zero_le _⟩
  · unfold grow
    split <;> simp

namespace T2k

/-- `TInv2` survives an extension of the state by pristine nodes under an extended rank -/
theorem tinv2_ext {rk rk' : Nat → Nat} {N : Nat} {s s' : State} (T : TInv2 rk N s) (U : N4c.RkUp rk rk' s.nodes.size)
    (E : C2c.Ext s s') (hroom : s'.nodes.size ≤ N) : TInv2 rk' N s' where
  hb m hn ho := by
    have hm := E.lt_of_nec hn
    rw [E.nec_old hm] at hn
    rw [E.old m hm]
    have h1 := T.hb m hn ho
    have h2 := cnt_ext U.rkExt hm E.grow
    omega
  room := ⟨by rw [E.ahh]; exact T.room.ahh, by rw [E.rch]; exact T.room.rch, hroom⟩
  linked c vc h := by
    rcases E.vars with e | ⟨v, e⟩
    · rw [e] at h; exact T.linked c vc h
    · rw [e, Array.getElem?_push] at h
      split at h
      · injection h with h
        rw [← h]
      · exact T.linked c vc h
  newNodup := by rw [E.newObservers]; exact T.newNodup
  newState o ob h1 h2 := by
    rw [E.newObservers] at h1
    rw [E.observers] at h2
    exact T.newState o ob h1 h2

/-- the elaboration of a top-level instruction of the fragment whose operands exist returns -/
theorem elab_ret2 {env : Env} {rk : Nat → Nat} {s : State} {i : Instr} (Q : QInv2 env rk s) (hi : InstrTop2 env s.top.size i)
    (hin : InstrIn2 s i) :
    ∃ ro s1, (elabInstrM env [] .unit i).run.run s = (.ok ro, s1) ∧
      s1.nodes.size = s.nodes.size + (grow2 (.create i)).1 ∧ s1.vars.size = s.vars.size + (grow2 (.create i)).2.1 := by
  have hsc := Q.struct.frag.scope
  cases i with
  | const v =>
    unfold elabInstrM
    simp only
    unfold elabInstr
    rw [run_bind_get]
    simp only [hsc]
    exact ⟨_, _, map_run_ok (createNode_top_run _ s), by simp only [Array.size_push]; rfl, rfl⟩
  | var v =>
    unfold elabInstrM
    simp only
    unfold elabInstr
    rw [run_bind_get]
    simp only
    exact ⟨_, _, map_run_ok (createVar_top_run _ s), by simp only [Array.size_push]; rfl, by simp only [Array.size_push]; rfl⟩
  | map f args =>
    unfold elabInstrM
    simp only
    unfold elabInstr
    rw [run_bind_get]
    simp only [hsc]
    obtain ⟨r, hr⟩ := mapM_resolve_run args hin
    rw [run_bind_ok hr]
    exact ⟨_, _, map_run_ok (createNode_top_run _ s), by simp only [Array.size_push]; rfl, rfl⟩
  | fold f init cs =>
    unfold elabInstrM
    simp only
    unfold elabInstr
    rw [run_bind_get]
    simp only [hsc]
    obtain ⟨r, hr⟩ := mapM_resolve_run cs hin
    rw [run_bind_ok hr]
    split
    · exact ⟨_, _, map_run_ok (createNode_top_run _ s), by simp only [Array.size_push]; rfl, rfl⟩
    · exact ⟨_, _, map_run_ok (createNode_top_run _ s), by simp only [Array.size_push]; rfl, rfl⟩
  | zip a b =>
    have hi' : StaticInstr env (.zip a b) := hi
    have hin' : InstrIn s (.zip a b) := hin
    unfold elabInstrM
    simp only
    unfold elabInstr
    rw [run_bind_get]
    simp only [hsc]
    obtain ⟨na, hna⟩ := resolveOpnd_run hin'.1
    obtain ⟨nb, hnb⟩ := resolveOpnd_run hin'.2
    obtain ⟨-, ka, hka⟩ := resolveOpnd_outer_inv hi'.1 hna
    obtain ⟨-, kb, hkb⟩ := resolveOpnd_outer_inv hi'.2 hnb
    obtain ⟨ca, hca⟩ := isConstant_run (Q.f2.topOK ka na hka).1
    obtain ⟨cb, hcb⟩ := isConstant_run (Q.f2.topOK kb nb hkb).1
    rw [run_bind_ok hna, run_bind_ok hnb, run_bind_ok hca, run_bind_ok hcb]
    split
    · exact ⟨_, _, map_run_ok (createNode_top_run _ s), by simp only [Array.size_push]; rfl, rfl⟩
    · exact ⟨_, _, map_run_ok (createNode_top_run _ s), by simp only [Array.size_push]; rfl, rfl⟩
  | bind body lhs =>
    have hin' : OpndIn s lhs := hin
    unfold elabInstrM
    simp only
    unfold elabInstr
    rw [run_bind_get]
    simp only
    obtain ⟨n, hn⟩ := resolveOpnd_run hin'
    rw [run_bind_ok hn]
    exact ⟨_, _, map_run_ok (C2c.createBind_run body n s hsc), by simp only [Array.size_push]; rfl, rfl⟩
  | _ => exact hi.elim

end T2k

/-- **`create` never panics** (no room needed for that).  A `create` of fragment F2 (static instruction, or top-level `bind body (outer k)` with a closure
in F2) whose operands exist returns; `QInv2` holds under an EXTENDED rank (old ranks unchanged); the exact sizes. -/
theorem create_run2 {env : Env} {rk : Nat → Nat} {s : State} {i : Instr} {tk : Array Nat}
    (Q : QInv2 env rk s) (hi : InstrTop2 env s.top.size i) (hin : InstrIn2 s i) :
    ∃ r s' rk', (stepAction env (.create i) tk).run.run s = (.ok r, s') ∧ r.2 = tk ∧
      N4c.RkUp rk rk' s.nodes.size ∧ QInv2 env rk' s' ∧ Grown2 (.create i) s s' ∧ C2c.Ext s s' := by
  obtain ⟨ro, s1, hrun, hns, hvs⟩ := T2k.elab_ret2 Q hi hin
  have hstep : ∃ r s', (stepAction env (.create i) tk).run.run s = (.ok r, s') ∧ r.2 = tk ∧ s'.nodes = s1.nodes ∧
      s'.vars = s1.vars := by
    unfold stepAction
    simp only
    rw [run_bind_ok hrun]
    cases ro with
    | none => exact ⟨_, _, run_pure _ _, rfl, rfl, rfl⟩
    | some n =>
      simp only
      rw [run_bind_modify]
      exact ⟨_, _, run_pure _ _, rfl, rfl, rfl⟩
  obtain ⟨r, s', h, hr, en, ev⟩ := hstep
  obtain ⟨rk', U, Q', E, m, htop, -, -, -⟩ := step_create2_rk Q hi h
  refine ⟨r, s', rk', h, hr, U, Q', ⟨?_, ?_, ?_, ?_⟩, E⟩
  · rw [en]; exact hns
  · rw [ev]; exact hvs
  · rw [E.observers]
    have h0 : (grow2 (.create i)).2.2 = 0 := by
      unfold grow2
      split
      · rfl
      · unfold grow
        split <;> first | rfl | (rename_i h; cases h)
    rw [h0]; rfl
  · rw [htop, Array.size_push]; rfl

/-- **`create`, total.**  With room for the one or two new nodes, `TInv2` holds under the extended rank as well. -/
theorem create_total2 {env : Env} {rk : Nat → Nat} {N : Nat} {s : State} {i : Instr} {tk : Array Nat}
    (Q : QInv2 env rk s) (T : TInv2 rk N s) (hi : InstrTop2 env s.top.size i) (hin : InstrIn2 s i)
    (hroom : s.nodes.size + (grow2 (.create i)).1 ≤ N) :
    ∃ r s' rk', (stepAction env (.create i) tk).run.run s = (.ok r, s') ∧ r.2 = tk ∧
      N4c.RkUp rk rk' s.nodes.size ∧ QInv2 env rk' s' ∧ TInv2 rk' N s' ∧ Grown2 (.create i) s s' ∧ C2c.Ext s s' := by
  obtain ⟨r, s', rk', h, hr, U, Q', G, E⟩ := create_run2 (tk := tk) Q hi hin
  exact ⟨r, s', rk', h, hr, U, Q', T2k.tinv2_ext T U E (by rw [G.1]; exact hroom), G, E⟩

end IncrVerif.Proofs.NestH
