import IncrVerif.Proofs.FullH57
/-!
# C01 full fragment: the `didChange` invariant through a run of a change detector, part 5
(phase 2: the new right-hand side is linked — the one place where nodes BECOME necessary is the call of
`add_parent_without_adjusting_heights rhs 1 main`, handled by `addParent_keepsK_all'` (KC3) —, the old one is unlinked)
-/
namespace IncrVerif.Proofs.FullH
open IncrVerif.Engine IncrVerif.Proofs IncrVerif.Proofs.Step IncrVerif.Proofs.Sched IncrVerif.Proofs.Quiet
open IncrVerif.Proofs.MapRefH (IsMapRef isMapRef_iff not_isMapRef_iff FM)
open IncrVerif.Proofs.BindH (DInv BGraph Below Edge)
open IncrVerif.Proofs.NestH (F2Inv GInv2 All2)
open IncrVerif.Proofs.NestH.NC (Pre2 P1 P2 P3)

namespace KL

section
variable {env : Env} {sp : Nat → Val → Val} {g g2 : Nat → Option Val} {s s1 s2 u : State}
  {rk rk' : Nat → Nat} {n b rhs : Nat} {br : BindRec} {l : List Nat}

/-- `u` against `s1`: what the invariant reads is the same -/
theorem PreU.shk (PU : PreU n b rhs s1 u) : SHk s1 u := by
  refine ⟨PU.size, fun m => ?_, fun m => ?_, fun m => ?_, fun m hd => ?_, fun m hm => by rw [← PU.nec m]; exact hm⟩
  · obtain ⟨pl, f, c, e⟩ := PU.node m; rw [e]
  · obtain ⟨pl, f, c, e⟩ := PU.node m; rw [e]
  · obtain ⟨pl, f, c, e⟩ := PU.node m; rw [e]
  · obtain ⟨pl, f, c, e⟩ := PU.node m; rw [e] at hd; exact hd

theorem PreU.rcp (PU : PreU n b rhs s1 u) (m : Nat) : (u.nodeD m).recomputedAt = (s1.nodeD m).recomputedAt := by
  obtain ⟨pl, f, c, e⟩ := PU.node m; rw [e]

/-- kinds after phase 2 -/
theorem kind2 (Q : P2 (VE env sp) rk' n b rhs br l (virt g s1) (virt g2 s2)) (V : VM s1 s2) (m : Nat) :
    (s2.nodeD m).kind = (s1.nodeD m).kind := by
  have hsz : s2.nodes.size = s1.nodes.size := by have := Q.rel.size; rw [virt_size, virt_size] at this; exact this
  by_cases hm : m < s1.nodes.size
  · exact (V.kind m hm).1
  · rw [nodeD_default_of_ge s1 m (by omega), nodeD_default_of_ge s2 m (by omega)]

/-- validity after phase 2 -/
theorem valid2 (Q : P2 (VE env sp) rk' n b rhs br l (virt g s1) (virt g2 s2)) (m : Nat) :
    (s2.nodeD m).valid = (s1.nodeD m).valid := by
  have := Q.valid m
  rw [virt_nodeD, virt_nodeD, virtNode_valid, virtNode_valid] at this
  exact this

/-- the bind table in `u` is the final one -/
theorem binds_u (P : P1 (VE env sp) rk rk' n b rhs br l (virt g s) (virt g s1))
    (Q : P2 (VE env sp) rk' n b rhs br l (virt g s1) (virt g2 s2)) (PU : PreU n b rhs s1 u) : u.binds = s2.binds := by
  rw [PU.binds]
  apply Array.ext_getElem?
  intro i
  rw [Array.getElem?_modify]
  by_cases e : b = i
  · subst e
    rw [if_pos rfl]
    have h1 : s1.binds[b]? = some { br with allNodesCreatedOnRhs := l } := P.bind
    have h2 : s2.binds[b]? = some { { br with allNodesCreatedOnRhs := l } with rhs := some rhs } := Q.rel.bind
    rw [h1, h2]; rfl
  · rw [if_neg e]
    exact (Q.rel.bindsOther i (Ne.symm e)).symm

/-- the child lists in `u` are the final ones -/
theorem children_u (P : P1 (VE env sp) rk rk' n b rhs br l (virt g s) (virt g s1))
    (Q : P2 (VE env sp) rk' n b rhs br l (virt g s1) (virt g2 s2)) (V : VM s1 s2) (PU : PreU n b rhs s1 u)
    (hx : ∀ m e, (s1.nodeD m).kind ≠ .expert e) (m : Nat) : u.children m = s2.children m := by
  apply KC.children_congr
  · simp only [Node.kind?, PU.shk.kind, PU.shk.valid, kind2 Q V, valid2 Q]
  · exact binds_u P Q PU
  · intro e; rw [kind2 Q V]; exact hx m e

theorem lt_of_mem_children {s : State} {m c : Nat} (h : c ∈ s.children m) : m < s.nodes.size := by
  by_cases hm : m < s.nodes.size
  · exact hm
  · rw [BindH.children_default s m (by omega)] at h; cases h

/-- what the linking cascade reads of the fragment, in `u` -/
theorem ck_u (P : P1 (VE env sp) rk rk' n b rhs br l (virt g s) (virt g s1))
    (Q : P2 (VE env sp) rk' n b rhs br l (virt g s1) (virt g2 s2)) (V : VM s1 s2) (PU : PreU n b rhs s1 u)
    (hx : ∀ m e, (s1.nodeD m).kind ≠ .expert e) : CK rk' u := by
  have hch := children_u P Q V PU hx
  refine ⟨fun m e => by rw [PU.shk.kind]; exact hx m e, fun m c hc => ?_, fun m c hc => ?_⟩
  · rw [hch] at hc
    have hm := lt_of_mem_children hc
    exact (Q.g.frag.node m (by rw [virt_size]; exact hm)).kidLt c (by rw [virt_children]; exact hc)
  · rw [hch] at hc
    have hm := lt_of_mem_children hc
    have := (Q.g.frag.node m (by rw [virt_size]; exact hm)).kidsValid c (by rw [virt_children]; exact hc)
    rw [virt_nodeD, virtNode_valid] at this
    rw [PU.shk.valid, ← valid2 Q]; exact this

/-- the new right-hand side is a valid child of the main node, of smaller rank -/
theorem rhs_u (X : Pre2 (VE env sp) rk n b br (virt g s))
    (P : P1 (VE env sp) rk rk' n b rhs br l (virt g s) (virt g s1))
    (Q : P2 (VE env sp) rk' n b rhs br l (virt g s1) (virt g2 s2)) (PU : PreU n b rhs s1 u) :
    rk' rhs < rk' br.main ∧ (u.nodeD rhs).valid = true := by
  have emain : (virt g s1).nodeD br.main = (virt g s).nodeD br.main := P.old_other X.hml X.ne
  have hvm2 : ((virt g2 s2).nodeD br.main).valid = true := by rw [Q.valid, emain]; exact X.hvm
  have hml2 : br.main < (virt g2 s2).nodes.size := by
    rw [Q.rel.size]; exact Nat.lt_of_lt_of_le X.hml P.grow
  have hc : rhs ∈ (virt g2 s2).children br.main := by
    have := NestH.NC.main_children_all Q.g.frag (br := { { br with allNodesCreatedOnRhs := l } with rhs := some rhs })
      Q.rel.bind hvm2
    rw [this]
    exact List.mem_cons_of_mem _ (List.mem_singleton.2 rfl)
  have N := Q.g.frag.node br.main hml2
  refine ⟨N.kidLt rhs hc, ?_⟩
  have := N.kidsValid rhs hc
  rw [virt_nodeD, virtNode_valid] at this
  rw [PU.shk.valid, ← valid2 Q]; exact this

/-- **`Inherit` in `u`**: a valid map_ref node that is not stale in `u` is an old valid node that was not stale before the run -/
theorem inherit_u (F : FFrag env sp g s) (T : Inherit env g s) (A : F2Inv (VE env sp) rk (virt g s))
    (hkn : (s.nodeD n).kind = .bindLhsChange b) (hn : n < s.nodes.size)
    (O : Old1 env n s s1) (PU : PreU n b rhs s1 u) : Inherit env g u := by
  have S := PU.shk
  intro m pr i hv hk hst hu
  have hk1 : (s1.nodeD m).kind = .mapRef pr i := by rw [← S.kind]; exact hk
  have hv1 : (s1.nodeD m).valid = true := by rw [← S.valid]; exact hv
  have hm1 := lt_of_mapRef hk1
  rw [MapRefH.isStale_mapRef hk, hv, Bool.true_and] at hst
  -- `m` is old
  have hm : m < s.nodes.size := by
    false_or_by_contra
    rename_i hge
    have := O.new m (by omega) hm1
    rw [PU.rcp, this] at hst
    simp at hst
  have hmn : m ≠ n := by
    intro e; subst e
    rw [O.kind m hm, hkn] at hk1; cases hk1
  have hk0 : (s.nodeD m).kind = .mapRef pr i := by rw [← O.kind m hm]; exact hk1
  have hv0 : (s.nodeD m).valid = true := by rw [← O.valid m hm]; exact hv1
  obtain ⟨hi, hvi⟩ := kid_old A hm hv0 hk0
  have hin : i ≠ n := by
    intro e; subst e
    have hc : i ∈ (virt g s).children m := by
      rw [virt_children, children_mapRef hv0 hk0]; exact List.mem_singleton.2 rfl
    have := (A.frag.node m (by rw [virt_size]; exact hm)).lcChild i b hc
      (by rw [virt_nodeD, virtNode_kind, hkn]; rfl)
    rw [virt_nodeD, virtNode_kind, hk0] at this
    cases this
  -- not stale before the run
  have hst0 : s.isStale m = false := by
    rw [MapRefH.isStale_mapRef hk0, hv0, Bool.true_and]
    rw [PU.rcp, PU.chg i hin, (O.stamps m hm hmn).1, (O.stamps i hi hin).2] at hst
    exact hst
  have hval : ∀ a, a < s.nodes.size → (s.nodeD a).valid = true → u.value env a = s.value env a := fun a ha hva => by
    rw [S.value_eq, O.value a ha hva]
  have hu0 : Unclean env g s m := by
    unfold Unclean at hu ⊢; rw [← hval m hm hv0]; exact hu
  obtain ⟨h1, h2⟩ := T m pr i hv0 hk0 hst0 hu0
  refine ⟨by rw [S.kind, O.kind i hi]; exact h1, ?_⟩
  unfold Unclean at h2 ⊢
  rw [hval i hi hvi]; exact h2

/-- **phase 2 keeps the `didChange` invariant**: `K1`, `hpinv`, `O` come from phase 1, `T` from the drain invariant -/
theorem phase2_keepsK {fuel : Nat} (F : FFrag env sp g s) (T : Inherit env g s) (A : F2Inv (VE env sp) rk (virt g s))
    (X : Pre2 (VE env sp) rk n b br (virt g s))
    (hkn : (s.nodeD n).kind = .bindLhsChange b)
    (P : P1 (VE env sp) rk rk' n b rhs br l (virt g s) (virt g s1))
    (Q : P2 (VE env sp) rk' n b rhs br l (virt g s1) (virt g2 s2))
    (O : Old1 env n s s1) (K1 : KInv env g s1) (hx : ∀ m e, (s1.nodeD m).kind ≠ .expert e)
    (hpinv : s1.propagateInvalidity = [])
    (h2 : (Inval.lhsRelink env fuel n b br s.stabNum rhs).run.run s1 = (.ok (), s2)) (R : GR g g2 s1 s2) :
    KInv env g2 s2 := by
  have hn : n < s.nodes.size := by have := X.hlt; rw [virt_size] at this; exact this
  obtain ⟨u, PU, hcase⟩ := lhsRelink_inv h2
  have KU : KInv env g u := KInv.of_shk K1 PU.shk
  refine KInv.of_gr ?_ R
  rcases hcase with rfl | ⟨u', hsap, S⟩
  · exact KU
  · obtain ⟨u1, hapw, hHF⟩ := stateAddParent_inv hsap
    obtain ⟨hcp, hcv⟩ := rhs_u X P Q PU
    obtain ⟨K_1, G, -⟩ := addParent_keepsK_all' (ck_u P Q R.vm PU hx) (inherit_u F T A hkn hn O PU) KU hapw hcp hcv
    have hp1 : u1.propagateInvalidity = [] := by rw [G.pinv, PU.pinv]; exact hpinv
    exact KInv.of_shk (KInv.of_shk K_1 (SHk.of_hf (hHF hp1))) S

end
end KL
end IncrVerif.Proofs.FullH
