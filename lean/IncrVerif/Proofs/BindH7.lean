import IncrVerif.Proofs.BindH6
/-!
# Binds, part 3d: a run of a change detector re-establishes the drain invariant (pure logic, from `StepL`)
-/
namespace IncrVerif.Proofs.BindH
open IncrVerif.Engine IncrVerif.Proofs IncrVerif.Proofs.Step IncrVerif.Proofs.Sched

/-- the defining equation, pointwise version of `TargetB.congr` -/
theorem TargetB.congr' {env : Env} {s s' : State} {m : Nat} {w : Val}
    (hv : (s.nodeD m).valid = true) (hB : BKind env (s.nodeD m).kind)
    (hk : (s'.nodeD m).kind = (s.nodeD m).kind) (hvars : s'.vars = s.vars)
    (hb : ∀ b lc, (s.nodeD m).kind = .bindMain b lc → s'.binds[b]? = s.binds[b]?)
    (hc : ∀ c, c ∈ s.children m → (s'.nodeD c).value = (s.nodeD c).value)
    (h : TargetB env s m w) : TargetB env s' m w := by
  unfold TargetB at h ⊢
  rw [hk]
  cases hkd : (s.nodeD m).kind with
  | bindLhsChange b => rw [hkd] at h; exact h
  | bindMain b lc =>
    rw [hkd] at h
    obtain ⟨br, r, h1, h2, h3⟩ := h
    refine ⟨br, r, by rw [hb b lc hkd]; exact h1, h2, ?_⟩
    rw [hc r ?_]; exact h3
    unfold State.children Node.kind?
    rw [hv, hkd]
    simp only [if_true, h1, h2]
    simp
  | const w' => rw [hkd] at h; simpa only [Target, hk, hkd] using h
  | var c =>
    rw [hkd] at h
    simp only [Target, hk, hkd, hvars] at h ⊢
    exact h
  | map f args =>
    rw [hkd] at h
    have hcs : s.children m = args := by
      unfold State.children Node.kind?; rw [hv, hkd]; rfl
    simp only [Target, hk, hkd] at h ⊢
    obtain ⟨vals, h1, h2⟩ := h
    exact ⟨vals, by rw [plainVals_congr args (fun a ha => hc a (by rw [hcs]; exact ha))]; exact h1, h2⟩
  | fold f init cs =>
    rw [hkd] at h
    have hcs : s.children m = cs := by
      unfold State.children Node.kind?; rw [hv, hkd]; rfl
    simp only [Target, hk, hkd] at h ⊢
    obtain ⟨vals, h1, h2⟩ := h
    exact ⟨vals, by rw [plainVals_congr cs (fun a ha => hc a (by rw [hcs]; exact ha))]; exact h1, h2⟩
  | mapRef _ _ => rw [hkd] at hB; exact hB.elim
  | mapWithOld _ _ => rw [hkd] at hB; exact hB.elim
  | expert _ => rw [hkd] at hB; exact hB.elim

section
variable {env : Env} {n b : Nat} {br br' : BindRec} {r : Option Nat} {s s' : State}

/-- an old node other than `n` that is still valid: unchanged in what evaluation reads -/
theorem StepL.kept (R : StepL env n b br br' r s s') {m : Nat} (hm : m < s.nodes.size) (hne : m ≠ n)
    (hv' : (s'.nodeD m).valid = true) :
    (s.nodeD m).valid = true ∧ (s'.nodeD m).kind = (s.nodeD m).kind ∧
      (s'.nodeD m).createdIn = (s.nodeD m).createdIn ∧
      (s'.nodeD m).value = (s.nodeD m).value ∧ (s'.nodeD m).recomputedAt = (s.nodeD m).recomputedAt ∧
      (s'.nodeD m).changedAt = (s.nodeD m).changedAt ∧ (m ≠ br.main → s'.children m = s.children m) := by
  rcases R.old m hm hne with ⟨-, h2, -⟩ | ⟨h1, h2, h3, h4, h5, h6, h7⟩
  · rw [hv'] at h2; cases h2
  · exact ⟨by rw [← h1]; exact hv', h2, h3, h4, h5, h6, h7⟩

/-- the main node of the bind is the only node that has `n` as a child -/
theorem StepL.lc_only (R : StepL env n b br br' r s s') (g : BGraph env s)
    (hk : (s.nodeD n).kind = .bindLhsChange b) {m : Nat} (hm : m < s.nodes.size)
    (hv : (s.nodeD m).valid = true) (hc : n ∈ s.children m) : m = br.main := by
  have h1 := g.lcChild m n b hm hv hc hk
  obtain ⟨br0, h2, h3, -⟩ := g.mainRec m b n hm hv h1
  rw [R.bind] at h2; cases h2
  exact h3.symm

/-- staleness of a kept node other than the main node is unchanged -/
theorem StepL.stale_kept (R : StepL env n b br br' r s s') (g : BGraph env s)
    (hk : (s.nodeD n).kind = .bindLhsChange b) {m : Nat} (hm : m < s.nodes.size) (hne : m ≠ n)
    (hmain : m ≠ br.main) (hv' : (s'.nodeD m).valid = true) : s'.isStale m = s.isStale m := by
  obtain ⟨hv, k1, -, -, k4, -, k6⟩ := R.kept hm hne hv'
  have hB := (g.node m hm hv).1
  have hch := k6 hmain
  apply isStale_congr hB k1 (by rw [hv', hv]) k4 (fun c => by rw [R.vars]) hch
  intro c hc
  have hclt := ((g.node m hm hv).2.2 c hc).1
  have hcn : c ≠ n := by
    intro e; subst e
    exact hmain (R.lc_only g hk hm hv hc)
  have hcv' : (s'.nodeD c).valid = true := by
    have hm' : m < s'.nodes.size := Nat.lt_of_lt_of_le hm R.grow
    exact ((R.graph'.node m hm' hv').2.2 c (by rw [hch]; exact hc)).2
  exact (R.kept hclt hcn hcv').2.2.2.2.2.1

/-- the main node is stale afterwards (if it is still a valid node) -/
theorem StepL.main_stale (R : StepL env n b br br' r s s') (I : DInv env s (some n))
    (hv' : (s'.nodeD br.main).valid = true) : s'.isStale br.main = true := by
  obtain ⟨hm, hc, hc', hne⟩ := R.main
  have hm' : br.main < s'.nodes.size := Nat.lt_of_lt_of_le hm R.grow
  have hfr := I.fresh br.main n (Below.of_edge (Edge.child hc)) (Or.inr rfl)
  apply isStale_of_child hv' (R.graph'.node _ hm' hv').1 hc'
  rw [R.self.2.1, (R.kept hm hne hv').2.2.2.2.1]
  exact hfr

theorem StepL.self_fresh (R : StepL env n b br br' r s s') (I : DInv env s (some n)) :
    s'.isStale n = false := by
  have hlt' : n < s'.nodes.size := Nat.lt_of_lt_of_le I.cur_facts.2.1 R.grow
  apply isStale_fresh (R.graph'.node n hlt' R.self.2.2.2.1).1 R.stamps'.now (by rw [R.self.1, R.stabNum])
  · exact R.stamps'.var
  · intro c; exact (R.stamps'.node c).2

/-- an edge of the new graph that leaves a kept node other than the main node is an edge of the old graph -/
theorem StepL.edge_old (R : StepL env n b br br' r s s') (hnv : (s.nodeD n).valid = true) {a c : Nat}
    (ha : a < s.nodes.size) (hmain : a ≠ br.main) (he : Edge s' a c) : Edge s a c := by
  have hv' := he.valid
  by_cases han : a = n
  · subst han
    cases he with
    | child hc => rw [R.self.2.2.2.2.2.1] at hc; exact Edge.child hc
    | scope hv2 hsc hb =>
      -- the change detector keeps its scope; rebuild the edge from the old tables
      rename_i b2 br2
      have hold : (s.nodeD a).valid = true ∧ (s.nodeD a).createdIn = (s'.nodeD a).createdIn :=
        ⟨hnv, R.self.2.2.2.2.2.2.symm⟩
      by_cases hb2 : b2 = b
      · subst hb2
        rw [R.bind'] at hb; cases hb
        rw [show br'.lhsChange = br.lhsChange from R.lc.2.1.trans R.lc.1.symm]
        exact Edge.scope hold.1 (hold.2.trans hsc) R.bind
      · rw [R.bindsOther.2 b2 hb2] at hb
        exact Edge.scope hold.1 (hold.2.trans hsc) hb
  · obtain ⟨hv, -, k2, -, -, -, k6⟩ := R.kept ha han hv'
    cases he with
    | child hc => rw [k6 hmain] at hc; exact Edge.child hc
    | scope hv2 hsc hb =>
      rename_i b2 br2
      rw [k2] at hsc
      by_cases hb2 : b2 = b
      · subst hb2
        rw [R.bind'] at hb; cases hb
        rw [show br'.lhsChange = br.lhsChange from R.lc.2.1.trans R.lc.1.symm]
        exact Edge.scope hv hsc R.bind
      · rw [R.bindsOther.2 b2 hb2] at hb
        exact Edge.scope hv hsc hb

end

end IncrVerif.Proofs.BindH
