import IncrVerif.Proofs.FullH58
import IncrVerif.Proofs.FullH44
/-!
# C01 full fragment: the `didChange` invariant through a run of a change detector, part 6
(phase 4, and the assembly: `lc_keepsK`)
-/
namespace IncrVerif.Proofs.FullH
open IncrVerif.Engine IncrVerif.Proofs IncrVerif.Proofs.Step IncrVerif.Proofs.Sched IncrVerif.Proofs.Quiet
open IncrVerif.Proofs.MapRefH (IsMapRef isMapRef_iff not_isMapRef_iff FM ValFrame)
open IncrVerif.Proofs.BindH (DInv BGraph Below Edge)
open IncrVerif.Proofs.NestH (F2Inv GInv2 All2 Dying)
open IncrVerif.Proofs.NestH.NC (Pre2 P1 P2 P3)

namespace KL

/-! ## the state after phase 3 (any environment): the graph invariant, the change detector -/

theorem after3 {env : Env} {rk rk' : Nat → Nat} {n b rhs : Nat} {br : BindRec} {l : List Nat} {s s1 s2 s3 : State}
    (I : DInv env s (some n)) (A : F2Inv env rk s) (hk : (s.nodeD n).kind = .bindLhsChange b)
    (X : Pre2 env rk n b br s) (P : P1 env rk rk' n b rhs br l s s1)
    (Q : P2 env rk' n b rhs br l s1 s2) (R : P3 env rk' br s2 s3) :
    BGraph env s3 ∧ n < s3.nodes.size ∧ (s3.nodeD n).cutoff = .never := by
  have M := NestH.NC.midRel2_of X A P Q R
  have hD := NestH.NC.dying_iff X A P Q
  have hnd := X.n_notDying A
  have nf3 : ∀ m, (s3.nodeD m).forceNecessary = false := by
    intro m
    by_cases hd : Dying s2 br.allNodesCreatedOnRhs m
    · exact (R.rel.dead m hd).2.2.2.2.2.2.1
    · rw [R.rel.other m hd]; exact Q.noForce m
  refine ⟨?_, Nat.lt_of_lt_of_le X.hlt M.grow, by rw [(M.nk n X.hlt hnd).cutoff]; exact A.lcCut n b hk⟩
  apply NestH.bgraph_of_ginv2 R.g nf3
  intro m c hm hkc
  cases hsc : (s3.nodeD m).createdIn with
  | bind b' => exact absurd hkc (((R.g.frag.node m hm).inScope b' hsc).1 c)
  | top =>
    by_cases hd : Dying s br.allNodesCreatedOnRhs m
    · exfalso
      rw [(M.dead m hd).2.2.1] at hsc
      exact X.notDying_of_top A hsc hd
    · by_cases hlt : m < s.nodes.size
      · have k := M.nk m hlt hd
        rw [k.kind] at hkc
        rw [k.createdIn] at hsc
        rw [M.vars]
        exact I.graph.var m c hlt ((A.frag.node m hlt).top hsc).1 hkc
      · exfalso
        rw [(M.new m (by omega) hm).1] at hsc; cases hsc

/-! ## ghosts that give the same virtual state -/

theorem ghost_eq_of_virt_eq {g g' : Nat → Option Val} {s : State} (h : virt g s = virt g' s) {m p i : Nat}
    (hk : (s.nodeD m).kind = .mapRef p i) : g m = g' m := by
  have := congrArg (fun t : State => (t.nodeD m).value) h
  simp only [virt_nodeD, virtNode_value_mapRef _ _ hk] at this
  exact this

theorem KInv.of_ghost_eq {env : Env} {g g' : Nat → Option Val} {s : State} (K : KInv env g s)
    (h : ∀ m p i, (s.nodeD m).kind = .mapRef p i → g' m = g m) : KInv env g' s := by
  intro m p i hv hn hk hd
  rw [h m p i hk]; exact K m p i hv hn hk hd

theorem vm_started (n : Nat) (s : State) : VM s (started n s) :=
  (vm_modify s n (fun x => { x with recomputedAt := s.stabNum }) (by fkind)).trans (VM.of_nodes rfl)

/-! ## the assembly -/

section
variable {env : Env} {sp : Nat → Val → Val}

/-- **the run of a change detector**: the actual run is simulated by the virtual run (the ghost is erased on the nodes that die), and the
`didChange` invariant and the fragment are kept -/
theorem lc_keepsK_ex (E : EnvS env sp) {t s : State} {g : Nat → Option Val} {fuel n b : Nat} {r : Option Nat} {s' : State}
    (D : DInvF env sp t s g (some n)) (hk : (s.nodeD n).kind = .bindLhsChange b)
    (h : (recomputeOne env fuel n).run.run s = (.ok r, s')) :
    ∃ g', (recomputeOne (VE env sp) fuel n).run.run (virt g s) = (.ok r, virt g' s') ∧ Fr (FK env sp) g' s' ∧
      GR g g' s s' ∧ KInv env g' s' ∧ FFrag env sp g' s' := by
  have I := D.inv
  obtain ⟨rk, A⟩ := D.aux.1
  have hkv : ((virt g s).nodeD n).kind = .bindLhsChange b := by rw [virt_nodeD, virtNode_kind, hk]; rfl
  obtain ⟨br, X⟩ := NestH.NC.lc_pre2 I A hkv
  have hn : n < s.nodes.size := by have := X.hlt; rw [virt_size] at this; exact this
  have hv : (s.nodeD n).valid = true := by have := X.hvn; rw [virt_nodeD, virtNode_valid] at this; exact this
  have hb : s.binds[b]? = some br := X.hb
  have hnd := some_of_lt hn
  have hvn : (virt g s).nodes[n]? = some (virtNode (g n) (s.nodeD n)) := by rw [virt_getElem?, hnd]; rfl
  have hvval : (virtNode (g n) (s.nodeD n)).valid = true := by rw [virtNode_valid]; exact hv
  have hvk : (virtNode (g n) (s.nodeD n)).kind = .bindLhsChange b := by rw [virtNode_kind, hk]; rfl
  -- the two runs, phase by phase
  have hrun := Inval.recomputeOne_bindLhsChange_run env fuel n s _ b br hnd hv hk hb
  have hrunv := Inval.recomputeOne_bindLhsChange_run (VE env sp) fuel n (virt g s) _ b br hvn hvval hvk X.hb
  rw [hrun] at h
  obtain ⟨rhs, s1, h1, h⟩ := bind_ok_inv h
  obtain ⟨_, s2, h2, h⟩ := bind_ok_inv h
  obtain ⟨_, s3, h3, h4⟩ := bind_ok_inv h
  -- phase 1
  have hk? : (s.nodeD n).kind? = some (.bindLhsChange b) := by simp [Node.kind?, hv, hk]
  have hrd : tv g (started n s) br.lhs = (started n s).value env br.lhs := by
    rw [ST.tv_started, started_value]
    refine (kids_settled D br.lhs ?_).1
    unfold State.children
    rw [hk?]
    simp only [hb]
    exact List.mem_singleton.2 rfl
  have htop : TopLt s := fun k r hkr => by
    have := (A.topOK k r hkr).1; rw [virt_size] at this; exact this
  obtain ⟨v1, F1, V1⟩ := ST.SimAt.lhsRunClosure (n := n) (b := b) hrd (ST.topLt_started n htop)
    (fun v => ST.templS_of_envS E br.body v) (ST.fr_started D.frag.fr n) rhs s1 h1
  rw [ST.virt_started] at v1
  obtain ⟨rk', l, P⟩ := NestH.NC.phase1 (NestH.closure_spec2 _) X A v1
  have V : VM s s1 := (vm_started n s).trans V1
  have K1 := phase1_keepsK D.frag D.k A P V
  have O := old1_of D.frag A P V
  have hb1 : MapRefsBack s1 := mapRefsBack_of_vm D.frag.back V
  have hpinv : s1.propagateInvalidity = [] := P.rel.pinv.trans A.pinv
  -- phase 2
  obtain ⟨g2, v2, F2, R2⟩ := ST.SimX.lhsRelink (env := env) (sp := sp) fuel n b br s.stabNum rhs g s1 F1 () s2 h2
  have Q := NestH.NC.phase2 (NestH.relink_spec2 _) X A P v2
  have K2 := phase2_keepsK D.frag (DInvF.inherit D) A X hk P Q O K1 F1.noExp hpinv h2 R2
  have hb2 : MapRefsBack s2 := mapRefsBack_of_vm hb1 R2.vm
  -- phase 3
  obtain ⟨g3, v3, F3, R3⟩ := ST.SimX.lhsInvalidateOld (K := FK env sp) fuel br g2 s2 F2 () s3 h3
  have R := NestH.NC.phase3 (NestH.inval_spec2 _) X A P Q v3
  have K3 := phase3_keepsK K2 hb2 R R3
  have hb3 : MapRefsBack s3 := mapRefsBack_of_vm hb2 R3.vm
  -- phase 4
  obtain ⟨gr3, hn3, hcut3⟩ := after3 I A hkv X P Q R
  rw [virt_size] at hn3
  have V3 : VM s s3 := (V.trans R2.vm).trans R3.vm
  have hk3 : (s3.nodeD n).kind = .bindLhsChange b := by rw [(V3.kind n hn).1]; exact hk
  rw [virt_nodeD, virtNode_cutoff, hk3] at hcut3
  replace hcut3 : (s3.nodeD n).cutoff = .never := hcut3
  have hnm3 : ∀ p i, (s3.nodeD n).kind ≠ .mapRef p i := fun p i => by rw [hk3]; exact fun e => by cases e
  have FF3 : FFrag env sp g3 s3 := ⟨F3, hb3, R.g.frag.pc⟩
  obtain ⟨v4, F4, V4⟩ := ST.SimAt.lhsFinish_lc (env := env) (sp := sp) (fuel := fuel) ⟨b, hk3⟩ F3 r s' h4
  obtain ⟨K4, FF4⟩ := mcv_keepsK FF3 gr3 K3 hn3 hnm3 (Or.inr hcut3) (ValFrame.refl n s3) rfl
    (BindH.BC.lhsFinish_inv h4)
  refine ⟨g3, ?_, F4, ?_, K4, FF4⟩
  · have v2' : (Inval.lhsRelink (VE env sp) fuel n b br (virt g s).stabNum rhs).run.run (virt g s1)
        = (.ok (), virt g2 s2) := v2
    rw [hrunv, run_bind_ok v1, run_bind_ok v2', run_bind_ok v3]; exact v4
  · exact ((GR.of_vm V).trans R2).trans (R3.trans (GR.of_vm V4))

/-- **the `didChange` invariant through a run of a change detector**, for ANY ghost `g'` that describes the final virtual state -/
theorem lc_keepsK (E : EnvS env sp) {t s : State} {g g' : Nat → Option Val} {fuel n b : Nat} {r : Option Nat} {s' : State}
    (D : DInvF env sp t s g (some n)) (hk : (s.nodeD n).kind = .bindLhsChange b)
    (h : (recomputeOne env fuel n).run.run s = (.ok r, s'))
    (hv : (recomputeOne (VE env sp) fuel n).run.run (virt g s) = (.ok r, virt g' s')) : KInv env g' s' := by
  obtain ⟨g3, hv3, -, -, K, -⟩ := lc_keepsK_ex E D hk h
  rw [hv3] at hv
  have e : virt g3 s' = virt g' s' := (Prod.mk.inj hv).2
  exact KInv.of_ghost_eq K fun m p i hkm => (ghost_eq_of_virt_eq e hkm).symm

end
end KL
end IncrVerif.Proofs.FullH
