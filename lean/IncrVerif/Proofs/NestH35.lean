import IncrVerif.Proofs.NestH34
/-!
# Nested binds (F2), phase 3 (`lhsInvalidateOld`), part 5: the structural invariant after the phase; `inval_spec2 : InvalSpec2 env`
-/
namespace IncrVerif.Proofs.NestH
open IncrVerif.Engine IncrVerif.Proofs IncrVerif.Proofs.Step IncrVerif.Proofs.Sched IncrVerif.Proofs.Quiet
open IncrVerif.Proofs.BindH

namespace NI

namespace Ctx2
variable {env : Env} {rk : Nat → Nat} {s s' : State} {ex : Nat → Prop} {dy : List Nat} {b : Nat}

/-- the structural invariant after the dying subtrees have been invalidated -/
theorem ginv' (C : Ctx2 env rk s ex dy b s') : GInv2 env rk s' allClosed ex [] where
  frag := C.frag'
  par c p i h := by
    rw [C.parentsEq] at h
    obtain ⟨h1, h2⟩ := C.I.par c p i h
    have hnec : s.isNecessary p = true := (wants_closed rfl).1 h2
    have hp : ¬ Dying s dy p := fun hd => by rw [C.dyNec hd] at hnec; cases hnec
    refine ⟨by rw [C.children_other hp]; exact h1, (wants_closed rfl).2 ?_⟩
    rw [C.necEq]; exact hnec
  conv p i c hk hw := by
    by_cases hp : Dying s dy p
    · rw [C.children_dead hp] at hk; simp at hk
    · rw [C.children_other hp] at hk
      rw [C.parentsEq]
      refine C.I.conv p i c hk ((wants_closed rfl).2 ?_)
      rw [← C.necEq]; exact (wants_closed rfl).1 hw
  nodup c := by rw [C.parentsEq]; exact C.I.nodup c
  hlt c p i h hop := by
    rw [C.parentsEq] at h
    rw [C.heightEq, C.heightEq]
    exact C.I.hlt c p i h hop
  hpos n hn hop := by
    rw [C.necEq] at hn
    rw [C.heightEq]
    exact C.I.hpos n hn hop
  lnec p k h := by cases h
  unec p k h := by cases h
  heap := C.I.heap.congr C.M.rch C.M.size C.hrchEq
  hgt m hm hop := by
    rw [C.inRchEq] at hm
    rw [C.hrchEq, C.heightEq]
    exact C.I.hgt m hm hop
  qnec m hm := by
    rw [C.inRchEq] at hm
    rw [C.necEq]
    exact C.I.qnec m hm
  queued m hop hn hs hex := by
    rw [C.necEq] at hn
    have hm : ¬ Dying s dy m := fun hd => by rw [C.dyNec hd] at hn; cases hn
    rw [C.stale_other hm] at hs
    rw [C.inRchEq]
    exact C.I.queued m hop hn hs hex
  qstale m hm := by
    rw [C.inRchEq] at hm
    have hnd : ¬ Dying s dy m := fun hd => by rw [C.dyUnq hd] at hm; cases hm
    rw [C.stale_other hnd]
    exact C.I.qstale m hm
  opLt m h := absurd rfl h
  scopeH n b' br hv hsc hb hn hop := by
    have hnd := C.not_dying_of_valid hv
    rw [C.M.other n hnd] at hv
    rw [C.createdEq] at hsc
    obtain ⟨br0, hb0, -, -, e3, -, -⟩ := C.bsame.bwd' hb
    rw [C.necEq] at hn
    rw [e3, C.heightEq, C.heightEq]
    exact C.I.scopeH n b' br0 hv hsc hb0 hn hop
  inv m hv := by
    by_cases hd : Dying s dy m
    · obtain ⟨-, -, ⟨b', hsc⟩, hpar⟩ := C.facts hd
      refine ⟨by rw [C.parentsEq]; exact hpar, by rw [C.obsEq]; exact C.I.scopeObs m b' hsc,
        by rw [C.forceEq]; exact C.hnf m, by rw [C.inRchEq]; exact C.dyUnq hd, rfl⟩
    · rw [C.M.other m hd] at hv ⊢
      exact C.I.inv m hv
  scopeObs m b' h := by
    rw [C.createdEq] at h
    rw [C.obsEq]
    exact C.I.scopeObs m b' h
  lcObs m b' h := by
    rw [C.kindEq] at h
    rw [C.obsEq]
    exact C.I.lcObs m b' h

/-- what phase 3 changed -/
theorem irel (C : Ctx2 env rk s ex dy b s') : IRel2 dy s s' where
  size := C.M.size
  other := C.M.other
  dead m hm := by
    obtain ⟨hlt, -, ⟨b', hsc⟩, hpar⟩ := C.facts hm
    have hq := (inRch_false_iff _).1 (C.dyUnq hm)
    have hr : (s.nodeD m).heightInRch = -1 := by
      rcases C.I.heap.wf.range m hlt with h | ⟨h, -⟩
      · exact h
      · omega
    rw [C.M.dead m hm]
    exact ⟨rfl, rfl, rfl, rfl, hpar, C.I.scopeObs m b' hsc, C.hnf m, hr, rfl, Int.le_refl _, Int.le_refl _, rfl⟩
  bindsSize := C.M.bindsSize
  binds := C.M.binds
  vars := C.M.vars
  stabNum := C.M.stabNum
  status := C.M.status
  cfg := C.M.cfg
  scope := C.M.scope
  pc := C.M.pc
  rch := C.M.rch
  ahh := C.M.ahh
  top := C.M.top
  pinv := C.M.pinv

end Ctx2

end NI

/-- **Phase 3 keeps the structural invariant** (fragment F2): invalidating the previous generation of a bind, with the scopes of its inner binds -/
theorem inval_spec2 (env : Env) : InvalSpec2 env := by
  intro fuel b br rk s s' ex h I hnone hdy hrhs hnf hnh hp _
  have M := NI.lhsInvalidateOld_mid2 (rk := rk) h hnone (fun a ha => NI.sub_of_dying I hdy hnf hnh ha)
    (NI.recsK_of I.frag) hp
  have C : NI.Ctx2 env rk s ex br.allNodesCreatedOnRhs b s' := ⟨I, hdy, hrhs, hnf, M⟩
  exact ⟨C.ginv', C.irel⟩

end IncrVerif.Proofs.NestH
