import IncrVerif.Proofs.TidyH11
/-!
# T2b, part 3: exact simulation of one `recomputeOne` of a node that is not a map_with_old node, of `resolveOpnd`, and of
the API actions other than `create` and `stabilise` (from `MapOld9`, `MapOld16`)
-/
namespace IncrVerif.Proofs.TidyH.WT
open IncrVerif.Engine IncrVerif.Proofs IncrVerif.Proofs.Step IncrVerif.Proofs.Sched IncrVerif.Proofs.Quiet
open IncrVerif.Proofs.MapOldH

variable {sp : Nat → Val → Val}

/-- both steps reduce to `maybe_change_value` from corresponding states -/
theorem recomputeOne_sim_finish {env : Env} {s s' : State} {fuel n : Nat} {r : Except Panic (Option Nat)} {es : List Event} {v : Val}
    (hfr : Fr s)
    (ha : (recomputeOne env fuel n).run.run s
      = (maybeChangeValue env fuel n v).run.run (logged es (started n s)))
    (hv : (recomputeOne (virtEnv env sp) fuel n).run.run (virt s)
      = (maybeChangeValue (virtEnv env sp) fuel n v).run.run (logged es (started n (virt s))))
    (h : (recomputeOne env fuel n).run.run s = (r, s')) :
    (recomputeOne (virtEnv env sp) fuel n).run.run (virt s) = (r, virt s') ∧ Fr s' := by
  rw [ha] at h
  rw [hv, ← virt_started, ← virt_logged]
  exact Sim.maybeChangeValue env fuel n v _ ((hfr.started n).logged es) r s' h

theorem recomputeOne_sim {env : Env} {G : Nat → Prop} {s s' : State} {fuel n : Nat} {r : Except Panic (Option Nat)}
    (F : WFrag env G s) (hfr : Fr s) (hn : n < s.nodes.size)
    (hk : ∀ g i, (s.nodeD n).kind ≠ .mapWithOld g i)
    (hvar : ∀ c, (s.nodeD n).kind = .var c → ∃ vc, s.vars[c]? = some vc)
    (hkids : ∀ a, a ∈ kidsW (s.nodeD n).kind → (s.value env a).isSome = true)
    (h : (recomputeOne env fuel n).run.run s = (r, s')) :
    (recomputeOne (virtEnv env sp) fuel n).run.run (virt s) = (r, virt s') ∧ Fr s' := by
  have hnd := some_of_lt hn
  have hval := F.valid n hn
  have hrk := F.kind n hn
  have hvn : (virt s).nodes[n]? = some (virtNode (s.nodeD n)) := by rw [virt_getElem?, hnd]; rfl
  have hvval : (virtNode (s.nodeD n)).valid = true := by rw [virtNode_valid]; exact hval
  have hvk := virtNode_kind (s.nodeD n)
  cases hkd : (s.nodeD n).kind with
  | const v =>
    rw [hkd] at hvk
    refine recomputeOne_sim_finish (es := []) (v := v) hfr ?_ ?_ h
    · exact recomputeOne_const_run env fuel n s _ v hnd hval hkd
    · exact recomputeOne_const_run (virtEnv env sp) fuel n (virt s) _ v hvn hvval hvk
  | var c =>
    rw [hkd] at hvk
    obtain ⟨vc, hvc⟩ := hvar c hkd
    refine recomputeOne_sim_finish (es := []) (v := vc.value) hfr ?_ ?_ h
    · exact recomputeOne_var_run env fuel n s _ c vc hnd hval hkd hvc
    · exact recomputeOne_var_run (virtEnv env sp) fuel n (virt s) _ c vc hvn hvval hvk hvc
  | map f args =>
    rw [hkd] at hvk hrk hkids
    obtain ⟨vals, hvals⟩ := MapRefH.valuesOf_of_isSome env s args fun a ha => hkids a ha
    have hvvals : valuesOf (virtEnv env sp) (virt s) args = some vals := by
      rw [valuesOf_virt env (virtEnv env sp) s F.not_mapRef args]; exact hvals
    by_cases hf : f < fnZip
    · refine recomputeOne_sim_finish (es := [.inv s!"f{f}" n vals (env.fn f vals).render]) (v := env.fn f vals)
        hfr ?_ ?_ h
      · exact recomputeOne_map_run env fuel n s _ f args vals hnd hval hkd hf hvals (hrk.2 hf vals) F.pc
      · have := recomputeOne_map_run (virtEnv env sp) fuel n (virt s) _ f args vals hvn hvval hvk hf hvvals
          (hrk.2 hf vals) F.pc
        rw [virtEnv_fn_real env sp hrk.1] at this
        exact this
    · have hpk : f < fnPerKey := by
        have := hrk.1; unfold woBase at this; unfold fnPerKey; omega
      refine recomputeOne_sim_finish (es := []) (v := env.fn f vals) hfr ?_ ?_ h
      · exact recomputeOne_mapBuiltin_run env fuel n s _ f args vals hnd hval hkd hf hpk hvals
      · have := recomputeOne_mapBuiltin_run (virtEnv env sp) fuel n (virt s) _ f args vals hvn hvval hvk hf hpk hvvals
        rw [virtEnv_fn_real env sp hrk.1] at this
        exact this
  | fold f init cs =>
    rw [hkd] at hvk hkids
    obtain ⟨vals, hvals⟩ := MapRefH.valuesOf_of_isSome env s cs fun a ha => hkids a ha
    have hvvals : valuesOf (virtEnv env sp) (virt s) cs = some vals := by
      rw [valuesOf_virt env (virtEnv env sp) s F.not_mapRef cs]; exact hvals
    refine recomputeOne_sim_finish (es := [.inv s!"fold{f}" n vals (vals.foldl (env.foldStep f) init).render])
      (v := vals.foldl (env.foldStep f) init) hfr ?_ ?_ h
    · exact recomputeOne_fold_run env fuel n s _ f init cs vals hnd hval hkd hvals F.pc
    · exact recomputeOne_fold_run (virtEnv env sp) fuel n (virt s) _ f init cs vals hvn hvval hvk hvvals F.pc
  | mapWithOld g i => exact absurd hkd (hk g i)
  | _ => rw [hkd] at hrk; exact hrk.elim


theorem Act.sim_resolveOpnd (loc : List Nat) (o : Opnd) :
    Sim (Engine.resolveOpnd loc o) (Engine.resolveOpnd loc o) := by
  intro s; unfold Engine.resolveOpnd
  cases o <;> dsimp only <;> esim <;> split <;> esim
macro_rules | `(tactic| esim_leaf) => `(tactic| with_reducible exact Act.sim_resolveOpnd _ _)

/-- the virtual engine runs the same action, with the same outcome -/
theorem Act.simAt_stepAction {s : State} {a : Action} {C : Val → Prop} (env : Env) (sp : Nat → Val → Val)
    (tk : Array Nat) (hR : WPlain C a) :
    SimAt s (Engine.stepAction env a tk) (Engine.stepAction (virtEnv env sp) a tk) := by
  unfold Engine.stepAction
  cases a <;> simp only [WPlain] at hR
  all_goals first
    | exact hR.elim
    | (refine SimAt.seq (SimAt.discard (Sim.writeVar _ _ _ _)) fun _ _ _ => ?_; esim; done)
    | (esim; done)
    | (esim; exact SimAt.ret _)

end IncrVerif.Proofs.TidyH.WT
