import IncrVerif.Proofs.BindH48
import IncrVerif.Proofs.BindH57
import IncrVerif.Proofs.BindH60
import IncrVerif.Proofs.Invalidation
/-!
# Binds, fragment F1, part f: the auxiliary invariant `F1Inv` of a drain, and the CONTRACTS of the four phases of a run of a change detector

A run of a change detector `n` of bind `b` is (`Inval.recomputeOne_bindLhsChange_run`, `Proofs/Invalidation.lean`), from `started n s`:
`lhsRunClosure` (reset the list of registered nodes, run the closure = elaborate the template in scope `.bind b`), `lhsRelink` (install the new right-hand
side), `lhsInvalidateOld` (invalidate the previous generation), `lhsFinish` (`maybeChangeValue n ()`).
-/
namespace IncrVerif.Proofs.BindH
open IncrVerif.Engine IncrVerif.Proofs IncrVerif.Proofs.Step IncrVerif.Proofs.Sched IncrVerif.Proofs.Quiet

/-! ## templates of fragment F1 -/

/-- an operand of a closure whose bind has change detector `lc`, with `nloc` locals created so far: an OLDER top-level node or an earlier local -/
def OpndOK (s : State) (lc nloc : Nat) : Opnd → Prop
  | .outer k => ∃ r, s.top[k]? = some r ∧ r < lc
  | .loc j => j < nloc
  | _ => False

/-- instructions of F1 closures: each creates exactly one node -/
def InstrOK (env : Env) (s : State) (lc nloc : Nat) : Instr → Prop
  | .const _ => True
  | .lhsConst => True
  | .map f args => f < fnPerKey ∧ (f < fnZip → ∀ vals, env.fnEff f vals = []) ∧ ∀ a, a ∈ args → OpndOK s lc nloc a
  | .fold _ _ cs => ∀ a, a ∈ cs → OpndOK s lc nloc a
  | _ => False

def TemplOK (env : Env) (s : State) (lc : Nat) (t : Template) : Prop :=
  (∀ j i, t.instrs[j]? = some i → InstrOK env s lc j i) ∧ OpndOK s lc t.instrs.length t.ret

/-! ## the auxiliary invariant -/

structure F1Inv (env : Env) (s : State) : Prop where
  frag : All1 env s []
  nodup : ∀ c, (s.nodeD c).parents.Nodup
  ahh : AhhEmpty s
  pinv : s.propagateInvalidity = []
  noForce : ∀ m, (s.nodeD m).forceNecessary = false
  noHandlers : ∀ m, (s.nodeD m).numOnUpdateHandlers = 0
  /-- invalid nodes are isolated -/
  inv : ∀ m, (s.nodeD m).valid = false →
    (s.nodeD m).parents = [] ∧ (s.nodeD m).observers = [] ∧ (s.nodeD m).inRch = false
  scopeObs : ∀ m b, (s.nodeD m).createdIn = .bind b → (s.nodeD m).observers = []
  lcObs : ∀ m b, (s.nodeD m).kind = .bindLhsChange b → (s.nodeD m).observers = []
  lcCut : ∀ m b, (s.nodeD m).kind = .bindLhsChange b → (s.nodeD m).cutoff = .never
  /-- the naming table names top-level nodes that are not change detectors -/
  topOK : ∀ (k r : Nat), s.top[k]? = some r →
    r < s.nodes.size ∧ (s.nodeD r).createdIn = .top ∧ ∀ b', (s.nodeD r).kind ≠ .bindLhsChange b'
  closures : ∀ (b : Nat) (br : BindRec) (v : Val), s.binds[b]? = some br →
    TemplOK env s br.lhsChange (env.body br.body v)
  /-- a bind that never ran has no registered nodes -/
  rhsNone : ∀ (b : Nat) (br : BindRec), s.binds[b]? = some br → br.rhs = none → br.allNodesCreatedOnRhs = []
  /-- the installed right-hand side: an older top-level node or a valid node of the scope -/
  rhsOK : ∀ (b : Nat) (br : BindRec) (o : Nat), s.binds[b]? = some br → br.rhs = some o →
    ((s.nodeD o).createdIn = .top ∧ o < br.lhsChange ∧ ∀ b', (s.nodeD o).kind ≠ .bindLhsChange b') ∨
    ((s.nodeD o).createdIn = .bind b ∧ (s.nodeD o).valid = true)

/-- during a drain the structural invariant holds with every node closed and the current node excused -/
theorem ginv1_of_dinv {env : Env} {s : State} {x : Option Nat} (I : DInv env s x) (A : F1Inv env s) :
    GInv1 env s allClosed (fun m => x = some m) [] where
  frag := A.frag
  par c p i h := by
    obtain ⟨h1, h2⟩ := I.graph.parent c p i h
    exact ⟨h2, (wants_closed rfl).2 h1⟩
  conv p i c hk hw := (I.graph.child p ((wants_closed rfl).1 hw) i c hk).2.1
  nodup := A.nodup
  hlt c p i h _ := by
    obtain ⟨h1, h2⟩ := I.graph.parent c p i h
    exact (I.graph.child p h1 i c h2).2.2
  hpos n hn _ := (I.graph.nec n hn).2
  lnec p k h := by cases h
  unec p k h := by cases h
  heap := ⟨I.heap.wf, fun m hm => by rw [I.heap.hgt m hm]; exact I.heap.lb m hm, I.heap.lb0⟩
  hgt m hm _ := I.heap.hgt m hm
  qnec m hm := Or.inl (I.heap.nec m hm)
  queued m _ hn hs hex := by
    rcases I.pending m hn hs with h | h
    · exact h
    · exact absurd h hex
  qstale := I.qstale
  opLt m h := absurd rfl h
  scopeH n b br hv hsc hb hn _ := by
    obtain ⟨br', hb', -, -, h⟩ := I.graph.scope n b (I.graph.nec_lt hn) hv hsc
    rw [hb] at hb'; cases hb'
    exact (h hn).2
  inv m hv := by
    obtain ⟨h1, h2, h3⟩ := A.inv m hv
    exact ⟨h1, h2, A.noForce m, h3, rfl⟩
  scopeObs := A.scopeObs
  lcObs := A.lcObs

/-! ## phase 1: the closure run -/

/-- what the closure run changes: it appends nodes (created in scope `.bind b`, pristine) and registers exactly them -/
structure CRel (b : Nat) (br : BindRec) (s s' : State) : Prop where
  grow : s.nodes.size ≤ s'.nodes.size
  old : ∀ m, m < s.nodes.size → s'.nodeD m = s.nodeD m
  new : ∀ m, s.nodes.size ≤ m → m < s'.nodes.size →
    (s'.nodeD m).createdIn = .bind b ∧ (s'.nodeD m).valid = true ∧ (s'.nodeD m).recomputedAt = -1 ∧
    (s'.nodeD m).changedAt = -1 ∧ (s'.nodeD m).value = none ∧ (s'.nodeD m).parents = [] ∧
    (s'.nodeD m).observers = [] ∧ (s'.nodeD m).forceNecessary = false ∧ (s'.nodeD m).heightInRch = -1 ∧
    (s'.nodeD m).heightInAhh = -1 ∧ (s'.nodeD m).numOnUpdateHandlers = 0
  bind : ∃ l, s'.binds[b]? = some { br with allNodesCreatedOnRhs := l } ∧
    ∀ m, m ∈ l ↔ (s.nodes.size ≤ m ∧ m < s'.nodes.size)
  bindsSize : s'.binds.size = s.binds.size
  bindsOther : ∀ b', b' ≠ b → s'.binds[b']? = s.binds[b']?
  vars : s'.vars = s.vars
  stabNum : s'.stabNum = s.stabNum
  status : s'.status = s.status
  cfg : s'.cfg = s.cfg
  scope : s'.currentScope = s.currentScope
  pc : s'.panicCountdown = s.panicCountdown
  rch : s'.rch = s.rch
  ahh : s'.ahh = s.ahh
  top : s'.top = s.top
  pinv : s'.propagateInvalidity = s.propagateInvalidity

/-- the specification of the closure run (phase 1) in fragment F1 -/
def ClosureSpec1 (env : Env) : Prop :=
  ∀ (n b rhs : Nat) (br : BindRec) (s s' : State) (ex : Nat → Prop),
    (Inval.lhsRunClosure env n b br).run.run s = (.ok rhs, s') →
    GInv1 env s allClosed ex [] → AhhEmpty s → s.binds[b]? = some br → br.lhsChange = n →
    (∀ v, TemplOK env s n (env.body br.body v)) →
    (∀ (k r : Nat), s.top[k]? = some r →
      r < s.nodes.size ∧ (s.nodeD r).createdIn = .top ∧ ∀ b', (s.nodeD r).kind ≠ .bindLhsChange b') →
    GInv1 env s' allClosed ex br.allNodesCreatedOnRhs ∧ AhhEmpty s' ∧ CRel b br s s' ∧
    rhs < s'.nodes.size ∧
    (((s'.nodeD rhs).createdIn = .top ∧ rhs < n ∧ ∀ b', (s'.nodeD rhs).kind ≠ .bindLhsChange b') ∨
      s.nodes.size ≤ rhs)

/-! ## phase 2: installing the new right-hand side -/

/-- the specification of `lhsRelink` (phase 2) in fragment F1; `br` is the record as it was when the run started (`br.rhs` = the old right-hand side),
`br1` the current record (its list of registered nodes is the new generation), `dy` the dying generation -/
def RelinkSpec1 (env : Env) : Prop :=
  ∀ (fuel b n rhs : Nat) (s s' : State) (br br1 : BindRec) (ex : Nat → Prop) (dy : List Nat),
    (Inval.lhsRelink env fuel n b br s.stabNum rhs).run.run s = (.ok (), s') →
    GInv1 env s allClosed ex dy → ex br.main → AhhEmpty s →
    s.binds[b]? = some br1 → br1.rhs = br.rhs → br1.main = br.main → br1.lhsChange = n →
    s.isNecessary br.main = true →
    rhs < s.nodes.size → rhs ∉ dy →
    (((s.nodeD rhs).createdIn = .top ∧ rhs < n ∧ ∀ b', (s.nodeD rhs).kind ≠ .bindLhsChange b') ∨
      ((s.nodeD rhs).createdIn = .bind b ∧ (s.nodeD rhs).valid = true)) →
    (∀ o, br.rhs = some o →
      ((s.nodeD o).createdIn = .top ∧ o < n ∧ ∀ b', (s.nodeD o).kind ≠ .bindLhsChange b') ∨
      ((s.nodeD o).createdIn = .bind b ∧ o ∈ dy)) →
    (∀ m, m ∈ dy → (s.nodeD m).createdIn = .bind b) →
    (∀ m, (s.nodeD m).forceNecessary = false) → s.propagateInvalidity = [] →
    (s.nodeD br.main).recomputedAt < s.stabNum →
    GInv1 env s' allClosed ex dy ∧ AhhEmpty s' ∧ RRelB b n rhs br1 s s' ∧ s'.propagateInvalidity = [] ∧
      (∀ m, (s'.nodeD m).forceNecessary = false) ∧ s'.isNecessary br.main = true

/-! ## phase 3: invalidating the previous generation -/

/-- what phase 3 changes: the dying nodes become invalid (value dropped, stamped with the round number); nothing else -/
structure IRel (dy : List Nat) (s s' : State) : Prop where
  size : s'.nodes.size = s.nodes.size
  other : ∀ m, m ∉ dy → s'.nodeD m = s.nodeD m
  dead : ∀ m, m ∈ dy → (s'.nodeD m).valid = false ∧ (s'.nodeD m).kind = (s.nodeD m).kind ∧
    (s'.nodeD m).createdIn = (s.nodeD m).createdIn ∧ (s'.nodeD m).parents = [] ∧ (s'.nodeD m).observers = [] ∧
    (s'.nodeD m).forceNecessary = false ∧ (s'.nodeD m).heightInRch = -1 ∧
    (s'.nodeD m).heightInAhh = (s.nodeD m).heightInAhh ∧
    (s'.nodeD m).recomputedAt ≤ s.stabNum ∧ (s'.nodeD m).changedAt ≤ s.stabNum ∧
    (s'.nodeD m).numOnUpdateHandlers = (s.nodeD m).numOnUpdateHandlers
  binds : s'.binds = s.binds
  vars : s'.vars = s.vars
  stabNum : s'.stabNum = s.stabNum
  status : s'.status = s.status
  cfg : s'.cfg = s.cfg
  scope : s'.currentScope = s.currentScope
  pc : s'.panicCountdown = s.panicCountdown
  rch : s'.rch = s.rch
  ahh : s'.ahh = s.ahh
  top : s'.top = s.top
  pinv : s'.propagateInvalidity = s.propagateInvalidity

/-- the specification of `lhsInvalidateOld` (phase 3) in fragment F1 -/
def InvalSpec1 (env : Env) : Prop :=
  ∀ (fuel b : Nat) (br : BindRec) (s s' : State) (ex : Nat → Prop),
    (Inval.lhsInvalidateOld fuel br).run.run s = (.ok (), s') →
    GInv1 env s allClosed ex br.allNodesCreatedOnRhs →
    (br.rhs = none → br.allNodesCreatedOnRhs = []) →
    (∀ m, m ∈ br.allNodesCreatedOnRhs → (s.nodeD m).createdIn = .bind b ∧ (s.nodeD m).parents = [] ∧
      (s.nodeD m).valid = true) →
    (∀ br1 r, s.binds[b]? = some br1 → br1.rhs = some r → r ∉ br.allNodesCreatedOnRhs) →
    (∀ m, (s.nodeD m).forceNecessary = false) → (∀ m, (s.nodeD m).numOnUpdateHandlers = 0) →
    s.propagateInvalidity = [] →
    GInv1 env s' allClosed ex [] ∧ IRel br.allNodesCreatedOnRhs s s'

end IncrVerif.Proofs.BindH
