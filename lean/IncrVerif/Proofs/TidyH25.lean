import IncrVerif.Proofs.TidyH24
import IncrVerif.Proofs.EffH18
/-!
# T3b part 1: the drain with write effects in node functions returns

Forward versions of `EffH.runEffects_writes` / `EffH.recomputeOne_eff_eq` (unconditional run equations, given that
the written variables exist), then the termination argument of `Sched.recompute_total` / `Sched.drainHeap_total`
replayed through the master equation.
-/
namespace IncrVerif.Proofs.TidyH.EffT
open IncrVerif.Engine IncrVerif.Driver IncrVerif.Proofs IncrVerif.Proofs.Step IncrVerif.Proofs.Sched
open IncrVerif.Proofs.Quiet IncrVerif.Proofs.EffH

/-- every variable written by a node function has an index below `B` -/
def FnBound (env : Env) (B : Nat) : Prop :=
  ∀ f vals e v g, e ∈ env.fnEff f vals → effWrite e = some (v, g) → v < B

/-- every variable written by an update handler has an index below `B` -/
def HBound (env : Env) (B : Nat) : Prop :=
  ∀ hid u e v g, e ∈ env.handler hid u → effWrite e = some (v, g) → v < B

theorem write_core_run (v : Nat) (f : Val → Val) (isSet : Bool) (k : Val → M Unit) (note : Val → List Event)
    (hk : ∀ x s, (k x).run.run s = (.ok (), logged (note x) s)) {s : State} {vc : VarCell}
    (hst : s.status = .stabilising) (hh : HandlesOK s) (hv : s.vars[v]? = some vc) :
    (withVarHandle v (writeVar v f isSet >>= k)).run.run s =
      (.ok (), logged (note (vc.pending.getD vc.value)) (deferred v vc f s)) := by
  rw [e2_run_withVarHandle _ _ _ hh, run_bind, writeVar_inside_run v f isSet s vc hv hst]
  simp only [hk]

/-- one write effect while `status = stabilising`, on an existing variable: the run IS `effStep` -/
theorem runEffectBasic_write_run {env : Env} {e : Effect} {s : State}
    (hst : s.status = .stabilising) (hw : (effWrite e).isSome = true) (hh : HandlesOK s)
    (hex : ∀ v f, effWrite e = some (v, f) → v < s.vars.size) :
    (runEffectBasic env e).run.run s = (.ok (), effStep e s) := by
  cases e <;> first | (exact Bool.noConfusion hw) | skip
  case setVar v x =>
    obtain ⟨vc, hv⟩ := e2_some_of_lt (hex v _ rfl)
    unfold runEffectBasic
    simp only [e2_discard_eq]
    refine (write_core_run v _ _ (fun _ => (pure () : M Unit)) (fun _ => []) (fun _ _ => rfl) hst hh hv).trans ?_
    unfold effStep; simp only [effWrite, hv]; rfl
  case modifyVar v d =>
    obtain ⟨vc, hv⟩ := e2_some_of_lt (hex v _ rfl)
    unfold runEffectBasic
    simp only [e2_discard_eq]
    refine (write_core_run v _ _ (fun _ => (pure () : M Unit)) (fun _ => []) (fun _ _ => rfl) hst hh hv).trans ?_
    unfold effStep; simp only [effWrite, hv]; rfl
  case updateVar v d =>
    obtain ⟨vc, hv⟩ := e2_some_of_lt (hex v _ rfl)
    unfold runEffectBasic
    simp only [e2_discard_eq]
    refine (write_core_run v _ _ (fun _ => (pure () : M Unit)) (fun _ => []) (fun _ _ => rfl) hst hh hv).trans ?_
    unfold effStep; simp only [effWrite, hv]; rfl
  case replaceVar v x =>
    obtain ⟨vc, hv⟩ := e2_some_of_lt (hex v _ rfl)
    unfold runEffectBasic
    refine (write_core_run v _ _ (fun old => logEv (.note s!"replace v{v} -> {old.render}"))
      (fun old => [.note s!"replace v{v} -> {old.render}"]) (fun _ _ => rfl) hst hh hv).trans ?_
    unfold effStep; simp only [effWrite, hv]; rfl
  case replaceWithVar v d =>
    obtain ⟨vc, hv⟩ := e2_some_of_lt (hex v _ rfl)
    unfold runEffectBasic
    refine (write_core_run v _ _ (fun old => logEv (.note s!"replacewith v{v} -> {old.render}"))
      (fun old => [.note s!"replacewith v{v} -> {old.render}"]) (fun _ _ => rfl) hst hh hv).trans ?_
    unfold effStep; simp only [effWrite, hv]; rfl

/-- **closed form, forward.** While `status = stabilising`, write effects on existing variables return `effSteps` -/
theorem runEffects_writes_run {env : Env} {fuel : Nat} {es : List Effect} {arg : Int} {s : State}
    (hst : s.status = .stabilising) (hw : ∀ e, e ∈ es → (effWrite e).isSome = true) (hh : HandlesOK s)
    (hex : ∀ e, e ∈ es → ∀ v f, effWrite e = some (v, f) → v < s.vars.size) :
    (runEffects env fuel es arg).run.run s = (.ok (), effSteps es s) := by
  induction es generalizing s with
  | nil => rw [runEffects_nil]; rfl
  | cons e es ih =>
    have he := hw e (List.mem_cons_self ..)
    rw [e2_runEffects_cons env fuel e es arg he,
      run_bind_ok (runEffectBasic_write_run hst he hh (hex e (List.mem_cons_self ..)))]
    have sp : SameP s (effStep e s) := effStep_sameP e s
    rw [ih (s := effStep e s) (sp.e2_status.trans hst) (fun e' he' => hw e' (List.mem_cons_of_mem _ he'))
      (sp.handlesOK hh) (fun e' he' v f hv => by rw [sp.size]; exact hex e' (List.mem_cons_of_mem _ he') v f hv),
      effSteps_cons]

theorem nodeEffs_bound {env : Env} {B : Nat} (hb : FnBound env B) (s : State) (n : Nat) :
    ∀ e, e ∈ nodeEffs env s n → ∀ v g, effWrite e = some (v, g) → v < B := by
  intro e he
  unfold nodeEffs at he
  split at he
  · split at he
    · split at he
      · exact fun v g hv => hb _ _ e v g he hv
      · cases he
    · cases he
  · cases he

/-- **master equation, forward**: on the current node of the scheduling invariant, while `status = stabilising`,
`recomputeOne` with write effects on existing variables IS the effect-free `recomputeOne` after the deferred writes
(same result — value or panic — and same final state) -/
theorem recomputeOne_eff_run {env : Env} {fuel n B : Nat} {s : State}
    (I : Inv (noEff env) s (some n)) (hst : s.status = .stabilising) (hw : WOnly env) (hh : HandlesOK s)
    (hb : FnBound env B) (hB : B ≤ s.vars.size) :
    (recomputeOne env fuel n).run.run s =
      (recomputeOne (noEff env) fuel n).run.run (effSteps (nodeEffs env s n) s) := by
  have g := I.graph
  have hn := (I.cur n rfl).1
  obtain ⟨hlt, hv, hk, _, _⟩ := g.nec n hn
  have hnn := some_of_lt hlt
  obtain ⟨vals, hvals⟩ := I.kids_values
  have hvo := g.valuesOf hn
  rw [hvals, valuesOf_noEff] at hvo
  cases hkd : (s.nodeD n).kind with
  | const w =>
    have e : nodeEffs env s n = [] := by simp only [nodeEffs, hkd]
    rw [e, effSteps_nil, recomputeOne_const_run env fuel n s _ w hnn hv hkd,
      recomputeOne_const_run (noEff env) fuel n s _ w hnn hv hkd, mcv_noEff]
  | var c =>
    obtain ⟨vc, hvc⟩ := g.var n c hn hkd
    have e : nodeEffs env s n = [] := by simp only [nodeEffs, hkd]
    rw [e, effSteps_nil, recomputeOne_var_run env fuel n s _ c vc hnn hv hkd hvc,
      recomputeOne_var_run (noEff env) fuel n s _ c vc hnn hv hkd hvc, mcv_noEff]
  | map f args =>
    rw [hkd] at hk hvo
    by_cases hf : f < fnZip
    · have hne := nodeEffs_of_kind hkd hf hvo
      have hbd := nodeEffs_bound hb s n
      rw [hne] at hbd ⊢
      rw [recomputeOne_mapEff_run env fuel n s _ f args vals hnn hv hkd hf hvo g.pc]
      have hwo : ∀ e, e ∈ env.fnEff f vals → (effWrite e).isSome = true := fun e he => hw f vals e he
      have hh' : HandlesOK (started n s) := hh
      have hX := runEffects_writes_run (env := env) (fuel := fuel) (arg := (vals.headD .unit).toInt)
        (s := started n s) hst hwo hh'
        (fun e he v g' hv' => Nat.lt_of_lt_of_le (hbd e he v g' hv') hB)
      rw [run_bind_ok hX, effSteps_started, run_bind_logEv]
      have P := effSteps_sameP (env.fnEff f vals) s
      have hnn' : (effSteps (env.fnEff f vals) s).nodes[n]? = some (s.nodeD n) := by
        rw [P.nodes]; exact hnn
      have hvo' : valuesOf (noEff env) (effSteps (env.fnEff f vals) s) args = some vals := by
        rw [valuesOf_noEff, P.valuesOf]; exact hvo
      rw [recomputeOne_map_run (noEff env) fuel n _ _ f args vals hnn' hv hkd hf hvo' rfl
        (by rw [P.pc]; exact g.pc), mcv_noEff]
      rfl
    · have e : nodeEffs env s n = [] := by simp only [nodeEffs, hkd, if_neg hf]
      rw [e, effSteps_nil, recomputeOne_mapBuiltin_run env fuel n s _ f args vals hnn hv hkd hf hk.1 hvo,
        recomputeOne_mapBuiltin_run (noEff env) fuel n s _ f args vals hnn hv hkd hf hk.1
          (by rw [valuesOf_noEff]; exact hvo), mcv_noEff]
      rfl
  | fold f init cs =>
    rw [hkd] at hvo
    have e : nodeEffs env s n = [] := by simp only [nodeEffs, hkd]
    rw [e, effSteps_nil, recomputeOne_fold_run env fuel n s _ f init cs vals hnn hv hkd hvo g.pc,
      recomputeOne_fold_run (noEff env) fuel n s _ f init cs vals hnn hv hkd
        (by rw [valuesOf_noEff]; exact hvo) g.pc, mcv_noEff]
    rfl
  | mapRef _ _ => rw [hkd] at hk; exact hk.elim
  | mapWithOld _ _ => rw [hkd] at hk; exact hk.elim
  | bindLhsChange _ => rw [hkd] at hk; exact hk.elim
  | bindMain _ _ => rw [hkd] at hk; exact hk.elim
  | expert _ => rw [hkd] at hk; exact hk.elim

theorem unrun_sameP {s s' : State} (P : SameP s s') : unrun s' = unrun s := by
  unfold unrun
  rw [P.nodes, P.stabNum]
  congr 1
  funext m
  rw [P.nodeD]

theorem safe_sameP {s s' : State} (P : SameP s s') (S : Safe s) : Safe s' :=
  S.transfer P.shape (by rw [P.rch])

theorem FrameP.unrun_le {s s' : State} (f : FrameP s s') (st : Stamps s) : unrun s' ≤ unrun s := by
  unfold unrun
  rw [f.size, f.stabNum]
  apply countP_le_of_imp
  intro m _ hm
  have := f.not_yet st (m := m) (by simpa using hm)
  simpa using this

theorem FrameP.unrun_lt {s s' : State} (f : FrameP s s') (st : Stamps s) {n : Nat} (hn : n < s.nodes.size)
    (h0 : (s.nodeD n).recomputedAt < s.stabNum) (h1 : (s'.nodeD n).recomputedAt = s.stabNum) :
    unrun s' < unrun s := by
  unfold unrun
  rw [f.size, f.stabNum]
  refine countP_lt_of_imp _ _ _ ?_ n (List.mem_range.2 hn) (by simpa using h0) (by simp [h1])
  intro m _ hm
  have := f.not_yet st (m := m) (by simpa using hm)
  simpa using this

/-- **the chain with write effects terminates** -/
theorem recompute_total_eff {env : Env} {B : Nat} (hw : WOnly env) (hb : FnBound env B) :
    ∀ (fuel n : Nat) (s : State), DI env s (some n) → Safe s → B ≤ s.vars.size →
      unrun s + 1 ≤ fuel → ∃ s', (recompute env fuel n).run.run s = (.ok (), s') := by
  intro fuel
  induction fuel with
  | zero => intro n s _ _ _ h; omega
  | succ fuel ih =>
    intro n s D S hB hf
    have I := D.inv
    have hnlt := (I.graph.nec n (I.cur n rfl).1).1
    have hpos := unrun_pos hnlt I.cur_not_yet
    have P := effSteps_sameP (nodeEffs env s n) s
    have I1 := P.inv I
    have S1 := safe_sameP P S
    have heq := recomputeOne_eff_run (fuel := fuel) I D.status hw D.handles hb hB
    unfold recompute
    rw [run_bind]
    rcases h1 : (recomputeOne env fuel n).run.run s with ⟨r | r, s1⟩
    · exfalso
      rw [heq] at h1
      have := (recomputeOne_safe I1 S1 h1).2
      omega
    · cases r with
      | none => exact ⟨s1, rfl⟩
      | some p =>
        obtain ⟨D1, r1, hn1, -⟩ := recomputeOne_effstep hw D h1
        have hlt := FrameP.unrun_lt r1.frame I.stamps hnlt I.cur_not_yet hn1
        exact ih p s1 D1 (S.transfer r1.frame.shape r1.frame.qsize) (by rw [r1.frame.vsize]; exact hB)
          (by omega)

/-- **the drain with write effects terminates**: no assertion fails, fuel `unrun s + 2` suffices -/
theorem drainHeap_total_eff {env : Env} {B : Nat} (hw : WOnly env) (hb : FnBound env B) :
    ∀ (fuel : Nat) (s : State), DI env s none → Safe s → B ≤ s.vars.size →
      unrun s + 2 ≤ fuel → ∃ s', (drainHeap env fuel).run.run s = (.ok (), s') := by
  intro fuel
  induction fuel with
  | zero => intro s _ _ _ h; omega
  | succ fuel ih =>
    intro s D S hB hf
    obtain ⟨r, s1, hpop, S1⟩ := rchRemoveMin_safe D.inv S
    unfold drainHeap
    rw [run_bind, hpop]
    cases r with
    | none => exact ⟨s1, rfl⟩
    | some n =>
      obtain ⟨D1, r1, f1, -⟩ := pop_eff D hpop
      have hle := f1.unrun_le D.inv.stamps
      have hB1 : B ≤ s1.vars.size := by rw [f1.vars]; exact hB
      obtain ⟨s2, hrec⟩ := recompute_total_eff hw hb fuel n s1 D1 S1 hB1 (by omega)
      have R := recompute_eff hw fuel n s1 s2 D1 hrec
      have I1 := D1.inv
      have hnlt := (I1.graph.nec n (I1.cur n rfl).1).1
      have hmem : n ∈ (chainSteps env fuel n s1).map (·.1) := by
        cases fuel with
        | zero => unfold recompute at hrec; cases hrec
        | succ k => unfold chainSteps; simp
      have hlt := FrameP.unrun_lt R.dr.frame I1.stamps hnlt I1.cur_not_yet (R.once n hmem).2.2
      obtain ⟨s', hd⟩ := ih s2 R.di (S1.transfer R.dr.frame.shape R.dr.frame.qsize)
        (by rw [R.dr.frame.vsize]; exact hB1) (by omega)
      refine ⟨s', ?_⟩
      simp only [run_bind, hrec, hd]

end IncrVerif.Proofs.TidyH.EffT
