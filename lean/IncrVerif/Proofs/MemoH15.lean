import IncrVerif.Proofs.MemoH14
/-!
# K3, recompute part (2): `recomputeOne` is a `TV` step
-/
namespace IncrVerif.Proofs.MemoH
open IncrVerif.Engine IncrVerif.Proofs.Obs IncrVerif.Proofs.Memo

namespace KB

/-- leaves from the contract and from goal 1 (hypotheses `ASpec env`, `EnvK3 env` found by `assumption`) -/
macro "aleaf" : tactic => `(tactic| first
  | with_reducible exact ASpec.prop (by assumption) _
  | with_reducible exact ASpec.bnp (by assumption) _ _
  | with_reducible exact ASpec.sap (by assumption) _ _ _ _
  | with_reducible exact ASpec.ccbr (by assumption) _ _ _ _ _
  | with_reducible exact ASpec.xadd (by assumption) _ _ _ _
  | with_reducible exact ASpec.effs (by assumption) _ _ _ (EnvK3.fnEff (by assumption) _ _)
  | with_reducible exact ASpec.effs (by assumption) _ _ _ (EnvK3.handler (by assumption) _ _)
  | with_reducible exact ASpec.ano (by assumption) _
  | with_reducible exact ASpec.send (by assumption) _
  | with_reducible exact KB.elabTemplate _ _ _
  | with_reducible exact KB.elabInstrM _ _ _ _
  | with_reducible exact KB.memoCall _ _ _)

macro_rules | `(tactic| mleaf) => `(tactic| aleaf)

/-- non-structural closing of a `Pres TV` atom -/
macro "matom" : tactic => `(tactic| first
  | with_reducible apply Pres.pure | with_reducible apply Pres.get | with_reducible apply Pres.panic
  | with_reducible apply Pres.throw
  | with_reducible apply Pres.getNode | with_reducible apply Pres.dassert
  | with_reducible apply Pres.getBind | with_reducible apply Pres.getExpert
  | with_reducible apply Pres.getVar | with_reducible apply Pres.assertM
  | with_reducible apply Pres.getObs | with_reducible apply Pres.isConstant
  | with_reducible apply Pres.resolveOpnd
  | with_reducible apply Pres.mapM
  | mleaf)

macro "kstep" : tactic => `(tactic| first
  | with_reducible apply PresK.getNode_bind (I := TrueP)
  | with_reducible apply PresK.getBind_bind
  | with_reducible apply PresK.forIn_mem
  | with_reducible apply PresK.bind
  | ((with_reducible apply PresK.of_pres); matom)
  | intro _ | split | dsimp only)

macro "kpres" : tactic => `(tactic| repeat (any_goals (first | kstep | mstep)))

set_option maxHeartbeats 1000000 in
theorem recomputeOneK {env : Env} (hA : ASpec env) (henv : EnvK3 env) (fuel n : Nat) :
    PresK TrueP (recomputeOne env fuel n) := by
  unfold Engine.recomputeOne
  kpres
  all_goals have hk := kind?_some (by assumption)
  all_goals rw [hk]
  all_goals first
    | exact PresK.dead (PresI.perKeyDriver _ _ _ _) fun s hs => KindAt.notNoPK hs.2 (by assumption)
    | exact PresK.invalidate hA _ _ fun s hs => Sc.notSTop hs.2 (by assumption)
    | exact PresK.invalidate hA _ _ fun s hs => KindAt.notSTop hs.1.2 (fun h => h)
    | exact PresK.invalidate hA _ _ fun s hs => KindAt.notSTop hs.2 (fun h => h)

/-- goal 2 -/
theorem recomputeOne {env : Env} (hA : ASpec env) (henv : EnvK3 env) (fuel n : Nat) :
    Pres TV (Engine.recomputeOne env fuel n) := (recomputeOneK hA henv fuel n).toPres

end KB

end IncrVerif.Proofs.MemoH
