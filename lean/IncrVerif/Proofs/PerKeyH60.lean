import IncrVerif.Proofs.PerKeyH58
import IncrVerif.Proofs.PerKeyH59
/-!
# One `.right` iteration of the per-key loop, part b: the shape `RSh` of the state after the creation steps,
steps A–D (`σ → σ4`)
-/
namespace IncrVerif.Proofs.PerKeyH
open IncrVerif.Engine IncrVerif.Driver IncrVerif.Proofs IncrVerif.Proofs.Step IncrVerif.Proofs.Sched
open IncrVerif.Proofs.ExpertH IncrVerif.Proofs.EffH IncrVerif.Proofs.DriverH IncrVerif.Proofs.ExpertH.QR IncrVerif.Proofs.Xp

/-! ## the shape -/

/-- `τ` is `σ` plus the per-key input node `σ.nodes.size` (record `σ.experts.size`, one dependency on `lc`) and an
instance of `tm` right behind it; old records outside `D` are untouched -/
structure RSh (env : Env) (op : Nat) (key : Int) (lc : Nat) (tm : Template) (D : Nat → Prop) (σ τ : State)
    (mapped : Nat) : Prop where
  mid : Mid (twEnv env) (twL [] τ)
  slots : SlotInv env τ
  lfx : LFX D σ τ
  size : τ.nodes.size = σ.nodes.size + 1 + tm.instrs.length
  xsize : τ.experts.size = σ.experts.size + 1
  pnode : nodeKey (τ.nodeD σ.nodes.size) = nodeKey ({ kind := .expert σ.experts.size, createdIn := .top } : Node)
  inode : ∀ j i, tm.instrs[j]? = some i → ∃ k,
    instrKind σ.top (σ.nodes.size :: List.range' (σ.nodes.size + 1) j) (.int key) i = some k ∧
    nodeKey (τ.nodeD (σ.nodes.size + 1 + j)) = nodeKey ({ kind := k, createdIn := .top } : Node)
  ret : resP σ.top (σ.nodes.size :: List.range' (σ.nodes.size + 1) tm.instrs.length) tm.ret = some mapped
  xnew : ∃ erX, τ.experts[σ.experts.size]? = some erX ∧ erX.f = 0 ∧ erX.node = σ.nodes.size ∧
    erX.pk = some (op, some key) ∧ erX.children = [{ dep := σ.nextDep, child := lc, cb := none }] ∧
    erX.forceStale = true

/-! ## kinds of template instructions -/

theorem instrKind_facts {env : Env} {top : Array Nat} {loc : List Nat} {v : Val} {i : Instr} {k : Kind}
    (hi : TInstrOK env i) (h : instrKind top loc v i = some k) :
    PKind env k ∧ (∀ c, k ≠ .var c) ∧ (∀ e, k ≠ .expert e) ∧ (∀ p j, k ≠ .mapRef p j) ∧
      (∀ f args, k = .map f args → f < fnZip) := by
  cases i with
  | const w =>
    simp only [instrKind, Option.some.injEq] at h; subst h
    exact ⟨trivial, fun _ h => (by cases h), fun _ h => (by cases h), fun _ _ h => (by cases h), fun _ _ h => (by cases h)⟩
  | lhsConst =>
    simp only [instrKind, Option.some.injEq] at h; subst h
    exact ⟨trivial, fun _ h => (by cases h), fun _ h => (by cases h), fun _ _ h => (by cases h), fun _ _ h => (by cases h)⟩
  | map f args =>
    simp only [instrKind] at h
    cases hm : args.mapM (resP top loc) with
    | none => rw [hm] at h; cases h
    | some as =>
      rw [hm] at h
      simp only [Option.map_some, Option.some.injEq] at h; subst h
      exact ⟨Or.inl hi, fun _ h => (by cases h), fun _ h => (by cases h), fun _ _ h => (by cases h),
        fun _ _ h => (by cases h; exact hi.1)⟩
  | fold f init cs =>
    simp only [instrKind] at h
    split at h
    · cases h
    · cases hm : cs.mapM (resP top loc) with
      | none => rw [hm] at h; cases h
      | some as =>
        rw [hm] at h
        simp only [Option.map_some, Option.some.injEq] at h; subst h
        exact ⟨hi.1, fun _ h => (by cases h), fun _ h => (by cases h), fun _ _ h => (by cases h), fun _ _ h => (by cases h)⟩
  | _ => exact hi.elim

/-! ## `SlotInv` along a creation frame -/

theorem r_no_mapRef {E : Env} {l : List Event} {σ : State} (M : Mid E (twL l σ)) (m p i : Nat) :
    (σ.nodeD m).kind ≠ .mapRef p i := by
  intro h
  have := M.frag.noMapRef m p i
  rw [KtwL_kind, h] at this
  exact this rfl

theorem r_cfx_slots {env : Env} {σ τ : State} (M : Mid (twEnv env) (twL [] σ)) (S : SlotInv env σ) (C : CFX σ τ) :
    SlotInv env τ := by
  refine CFX.slotInv S C (fun n e hk => ?_) (fun n e er hk he ed hed => ?_) (r_no_mapRef M)
  · have hk' : ((twL [] σ).nodeD n).kind = .expert e := by rw [KtwL_kind, hk]; rfl
    have := M.frag.xlt hk'
    rwa [twL_experts_size] at this
  · refine r_kids_lt M (m := n) (c := ed.child) ?_
    rw [hk]
    simp only [kidsX, xRec_some he]
    exact List.mem_map.2 ⟨ed, hed, rfl⟩

/-! ## steps A, B -/

/-- an old node keeps its children when a record is pushed -/
theorem rS1_kidsX {E : Env} (op : Nat) (key : Int) {σ : State} (M : Mid E (twL [] σ)) {m : Nat}
    (hm : m < σ.nodes.size) :
    kidsX (rS1 op key σ).experts ((rS1 op key σ).nodeD m).kind = kidsX σ.experts (σ.nodeD m).kind := by
  refine kidsX_bf_same (D := fun _ => False) (LF.bf (lf_rS1 op key σ _)) hm fun e hk => ⟨fun h => h, ?_⟩
  have hk' : ((twL [] σ).nodeD m).kind = .expert e := by rw [KtwL_kind, hk]; rfl
  obtain ⟨er', h1, -⟩ := M.frag.xrec m e (by rw [twL_size]; exact hm) hk'
  obtain ⟨er, h2, -⟩ := r_tw_inv h1
  exact ⟨er, h2⟩

theorem r_stepAB {env : Env} {fuel op lc : Nat} {key : Int} {σ σ2 : State} {d1 : Nat}
    (M : Mid (twEnv env) (twL [] σ)) (S : SlotInv env σ) (hlc : lc < σ.nodes.size)
    (h : (expertAddDependency env fuel σ.nodes.size lc false).run.run (rS1 op key σ) = (.ok d1, σ2)) :
    Mid (twEnv env) (twL [] σ2) ∧ SlotInv env σ2 ∧ LFX (fun _ => False) σ σ2 ∧
      σ2.nodes.size = σ.nodes.size + 1 ∧ σ2.experts.size = σ.experts.size + 1 ∧
      nodeKey (σ2.nodeD σ.nodes.size) = nodeKey ({ kind := .expert σ.experts.size, createdIn := .top } : Node) ∧
      σ2.nextDep = σ.nextDep + 1 ∧ σ2.perkeys = σ.perkeys ∧
      ∃ erX, σ2.experts[σ.experts.size]? = some erX ∧ erX.f = 0 ∧ erX.node = σ.nodes.size ∧
        erX.pk = some (op, some key) ∧ erX.children = [{ dep := σ.nextDep, child := lc, cb := none }] ∧
        erX.forceStale = true := by
  have M1 : Mid (twEnv env) (twL [] (rS1 op key σ)) := by
    rw [twL_rS1]; exact mid_xElab M (twEnv_xEnvOK env 0) (by decide)
  have S1 : SlotInv env (rS1 op key σ) := r_cfx_slots M S (cfx_rS1 op key σ)
  have hacyc : ¬ ExpertH.Below (rS1 op key σ) lc σ.nodes.size := by
    refine not_below_fresh (by omega) fun m hmem => ?_
    by_cases hm : m < σ.nodes.size
    · rw [rS1_kidsX op key M hm] at hmem
      have := r_kids_lt M hmem
      omega
    · by_cases hm' : m = σ.nodes.size
      · rw [hm', rS1_nodeD_new] at hmem
        simp only [kidsX, xRec_some (rS1_experts_new op key σ)] at hmem
        cases hmem
      · rw [nodeD_default_of_ge _ m (by rw [rS1_size]; omega)] at hmem
        cases hmem
  obtain ⟨M2, S2, lfx, lk, -, hnd, er', he', hch, hfs, k1, k2, k3⟩ :=
    r_addDep M1 S1 (by rw [rS1_size]; omega) (by rw [rS1_nodeD_new]) (rS1_experts_new op key σ)
      (by rw [rS1_size]; omega) hacyc h
  have lfx1 : LFX (fun e' => e' = σ.experts.size) σ (rS1 op key σ) :=
    ⟨lf_rS1 op key σ _, fun e er er2 _ he he2 => by rw [rS1_experts_old op key σ he] at he2; cases he2; rfl⟩
  refine ⟨M2, S2, (lfx1.trans lfx).restrict (fun e he hd => by omega), by rw [lk.size, rS1_size],
    by rw [lk.xsize, rS1_xsize], ?_, by rw [hnd, rS1_nextDep], by rw [lk.perkeys, rS1_perkeys],
    er', he', k1, k2, k3, hch, hfs⟩
  have := lfx.lf.node σ.nodes.size (by rw [rS1_size]; omega)
  rw [this, rS1_nodeD_new]

/-! ## first readers of the shape -/

namespace RSh
variable {env : Env} {op : Nat} {key : Int} {lc : Nat} {tm : Template} {D : Nat → Prop} {σ τ : State} {mapped : Nat}

theorem top (R : RSh env op key lc tm D σ τ mapped) : τ.top = σ.top := (LF.bf R.lfx.lf).top

theorem kind_p (R : RSh env op key lc tm D σ τ mapped) : (τ.nodeD σ.nodes.size).kind = .expert σ.experts.size := by
  have := R.pnode
  simp only [nodeKey, Prod.mk.injEq] at this
  exact this.1

theorem kind_i (R : RSh env op key lc tm D σ τ mapped) {j : Nat} {i : Instr} (h : tm.instrs[j]? = some i) :
    instrKind σ.top (σ.nodes.size :: List.range' (σ.nodes.size + 1) j) (.int key) i
      = some (τ.nodeD (σ.nodes.size + 1 + j)).kind := by
  obtain ⟨k, h1, h2⟩ := R.inode j i h
  simp only [nodeKey, Prod.mk.injEq] at h2
  rw [h2.1]; exact h1

theorem kind_old (R : RSh env op key lc tm D σ τ mapped) {m : Nat} (h : m < σ.nodes.size) :
    (τ.nodeD m).kind = (σ.nodeD m).kind := (LF.bf R.lfx.lf).kind m h

theorem mono (R : RSh env op key lc tm D σ τ mapped) {D' : Nat → Prop} (h : ∀ e, D e → D' e) :
    RSh env op key lc tm D' σ τ mapped :=
  ⟨R.mid, R.slots, R.lfx.mono h, R.size, R.xsize, R.pnode, R.inode, R.ret, R.xnew⟩

end RSh

/-! ## steps C, D -/

theorem r_stepAD {env : Env} {fuel op lc : Nat} {key : Int} {tm : Template} {σ σ2 σ4 : State} {d1 mapped : Nat}
    {ev : Event} (M : Mid (twEnv env) (twL [] σ)) (S : SlotInv env σ) (hlc : lc < σ.nodes.size)
    (hT : TemplOK env tm) (hout : ∀ k, k ∈ templOuter tm → ∀ o, σ.top[k]? = some o → o < σ.nodes.size)
    (h1 : (expertAddDependency env fuel σ.nodes.size lc false).run.run (rS1 op key σ) = (.ok d1, σ2))
    (h4 : (elabTemplateBase tm (.int key) [σ.nodes.size]).run.run (rLog ev σ2) = (.ok mapped, σ4)) :
    RSh env op key lc tm (fun _ => False) σ σ4 mapped ∧ σ4.nextDep = σ.nextDep + 1 ∧ σ4.perkeys = σ.perkeys ∧
      mapped < σ4.nodes.size := by
  obtain ⟨M2, S2, lfx2, hsz2, hxs2, hp2, hnd2, hpk2, hx2⟩ := r_stepAB (op := op) (key := key) M S hlc h1
  have M3 : Mid (twEnv env) (twL [] (rLog ev σ2)) := M2
  have hsc : (rLog ev σ2).currentScope = .top := M2.scope
  have htop2 : σ2.top = σ.top := (LF.bf lfx2.lf).top
  obtain ⟨hsz, hrest, hold, hnew, hret, htw⟩ := elabTemplateBase_shape hT hsc h4
  obtain ⟨l', htw'⟩ := htw []
  have hsz3 : (rLog ev σ2).nodes.size = σ.nodes.size + 1 := hsz2
  have htop3 : (rLog ev σ2).top = σ.top := htop2
  have M4' := elabTemplateBase_mid (E := twEnv env) M3 hT (fun _ _ _ => rfl)
    (fun k hk o ho => by
      rw [twL_size, hsz3]
      have : σ.top[k]? = some o := by rw [← htop3]; exact ho
      have := hout k hk o this
      omega)
    (by rw [twL_size, hsz3]; omega) htw'
  have M4 := M4'.1
  have hmlt : mapped < σ4.nodes.size := by
    have := M4'.2.2.2.2.1
    rwa [twL_size] at this
  have hexp : σ4.experts = (rLog ev σ2).experts := by have h := congrArg State.experts hrest; exact h
  have hnd : σ4.nextDep = (rLog ev σ2).nextDep := by have h := congrArg State.nextDep hrest; exact h
  have hpk : σ4.perkeys = (rLog ev σ2).perkeys := by have h := congrArg State.perkeys hrest; exact h
  have hek : eKey σ4 = eKey (rLog ev σ2) := by have h := congrArg eKey hrest; exact h
  -- the new nodes
  have hnewk : ∀ m, (rLog ev σ2).nodes.size ≤ m → m < σ4.nodes.size → ∃ j i k, m = (rLog ev σ2).nodes.size + j ∧
      tm.instrs[j]? = some i ∧
      instrKind (rLog ev σ2).top (σ.nodes.size :: (List.range' (rLog ev σ2).nodes.size tm.instrs.length).take j)
        (.int key) i = some k ∧ σ4.nodeD m = { kind := k, createdIn := .top } := by
    intro m hm1 hm2
    have hj : m - (rLog ev σ2).nodes.size < tm.instrs.length := by omega
    obtain ⟨k, hk1, hk2⟩ := hnew _ _ (List.getElem?_eq_getElem hj)
    refine ⟨_, _, k, by omega, List.getElem?_eq_getElem hj, hk1, ?_⟩
    rw [← hk2]; congr 1; omega
  have hnotx : ∀ m e, (rLog ev σ2).nodes.size ≤ m → (σ4.nodeD m).kind ≠ .expert e := by
    intro m e hm hk
    by_cases hm2 : m < σ4.nodes.size
    · obtain ⟨j, i, k, -, hi, hk1, hk2⟩ := hnewk m hm hm2
      rw [hk2] at hk
      exact (instrKind_facts (hT.instr i (List.mem_of_getElem? hi)) hk1).2.2.1 e hk
    · rw [nodeD_default_of_ge σ4 m (by omega)] at hk; cases hk
  have C34 : CFX (rLog ev σ2) σ4 := by
    refine ⟨by omega, hold, fun m e hm hk => absurd hk (hnotx m e hm), by rw [hexp]; exact Nat.le_refl _,
      fun e _ => by rw [hexp], fun e er he h => ?_, hnd⟩
    rw [hexp] at h
    have := (Array.getElem?_eq_some_iff.1 h).1
    omega
  have S4 : SlotInv env σ4 :=
    r_cfx_slots M2 S2 ((CFX.of_nodes (s := σ2) (s' := rLog ev σ2) rfl rfl rfl).trans C34)
  have lfx34 : LFX (fun _ => False) (rLog ev σ2) σ4 := by
    refine ⟨⟨by omega, fun m hm => by rw [hold m hm], hek, by rw [hexp]; exact Nat.le_refl _,
      fun e er he => ⟨er, by rw [hexp]; exact he, rfl, rfl, rfl, rfl, rfl, rfl, id, fun _ => rfl,
        ⟨[], (List.append_nil _).symm⟩, Or.inl ⟨rfl, rfl⟩⟩,
      by rw [hnd]; exact Nat.le_refl _, fun m hm1 hm2 => ?_, fun m hm => ?_⟩,
      fun e er er' _ he he' => by rw [hexp, he] at he'; cases he'; rfl⟩
    · obtain ⟨j, i, k, -, hi, hk1, hk2⟩ := hnewk m hm1 hm2
      rw [hk2]
      have hf := instrKind_facts (hT.instr i (List.mem_of_getElem? hi)) hk1
      exact NewNode.fresh hf.2.1 fun f args hh => Nat.lt_trans (hf.2.2.2.2 f args hh) (by decide)
    · by_cases hlt : m < (rLog ev σ2).nodes.size
      · simp only [State.isNecessary, hold m hlt]; exact hm
      · simp only [State.isNecessary, nodeD_default_of_ge (rLog ev σ2) m (by omega)] at hm
        cases hm
  have lfx23 : LFX (fun _ => False) σ2 (rLog ev σ2) := LFX.of_same rfl rfl rfl rfl
  refine ⟨⟨mid_relog M4 [], S4, lfx2.trans (lfx23.trans lfx34), by omega, by rw [hexp]; exact hxs2, ?_,
    fun j i hji => ?_, ?_, ?_⟩, by rw [hnd]; exact hnd2, by rw [hpk]; exact hpk2, hmlt⟩
  · rw [hold σ.nodes.size (by omega)]; exact hp2
  · have hlt : j < tm.instrs.length := by
      rcases Nat.lt_or_ge j tm.instrs.length with h | h
      · exact h
      · rw [List.getElem?_eq_none h] at hji; cases hji
    obtain ⟨k, hk1, hk2⟩ := hnew j i hji
    rw [htop3, hsz3, List.take_range'_of_length_ge (Nat.le_of_lt hlt)] at hk1
    rw [hsz3] at hk2
    exact ⟨k, hk1, by rw [hk2]⟩
  · rw [htop3, hsz3] at hret; exact hret
  · rw [hexp]; exact hx2

end IncrVerif.Proofs.PerKeyH
