import IncrVerif.Proofs.DriverH39
import IncrVerif.Proofs.PerKeyLoop
/-!
# Per-key operators over whole histories, part 0: definitions

Three views of an actual state `s` with per-key operators:

* the STRUCTURAL TWIN `twL l s` (an ACTUAL state of fragment X1 of `Props/C14History.lean`): the change detector
  `map (fnPerKey + op) [a]` is re-tagged `map fnIdent [a]`, every expert record loses its `pk` mark (so it is a
  user-defined record with closure id `0`), the log is `l`.  Under the twin environment `twEnv env` (effects erased,
  every expert closure is the sum closure) the twin satisfies `ExpertH.XFrag`, so every STRUCTURE-level and SLOT-level
  theorem of `ExpertH`/`DriverH` (`Mid`, `AddSpec`, `RmSpec`, `StaleSpec`, cascades, `SlotInv`) applies to it.
  `TSim x x'`: the engine running `x` on `s` is matched by `x'` running on the twin (`Proofs/PerKeyH…`, the port of
  `ExpertH23–31`).  Values are NOT consistent in the twin (its closures are sums).
* the VALUE-FAITHFUL VIRTUAL STATIC STATE `V s`: as `ExpertH.virt`, but a per-key input node (record
  `pk = some (op, some key)`) becomes `fold xConst (.int prevMap[key]) [lc]` (constant closure), the operator's result
  (`pk = some (op, none)`) becomes `fold xAsm (asmInit tags) children` (`tags`: the key of each dependency, in edge
  order) and the change detector becomes `map fLc [a]` (constant `()`), interpreted by `penv env`.  The drain invariant
  `BindH.DInv (penv env) (V s) x` is the scheduling/value invariant.
* `Kin t t'`: two static states that agree in everything but the kinds of their nodes (same children lists):
  `virt (twL l s)` and `V s` are `Kin`, which transfers every kind-agnostic statement.
-/
namespace IncrVerif.Proofs.PerKeyH
open IncrVerif.Engine IncrVerif.Driver IncrVerif.Proofs IncrVerif.Proofs.Step IncrVerif.Proofs.Sched
open IncrVerif.Proofs.ExpertH IncrVerif.Proofs.EffH

/-! ## 1. the structural twin -/

def twKind : Kind → Kind
  | .map f args => .map (if fnPerKey ≤ f then fnIdent else f) args
  | k => k

def twNode (nd : Node) : Node := { nd with kind := twKind nd.kind }

def twRec (er : ExpertRec) : ExpertRec := { er with pk := none }

/-- the structural twin of `s`, with log `l` -/
def twL (l : List Event) (s : State) : State :=
  { s with nodes := s.nodes.map twNode, experts := s.experts.map twRec, log := l }

/-- the twin environment: no effects, every expert closure is "sum of the dependencies modulo `f / 10`" -/
def twEnv (env : Env) : Env :=
  { noEff env with expertFn := fun f deps _ => (deps.filterMap id).foldl (xStep f) (.int 0) }

theorem twEnv_xEnvOK (env : Env) (f : Nat) : XEnvOK (twEnv env) f := by
  intro vals slots
  show ((vals.map some).filterMap id).foldl (xStep f) (.int 0) = _
  have : (vals.map some).filterMap id = vals := by
    induction vals with
    | nil => rfl
    | cons a as ih => simp [List.filterMap_cons, ih]
  rw [this]

/-- `x` running on `s` is matched by `x'` running on (any log-variant of) the twin -/
def TSimAt (s : State) {α} (x x' : M α) : Prop :=
  Fr s → ∀ l r s', x.run.run s = (.ok r, s') → (∃ l', x'.run.run (twL l s) = (.ok r, twL l' s')) ∧ Fr s'

def TSim {α} (x x' : M α) : Prop := ∀ s, TSimAt s x x'

/-! ## 2. the value-faithful virtual static state -/

/-- `map` id of the virtual change detector: the constant `()` -/
def fLc : Nat := 1000003
/-- `fold` id of a virtual per-key input node: the constant closure (value = `init`) -/
def xConst : Nat := xBase + 1
/-- `fold` id of a virtual result node: assemble the map from the dependencies' values -/
def xAsm : Nat := xBase + 2

/-- one step of the assembling fold.  The accumulator is `pair (map tags) (map built)`: `tags` = the remaining
dependencies, each `(key, 1)` (a per-key dependency) or `(_, 0)` (the change detector: skipped); the LAST step
returns the finished map. -/
def asmStep (acc x : Val) : Val :=
  match acc with
  | .pair (.map ((k, t) :: rest)) (.map built) =>
    let built' := if t = 1 then built ++ [(k, x.toInt)] else built
    if rest.isEmpty then .map (IncrVerif.AMap.ofList built') else .pair (.map rest) (.map built')
  | a => a

def asmInit (tags : List (Int × Int)) : Val := .pair (.map tags) (.map [])

/-- the key of each dependency of the result record, in edge order -/
def tagsOf (prevNodes : List (Int × (Nat × Nat))) (children : List ExpertEdge) : List (Int × Int) :=
  children.map fun ed =>
    match prevNodes.find? (fun p => p.2.2 == ed.dep) with
    | some p => (p.1, 1)
    | none => (0, 0)

/-- what the assembling fold computes: the pairs `(key, value)` of the tagged dependencies -/
def asmPairs : List (Int × Int) → List Val → List (Int × Int)
  | (k, t) :: tags, v :: vals => (if t = 1 then [(k, v.toInt)] else []) ++ asmPairs tags vals
  | _, _ => []

/-- the environment that interprets the virtual kinds -/
def penv (env : Env) : Env :=
  { noEff env with
    fn := fun f vals => if f = fLc then .unit else env.fn f vals
    foldStep := fun F acc x =>
      if F = xConst then acc else if F = xAsm then asmStep acc x else env.foldStep F acc x }

def pkRec (s : State) (op : Nat) : PerKeyRec := s.perkeys[op]?.getD default

def vKind (s : State) : Kind → Kind
  | .map f args => .map (if fnPerKey ≤ f then fLc else f) args
  | .expert e =>
    let er := xRec s.experts e
    match er.pk with
    | some (op, some key) =>
      .fold xConst (.int (((pkRec s op).prevMap.lookup key).getD 0)) (er.children.map (·.child))
    | some (op, none) =>
      .fold xAsm (asmInit (tagsOf (pkRec s op).prevNodes er.children)) (er.children.map (·.child))
    | none => .fold (xBase + er.f) (.int 0) (er.children.map (·.child))
  | k => k

def vNode (s : State) (nd : Node) : Node :=
  { nd with kind := vKind s nd.kind,
            recomputedAt := if forced s.experts nd.kind then -1 else nd.recomputedAt }

/-- the value-faithful virtual static state -/
def V (s : State) : State :=
  { s with nodes := s.nodes.map (vNode s), experts := #[], log := s.log.filter keepEv }

/-! ## 3. kind-twins -/

/-- two (static) states that agree in everything the structural invariants read, except the kinds of their nodes,
which have the same children -/
structure Kin (t t' : State) : Prop where
  size : t'.nodes.size = t.nodes.size
  node : ∀ m, (t'.nodeD m) = { t.nodeD m with kind := (t'.nodeD m).kind }
  kids : ∀ m, kids (t'.nodeD m).kind = kids (t.nodeD m).kind
  /-- var kinds are the same (staleness of a var reads its cell) and const kinds are the same -/
  var : ∀ m c, (t'.nodeD m).kind = .var c ↔ (t.nodeD m).kind = .var c
  const : ∀ m, (∃ v, (t'.nodeD m).kind = .const v) ↔ (∃ v, (t.nodeD m).kind = .const v)
  rest : ({ t' with nodes := #[], log := [] } : State) = { t with nodes := #[], log := [] }

/-! ## 4. the pure contract of a run of a per-key change detector -/

/-- `s'` is `s` after the change detector `n` (current, stamped virtually back: not yet recomputed) has CREATED nodes
and REWIRED the nodes `x` with `X x` (the operator's result: new dependency list; the per-key input nodes of the keys
whose value changed: new constant).  `StepW` of `DriverH2` plus node creation. -/
structure StepP (env : Env) (X : Nat → Prop) (n : Nat) (s s' : State) : Prop where
  grow : s.nodes.size ≤ s'.nodes.size
  vars : s'.vars = s.vars
  binds : s'.binds = s.binds
  stabNum : s'.stabNum = s.stabNum
  /-- structure and heap of the new state, wholesale -/
  graph' : BindH.BGraph env s'
  heap' : HeapInv s'
  stamps' : Stamps s'
  qstale' : ∀ m, (s'.nodeD m).inRch = true → s'.isStale m = true
  pending' : ∀ m, s'.isNecessary m = true → s'.isStale m = true → (s'.nodeD m).inRch = true ∨ m = n
  /-- the change detector itself is not rewired and is unchanged in what the invariant reads; it is not queued -/
  notX : ¬ X n
  selfNec : s'.isNecessary n = true
  selfQ : (s'.nodeD n).inRch = false
  /-- the rewired nodes are old nodes -/
  xOld : ∀ x, X x → x < s.nodes.size
  /-- old nodes: unchanged in what evaluation reads; kind, own stamp and own edges unchanged unless rewired -/
  old : ∀ m, m < s.nodes.size →
    (s'.nodeD m).valid = (s.nodeD m).valid ∧
    (s'.nodeD m).createdIn = (s.nodeD m).createdIn ∧ (s'.nodeD m).value = (s.nodeD m).value ∧
    (s'.nodeD m).changedAt = (s.nodeD m).changedAt ∧
    (¬ X m → (s'.nodeD m).kind = (s.nodeD m).kind ∧
      (s'.nodeD m).recomputedAt = (s.nodeD m).recomputedAt ∧ s'.children m = s.children m)
  /-- the rewired nodes: the change detector was (and is) their child, they are stale afterwards, and their own
  stamp is not of this round -/
  rewired : ∀ x, X x → n ∈ s.children x ∧ s'.isStale x = true ∧ (s'.nodeD x).recomputedAt < s.stabNum
  /-- new nodes: never computed -/
  new : ∀ m, s.nodes.size ≤ m → m < s'.nodes.size → (s'.nodeD m).recomputedAt = -1

end IncrVerif.Proofs.PerKeyH
