import IncrVerif.Proofs.CutH32
-- Port of Proofs/Quiet21.lean to ARBITRARY cutoffs (scratch name T21); overview in Props/C06History.lean
/-!
# Part 21: the linking cascade returns
-/
namespace IncrVerif.Proofs.CutH
open IncrVerif.Engine IncrVerif.Driver IncrVerif.Proofs IncrVerif.Proofs.Step IncrVerif.Proofs.Sched

namespace P21

/-! ## forward helpers -/

theorem tot_bind_modNode' {β} {n : Nat} {g : Node → Node} {f : Unit → M β} {s : State} {Q' : β → State → Prop}
    (T : ∀ s1, s1 = { s with nodes := s.nodes.modify n g } → Tot (f ()) s1 Q') : Tot (modNode n g >>= f) s Q' :=
  Tot.bind_modNode (T _ rfl)

theorem tot_bind_modify' {β} {g : State → State} {f : Unit → M β} {s : State} {Q' : β → State → Prop}
    (T : ∀ s1, s1 = g s → Tot (f ()) s1 Q') : Tot (modify g >>= f) s Q' :=
  Tot.bind_modify (T _ rfl)

/-- the tail `match kind? with | some (.expert e) => … | _ => pure ()` of both cascade functions does nothing
for a static node -/
theorem tail_tot {env : Env} {p : Nat} {t : State} {Q : Unit → State → Prop} (g : Nat → M Unit)
    (hp : p < t.nodes.size) (hv : (t.nodeD p).valid = true) (hk : StaticKind env (t.nodeD p).kind)
    (hq : Q () t) :
    Tot (do let x ← getNode p
            match x.kind? with
            | some (.expert e) => g e
            | _ => pure ()) t Q := by
  refine Tot.bind_getNode hp ?_
  have hq' : (t.nodeD p).kind? = some (t.nodeD p).kind := by rw [Node.kind?, hv]; rfl
  rw [hq']
  cases hkd : (t.nodeD p).kind <;> rw [hkd] at hk <;> first | exact Tot.pure hq | exact hk.elim

/-- `maybeHandleAfterStabilisation n` returns when `n` exists -/
theorem mhas_ok {n : Nat} {s : State} (hn : n < s.nodes.size) :
    ∃ s', (maybeHandleAfterStabilisation n).run.run s = (.ok (), s') := by
  have hs := some_of_lt hn
  unfold maybeHandleAfterStabilisation handleAfterStabilisation
  simp only [run_bind, run_getNode, hs, run_ite, run_pure, run_modNode, run_modify]
  split
  · split
    · exact ⟨_, rfl⟩
    · exact ⟨_, rfl⟩
  · exact ⟨_, rfl⟩

theorem setHeight_ok {n : Nat} {h : Int} {s : State} (hh : h ≤ s.ahh.maxAllowed) :
    ∃ s', (setHeight n h).run.run s = (.ok (), s') := by
  rw [setHeight_run, if_neg (by omega)]
  exact ⟨_, rfl⟩

/-- `markMapRefUnknown` does nothing on a static node (forward form) -/
theorem markMapRefUnknown_static_run {env : Env} {fuel n : Nat} {s : State} (hf : 0 < fuel)
    (hn : n < s.nodes.size) (hv : (s.nodeD n).valid = true) (hk : StaticKind env (s.nodeD n).kind) :
    (markMapRefUnknown fuel n).run.run s = (.ok (), s) := by
  cases fuel with
  | zero => omega
  | succ fuel =>
    unfold markMapRefUnknown
    rw [run_bind_ok (run_getNode_some (some_of_lt hn))]
    have hq : (s.nodeD n).kind? = some (s.nodeD n).kind := by rw [Node.kind?, hv]; rfl
    rw [hq]
    cases hkd : (s.nodeD n).kind <;> rw [hkd] at hk <;> first | rfl | exact hk.elim

/-- `rchInsert` returns when its preconditions hold -/
theorem rchInsert_ok {n : Nat} {s : State} (hn : n < s.nodes.size)
    (hpre : (!(s.nodeD n).inRch && s.needsToBeComputed n) = true)
    (h0 : 0 ≤ (s.nodeD n).height) (hmax : (s.nodeD n).height ≤ s.rch.maxAllowed) :
    (rchInsert n).run.run s = (.ok (), inserted n (s.nodeD n).height s) := by
  rw [rchInsert_run, some_of_lt hn]
  simp only
  rw [if_neg (by rw [hpre]; simp), if_neg (by omega), if_neg (by omega), if_neg (by omega)]

/-! ## the two statements -/

def BNTot (env : Env) (N fuel : Nat) : Prop :=
  ∀ n s op, GInv env s op → HBo s op → Room N s → op n = .linking 0 → (∀ m, op m ≠ .closed → n ≤ m) →
    (∀ p i, (p, i) ∈ (s.nodeD n).parents → op p ≠ .closed) → 2 * n + 2 ≤ fuel →
    Tot (becameNecessary env fuel n) s (fun _ s' => HBo s' (upd op n .closed))

def APTot (env : Env) (N fuel : Nat) : Prop :=
  ∀ c idx p s op, GInv env s op → HBo s op → Room N s → op p = .linking idx →
    (kids (s.nodeD p).kind)[idx]? = some c → (∀ m, op m ≠ .closed → c < m) → 2 * c + 3 ≤ fuel →
    Tot (addParentWithoutAdjustingHeights env fuel c idx p) s
      (fun _ s' => HBo s' (upd op p (.linking (idx + 1))))

theorem ap_tot (env : Env) (N fuel : Nat) (ih : BNTot env N fuel) : APTot env N (fuel + 1) := by
  intro c idx p s op I hb R hop hk hlow hf
  have hp : p < s.nodes.size := I.opLt p (by rw [hop]; exact fun e => by cases e)
  have hcp : c < p := I.kid_lt hk
  have hc : c < s.nodes.size := by omega
  have hne : c ≠ p := by omega
  have hcl : op c = .closed := by
    cases e : op c with
    | closed => rfl
    | linking k => have := hlow c (by rw [e]; exact fun e => by cases e); omega
    | unlinking k => have := hlow c (by rw [e]; exact fun e => by cases e); omega
  unfold addParentWithoutAdjustingHeights
  refine Tot.bind_get (Tot.bind_dassert (fun _ => (I.lnec p idx hop).1) ?_)
  refine Tot.bind_get ?_
  dsimp only
  unfold addParent
  refine tot_bind_modNode' (fun s1 hs1 => ?_)
  have U : NodeUpd c (fParents ((s.nodeD c).parents ++ [(p, idx)])) s s1 := by
    rw [hs1]; exact NodeUpd.modify' hc rfl
  have hl1 : LRel (fun _ => False) s s1 := by
    rw [hs1]
    refine ⟨CFrame.modNode s c _ (fun _ => rfl), rfl, fun m x hx => ?_, fun m _ _ => ?_⟩
    · rw [nodeD_modify]; split
      · rename_i e; rw [← e.1] at hx ⊢; exact List.mem_append_left _ hx
      · exact hx
    · rw [nodeD_modify]; split <;> rfl
  have hoth1 : ∀ m, m ≠ c → s1.nodeD m = s.nodeD m := by
    intro m hm; rw [hs1, nodeD_modify, if_neg (fun e => hm e.1.symm)]
  have hhgt1 : ∀ m, (s1.nodeD m).height = (s.nodeD m).height := by
    intro m; rw [hs1, nodeD_modify]; split <;> rfl
  have hc1 : c < s1.nodes.size := by rw [U.size]; exact hc
  have hp1 : p < s1.nodes.size := by rw [U.size]; exact hp
  have R1 : Room N s1 := R.of_cframe hl1.fr
  have hvalid : (s1.nodeD c).valid = true := by rw [U.self.valid]; exact (I.node hc).valid
  refine Tot.bind_getNode hc1 ?_
  simp only [hvalid, Bool.not_true, Bool.false_eq_true, if_false]
  cases hwas : s.isNecessary c with
  | true =>
    simp only [Bool.not_true, Bool.false_eq_true, if_false]
    refine Tot.bind_getNode hc1 ?_
    have hcq : (s1.nodeD c).kind? = some (s.nodeD c).kind := by
      rw [Node.kind?, U.self.valid, U.self.kind]
      show (if (s.nodeD c).valid = true then some (s.nodeD c).kind else none) = _
      rw [(I.node hc).valid]; rfl
    rw [hcq]
    have hsk := (I.node hc).kind
    have hfin : HBo s1 (upd op p (.linking (idx + 1))) := by
      intro m hm ho
      have hmp : m ≠ p := fun e => by rw [e, upd_self] at ho; cases ho
      rw [upd_other _ _ _ hmp] at ho
      rw [hhgt1]
      refine hb m ?_ ho
      by_cases e : m = c
      · rw [e]; exact hwas
      · rw [State.isNecessary, hoth1 m e] at hm; exact hm
    have hpv : (s1.nodeD p).valid = true := by rw [hoth1 p (Ne.symm hne)]; exact (I.node hp).valid
    have hpk : StaticKind env (s1.nodeD p).kind := by rw [hoth1 p (Ne.symm hne)]; exact (I.node hp).kind
    cases hkd : (s.nodeD c).kind <;> rw [hkd] at hsk <;>
      first | exact tail_tot _ hp1 hpv hpk hfin | exact hsk.elim
  | false =>
    simp only [Bool.not_false, if_true]
    obtain ⟨I1, hpar1⟩ := I.addEdge_open U hop hk hwas hcl
    have hb1 : HBo s1 (upd (upd op p (.linking (idx + 1))) c (.linking 0)) := by
      intro m hm ho
      have hmc : m ≠ c := fun e => by rw [e, upd_self] at ho; cases ho
      rw [upd_other _ _ _ hmc] at ho
      have hmp : m ≠ p := fun e => by rw [e, upd_self] at ho; cases ho
      rw [upd_other _ _ _ hmp] at ho
      rw [hhgt1]
      refine hb m ?_ ho
      rw [State.isNecessary, hoth1 m hmc] at hm; exact hm
    have T := ih c s1 _ I1 hb1 R1 (upd_self _ _ _)
      (by
        intro m hm
        by_cases e : m = c
        · omega
        · rw [upd_other _ _ _ e] at hm
          by_cases e2 : m = p
          · omega
          · rw [upd_other _ _ _ e2] at hm
            exact Nat.le_of_lt (hlow m hm))
      (by
        intro q i hq
        rw [hpar1] at hq
        simp only [List.mem_singleton, Prod.mk.injEq] at hq
        rw [hq.1, upd_other _ _ _ (Ne.symm hne), upd_self]
        exact fun e => by cases e)
      (by omega)
    refine Tot.bind T (fun _ s2 h2 hb2 => ?_)
    obtain ⟨I2, hab2, hl2⟩ := (link_spec env fuel).1 c s1 s2 _ h2 I1 (upd_self _ _ _)
      (by
        intro m hm
        by_cases e : m = c
        · omega
        · rw [upd_other _ _ _ e] at hm
          by_cases e2 : m = p
          · omega
          · rw [upd_other _ _ _ e2] at hm
            exact Nat.le_of_lt (hlow m hm))
      (by
        intro q i hq
        rw [hpar1] at hq
        simp only [List.mem_singleton, Prod.mk.injEq] at hq
        rw [hq.1, upd_other _ _ _ (Ne.symm hne), upd_self]
        exact fun e => by cases e)
    rw [upd_upd, upd_eq_self _ c .closed (by rw [upd_other _ _ _ hne]; exact hcl)] at hb2
    have hp2 : p < s2.nodes.size := by rw [hl2.fr.size]; exact hp1
    have hpe : s2.nodeD p = s.nodeD p := by rw [hab2 p hcp]; exact hoth1 p (Ne.symm hne)
    exact tail_tot _ hp2 (by rw [hpe]; exact (I.node hp).valid) (by rw [hpe]; exact (I.node hp).kind) hb2

theorem bn_tot (env : Env) (N fuel : Nat) (ih : APTot env N fuel) : BNTot env N (fuel + 1) := by
  intro n s op I hb R hop hlow hpar hf
  have hn : n < s.nodes.size := I.opLt n (by rw [hop]; exact fun e => by cases e)
  have sn := I.node hn
  have hopn : op n ≠ .closed := by rw [hop]; exact fun e => by cases e
  unfold becameNecessary
  refine Tot.bind_getNode hn ?_
  rw [sn.top]
  refine Tot.bind_ok (scopeIsNecessary_top_run s) ?_
  dsimp only
  simp only [Bool.not_true, Bool.and_false, Bool.false_eq_true, if_false]
  refine tot_bind_modify' (fun s0 hs0 => ?_)
  have R0 : Irrel n s s0 := by rw [hs0]; exact Irrel.of_nodes rfl rfl rfl rfl rfl
  have hn0 : n < s0.nodes.size := by rw [R0.same.size]; exact hn
  obtain ⟨s1, h1⟩ := mhas_ok hn0
  refine Tot.bind_ok h1 ?_
  refine Tot.bind_ok (scopeHeight_top_run s1) ?_
  have R1 : Irrel n s s1 := R0.trans (Irrel.mhas h1)
  have I1 : GInv env s1 op := I.congr R1.same
  have hn1 : n < s1.nodes.size := by rw [R1.same.size]; exact hn
  have hpar1 : ∀ p i, (p, i) ∈ (s1.nodeD n).parents → op p ≠ .closed := by
    intro p i hp; rw [(R1.same.node n).parents] at hp; exact hpar p i hp
  have Rm1 : Room N s1 := R.of_cframe (R1.rel (fun _ => False)).fr
  obtain ⟨s2, h2⟩ := setHeight_ok (n := n) (h := 0 + 1) (s := s1)
    (by rw [Rm1.ahh]; have := Rm1.size; omega)
  refine Tot.bind_ok h2 ?_
  obtain ⟨U2, hab2, hl2, hh2, hoth2⟩ := setHeight_ok_upd hn1 h2
  have I2 : GInv env s2 op := I1.setHeight_open U2 hopn hpar1
  have hn2 : n < s2.nodes.size := by rw [U2.size]; exact hn1
  have Rm2 : Room N s2 := Rm1.of_cframe hl2.fr
  have hcs : s2.children n = kids (s2.nodeD n).kind := I2.children hn2
  have hb2 : HBo s2 op := by
    intro m hm ho
    have hmn : m ≠ n := fun e => by rw [e] at ho; exact hopn ho
    rw [State.isNecessary, hoth2 m hmn] at hm
    rw [hoth2 m hmn, (R1.same.node m).height]
    refine hb m ?_ ho
    rw [← R1.same.nec m]; exact hm
  refine Tot.bind_getNode hn2 ?_
  refine Tot.bind_get ?_
  -- the loop
  refine Tot.bind (Q := fun (b : Int × Nat) t => b.2 = (s2.children n).length ∧
      GInv env t (upd op n (.linking (s2.children n).length)) ∧
      (∀ m, n ≤ m → t.nodeD m = s2.nodeD m) ∧ LRel (fun _ => False) s2 t ∧ 1 ≤ b.1 ∧
      (∀ i c, i < (s2.children n).length → (s2.children n)[i]? = some c → (t.nodeD c).height < b.1) ∧
      HBo t (upd op n (.linking (s2.children n).length)) ∧ b.1 ≤ (n : Int) + 1)
    (forIn_tot _ (s2.children n)
      (fun j (b : Int × Nat) t => b.2 = j ∧ GInv env t (upd op n (.linking j)) ∧
        (∀ m, n ≤ m → t.nodeD m = s2.nodeD m) ∧ LRel (fun _ => False) s2 t ∧ 1 ≤ b.1 ∧
        (∀ i c, i < j → (s2.children n)[i]? = some c → (t.nodeD c).height < b.1) ∧
        HBo t (upd op n (.linking j)) ∧ b.1 ≤ (n : Int) + 1)
      ?hstep (s2.children n) 0 _ s2 (by simp) (Nat.zero_le _) ?hinit) ?rest
  case hinit =>
    refine ⟨rfl, by rw [upd_eq_self _ _ _ hop]; exact I2, fun _ _ => rfl, LRel.refl _ _, by rw [hh2]; omega,
      fun i c hi _ => by omega, by rw [upd_eq_self _ _ _ hop]; exact hb2, by rw [hh2]; omega⟩
  case hstep =>
    intro j c b t hj ⟨hbj, It, hsame, hrel, hb1, hlt, hHB, hle⟩
    have hkj : (kids (t.nodeD n).kind)[b.2]? = some c := by
      rw [hsame n (Nat.le_refl _), ← hcs, hbj]; exact hj
    have hcn : c < n := It.kid_lt hkj
    have hlowc : ∀ m, upd op n (.linking j) m ≠ .closed → c < m := by
      intro m hm
      by_cases e : m = n
      · omega
      · rw [upd_other _ _ _ e] at hm; have := hlow m hm; omega
    have hclc : op c = .closed := by
      cases e : op c with
      | closed => rfl
      | linking k => have := hlow c (by rw [e]; exact fun e => by cases e); omega
      | unlinking k => have := hlow c (by rw [e]; exact fun e => by cases e); omega
    have Rt : Room N t := Rm2.of_cframe hrel.fr
    obtain ⟨_, t1, ha, hHB1⟩ := ih c b.2 n t _ It hHB Rt (by rw [upd_self, hbj]) hkj hlowc (by omega)
    obtain ⟨It1, hab, hl, hnecc⟩ := (link_spec env fuel).2 c b.2 n t t1 _ ha It (by rw [upd_self, hbj]) hkj hlowc
    rw [upd_upd, hbj] at It1 hHB1
    have hct1 : c < t1.nodes.size := by
      rw [hl.fr.size, hrel.fr.size]; omega
    have hchb : (t1.nodeD c).height ≤ (c : Int) + 1 :=
      hHB1 c hnecc (by rw [upd_other _ _ _ (by omega)]; exact hclc)
    have hstep : ∀ h' : Int, b.1 ≤ h' → (t1.nodeD c).height < h' → h' ≤ (n : Int) + 1 →
        (j + 1 = j + 1) ∧ GInv env t1 (upd op n (.linking (j + 1))) ∧
        (∀ m, n ≤ m → t1.nodeD m = s2.nodeD m) ∧ LRel (fun _ => False) s2 t1 ∧ 1 ≤ h' ∧
        (∀ i c', i < j + 1 → (s2.children n)[i]? = some c' → (t1.nodeD c').height < h') ∧
        HBo t1 (upd op n (.linking (j + 1))) ∧ h' ≤ (n : Int) + 1 := by
      intro h' hle' hxl hn'
      refine ⟨rfl, It1, fun m hm => (hab m (by omega)).trans (hsame m hm), hrel.trans hl, by omega, ?_,
        hHB1, hn'⟩
      intro i c' hi hc'
      by_cases e : i = j
      · rw [e, hj] at hc'
        cases hc'
        exact hxl
      · have hij : i < j := by omega
        have hk' : (kids (t.nodeD n).kind)[i]? = some c' := by
          rw [hsame n (Nat.le_refl _), ← hcs]; exact hc'
        have hmem := It.conv n i c' hk' ((wants_linking (upd_self _ _ _)).2 hij)
        rw [hl.hgt c' (fun h => h) (nec_of_mem_parents hmem)]
        have := hlt i c' hij hc'
        omega
    rw [run_bind_ok ha, run_bind_ok (run_getNode_some (some_of_lt hct1))]
    by_cases hge : (t1.nodeD c).height ≥ b.1
    · rw [if_pos hge]
      refine ⟨_, _, rfl, ?_⟩
      have := hstep ((t1.nodeD c).height + 1) (by omega) (by omega) (by omega)
      rw [hbj]; exact this
    · rw [if_neg hge]
      refine ⟨_, _, rfl, ?_⟩
      have := hstep b.1 (by omega) (by omega) hle
      rw [hbj]; exact this
  case rest =>
    intro b s3 h3 ⟨hbl, I3, hsame3, hrel3, hb1, hlt3, hHB3, hle3⟩
    have hn3 : n < s3.nodes.size := by rw [hrel3.fr.size]; exact hn2
    have Rm3 : Room N s3 := Rm2.of_cframe hrel3.fr
    obtain ⟨s4, h4⟩ := setHeight_ok (n := n) (h := b.1) (s := s3)
      (by rw [Rm3.ahh]; have := Rm3.size; omega)
    refine Tot.bind_ok h4 ?_
    obtain ⟨U4, hab4, hl4, hh4, hoth4⟩ := setHeight_ok_upd hn3 h4
    have hpar3 : ∀ p i, (p, i) ∈ (s3.nodeD n).parents →
        upd op n (.linking (s2.children n).length) p ≠ .closed := by
      intro p i hp
      have hpn : n < p := I3.par_lt hp
      rw [upd_other _ _ _ (by omega)]
      rw [hsame3 n (Nat.le_refl _), U2.self.parents] at hp
      exact hpar1 p i hp
    have I4 : GInv env s4 (upd op n (.linking (s2.children n).length)) :=
      I3.setHeight_open U4 (by rw [upd_self]; exact fun e => by cases e) hpar3
    have hn4 : n < s4.nodes.size := by rw [U4.size]; exact hn3
    have Rm4 : Room N s4 := Rm3.of_cframe hl4.fr
    have hnec4 := I4.lnec n _ (upd_self _ _ _)
    have h04 : 0 ≤ (s4.nodeD n).height := by rw [hh4]; omega
    have hHB4 : HBo s4 (upd op n (.linking (s2.children n).length)) := by
      intro m hm ho
      have hmn : m ≠ n := fun e => by rw [e, upd_self] at ho; cases ho
      rw [State.isNecessary, hoth4 m hmn] at hm
      rw [hoth4 m hmn]
      exact hHB3 m hm ho
    -- the height bound for the final labelling, for any state with the same heights and necessity
    have hfin : ∀ s' : State, (∀ m, (s'.nodeD m).height = (s4.nodeD m).height) →
        (∀ m, s'.isNecessary m = s4.isNecessary m) → HBo s' (upd op n .closed) := by
      intro s' hh hnc m hm ho
      rw [hh]
      by_cases e : m = n
      · rw [e, hh4]; exact hle3
      · rw [upd_other _ _ _ e] at ho
        rw [hnc] at hm
        exact hHB4 m hm (by rw [upd_other _ _ _ e]; exact ho)
    refine Tot.bind_get ?_
    refine Tot.bind_dassert (fun _ => by rw [hnec4.2]; rfl) ?_
    refine Tot.bind_dassert (fun _ => hnec4.1) ?_
    rw [I4.isStale hn4]
    cases hst : staleOf s4 n with
    | false =>
      simp only [Bool.false_eq_true, if_false]
      exact tail_tot _ hn4 (I4.node hn4).valid (I4.node hn4).kind (hfin s4 (fun _ => rfl) (fun _ => rfl))
    | true =>
      simp only [if_true]
      refine Tot.bind_ok
        (markMapRefUnknown_static_run (by omega) hn4 (I4.node hn4).valid (I4.node hn4).kind) ?_
      have hpre : (!(s4.nodeD n).inRch && s4.needsToBeComputed n) = true := by
        rw [hnec4.2, State.needsToBeComputed, hnec4.1, I4.isStale hn4, hst]; rfl
      refine Tot.bind_ok (rchInsert_ok hn4 hpre h04
        (by rw [Rm4.rch, hh4]; have := Rm3.size; omega)) ?_
      have hnd : ∀ m, ∃ x, (inserted n (s4.nodeD n).height s4).nodeD m =
          { s4.nodeD m with heightInRch := x } := by
        intro m
        rw [inserted_nodeD]
        split
        · exact ⟨_, rfl⟩
        · exact ⟨_, rfl⟩
      have hsz : (inserted n (s4.nodeD n).height s4).nodes.size = s4.nodes.size := Array.size_modify ..
      refine tail_tot (env := env) _ (by rw [hsz]; exact hn4) ?_ ?_ (hfin _ ?_ ?_)
      · obtain ⟨x, hx⟩ := hnd n; rw [hx]; exact (I4.node hn4).valid
      · obtain ⟨x, hx⟩ := hnd n; rw [hx]; exact (I4.node hn4).kind
      · intro m; obtain ⟨x, hx⟩ := hnd m; rw [hx]
      · intro m; obtain ⟨x, hx⟩ := hnd m; rw [State.isNecessary, hx]; rfl

theorem link_tot (env : Env) (N fuel : Nat) : BNTot env N fuel ∧ APTot env N fuel := by
  induction fuel with
  | zero =>
    constructor
    · intro n s op _ _ _ _ _ _ hf; omega
    · intro c idx p s op _ _ _ _ _ _ hf; omega
  | succ fuel ih => exact ⟨bn_tot env N fuel ih.2, ap_tot env N fuel ih.1⟩

end P21
open P21

/-- **the linking cascade returns** (no assertion fails, the height limit is not hit, the fuel suffices), and the
height bound is kept -/
theorem becameNecessary_total {env : Env} {N fuel n : Nat} {s : State} {op : Nat → Op}
    (I : GInv env s op) (hb : HBo s op) (R : Room N s)
    (hop : op n = .linking 0) (hlow : ∀ m, op m ≠ .closed → n ≤ m)
    (hpar : ∀ p i, (p, i) ∈ (s.nodeD n).parents → op p ≠ .closed) (hf : 2 * n + 2 ≤ fuel) :
    Tot (becameNecessary env fuel n) s (fun _ s' => HBo s' (upd op n .closed)) :=
  (link_tot env N fuel).1 n s op I hb R hop hlow hpar hf

end IncrVerif.Proofs.CutH
