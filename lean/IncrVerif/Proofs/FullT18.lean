import IncrVerif.Proofs.FullT16
import IncrVerif.Proofs.FullT8
import IncrVerif.Proofs.FullH36
import IncrVerif.Proofs.NestH109
/-!
# C04 combined fragment: THE VERDICT STEP returns and keeps the totality invariants

The recompute step of the current node `n` of the drain invariant `DInvF`, `n` of kind `const`/`var`/`map`/`fold`/`bindMain`, whose ACTUAL cutoff may be `.never` or
`.dependOn a` (the virtual node has cutoff `.eq`: the step is not simulated).  The run is `maybeChangeValue env fuel n v` from `logged es (started n s)`
(`recomputeOne_eq_mcv`: the run EQUATION, for arbitrary outcomes); the cutoff check cannot fail (`mcvChanges_isSome`); if the verdict is "unchanged" the walk is
`return none`; if it is "changed", by the contract `McvmC` (file `L10`) it suffices that the VIRTUAL walk `maybeChangeValueManual … true true` returns from the virtual
image of the state `VD.vdW n v es' es s` in which the notifications start, which is `NestH.T2b.mcvm_noerr` (`mcvm_noerr_upd`).
`step_verdict_dt`: `FullH.step_verdict` replayed, keeping the `StepRelB` and the frames it builds (`MR.VStep`), then `dt_vstep`.
-/
namespace IncrVerif.Proofs.FullT
open IncrVerif.Engine IncrVerif.Proofs IncrVerif.Proofs.Step IncrVerif.Proofs.Sched IncrVerif.Proofs.Quiet IncrVerif.Proofs.FullH
open IncrVerif.Proofs.BindH (DInv BGraph StepRelB Edge Below TargetB ConsistentB BKind FrameB children_congr_kind)
open IncrVerif.Proofs.NestH (AuxS2 Aux2 GenOK2 F2Inv)
open IncrVerif.Proofs.MapRefH (ValFrame)

/-- contract with ft-cc (L10): the notification walk with child_changed (through chains of map_ref parents) -/
def McvmC (K : Kind → Prop) (env : Env) (sp : Nat → Val → Val) : Prop :=
  ∀ (g : Nat → Option Val) (fuel n : Nat) (o o' : Option Val) (did : Bool) (s : State), (∀ p i, (s.nodeD n).kind ≠ .mapRef p i) →
    (s.nodeD n).value.isSome = true → MRPV s → s.nodes.size ≤ fuel → 0 < fuel →
    BSimAt K PInv g s (maybeChangeValueManual env fuel n o did true) (maybeChangeValueManual (virtEnv env sp) fuel n o' did true)

section
variable {env : Env} {sp : Nat → Val → Val} {g : Nat → Option Val} {s : State}

/-- **the run equation of the step** (arbitrary outcomes): a valid node of the fragment that is neither a map_ref, nor a map_with_old, nor a change-detector node, whose
children are settled and have values (and whose right-hand side is installed, for `bindMain`): its step is a `maybe_change_value` of the value of its defining
expression in the virtual state -/
theorem recomputeOne_eq_mcv {fuel n : Nat} (F : FFrag env sp g s)
    (gr : BGraph (VE env sp) (virt g s)) (hn : n < s.nodes.size) (hv : (s.nodeD n).valid = true)
    (hk1 : ∀ p i, (s.nodeD n).kind ≠ .mapRef p i) (hk2 : ∀ m i, (s.nodeD n).kind ≠ .mapWithOld m i)
    (hk3 : ∀ b, (s.nodeD n).kind ≠ .bindLhsChange b)
    (hkids : ∀ a, a ∈ s.children n → tv g s a = s.value env a ∧ (s.value env a).isSome = true)
    (hrhs : ∀ b lc br, (s.nodeD n).kind = .bindMain b lc → s.binds[b]? = some br → br.rhs ≠ none) :
    ∃ v es, BindH.TargetB (VE env sp) (virt g s) n v ∧ (recomputeOne env fuel n).run.run s =
      (maybeChangeValue env fuel n v).run.run (logged es (started n s)) := by
  have hnn := some_of_lt hn
  have hR := F.fr.kinds n hn
  have hnv : n < (virt g s).nodes.size := by rw [virt_size]; exact hn
  have hvv : ((virt g s).nodeD n).valid = true := by rw [virt_nodeD, virtNode_valid]; exact hv
  have hk? := kind?_of_valid hv
  have hkv : ((virt g s).nodeD n).kind = virtKind (s.nodeD n).kind := by rw [virt_nodeD, virtNode_kind]
  cases hkd : (s.nodeD n).kind with
  | const w =>
    rw [hkd] at hkv
    exact ⟨w, [], by simp only [BindH.TargetB, Target, hkv, virtKind], recomputeOne_const_run env fuel n s _ w hnn hv hkd⟩
  | var c =>
    rw [hkd] at hkv
    obtain ⟨vc, hvc⟩ := gr.var n c hnv hvv hkv
    refine ⟨vc.value, [], ?_, recomputeOne_var_run env fuel n s _ c vc hnn hv hkd hvc⟩
    simp only [BindH.TargetB, Target, hkv, virtKind]; exact ⟨vc, hvc, rfl⟩
  | map f args =>
    rw [hkd] at hR hkv
    have hch : s.children n = args := by unfold State.children; rw [hk?, hkd]
    rw [hch] at hkids
    obtain ⟨vals, hvals⟩ := MapRefH.valuesOf_of_isSome env s args (fun a ha => (hkids a ha).2)
    have hpv : plainVals (virt g s) args = some vals := by
      rw [plainVals_virt_of_settled args (fun a ha => (hkids a ha).1)]; exact hvals
    have ht : BindH.TargetB (VE env sp) (virt g s) n (env.fn f vals) := by
      simp only [BindH.TargetB, Target, hkv, virtKind]
      exact ⟨vals, hpv, (virtEnv_fn_real env sp hR.1 vals).symm⟩
    by_cases hf : f < fnZip
    · exact ⟨_, _, ht, recomputeOne_map_run env fuel n s _ f args vals hnn hv hkd hf hvals (hR.2 hf vals) F.pc⟩
    · refine ⟨_, [], ht, recomputeOne_mapBuiltin_run env fuel n s _ f args vals hnn hv hkd hf ?_ hvals⟩
      have := hR.1; unfold pBase at this; unfold fnPerKey; omega
  | fold f init cs =>
    rw [hkd] at hkv
    have hch : s.children n = cs := by unfold State.children; rw [hk?, hkd]
    rw [hch] at hkids
    obtain ⟨vals, hvals⟩ := MapRefH.valuesOf_of_isSome env s cs (fun a ha => (hkids a ha).2)
    have hpv : plainVals (virt g s) cs = some vals := by
      rw [plainVals_virt_of_settled cs (fun a ha => (hkids a ha).1)]; exact hvals
    refine ⟨_, _, ?_, recomputeOne_fold_run env fuel n s _ f init cs vals hnn hv hkd hvals F.pc⟩
    simp only [BindH.TargetB, Target, hkv, virtKind]
    exact ⟨vals, hpv, rfl⟩
  | mapRef p i => exact absurd hkd (hk1 p i)
  | mapWithOld m i => exact absurd hkd (hk2 m i)
  | bindLhsChange b => exact absurd hkd (hk3 b)
  | bindMain b lc =>
    rw [hkd] at hkv
    obtain ⟨br, hbr, -, -, -⟩ := gr.mainRec n b lc hnv hvv hkv
    have hbr' : s.binds[b]? = some br := hbr
    cases hr : br.rhs with
    | none => exact absurd hr (hrhs b lc br hkd hbr')
    | some r0 =>
      have hch : s.children n = [lc, r0] := by
        simp only [State.children, hk?, hkd, hbr', hr]
      have hmem : r0 ∈ s.children n := by rw [hch]; simp
      obtain ⟨hrlt, hrv⟩ := (gr.node n hnv hvv).2.2 r0 (by rw [virt_children]; exact hmem)
      rw [virt_size] at hrlt
      rw [virt_nodeD, virtNode_valid] at hrv
      obtain ⟨hset, hsome⟩ := hkids r0 hmem
      cases hval : s.value env r0 with
      | none => rw [hval] at hsome; cases hsome
      | some v =>
        refine ⟨v, [], ?_, recomputeOne_bindMain_run env fuel n s _ b lc r0 br _ v hnn hv hkd hbr' hr (some_of_lt hrlt) hrv hval⟩
        simp only [BindH.TargetB, hkv, virtKind]
        exact ⟨br, r0, hbr, hr, by rw [← hval, ← hset]; rfl⟩
  | expert e => exact absurd hkd (F.fr.noExp n e)

end

/-- the cutoff check of `maybe_change_value` cannot fail when the node of a `.dependOn` cutoff exists -/
theorem mcvChanges_isSome (env : Env) (S : State) (n : Nat) (v : Val)
    (hc : (S.nodeD n).cutoff = .eq ∨ (S.nodeD n).cutoff = .never ∨ ∃ a, (S.nodeD n).cutoff = .dependOn a ∧ a < S.nodes.size) :
    ∃ d, mcvChanges env S n v = some d := by
  unfold mcvChanges cutoffVerdict
  cases hv : (S.nodeD n).value with
  | none => exact ⟨_, rfl⟩
  | some old =>
    rcases hc with hc | hc | ⟨a, hc, ha⟩ <;> rw [hc]
    · exact ⟨_, rfl⟩
    · exact ⟨_, rfl⟩
    · dsimp only
      rw [some_of_lt ha]
      exact ⟨_, rfl⟩

/-- the notification part of a propagating `maybe_change_value_manual`, run in a state `W` of the `Upd n s` family of a state `s` at rest: no panic
(the second half of `NestH.T2b.mcv_noerr`) -/
theorem mcvm_noerr_upd {env : Env} {fuel n : Nat} {o : Option Val} {s W s' : State} {e : Panic}
    (g : BGraph env s) (hi : HeapInv s) (hn : s.isNecessary n = true)
    (hfresh : ∀ p, p ∈ (s.nodeD n).parents.map (·.1) → (s.nodeD p).recomputedAt < s.stabNum)
    (hmax : ∀ m, s.isNecessary m = true → (s.nodeD m).height ≤ s.rch.maxAllowed)
    (hUW : Upd n s W) (hbW : W.binds = s.binds) (hf : 1 ≤ fuel)
    (h : (maybeChangeValueManual env fuel n o true true).run.run W = (.error e, s')) : False := by
  have hlt := g.nec_lt hn
  have hltW : n < W.nodes.size := by rw [hUW.size]; exact hlt
  have hUT : Upd n s (touched n W) := hUW.touched
  have hbT : (touched n W).binds = s.binds := hbW
  have eT : (touched n W).nodeD n = { W.nodeD n with changedAt := W.stabNum } := by
    rw [touched_nodeD, if_pos ⟨rfl, hltW⟩]
  have hparT : ((touched n W).nodeD n).parents = (s.nodeD n).parents := hUT.shape.parents
  refine NestH.T2b.mcvm_noerr hltW (hUT.heap hi) ?_ hf h
  intro p hp
  rw [hparT] at hp
  have hfr := hfresh p hp
  obtain ⟨⟨p', ci⟩, hmem, rfl⟩ := List.mem_map.1 hp
  dsimp only at hfr ⊢
  obtain ⟨hpn, hci⟩ := g.parent n p' ci hmem
  have h1 := g.nec_lt hpn
  obtain ⟨h2, h5⟩ := g.nec p' hpn
  obtain ⟨h3, -, hkids⟩ := g.node p' h1 h2
  have hcm : n ∈ s.children p' := List.mem_of_getElem? hci
  have hne : p' ≠ n := g.edge_ne (Edge.child hcm)
  have ep : (touched n W).nodeD p' = s.nodeD p' := hUT.other p' hne
  have sh := hUT.shapeAll p'
  have hchT : (touched n W).children p' = s.children p' :=
    children_congr_kind sh.kind sh.valid hbT (fun e => h3.not_expert e)
  refine ⟨⟨by rw [hUT.size]; exact h1, by rw [sh.valid]; exact h2, by rw [sh.kind]; exact h3,
    by rw [hUT.nec]; exact hpn⟩, by rw [hchT]; exact hcm, by rw [hUT.size]; exact hlt, ?_,
    by rw [ep]; exact h5, by rw [ep, hUT.rch]; exact hmax p' hpn, ?_, ?_⟩
  · rw [ep, eT]
    show _ < W.stabNum
    rw [hUW.stabNum]; exact hfr
  · intro b hsc
    rw [ep] at hsc
    obtain ⟨br, k1, k2, -, -⟩ := g.scope p' b h1 h2 hsc
    exact ⟨br, by rw [hbT]; exact k1, by rw [hUT.size]; exact k2⟩
  · intro b lc hkd
    rw [ep] at hkd
    obtain ⟨br, hbr, -, -, -⟩ := g.mainRec p' b lc h1 h2 hkd
    have hlc : lc ∈ s.children p' := by
      simp only [State.children, BindH.BS.kind?_of_valid h2, hkd, hbr]
      exact List.mem_cons_self ..
    rw [hUT.size]
    exact (hkids lc hlc).1

/-- the prologue, the log and the new value keep the carried invariant -/
theorem pinv_vdW {s : State} {n : Nat} (v : Val) (es' es : List Event) (hP : PInv s) (hlt : n < s.nodes.size) :
    PInv (VD.vdW n v es' es s) := by
  have hX := fun m => VD.vdW_nodeD n m v es' es s hlt
  refine hP.of_nodeD (VD.vdW_size n v es' es s) (fun m => ?_) (fun m x hx => ?_)
  · rw [hX]; split
    · rename_i e; rw [e]
    · rfl
  · rw [hX] at hx; split at hx
    · rename_i e; rw [e]; exact hx
    · exact hx

section
variable {env : Env} {sp : Nat → Val → Val}

/-- **the verdict step returns**, and keeps the carried invariant -/
theorem step_verdict_returns (C : McvmC (FK env sp) env sp) {t s : State} {g : Nat → Option Val} {N fuel n : Nat}
    (D : DInvF env sp t s g (some n)) (hP : PInv s) (T : NestH.DT (VE env sp) N (virt g s)) (hroom : s.nodes.size ≤ N)
    (hk1 : ∀ p i, (s.nodeD n).kind ≠ .mapRef p i) (hk2 : ∀ m i, (s.nodeD n).kind ≠ .mapWithOld m i)
    (hk3 : ∀ b, (s.nodeD n).kind ≠ .bindLhsChange b) (hf : s.nodes.size ≤ fuel) (hf1 : 1 ≤ fuel) :
    ∃ r s', (recomputeOne env fuel n).run.run s = (.ok r, s') ∧ PInv s' := by
  have F := D.frag
  have I := D.inv
  have gr := I.graph
  have hi := I.heap
  obtain ⟨rk, A, hb, H, L⟩ := T
  obtain ⟨hnnec, hltv, hnvv, -, -⟩ := I.cur_facts
  have hlt : n < s.nodes.size := by rw [virt_size] at hltv; exact hltv
  have hnv : (s.nodeD n).valid = true := by rw [virt_nodeD, virtNode_valid] at hnvv; exact hnvv
  have hrhs : ∀ b lc br, (s.nodeD n).kind = .bindMain b lc → s.binds[b]? = some br → br.rhs ≠ none := by
    intro b lc br hkd hbr
    exact NestH.rhs_of_ran I A H b lc br (by rw [virt_nodeD, virtNode_kind, hkd]; rfl) hbr
  obtain ⟨v, es, -, hrun⟩ := recomputeOne_eq_mcv (fuel := fuel) F gr hlt hnv hk1 hk2 hk3 (kids_settled D) hrhs
  rw [hrun]
  -- the start state of `maybe_change_value`
  have hlt0 : n < (logged es (started n s)).nodes.size := by simp [logged, started]; exact hlt
  have hp0 : (logged es (started n s)).panicCountdown = none := F.pc
  have e0 : (logged es (started n s)).nodeD n = { s.nodeD n with recomputedAt := s.stabNum } := by
    show (started n s).nodeD n = _
    rw [started_nodeD, if_pos ⟨rfl, hlt⟩]
  rw [mcv_run' env fuel n v _ _ (some_of_lt hlt0) hp0]
  -- the cutoff check cannot fail
  obtain ⟨d, hd⟩ : ∃ d, mcvChanges env (logged es (started n s)) n v = some d := by
    apply mcvChanges_isSome
    rw [e0]
    rcases F.fr.cut n with hc | hc | ⟨a, b, hc, hkd⟩
    · exact Or.inl hc
    · exact Or.inr (Or.inl hc)
    · refine Or.inr (Or.inr ⟨a, hc, ?_⟩)
      have hch : a ∈ (virt g s).children n := by rw [virt_children, children_depend hnv hkd]; simp
      have := ((gr.node n hltv hnvv).2.2 a hch).1
      rw [virt_size] at this
      simpa [logged, started] using this
  rw [hd]
  dsimp only
  generalize hes' : mcvLog env (logged es (started n s)) n v = es'
  show ∃ r s', (maybeChangeValueManual env fuel n _ d true).run.run (VD.vdW n v es' es s) = (.ok r, s') ∧ PInv s'
  have hPX : PInv (VD.vdW n v es' es s) := pinv_vdW v es' es hP hlt
  cases d with
  | false => rw [run_mcvm_false]; exact ⟨_, _, rfl, hPX⟩
  | true =>
    have VF : ValFrame n s (VD.vdW n v es' es s) := VD.vdW_valFrame n v es' es
    have FX : FFrag env sp g (VD.vdW n v es' es s) := F.of_valFrame VF
    have hXn : (VD.vdW n v es' es s).nodeD n = { s.nodeD n with recomputedAt := s.stabNum, value := some v } := by
      rw [VD.vdW_nodeD n n v es' es s hlt, if_pos rfl]
    have hXk : ∀ p i', ((VD.vdW n v es' es s).nodeD n).kind ≠ .mapRef p i' := by intro p i'; rw [VF.kind]; exact hk1 p i'
    have hU : Upd n (virt g s) (virt g (VD.vdW n v es' es s)) := VD.vdW_upd hlt F.pc
    have hMR : MRPV (VD.vdW n v es' es s) := by
      intro c pr j p i hkc hvc hm
      rw [VF.valid]
      rw [VF.kind] at hkc
      rw [VF.valid] at hvc
      have hX := VD.vdW_nodeD n c v es' es s hlt
      have hm' : (p, i) ∈ (s.nodeD c).parents := by
        rw [hX] at hm; split at hm
        · rename_i e; rw [e]; exact hm
        · exact hm
      exact mrpv_of_bgraph gr c pr j p i hkc hvc hm'
    have B := C g fuel n ((logged es (started n s)).nodeD n).value none true (VD.vdW n v es' es s) hXk (by rw [hXn]; rfl) hMR
      (by rw [VD.vdW_size]; exact hf) (by omega)
    -- the virtual notification walk cannot panic
    have hmax := NestH.T2b.hmax_of gr hb (L.room (by rw [virt_size]; exact hroom))
    have hfresh : ∀ q, q ∈ ((virt g s).nodeD n).parents.map (·.1) →
        ((virt g s).nodeD q).recomputedAt < (virt g s).stabNum := by
      intro q hq
      obtain ⟨⟨p', ci⟩, hmem, rfl⟩ := List.mem_map.1 hq
      have hci := (gr.parent n p' ci hmem).2
      exact I.fresh p' n (Below.of_edge (Edge.child (List.mem_of_getElem? hci))) (Or.inr rfl)
    rcases hvr : (maybeChangeValueManual (VE env sp) fuel n none true true).run.run (virt g (VD.vdW n v es' es s)) with ⟨e | r, t'⟩
    · exact (mcvm_noerr_upd gr hi hnnec hfresh hmax hU rfl hf1 hvr).elim
    · obtain ⟨s', hs', -, -, -, hp'⟩ := B.rev FX.fr hPX hvr
      exact ⟨r, s', hs', hp'⟩

set_option maxHeartbeats 1000000 in
/-- **the verdict step with the FRAMES of the virtual states** (`FullH.step_verdict`, keeping the `VStep` it builds) -/
theorem step_verdict_vstep (hF : FirstFn env) {t s s' : State} {g : Nat → Option Val} {fuel n : Nat} {r : Option Nat}
    (D : DInvF env sp t s g (some n))
    (hk1 : ∀ p i, (s.nodeD n).kind ≠ .mapRef p i) (hk2 : ∀ m i, (s.nodeD n).kind ≠ .mapWithOld m i)
    (hk3 : ∀ b, (s.nodeD n).kind ≠ .bindLhsChange b)
    (h : (recomputeOne env fuel n).run.run s = (.ok r, s')) :
    ∃ v ch, DInvF env sp t s' g r ∧ MR.VStep n v ch r (virt g s) (virt g s') := by
  have F := D.frag
  have I := D.inv
  have gr := I.graph
  have hi := I.heap
  obtain ⟨⟨rk, A⟩, hDK, hNK⟩ := D.aux
  obtain ⟨hnnec, hltv, hnvv, -, -⟩ := I.cur_facts
  have hlt : n < s.nodes.size := by rw [virt_size] at hltv; exact hltv
  have hnv : (s.nodeD n).valid = true := by rw [virt_nodeD, virtNode_valid] at hnvv; exact hnvv
  obtain ⟨K', F'⟩ := static_keepsK_any D hF hk1 hk2 hk3 h
  obtain ⟨v, es, htarget, hrun⟩ := recomputeOne_as_mcv (fuel := fuel) F gr hlt hnv hk1 hk2 hk3 (kids_settled D) h
  rw [hrun] at h
  -- the kind of the virtual node
  have hkB : StaticKind (VE env sp) ((virt g s).nodeD n).kind ∨ ∃ b lc, ((virt g s).nodeD n).kind = .bindMain b lc := by
    have hB := (gr.node n hltv hnvv).1
    have hk3' : ∀ b, ((virt g s).nodeD n).kind ≠ .bindLhsChange b := by
      intro b e
      rw [virt_nodeD, virtNode_kind, virtKind_lc_iff] at e
      exact hk3 b e
    cases hkd : ((virt g s).nodeD n).kind <;> rw [hkd] at hB <;>
      first
      | exact Or.inl hB
      | exact Or.inr ⟨_, _, rfl⟩
      | exact absurd hkd (hk3' _)
  -- the start state of `maybe_change_value`
  have hlt0 : n < (logged es (started n s)).nodes.size := by simp [logged, started]; exact hlt
  have hp0 : (logged es (started n s)).panicCountdown = none := F.pc
  have e0 : (logged es (started n s)).nodeD n = { s.nodeD n with recomputedAt := s.stabNum } := by
    show (started n s).nodeD n = _
    rw [started_nodeD, if_pos ⟨rfl, hlt⟩]
  rw [mcv_run' env fuel n v _ _ (some_of_lt hlt0) hp0] at h
  cases hd : mcvChanges env (logged es (started n s)) n v with
  | none => rw [hd] at h; cases h
  | some d =>
  rw [hd] at h
  dsimp only at h
  generalize hes' : mcvLog env (logged es (started n s)) n v = es' at h
  have hWe : setValue n (some v) (logged es' (logged es (started n s))) = VD.vdW n v es' es s := rfl
  rw [hWe] at h
  -- the state in which the notifications start
  have hX := fun k => VD.vdW_nodeD n k v es' es s hlt
  have VF : ValFrame n s (VD.vdW n v es' es s) := VD.vdW_valFrame n v es' es
  have hXn : (VD.vdW n v es' es s).nodeD n = { s.nodeD n with recomputedAt := s.stabNum, value := some v } := by
    rw [hX, if_pos rfl]
  have hXpc : (VD.vdW n v es' es s).panicCountdown = none := F.pc
  -- the frames of the actual run
  have k0 : KeyD s (VD.vdW n v es' es s) := rfl
  have a0 : BindH.BF.HAh s (VD.vdW n v es' es s) := by
    intro k; rw [hX]; split
    · rename_i e; rw [e]
    · rfl
  have c0 : Calm s (VD.vdW n v es' es s) :=
    (((Calm.started n s).trans (Calm.logged es _)).trans (Calm.logged es' _)).trans (Calm.modNode _ n _ (fun _ => rfl))
  have d0 : BindH.C2k.DK 0 s (VD.vdW n v es' es s) :=
    (((BindH.C2k.DKS.started 0 n s).1.trans (BindH.C2k.DKS.logged 0 es _).1).trans (BindH.C2k.DKS.logged 0 es' _).1).trans
      (BindH.C2k.DKS.modNode (b := 0) (logged es' (logged es (started n s))) n (fun y => { y with value := some v })
        (fun _ => rfl)).1
  have k1 := (PresK.maybeChangeValueManual env fuel n _ d true).h _ _ _ h
  have a1 := (BindH.BF.PresA.maybeChangeValueManual env fuel n _ d true).h _ _ _ h
  have c1 := (PresC.maybeChangeValueManual env fuel n _ d true).h _ _ _ h
  have d1 := (BindH.C2k.PresD.maybeChangeValueManual (b := 0) env fuel n _ d true).h _ _ _ h
  have fm : MapRefH.FM _ s' := (MapRefH.PresFM.maybeChangeValueManual env fuel n _ d true).h _ _ _ h
  have kk : KeyD s s' := KeyD.trans k0 k1
  obtain ⟨htop, hahh, hpinv, hsc⟩ := MW.keyD_fields kk
  have hAH : BindH.BF.HAh (virt g s) (virt g s') := MW.hah_virt (a0.trans a1)
  have hNUM := MW.num_virt (g := g) (g' := g) (fun k => ((c1.num k).trans (c0.num k)))
  have hDKv : BindH.C2k.DK 0 (virt g s) (virt g s') := MW.dk_virt (g := g) (g' := g) (d0.trans d1.1)
  obtain ⟨hDK', hNK'⟩ := BindH.C2k.dkey_of_dk hDKv A.noHandlers
  have kv : KeyD (virt g s) (virt g s') := kk
  -- the virtual node
  have hvnv : ((virt g s).nodeD n).value = (s.nodeD n).value := by
    rw [virt_nodeD, virtNode_value_of_not_mapRef _ _ hk1]
  have hU : Upd n (virt g s) (virt g (VD.vdW n v es' es s)) := VD.vdW_upd hlt F.pc
  have hXk : ∀ p i', ((VD.vdW n v es' es s).nodeD n).kind ≠ .mapRef p i' := by intro p i'; rw [VF.kind]; exact hk1 p i'
  have hXnv : ((virt g (VD.vdW n v es' es s)).nodeD n).value = some v := by
    rw [virt_nodeD, virtNode_value_of_not_mapRef _ _ hXk, hXn]
  have hXnr : ((virt g (VD.vdW n v es' es s)).nodeD n).recomputedAt = (virt g s).stabNum := by
    rw [virt_nodeD, virtNode_recomputedAt, hXn]; rfl
  have hXnc : ((virt g (VD.vdW n v es' es s)).nodeD n).changedAt = ((virt g s).nodeD n).changedAt := by
    rw [virt_nodeD, virtNode_changedAt, hXn, virt_nodeD, virtNode_changedAt]
  -- what is left to do once the step relation is there
  have fin : ∀ {ch : Bool}, StepRelB n v ch r (virt g s) (virt g s') → MW.NV (VD.vdW n v es' es s) s' →
      ∃ v ch, DInvF env sp t s' g r ∧ MR.VStep n v ch r (virt g s) (virt g s') := by
    intro ch R nv
    obtain ⟨i1, i2, i3, i4, i5, i6⟩ := MW.finish (Or.inl rfl) I A D.gen htarget R hkB hnvv hNUM hAH htop hahh hpinv hsc
    have hkk : ∀ k, (s'.nodeD k).kind = (s.nodeD k).kind := fun k => (nv.kind k).trans (VF.kind k)
    obtain ⟨j1, j2⟩ := dep_stepB D.dep D.cr I R hkk (fun k => (nv.cutoff k).trans (VF.cutoff k))
      (fun a b e _ => targetB_dependOn hF e htarget)
    refine ⟨v, ch, ⟨F', i1, ⟨⟨rk, i2⟩, hDK.trans hDK', hNK.trans hNK'⟩, i3, K', ?_, MW.gsome_after D.gs VF nv fm, j1, j2⟩,
      R, kv, hAH, hNUM, hDKv⟩
    refine MW.minv_keep D.m hkk (fun k => (nv.valid k).trans (VF.valid k)) (fun k m i hkm => ?_)
    have hkn : k ≠ n := by intro e; rw [e] at hkm; exact hk2 m i hkm
    refine ⟨(nv.value k).trans (VF.value k hkn), ?_⟩
    rw [nv.oldState, hX, if_neg hkn]
  cases d with
  | false =>
    rw [run_mcvm_false] at h
    cases h
    have nv : MW.NV (VD.vdW n v es' es s) (VD.vdW n v es' es s) := MW.NV.refl hXpc
    -- only a `.dependOn a` cutoff with equal stamps suppresses
    have hold : (s.nodeD n).value = some v := by
      rcases F.fr.cut n with hc | hc | ⟨a, b, hc, hkd⟩
      · have hc0 : ((logged es (started n s)).nodeD n).cutoff = .eq ∨ ((logged es (started n s)).nodeD n).cutoff = .never := by
          rw [e0]; exact Or.inl hc
        rcases mcvChanges_static env _ n v hc0 with h1 | ⟨-, h1⟩
        · rw [hd] at h1; cases h1
        · rw [e0] at h1; exact h1
      · have hc0 : ((logged es (started n s)).nodeD n).cutoff = .eq ∨ ((logged es (started n s)).nodeD n).cutoff = .never := by
          rw [e0]; exact Or.inr hc
        rcases mcvChanges_static env _ n v hc0 with h1 | ⟨-, h1⟩
        · rw [hd] at h1; cases h1
        · rw [e0] at h1; exact h1
      · have hc0 : ((logged es (started n s)).nodeD n).cutoff = .dependOn a := by rw [e0]; exact hc
        obtain ⟨o, ho, halt, hst⟩ := mcvChanges_dependOn hc0 hd
        rw [e0] at ho hst
        have han : a ≠ n := by
          intro e
          have hch : a ∈ (virt g s).children n := by rw [virt_children, children_depend hnv hkd]; simp
          exact gr.edge_ne (Edge.child hch) e.symm
        have hst' : (s.nodeD n).changedAt = (s.nodeD a).changedAt := by
          have ea : (logged es (started n s)).nodeD a = s.nodeD a := by
            show (started n s).nodeD a = _
            rw [started_nodeD, if_neg (fun hh => han hh.1.symm)]
          rw [ea] at hst; exact hst.symm
        have h1 := D.dep n a b o hnv hkd hc hst' ho
        have h2 := targetB_dependOn hF hkd htarget
        rw [h1] at h2; cases h2
        exact ho
    have R : StepRelB n v false none (virt g s) (virt g (VD.vdW n v es' es s)) :=
      MW.rel_false gr hi hU rfl hXnv hXnr hXnc (hvnv.trans hold)
    exact fin R nv
  | true =>
    have FX : FFrag env sp g (VD.vdW n v es' es s) := F.of_valFrame VF
    obtain ⟨hsim, -, -⟩ := Sim.maybeChangeValueManual (K := FK env sp) (g := g) (sp := sp) env fuel n _ none true _ FX.fr r s' h
    have R : StepRelB n v true r (virt g s) (virt g s') := MW.rel_true gr hi hltv hU rfl hXnv hXnr hsim
    have qa : Step.Quiet (touched n (VD.vdW n v es' es s)) s' := mcvm_true_quiet _ _ _ _ _ _ _ _ h
    exact fin R (MW.NV.of_touched hXpc qa)

/-- **the verdict step keeps the drain invariant and the totality invariant** of the virtual state -/
theorem step_verdict_dt (hF : FirstFn env) {t s s' : State} {g : Nat → Option Val} {N fuel n : Nat} {r : Option Nat}
    (D : DInvF env sp t s g (some n)) (T : NestH.DT (VE env sp) N (virt g s))
    (hk1 : ∀ p i, (s.nodeD n).kind ≠ .mapRef p i) (hk2 : ∀ m i, (s.nodeD n).kind ≠ .mapWithOld m i)
    (hk3 : ∀ b, (s.nodeD n).kind ≠ .bindLhsChange b)
    (h : (recomputeOne env fuel n).run.run s = (.ok r, s')) :
    DInvF env sp t s' g r ∧ BindH.FrameB (virt g s) (virt g s') ∧ ((virt g s').nodeD n).recomputedAt = s.stabNum ∧
      ((virt g s').nodeD n).valid = true ∧ NestH.DT (VE env sp) N (virt g s') := by
  obtain ⟨v, ch, D', V⟩ := step_verdict_vstep hF D hk1 hk2 hk3 h
  obtain ⟨-, -, hvv, -, -⟩ := D.inv.cur_facts
  have hk' : ∀ b, ((virt g s).nodeD n).kind ≠ .bindLhsChange b := by
    intro b e
    rw [virt_nodeD, virtNode_kind, virtKind_lc_iff] at e
    exact hk3 b e
  exact ⟨D', V.rel.frame, V.rel.recomputedAt, V.rel.shape.valid.trans hvv, dt_vstep T D.inv V hk'⟩

end
end IncrVerif.Proofs.FullT
