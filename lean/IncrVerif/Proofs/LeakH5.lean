import IncrVerif.Proofs.LeakH4
import IncrVerif.Proofs.Life5
/-!
# C12 over histories, part 5: `ObsDead` is an invariant of EVERY history

An observer record whose clone count is `0` is disallowed or unlinked: the record is created with one handle,
`dropObs` of the last handle calls `disallow_future_use`, the lifecycle never goes back, and `stabilise` keeps
clone counts (`Proofs/Life3.lean`: `table_step`, `Proofs/Life5.lean`: `stabilise_spec`).  No hypothesis on the
state or on the action.
-/
namespace IncrVerif.Proofs.LeakH
open IncrVerif.Engine IncrVerif.Driver IncrVerif.Proofs IncrVerif.Proofs.Obs IncrVerif.Proofs.Life

def RowDead (r : Row) : Prop := r.2.2 = 0 → (r.2.1 = .disallowed ∨ r.2.1 = .unlinked)

def TableDead (t : Array Row) : Prop := ∀ (o : Nat) (r : Row), t[o]? = some r → RowDead r

theorem obsDead_iff_table (s : State) : ObsDead s ↔ TableDead (table s) := by
  unfold ObsDead TableDead table
  constructor
  · intro h o r hr
    rw [Array.getElem?_map] at hr
    cases ho : s.observers[o]? with
    | none => rw [ho] at hr; cases hr
    | some ob =>
      rw [ho] at hr
      simp only [Option.map_some, Option.some.injEq] at hr
      rw [← hr]
      exact h o ob ho
  · intro h o ob ho hc
    exact h o (core3 ob) (by rw [Array.getElem?_map, ho]; rfl) hc

theorem afterDisallow_dead (x : ObsState) : afterDisallow x = .disallowed ∨ afterDisallow x = .unlinked := by
  cases x <;> simp [afterDisallow]

theorem tableDead_modify {t : Array Row} (h : TableDead t) (o : Nat) (f : Row → Row)
    (hf : ∀ r, RowDead r → RowDead (f r)) : TableDead (t.modify o f) := by
  intro i r hr
  rw [Array.getElem?_modify] at hr
  by_cases hoi : o = i
  · rw [if_pos hoi] at hr
    cases hi : t[i]? with
    | none => rw [hi] at hr; cases hr
    | some r0 =>
      rw [hi] at hr
      simp only [Option.map_some, Option.some.injEq] at hr
      rw [← hr]; exact hf r0 (h i r0 hi)
  · rw [if_neg hoi] at hr; exact h i r hr

theorem tableDead_step {t : Array Row} (h : TableDead t) (a : Action) (res : Except Panic Nat) :
    TableDead (stepTable a res t) := by
  cases a <;> try exact h
  case observe n =>
    simp only [stepTable]
    cases res with
    | error e => exact h
    | ok m =>
      intro i r hr
      rw [Array.getElem?_push] at hr
      split at hr
      · cases hr; intro hc; cases hc
      · exact h i r hr
  case cloneObs o =>
    exact tableDead_modify h o cloneRow (fun r _ hc => by simp [cloneRow] at hc)
  case disallow o =>
    exact tableDead_modify h o disallowRow (fun r _ _ => afterDisallow_dead r.2.1)
  case dropObs o =>
    refine tableDead_modify h o dropRow (fun r hr => ?_)
    unfold dropRow
    split
    · exact hr
    · split
      · intro _; exact afterDisallow_dead r.2.1
      · intro hc
        simp only at hc
        omega

theorem obsDead_step {env : Env} {a : Action} {tokens : Array Nat} {s s' : State}
    {r : Except Panic (String × Array Nat)} (ha : a ≠ .stabilise) (OD : ObsDead s)
    (h : (stepAction env a tokens).run.run s = (r, s')) : ObsDead s' := by
  rw [obsDead_iff_table] at OD ⊢
  rw [table_step env a tokens s s' r ha h]
  exact tableDead_step OD a _

theorem phase2_dead (s : State) (o : Nat) {x : ObsState} (hx : x = .disallowed ∨ x = .unlinked) :
    phase2 s o x = .disallowed ∨ phase2 s o x = .unlinked := by
  unfold phase2
  split
  · exact Or.inr rfl
  · split
    · rename_i h; rcases hx with e | e <;> rw [e] at h <;> cases h.2
    · exact hx

theorem afterDisallow_dead' {x : ObsState} (_hx : x = .disallowed ∨ x = .unlinked) :
    afterDisallow x = .disallowed ∨ afterDisallow x = .unlinked := afterDisallow_dead x

theorem obsDead_stabilise {env : Env} {fuel : Nat} {s s' : State} (OD : ObsDead s)
    (h : (stabilise env fuel).run.run s = (.ok (), s')) : ObsDead s' := by
  obtain ⟨-, -, hsz, -, hobs, -, -⟩ := IncrVerif.Proofs.Life.stabilise_spec env fuel s s' h
  intro o ob' ho' hc
  have hlt : o < s.observers.size := by
    rw [← hsz]
    by_cases hlt : o < s'.observers.size
    · exact hlt
    · rw [Array.getElem?_eq_none (by omega)] at ho'; cases ho'
  have hob := Array.getElem?_eq_getElem hlt
  obtain ⟨ob2, ho2, -, hcl, hst⟩ := hobs o _ hob
  rw [ho'] at ho2
  cases ho2
  have hd := OD o _ hob (by rw [← hcl]; exact hc)
  rcases hst with e | e
  · rw [e]; exact phase2_dead s o hd
  · rw [e]; exact afterDisallow_dead _

/-- any API action that returns -/
theorem obsDead_action {env : Env} {a : Action} {tokens : Array Nat} {s s' : State}
    {r : String × Array Nat} (OD : ObsDead s)
    (h : (stepAction env a tokens).run.run s = (.ok r, s')) : ObsDead s' := by
  by_cases ha : a = .stabilise
  · subst ha
    exact obsDead_stabilise OD (Quiet.step_stabilise h)
  · exact obsDead_step ha OD h

theorem obsDead_init (N : Nat) (d : Bool) : ObsDead (State.init N d) := by
  intro o ob ho
  simp [State.init] at ho

theorem obsDead_run {env : Env} {acts : List Action} {s s' : State} {tk tk' : Array Nat} (OD : ObsDead s)
    (h : Quiet.runActions env acts s tk = .ok (s', tk')) : ObsDead s' := by
  induction acts generalizing s tk with
  | nil => simp only [Quiet.runActions] at h; cases h; exact OD
  | cons a as ih =>
    simp only [Quiet.runActions] at h
    rcases hx : (stepAction env a tk).run.run s with ⟨_ | r, s1⟩
    · rw [hx] at h; cases h
    · rw [hx] at h
      exact ih (obsDead_action OD hx) h

end IncrVerif.Proofs.LeakH
