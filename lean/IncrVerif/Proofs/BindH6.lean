import IncrVerif.Proofs.BindH5
/-!
# Binds, part 3c: a run of a static or bind-main node re-establishes the drain invariant (pure logic)
-/
namespace IncrVerif.Proofs.BindH
open IncrVerif.Engine IncrVerif.Proofs IncrVerif.Proofs.Step IncrVerif.Proofs.Sched

/-! ## congruences -/

/-- the child list of a node only depends on kind, validity and — for bind kinds — the bind table -/
theorem children_congr_kind {s s' : State} {n : Nat} (hk : (s'.nodeD n).kind = (s.nodeD n).kind)
    (hv : (s'.nodeD n).valid = (s.nodeD n).valid) (hb : s'.binds = s.binds)
    (hne : ∀ e, (s.nodeD n).kind ≠ .expert e) : s'.children n = s.children n := by
  unfold State.children Node.kind?
  rw [hk, hv, hb]
  cases hvv : (s.nodeD n).valid
  · rfl
  · cases h : (s.nodeD n).kind <;> first | rfl | exact absurd h (hne _)

theorem BKind.not_expert {env : Env} {k : Kind} (h : BKind env k) (e : Nat) : k ≠ .expert e := by
  intro h'; subst h'; exact h

theorem plainVals_congr {s s' : State} (args : List Nat)
    (h : ∀ a, a ∈ args → (s'.nodeD a).value = (s.nodeD a).value) : plainVals s' args = plainVals s args :=
  evalArgs_congr _ _ _ h

/-- the defining equation only reads the node's kind, the cells, the bind table and the children's values -/
theorem TargetB.congr {env : Env} {s s' : State} {m : Nat} {w : Val}
    (hv : (s.nodeD m).valid = true) (hB : BKind env (s.nodeD m).kind)
    (hk : (s'.nodeD m).kind = (s.nodeD m).kind) (hvars : s'.vars = s.vars) (hb : s'.binds = s.binds)
    (hc : ∀ c, c ∈ s.children m → (s'.nodeD c).value = (s.nodeD c).value)
    (h : TargetB env s m w) : TargetB env s' m w := by
  have hch : ∀ c, c ∈ s.children m → c ∈ s.children m := fun _ h => h
  unfold TargetB at h ⊢
  rw [hk]
  cases hkd : (s.nodeD m).kind with
  | bindLhsChange b => rw [hkd] at h; exact h
  | bindMain b lc =>
    rw [hkd] at h
    obtain ⟨br, r, h1, h2, h3⟩ := h
    refine ⟨br, r, by rw [hb]; exact h1, h2, ?_⟩
    rw [hc r ?_]; exact h3
    unfold State.children Node.kind?
    rw [hv, hkd]
    simp only [if_true, h1, h2]
    simp
  | const w' => rw [hkd] at h; simpa only [Target, hk, hkd] using h
  | var c =>
    rw [hkd] at h
    simp only [Target, hk, hkd, hvars] at h ⊢
    exact h
  | map f args =>
    rw [hkd] at h
    have hcs : s.children m = args := by
      unfold State.children Node.kind?; rw [hv, hkd]; rfl
    simp only [Target, hk, hkd] at h ⊢
    obtain ⟨vals, h1, h2⟩ := h
    exact ⟨vals, by rw [plainVals_congr args (fun a ha => hc a (by rw [hcs]; exact ha))]; exact h1, h2⟩
  | fold f init cs =>
    rw [hkd] at h
    have hcs : s.children m = cs := by
      unfold State.children Node.kind?; rw [hv, hkd]; rfl
    simp only [Target, hk, hkd] at h ⊢
    obtain ⟨vals, h1, h2⟩ := h
    exact ⟨vals, by rw [plainVals_congr cs (fun a ha => hc a (by rw [hcs]; exact ha))]; exact h1, h2⟩
  | mapRef _ _ => rw [hkd] at hB; exact hB.elim
  | mapWithOld _ _ => rw [hkd] at hB; exact hB.elim
  | expert _ => rw [hkd] at hB; exact hB.elim

/-! ## what `StepRelB` keeps -/

section
variable {env : Env} {n : Nat} {v : Val} {ch : Bool} {r : Option Nat} {s s' : State}

theorem StepRelB.shapes (R : StepRelB n v ch r s s') (m : Nat) : SameShape (s.nodeD m) (s'.nodeD m) := by
  by_cases h : m = n
  · rw [h]; exact R.shape
  · exact SameShape.of_nodeSame (R.other m h)

theorem StepRelB.nec (R : StepRelB n v ch r s s') (m : Nat) : s'.isNecessary m = s.isNecessary m :=
  (R.shapes m).isNecessary

theorem StepRelB.children (R : StepRelB n v ch r s s') (g : BGraph env s) (m : Nat) :
    s'.children m = s.children m := by
  by_cases hm : m < s.nodes.size
  · cases hv : (s.nodeD m).valid with
    | true =>
      exact children_congr_kind (R.shapes m).kind (R.shapes m).valid R.binds
        (fun e => (g.node m hm hv).1.not_expert e)
    | false =>
      unfold State.children Node.kind?
      rw [(R.shapes m).valid, hv]
      rfl
  · unfold State.children
    rw [nodeD_default_of_ge s m (by omega), nodeD_default_of_ge s' m (by rw [R.size]; omega)]
    rfl

theorem StepRelB.edge (R : StepRelB n v ch r s s') (g : BGraph env s) {a c : Nat} :
    Edge s' a c ↔ Edge s a c := by
  constructor
  · intro h
    cases h with
    | child hc => rw [R.children g] at hc; exact Edge.child hc
    | scope hv hsc hb =>
      rw [(R.shapes a).valid] at hv
      rw [(R.shapes a).createdIn] at hsc
      rw [R.binds] at hb
      exact Edge.scope hv hsc hb
  · intro h
    cases h with
    | child hc => rw [← R.children g] at hc; exact Edge.child hc
    | scope hv hsc hb =>
      rw [← (R.shapes a).valid] at hv
      rw [← (R.shapes a).createdIn] at hsc
      rw [← R.binds] at hb
      exact Edge.scope hv hsc hb

theorem StepRelB.below (R : StepRelB n v ch r s s') (g : BGraph env s) {a d : Nat} :
    Below s' a d ↔ Below s a d := by
  constructor
  · intro h
    induction h with
    | refl => exact Below.refl _
    | step he _ ih => exact Below.step ((R.edge g).1 he) ih
  · intro h
    induction h with
    | refl => exact Below.refl _
    | step he _ ih => exact Below.step ((R.edge g).2 he) ih

theorem StepRelB.graph (R : StepRelB n v ch r s s') (g : BGraph env s) : BGraph env s' where
  pc := R.pc
  node m hm hv := by
    rw [R.size] at hm
    rw [(R.shapes m).valid] at hv
    obtain ⟨h1, h2, h3⟩ := g.node m hm hv
    refine ⟨by rw [(R.shapes m).kind]; exact h1, by rw [(R.shapes m).cutoff]; exact h2, ?_⟩
    intro c hc
    rw [R.children g] at hc
    rw [R.size, (R.shapes c).valid]
    exact h3 c hc
  nec m hm := by
    rw [R.nec] at hm
    rw [(R.shapes m).valid, (R.shapes m).height]
    exact g.nec m hm
  var m c hm hv hk := by
    rw [R.size] at hm
    rw [(R.shapes m).valid] at hv
    rw [(R.shapes m).kind] at hk
    rw [R.vars]
    exact g.var m c hm hv hk
  child m hm i c hc := by
    rw [R.nec] at hm
    rw [R.children g] at hc
    rw [R.nec, (R.shapes c).parents, (R.shapes c).height, (R.shapes m).height]
    exact g.child m hm i c hc
  parent c p i h := by
    rw [(R.shapes c).parents] at h
    rw [R.nec, R.children g]
    exact g.parent c p i h
  scope m b hm hv hsc := by
    rw [R.size] at hm
    rw [(R.shapes m).valid] at hv
    rw [(R.shapes m).createdIn] at hsc
    obtain ⟨br, h1, h2, h3, h4⟩ := g.scope m b hm hv hsc
    refine ⟨br, by rw [R.binds]; exact h1, by rw [R.size]; exact h2,
      by rw [(R.shapes _).valid]; exact h3, ?_⟩
    rw [R.nec, R.nec, (R.shapes _).height, (R.shapes m).height]
    exact h4
  lcRec m b hm hv hk := by
    rw [R.size] at hm
    rw [(R.shapes m).valid] at hv
    rw [(R.shapes m).kind] at hk
    rw [R.binds]
    exact g.lcRec m b hm hv hk
  mainRec m b lc hm hv hk := by
    rw [R.size] at hm
    rw [(R.shapes m).valid] at hv
    rw [(R.shapes m).kind] at hk
    rw [R.binds, (R.shapes lc).createdIn, (R.shapes m).createdIn]
    exact g.mainRec m b lc hm hv hk
  lcChild m c b hm hv hc hk := by
    rw [R.size] at hm
    rw [(R.shapes m).valid] at hv
    rw [R.children g] at hc
    rw [(R.shapes c).kind] at hk
    rw [(R.shapes m).kind]
    exact g.lcChild m c b hm hv hc hk
  acyc := by
    obtain ⟨rk, h⟩ := g.acyc
    exact ⟨rk, fun a c he => h a c ((R.edge g).1 he)⟩

end

/-! ## the step -/

section
variable {env : Env} {n : Nat} {v : Val} {ch : Bool} {r : Option Nat} {s s' : State}

theorem stepB_changedAt_le (I : DInv env s (some n)) (R : StepRelB n v ch r s s') (c : Nat) :
    (s.nodeD c).changedAt ≤ (s'.nodeD c).changedAt := by
  by_cases h : c = n
  · subst h
    rw [R.changedAt]
    split
    · exact (I.stamps.node c).2
    · exact Int.le_refl _
  · rw [(R.other c h).changedAt]; exact Int.le_refl _

/-- the node that ran is necessary, valid, in range -/
theorem DInv.cur_facts (I : DInv env s (some n)) :
    s.isNecessary n = true ∧ n < s.nodes.size ∧ (s.nodeD n).valid = true ∧ (s.nodeD n).inRch = false ∧
      (s.nodeD n).recomputedAt < s.stabNum := by
  obtain ⟨h1, h2⟩ := I.cur n rfl
  exact ⟨h1, I.graph.nec_lt h1, (I.graph.nec n h1).1, h2 n (Below.refl n),
    I.fresh n n (Below.refl n) (Or.inr rfl)⟩

theorem stepB_self_fresh (I : DInv env s (some n)) (R : StepRelB n v ch r s s') : s'.isStale n = false := by
  obtain ⟨hn, hlt, hv, -, -⟩ := I.cur_facts
  have hk : BKind env (s'.nodeD n).kind := by rw [R.shape.kind]; exact (I.graph.node n hlt hv).1
  apply isStale_fresh hk (by rw [R.stabNum]; exact I.stamps.now) (by rw [R.recomputedAt, R.stabNum])
  · intro c vc h
    rw [R.vars] at h
    rw [R.stabNum]; exact I.stamps.var c vc h
  · intro c
    rw [R.stabNum]
    by_cases h : c = n
    · subst h
      rw [R.changedAt]
      split
      · exact Int.le_refl _
      · exact (I.stamps.node c).2
    · rw [(R.other c h).changedAt]; exact (I.stamps.node c).2

/-- staleness of the other nodes: unchanged unless `n` changed and is a child -/
theorem stepB_stale_other (I : DInv env s (some n)) (R : StepRelB n v ch r s s') {m : Nat} (hm : m ≠ n)
    (hlt : m < s.nodes.size) (hv : (s.nodeD m).valid = true) :
    (s'.isStale m = s.isStale m ∧ (ch = false ∨ n ∉ s.children m)) ∨
      (ch = true ∧ n ∈ s.children m ∧ s'.isStale m = true) := by
  have g := I.graph
  have hB := (g.node m hlt hv).1
  by_cases hc : ch = true ∧ n ∈ s.children m
  · right
    refine ⟨hc.1, hc.2, ?_⟩
    have hfr := I.fresh m n (Below.of_edge (Edge.child hc.2)) (Or.inr rfl)
    apply isStale_of_child (env := env) (c := n)
    · rw [(R.shapes m).valid]; exact hv
    · rw [(R.shapes m).kind]; exact hB
    · rw [R.children g]; exact hc.2
    · rw [R.changedAt, if_pos hc.1, (R.other m hm).recomputedAt]; exact hfr
  · left
    refine ⟨?_, ?_⟩
    · apply isStale_congr hB (R.shapes m).kind (R.shapes m).valid (R.other m hm).recomputedAt
        (fun c => by rw [R.vars]) (R.children g m)
      intro c hcm
      by_cases e : c = n
      · subst e
        rw [R.changedAt]
        split
        · rename_i h1; exact absurd ⟨h1, hcm⟩ hc
        · rfl
      · exact (R.other c e).changedAt
    · by_cases h1 : ch = true
      · exact Or.inr (fun h2 => hc ⟨h1, h2⟩)
      · left; cases ch <;> simp_all

theorem stepB_stale_mono (I : DInv env s (some n)) (R : StepRelB n v ch r s s') {m : Nat} (hm : m ≠ n)
    (h : s.isStale m = true) : s'.isStale m = true := by
  have hv := valid_of_isStale h
  by_cases hlt : m < s.nodes.size
  · rcases stepB_stale_other I R hm hlt hv with ⟨h1, -⟩ | ⟨-, -, h1⟩
    · rw [h1]; exact h
    · exact h1
  · -- out of range: the default node in both states
    have : s'.isStale m = s.isStale m := by
      unfold State.isStale State.children
      rw [nodeD_default_of_ge s m (by omega), nodeD_default_of_ge s' m (by rw [R.size]; omega)]
      rfl
    rw [this]; exact h

/-- **A run of a static or bind-main node re-establishes the drain invariant**, with the node handed over for
direct recomputation (if any) as the new current node. -/
theorem stepB_inv (I : DInv env s (some n)) (ht : TargetB env s n v) (R : StepRelB n v ch r s s') :
    DInv env s' r := by
  have g := I.graph
  have g' := R.graph g
  obtain ⟨hn, hnlt, hnv, hnq, hnr⟩ := I.cur_facts
  have hself := stepB_self_fresh I R
  -- a parent entry of `n` is an edge into `n`
  have hpar : ∀ p, p ∈ (s.nodeD n).parents.map (·.1) → s.isNecessary p = true ∧ n ∈ s.children p := by
    intro p hp
    obtain ⟨⟨p', i⟩, hmem, rfl⟩ := List.mem_map.1 hp
    obtain ⟨h1, h2⟩ := g.parent n p' i hmem
    exact ⟨h1, List.mem_of_getElem? h2⟩
  -- nothing below `n` is queued afterwards either
  have hbelow_n : ∀ d, Below s n d → (s'.nodeD d).inRch = false := by
    intro d hd
    cases hq : (s'.nodeD d).inRch with
    | false => rfl
    | true =>
      exfalso
      rcases R.newIn d hq with h1 | ⟨-, h1⟩
      · rw [(I.cur n rfl).2 d hd] at h1; cases h1
      · exact g.no_cycle hd (Edge.child (hpar d h1).2)
  refine ⟨g', R.heap, ?_, ?_, ?_, ?_, ?_, ?_⟩
  · -- stamps
    refine ⟨by rw [R.stabNum]; exact I.stamps.now, ?_, ?_⟩
    · intro m
      rw [R.stabNum]
      by_cases h : m = n
      · subst h
        rw [R.recomputedAt, R.changedAt]
        refine ⟨Int.le_refl _, ?_⟩
        split
        · exact Int.le_refl _
        · exact (I.stamps.node m).2
      · rw [(R.other m h).recomputedAt, (R.other m h).changedAt]; exact I.stamps.node m
    · intro c vc h
      rw [R.vars] at h
      rw [R.stabNum]; exact I.stamps.var c vc h
  · -- qstale
    intro m hq
    rcases R.newIn m hq with h1 | ⟨hc, h1⟩
    · have hne : m ≠ n := by intro e; rw [e, hnq] at h1; cases h1
      exact stepB_stale_mono I R hne (I.qstale m h1)
    · obtain ⟨hpn, hcm⟩ := hpar m h1
      have hne : m ≠ n := g.edge_ne (Edge.child hcm)
      have hmlt := g.nec_lt hpn
      have hmv := (g.nec m hpn).1
      rcases stepB_stale_other I R hne hmlt hmv with ⟨-, h2 | h2⟩ | ⟨-, -, h2⟩
      · rw [hc] at h2; cases h2
      · exact absurd hcm h2
      · exact h2
  · -- pending
    intro m hm hst
    have hne : m ≠ n := by intro e; rw [e, hself] at hst; cases hst
    rw [R.nec] at hm
    have hmlt := g.nec_lt hm
    have hmv := (g.nec m hm).1
    rcases stepB_stale_other I R hne hmlt hmv with ⟨h1, -⟩ | ⟨hc, hcm, -⟩
    · rw [h1] at hst
      rcases I.pending m hm hst with h2 | h2
      · exact Or.inl ((R.other m hne).inRch h2)
      · injection h2 with h2; exact absurd h2.symm hne
    · obtain ⟨i, hi, e⟩ := List.mem_iff_getElem.1 hcm
      have hmem := (g.child m hm i n (by rw [List.getElem?_eq_getElem hi, e])).2.1
      exact R.parentsIn hc m (List.mem_map.2 ⟨(m, i), hmem, rfl⟩)
  · -- cons
    intro m hmlt hmv hst
    rw [R.size] at hmlt
    rw [(R.shapes m).valid] at hmv
    have hB := (g.node m hmlt hmv).1
    by_cases hmn : m = n
    · subst hmn
      refine ⟨v, ?_, R.value⟩
      apply TargetB.congr hmv hB R.shape.kind R.vars R.binds _ ht
      intro c hc
      have hne : c ≠ m := fun e => g.edge_ne (Edge.child hc) e.symm
      exact (R.other c hne).value
    · have hst0 : s.isStale m = false := by
        cases h : s.isStale m with
        | false => rfl
        | true => rw [stepB_stale_mono I R hmn h] at hst; cases hst
      obtain ⟨w, hw, hval⟩ := I.cons m hmlt hmv hst0
      refine ⟨w, ?_, by rw [(R.other m hmn).value]; exact hval⟩
      apply TargetB.congr hmv hB (R.shapes m).kind R.vars R.binds _ hw
      intro c hc
      by_cases e : c = n
      · subst e
        rcases stepB_stale_other I R hmn hmlt hmv with ⟨-, h2 | h2⟩ | ⟨-, -, h2⟩
        · rw [R.value, (R.unch h2).1]
        · exact absurd hc h2
        · rw [h2] at hst; cases hst
      · exact (R.other c e).value
  · -- fresh
    intro a d hbel hd
    rw [R.below g] at hbel
    rw [R.stabNum]
    -- it suffices to find the bound in `s` and to know `a ≠ n`
    have key : (s.nodeD a).recomputedAt < s.stabNum ∧ a ≠ n := by
      -- `d` is stale in `s`, or `n` is (now) below `d` through an edge
      have hcase : (s.isStale d = true ∧ d ≠ n) ∨ Edge s d n := by
        rcases hd with hd | hd
        · have hne : d ≠ n := by intro e; rw [e, hself] at hd; cases hd
          by_cases h0 : s.isStale d = true
          · exact Or.inl ⟨h0, hne⟩
          · right
            have hdv : (s.nodeD d).valid = true := by
              rw [← (R.shapes d).valid]; exact valid_of_isStale hd
            by_cases hdlt : d < s.nodes.size
            · rcases stepB_stale_other I R hne hdlt hdv with ⟨h1, -⟩ | ⟨-, h1, -⟩
              · rw [h1] at hd; exact absurd hd h0
              · exact Edge.child h1
            · exfalso
              apply h0
              have : s'.isStale d = s.isStale d := by
                unfold State.isStale State.children
                rw [nodeD_default_of_ge s d (by omega), nodeD_default_of_ge s' d (by rw [R.size]; omega)]
                rfl
              rw [← this]; exact hd
        · obtain ⟨-, h1, -, -⟩ := R.ret d hd
          exact Or.inr (Edge.child (hpar d h1).2)
      rcases hcase with ⟨h0, hne⟩ | hedge
      · refine ⟨I.fresh a d hbel (Or.inl h0), ?_⟩
        intro e
        subst e
        have hdn := (g.below_nec hbel hn).1
        rcases I.pending d hdn h0 with h1 | h1
        · rw [(I.cur a rfl).2 d hbel] at h1; cases h1
        · injection h1 with h1; exact hne h1.symm
      · refine ⟨I.fresh a n (hbel.snoc hedge) (Or.inr rfl), ?_⟩
        intro e
        subst e
        exact g.no_cycle hbel hedge
    rw [(R.other a key.2).recomputedAt]; exact key.1
  · -- cur
    intro p hp
    obtain ⟨hc, hpp, hpq, hand⟩ := R.ret p hp
    obtain ⟨hpn, -⟩ := hpar p hpp
    refine ⟨by rw [R.nec]; exact hpn, ?_⟩
    intro d hd
    rw [R.below g] at hd
    by_cases hdp : d = p
    · rw [hdp]; exact hpq
    -- heights below a necessary node
    have hlow : ∀ {a : Nat}, s.isNecessary a = true → Below s a d →
        (∀ m, (s'.nodeD m).inRch = true → (s.nodeD a).height < (s.nodeD m).height) →
        (s'.nodeD d).inRch = false := by
      intro a ha hb hall
      cases hq : (s'.nodeD d).inRch with
      | false => rfl
      | true =>
        have := hall d hq
        have := (g.below_nec hb ha).2
        omega
    have hscope : ScopeClear s s' p → ∀ {b : Nat} {br : BindRec}, (s.nodeD p).valid = true →
        (s.nodeD p).createdIn = .bind b → s.binds[b]? = some br → Below s br.lhsChange d →
        (s'.nodeD d).inRch = false := by
      intro hsc b br hv hcr hb hbl
      have hl := (g.edge_nec hpn (Edge.scope hv hcr hb)).1
      exact hlow hl hbl (hsc b br hcr hb)
    obtain ⟨c, he, hcd⟩ := hd.cases_ne (Ne.symm hdp)
    rcases hand with ⟨hch, hsc⟩ | hmin | ⟨b, lc, hk, hch, hsc, hlc⟩
    · cases he with
      | child hcc =>
        rw [hch] at hcc
        have : c = n := by simpa using hcc
        rw [this] at hcd
        exact hbelow_n d hcd
      | scope hv hcr hb => exact hscope hsc hv hcr hb hcd
    · cases hq : (s'.nodeD d).inRch with
      | false => rfl
      | true =>
        have := hmin d hq
        have := g.below_lt hd hpn (Ne.symm hdp)
        omega
    · cases he with
      | child hcc =>
        rw [hch] at hcc
        have : c = lc ∨ c = n := by simpa using hcc
        rcases this with e | e
        · rw [e] at hcd
          have hlcn := (g.edge_nec hpn (Edge.child (by rw [hch]; simp : lc ∈ s.children p))).1
          exact hlow hlcn hcd hlc
        · rw [e] at hcd
          exact hbelow_n d hcd
      | scope hv hcr hb => exact hscope hsc hv hcr hb hcd

end

end IncrVerif.Proofs.BindH
