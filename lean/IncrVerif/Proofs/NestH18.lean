import IncrVerif.Proofs.NestH17
import IncrVerif.Proofs.BindH60
/-!
# Nested binds (F2), `adjustHeights`, part 2: closing the open node; the headline theorem `adjustHeights_spec2`
(port of `CA3` = `BindH60` from `GInv1` to `GInv2`; `CA.keyEq_of_hrel` is reused as it is)
-/
namespace IncrVerif.Proofs.NestH
open IncrVerif.Engine IncrVerif.Proofs IncrVerif.Proofs.Step IncrVerif.Proofs.Sched IncrVerif.Proofs.Quiet
open IncrVerif.Proofs.BindH

namespace NA
open BA CA

variable {env : Env} {rk : Nat → Nat} {s : State} {op : Nat → Op} {ex : Nat → Prop} {dy : List Nat}

/-- a registered node of a bind is a valid node of the bind's scope -/
theorem reg_scope2 (I : GInv2 env rk s op ex dy) {b : Nat} {br : BindRec} (hb : s.binds[b]? = some br) {r : Nat}
    (hr : r ∈ br.allNodesCreatedOnRhs) :
    r < s.nodes.size ∧ (s.nodeD r).valid = true ∧ (s.nodeD r).createdIn = .bind b :=
  (I.frag.gen b br hb r).1 (Or.inl hr)

/-- the static facts the loop needs -/
theorem loopHyp2 (I : GInv2 env rk s op ex dy) : LoopHyp2 rk s where
  up x q h := by
    rcases h with ⟨i, hm⟩ | ⟨b, br, hb, hl, hmem, -⟩
    · have hk := (I.par x q i hm).1
      exact I.frag.kid_rk (children_lt_size hk) (List.mem_of_getElem? hk)
    · obtain ⟨h1, -, h3⟩ := reg_scope2 I hb hmem
      rw [← hl]
      exact (I.frag.scope_rk h1 h3 hb).1
  lcKind b br hb := (I.frag.recs b br hb).2.2.1
  lcValid b br r hb hr := by
    obtain ⟨h1, h2, h3⟩ := reg_scope2 I hb hr
    exact (I.frag.scopeValid r b br h1 h2 h3 hb).1
  lcRec n b br hn hk hb := by
    obtain ⟨br', hb', hl⟩ := (I.frag.node n hn).lcRec b hk
    rw [hb] at hb'
    cases hb'
    exact hl

/-- closing the open node -/
theorem close2 {s' : State} {oc op' i0 : Nat}
    (A : AInvR rk (HP s) op' s s' noXR noY) (E : AhhEmpty s') (I : GInv2 env rk s op ex dy)
    (hopen : op op' = .linking (s.children op').length) (hclosed : ∀ m, m ≠ op' → op m = .closed)
    (hedge : (op', i0) ∈ (s.nodeD oc).parents)
    (hq : s.isStale op' = true → ex op' ∨ (s.nodeD op').inRch = true)
    (hdy : ∀ m, m ∈ dy → ∀ b br, (s.nodeD m).createdIn = .bind b → s.binds[b]? = some br →
      rk br.lhsChange < rk op')
    (hscope : ∀ b br, (s.nodeD op').createdIn = .bind b → s.binds[b]? = some br →
      (s.nodeD br.lhsChange).height < (s.nodeD op').height) :
    GInv2 env rk s' (upd op op' .closed) ex dy := by
  have R := A.rel
  have K := keyEq_of_hrel R
  have H := loopHyp2 I
  have hfine : ∀ c p, HP s c p → (s'.nodeD c).height < (s'.nodeD p).height := by
    intro c p hm
    rcases A.edge c p hm with h | h | h
    · exact h
    · exact absurd (E.marks c) h
    · exact h.elim
  have hocp : oc ≠ op' := by
    have := H.up oc op' (Or.inl ⟨i0, hedge⟩)
    intro e; rw [e] at this; omega
  have hcl : ∀ m, upd op op' .closed m = .closed := by
    intro m
    by_cases e : m = op'
    · rw [e, upd_self]
    · rw [upd_other _ _ _ e]; exact hclosed m e
  refine ⟨KeyEq2.frag2 K I.frag (by rw [R.pc]; exact I.frag.pc) (by rw [R.scope]; exact I.frag.scope),
    ?_, ?_, ?_, ?_, ?_, ?_, ?_, A.heap, ?_, ?_, ?_, ?_, ?_, ?_, ?_, ?_, ?_⟩
  · intro c p i hm
    rw [R.parents] at hm
    obtain ⟨h1, h2⟩ := I.par c p i hm
    refine ⟨by rw [KeyEq2.children2 K I.frag]; exact h1, (wants_closed (hcl p)).2 ?_⟩
    rw [R.nec]
    by_cases e : p = op'
    · rw [e]; exact I.lnec _ _ hopen
    · exact (wants_closed (hclosed p e)).1 h2
  · intro p i c hk hw
    rw [KeyEq2.children2 K I.frag] at hk
    rw [R.parents]
    apply I.conv p i c hk
    have hn := (wants_closed (hcl p)).1 hw
    rw [R.nec] at hn
    by_cases e : p = op'
    · rw [e] at hk ⊢
      refine (wants_linking hopen).2 ?_
      rcases Nat.lt_or_ge i (s.children op').length with h | h
      · exact h
      · rw [List.getElem?_eq_none h] at hk; cases hk
    · exact (wants_closed (hclosed p e)).2 hn
  · intro c; rw [R.parents]; exact I.nodup c
  · intro c p i hm _
    rw [R.parents] at hm
    exact hfine c p (Or.inl ⟨i, hm⟩)
  · intro n hn _
    rw [R.nec] at hn
    by_cases e : n = op'
    · have h1 := hfine oc op' (Or.inl ⟨i0, hedge⟩)
      have h2 := I.hpos oc (nec_of_mem_parents hedge) (hclosed oc hocp)
      have h3 := R.height oc
      rw [e]; omega
    · have h2 := I.hpos n hn (hclosed n e)
      have h3 := R.height n
      omega
  · intro p k ho; rw [hcl p] at ho; cases ho
  · intro p k ho; rw [hcl p] at ho; cases ho
  · intro m hqm _
    exact A.hgt m hqm (E.marks m) (fun h => h)
  · intro m hqm
    rw [R.inRch] at hqm
    rw [R.nec]
    rcases I.qnec m hqm with h | ⟨k, h⟩
    · exact Or.inl h
    · by_cases e : m = op'
      · rw [e, hopen] at h; cases h
      · rw [hclosed m e] at h; cases h
  · intro m _ hn hs hex
    rw [R.nec] at hn
    rw [KeyEq2.isStale2 K I.frag] at hs
    rw [R.inRch]
    by_cases e : m = op'
    · rw [e] at hs hex ⊢
      rcases hq hs with h | h
      · exact absurd h hex
      · exact h
    · exact I.queued m (hclosed m e) hn hs hex
  · intro m hqm
    rw [R.inRch] at hqm
    rw [KeyEq2.isStale2 K I.frag]; exact I.qstale m hqm
  · intro m ho; exact absurd (hcl m) ho
  · -- the scope height rule
    intro n b br hv hsc hb hn _
    rw [R.valid] at hv
    rw [R.createdIn] at hsc
    rw [R.binds] at hb
    rw [R.nec] at hn
    have hnl := nec_lt_size hn
    by_cases hd : n ∈ dy
    · -- a dying node: the change detector of its scope is untouched, its own height only grows
      have h1 := A.low br.lhsChange (hdy n hd b br hsc hb)
      have h2 : (s.nodeD br.lhsChange).height < (s.nodeD n).height := by
        by_cases e : n = op'
        · rw [e] at hsc ⊢; exact hscope b br hsc hb
        · exact I.scopeH n b br hv hsc hb hn (hclosed n e)
      have h3 := R.height n
      rw [h1]; omega
    · -- a registered node: a scope pair
      have hreg : n ∈ br.allNodesCreatedOnRhs := by
        rcases (I.frag.gen b br hb n).2 ⟨hnl, hv, hsc⟩ with h | ⟨h, -⟩
        · exact h
        · exact absurd h hd
      exact hfine br.lhsChange n (Or.inr ⟨b, br, hb, rfl, hreg, hn⟩)
  · intro m hv
    rw [R.valid] at hv
    obtain ⟨h1, h2, h3, h4, h5⟩ := I.inv m hv
    refine ⟨by rw [R.parents]; exact h1, by rw [R.nobservers]; exact h2, by rw [R.forceNecessary]; exact h3,
      by rw [R.inRch]; exact h4, hcl m⟩
  · intro m b hsc
    rw [R.createdIn] at hsc
    rw [R.nobservers]; exact I.scopeObs m b hsc
  · intro m b hk
    rw [R.kind] at hk
    rw [R.nobservers]; exact I.lcObs m b hk

end NA

open BA CA NA in
/-- **`adjustHeights` restores the height invariant** (partial correctness, fragment F1).  `op'` is the only open node, all
its child edges are recorded, the edges `oc → op'` are the only height pairs (recorded edges, scope pairs of registered
nodes) that may violate the height rule; no change detector of a dying node's scope is touched.  Also: nodes of rank below
`op'` are untouched. -/
theorem adjustHeights_spec2 {env : Env} {rk : Nat → Nat} {oc op' fuel : Nat} {s s' : State} {op : Nat → Op} {ex : Nat → Prop}
    {dy : List Nat}
    (h : (adjustHeights oc op' fuel).run.run s = (.ok (), s'))
    (I : GInv2 env rk s op ex dy)
    (hopen : op op' = .linking (s.children op').length) (hclosed : ∀ m, m ≠ op' → op m = .closed)
    (hedge : ∃ i, (op', i) ∈ (s.nodeD oc).parents)
    (hother : ∀ c i, (op', i) ∈ (s.nodeD c).parents → c ≠ oc → (s.nodeD c).height < (s.nodeD op').height)
    (hgtop : (s.nodeD op').inRch = true → (s.nodeD op').heightInRch = (s.nodeD op').height)
    (hq : s.isStale op' = true → ex op' ∨ (s.nodeD op').inRch = true)
    (hah : AhhEmpty s)
    (hdy : ∀ m, m ∈ dy → ∀ b br, (s.nodeD m).createdIn = .bind b → s.binds[b]? = some br →
      rk br.lhsChange < rk op')
    (hscope : ∀ b br, (s.nodeD op').createdIn = .bind b → s.binds[b]? = some br →
      (s.nodeD br.lhsChange).height < (s.nodeD op').height) :
    GInv2 env rk s' (upd op op' .closed) ex dy ∧ AhhEmpty s' ∧ HRel s s' ∧
      ∀ m, rk m < rk op' → s'.nodeD m = s.nodeD m := by
  obtain ⟨i0, hedge⟩ := hedge
  have H := loopHyp2 I
  have hocp : oc ≠ op' := by
    have := H.up oc op' (Or.inl ⟨i0, hedge⟩)
    intro e; rw [e] at this; omega
  unfold adjustHeights at h
  rw [run_bind_get] at h
  replace h := bind_dassert_inv h
  replace h := bind_dassert_inv h
  obtain ⟨s1, hs1, h⟩ := bind_modify_inv h
  obtain ⟨_, s2, h2, h⟩ := bind_ok_inv h
  obtain ⟨_, s3, h3, h⟩ := bind_ok_inv h
  rw [run_bind_get] at h
  replace h := bind_dassert_inv h
  have e3 := dassert_ok_inv h
  -- the invariant holds initially, with the edges `oc → op'` still to be looked at
  have hnd1 : ∀ m, s1.nodeD m = s.nodeD m := fun m => by rw [hs1]; rfl
  have E1 : AhhEmpty s1 := by
    rw [hs1]; exact ⟨hah.length, hah.buckets, hah.marks⟩
  have A1 : AInvR rk (HP s) op' s s1 (fun x q => x = oc ∧ q = op') noY := by
    refine ⟨by rw [hs1]; exact HRel.same_nodes rfl rfl, AhhEmpty.wf E1,
      I.heap.congr (by rw [hs1]) (by rw [hs1]) (fun m => by rw [hnd1]), ?_, ?_, ?_, ?_, fun m _ => hnd1 m,
      fun m hmm => absurd (E1.marks m) hmm⟩
    · intro c p hm
      rw [hnd1, hnd1]
      rcases hm with ⟨i, hm⟩ | ⟨b, br, hb, hl, hmem, hn⟩
      · by_cases e : p = op'
        · by_cases ec : c = oc
          · exact Or.inr (Or.inr ⟨ec, e⟩)
          · rw [e] at hm ⊢; exact Or.inl (hother c i hm ec)
        · exact Or.inl (I.hlt c p i hm (hclosed p e))
      · left
        obtain ⟨-, hv, hsc⟩ := reg_scope2 I hb hmem
        rw [← hl]
        by_cases e : p = op'
        · rw [e] at hsc ⊢; exact hscope b br hsc hb
        · exact I.scopeH p b br hv hsc hb hn (hclosed p e)
    · intro c p _ hmc
      exact absurd (E1.marks c) hmc
    · intro m hqm _ _
      rw [hnd1] at hqm ⊢
      by_cases e : m = op'
      · rw [e] at hqm ⊢; exact hgtop hqm
      · exact I.hgt m hqm (hclosed m e)
    · intro m hqm
      rw [hnd1] at hqm ⊢
      by_cases e : m = op'
      · rw [e] at hqm ⊢; rw [hgtop hqm]; exact Int.le_refl _
      · rw [I.hgt m hqm (hclosed m e)]; exact Int.le_refl _
  obtain ⟨A2, -, -⟩ := ehr_step h2 A1 (fun x q hx => hx.1) hocp
    (by rw [hnd1, hs1]; exact Int.le_refl _) (Nat.le_refl _)
  have A2' : AInvR rk (HP s) op' s s2 noXR noY := A2.mono (fun x q _ hx => hx.2 hx.1.2) (fun _ hy => hy)
  obtain ⟨A3, E3⟩ := loop_spec2 H fuel s2 s3 h3 A2'
  rw [e3]
  exact ⟨close2 A3 E3 I hopen hclosed hedge hq hdy hscope, E3, A3.rel, A3.low⟩

end IncrVerif.Proofs.NestH
