import IncrVerif.Proofs.TidyH48
import IncrVerif.Proofs.TidyH36
import IncrVerif.Proofs.TidyH43
/-!
# T4, `addDep` returns (part 2): `stateAddParent` on the opened expert node returns; the headline `addDep_totalX`
-/
namespace IncrVerif.Proofs.TidyH.XT
open IncrVerif.Engine IncrVerif.Driver IncrVerif.Proofs IncrVerif.Proofs.Step IncrVerif.Proofs.Sched
open IncrVerif.Proofs.ExpertH IncrVerif.Proofs.ExpertH.QR

namespace X4i

set_option maxHeartbeats 1000000 in
/-- `stateAddParent c k n` on the opened node `n` (its `k`-th child edge is the new one) RETURNS: the linking cascade,
`adjustHeights`, the (empty) invalidity propagation and the heap insertion.  `s4` is the state before the insertion. -/
theorem sap_totX {env : Env} {rk' : Nat → Nat} {N fuel n c k : Nat} {s2 : State}
    (frr2 : XR.FrR s2) (hA2 : AhhEmpty s2)
    (I2 : GInv (virtEnv env) rk' (virt s2) (upd allClosed n (.linking k)))
    (hb2 : HBd (virt s2) (upd allClosed n (.linking k))) (room2 : Room N (virt s2))
    (hkid2 : (kids ((virt s2).nodeD n).kind)[k]? = some c)
    (hother2 : ∀ c' i, (n, i) ∈ ((virt s2).nodeD c').parents →
      ((virt s2).nodeD c').height < ((virt s2).nodeD n).height)
    (hg2 : ((virt s2).nodeD n).inRch = true → ((virt s2).nodeD n).heightInRch = ((virt s2).nodeD n).height)
    (h02 : 0 ≤ ((virt s2).nodeD n).height)
    (hbn2 : ((virt s2).nodeD n).height ≤ (dp (virt s2) n : Int) + 1)
    (hst2 : staleOf (virt s2) n = true)
    (hf : 3 * s2.nodes.size + 4 ≤ fuel) :
    Tot (stateAddParent env fuel c k n) s2 (fun _ s5 => ∃ s4,
      HBd (virt s4) allClosed ∧ Room N (virt s4) ∧ TK (virt s2) (virt s4) ∧
      n < s4.nodes.size ∧ s4.needsToBeComputed n = true ∧ 0 ≤ (s4.nodeD n).height ∧
      (s4.nodeD n).height ≤ s4.rch.maxAllowed ∧
      (s5 = s4 ∨ ((s4.nodeD n).inRch = false ∧ s5 = inserted n (s4.nodeD n).height s4))) := by
  have hop2 : upd allClosed n (.linking k) n = .linking k := upd_self ..
  have hcn : rk' c < rk' n := I2.kid_lt hkid2
  have hlow : ∀ m, upd allClosed n (.linking k) m ≠ .closed → rk' c < rk' m := by
    intro m hm
    by_cases e : m = n
    · rw [e]; exact hcn
    · rw [upd_other _ _ _ e] at hm; exact absurd rfl hm
  have hnn2 : (virt s2).isNecessary n = true := I2.lnec n k hop2
  have hn2v : n < (virt s2).nodes.size := nec_lt_size hnn2
  have hc2v : c < (virt s2).nodes.size := (I2.static.node n hn2v).kidsIn c (getElem?_mem_kids hkid2)
  have hfuel1 : 2 * dp (virt s2) c + 3 ≤ fuel := by
    have h1 := dp_lt_size I2.static hc2v
    rw [virt_size] at h1
    omega
  unfold stateAddParent
  refine Tot.bind_get ?_
  refine Tot.bind_dassert (fun _ => by rw [← virt_isNecessary]; exact hnn2) ?_
  -- the linking cascade
  obtain ⟨u, t3, hv3, hb3⟩ := addParent_totalR I2 hb2 room2 hop2 hkid2 hlow hfuel1
  obtain ⟨s3, hap, e3, frr3⟩ := XR.SimR.addParentWithoutAdjustingHeights env fuel c k n s2 frr2 u t3 hv3
  rw [e3] at hv3 hb3
  clear e3 t3
  refine Tot.bind_ok hap ?_
  rw [upd_upd] at hb3
  obtain ⟨I3, hn3, cf3, hp3, hedge3, hother3⟩ := link_phase I2 hkid2 hother2 hv3
  have hA3 : AhhEmpty s3 :=
    ahhEmpty_of_ahf hA2 ((PresAh.addParentWithoutAdjustingHeights env fuel c k n).h _ _ _ hap)
  have room3 : Room N (virt s3) := room2.of_cframe cf3
  have K3 : TK (virt s2) (virt s3) := TK.of_cframe cf3
  have hop3 : upd allClosed n (.linking (k + 1)) n = .linking (k + 1) := upd_self ..
  have hg3 : ((virt s3).nodeD n).inRch = true →
      ((virt s3).nodeD n).heightInRch = ((virt s3).nodeD n).height := by rw [hn3]; exact hg2
  have h03 : 0 ≤ ((virt s3).nodeD n).height := by rw [hn3]; exact h02
  have hsz3 : s3.nodes.size = s2.nodes.size := by have := cf3.size; rwa [virt_size, virt_size] at this
  have hn3' : n < s3.nodes.size := by rw [hsz3]; rwa [virt_size] at hn2v
  have hc3' : c < s3.nodes.size := by rw [hsz3]; rwa [virt_size] at hc2v
  have hst3 : staleOf (virt s3) n = true := by
    rw [staleOf_restKey (fun m => restKey_of_nodeKey (cf3.node m)) K3.vars]; exact hst2
  refine Tot.bind_getNode hc3' ?_
  refine Tot.bind_getNode hn3' ?_
  dsimp only
  -- the end of the call, from the state `s4` after the height phase
  have fin : ∀ s4, XR.FrR s4 → GInv (virtEnv env) rk' (virt s4) (upd allClosed n (.linking (k + 1))) →
      (∀ m, (virt s4).isNecessary m = true → ((virt s4).nodeD m).height ≤ (dp (virt s4) m : Int) + 1) →
      Room N (virt s4) → TK (virt s3) (virt s4) →
      (∀ m, restKey ((virt s4).nodeD m) = restKey ((virt s3).nodeD m)) →
      0 ≤ ((virt s4).nodeD n).height →
      Tot (do propagateInvalidity fuel
              dassert ((← get).isNecessary n) "node:state_add_parent:parent-necessary"
              let p ← getNode n
              let c ← getNode c
              if !p.inRch && (p.recomputedAt == -1 || c.changedAt > p.recomputedAt) then
                rchInsert n : M Unit) s4 (fun _ s5 => ∃ s4,
        HBd (virt s4) allClosed ∧ Room N (virt s4) ∧ TK (virt s2) (virt s4) ∧
        n < s4.nodes.size ∧ s4.needsToBeComputed n = true ∧ 0 ≤ (s4.nodeD n).height ∧
        (s4.nodeD n).height ≤ s4.rch.maxAllowed ∧
        (s5 = s4 ∨ ((s4.nodeD n).inRch = false ∧ s5 = inserted n (s4.nodeD n).height s4))) := by
    intro s4 frr4 I4 hbd4 room4 K4 hrk4 h04
    have hnn4 : (virt s4).isNecessary n = true := I4.lnec n _ hop3
    have hn4v : n < (virt s4).nodes.size := nec_lt_size hnn4
    have hn4 : n < s4.nodes.size := by rwa [virt_size] at hn4v
    have hc4 : c < s4.nodes.size := by
      have := K4.size; rw [virt_size, virt_size] at this; rw [this]; exact hc3'
    have hst4 : staleOf (virt s4) n = true := by rw [staleOf_restKey hrk4 K4.vars]; exact hst3
    have hnec4 : s4.isNecessary n = true := by rw [← virt_isNecessary]; exact hnn4
    have hstale : s4.isStale n = true := by rw [← virt_isStale, GInv.isStale I4 hn4v]; exact hst4
    have hntc : s4.needsToBeComputed n = true := by
      unfold State.needsToBeComputed; rw [hstale, hnec4]; rfl
    have h04' : 0 ≤ (s4.nodeD n).height := by rw [virt_nodeD] at h04; exact h04
    have hmax : (s4.nodeD n).height ≤ s4.rch.maxAllowed := by
      have h1 := hbd4 n hnn4
      rw [virt_nodeD] at h1
      have h1' : (s4.nodeD n).height ≤ (dp (virt s4) n : Int) + 1 := h1
      have h2 := dp_room I4.static room4 hn4v
      have h3 : s4.rch.maxAllowed = (N : Int) := room4.rch
      omega
    refine (sap_tail_tot frr4.fr.pinv (by omega) hn4 hc4 hnec4 hntc h04' hmax).mono ?_
    intro _ s5 h5
    exact ⟨s4, fun m hm _ => hbd4 m hm, room4, K3.trans K4, hn4, hntc, h04', hmax, h5⟩
  by_cases hge : (s3.nodeD c).height ≥ (s3.nodeD n).height
  · rw [if_pos hge]
    have hge' : ((virt s3).nodeD n).height ≤ ((virt s3).nodeD c).height := by
      rw [virt_nodeD, virt_nodeD]; exact hge
    obtain ⟨u4, t4, hv4, I4, -, hr, -, -, -, hbd4, room4⟩ := adjustHeights_totalR I3 hb3 room3 ⟨_, hop3⟩
      (fun m hm => upd_other _ _ _ hm) ⟨_, hedge3⟩ hother3 hg3 (ahhEmpty_virt.2 hA3) hge' h03
      (fuel := fuel) (by rw [virt_size]; omega)
    obtain ⟨s4, hadj, e4, frr4⟩ := XR.SimR.adjustHeights c n fuel s3 frr3 u4 t4 hv4
    rw [e4] at I4 hr hbd4 room4
    refine Tot.bind_ok hadj (fin s4 frr4 I4 hbd4 room4 (TK.of_hrel hr) (fun m => restKey_of_nodeKey (hr.node m))
      (Int.le_trans h03 (hr.height n)))
  · rw [if_neg hge]
    refine fin s3 frr3 I3 ?_ room3 (TK.refl _) (fun _ => rfl) h03
    intro m hm
    by_cases e : m = n
    · rw [e, hn3, dp_of_cframe cf3]; exact hbn2
    · exact hb3 m hm (upd_other _ _ _ e)

/-! ## the node is necessary -/

set_option maxHeartbeats 1000000 in
theorem addDep_totalX_nec {env : Env} {rk : Nat → Nat} {N fuel n c e : Nat} {cb : Bool} {s : State} {nd : Node}
    {er : ExpertRec} (Q : QInvX env rk s) (T : TInvX N s) (hx : Xp.IsExpert s n nd e er)
    (hnec : nd.isNecessary = true) (hc : c < s.nodes.size) (hacyc : ¬ Below s c n)
    (hf : 3 * s.nodes.size + 4 ≤ fuel) :
    ∃ dep s', (expertAddDependency env fuel n c cb).run.run s = (.ok dep, s') ∧ (∃ rk', QInvX env rk' s') ∧
      TInvX N s' ∧ s'.nodes.size = s.nodes.size ∧ s'.vars.size = s.vars.size ∧
      s'.observers.size = s.observers.size ∧ s'.top = s.top := by
  have F := Q.frag
  have Qv := Q.q
  have hD : s.nodeD n = nd := nodeD_of_some hx.node
  have hk : (s.nodeD n).kind = .expert e := by rw [hD]; exact hx.kind
  have hfac := expertAddDependency_necessary_factor env fuel n c cb hx hnec
  obtain ⟨rk', A2⟩ := allStatic_added (cb := cb) F Qv.struct.static hk hx.xrec hc hacyc
  have R := rekind_added (c := c) (cb := cb) F hk hx.xrec
  have F2 : XFrag env (addedState e er c cb s) := F.added hx.xrec
  have hnn : (virt s).isNecessary n = true := by
    rw [virt_isNecessary]; simp only [State.isNecessary, hD]; exact hnec
  have hkids0 : kids ((virt s).nodeD n).kind = er.children.map (·.child) := virt_kids_expert hk hx.xrec
  have hst2 := staleOf_added R
  have I2 := GInv.open_extend Qv.struct R A2 hnn (c := c) (by rw [hkids0]; rfl) hst2
  have hklen : (kids ((virt s).nodeD n).kind).length = er.children.length := by rw [hkids0, List.length_map]
  rw [hklen] at I2
  have hmem : ∀ x, x ∈ kids ((virt s).nodeD n).kind → x ∈ kids (addedKind er c) := by
    intro x hx'
    rw [hkids0] at hx'
    rw [kids_addedKind]
    exact List.mem_append_left _ hx'
  have hb2 : HBd (virt (addedState e er c cb s)) (upd allClosed n (.linking er.children.length)) :=
    HBd_rekind T.hb R hmem (fun _ _ => rfl)
  have room2 : Room N (virt (addedState e er c cb s)) := Room.of_rekind T.room R rfl
  have K2 : TK (virt s) (virt (addedState e er c cb s)) := TK.of_rekind R
  have hbn2 : ((virt (addedState e er c cb s)).nodeD n).height ≤
      (dp (virt (addedState e er c cb s)) n : Int) + 1 := by
    rw [R.height]
    have h1 := T.hb n hnn rfl
    have h2 := dp_le_rekind R hmem n
    omega
  have hA2 : AhhEmpty (addedState e er c cb s) := ahhEmpty_of_ahf Q.ahh (AhF.of_nodes rfl rfl)
  generalize hs2 : addedState e er c cb s = s2 at hfac R F2 A2 I2 hst2 hb2 room2 K2 hbn2 hA2
  have hkind2 : ((virt s2).nodeD n).kind = addedKind er c := R.kind_self
  have hkid2 : (kids ((virt s2).nodeD n).kind)[er.children.length]? = some c := by
    rw [hkind2, kids_addedKind]
    rw [List.getElem?_append_right (by rw [List.length_map]; exact Nat.le_refl _)]
    simp
  have hother2 : ∀ c' i, (n, i) ∈ ((virt s2).nodeD c').parents →
      ((virt s2).nodeD c').height < ((virt s2).nodeD n).height := by
    intro c' i hm
    rw [R.parents] at hm
    rw [R.height, R.height]; exact Qv.struct.hlt c' n i hm rfl
  have hg2 : ((virt s2).nodeD n).inRch = true → ((virt s2).nodeD n).heightInRch = ((virt s2).nodeD n).height := by
    intro hq
    rw [R.inRch] at hq
    rw [R.heightInRch, R.height]; exact Qv.struct.hgt n hq rfl
  have h02 : 0 ≤ ((virt s2).nodeD n).height := by rw [R.height]; exact Qv.struct.hpos n hnn rfl
  have QR2 : QRest (virtEnv env) (virt s2) :=
    QRest.rekind (QInv.rest Qv) R hst2 (fun c' => by simp [addedKind])
      (fun c' => by rw [virt_nodeD, virtNode_kind, hk]; simp [virtKind])
  have hp2 : s2.propagateInvalidity = [] := QR2.pinv
  have frr2 : XR.FrR s2 := XR.FrR.of_frag F2 hp2
  have hsz2 : s2.nodes.size = s.nodes.size := by have := R.size; rwa [virt_size, virt_size] at this
  -- the run
  have T5 : Tot (do stateAddParent env fuel c er.children.length n
                    dassert ((← get).needsToBeComputed n) "node:expert_add_dependency:needs-to-be-computed"
                    if !(← getNode n).inRch then rchInsert n
                    pure s.nextDep : M Nat) s2 (fun _ s' => TInvX N s' ∧ Same s s') := by
    refine Tot.bind (sap_totX frr2 hA2 I2 hb2 room2 hkid2 hother2 hg2 h02 hbn2 hst2 (by rw [hsz2]; exact hf)) ?_
    rintro _ s5 - ⟨s4, hb4, room4, K4, hn4, hntc4, h04, hmax4, h5⟩
    have T4 : TInvX N s4 := TInvR.of_tk T (K2.trans K4) hb4 room4
    have S4 : Same s s4 := same_of_tk (K2.trans K4)
    rcases h5 with rfl | ⟨hq, rfl⟩
    · refine (expert_tail_tot hn4 hntc4 (fun _ => ⟨h04, hmax4⟩)).mono ?_
      rintro _ s' (⟨-, rfl⟩ | ⟨-, rfl⟩)
      · exact ⟨T4, S4⟩
      · exact ⟨tinvX_inserted T4, S4.inserted _ _⟩
    · have hq5 : ((inserted n (s4.nodeD n).height s4).nodeD n).inRch = true :=
        IncrVerif.Proofs.ExpertH.inserted_inRch hn4 h04
      refine (expert_tail_tot (s5 := inserted n (s4.nodeD n).height s4) (by rw [inserted_size]; exact hn4)
        (by rw [inserted_needsToBeComputed]; exact hntc4) (fun h => by rw [hq5] at h; cases h)).mono ?_
      rintro _ s' (⟨-, rfl⟩ | ⟨hq', -⟩)
      · exact ⟨tinvX_inserted T4, S4.inserted _ _⟩
      · rw [hq5] at hq'; cases hq'
  obtain ⟨dep, s', hrun, hT, hS⟩ := T5
  have hrun0 : (expertAddDependency env fuel n c cb).run.run s = (.ok dep, s') := by rw [hfac]; exact hrun
  obtain ⟨rk'', F', Q', A'⟩ := addDep_nec F Qv Q.ahh hx hnec hc hacyc hrun0
  exact ⟨dep, s', hrun0, ⟨rk'', ⟨F', Q', A'⟩⟩, hT, hS⟩

end X4i

/-- **`addDep` returns** on the states of the expert fragment X1 (the new edge closes no cycle, `3 * #nodes + 4` fuel),
and keeps the invariant between actions and the extra invariant `TInvX` -/
theorem addDep_totalX {env : Env} {rk : Nat → Nat} {N fuel n c e : Nat} {cb : Bool} {s : State} {nd : Node}
    {er : ExpertRec} (Q : QInvX env rk s) (T : TInvX N s) (hx : Xp.IsExpert s n nd e er)
    (hc : c < s.nodes.size) (hacyc : ¬ Below s c n) (hf : 3 * s.nodes.size + 4 ≤ fuel) :
    ∃ dep s', (expertAddDependency env fuel n c cb).run.run s = (.ok dep, s') ∧ (∃ rk', QInvX env rk' s') ∧
      TInvX N s' ∧ s'.nodes.size = s.nodes.size ∧ s'.vars.size = s.vars.size ∧
      s'.observers.size = s.observers.size ∧ s'.top = s.top := by
  cases hnec : nd.isNecessary
  · exact X4i.addDep_totalX_unnec Q T hx hnec hc hacyc
  · exact X4i.addDep_totalX_nec Q T hx hnec hc hacyc hf

end IncrVerif.Proofs.TidyH.XT
