import IncrVerif.Proofs.DriverH8
import IncrVerif.Proofs.DriverH9
import IncrVerif.Proofs.DriverH17
import IncrVerif.Proofs.DriverH22
import IncrVerif.Proofs.DriverH25
import IncrVerif.Proofs.DriverH27
import IncrVerif.Proofs.DriverH30
import IncrVerif.Proofs.DriverH31
import IncrVerif.Proofs.DriverH34
import IncrVerif.Proofs.DriverH36
import IncrVerif.Proofs.DriverH38
/-!
# Drivers: the assembly — every contract of `DriverH4`–`DriverH6` instantiated (no hypotheses left)
-/
namespace IncrVerif.Proofs.DriverH
open IncrVerif.Engine IncrVerif.Driver IncrVerif.Proofs IncrVerif.Proofs.Step IncrVerif.Proofs.Sched
open IncrVerif.Proofs.ExpertH IncrVerif.Proofs.ExpertH.QR IncrVerif.Proofs.EffH

/-- the effect list of a driver, from `Mid` to `Mid` -/
theorem effects_spec (env : Env) : EffectsSpec env := effectsSpec env (addSpec _) (rmSpec _) (staleSpec _)

/-- one `recomputeOne` of a user `map` node (a driver) -/
theorem stepMap_spec (env : Env) : StepMapSpec env :=
  stepMapSpec env (effects_spec env) (midOfDInv _) (stepWOfMid _)

/-- one `recomputeOne` of the drain -/
theorem step_spec (env : Env) : StepSpec env := stepSpec_of (stepMap_spec env) (stepOtherSpec env)

theorem pop_spec (env : Env) : PopSpec env := popSpec env

/-- the drain -/
theorem drain_spec (env : Env) : DrainSpec env := drainSpec env (step_spec env) (pop_spec env)

/-- `stabilise` -/
theorem stab_spec (env : Env) : StabSpec env := stabSpec env (drain_spec env)

end IncrVerif.Proofs.DriverH
