import IncrVerif.Proofs.PerKeyH19
import IncrVerif.Proofs.PerKeyH20
import IncrVerif.Proofs.PerKeyH21
/-! # twin simulation, part 6: `became_necessary_propagate`, `state_add_parent`, the notification walk, part 2 (port of ExpertH28) -/
namespace IncrVerif.Proofs.PerKeyH
open IncrVerif.Engine IncrVerif.Driver IncrVerif.Proofs IncrVerif.Proofs.Step IncrVerif.Proofs.Sched
open IncrVerif.Proofs.ExpertH IncrVerif.Proofs.EffH

theorem TSim.becameNecessaryPropagate (env : Env) (fuel n : Nat) :
    TSim (Engine.becameNecessaryPropagate env fuel n) (Engine.becameNecessaryPropagate (twEnv env) fuel n) := by
  apply TSim.ofL; intro s l; unfold Engine.becameNecessaryPropagate; tsim
macro_rules | `(tactic| tsim_leaf) => `(tactic|
  with_reducible exact IncrVerif.Proofs.PerKeyH.TSim.becameNecessaryPropagate _ _ _)

theorem TSim.maybeChangeValueManual (env : Env) (fuel n : Nat) (o : Option Val) (did b : Bool) :
    TSim (Engine.maybeChangeValueManual env fuel n o did b)
      (Engine.maybeChangeValueManual (twEnv env) fuel n o did b) := by
  apply TSim.ofL; intro s l
  unfold Engine.maybeChangeValueManual
  tsim
  split <;> tsim
macro_rules | `(tactic| tsim_leaf) => `(tactic|
  with_reducible exact IncrVerif.Proofs.PerKeyH.TSim.maybeChangeValueManual _ _ _ _ _ _)

theorem TSim.maybeChangeValue (env : Env) (fuel n : Nat) (v : Val) :
    TSim (Engine.maybeChangeValue env fuel n v) (Engine.maybeChangeValue (twEnv env) fuel n v) := by
  apply TSim.ofL; intro s l
  unfold Engine.maybeChangeValue
  tsim
  split <;> tsim
macro_rules | `(tactic| tsim_leaf) => `(tactic|
  with_reducible exact IncrVerif.Proofs.PerKeyH.TSim.maybeChangeValue _ _ _ _)

theorem TSim.stateAddParent (env : Env) (fuel c i p : Nat) :
    TSim (Engine.stateAddParent env fuel c i p) (Engine.stateAddParent (twEnv env) fuel c i p) := by
  apply TSim.ofL; intro s l; unfold Engine.stateAddParent; tsim
macro_rules | `(tactic| tsim_leaf) => `(tactic|
  with_reducible exact IncrVerif.Proofs.PerKeyH.TSim.stateAddParent _ _ _ _ _)

end IncrVerif.Proofs.PerKeyH
