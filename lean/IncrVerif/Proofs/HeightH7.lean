import IncrVerif.Proofs.HeightH5
import IncrVerif.Proofs.HeightH6
/-!
# C19 for whole histories, part 5: `stabilise` returns iff the heights it has to set are within the limit
-/
namespace IncrVerif.Proofs.HeightH
open IncrVerif.Engine IncrVerif.Driver IncrVerif.Proofs IncrVerif.Proofs.Step IncrVerif.Proofs.Sched
open IncrVerif.Proofs.Quiet IncrVerif.Proofs.Quiet.P12

/-- **`stabilise`, exactly** (static fragment, enough fuel).  It returns iff the greatest static height among the
nodes of the observers waiting to be added is within the limit; then the invariants hold again and
`maxHeightSeen = max old (pendingNeed s)`.  Otherwise it panics with `"height-limit"` (no other panic) while adding
the observers: `maxHeightSeen = N + 1` and the status stays `stabilising` (the engine is poisoned). -/
theorem stabilise_out {env : Env} {N fuel : Nat} {s : State} (Q : QInv env s) (T : TInvH N s)
    (hf : 3 * s.nodes.size + 4 ≤ fuel) :
    Out (stabilise env fuel) s
      (fun _ s' => pendingNeed s ≤ N ∧ TInvH N s' ∧
        s'.maxHeightSeen = max s.maxHeightSeen (pendingNeed s : Int) ∧ s'.nodes.size = s.nodes.size ∧
        (∀ m, (s'.nodeD m).kind = (s.nodeD m).kind))
      (fun s' => N < pendingNeed s ∧ s'.maxHeightSeen = (N : Int) + 1 ∧ s'.status = .stabilising) := by
  have hst : (s.status == Status.notStabilising) = true := by rw [Q.status]; rfl
  unfold stabilise
  refine Out.bind_get ?_
  refine Out.bind_ok (show (assertM (s.status == Status.notStabilising)
      "state:stabilise:status").run.run s = (.ok (), s) by rw [run_assertM, hst]; rfl) ?_
  -- the state with the status set
  refine Out.bind_modify (fun s0 hs0 => ?_)
  have hnd0 : ∀ m, s0.nodeD m = s.nodeD m := fun m => by rw [hs0]; rfl
  have hsz0 : s0.nodes.size = s.nodes.size := by rw [hs0]
  have hseen0 : s0.maxHeightSeen = s.maxHeightSeen := by rw [hs0]
  have hkind0 : ∀ m, (s0.nodeD m).kind = (s.nodeD m).kind := fun m => by rw [hnd0]
  have hpn0 : pendingNeed s0 = pendingNeed s := by
    have : obsNeed s0 = obsNeed s := by
      funext o
      have ho : s0.observers = s.observers := by rw [hs0]
      simp only [obsNeed, ho, needH_congr hkind0]
    unfold pendingNeed needsOf
    rw [this, show s0.newObservers = s.newObservers by rw [hs0]]
  have S0 : SInv env s0 s0.newObservers s0.disallowedObservers := by
    rw [hs0]
    exact ⟨Q.struct.congr (SameG.of_nodes rfl rfl rfl rfl rfl),
      ⟨Q.obs.inRange, Q.obs.mem, Q.obs.created, Q.obs.newIn, Q.obs.dis, Q.obs.disIn, Q.obs.disNodup⟩,
      Q.pinv, Q.handlers⟩
  have hb0 : HEx s0 allClosed :=
    T.hx.transfer hkind0 (by rw [hseen0]; exact Int.le_refl _)
      (fun m hm ho => ⟨by rw [State.isNecessary, ← hnd0]; exact hm, ho, by rw [hnd0]⟩)
  have R0 : RoomH N s0 := by rw [hs0]; exact ⟨T.room.ahh, T.room.rch, T.room.seen, T.room.seen0⟩
  have hf1 : 2 * s0.nodes.size + 2 ≤ fuel := by rw [hsz0]; omega
  -- the first loop: returns or panics with the height diagnostic
  have A := addNewObservers_out (fuel := fuel) (env := env) S0 hb0 R0
    (by rw [hs0]; exact T.newNodup) (by rw [hs0]; exact T.newState) hf1
  rw [hpn0, hseen0] at A
  refine Out.bind' A (fun t' ⟨p1, p2, p3⟩ => ⟨p1, p2, by rw [p3, hs0]⟩) (fun _ t1 h1 ⟨q1, hb1, hseen1⟩ => ?_)
  obtain ⟨S1, hn1, hd1, F1, O1, N1⟩ := addNewObservers_s S0 h1
  have h01 : 0 ≤ t1.maxHeightSeen := by rw [hseen1]; have := T.room.seen0; omega
  -- the second loop
  have hf2 : 3 * t1.nodes.size + 3 ≤ fuel := by rw [F1.size, hsz0]; omega
  obtain ⟨_, t2, h2, hb2, hseen2⟩ := unlinkDisallowedObservers_totalH (fuel := fuel) S1 hn1 hb1 h01 hf2
  obtain ⟨S2, hn2, hd2, F2, O2⟩ := unlinkDisallowedObservers_s S1 hn1 h2
  have F : PFrame s0 t2 := F1.trans F2
  have hseenN : t2.maxHeightSeen ≤ (N : Int) := by
    rw [hseen2, hseen1]; have := T.room.seen; omega
  have R2 : RoomH N t2 := P4.roomH_of_pframe R0 F (by rw [hseen2, hseen1, hseen0]; omega) hseenN
  obtain ⟨D2, V2⟩ := prefix_drainInv Q hs0 S2 F
  -- the drain
  have Sf : Safe t2 := by
    refine ⟨fun n hn => ?_, fun n hn => (GInv.node S2.struct (nec_lt_size hn)).top⟩
    have h1 := hb2 n hn rfl
    rw [R2.rch, h1.1]; omega
  have hf3 : t2.nodes.size + 2 ≤ fuel := by rw [F.size, hsz0]; omega
  obtain ⟨t3, h3, D3, he3, f3, -⟩ := drainHeap_total_values D2 Sf hf3
  have c3 := drainHeap_calm fuel t2 t3 D2 h3
  have k3 := drainHeap_keyD D2 h3
  have hseen3 := drainHeap_seen D2 h3
  simp only [stateKeyD, Prod.mk.injEq] at k3
  obtain ⟨k_obs, -, -, k_top, -, -, -, -, -, -, k_ahh⟩ := k3
  -- the end
  have hnum2 : ∀ m, (t2.nodeD m).numOnUpdateHandlers ≤ 0 := S2.handlers
  have hhas0 : HasRange s0 := by
    intro n hn; rw [hs0] at hn
    have : s.handleAfterStab = [] := Q.handleAfterStab
    rw [show ({ s with status := Status.stabilising } : State).handleAfterStab = s.handleAfterStab from rfl,
      this] at hn
    cases hn
  have hhas2 : HasRange t2 :=
    unlinkDisallowedObservers_hasRange h2 (addNewObservers_hasRange h1 hhas0)
  have hhas3 : HasRange t3 := by
    intro n hn
    rw [c3.has hnum2] at hn
    rw [f3.size]; exact hhas2 n hn
  have hsd3 : t3.setDuringStab = [] := by rw [c3.setDuringStab, F.setDuringStab, hs0]; exact Q.setDuringStab
  have hdv3 : t3.deadVars = [] := by rw [c3.deadVars, F.deadVars, hs0]; exact Q.deadVars
  have hobs3 : ∀ (o : Nat) (ob : ObsRec), t3.observers[o]? = some ob → ob.handlers = [] := by
    intro o ob ho; rw [k_obs] at ho; exact (S2.obs.inRange o ob ho).2
  obtain ⟨_, s', h4, -⟩ := stabiliseEnd_total (env := env) (fuel := fuel) (s := t3) hsd3 hdv3 hobs3
    hhas3
    (by
      intro n o ho
      rw [(f3.shape n).observers] at ho
      obtain ⟨ob, hob, -⟩ := (S2.obs.mem n o).1 ho
      rw [k_obs]
      exact (Array.getElem?_eq_some_iff.1 hob).1)
  have E := stabiliseEnd_fin (env := env) (fuel := fuel) (s := t3) (s' := s') hsd3 hdv3 hobs3 h4
  have hseen4 := stabiliseEnd_seen (env := env) (fuel := fuel) hsd3 hdv3 hobs3 h4
  refine Out.bind_ok h2 (Out.bind_ok h3 (Out.of_ok h4 ?_))
  -- the invariant at the end
  have hE : ∀ m, NodeG (t3.nodeD m) (s'.nodeD m) := by
    intro m
    obtain ⟨b, hb⟩ := E.node m
    rw [hb]
    exact ⟨rfl, rfl, rfl, rfl, rfl, rfl, rfl, rfl, rfl, rfl, rfl⟩
  have hnec' : ∀ m, s'.isNecessary m = t2.isNecessary m := fun m => by
    have G3 : SameG t3 s' := ⟨E.pc, E.scope, E.size, E.rch, E.vars, hE⟩
    rw [G3.nec, f3.nec]
  have hsize' : s'.nodes.size = s.nodes.size := by rw [E.size, f3.size, F.size, hsz0]
  have hseen' : s'.maxHeightSeen = t2.maxHeightSeen := by rw [hseen4, hseen3]
  have hkind2 : ∀ m, (s'.nodeD m).kind = (t2.nodeD m).kind := fun m => by
    rw [(hE m).kind, (f3.shape m).kind]
  have hahh2 : t2.ahh = s0.ahh := by
    have hk := F.key
    simp only [stateKeyP, Prod.mk.injEq] at hk
    exact hk.2.2.2.2.2.2.2.2.2.2.2.1
  refine ⟨q1, ⟨?_, ⟨?_, ?_, ?_, ?_⟩, ?_, ?_, ?_, ?_, ?_⟩, ?_, hsize', ?_⟩
  · refine hb2.transfer hkind2 (by rw [hseen']; exact Int.le_refl _) (fun m hm ho => ?_)
    exact ⟨by rw [← hnec']; exact hm, ho, by rw [(hE m).height, (f3.shape m).height]⟩
  · rw [E.ahh, k_ahh]; exact R2.ahh
  · rw [E.rch, ← R2.rch]; exact maxAllowed_congr f3.qsize
  · rw [hseen']; exact hseenN
  · rw [hseen']; exact R2.seen0
  · rw [E.ahh, k_ahh, hahh2, hs0]; exact T.ahh0
  · intro c vc hc
    rw [E.vars, f3.vars, F.vars, hs0] at hc
    exact T.linked c vc hc
  · rw [E.top, k_top, F.top, hs0, hsize']; exact T.topSize
  · rw [E.newObservers, c3.newObservers, hn2]; exact List.nodup_nil
  · intro o ob ho
    rw [E.newObservers, c3.newObservers, hn2] at ho; cases ho
  · rw [hseen', hseen2, hseen1]
  · intro m
    rw [hkind2, PFrame.kind F, hkind0]

end IncrVerif.Proofs.HeightH
