import IncrVerif.Proofs.AuditF2
import IncrVerif.Proofs.HeightH12
/-!
# C11, part 4: the static core WITH the height-limit clause

For the static fragment of `C01History`/`C19History` (extended by `setMaxHeight`) the exact-height invariant `HeightH.TInvH` of `C19History` supplies the clause of C11 that
`Audit` lacks: every needed node is WITHIN THE HEIGHT LIMIT of both heaps.  (`ValidHist M`: the indices used by the actions exist; `M` is arbitrary.)
-/
namespace IncrVerif.Proofs.AuditF
open IncrVerif.Engine IncrVerif.Driver IncrVerif.Proofs IncrVerif.Proofs.Step IncrVerif.Proofs.Sched IncrVerif.Proofs.Quiet
open IncrVerif.Proofs.HeightH

/-- **C11 incl. the height limit, static core**: every state reached by a static history (that returns) passes the audit, and every needed node's height is at most the
limit of both heaps (and at most the largest height seen) -/
theorem history_audit_static_limit {env : Env} {N M : Nat} {d : Bool} {acts : List Action} {s : State} {tk : Array Nat}
    (ha : ∀ a, a ∈ acts → Quiet.StaticAction env a) (hv : ValidHist M 0 0 0 acts)
    (h : Quiet.runActions env acts (State.init N d) #[] = .ok (s, tk)) :
    Audit s ∧ ∀ n, s.isNecessary n = true →
      (s.nodeD n).height ≤ s.maxHeightSeen ∧ s.maxHeightSeen ≤ s.rch.maxAllowed ∧ s.maxHeightSeen ≤ s.ahh.maxAllowed := by
  refine ⟨history_audit_static ha h, fun n hn => ?_⟩
  obtain ⟨-, T, -⟩ := runActions_inv (qinv_init env N d) (hinv_init N d) (fun a h' => Or.inl (ha a h')) hv h
  have h1 := T.hx n hn rfl
  have h2 := T.room.seen
  refine ⟨by rw [h1.1]; exact h1.2, by rw [T.room.rch]; exact h2, by rw [T.room.ahh]; exact h2⟩

end IncrVerif.Proofs.AuditF
