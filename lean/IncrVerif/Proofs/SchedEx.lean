import IncrVerif.Proofs.Sched1
/-!
# A concrete state satisfying the drain invariant (non-vacuity witness)
-/
namespace IncrVerif.Proofs.Sched
open IncrVerif.Engine IncrVerif.Proofs IncrVerif.Proofs.Step

/-- round 1 of a three-node graph, just before `drainHeap`: node 0 = var (cell 0, old value 1, the cell
now holds 4, written in this round), node 1 = `map f0 [0]`, node 2 = `map f0 [0, 1]` (observed);
`f0` = sum of the integer views.  Node 0 is stale and queued at height 0. -/
def exD : State :=
  { State.init 3 with
    nodes := #[
      { kind := .var 0, createdIn := .top, value := some (.int 1), recomputedAt := 0, changedAt := 0,
        height := 0, heightInRch := 0, parents := [(1, 0), (2, 0)] },
      { kind := .map 0 [0], createdIn := .top, value := some (.int 1), recomputedAt := 0, changedAt := 0,
        height := 1, parents := [(2, 1)] },
      { kind := .map 0 [0, 1], createdIn := .top, value := some (.int 2), recomputedAt := 0,
        changedAt := 0, height := 2, observers := [0], cutoff := .never }],
    vars := #[{ value := .int 4, setAt := 1, node := 0 }],
    rch := { queues := #[[0], [], [], []], length := 1, lowerBound := 0 },
    stabNum := 1, status := .stabilising }

theorem cases3 (P : Nat → Prop) (h0 : P 0) (h1 : P 1) (h2 : P 2) (h3 : ∀ m, 3 ≤ m → P m) :
    ∀ m, P m := by
  intro m
  match m with
  | 0 => exact h0
  | 1 => exact h1
  | 2 => exact h2
  | m + 3 => exact h3 _ (by omega)

theorem exD_ge (m : Nat) (h : 3 ≤ m) : exD.nodeD m = default :=
  nodeD_default_of_ge exD m h

theorem exD_static (n : Nat) (h : n < 3) : StaticKind exEnv (exD.nodeD n).kind := by
  match n, h with
  | 0, _ => exact True.intro
  | 1, _ => exact ⟨by decide, fun _ _ => rfl⟩
  | 2, _ => exact ⟨by decide, fun _ _ => rfl⟩

theorem exD_graph : Graph exEnv exD where
  pc := rfl
  nec := by
    refine cases3 _ ?_ ?_ ?_ ?_
    · intro _; exact ⟨by decide, rfl, exD_static 0 (by omega), Or.inl rfl, by decide⟩
    · intro _; exact ⟨by decide, rfl, exD_static 1 (by omega), Or.inl rfl, by decide⟩
    · intro _; exact ⟨by decide, rfl, exD_static 2 (by omega), Or.inr rfl, by decide⟩
    · intro m hm h; rw [State.isNecessary, exD_ge m hm] at h; cases h
  var := by
    refine cases3 _ ?_ ?_ ?_ ?_
    · intro c _ hk; cases hk; exact ⟨_, rfl⟩
    · intro c _ hk; cases hk
    · intro c _ hk; cases hk
    · intro m hm c h; rw [State.isNecessary, exD_ge m hm] at h; cases h
  child := by
    refine cases3 _ ?_ ?_ ?_ ?_
    · intro _ i c h; simp [exD, State.nodeD, kids] at h
    · intro _ i c h
      match i with
      | 0 => cases h; exact ⟨rfl, by decide, by decide⟩
      | i + 1 => simp [exD, State.nodeD, kids] at h
    · intro _ i c h
      match i with
      | 0 => cases h; exact ⟨rfl, by decide, by decide⟩
      | 1 => cases h; exact ⟨rfl, by decide, by decide⟩
      | i + 2 => simp [exD, State.nodeD, kids] at h
    · intro m hm h; rw [State.isNecessary, exD_ge m hm] at h; cases h
  parent := by
    refine cases3 _ ?_ ?_ ?_ ?_
    · intro p i h
      have : (p, i) = (1, 0) ∨ (p, i) = (2, 0) := by simpa [exD, State.nodeD] using h
      rcases this with h | h <;> cases h <;> exact ⟨rfl, rfl⟩
    · intro p i h
      have : (p, i) = (2, 1) := by simpa [exD, State.nodeD] using h
      cases this; exact ⟨rfl, rfl⟩
    · intro p i h; simp [exD, State.nodeD] at h
    · intro m hm p i h; rw [exD_ge m hm] at h; cases h

theorem exD_inRch : ∀ m, (exD.nodeD m).inRch = true → m = 0 := by
  refine cases3 _ ?_ ?_ ?_ ?_
  · intro _; rfl
  · intro h; cases h
  · intro h; cases h
  · intro m hm h; rw [exD_ge m hm] at h; cases h

theorem exD_bucket (h : Nat) (hh : h < exD.rch.queues.size) :
    exD.rch.queues[h] = if h = 0 then [0] else [] := by
  have h4 : h < 4 := hh
  match h, hh, h4 with
  | 0, _, _ => rfl
  | 1, _, _ => rfl
  | 2, _, _ => rfl
  | 3, _, _ => rfl

theorem exD_heapWF : HeapWF exD where
  mem := by
    intro h hh n
    rw [exD_bucket h hh]
    revert n
    refine cases3 _ ?_ ?_ ?_ ?_
    · by_cases e : h = 0
      · subst e; decide
      · simp only [e, if_false]
        constructor
        · intro h'; cases h'
        · intro ⟨_, h'⟩
          have : (0 : Int) = (h : Int) := h'
          omega
    · constructor
      · intro h'; split at h' <;> simp at h'
      · intro ⟨_, h'⟩
        have : (-1 : Int) = (h : Int) := h'
        omega
    · constructor
      · intro h'; split at h' <;> simp at h'
      · intro ⟨_, h'⟩
        have : (-1 : Int) = (h : Int) := h'
        omega
    · intro m hm
      constructor
      · intro h'; split at h' <;> simp at h' <;> omega
      · intro ⟨h', _⟩
        have : m < 3 := h'
        omega
  nodup := by
    intro h hh
    rw [exD_bucket h hh]
    split <;> simp
  length := by decide
  range := by
    intro n hn
    have hn' : n < 3 := hn
    match n, hn' with
    | 0, _ => right; decide
    | 1, _ => left; rfl
    | 2, _ => left; rfl

theorem exD_heap : HeapInv exD where
  wf := exD_heapWF
  hgt m h := by cases exD_inRch m h; rfl
  lb m h := by cases exD_inRch m h; decide
  lb0 := by decide
  nec m h := by cases exD_inRch m h; rfl

theorem exD_stale : ∀ m, exD.isNecessary m = true → exD.isStale m = true → m = 0 := by
  refine cases3 _ ?_ ?_ ?_ ?_
  · intro _ _; rfl
  · intro _ h; revert h; decide
  · intro _ h; revert h; decide
  · intro m hm h; rw [State.isNecessary, exD_ge m hm] at h; cases h

/-- the example state satisfies the drain invariant -/
theorem exD_drainInv : DrainInv exEnv exD where
  graph := exD_graph
  heap := exD_heap
  stamps :=
    { now := by decide
      node := by
        refine cases3 _ ?_ ?_ ?_ ?_
        · decide
        · decide
        · decide
        · intro m hm; rw [exD_ge m hm]; decide
      var := by
        intro c vc h
        match c with
        | 0 =>
          have : vc = { value := .int 4, setAt := 1, node := 0 } := by
            have h' : some ({ value := .int 4, setAt := 1, node := 0 } : VarCell) = some vc := h
            cases h'; rfl
          subst this; decide
        | c + 1 => simp [exD] at h }
  pending m hm hst := by cases exD_stale m hm hst; exact Or.inl rfl
  cons := by
    refine cases3 _ ?_ ?_ ?_ ?_
    · intro _ h
      have : exD.isStale 0 = true := by decide
      rw [this] at h; cases h
    · intro _ _; exact ⟨.int 1, ⟨[.int 1], rfl, rfl⟩, rfl⟩
    · intro _ _; exact ⟨.int 2, ⟨[.int 1, .int 1], rfl, rfl⟩, rfl⟩
    · intro m hm h; rw [State.isNecessary, exD_ge m hm] at h; cases h
  fresh := by
    intro d _ a ha
    clear ha
    revert a
    refine cases3 _ ?_ ?_ ?_ ?_
    · decide
    · decide
    · decide
    · intro m hm; rw [exD_ge m hm]; decide
  cur n h := by cases h

/-- the drain of the example succeeds … -/
theorem exD_drains : ∃ s', (drainHeap exEnv 10).run.run exD = (.ok (), s') := by
  have h : returned ((drainHeap exEnv 10).run.run exD) = true := by decide +kernel
  obtain ⟨r, s', e⟩ := (returned_iff _).1 h
  exact ⟨s', e⟩

/-- … and the observed node ends with `4 + (4) = 8` -/
example : (((drainHeap exEnv 10).run.run exD).2.nodeD 2).value = some (.int 8) := by decide +kernel

end IncrVerif.Proofs.Sched
