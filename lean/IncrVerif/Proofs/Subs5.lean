import IncrVerif.Proofs.Subs1
/-!
# Subscriptions, part 6a: the handler bookkeeping through the cascades (`Hush`)
-/
namespace IncrVerif.Proofs.SubsH
open IncrVerif.Engine IncrVerif.Driver IncrVerif.Proofs IncrVerif.Proofs.Step IncrVerif.Proofs.Sched
open IncrVerif.Proofs.Quiet

/-- an event that is not a notification of a subscriber -/
def NotNotif : Event → Prop
  | .notif _ _ => False
  | _ => True

/-- what the cascades and the drain do to the bookkeeping of update handlers: handler counts and `nextToken`
are kept, the queue `handleAfterStab` only grows and stays consistent with the flags, every node whose
`changedAt` stamp changed and that has update handlers is queued, no notification is logged -/
structure Hush (s s' : State) : Prop where
  nextToken : s'.nextToken = s.nextToken
  num : ∀ m, (s'.nodeD m).numOnUpdateHandlers = (s.nodeD m).numOnUpdateHandlers
  ok : HasOK s → HasOK s'
  mono : ∀ n, n ∈ s.handleAfterStab → n ∈ s'.handleAfterStab
  changed : HasOK s → ∀ n, (s'.nodeD n).changedAt ≠ (s.nodeD n).changedAt →
    0 < (s.nodeD n).numOnUpdateHandlers → n ∈ s'.handleAfterStab
  log : ∃ new, s'.log = new ++ s.log ∧ ∀ e, e ∈ new → NotNotif e

theorem Hush.refl (s : State) : Hush s s :=
  ⟨rfl, fun _ => rfl, id, fun _ h => h, fun _ _ h => absurd rfl h, [], rfl, fun _ h => by cases h⟩

theorem Hush.trans {a b c : State} (h1 : Hush a b) (h2 : Hush b c) : Hush a c where
  nextToken := h2.nextToken.trans h1.nextToken
  num m := (h2.num m).trans (h1.num m)
  ok h := h2.ok (h1.ok h)
  mono n h := h2.mono n (h1.mono n h)
  changed H n hne hpos := by
    by_cases hb : (b.nodeD n).changedAt = (a.nodeD n).changedAt
    · exact h2.changed (h1.ok H) n (by rw [hb]; exact hne) (by rw [h1.num]; exact hpos)
    · exact h2.mono n (h1.changed H n hb hpos)
  log := by
    obtain ⟨n1, e1, l1⟩ := h1.log
    obtain ⟨n2, e2, l2⟩ := h2.log
    refine ⟨n2 ++ n1, by rw [e2, e1, List.append_assoc], fun e he => ?_⟩
    rcases List.mem_append.1 he with he | he
    · exact l2 e he
    · exact l1 e he

instance : PreOrd Hush := ⟨Hush.refl, Hush.trans⟩

/-! ## leaves -/

/-- the per-node data `Hush` reads is unchanged, the queue, `nextToken` and the log are unchanged -/
theorem Hush.of_nodeD {s s' : State} (h1 : s'.nextToken = s.nextToken)
    (h2 : s'.handleAfterStab = s.handleAfterStab) (h3 : s'.log = s.log)
    (h4 : ∀ m, (s'.nodeD m).numOnUpdateHandlers = (s.nodeD m).numOnUpdateHandlers ∧
      (s'.nodeD m).inHandleAfterStab = (s.nodeD m).inHandleAfterStab ∧
      (s'.nodeD m).changedAt = (s.nodeD m).changedAt) : Hush s s' where
  nextToken := h1
  num m := (h4 m).1
  ok H := ⟨by rw [h2]; exact H.nodup, fun n => by rw [h2, (h4 n).2.1]; exact H.flag n⟩
  mono n h := by rw [h2]; exact h
  changed _ n hne _ := absurd (h4 n).2.2 hne
  log := ⟨[], by rw [h3]; rfl, fun _ h => by cases h⟩

theorem Hush.of_same {s s' : State} (h0 : s'.nodes = s.nodes) (h1 : s'.nextToken = s.nextToken)
    (h2 : s'.handleAfterStab = s.handleAfterStab) (h3 : s'.log = s.log) : Hush s s' := by
  refine Hush.of_nodeD h1 h2 h3 fun m => ?_
  have : s'.nodeD m = s.nodeD m := by simp [State.nodeD, h0]
  rw [this]; exact ⟨rfl, rfl, rfl⟩

theorem Hush.modNode (s : State) (n : Nat) (f : Node → Node)
    (hf : ∀ x, (f x).numOnUpdateHandlers = x.numOnUpdateHandlers ∧
      (f x).inHandleAfterStab = x.inHandleAfterStab ∧ (f x).changedAt = x.changedAt) :
    Hush s { s with nodes := s.nodes.modify n f } := by
  refine Hush.of_nodeD rfl rfl rfl fun m => ?_
  rw [nodeD_modify]
  split
  · exact hf _
  · exact ⟨rfl, rfl, rfl⟩

theorem PresHu.modNode (n : Nat) (f : Node → Node)
    (hf : ∀ x, (f x).numOnUpdateHandlers = x.numOnUpdateHandlers ∧
      (f x).inHandleAfterStab = x.inHandleAfterStab ∧ (f x).changedAt = x.changedAt) :
    Step.Pres Hush (modNode n f) := by
  unfold Engine.modNode; exact Step.Pres.modify fun s => Hush.modNode s n f hf

theorem Hush.logged (es : List Event) (s : State) (h : ∀ e, e ∈ es → NotNotif e) :
    Hush s (Step.logged es s) where
  nextToken := rfl
  num _ := rfl
  ok H := ⟨H.nodup, H.flag⟩
  mono _ h := h
  changed _ _ hne _ := absurd rfl hne
  log := ⟨es, rfl, h⟩

theorem PresHu.logEv (e : Event) (h : NotNotif e) : Step.Pres Hush (logEv e) := by
  unfold Engine.logEv
  refine Step.Pres.modify fun s => Hush.logged [e] s fun e' he' => ?_
  rw [List.mem_singleton] at he'; rw [he']; exact h

macro_rules
  | `(tactic| qleaf) =>
    `(tactic| ((with_reducible apply Step.Pres.modify); intro _; exact Hush.of_same rfl rfl rfl rfl))
macro_rules
  | `(tactic| qleaf) =>
    `(tactic| ((with_reducible apply PresHu.modNode); intro _; exact ⟨rfl, rfl, rfl⟩))
macro_rules
  | `(tactic| qleaf) => `(tactic| ((with_reducible apply PresHu.logEv); trivial))

/-- register a `Pres Hush` lemma as a leaf -/
macro "hush_leaf " n:ident : command =>
  `(macro_rules | `(tactic| qleaf) => `(tactic| with_reducible apply $n))

/-! ## `handle_after_stabilisation` -/

/-- the two outcomes of `handle_after_stabilisation` -/
theorem PresHu.has_cases {n : Nat} {s s' : State} {r : Except Panic Unit}
    (h : (handleAfterStabilisation n).run.run s = (r, s')) :
    (s' = s ∧ (r = .ok () → n < s.nodes.size ∧ (s.nodeD n).inHandleAfterStab = true)) ∨
    (s' = hasMarked n s ∧ n < s.nodes.size ∧ (s.nodeD n).inHandleAfterStab = false) := by
  unfold Engine.handleAfterStabilisation at h
  rw [run_bind, run_getNode] at h
  cases hn : s.nodes[n]? with
  | none =>
    rw [hn] at h; cases h
    exact Or.inl ⟨rfl, fun h => by cases h⟩
  | some nd =>
    rw [hn] at h
    simp only at h
    split at h
    · rename_i hf
      rw [run_bind_modNode, run_modify] at h
      cases h
      refine Or.inr ⟨rfl, lt_of_some hn, ?_⟩
      rw [nodeD_of_some hn]
      simpa using hf
    · rename_i hf
      rw [run_pure] at h; cases h
      refine Or.inl ⟨rfl, fun _ => ⟨lt_of_some hn, ?_⟩⟩
      rw [nodeD_of_some hn]
      simpa using hf

theorem PresHu.hasMarked_nodeD (n m : Nat) (s : State) :
    (hasMarked n s).nodeD m =
      if n = m ∧ m < s.nodes.size then { s.nodeD m with inHandleAfterStab := true } else s.nodeD m :=
  nodeD_modify s n m _

/-- queueing a node whose flag is not set -/
theorem Hush.hasMarked {n : Nat} {s : State} (hlt : n < s.nodes.size)
    (hf : (s.nodeD n).inHandleAfterStab = false) : Hush s (hasMarked n s) where
  nextToken := rfl
  num m := by rw [PresHu.hasMarked_nodeD]; split <;> rfl
  ok H := by
    have hnot : n ∉ s.handleAfterStab := fun hm => by
      have := (H.flag n).1 hm
      rw [hf] at this; cases this
    refine ⟨?_, fun m => ?_⟩
    · show (s.handleAfterStab ++ [n]).Nodup
      rw [List.nodup_append]
      refine ⟨H.nodup, List.nodup_cons.2 ⟨List.not_mem_nil, List.nodup_nil⟩, fun a ha b hb hab => ?_⟩
      rw [List.mem_singleton] at hb
      subst hab; subst hb
      exact hnot ha
    · show m ∈ s.handleAfterStab ++ [n] ↔ _
      rw [PresHu.hasMarked_nodeD, List.mem_append, List.mem_singleton]
      by_cases hm : n = m ∧ m < s.nodes.size
      · rw [if_pos hm]
        exact ⟨fun _ => rfl, fun _ => Or.inr hm.1.symm⟩
      · rw [if_neg hm, ← H.flag m]
        refine ⟨fun h => ?_, Or.inl⟩
        rcases h with h | h
        · exact h
        · exact absurd ⟨h.symm, by rw [h]; exact hlt⟩ hm
  mono m h := List.mem_append_left _ h
  changed _ m hne _ := by
    refine absurd ?_ hne
    rw [PresHu.hasMarked_nodeD]; split <;> rfl
  log := ⟨[], rfl, fun _ h => by cases h⟩

/-- `handle_after_stabilisation` (called by `subscribe` and `add_new_observers`) -/
theorem PresHu.handleAfterStabilisation (n : Nat) : Step.Pres Hush (handleAfterStabilisation n) := by
  constructor
  intro s r s' h
  rcases PresHu.has_cases h with ⟨rfl, -⟩ | ⟨rfl, hlt, hf⟩
  · exact Hush.refl _
  · exact Hush.hasMarked hlt hf
hush_leaf PresHu.handleAfterStabilisation

theorem PresHu.maybeHandleAfterStabilisation (n : Nat) : Step.Pres Hush (maybeHandleAfterStabilisation n) := by
  unfold Engine.maybeHandleAfterStabilisation; qpres
hush_leaf PresHu.maybeHandleAfterStabilisation

/-- after `handleAfterStabilisation n` that returned, `n` is queued -/
theorem handleAfterStabilisation_mem {n : Nat} {s s' : State} (H : HasOK s)
    (h : (handleAfterStabilisation n).run.run s = (.ok (), s')) : n ∈ s'.handleAfterStab := by
  rcases PresHu.has_cases h with ⟨rfl, hh⟩ | ⟨rfl, -, -⟩
  · exact (H.flag n).2 (hh rfl).2
  · exact List.mem_append_right _ (List.mem_singleton.2 rfl)

/-! ## the leaves of the cascades -/

theorem PresHu.tick : Step.Pres Hush tick := by unfold Engine.tick; qpres
hush_leaf PresHu.tick
theorem PresHu.modExpert (e f) : Step.Pres Hush (modExpert e f) := by unfold Engine.modExpert; qpres
hush_leaf PresHu.modExpert
theorem PresHu.bumpCounter (f) : Step.Pres Hush (bumpCounter f) := by unfold Engine.bumpCounter; qpres
hush_leaf PresHu.bumpCounter
theorem PresHu.shouldCutoff (env n o v) : Step.Pres Hush (shouldCutoff env n o v) := by
  unfold Engine.shouldCutoff; qpres
hush_leaf PresHu.shouldCutoff
theorem PresHu.edgeOnChange (env e edge) : Step.Pres Hush (edgeOnChange env e edge) := by
  unfold Engine.edgeOnChange; qpres
hush_leaf PresHu.edgeOnChange
theorem PresHu.runEdgeCallback (env e i) : Step.Pres Hush (runEdgeCallback env e i) := by
  unfold Engine.runEdgeCallback; qpres
hush_leaf PresHu.runEdgeCallback
theorem PresHu.observabilityChange (e b) : Step.Pres Hush (observabilityChange e b) := by
  unfold Engine.observabilityChange; qpres
hush_leaf PresHu.observabilityChange
theorem PresHu.setHeight (n h) : Step.Pres Hush (setHeight n h) := by unfold Engine.setHeight; qpres
hush_leaf PresHu.setHeight
theorem PresHu.rchLink (n) : Step.Pres Hush (rchLink n) := by unfold Engine.rchLink; qpres
hush_leaf PresHu.rchLink
theorem PresHu.rchInsert (n) : Step.Pres Hush (rchInsert n) := by unfold Engine.rchInsert; qpres
hush_leaf PresHu.rchInsert
theorem PresHu.rchUnlink (n) : Step.Pres Hush (rchUnlink n) := by unfold Engine.rchUnlink; qpres
hush_leaf PresHu.rchUnlink
theorem PresHu.rchRemove (n) : Step.Pres Hush (rchRemove n) := by unfold Engine.rchRemove; qpres
hush_leaf PresHu.rchRemove
theorem PresHu.rchMinHeight : Step.Pres Hush rchMinHeight := by unfold Engine.rchMinHeight; qpres
hush_leaf PresHu.rchMinHeight
theorem PresHu.addParent (c i p) : Step.Pres Hush (addParent c i p) := by unfold Engine.addParent; qpres
hush_leaf PresHu.addParent
theorem PresHu.removeParent (c i p) : Step.Pres Hush (removeParent c i p) := by
  unfold Engine.removeParent; qpres
hush_leaf PresHu.removeParent
theorem PresHu.scopeIsNecessary (sc) : Step.Pres Hush (scopeIsNecessary sc) := by
  unfold Engine.scopeIsNecessary; qpres
hush_leaf PresHu.scopeIsNecessary

theorem PresHu.markMapRefUnknown (fuel n) : Step.Pres Hush (markMapRefUnknown fuel n) := by
  induction fuel generalizing n with
  | zero => unfold Engine.markMapRefUnknown; qpres
  | succ fuel ih =>
    unfold Engine.markMapRefUnknown
    qpres
    all_goals (apply Step.Pres.forIn; intro a b; qpres; exact ih _)
hush_leaf PresHu.markMapRefUnknown

/-! ## the two cascades -/

theorem PresHu.link (env : Env) (fuel : Nat) :
    (∀ n, Step.Pres Hush (becameNecessary env fuel n)) ∧
    (∀ c i p, Step.Pres Hush (addParentWithoutAdjustingHeights env fuel c i p)) := by
  induction fuel with
  | zero =>
    constructor
    · intro n; unfold Engine.becameNecessary; qpres
    · intro c i p; unfold Engine.addParentWithoutAdjustingHeights; qpres
  | succ fuel ih =>
    constructor
    · intro n
      unfold Engine.becameNecessary
      qpres
      all_goals (apply Step.Pres.forIn; intro a b; qpres; exact ih.2 _ _ _)
    · intro c i p
      unfold Engine.addParentWithoutAdjustingHeights
      qpres
      all_goals exact ih.1 _

/-- the linking cascade -/
theorem PresHu.becameNecessary (env : Env) (fuel n : Nat) : Step.Pres Hush (becameNecessary env fuel n) :=
  (PresHu.link env fuel).1 n
hush_leaf PresHu.becameNecessary

theorem PresHu.unlink (fuel : Nat) :
    (∀ n, Step.Pres Hush (becameUnnecessary fuel n)) ∧
    (∀ n, Step.Pres Hush (checkIfUnnecessary fuel n)) ∧
    (∀ n, Step.Pres Hush (removeChildren fuel n)) := by
  induction fuel with
  | zero =>
    refine ⟨?_, ?_, ?_⟩
    · intro n; unfold Engine.becameUnnecessary; qpres
    · intro n; unfold Engine.checkIfUnnecessary; qpres
    · intro n; unfold Engine.removeChildren; qpres
  | succ fuel ih =>
    refine ⟨?_, ?_, ?_⟩
    · intro n
      unfold Engine.becameUnnecessary
      qpres
      all_goals exact ih.2.2 _
    · intro n
      unfold Engine.checkIfUnnecessary
      qpres
      all_goals exact ih.1 _
    · intro n
      unfold Engine.removeChildren
      qpres
      all_goals (apply Step.Pres.forIn; intro a b; qpres; exact ih.2.1 _)

/-- the unlinking cascade -/
theorem PresHu.checkIfUnnecessary (fuel n : Nat) : Step.Pres Hush (checkIfUnnecessary fuel n) :=
  (PresHu.unlink fuel).2.1 n
hush_leaf PresHu.checkIfUnnecessary

end IncrVerif.Proofs.SubsH
