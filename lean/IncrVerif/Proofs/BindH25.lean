import IncrVerif.Proofs.BindH24
/-!
# Binds, unlinking side, part 3: the unlinking cascade keeps `GInvB`

Port of `Proofs/Quiet8.lean` (`BUSpec`/`CUSpec`/`RCSpec`, `cu_step`, `rc_step`, `bu_step`, `unlink_spec`) to graphs with
bind nodes, with the few lemmas of `Quiet1`/`Quiet4` it needs (`GInv.congr`, `GInv.setHeight_open`).
`PresF.unlink`, `URel`, `Above`, `Irrel`, `setHeight_ok_upd`, `removeParent_ok_inv` are generic and reused.
-/
namespace IncrVerif.Proofs.BindH
open IncrVerif.Engine IncrVerif.Proofs IncrVerif.Proofs.Step IncrVerif.Proofs.Sched IncrVerif.Proofs.Quiet

namespace BU

theorem cframe_binds {s s' : State} (h : CFrame s s') : s'.binds = s.binds := by
  have := h.key
  simp only [stateKey, Prod.mk.injEq] at this
  exact this.2.2.2.2.2.2.2.2.2.2.2.2.2.2.2.2.1

theorem children_eq_of {env : Env} {s t : State} {n : Nat} (hB : BKind env (s.nodeD n).kind)
    (hn : t.nodeD n = s.nodeD n) (hb : t.binds = s.binds) : t.children n = s.children n :=
  children_congr_B (by rw [hn]) (by rw [hn]) hb hB

/-! ## frames that may change heights -/

section
variable {env : Env} {s s' : State}

theorem children_of (A : AllB env s) (hsz : s'.nodes.size = s.nodes.size)
    (hk : ∀ m, (s'.nodeD m).kind = (s.nodeD m).kind) (hv : ∀ m, (s'.nodeD m).valid = (s.nodeD m).valid)
    (hb : s'.binds = s.binds) (m : Nat) : s'.children m = s.children m := by
  by_cases hm : m < s.nodes.size
  · exact children_congr_B (hk m) (hv m) hb (A.node m hm).kind
  · rw [children_default s m (by omega), children_default s' m (by rw [hsz]; omega)]

theorem isStale_of (A : AllB env s) (hsz : s'.nodes.size = s.nodes.size)
    (hk : ∀ m, (s'.nodeD m).kind = (s.nodeD m).kind) (hv : ∀ m, (s'.nodeD m).valid = (s.nodeD m).valid)
    (hr : ∀ m, (s'.nodeD m).recomputedAt = (s.nodeD m).recomputedAt)
    (hc : ∀ m, (s'.nodeD m).changedAt = (s.nodeD m).changedAt) (hvars : s'.vars = s.vars)
    (hb : s'.binds = s.binds) (m : Nat) : s'.isStale m = s.isStale m := by
  by_cases hm : m < s.nodes.size
  · exact isStale_congr_B (A.node m hm).kind (hk m) (hv m) (hr m) hvars hb (fun c _ => hc c)
  · have h1 := nodeD_default s m (by omega)
    have h2 := nodeD_default s' m (by rw [hsz]; omega)
    have hkd : (default : Node).kind? = some (Kind.const default) := rfl
    simp only [State.isStale, h1, h2, hkd]

theorem allB_of (A : AllB env s) (hpc : s'.panicCountdown = s.panicCountdown)
    (hsc : s'.currentScope = s.currentScope) (hsz : s'.nodes.size = s.nodes.size)
    (hk : ∀ m, (s'.nodeD m).kind = (s.nodeD m).kind) (hv : ∀ m, (s'.nodeD m).valid = (s.nodeD m).valid)
    (hcu : ∀ m, (s'.nodeD m).cutoff = (s.nodeD m).cutoff)
    (hci : ∀ m, (s'.nodeD m).createdIn = (s.nodeD m).createdIn)
    (hb : s'.binds = s.binds) : AllB env s' := by
  have hch := children_of A hsz hk hv hb
  refine ⟨by rw [hpc]; exact A.pc, by rw [hsc]; exact A.scope, fun n hn => ?_⟩
  have sn := A.node n (by rw [← hsz]; exact hn)
  refine ⟨by rw [hv]; exact sn.valid, by rw [hk]; exact sn.kind, by rw [hcu]; exact sn.cutoff,
    by rw [hci]; exact sn.top, ?_, ?_, ?_, ?_⟩
  · rw [hch]; exact sn.kidsLt
  · rw [hk, hb]; exact sn.lcRec
  · rw [hk, hb]; exact sn.mainRec
  · intro c b hc hkc
    rw [hch] at hc
    rw [hk] at hkc ⊢
    exact sn.lcChild c b hc hkc

end

section
variable {env : Env} {s s' : State} {op : Nat → Op} {ex : Nat → Prop}

/-- the invariant only reads the fields of `SameG`, and the bind table -/
theorem congr (I : GInvB env s op ex) (h : SameB s s') : GInvB env s' op ex := by
  have hb := h.binds
  have h := h.g
  have hch : ∀ m, s'.children m = s.children m :=
    children_of I.frag h.size (fun m => (h.node m).kind) (fun m => (h.node m).valid) hb
  have hst : ∀ m, s'.isStale m = s.isStale m :=
    isStale_of I.frag h.size (fun m => (h.node m).kind) (fun m => (h.node m).valid)
      (fun m => (h.node m).recomputedAt) (fun m => (h.node m).changedAt) h.vars hb
  refine { frag := allB_of I.frag h.pc h.scope h.size (fun m => (h.node m).kind) (fun m => (h.node m).valid)
             (fun m => (h.node m).cutoff) (fun m => (h.node m).createdIn) hb,
           par := ?_, conv := ?_, nodup := ?_, hlt := ?_, hpos := ?_, lnec := ?_, unec := ?_,
           heap := I.heap.congr h.rch h.size (fun m => (h.node m).heightInRch), hgt := ?_, qnec := ?_,
           queued := ?_, qstale := ?_, opLt := ?_ }
  · intro c p i hm
    rw [(h.node c).parents] at hm
    rw [hch, h.wants]
    exact I.par c p i hm
  · intro p i c hk hw
    rw [hch] at hk
    rw [h.wants] at hw
    rw [(h.node c).parents]
    exact I.conv p i c hk hw
  · intro c; rw [(h.node c).parents]; exact I.nodup c
  · intro c p i hm ho
    rw [(h.node c).parents] at hm
    rw [(h.node c).height, (h.node p).height]
    exact I.hlt c p i hm ho
  · intro n hn ho
    rw [h.nec] at hn
    rw [(h.node n).height]; exact I.hpos n hn ho
  · intro p k ho; rw [h.nec]; exact I.lnec p k ho
  · intro p k ho; rw [h.nec]; exact I.unec p k ho
  · intro m hq ho
    rw [h.inRch] at hq
    rw [(h.node m).heightInRch, (h.node m).height]; exact I.hgt m hq ho
  · intro m hq
    rw [h.inRch] at hq
    rw [h.nec]; exact I.qnec m hq
  · intro m ho hn hs hex
    rw [h.nec] at hn
    rw [hst] at hs
    rw [h.inRch]; exact I.queued m ho hn hs hex
  · intro m hq
    rw [h.inRch] at hq
    rw [hst]; exact I.qstale m hq
  · intro m ho; rw [h.size]; exact I.opLt m ho

/-- the height of an open node whose parents are all open is not constrained -/
theorem setHeight_open {n : Nat} {h : Int} (I : GInvB env s op ex) (U : NodeUpd n (fHeight h) s s')
    (hb : s'.binds = s.binds)
    (hop : op n ≠ .closed) (hpar : ∀ p i, (p, i) ∈ (s.nodeD n).parents → op p ≠ .closed) :
    GInvB env s' op ex := by
  have K := keeps_fHeight h
  have hpa : ∀ m, (s'.nodeD m).parents = (s.nodeD m).parents := fun m => by
    by_cases e : m = n
    · rw [e]; exact U.parents_self
    · exact U.parents_other e
  have hnec : ∀ m, s'.isNecessary m = s.isNecessary m := fun m => by
    by_cases e : m = n
    · rw [e]
      simp only [State.isNecessary, Node.isNecessary, U.self.parents, U.self.observers, U.self.forceNecessary]
      rfl
    · exact U.nec_other e
  have hw : ∀ q i, Wants s' op q i ↔ Wants s op q i := fun q i => by unfold Wants; rw [hnec]
  have hcn : ∀ m, op m = .closed → m ≠ n := fun m ho e => hop (e ▸ ho)
  have hch : ∀ m, s'.children m = s.children m := children_of I.frag U.size (U.kind K) (U.valid K) hb
  have hst : ∀ m, s'.isStale m = s.isStale m :=
    isStale_of I.frag U.size (U.kind K) (U.valid K) (U.recomputedAt K) (U.changedAt K) U.vars hb
  refine { frag := allB_of I.frag U.pc U.scope U.size (U.kind K) (U.valid K) (U.cutoff K) (U.createdIn K) hb,
           par := ?_, conv := ?_, nodup := ?_, hlt := ?_, hpos := ?_,
           lnec := ?_, unec := ?_, heap := U.heap K I.heap, hgt := ?_, qnec := ?_, queued := ?_,
           qstale := ?_, opLt := ?_ }
  · intro c q i hm
    rw [hpa] at hm
    rw [hch, hw]; exact I.par c q i hm
  · intro q i c hk hw'
    rw [hch] at hk
    rw [hw] at hw'
    rw [hpa]; exact I.conv q i c hk hw'
  · intro m; rw [hpa]; exact I.nodup m
  · intro c q i hm ho
    rw [hpa] at hm
    have h1 : c ≠ n := by intro e; rw [e] at hm; exact hpar q i hm ho
    rw [U.height_other h1, U.height_other (hcn q ho)]
    exact I.hlt c q i hm ho
  · intro m hn ho
    rw [hnec] at hn
    rw [U.height_other (hcn m ho)]; exact I.hpos m hn ho
  · intro q k ho
    rw [hnec]; exact I.lnec q k ho
  · intro q k ho
    rw [hnec]; exact I.unec q k ho
  · intro m hq ho
    rw [U.inRch K] at hq
    rw [U.heightInRch K, U.height_other (hcn m ho)]; exact I.hgt m hq ho
  · intro m hq
    rw [U.inRch K] at hq
    rw [hnec]; exact I.qnec m hq
  · intro m ho hn hs hex
    rw [hnec] at hn
    rw [hst] at hs
    rw [U.inRch K]; exact I.queued m ho hn hs hex
  · intro m hq
    rw [U.inRch K] at hq
    rw [hst]; exact I.qstale m hq
  · intro m ho
    rw [U.size]; exact I.opLt m ho

end

/-! ## the mutual induction -/

def BUSpec (fuel : Nat) : Prop :=
  ∀ env n s s' op ex, (becameUnnecessary fuel n).run.run s = (.ok (), s') → GInvB env s op ex →
    op n = .unlinking 0 → (∀ m, op m ≠ .closed → n ≤ m) →
    GInvB env s' (upd op n .closed) ex ∧ Above n s s' ∧ URel s s'

def CUSpec (fuel : Nat) : Prop :=
  ∀ env c s s' op ex, (checkIfUnnecessary fuel c).run.run s = (.ok (), s') → GInvB env s op ex →
    (∀ m, op m ≠ .closed → c ≤ m) →
    ((s.isNecessary c = true ∧ op c = .closed) ∨ (s.isNecessary c = false ∧ op c = .unlinking 0)) →
    GInvB env s' (upd op c .closed) ex ∧ Above c s s' ∧ URel s s'

def RCSpec (fuel : Nat) : Prop :=
  ∀ env n s s' op ex, (removeChildren fuel n).run.run s = (.ok (), s') → GInvB env s op ex →
    op n = .unlinking 0 → (∀ m, op m ≠ .closed → n ≤ m) →
    GInvB env s' (upd op n (.unlinking (s.children n).length)) ex ∧
      (∀ m, n ≤ m → s'.nodeD m = s.nodeD m) ∧ URel s s'

theorem cu_step (fuel : Nat) (ih : BUSpec fuel) : CUSpec (fuel + 1) := by
  intro env c s s' op ex h I hlow hcase
  unfold checkIfUnnecessary at h
  rw [run_bind_get] at h
  rcases hcase with ⟨hn, hcl⟩ | ⟨hn, hop⟩
  · rw [hn] at h
    simp only [Bool.not_true, Bool.false_eq_true, if_false] at h
    obtain ⟨-, rfl⟩ := pure_ok_inv h
    rw [upd_eq_self _ _ _ hcl]
    exact ⟨I, Above.refl _ _, URel.refl _⟩
  · rw [hn] at h
    simp only [Bool.not_false, if_true] at h
    exact ih env c s s' op ex h I hop hlow

theorem rc_step (fuel : Nat) (ih : CUSpec fuel) : RCSpec (fuel + 1) := by
  intro env n s s' op ex h I hop hlow
  have hn : n < s.nodes.size := I.opLt n (by rw [hop]; exact fun e => by cases e)
  have hBn : BKind env (s.nodeD n).kind := (I.node hn).kind
  unfold removeChildren at h
  rw [run_bind_get] at h
  obtain ⟨b, s3, h3, h⟩ := bind_ok_inv h
  obtain ⟨-, e3⟩ := pure_ok_inv h
  rw [e3]
  have hloop := forIn_ok_inv _ (s.children n)
    (fun j (b : Nat) t => b = j ∧ GInvB env t (upd op n (.unlinking j)) ex ∧
      (∀ m, n ≤ m → t.nodeD m = s.nodeD m) ∧ URel s t)
    (by
      intro j c b t r t' hj ⟨hb, It, hsame, hrel⟩ hbody
      obtain ⟨_, t1, ha, hbody⟩ := bind_ok_inv hbody
      obtain ⟨_, t2, hc, hbody⟩ := bind_ok_inv hbody
      obtain ⟨hr, ht'⟩ := pure_ok_inv hbody
      rw [ht']
      refine ⟨_, hr, ?_⟩
      have hkj : (t.children n)[j]? = some c := by
        rw [children_eq_of hBn (hsame n (Nat.le_refl _)) (cframe_binds hrel.fr)]; exact hj
      have hcn : c < n := It.kid_lt hkj
      have hct : c < t.nodes.size := by rw [hrel.fr.size]; omega
      have hclc : upd op n (.unlinking j) c = .closed := by
        rw [upd_other _ _ _ (by omega)]
        cases e : op c with
        | closed => rfl
        | linking k => have := hlow c (by rw [e]; exact fun e => by cases e); omega
        | unlinking k => have := hlow c (by rw [e]; exact fun e => by cases e); omega
      obtain ⟨nd, pi, hnd, hidx, e1⟩ := removeParent_ok_inv ha
      rw [hb] at hidx
      have hndD : t.nodeD c = nd := nodeD_of_some hnd
      rw [← hndD] at hidx
      have U : NodeUpd c (fParents (swapRemove (t.nodeD c).parents pi)) t t1 := by
        rw [e1]; exact NodeUpd.modify' hct rfl
      have hb1 : t1.binds = t.binds := by rw [e1]
      obtain ⟨Hnec, Hun⟩ := It.removeEdge hidx U hb1 (upd_self _ _ _) hkj hclc
      have hab1 : ∀ m, c < m → t1.nodeD m = t.nodeD m := by
        rw [e1]; exact Above.modify c _ t c (Nat.le_refl _)
      have hu1 : URel t t1 := by
        refine ⟨?_, ?_, ?_⟩
        · rw [e1]; exact CFrame.modNode t c _ (fun _ => rfl)
        · rw [e1]
        · intro m x hx
          by_cases e : m = c
          · rw [e] at hx ⊢
            rw [U.self.parents] at hx
            exact ((U4.swapRemove_spec _ _ _ (It.nodup c) hidx).1 x).1 hx |>.1
          · rw [(U.other m e).parents] at hx; exact hx
      have hlow' : ∀ (o : Nat → Op), (∀ m, m ≠ c → m ≠ n → o m = op m) → o n ≠ .closed →
          ∀ m, o m ≠ .closed → c ≤ m := by
        intro o ho _ m hm
        by_cases e1 : m = c
        · omega
        · by_cases e2 : m = n
          · omega
          · rw [ho m e1 e2] at hm; have := hlow m hm; omega
      rw [upd_upd] at Hnec Hun
      have hopc : op c = .closed := by rw [upd_other _ _ _ (by omega)] at hclc; exact hclc
      cases hnc : t1.isNecessary c with
      | true =>
        have I1 := Hnec hnc
        obtain ⟨I2, hab2, hu2⟩ := ih env c t1 t2 _ ex hc I1
          (hlow' _ (fun m _ e2 => upd_other _ _ _ e2) (by rw [upd_self]; exact fun e => by cases e))
          (Or.inl ⟨hnc, by rw [upd_other _ _ _ (by omega)]; exact hopc⟩)
        rw [upd_eq_self _ c .closed (by rw [upd_other _ _ _ (by omega)]; exact hopc)] at I2
        exact ⟨by rw [hb], I2, fun m hm => ((hab2 m (by omega)).trans (hab1 m (by omega))).trans (hsame m hm),
          (hrel.trans hu1).trans hu2⟩
      | false =>
        have I1 := Hun hnc
        obtain ⟨I2, hab2, hu2⟩ := ih env c t1 t2 _ ex hc I1
          (hlow' _ (fun m e1 e2 => by rw [upd_other _ _ _ e1, upd_other _ _ _ e2])
            (by rw [upd_other _ _ _ (by omega), upd_self]; exact fun e => by cases e))
          (Or.inr ⟨hnc, upd_self _ _ _⟩)
        rw [upd_upd, upd_eq_self _ c .closed (by rw [upd_other _ _ _ (by omega)]; exact hopc)] at I2
        exact ⟨by rw [hb], I2, fun m hm => ((hab2 m (by omega)).trans (hab1 m (by omega))).trans (hsame m hm),
          (hrel.trans hu1).trans hu2⟩)
    (s.children n) 0 0 s b s3 (by simp) (Nat.zero_le _)
    ⟨rfl, by rw [upd_eq_self _ _ _ hop]; exact I, fun _ _ => rfl, URel.refl _⟩ h3
  obtain ⟨-, I3, hsame3, hrel3⟩ := hloop
  exact ⟨I3, hsame3, hrel3⟩

theorem bu_step (fuel : Nat) (ih : RCSpec fuel) : BUSpec (fuel + 1) := by
  intro env n s s' op ex h I hop hlow
  have hn : n < s.nodes.size := I.opLt n (by rw [hop]; exact fun e => by cases e)
  unfold becameUnnecessary at h
  obtain ⟨s0, hs0, h⟩ := bind_modify_inv h
  obtain ⟨_, s1, h1, h⟩ := bind_ok_inv h
  obtain ⟨_, s2, h2, h⟩ := bind_ok_inv h
  obtain ⟨_, s3, h3, h⟩ := bind_ok_inv h
  obtain ⟨nd3, hnd3, h⟩ := bind_getNode_inv h
  have R0 : Irrel n s s0 := by rw [hs0]; exact Irrel.of_nodes rfl rfl rfl rfl rfl
  have R1 : Irrel n s s1 := R0.trans (Irrel.mhas h1)
  have I1 : GInvB env s1 op ex := congr I ⟨R1.same, cframe_binds (R1.rel (fun _ => False)).fr⟩
  have hn1 : n < s1.nodes.size := by rw [R1.same.size]; exact hn
  have hnopar : (s1.nodeD n).parents = [] := parents_nil_of_not_nec (I1.unec n 0 hop)
  obtain ⟨U2, hab2, hl2, hh2, hoth2⟩ := setHeight_ok_upd hn1 h2
  have hopn : op n ≠ .closed := by rw [hop]; exact fun e => by cases e
  have I2 : GInvB env s2 op ex :=
    setHeight_open I1 U2 (cframe_binds hl2.fr) hopn (by intro p i hp; rw [hnopar] at hp; cases hp)
  have hu2 : URel s1 s2 := ⟨hl2.fr, hl2.pinv, fun m x hx => by
    by_cases e : m = n
    · rw [e, U2.self.parents] at hx; rw [e]; exact hx
    · rw [(U2.other m e).parents] at hx; exact hx⟩
  obtain ⟨I3, hsame3, hu3⟩ := ih env n s2 s3 op ex h3 I2 hop hlow
  have hn2 : n < s2.nodes.size := by rw [U2.size]; exact hn1
  have hn3 : n < s3.nodes.size := by rw [hu3.fr.size]; exact hn2
  have hnd3D : s3.nodeD n = nd3 := nodeD_of_some hnd3
  have hch3 : s3.children n = s2.children n :=
    children_eq_of (I2.node hn2).kind (hsame3 n (Nat.le_refl _)) (cframe_binds hu3.fr)
  rw [← hch3] at I3
  -- the node is not an expert node
  have hq : nd3.kind? = some (s3.nodeD n).kind := by
    rw [← hnd3D, Node.kind?, (I3.node hn3).valid]; rfl
  have hA : Above n s s3 := (R1.above.trans hab2).trans (fun m hm => hsame3 m (by omega))
  have hU : URel s s3 := (R1.urel.trans hu2).trans hu3
  have fin : ∀ t', (do
        let s ← get
        dassert (!s.needsToBeComputed n) "node:became_unnecessary:not-needs-to-be-computed"
        if (s.nodeD n).inRch = true then rchRemove n else pure ()).run.run s3 = (.ok (), t') →
      GInvB env t' (upd op n .closed) ex ∧ Above n s t' ∧ URel s t' := by
    intro t' ht
    rw [run_bind_get] at ht
    replace ht := bind_dassert_inv ht
    cases hin : (s3.nodeD n).inRch with
    | false =>
      rw [hin] at ht
      simp only [Bool.false_eq_true, if_false] at ht
      obtain ⟨-, e⟩ := pure_ok_inv ht
      rw [e]
      have I4 := I3.close_unlink (upd_self _ _ _) (Nat.le_refl _) hin
      rw [upd_upd] at I4
      exact ⟨I4, hA, hU⟩
    | true =>
      rw [hin] at ht
      simp only [if_true] at ht
      obtain ⟨I4, hin4⟩ := I3.rchRemove_open (upd_self _ _ _) ht
      obtain ⟨nd, q, idx, hnd, -, -, -, e4⟩ := rchRemove_ok_inv ht
      have hnode4 : ∀ m, (t'.nodeD m).kind = (s3.nodeD m).kind ∧ (t'.nodeD m).valid = (s3.nodeD m).valid := by
        intro m; rw [e4, removedAt_nodeD]; split <;> exact ⟨rfl, rfl⟩
      have hch4 : t'.children n = s3.children n :=
        children_congr_B (hnode4 n).1 (hnode4 n).2 (by rw [e4]; rfl) (I3.node hn3).kind
      have I5 := I4.close_unlink (upd_self _ _ _) (by rw [hch4]; exact Nat.le_refl _) hin4
      rw [upd_upd] at I5
      refine ⟨I5, hA.trans ?_, hU.trans ⟨(PresF.rchRemove n).h _ _ _ ht, by rw [e4]; rfl, ?_⟩⟩
      · intro m hm; rw [e4, removedAt_nodeD, if_neg (fun e => by omega)]
      · intro m x hx; rw [e4, removedAt_nodeD] at hx; split at hx
        · exact hx
        · exact hx
  rw [hq] at h
  have hsk := (I3.node hn3).kind
  cases hkd : (s3.nodeD n).kind <;> rw [hkd] at h hsk <;>
    first | exact fin s' h | exact False.elim hsk

theorem unlink_spec (fuel : Nat) : BUSpec fuel ∧ CUSpec fuel ∧ RCSpec fuel := by
  induction fuel with
  | zero =>
    refine ⟨?_, ?_, ?_⟩
    · intro env n s s' op ex h; unfold becameUnnecessary at h; cases h
    · intro env n s s' op ex h; unfold checkIfUnnecessary at h; cases h
    · intro env n s s' op ex h; unfold removeChildren at h; cases h
  | succ fuel ih => exact ⟨bu_step fuel ih.2.2, cu_step fuel ih.1, rc_step fuel ih.2.1⟩

end BU

/-! ## headline statements -/

/-- **The unlinking cascade, graphs with binds.** A successful `checkIfUnnecessary c` on a closed node that is still
necessary, or on a node that has just become unnecessary (labelled `.unlinking 0`: all its child edges are still
recorded), which is the lowest open node, closes `c`: the structural invariant holds with `c` closed, nodes above `c`
are untouched, parent lists only shrank. -/
theorem checkIfUnnecessary_specB {env : Env} {fuel c : Nat} {s s' : State} {op : Nat → Op} {ex : Nat → Prop}
    (h : (checkIfUnnecessary fuel c).run.run s = (.ok (), s')) (I : GInvB env s op ex)
    (hlow : ∀ m, op m ≠ .closed → c ≤ m)
    (hcase : (s.isNecessary c = true ∧ op c = .closed) ∨ (s.isNecessary c = false ∧ op c = .unlinking 0)) :
    GInvB env s' (upd op c .closed) ex ∧ Above c s s' ∧ URel s s' :=
  (BU.unlink_spec fuel).2.1 env c s s' op ex h I hlow hcase

/-- `becameUnnecessary n` on the lowest open node, labelled `.unlinking 0`, closes it -/
theorem becameUnnecessary_specB {env : Env} {fuel n : Nat} {s s' : State} {op : Nat → Op} {ex : Nat → Prop}
    (h : (becameUnnecessary fuel n).run.run s = (.ok (), s')) (I : GInvB env s op ex)
    (hop : op n = .unlinking 0) (hlow : ∀ m, op m ≠ .closed → n ≤ m) :
    GInvB env s' (upd op n .closed) ex ∧ Above n s s' ∧ URel s s' :=
  (BU.unlink_spec fuel).1 env n s s' op ex h I hop hlow

/-- `removeChildren n` on the lowest open node, labelled `.unlinking 0`: afterwards none of its child edges is
recorded (`.unlinking (children n).length`); `n` itself and the nodes above it are untouched -/
theorem removeChildren_specB {env : Env} {fuel n : Nat} {s s' : State} {op : Nat → Op} {ex : Nat → Prop}
    (h : (removeChildren fuel n).run.run s = (.ok (), s')) (I : GInvB env s op ex)
    (hop : op n = .unlinking 0) (hlow : ∀ m, op m ≠ .closed → n ≤ m) :
    GInvB env s' (upd op n (.unlinking (s.children n).length)) ex ∧
      (∀ m, n ≤ m → s'.nodeD m = s.nodeD m) ∧ URel s s' :=
  (BU.unlink_spec fuel).2.2 env n s s' op ex h I hop hlow

end IncrVerif.Proofs.BindH
