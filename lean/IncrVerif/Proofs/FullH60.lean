import IncrVerif.Proofs.FullH59
import IncrVerif.Proofs.FullH45
/-!
# C01 full fragment: the two hypotheses of `D1.lean` about change detectors, discharged
-/
namespace IncrVerif.Proofs.FullH
open IncrVerif.Engine IncrVerif.Proofs

/-- the `didChange` invariant through a run of a change detector -/
theorem lcKSpec_of_envS {env : Env} {sp : Nat → Val → Val} (E : EnvS env sp) : LcKSpec env sp :=
  fun _ _ _ _ _ _ _ _ _ D hk h hv _ _ => KL.lc_keepsK E D hk h hv

/-- the simulation of a run of a change detector -/
theorem lcSimSpec_of_envS {env : Env} {sp : Nat → Val → Val} (E : EnvS env sp) : LcSimSpec env sp :=
  fun _ _ _ _ _ _ _ _ D hk h => by
    obtain ⟨g', h1, h2, h3, -, -⟩ := KL.lc_keepsK_ex E D hk h
    exact ⟨g', h1, h2, h3⟩



end IncrVerif.Proofs.FullH
