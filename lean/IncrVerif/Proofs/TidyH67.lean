import IncrVerif.Proofs.TidyH66
import IncrVerif.Proofs.TidyH59
import IncrVerif.Props.C01MapRef
/-!
# T1b, parts 10–11: every valid API action of the fragment static + `map_ref` RETURNS; valid histories never panic
-/
namespace IncrVerif.Proofs.TidyH.RT
open IncrVerif.Engine IncrVerif.Driver IncrVerif.Proofs IncrVerif.Proofs.Step IncrVerif.Proofs.Sched IncrVerif.Proofs.Quiet
open IncrVerif.Proofs.MapRefH

/-- **validity of an action of the fragment**: `Quiet.ActionOK` of the VIRTUAL action — i.e. the indices named by the
action exist (operands `.outer k` with `k < top.size`, INCLUDING the input of `create (.mapRef p i)`, which the
virtual action `create (.map (projBase + p) [i])` lists as an argument), there is room for a new node, and
`3 * nodes.size + 4 ≤ fuelDefault` for `stabilise`. -/
def ActionOKR (N : Nat) (s : State) (a : Action) : Prop := ActionOK N s (virtAction a)

theorem grow_virtAction (a : Action) : grow (virtAction a) = grow a := by
  cases a with
  | create i => cases i <;> rfl
  | _ => rfl

theorem actionOK_virt {N : Nat} (g : Nat → Option Val) (s : State) (a : Action) :
    ActionOK N (virt g s) a ↔ ActionOK N s a := by
  cases a <;> simp only [ActionOK, virt_size] <;> exact Iff.rfl

section
variable {env : Env} {g : Nat → Option Val} {s : State}

theorem grown_virt {a : Action} {s' : State} {g g' : Nat → Option Val}
    (h : Grown (virtAction a) (virt g s) (virt g' s')) : Grown a s s' := by
  unfold Grown at *
  rw [grow_virtAction, virt_size, virt_size] at h
  exact h

/-- **M2, total.** Every API action of the fragment static + map_ref whose indices exist returns; the invariants are
kept. -/
theorem stepR_total {N : Nat} {a : Action} {tk : Array Nat} (Q : QInvR env s g) (T : TInv N s)
    (ha : MapRefAction env a) (hok : ActionOKR N s a) :
    Tot (stepAction env a tk) s (fun r s' => r.2 = tk ∧ QInvRE env s' ∧ TInv N s' ∧ Grown a s s') := by
  by_cases hs : a = .stabilise
  · subst hs
    obtain ⟨_, s', h, ⟨g', R⟩, T'⟩ := stabiliseR_total (N := N) Q T hok
    refine ⟨_, s', step_stabilise_run h, rfl, ⟨g', R.inv⟩, T', ?_⟩
    have C := R.virt
    refine ⟨?_, ?_, ?_⟩
    · have := C.size; rwa [virt_size, virt_size] at this
    · have : s'.vars = s.vars := C.vars
      rw [this]; rfl
    · exact C.obs.1
  · obtain ⟨hR, -, hst⟩ := ha.split hs
    obtain ⟨Q0, hg0⟩ := Q.cut
    have Tv : TInv N (virt (cutG g s) s) := (tinv_virt _ s).2 T
    have hokv : ActionOK N (virt (cutG g s) s) (virtAction a) := (actionOK_virt _ s _).2 hok
    have Tt := step_total (env := virtEnv env) (tk := tk) Q0.q Tv hst hokv
    obtain ⟨r, s', hrun, ⟨h1, -, h3, h4⟩, -⟩ :=
      (BSimAt.stepAction (g := cutG g s) env tk hg0 hR).tot (Q0.frag.fr Q0.pinv) Tt
    exact ⟨r, s', hrun, h1, actionR Q ha hs hrun, (tinv_virt _ s').1 h3, grown_virt h4⟩

end

/-! ## valid histories -/

/-- **a valid history of the fragment static + map_ref**: `Quiet.ValidHist` with the validity of the VIRTUAL actions —
the actions name existing things (also the input of a `create (.mapRef p i)`: `i = .outer k` with `k` below the
current number of nodes), there are never more than `N` nodes, and every `stabilise` has fuel
(`3 * nodes + 4 ≤ fuelDefault`, the bound of the static fragment); `nn`, `nv`, `no` = numbers of nodes, var cells,
observers before the history -/
def ValidHistR (N : Nat) : Nat → Nat → Nat → List Action → Prop
  | _, _, _, [] => True
  | nn, nv, no, a :: as =>
    ActionOKc N nn nv no (virtAction a) ∧ ValidHistR N (nn + (grow a).1) (nv + (grow a).2.1) (no + (grow a).2.2) as

/-- in other words: the virtualised history is a valid history of the static fragment -/
theorem validHistR_iff (N : Nat) (acts : List Action) : ∀ nn nv no,
    ValidHistR N nn nv no acts ↔ ValidHist N nn nv no (acts.map virtAction) := by
  induction acts with
  | nil => intro _ _ _; exact Iff.rfl
  | cons a as ih =>
    intro nn nv no
    simp only [ValidHistR, List.map_cons, ValidHist, grow_virtAction, ih]

/-- **valid histories of the fragment never panic**, from any state satisfying the invariants -/
theorem runActionsR_total {env : Env} {N : Nat} {acts : List Action} {s : State} {tk : Array Nat}
    (Q : QInvRE env s) (T : TInv N s) (ha : ∀ a, a ∈ acts → MapRefAction env a)
    (hv : ValidHistR N s.nodes.size s.vars.size s.observers.size acts) :
    ∃ s', runActions env acts s tk = .ok (s', tk) ∧ QInvRE env s' ∧ TInv N s' := by
  induction acts generalizing s with
  | nil => exact ⟨s, rfl, Q, T⟩
  | cons a as ih =>
    obtain ⟨hok, hrest⟩ := hv
    obtain ⟨g, Qg⟩ := Q
    obtain ⟨r, s1, h1, htk, Q1, T1, hg⟩ :=
      stepR_total (tk := tk) Qg T (ha a (List.mem_cons_self ..)) (actionOK_of T.topSize hok)
    obtain ⟨g1, g2, g3⟩ := hg
    rw [← g1, ← g2, ← g3] at hrest
    obtain ⟨s', h2, Q', T'⟩ := ih Q1 T1 (fun b hb => ha b (List.mem_cons_of_mem _ hb)) hrest
    refine ⟨s', ?_, Q', T'⟩
    simp only [runActions]
    rw [h1]
    simp only [htk]
    exact h2

/-- **T1b: a valid history of actions of the fragment static + map_ref, run from the initial state, never panics**;
the final state satisfies the invariant of `Props/C01MapRef` and the extra invariant `TInv` of total correctness. -/
theorem historyR_total {env : Env} {N : Nat} {d : Bool} {acts : List Action}
    (ha : ∀ a, a ∈ acts → MapRefAction env a) (hv : ValidHistR N 0 0 0 acts) :
    ∃ s', runActions env acts (State.init N d) #[] = .ok (s', #[]) ∧ QInvRE env s' ∧ TInv N s' :=
  runActionsR_total (init_invR env N d) (tinv_init N d) ha hv

theorem validHistR_prefix {N : Nat} {as bs : List Action} : ∀ {nn nv no : Nat},
    ValidHistR N nn nv no (as ++ bs) → ValidHistR N nn nv no as := by
  induction as with
  | nil => intro _ _ _ _; trivial
  | cons a as ih => intro nn nv no h; exact ⟨h.1, ih h.2⟩

/-- **C01 for programs with map_ref, total form.** For a VALID history of the fragment (no assumption that it runs):
at each of its `stabilise`s the prefix runs, the `stabilise` returns, and afterwards every observer in use reads the
from-scratch value of its node, no necessary node is stale, every observer is in use or unlinked; the rest runs. -/
theorem historyR_total_stabilise {env : Env} {N : Nat} {d : Bool} {as bs : List Action}
    (ha : ∀ a, a ∈ as ++ Action.stabilise :: bs → MapRefAction env a)
    (hv : ValidHistR N 0 0 0 (as ++ Action.stabilise :: bs)) :
    ∃ s1 s2 s, runActions env as (State.init N d) #[] = .ok (s1, #[]) ∧ QInvRE env s1 ∧
      (stabilise env fuelDefault).run.run s1 = (.ok (), s2) ∧ QInvRE env s2 ∧
      ReadsOKR env s2 ∧ ObsSettled s2 ∧ (∀ n, s2.isNecessary n = true → s2.isStale n = false) ∧
      runActions env bs s2 #[] = .ok (s, #[]) := by
  obtain ⟨s, h, -, -⟩ := historyR_total (d := d) ha hv
  obtain ⟨s1, tk1, s2, g1, g2, h1, Q1, h2, R, h3, h4, h5, h6⟩ := historyR_stabilise ha h
  -- the token array stays empty
  obtain ⟨s1', h1', -, -⟩ := historyR_total (d := d) (acts := as) (fun a hm => ha a (List.mem_append_left _ hm))
    (validHistR_prefix hv)
  rw [h1] at h1'
  cases h1'
  exact ⟨s1, s2, s, h1, ⟨g1, Q1⟩, h2, ⟨g2, R.inv⟩, h3, h4, h5, h6⟩

/-! ## a decidable validity check, and the two corpus histories -/

def opndB (nn : Nat) : Opnd → Bool
  | .outer k => decide (k < nn)
  | _ => false

def actionB (N nn nv no : Nat) : Action → Bool
  | .create (.map _ args) => args.all (opndB nn) && decide (nn + 1 ≤ N)
  | .create (.fold _ _ cs) => cs.all (opndB nn) && decide (nn + 1 ≤ N)
  | .create (.zip a b) => opndB nn a && opndB nn b && decide (nn + 1 ≤ N)
  | .create (.mapRef _ i) => opndB nn i && decide (nn + 1 ≤ N)
  | .create _ => decide (nn + 1 ≤ N)
  | .observe n => opndB nn n
  | .dropObs o | .disallow o => decide (o < no)
  | .set v _ | .modify v _ | .update v _ | .replace v _ | .replaceWith v _ | .get v => decide (v < nv)
  | .stabilise => decide (3 * nn + 4 ≤ fuelDefault)
  | _ => true

def validB (N : Nat) : Nat → Nat → Nat → List Action → Bool
  | _, _, _, [] => true
  | nn, nv, no, a :: as =>
    actionB N nn nv no a && validB N (nn + (grow a).1) (nv + (grow a).2.1) (no + (grow a).2.2) as

theorem opndB_sound {nn : Nat} {o : Opnd} (h : opndB nn o = true) : ∃ k, o = Opnd.outer k ∧ k < nn := by
  cases o <;> simp only [opndB] at h <;> try cases h
  exact ⟨_, rfl, by simpa using h⟩

theorem actionB_sound {N nn nv no : Nat} {a : Action} (h : actionB N nn nv no a = true) :
    ActionOKc N nn nv no (virtAction a) := by
  cases a <;> simp only [virtAction] <;> try (first | trivial | (simpa [actionB, ActionOKc] using h))
  case create i =>
    cases i <;> simp only [virtInstr, ActionOKc] <;> simp only [actionB, Bool.and_eq_true, decide_eq_true_eq] at h
    case map f args => exact ⟨fun a ha => opndB_sound (List.all_eq_true.1 h.1 a ha), h.2⟩
    case fold f init cs => exact ⟨fun a ha => opndB_sound (List.all_eq_true.1 h.1 a ha), h.2⟩
    case zip a b => exact ⟨⟨opndB_sound h.1.1, opndB_sound h.1.2⟩, h.2⟩
    case mapRef p i =>
      refine ⟨fun a ha => ?_, h.2⟩
      simp only [List.mem_cons, List.mem_nil_iff, or_false] at ha
      rw [ha]; exact opndB_sound h.1
    all_goals exact ⟨trivial, h⟩
  case observe n => exact opndB_sound h

theorem validB_sound {N : Nat} {acts : List Action} : ∀ {nn nv no : Nat}, validB N nn nv no acts = true →
    ValidHistR N nn nv no acts := by
  induction acts with
  | nil => intro _ _ _ _; trivial
  | cons a as ih =>
    intro nn nv no h
    simp only [validB, Bool.and_eq_true] at h
    exact ⟨actionB_sound h.1, ih h.2⟩

open IncrVerif.Props.C01MapRef in
/-- the corpus histories of the two repaired defects (`corpus/C01/d1_mapref_relink.hist`,
`d15_mapref_late_parent.hist`) are valid histories of the fragment (validity checked by `decide`, not by running) -/
theorem histD1_valid : ValidHistR 128 0 0 0 histD1 := validB_sound (by decide)

open IncrVerif.Props.C01MapRef in
theorem histD15_valid : ValidHistR 128 0 0 0 histD15 := validB_sound (by decide)

open IncrVerif.Props.C01MapRef in
/-- **non-vacuity**: hence, BY THE THEOREM, neither of them panics (in debug and release mode), and their final
states satisfy the invariants -/
example (d : Bool) :
    (∃ s', runActions exEnvM histD1 (State.init 128 d) #[] = .ok (s', #[]) ∧ QInvRE exEnvM s' ∧ TInv 128 s') ∧
    (∃ s', runActions exEnvM histD15 (State.init 128 d) #[] = .ok (s', #[]) ∧ QInvRE exEnvM s' ∧ TInv 128 s') :=
  ⟨historyR_total histD1_ok histD1_valid, historyR_total histD15_ok histD15_valid⟩

end IncrVerif.Proofs.TidyH.RT
