import IncrVerif.Proofs.DriverH5
import IncrVerif.Proofs.DriverH3
import IncrVerif.Proofs.EffH4
import IncrVerif.Proofs.Poison
/-!
# Drivers: the real run of a driver, part 1 — congruence and frame lemmas

* `Drives`/`PS`/`resOp`/`EffOK` along states with the same kinds, records, `top`, `nextDep`, sizes;
* `drvOK_frameM`;
* the children of a valid expert node;
* `unstamp` read node-wise;
* congruences of `AllStatic`, `VarsOK`;
* `eKey` along a run of `maybeChangeValue`.
-/
namespace IncrVerif.Proofs.DriverH
open IncrVerif.Engine IncrVerif.Driver IncrVerif.Proofs IncrVerif.Proofs.Step IncrVerif.Proofs.Sched
open IncrVerif.Proofs.ExpertH IncrVerif.Proofs.ExpertH.QR IncrVerif.Proofs.EffH

/-! ## `Drives`, `PS`, `resOp`, `EffOK` between states with the same kinds and records -/

theorem below_congr {s s' : State} (hk : ∀ m, (s'.nodeD m).kind = (s.nodeD m).kind) (hx : s'.experts = s.experts)
    {a d : Nat} (h : ExpertH.Below s a d) : ExpertH.Below s' a d := by
  induction h with
  | refl a => exact .refl a
  | step h1 _ ih => exact .step (by rw [hk, hx]; exact h1) ih

theorem Drives.congr {s s' : State} (hsz : s'.nodes.size = s.nodes.size)
    (hk : ∀ m, (s'.nodeD m).kind = (s.nodeD m).kind) (hx : s'.experts = s.experts)
    (hnd : s'.nextDep = s.nextDep) {n x : Nat} (h : Drives s n x) : Drives s' n x := by
  obtain ⟨h1, e, er, h2, h3, h4⟩ := h
  exact ⟨by rw [hsz]; exact h1, e, er, by rw [hk]; exact h2, by rw [hx]; exact h3, by rw [hnd]; exact h4⟩

/-- `PS` reads only the kinds (nothing below a legal target is an expert node, so no record is read) -/
theorem PS.kept {s s' : State} (hsz : s'.nodes.size = s.nodes.size)
    (hk : ∀ m, (s'.nodeD m).kind = (s.nodeD m).kind) {c : Nat} (h : PS s c) : PS s' c := by
  obtain ⟨h1, h2⟩ := h
  refine ⟨by rw [hsz]; exact h1, ?_⟩
  have key : ∀ a d, ExpertH.Below s' a d → (∀ d, ExpertH.Below s a d → ∀ e, (s.nodeD d).kind ≠ .expert e) →
      ExpertH.Below s a d := by
    intro a d hb
    induction hb with
    | refl a => intro _; exact .refl a
    | @step a b d h1 _ ih =>
      intro ha
      have hne := ha a (.refl a)
      have hkid : b ∈ kidsX s.experts (s.nodeD a).kind := by
        rw [hk] at h1
        cases hka : (s.nodeD a).kind with
        | expert e => exact absurd hka (hne e)
        | _ => rw [hka] at h1; exact h1
      exact .step hkid (ih fun d hd => ha d (.step hkid hd))
  intro d hd e
  rw [hk]
  exact h2 d (key c d hd h2) e

theorem resOp_congr {s s' : State} (ht : s'.top = s.top) (o : Opnd) : resOp s' o = resOp s o := by
  cases o <;> simp only [resOp, ht]

theorem EffOK.of_kept {s s' : State} (hsz : s'.nodes.size = s.nodes.size)
    (hk : ∀ m, (s'.nodeD m).kind = (s.nodeD m).kind) (ht : s'.top = s.top)
    (hD : ∀ m x, Drives s m x → Drives s' m x) {n : Nat} {eff : Effect} (h : EffOK s n eff) : EffOK s' n eff := by
  cases eff <;> simp only [EffOK] at h ⊢ <;> try exact h
  · obtain ⟨x, c, h1, h2, h3, h4⟩ := h
    exact ⟨x, c, by rw [resOp_congr ht]; exact h1, by rw [resOp_congr ht]; exact h2, hD _ _ h3, h4.kept hsz hk⟩
  · obtain ⟨x, h1, h3⟩ := h
    exact ⟨x, by rw [resOp_congr ht]; exact h1, hD _ _ h3⟩
  · obtain ⟨x, h1, h3, h4⟩ := h
    refine ⟨x, by rw [resOp_congr ht]; exact h1, hD _ _ h3, fun t ht' => ?_⟩
    obtain ⟨c, k1, k2⟩ := h4 t ht'
    exact ⟨c, by rw [resOp_congr ht]; exact k1, k2.kept hsz hk⟩
  · obtain ⟨x, h1, h3⟩ := h
    exact ⟨x, by rw [resOp_congr ht]; exact h1, hD _ _ h3⟩

/-- the well-formedness of drivers along a step that keeps the kinds, `top`, the size and the protected edges -/
theorem drvOK_frameM {env : Env} {s s' : State} (h : DrvOK env s) (hsz : s'.nodes.size = s.nodes.size)
    (hk : ∀ m, (s'.nodeD m).kind = (s.nodeD m).kind) (ht : s'.top = s.top)
    (hD : ∀ m x, Drives s m x → Drives s' m x) : DrvOK env s' := by
  intro n f args hn hkn hf vals eff he
  rw [hsz] at hn
  rw [hk] at hkn
  exact (h n f args hn hkn hf vals eff he).of_kept hsz hk ht hD

/-! ## `started` -/

theorem started_size (n : Nat) (s : State) : (started n s).nodes.size = s.nodes.size := by simp [started]

theorem started_kind (n : Nat) (s : State) (m : Nat) : ((started n s).nodeD m).kind = (s.nodeD m).kind := by
  rw [started_nodeD]; split <;> rfl

theorem started_dnKey (n : Nat) (s : State) (m : Nat) : dnKey ((started n s).nodeD m) = dnKey (s.nodeD m) := by
  rw [started_nodeD]; split <;> rfl

theorem started_value_field (n : Nat) (s : State) (m : Nat) :
    ((started n s).nodeD m).value = (s.nodeD m).value ∧ ((started n s).nodeD m).changedAt = (s.nodeD m).changedAt := by
  rw [started_nodeD]; split <;> exact ⟨rfl, rfl⟩

theorem started_isNecessary (n : Nat) (s : State) (m : Nat) : (started n s).isNecessary m = s.isNecessary m := by
  unfold State.isNecessary
  rw [started_nodeD]; split <;> rfl

theorem Drives.to_started {s : State} {n m x : Nat} (h : Drives s m x) : Drives (started n s) m x :=
  h.congr (started_size n s) (started_kind n s) rfl rfl

theorem Drives.of_started {s : State} {n m x : Nat} (h : Drives (started n s) m x) : Drives s m x :=
  h.congr (started_size n s).symm (fun m => (started_kind n s m).symm) rfl rfl

theorem EffOK.to_started {s : State} {n m : Nat} {eff : Effect} (h : EffOK s m eff) : EffOK (started n s) m eff :=
  h.of_kept (started_size n s) (started_kind n s) rfl (fun _ _ => Drives.to_started)

/-! ## the children of a valid expert node -/

theorem children_expert {s : State} {x e : Nat} {er : ExpertRec} (hv : (s.nodeD x).valid = true)
    (hk : (s.nodeD x).kind = .expert e) (he : s.experts[e]? = some er) :
    s.children x = er.children.map (·.child) := by
  unfold State.children Node.kind?
  rw [if_pos hv, hk]
  simp only [he]

/-- the driver `n` is a child of every expert node whose record it may edit -/
theorem driver_child {E : Env} {s : State} (F : XFrag E s) {n e x : Nat}
    (hD : DOf (started n s) n e) (hk : (s.nodeD x).kind = .expert e) : n ∈ s.children x := by
  obtain ⟨x', hd, hk'⟩ := hD
  rw [started_kind] at hk'
  have hxx : x' = x := F.xinj hk' hk
  subst hxx
  obtain ⟨hlt, e1, er, h2, h3, ed, h4, h5, -⟩ := hd.of_started
  rw [hk] at h2
  cases h2
  rw [children_expert (F.valid x' hlt) hk h3]
  exact List.mem_map.2 ⟨ed, h4, h5⟩

/-! ## `unstamp` node-wise -/

theorem unstamp_nodeDM (n : Nat) (r : Int) (S : State) (m : Nat) :
    (unstamp n r S).nodeD m =
      if n = m ∧ m < S.nodes.size then { S.nodeD m with recomputedAt := r } else S.nodeD m :=
  nodeD_modify S n m _

theorem unstamp_size (n : Nat) (r : Int) (S : State) : (unstamp n r S).nodes.size = S.nodes.size := by
  simp [unstamp]

theorem unstamp_otherM (n : Nat) (r : Int) (S : State) {m : Nat} (h : m ≠ n) : (unstamp n r S).nodeD m = S.nodeD m := by
  rw [unstamp_nodeDM, if_neg (fun h' => h h'.1.symm)]

theorem unstamp_shape (n : Nat) (r : Int) (S : State) (m : Nat) :
    SameShape ((unstamp n r S).nodeD m) (S.nodeD m) := by
  rw [unstamp_nodeDM]; split
  · exact ⟨rfl, rfl, rfl, rfl, rfl, rfl, rfl, rfl⟩
  · exact SameShape.refl _

theorem unstamp_fields (n : Nat) (r : Int) (S : State) (m : Nat) :
    ((unstamp n r S).nodeD m).value = (S.nodeD m).value ∧
    ((unstamp n r S).nodeD m).changedAt = (S.nodeD m).changedAt ∧
    ((unstamp n r S).nodeD m).heightInRch = (S.nodeD m).heightInRch ∧
    ((unstamp n r S).nodeD m).numOnUpdateHandlers = (S.nodeD m).numOnUpdateHandlers := by
  rw [unstamp_nodeDM]; split <;> exact ⟨rfl, rfl, rfl, rfl⟩

/-- the state in which `maybeChangeValue` starts is the unstamped state up to the stamp of `n` and the log -/
theorem upd_unstamp (n : Nat) (r : Int) (S : State) (es : List Event) (hpc : S.panicCountdown = none) :
    Upd n (unstamp n r S) (logged es S) where
  size := (unstamp_size n r S).symm
  vars := rfl
  stabNum := rfl
  pc := hpc
  rch := rfl
  other _ hm := (unstamp_otherM n r S hm).symm
  shape := unstamp_shape n r S n
  hrch := (unstamp_fields n r S n).2.2.1.symm

/-! ## congruences -/

theorem allStatic_congr {env : Env} {rk : Nat → Nat} {s s' : State} (A : AllStatic env rk s)
    (hsz : s'.nodes.size = s.nodes.size) (hsh : ∀ m, SameShape (s.nodeD m) (s'.nodeD m))
    (hpc : s'.panicCountdown = none) (hsc : s'.currentScope = s.currentScope) : AllStatic env rk s' := by
  refine ⟨hpc, by rw [hsc]; exact A.scope, fun m hm => ?_, A.inj, by rw [hsz]; exact A.top⟩
  rw [hsz] at hm
  have N := A.node m hm
  have sh := hsh m
  exact ⟨by rw [sh.valid]; exact N.valid, by rw [sh.kind]; exact N.kind, by rw [sh.cutoff]; exact N.cutoff,
    by rw [sh.createdIn]; exact N.top, by rw [sh.forceNecessary]; exact N.force,
    by rw [sh.kind]; exact N.kidsLt, by rw [sh.kind, hsz]; exact N.kidsIn⟩

theorem varsOK_congr {s s' : State} (V : VarsOK s) (hsz : s'.nodes.size = s.nodes.size)
    (hk : ∀ m, (s'.nodeD m).kind = (s.nodeD m).kind) (hv : s'.vars = s.vars) : VarsOK s' := by
  refine ⟨fun m c hm hkm => ?_, fun c vc hc => ?_⟩
  · rw [hsz] at hm; rw [hk] at hkm; rw [hv]; exact V.node m c hm hkm
  · rw [hv] at hc; rw [hsz, hk]; exact V.cell c vc hc

/-! ## the state fields along a run of `maybeChangeValue` -/

theorem cfg_mcv {env : Env} {fuel n : Nat} {v : Val} {s s' : State} {r : Option Nat}
    (h : (maybeChangeValue env fuel n v).run.run s = (.ok r, s')) : s'.cfg = s.cfg := by
  have := Poison.FPres.run (fun t => Poison.maybeChangeValue_fr (t := t) env fuel n v) s
  rw [h] at this
  exact this.2.1

/-- `eKey` along a successful `maybeChangeValue` from a state where no node has update handlers (the fields `vars`,
`stabNum`, the number of buckets and the countdown are supplied by the caller: they come from `StepRelB`) -/
theorem eKey_mcv {env : Env} {fuel n : Nat} {v : Val} {s s' : State} {r : Option Nat}
    (hh : ∀ m, (s.nodeD m).numOnUpdateHandlers ≤ 0)
    (hvars : s'.vars = s.vars) (hstab : s'.stabNum = s.stabNum)
    (hq : s'.rch.queues.size = s.rch.queues.size) (hpc : s'.panicCountdown = s.panicCountdown)
    (h : (maybeChangeValue env fuel n v).run.run s = (.ok r, s')) : eKey s' = eKey s := by
  have C : Calm s s' := (PresC.maybeChangeValue env fuel n v).h _ _ _ h
  have K : KeyD s s' := (PresK.maybeChangeValue env fuel n v).h _ _ _ h
  have hcfg := cfg_mcv h
  have hK : stateKeyD s' = stateKeyD s := K
  simp only [stateKeyD, Prod.mk.injEq] at hK
  obtain ⟨k1, k2, k3, k4, -, k6, k7, k8, -, -, -⟩ := hK
  simp only [eKey, hvars, k8, hstab, C.status, hcfg, k3, k1, C.newObservers, C.disallowedObservers, k2,
    C.setDuringStab, C.deadVars, C.has hh, k7, k4, k6, hq, hpc]

end IncrVerif.Proofs.DriverH
