import IncrVerif.Proofs.OnceF5
import IncrVerif.Proofs.GateF3
/-!
# C06, combined fragment, part 4: NON-VACUITY — the theorem applies at every `stabilise` of the example histories `exHistF` / `exHistG` of `C01Full`; the reasons for which
the nodes of some of these drains run, and the stamps after the round in which a cutoff suppresses a change, are computed by the kernel
-/
namespace IncrVerif.Proofs.GateF
open IncrVerif.Engine IncrVerif.Driver IncrVerif.Proofs IncrVerif.Proofs.Step IncrVerif.Proofs.Sched IncrVerif.Proofs.Quiet
open IncrVerif.Proofs.FullH IncrVerif.Proofs.TidyH IncrVerif.Proofs.BindH IncrVerif.Proofs.OnceF

/-- for the `stabilise` that follows the history `acts` (run from `State.init 128 true` in `fEnv`): the steps of its drain (`drainSteps` of the state `t2` reached by the two
observer phases — the `t2` of `GateStab`), each as (node, is it stale at that moment, its `recomputedAt` at that moment, its children that changed after it last ran) -/
def EX.whyAfter (acts : List Action) : Option (List (Nat × Bool × Int × List Nat)) :=
  match C2h.stateB fEnv acts with
  | none => none
  | some s =>
    match (addNewObservers fEnv fuelDefault).run.run { s with status := .stabilising } with
    | (.ok _, t1) =>
      match (unlinkDisallowedObservers fuelDefault).run.run t1 with
      | (.ok _, t2) => some ((drainSteps fEnv fuelDefault t2).map fun p =>
          (p.1, p.2.isStale p.1, (p.2.nodeD p.1).recomputedAt,
            (p.2.children p.1).filter fun c => (p.2.nodeD c).changedAt > (p.2.nodeD p.1).recomputedAt))
      | _ => none
    | _ => none

/-- C06 holds at every `stabilise` of `exHistF` -/
theorem exHistF_c06 {as bs : List Action} (e : exHistF = as ++ Action.stabilise :: bs) :
    ∃ s tk s1 tk1 s2, Quiet.runActions fEnv exHistF (State.init 128 true) #[] = .ok (s, tk) ∧
      Quiet.runActions fEnv as (State.init 128 true) #[] = .ok (s1, tk1) ∧
      (stabilise fEnv fuelDefault).run.run s1 = (.ok (), s2) ∧
      GateStab fEnv fuelDefault s1 s2 ∧ NeverLost s1 s2 ∧
      Quiet.runActions fEnv bs s2 tk1 = .ok (s, tk) := by
  obtain ⟨s, tk, h⟩ := exHistF_runs
  have hH := exHistF_frag
  have h0 := h
  rw [e] at h hH
  obtain ⟨s1, tk1, s2, k1, -, k3, -, k5, k6, k7⟩ := history_c06 fEnv_envS fEnv_first hH h
  exact ⟨s, tk, s1, tk1, s2, h0, k1, k3, k5, k6, k7⟩

/-- C06 holds at every `stabilise` of `exHistG` -/
theorem exHistG_c06 {as bs : List Action} (e : exHistG = as ++ Action.stabilise :: bs) :
    ∃ s tk s1 tk1 s2, Quiet.runActions fEnv exHistG (State.init 128 true) #[] = .ok (s, tk) ∧
      Quiet.runActions fEnv as (State.init 128 true) #[] = .ok (s1, tk1) ∧
      (stabilise fEnv fuelDefault).run.run s1 = (.ok (), s2) ∧
      GateStab fEnv fuelDefault s1 s2 ∧ NeverLost s1 s2 ∧
      Quiet.runActions fEnv bs s2 tk1 = .ok (s, tk) := by
  obtain ⟨s, tk, h⟩ := exHistG_runs
  have hH := exHistG_frag
  have h0 := h
  rw [e] at h hH
  obtain ⟨s1, tk1, s2, k1, -, k3, -, k5, k6, k7⟩ := history_c06 fEnv_envS fEnv_first hH h
  exact ⟨s, tk, s1, tk1, s2, h0, k1, k3, k5, k6, k7⟩

set_option maxRecDepth 100000 in
/-- why the nodes of three drains of `exHistF` run (kernel-checked).  Round 1 (after writing only the third component of the pair variable 0): the variable was written; the
map_ref node 5 and the map_ref node 12 because their child 0 changed; 13 because 12 changed; … — NOT 6, 7 (children of 5, whose projection is unchanged).  Round 2 (first
component written): now 6 runs because 5 changed, 7 because 6 changed.  Round 3 (the lhs flips): the change detector 3 because of the variable 1, the fresh node 14 because it
never ran (`recomputedAt = -1`), the main node 4 because of both. -/
theorem exHistF_why :
    EX.whyAfter (exHistF.take 7) = some [(0, true, 0, []), (5, true, 0, [0]), (12, true, 0, [0]), (13, true, 0, [12]), (10, true, 0, [13]),
      (11, true, 0, [10]), (4, true, 0, [11])] ∧
    EX.whyAfter (exHistF.take 9) = some [(0, true, 1, []), (5, true, 1, [0]), (6, true, 0, [5]), (7, true, 0, [6]), (12, true, 1, [0]),
      (8, true, 0, [7]), (11, true, 1, [8]), (4, true, 1, [11])] ∧
    EX.whyAfter (exHistF.take 11) = some [(1, true, 0, []), (3, true, 0, [1]), (14, true, -1, []), (4, true, 2, [3, 14])] :=
  ⟨by decide +kernel, by decide +kernel, by decide +kernel⟩

set_option maxRecDepth 100000 in
/-- the same for the second `stabilise` of `exHistG` (`depend_on`, after `set 2`): the fresh nodes 17, 18 of the new generation have never run, every other node has a child
that changed -/
theorem exHistG_why :
    EX.whyAfter (exHistG.take 12) = some [(2, true, 0, []), (6, true, 0, [2]), (12, true, 0, [2]), (17, true, -1, [0]), (18, true, -1, [17]),
      (11, true, 0, [2]), (13, true, 0, [12, 18]), (14, true, 0, [11]), (4, true, 0, [14]), (5, true, 0, [4, 2])] := by
  decide +kernel

set_option maxRecDepth 100000 in
set_option synthInstance.maxSize 1024 in
/-- THE GATE IS VISIBLE: the state after the second `stabilise` of `exHistF` (round 1; only the third component of the pair variable 0 was written), as
(`stabNum`, [(`recomputedAt`, `changedAt`, children, necessary) of the nodes 0, 5, 6, 7, 12, 13]): the variable 0 and the map_ref nodes 5 and 12 ran in round 1; the result of 5
(the first projection) is unchanged and ITS `changedAt` STAYS 0, so its necessary parent 6 and the machine 7 above it did NOT run (`recomputedAt = 0`); 12's projection
changed (`changedAt = 1`) and its necessary parent 13 ran (`recomputedAt = 1`) -/
theorem exHistF_gate :
    (C2h.stateB fEnv (exHistF.take 8)).map (fun s => (s.stabNum, [0, 5, 6, 7, 12, 13].map fun m =>
        ((s.nodeD m).recomputedAt, (s.nodeD m).changedAt, s.children m, s.isNecessary m))) =
      some (2, [(1, 1, [], true), (1, 0, [0], true), (0, 0, [5], true), (0, 0, [6], true), (1, 1, [0], true), (1, 1, [12], true)]) := by
  decide +kernel

end IncrVerif.Proofs.GateF
