import IncrVerif.Proofs.HeapWF
import IncrVerif.Proofs.Poison
/-!
# Helper lemmas for C13, part 2: what an empty recompute heap means for a well-formed heap

Kept apart from `Proofs/Poison.lean` because `Proofs/HeapWF.lean` registers `@[spec]` lemmas about the
same programs (nothing here uses `mvcgen`).
-/
namespace IncrVerif.Proofs.Poison
open IncrVerif.Engine IncrVerif.Proofs

theorem all_nil_of_sum_length_zero (l : List (List Nat)) (h : (l.map List.length).sum = 0) :
    ∀ x ∈ l, x = [] := by
  induction l with
  | nil => intro x hx; cases hx
  | cons a l ih =>
    simp only [List.map_cons, List.sum_cons] at h
    intro x hx
    rcases List.mem_cons.1 hx with rfl | hx
    · exact List.eq_nil_of_length_eq_zero (by omega)
    · exact ih (by omega) x hx

/-- well-formed heap of length 0: every bucket is empty and no node is marked as queued -/
theorem nothing_queued {s : State} (h : HeapWF s) (hl : s.rch.length = 0) :
    (∀ (k : Nat) (hk : k < s.rch.queues.size), s.rch.queues[k] = []) ∧
      ∀ n, n < s.nodes.size → (s.nodeD n).heightInRch = -1 := by
  have hsum : bucketSum s.rch.queues = 0 := by rw [← h.length]; exact hl
  have hall := all_nil_of_sum_length_zero _ hsum
  have hb : ∀ (k : Nat) (hk : k < s.rch.queues.size), s.rch.queues[k] = [] := by
    intro k hk
    exact hall _ (by simp)
  refine ⟨hb, ?_⟩
  intro n hn
  rcases h.range n hn with h1 | ⟨h1, h2⟩
  · exact h1
  · exfalso
    have hk : (s.nodeD n).heightInRch.toNat < s.rch.queues.size := by omega
    have := (h.mem _ hk n).2 ⟨hn, by omega⟩
    rw [hb _ hk] at this
    cases this

/-- debug builds, well-formed heap: after a drain that returned, the heap is well-formed and empty,
bucket by bucket and marker by marker -/
theorem drainHeap_nothing_queued (env : Env) (fuel : Nat) (s s' : State) (hwf : HeapWF s)
    (hd : s.cfg.debug = true) (hr : (drainHeap env fuel).run.run s = (.ok (), s')) :
    HeapWF s' ∧ s'.rch.length = 0 ∧
      (∀ (k : Nat) (hk : k < s'.rch.queues.size), s'.rch.queues[k] = []) ∧
      ∀ n, n < s'.nodes.size → (s'.nodeD n).heightInRch = -1 := by
  have h1 : HWF .debug s' := by
    have := (drainHeap_spec env fuel).run s ((HWF_debug_iff s).2 ⟨hwf, hd⟩)
    rw [hr] at this
    exact this
  have h2 := drainHeap_empty_run env fuel s s' hd hr
  exact ⟨h1.heapWF, h2, nothing_queued h1.heapWF h2⟩

end IncrVerif.Proofs.Poison
