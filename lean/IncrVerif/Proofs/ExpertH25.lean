import IncrVerif.Proofs.ExpertH24
/-!
# Expert fragment: simulation of the necessity cascade (`became_necessary`, `add_parent_without_adjusting_heights`)

The tails `match (← getNode n).kind? with | some (.expert e) => … | _ => pure ()`: the actual expert branch is
invisible in the virtual state, whose node is a `fold`.
-/
namespace IncrVerif.Proofs.ExpertH
open IncrVerif.Engine IncrVerif.Driver IncrVerif.Proofs IncrVerif.Proofs.Step IncrVerif.Proofs.Sched

theorem Sim.link (env : Env) (fuel : Nat) :
    (∀ n, Sim (becameNecessary env fuel n) (becameNecessary (virtEnv env) fuel n)) ∧
    (∀ c i p, Sim (addParentWithoutAdjustingHeights env fuel c i p)
      (addParentWithoutAdjustingHeights (virtEnv env) fuel c i p)) := by
  induction fuel with
  | zero =>
    constructor
    · intro n s; unfold becameNecessary; xsim
    · intro c i p s; unfold addParentWithoutAdjustingHeights; xsim
  | succ fuel ih =>
    constructor
    · intro n s
      unfold becameNecessary
      xsim
      all_goals first
        | exact ih.2 _ _ _ _
        | xsim_kind
    · intro c i p s
      unfold addParentWithoutAdjustingHeights
      xsim
      all_goals first
        | exact ih.1 _ _
        | xsim_kind
        | (exfalso; simp_all; done)
      all_goals first
        | xsim_kind
        | skip

theorem Sim.becameNecessary (env : Env) (fuel n : Nat) :
    Sim (Engine.becameNecessary env fuel n) (Engine.becameNecessary (virtEnv env) fuel n) := (Sim.link env fuel).1 n
theorem Sim.addParentWithoutAdjustingHeights (env : Env) (fuel c i p : Nat) :
    Sim (Engine.addParentWithoutAdjustingHeights env fuel c i p)
      (Engine.addParentWithoutAdjustingHeights (virtEnv env) fuel c i p) := (Sim.link env fuel).2 c i p
macro_rules | `(tactic| xsim_leaf) => `(tactic|
  with_reducible exact IncrVerif.Proofs.ExpertH.Sim.becameNecessary _ _ _)
macro_rules | `(tactic| xsim_leaf) => `(tactic|
  with_reducible exact IncrVerif.Proofs.ExpertH.Sim.addParentWithoutAdjustingHeights _ _ _ _ _)

end IncrVerif.Proofs.ExpertH
