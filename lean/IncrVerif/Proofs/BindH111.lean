import IncrVerif.Proofs.BindH109
import IncrVerif.Proofs.BindH110
import IncrVerif.Proofs.BindH105
/-!
# Binds, part 4f: whole histories of programs with binds (fragment F1), all hypotheses discharged

`QG env s := QInv1 env s ∧ GenOK env s` is the invariant of every state reached by a history of the fragment; at every `stabilise` of the history all
conclusions of `stabilise_F1` hold and every in-use observer reads the specification-level from-scratch value `den` of its node.
-/
namespace IncrVerif.Proofs.BindH
open IncrVerif.Engine IncrVerif.Proofs IncrVerif.Proofs.Step IncrVerif.Proofs.Sched IncrVerif.Proofs.Quiet

/-- `stabilise` keeps the invariant between actions (the hypothesis `STAB` of the history lemmas, discharged) -/
theorem stab_F1 (env : Env) : ∀ {fuel : Nat} {s s' : State}, QInv1 env s →
    (stabilise env fuel).run.run s = (.ok (), s') → QInv1 env s' :=
  fun Q h => (stabilise_F1 Q h).inv

/-- the invariant of reachable states: the invariant between actions, and generations are current -/
def QG (env : Env) (s : State) : Prop := QInv1 env s ∧ GenOK env s

/-- **Every API action of the fragment keeps the invariant.** -/
theorem step_F1 {env : Env} {s s' : State} {a : Action} {tokens : Array Nat} {r : String × Array Nat}
    (Q : QG env s) (ha : ActionF1 env s.top.size a) (h : (stepAction env a tokens).run.run s = (.ok r, s')) :
    QG env s' :=
  ⟨step_q1 (stab_F1 env) Q.1 ha h, step_gen Q.1 Q.2 ha h⟩

theorem qg_init (env : Env) (N : Nat) (d : Bool) : QG env (State.init N d) :=
  ⟨qinv1_init env N d, genOK_init env N d⟩

/-- a run of `as ++ bs` from a state satisfying the invariant: the prefix runs and reaches a state satisfying the invariant from which the rest runs -/
theorem runActions_split_F1 {env : Env} {as bs : List Action} {s s' : State} {tk tk' : Array Nat}
    (Q : QG env s) (hH : HistF1 env s.top.size (as ++ bs))
    (h : Quiet.runActions env (as ++ bs) s tk = .ok (s', tk')) :
    ∃ s1 tk1, Quiet.runActions env as s tk = .ok (s1, tk1) ∧ QG env s1 ∧ HistF1 env s1.top.size bs ∧
      Quiet.runActions env bs s1 tk1 = .ok (s', tk') := by
  induction as generalizing s tk with
  | nil => exact ⟨s, tk, rfl, Q, hH, h⟩
  | cons a as ih =>
    simp only [List.cons_append, Quiet.runActions] at h ⊢
    obtain ⟨ha, hrest⟩ := hH
    rcases hx : (stepAction env a tk).run.run s with ⟨_ | r, s1⟩
    · rw [hx] at h; cases h
    · rw [hx] at h
      have Q1 := step_F1 Q ha hx
      have ht := C2h.top_step Q.1.struct.frag.scope ha hx
      have hrest' : HistF1 env s1.top.size (as ++ bs) := by rw [ht]; exact hrest
      exact ih Q1 hrest' h

/-- **Whole histories.** Every state reached from the initial state by a history of the fragment (that runs without panic) satisfies the invariant. -/
theorem history_F1 {env : Env} {N : Nat} {d : Bool} {acts : List Action} {s : State} {tk : Array Nat}
    (hH : HistF1 env 0 acts) (h : Quiet.runActions env acts (State.init N d) #[] = .ok (s, tk)) : QG env s := by
  have hH' : HistF1 env (State.init N d).top.size (acts ++ []) := by rw [List.append_nil]; exact hH
  have h' : Quiet.runActions env (acts ++ []) (State.init N d) #[] = .ok (s, tk) := by
    rw [List.append_nil]; exact h
  obtain ⟨s1, tk1, -, Q1, -, h2⟩ := runActions_split_F1 (qg_init env N d) hH' h'
  simp only [Quiet.runActions] at h2
  cases h2
  exact Q1

/-- **Every `stabilise` of a history.** At each `stabilise` action of a history of the fragment that runs from the initial state: the state `s1` before it satisfies
the invariant; the `stabilise` returns a state `s2` with all conclusions of `stabilise_F1` (invariant again, values = `evalB`, the drain ran no node twice and no node of
a dying generation); and every in-use observer reads the FROM-SCRATCH value `den` of its node: evaluate the lhs of each bind, run the closure on that value, evaluate the
template it returns. -/
theorem history_stabilise_F1 {env : Env} {N : Nat} {d : Bool} {as bs : List Action} {s : State} {tk : Array Nat}
    (hH : HistF1 env 0 (as ++ Action.stabilise :: bs))
    (h : Quiet.runActions env (as ++ Action.stabilise :: bs) (State.init N d) #[] = .ok (s, tk)) :
    ∃ s1 tk1 s2, Quiet.runActions env as (State.init N d) #[] = .ok (s1, tk1) ∧ QG env s1 ∧
      (stabilise env fuelDefault).run.run s1 = (.ok (), s2) ∧ Stabilised1 env fuelDefault s1 s2 ∧ QG env s2 ∧
      (∀ (o : Nat) (ob : ObsRec), s2.observers[o]? = some ob → ob.state = .inUse →
        ∃ v, s2.tryGetValue env o = .ok v ∧ ∀ k, ob.node < k → den env s2 k ob.node = some v) ∧
      Quiet.runActions env bs s2 tk1 = .ok (s, tk) := by
  obtain ⟨s1, tk1, h1, Q1, hH1, h2⟩ := runActions_split_F1 (qg_init env N d) hH h
  simp only [Quiet.runActions] at h2
  rcases hx : (stepAction env .stabilise tk1).run.run s1 with ⟨_ | r, s2⟩
  · rw [hx] at h2; cases h2
  · rw [hx] at h2
    replace h2 : Quiet.runActions env bs s2 r.2 = .ok (s, tk) := h2
    have hst := Quiet.step_stabilise hx
    have htk : r.2 = tk1 := by
      unfold stepAction at hx
      dsimp only at hx
      obtain ⟨u, s3, h3, h4⟩ := bind_ok_inv hx
      obtain ⟨e, -⟩ := pure_ok_inv h4
      rw [e]
    rw [htk] at h2
    have S := stabilise_F1 Q1.1 hst
    exact ⟨s1, tk1, s2, h1, Q1, hst, S, ⟨S.inv, stabilise_gen Q1.1 Q1.2 hst⟩,
      stabilise_reads_den Q1.1 Q1.2 hst, h2⟩

/-! ## the example history (`C2hx.lean`) -/

/-- the example history — two vars, `bind b0 v0` (closure 0 creates `map f0 [n1, n1]` on an even lhs, `map f0 [n1]` on an odd one), observe, stabilise, `v0 := 1` (the
closure variant switches: the old node is invalidated, a new one created), stabilise, `v1 := 5`, stabilise — is a history of the fragment, it runs, every state it reaches
satisfies the invariant, and the reads after the three stabilises are `1 + 1`, `1`, `5` -/
theorem exHistB_F1 : HistF1 bEnv 0 exHistB ∧
    (∃ s tk, Quiet.runActions bEnv exHistB (State.init 128 true) #[] = .ok (s, tk) ∧ QG bEnv s) := by
  refine ⟨exHistB_frag, ?_⟩
  obtain ⟨s, tk, h⟩ := exHistB_runs
  exact ⟨s, tk, h, history_F1 exHistB_frag h⟩

end IncrVerif.Proofs.BindH
