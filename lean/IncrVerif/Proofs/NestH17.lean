import IncrVerif.Proofs.NestH6
import IncrVerif.Proofs.BindH59
/-!
# Nested binds (F2), `adjustHeights`, part 1: the loop (port of `CA2` = `BindH59` from `LoopHyp` to `LoopHyp2`)

`CA1` (= `BindH58`: `AInvR` and its elementary steps, `ehr_step`) is generic in the rank `rk` and the relation `E` of height pairs and is REUSED as it is;
so are `SP`, `HP`, `LoopSpecR` of `CA2`.  The only F1 assumption baked into `CA2` is the field `LoopHyp.lc` ("the change detector of EVERY bind record is
valid"): with nesting the records of dead inner binds stay in the table and their change detectors are invalid.  `LoopHyp2` asks for validity only for records
that still have a registered node (`All2.gen` + `All2.scopeValid`); the kind of the change detector is known for every record (`All2.recs`).

The rank argument is unchanged: every height pair (recorded edge, or scope pair change detector → necessary registered node of its scope) goes UP in rank
(`up`), so the nodes put into the adjust-heights heap have rank ≥ the rank of the first raised node `B`, nodes of smaller rank are untouched.  With nesting a
registered node `r` of the popped change detector `c = lc_b` may itself be an inner change detector `lc_b2`: `ensureHeightRequirement c r` raises it and puts
it into the heap (a scope pair `(lc_b, lc_b2)` of `HP`); when IT is popped, its own scope pairs `(lc_b2, r')` are "still to be looked at" (`X`) and the second
loop runs over the registered nodes of `b2`.  Nothing in the invariant `AInvR` distinguishes the two cases.
-/
namespace IncrVerif.Proofs.NestH
open IncrVerif.Engine IncrVerif.Proofs IncrVerif.Proofs.Step IncrVerif.Proofs.Sched IncrVerif.Proofs.Quiet
open IncrVerif.Proofs.BindH

namespace NA
open BA CA

/-- the static facts about `s0` the loop needs (F2): height pairs go up in rank; change detectors know their bind; the change detector of a bind that
has a registered node is valid -/
structure LoopHyp2 (rk : Nat → Nat) (s0 : State) : Prop where
  up : ∀ x q, HP s0 x q → rk x < rk q
  lcKind : ∀ b br, s0.binds[b]? = some br → (s0.nodeD br.lhsChange).kind = .bindLhsChange b
  lcValid : ∀ (b : Nat) (br : BindRec) (r : Nat), s0.binds[b]? = some br → r ∈ br.allNodesCreatedOnRhs → (s0.nodeD br.lhsChange).valid = true
  lcRec : ∀ n b br, n < s0.nodes.size → (s0.nodeD n).kind = .bindLhsChange b → s0.binds[b]? = some br →
    br.lhsChange = n

variable {rk : Nat → Nat}

/-- the kind of a change detector, in any later state -/
theorem LoopHyp2.kind? {s0 t : State} (H : LoopHyp2 rk s0) (R : HRel s0 t) {b r : Nat} {br : BindRec}
    (hb : s0.binds[b]? = some br) (hr : r ∈ br.allNodesCreatedOnRhs) :
    (t.nodeD br.lhsChange).kind? = some (.bindLhsChange b) := by
  have h1 := H.lcValid b br r hb hr
  have h2 := H.lcKind b br hb
  unfold Node.kind?
  rw [R.valid, R.kind, h1, h2]
  rfl

/-- the loop over the parents of the popped node `c` -/
theorem parents_loop2 {B : Nat} {s0 s t : State} {oc op c : Nat} {nd : Node} (H : LoopHyp2 rk s0)
    (hndD : s.nodeD c = nd)
    {f : Nat × Nat → PUnit → M (ForInStep PUnit)}
    (hf : ∀ a u x u', (f a PUnit.unit).run.run u = (.ok x, u') →
      x = .yield PUnit.unit ∧ (ensureHeightRequirement oc op c a.1).run.run u = (.ok (), u'))
    (hfor : (forIn nd.parents PUnit.unit f).run.run s = (.ok PUnit.unit, t))
    (A : AInvR rk (HP s0) B s0 s (fun x _ => x = c) noY)
    (hlb : ∀ q, HP s0 c q → s.ahh.lowerBound ≤ (s.nodeD q).height) (hB : rk B ≤ rk c) :
    AInvR rk (HP s0) B s0 t (fun x q => x = c ∧ SP s0 c q) noY ∧ t.ahh.lowerBound = s.ahh.lowerBound ∧
      ∀ m, (s.nodeD m).height ≤ (t.nodeD m).height := by
  have hloop := forIn_ok_inv f nd.parents
    (fun j (_ : PUnit) (t : State) =>
      AInvR rk (HP s0) B s0 t
        (fun x q => x = c ∧ ((∃ i k, j ≤ k ∧ nd.parents[k]? = some (q, i)) ∨ SP s0 c q)) noY ∧
        t.ahh.lowerBound = s.ahh.lowerBound ∧ ∀ m, (s.nodeD m).height ≤ (t.nodeD m).height)
    (by
      intro j a b t r t' hj ⟨At, hlbt, hgrow⟩ hbody
      obtain ⟨hr, ha⟩ := hf a t r t' hbody
      refine ⟨_, hr, ?_⟩
      have hmem : (a.1, a.2) ∈ (s.nodeD c).parents := by
        rw [hndD]; exact List.mem_of_getElem? hj
      have hmem0 : HP s0 c a.1 := Or.inl ⟨a.2, by rw [← A.rel.parents]; exact hmem⟩
      have hrk := H.up c a.1 hmem0
      have hca : c ≠ a.1 := fun e => by rw [← e] at hrk; omega
      obtain ⟨At1, hr1, hlb1⟩ := ehr_step ha At (fun x q hx => hx.1) hca
        (by
          rw [hlbt]
          have := hlb a.1 hmem0
          have := hgrow a.1
          omega)
        (by omega)
      refine ⟨At1.mono ?_ (fun _ hy => hy), by rw [hlb1, hlbt], fun m => ?_⟩
      · rintro x q - ⟨⟨hx, hq⟩, hqa⟩
        refine ⟨hx, ?_⟩
        rcases hq with ⟨i, k, hk, hkq⟩ | hq
        · left
          refine ⟨i, k, ?_, hkq⟩
          rcases Nat.lt_or_ge j k with hlt | hge
          · exact hlt
          · have : k = j := by omega
            rw [this, hj] at hkq
            cases hkq
            exact absurd rfl hqa
        · exact Or.inr hq
      · exact Int.le_trans (hgrow m) (hr1.height m))
    nd.parents 0 PUnit.unit s _ t (by simp) (Nat.zero_le _)
    ⟨A.mono (by
        intro x q hm hx
        refine ⟨hx, ?_⟩
        rw [hx] at hm
        rcases hm with ⟨i, hm⟩ | hm
        · left
          rw [← A.rel.parents, hndD] at hm
          obtain ⟨k, hk⟩ := List.mem_iff_getElem?.1 hm
          exact ⟨i, k, Nat.zero_le _, hk⟩
        · exact Or.inr hm) (fun _ hy => hy), rfl, fun _ => Int.le_refl _⟩ hfor
  obtain ⟨At, h2, h3⟩ := hloop
  refine ⟨At.mono ?_ (fun _ hy => hy), h2, h3⟩
  rintro x q - ⟨hx, hq⟩
  refine ⟨hx, ?_⟩
  rcases hq with ⟨i, k, hk, hkq⟩ | hq
  · rw [List.getElem?_eq_none hk] at hkq
    cases hkq
  · exact hq

/-- the loop over the registered nodes of the scope of the popped change detector `c` -/
theorem scope_loop2 {B : Nat} {s0 s t t' : State} {oc op c b : Nat} {br : BindRec} (H : LoopHyp2 rk s0)
    (hb : s0.binds[b]? = some br) (hc : br.lhsChange = c)
    {f : Nat → PUnit → M (ForInStep PUnit)}
    (hf : ∀ r u x u', (f r PUnit.unit).run.run u = (.ok x, u') → x = .yield PUnit.unit ∧
      ((u.isNecessary r = true ∧ (ensureHeightRequirement oc op c r).run.run u = (.ok (), u')) ∨
        (u.isNecessary r = false ∧ u' = u)))
    (hfor : (forIn br.allNodesCreatedOnRhs PUnit.unit f).run.run t = (.ok PUnit.unit, t'))
    (A : AInvR rk (HP s0) B s0 t (fun x q => x = c ∧ SP s0 c q) noY)
    (hlbt : t.ahh.lowerBound = s.ahh.lowerBound) (hgrow : ∀ m, (s.nodeD m).height ≤ (t.nodeD m).height)
    (hlb : ∀ q, HP s0 c q → s.ahh.lowerBound ≤ (s.nodeD q).height) (hB : rk B ≤ rk c) :
    AInvR rk (HP s0) B s0 t' noXR noY := by
  have hloop := forIn_ok_inv f br.allNodesCreatedOnRhs
    (fun j (_ : PUnit) (u : State) =>
      AInvR rk (HP s0) B s0 u
        (fun x q => x = c ∧ s0.isNecessary q = true ∧ ∃ k, j ≤ k ∧ br.allNodesCreatedOnRhs[k]? = some q) noY ∧
        u.ahh.lowerBound = s.ahh.lowerBound ∧ ∀ m, (s.nodeD m).height ≤ (u.nodeD m).height)
    (by
      intro j a _ u r u' hj ⟨Au, hlbu, hgrowu⟩ hbody
      obtain ⟨hr, hcase⟩ := hf a u r u' hbody
      refine ⟨_, hr, ?_⟩
      rcases hcase with ⟨hn, ha⟩ | ⟨hn, e⟩
      · have hn0 : s0.isNecessary a = true := by rw [← Au.rel.nec]; exact hn
        have hmem0 : HP s0 c a := Or.inr ⟨b, br, hb, hc, List.mem_of_getElem? hj, hn0⟩
        have hrk := H.up c a hmem0
        have hca : c ≠ a := fun e => by rw [← e] at hrk; omega
        obtain ⟨Au1, hr1, hlb1⟩ := ehr_step ha Au (fun x q hx => hx.1) hca
          (by
            rw [hlbu]
            have := hlb a hmem0
            have := hgrowu a
            omega)
          (by omega)
        refine ⟨Au1.mono ?_ (fun _ hy => hy), by rw [hlb1, hlbu], fun m => ?_⟩
        · rintro x q - ⟨⟨hx, hq, k, hk, hkq⟩, hqa⟩
          refine ⟨hx, hq, k, ?_, hkq⟩
          rcases Nat.lt_or_ge j k with hlt | hge
          · exact hlt
          · have : k = j := by omega
            rw [this, hj] at hkq
            cases hkq
            exact absurd rfl hqa
        · exact Int.le_trans (hgrowu m) (hr1.height m)
      · rw [e]
        refine ⟨Au.mono ?_ (fun _ hy => hy), hlbu, hgrowu⟩
        rintro x q - ⟨hx, hq, k, hk, hkq⟩
        refine ⟨hx, hq, k, ?_, hkq⟩
        rcases Nat.lt_or_ge j k with hlt | hge
        · exact hlt
        · have : k = j := by omega
          rw [this, hj] at hkq
          cases hkq
          rw [← Au.rel.nec, hn] at hq
          cases hq)
    br.allNodesCreatedOnRhs 0 PUnit.unit t _ t' (by simp) (Nat.zero_le _)
    ⟨A.mono (by
        rintro x q - ⟨hx, b', br', hb', hc', hmem, hn⟩
        refine ⟨hx, hn, ?_⟩
        have e1 := H.lcKind b br hb
        have e2 := H.lcKind b' br' hb'
        rw [hc] at e1
        rw [hc', e1] at e2
        injection e2 with e2
        subst e2
        rw [hb] at hb'
        cases hb'
        obtain ⟨k, hk⟩ := List.mem_iff_getElem?.1 hmem
        exact ⟨k, Nat.zero_le _, hk⟩) (fun _ hy => hy), hlbt, hgrow⟩ hfor
  obtain ⟨At, -, -⟩ := hloop
  refine At.mono ?_ (fun _ hy => hy)
  rintro x q - ⟨-, -, k, hk, hkq⟩
  rw [List.getElem?_eq_none hk] at hkq
  cases hkq

/-- the tail of one iteration of the loop, after the popped node has been re-bucketed -/
theorem tail_spec2 {B : Nat} {s0 s s' : State} {oc op c fuel : Nat} (H : LoopHyp2 rk s0)
    (ih : LoopSpecR rk B s0 oc op fuel)
    (h : (loopTail oc op c fuel).run.run s = (.ok (), s'))
    (A : AInvR rk (HP s0) B s0 s (fun x _ => x = c) noY)
    (hlb : ∀ q, HP s0 c q → s.ahh.lowerBound ≤ (s.nodeD q).height) (hB : rk B ≤ rk c) :
    AInvR rk (HP s0) B s0 s' noXR noY ∧ AhhEmpty s' := by
  unfold loopTail at h
  obtain ⟨nd, hnd, h⟩ := bind_getNode_inv h
  have hndD : s.nodeD c = nd := nodeD_of_some hnd
  obtain ⟨_, t, hfor, h⟩ := bind_ok_inv h
  -- the loop over the parents of `c`
  obtain ⟨At, hlbt, hgrow⟩ := parents_loop2 H hndD
    (by
      intro a u x u' hbody
      obtain ⟨_, u1, ha, hbody⟩ := bind_ok_inv hbody
      obtain ⟨hr, hu'⟩ := pure_ok_inv hbody
      subst hu'
      exact ⟨hr, ha⟩) hfor A hlb hB
  -- the loop over the registered nodes of the scope, if `c` is a change detector
  obtain ⟨nd', hnd', h⟩ := bind_getNode_inv h
  have hndD' : t.nodeD c = nd' := nodeD_of_some hnd'
  dsimp only at h
  split at h
  · rename_i b hkb
    obtain ⟨br, t1, hb, h⟩ := bind_ok_inv h
    obtain ⟨e2, hbr⟩ := getBind_ok_inv hb
    rw [At.rel.binds] at hbr
    obtain ⟨_, t2, hfor2, h⟩ := bind_ok_inv h
    rw [e2] at hfor2
    -- the record of `b` is the record of `c`
    have hc : br.lhsChange = c := by
      apply H.lcRec c b br (by rw [← At.rel.size]; exact lt_of_some hnd') ?_ hbr
      rw [← At.rel.kind, hndD']
      unfold Node.kind? at hkb
      split at hkb
      · injection hkb
      · cases hkb
    have At2 := scope_loop2 H hbr hc
      (by
        intro r u x u' hbody
        rw [run_bind_get] at hbody
        cases hn : u.isNecessary r with
        | true =>
          rw [hn] at hbody
          simp only [if_true] at hbody
          obtain ⟨_, u1, ha, hbody⟩ := bind_ok_inv hbody
          obtain ⟨hr, hu'⟩ := pure_ok_inv hbody
          subst hu'
          exact ⟨hr, Or.inl ⟨rfl, ha⟩⟩
        | false =>
          rw [hn] at hbody
          simp only [Bool.false_eq_true, if_false] at hbody
          obtain ⟨hr, hu'⟩ := pure_ok_inv hbody
          exact ⟨hr, Or.inr ⟨rfl, hu'⟩⟩) hfor2 At hlbt hgrow hlb hB
    exact ih t2 s' h At2
  · rename_i hnk
    refine ih t s' h (At.mono ?_ (fun _ hy => hy))
    rintro x q - ⟨-, b', br', hb', hc', hmem, -⟩
    have := H.kind? At.rel hb' hmem
    rw [hc', hndD'] at this
    exact hnk b' this

theorem loop_spec2 {B : Nat} {s0 : State} {oc op : Nat} (H : LoopHyp2 rk s0) (fuel : Nat) :
    LoopSpecR rk B s0 oc op fuel := by
  induction fuel with
  | zero => intro s s' h; unfold adjustHeightsLoop at h; cases h
  | succ fuel ih =>
    intro s s' h A
    unfold adjustHeightsLoop at h
    obtain ⟨r, s1, h1, h⟩ := bind_ok_inv h
    rcases ahhRemoveMin_ok_inv h1 with ⟨er, e1, hnone⟩ | ⟨c, rest, er, hq, e1⟩
    · rw [er] at h
      obtain ⟨-, e⟩ := pure_ok_inv h
      rw [e, e1]
      exact ⟨A, A.wf.none_empty hnone⟩
    · rw [er] at h
      dsimp only at h
      obtain ⟨A1, hBc, hlb1, key⟩ := A.pop hq
      rw [← e1] at A1 hlb1 key
      obtain ⟨nd, hnd, h⟩ := bind_getNode_inv h
      have hndD : s1.nodeD c = nd := nodeD_of_some hnd
      have hc1 : c < s1.nodes.size := lt_of_some hnd
      by_cases hin : nd.inRch = true
      · rw [if_pos hin] at h
        obtain ⟨_, s2, h2, h⟩ := bind_ok_inv h
        obtain ⟨Q, -, h0, hmax, hQ, e2⟩ := rchIncreaseHeight_ok_inv h2
        have hwf : HeapWF s2 := by
          have := (triple_iff _ _ _ _).1 (rchIncreaseHeight_spec .release c) s1
            ⟨(HWF_release_iff s1).2 A1.heap.wf, Or.inr ⟨s1.nodeD c, some_of_lt hc1, h0, by
              simp only [Heap.maxAllowed] at hmax; omega⟩⟩
          rw [h2] at this
          exact (HWF_release_iff s2).1 this
        rw [e2] at hwf
        have A2 := A1.rebucket hc1 (by rw [hndD]; exact hin) h0 hQ hwf (fun _ hy => hy) hBc
        rw [← e2] at A2
        have key2 : ∀ m, (s2.nodeD m).height = (s1.nodeD m).height := by
          intro m
          rw [e2, nodeD_upd (s := s1) (f := fun y => { y with heightInRch := (s1.nodeD c).height }) rfl hc1]
          split
          · rename_i e; rw [e]
          · rfl
        refine tail_spec2 H ih h A2 ?_ hBc
        intro q hm
        have := hlb1 q hm
        rw [key2 q]
        have e : s2.ahh.lowerBound = s1.ahh.lowerBound := by rw [e2]; rfl
        rw [e]; omega
      · rw [if_neg hin] at h
        have A2 : AInvR rk (HP s0) B s0 s1 (fun x _ => x = c) noY := by
          refine ⟨A1.rel, A1.wf, A1.heap, A1.edge, A1.old, ?_, A1.hle, A1.low, A1.memB⟩
          intro m hq' hm _
          by_cases e : m = c
          · rw [e, hndD] at hq'; exact absurd hq' hin
          · exact A1.hgt m hq' hm e
        refine tail_spec2 H ih h A2 ?_ hBc
        intro q hm
        have := hlb1 q hm
        omega

end NA
end IncrVerif.Proofs.NestH
