import IncrVerif.Proofs.NestH122
/-!
# C11, the HEIGHT-LIMIT clause, part a: `HL s` is kept by every function of the engine THAT RETURNS

`HL s`: every node's height is at most the largest height seen, which is within the limit of the adjust-heights heap; both heaps have the same number of buckets.
The only writer of `height` and `maxHeightSeen` is `setHeight`, which PANICS (`height-limit`) when the new height exceeds the limit — so the invariant is kept by runs
that return `.ok` (not by the panicking run, which leaves `maxHeightSeen` beyond the limit).  `POk m` ("every run of `m` that RETURNS keeps `HL`") is the ok-only
variant of `Step.Pres`; the ladder is the port of `NestH122` (`BKey`), by the same syntactic decomposition.
-/
open IncrVerif.Engine IncrVerif.Proofs IncrVerif.Proofs.Step
namespace IncrVerif.Proofs.AuditF.HLim

structure HL (s : State) : Prop where
  seen0 : 0 ≤ s.maxHeightSeen
  node : ∀ n, (s.nodeD n).height ≤ s.maxHeightSeen
  lim : s.maxHeightSeen ≤ s.ahh.maxAllowed
  same : s.rch.queues.size = s.ahh.queues.size

theorem HL.of_eq {s s' : State} (h : HL s) (hn : s'.nodes = s.nodes) (hm : s'.maxHeightSeen = s.maxHeightSeen)
    (ha : s'.ahh.queues.size = s.ahh.queues.size) (hr : s'.rch.queues.size = s.rch.queues.size) : HL s' :=
  ⟨by rw [hm]; exact h.seen0, fun n => by simp only [State.nodeD, hn, hm]; exact h.node n,
    by rw [hm]; simp only [Heap.maxAllowed, ha]; exact h.lim, by rw [hr, ha]; exact h.same⟩

theorem HL.of_push {s s' : State} {nd : Node} (h : HL s) (hn : s'.nodes = s.nodes.push nd) (hh : nd.height = -1)
    (hm : s'.maxHeightSeen = s.maxHeightSeen)
    (ha : s'.ahh.queues.size = s.ahh.queues.size) (hr : s'.rch.queues.size = s.rch.queues.size) : HL s' := by
  refine ⟨by rw [hm]; exact h.seen0, fun n => ?_, by rw [hm]; simp only [Heap.maxAllowed, ha]; exact h.lim, by rw [hr, ha]; exact h.same⟩
  rw [hm]
  simp only [State.nodeD, hn, Array.getElem?_push]
  split
  · simp only [Option.getD_some, hh]; have := h.seen0; omega
  · exact h.node n

/-- every run of `m` that returns keeps `HL` -/
structure POk {α} (m : M α) : Prop where
  h : ∀ s a s', m.run.run s = (.ok a, s') → HL s → HL s'

theorem POk.pure {α} (a : α) : POk (pure a : M α) := by
  constructor; intro s r s' h; rw [run_pure] at h; cases h; exact id
theorem POk.get : POk (get : M State) := by
  constructor; intro s r s' h; rw [run_get] at h; cases h; exact id
theorem POk.throw {α} (e : Panic) : POk (throw e : M α) := by
  constructor; intro s r s' h; rw [run_throw] at h; cases h
theorem POk.panic {α} (e : String) : POk (IncrVerif.Engine.panic e : M α) := POk.throw _
theorem POk.modify {f : State → State} (hf : ∀ s, HL s → HL (f s)) : POk (modify f : M Unit) := by
  constructor; intro s r s' h; rw [run_modify] at h; cases h; exact hf s
theorem POk.bind {α β} {x : M α} {f : α → M β} (hx : POk x) (hf : ∀ a, POk (f a)) : POk (x >>= f) := by
  constructor
  intro s r s' h H
  rw [run_bind] at h
  rcases hx' : x.run.run s with ⟨r1, s1⟩
  rw [hx'] at h
  cases r1 with
  | ok a => exact (hf a).h s1 r s' h (hx.h s a s1 hx' H)
  | error e => cases h
theorem POk.map {α β} {x : M α} (f : α → β) (hx : POk x) : POk (f <$> x) := by
  rw [map_eq_pure_bind]; exact POk.bind hx (fun _ => POk.pure _)
theorem POk.mapM {α β} {f : α → M β} (hf : ∀ a, POk (f a)) (l : List α) : POk (l.mapM f) := by
  induction l with
  | nil => simp; exact POk.pure _
  | cons a l ih => simp; exact POk.bind (hf a) (fun _ => POk.bind ih (fun _ => POk.pure _))
theorem POk.forIn {α β} (l : List α) (init : β)
    (f : α → β → M (ForInStep β)) (hf : ∀ a b, POk (f a b)) : POk (forIn l init f) := by
  induction l generalizing init with
  | nil => rw [List.forIn_nil]; exact POk.pure _
  | cons a l ih =>
    rw [List.forIn_cons]
    refine POk.bind (hf a init) fun r => ?_
    cases r with
    | done b => exact POk.pure _
    | yield b => exact ih b
theorem POk.of_readonly {α} (m : M α) (h : ∀ s, (m.run.run s).2 = s) : POk m := by
  constructor
  intro s r s' e
  have := h s
  rw [e] at this
  cases this
  exact id
theorem POk.getNode (n) : POk (getNode n) :=
  POk.of_readonly _ fun s => by rw [run_getNode]; cases s.nodes[n]? <;> rfl
theorem POk.getVar (n) : POk (getVar n) :=
  POk.of_readonly _ fun s => by simp only [Engine.getVar, run_bind, run_get]; cases s.vars[n]? <;> rfl
theorem POk.getBind (n) : POk (getBind n) :=
  POk.of_readonly _ fun s => by simp only [Engine.getBind, run_bind, run_get]; cases s.binds[n]? <;> rfl
theorem POk.getExpert (n) : POk (getExpert n) :=
  POk.of_readonly _ fun s => by simp only [Engine.getExpert, run_bind, run_get]; cases s.experts[n]? <;> rfl
theorem POk.dassert (c s) : POk (dassert c s) :=
  POk.of_readonly _ fun t => by rw [run_dassert]; split <;> rfl
theorem POk.assertM (c s) : POk (assertM c s) :=
  POk.of_readonly _ fun t => by rw [run_assertM]; split <;> rfl

syntax "okleaf" : tactic
macro_rules | `(tactic| okleaf) => `(tactic| fail "no leaf")

macro "okstep" : tactic => `(tactic| first
  | with_reducible apply POk.pure | with_reducible apply POk.get | with_reducible apply POk.panic
  | with_reducible apply POk.throw
  | with_reducible apply POk.bind | with_reducible apply POk.map | with_reducible apply POk.mapM
  | with_reducible apply POk.getNode | with_reducible apply POk.dassert
  | with_reducible apply POk.getBind | with_reducible apply POk.getExpert
  | with_reducible apply POk.getVar | with_reducible apply POk.assertM
  | okleaf
  | intro _ | split | dsimp only)

macro "okpres" : tactic => `(tactic| repeat (any_goals okstep))

macro_rules
  | `(tactic| okleaf) => `(tactic| ((with_reducible apply POk.modify); intro _ hHL; exact HL.of_push hHL rfl rfl rfl rfl rfl))
macro_rules
  | `(tactic| okleaf) => `(tactic| ((with_reducible apply POk.modify); intro _ hHL; exact HL.of_eq hHL rfl rfl (by first | rfl | simp) (by first | rfl | simp)))

theorem POk.modNode (n : Nat) (f : Node → Node) (hf : ∀ x, (f x).height = x.height) : POk (modNode n f) := by
  unfold Engine.modNode
  apply POk.modify
  intro s h
  refine ⟨h.seen0, fun m => ?_, h.lim, h.same⟩
  show ((State.nodeD { s with nodes := s.nodes.modify n f } m)).height ≤ s.maxHeightSeen
  rw [nodeD_modify]
  split
  · rw [hf]; exact h.node _
  · exact h.node m
macro_rules
  | `(tactic| okleaf) => `(tactic| ((with_reducible apply POk.modNode); intro _; rfl))

/-- register a `POk` lemma as a leaf -/
macro "ok_leaf " n:ident : command =>
  `(macro_rules | `(tactic| okleaf) => `(tactic| with_reducible apply $n))

/-- **the one writer of heights**: a `setHeight` that RETURNS keeps the invariant -/
theorem POk.setHeight (n h) : POk (setHeight n h) := by
  constructor
  intro s a s' hr H
  unfold Engine.setHeight at hr
  rw [run_bind_get] at hr
  by_cases hgt : h > s.maxHeightSeen
  · rw [if_pos hgt] at hr
    rw [run_bind_modify] at hr
    by_cases hlim : h > s.ahh.maxAllowed
    · rw [if_pos hlim, run_bind, run_panic] at hr
      cases hr
    · rw [if_neg hlim] at hr
      unfold Engine.modNode at hr
      dsimp only at hr
      rw [run_modify] at hr
      cases hr
      refine ⟨?_, fun m => ?_, ?_, H.same⟩
      · show 0 ≤ h; have := H.seen0; omega
      · show (State.nodeD { s with nodes := s.nodes.modify n fun x => { x with height := h } } m).height ≤ h
        rw [nodeD_modify]
        split
        · exact Int.le_refl _
        · have := H.node m; omega
      · show h ≤ s.ahh.maxAllowed; omega
  · rw [if_neg hgt] at hr
    unfold Engine.modNode at hr
    dsimp only at hr
    first | rw [run_modify] at hr | (rw [run_bind, run_pure] at hr; dsimp only at hr; rw [run_modify] at hr)
    cases hr
    refine ⟨H.seen0, fun m => ?_, H.lim, H.same⟩
    show (State.nodeD { s with nodes := s.nodes.modify n fun x => { x with height := h } } m).height ≤ s.maxHeightSeen
    rw [nodeD_modify]
    split
    · show h ≤ _; omega
    · exact H.node m
ok_leaf POk.setHeight

end IncrVerif.Proofs.AuditF.HLim
