import IncrVerif.Proofs.FullT5
/-!
# C04 combined fragment, part 6b: the linking cascade (`becameNecessary`, `addParentWithoutAdjustingHeights`) bisimulates, with fuel `size + 2 * UN + 2`
-/
namespace IncrVerif.Proofs.FullT
set_option linter.unusedSectionVars false
open IncrVerif.Engine IncrVerif.Proofs IncrVerif.Proofs.Step IncrVerif.Proofs.Sched IncrVerif.Proofs.Quiet IncrVerif.Proofs.FullH

/-! ## the measure -/

theorem UN_le_of {s s' : State} (hsz : s'.nodes.size = s.nodes.size)
    (h : ∀ m, s.isNecessary m = true → s'.isNecessary m = true) : UN s' ≤ UN s := by
  unfold UN; rw [hsz]
  apply countP_le_of_imp
  intro m _ hm
  cases h1 : s.isNecessary m with
  | false => rfl
  | true => rw [h m h1] at hm; exact hm

theorem UN_lt_of {s s' : State} (hsz : s'.nodes.size = s.nodes.size)
    (h : ∀ m, s.isNecessary m = true → s'.isNecessary m = true) {c : Nat} (hc : c < s.nodes.size)
    (h0 : s.isNecessary c = false) (h1 : s'.isNecessary c = true) : UN s' < UN s := by
  unfold UN; rw [hsz]
  refine countP_lt_of_imp _ _ _ ?_ c (List.mem_range.2 hc) (by simp [h0]) (by simp [h1])
  intro m _ hm
  cases h1 : s.isNecessary m with
  | false => rfl
  | true => rw [h m h1] at hm; exact hm

theorem UN_eq_of {s s' : State} (hsz : s'.nodes.size = s.nodes.size)
    (h : ∀ m, s'.isNecessary m = s.isNecessary m) : UN s' = UN s := by
  unfold UN; rw [hsz]; congr 1; funext m; rw [h]

/-- the carried invariant of the cascade: `PInv`, `N` nodes with the kind table `kd`, and the fuel bound `N + 2 * UN ≤ F` -/
structure PK (F N : Nat) (kd : Nat → Kind) (s : State) : Prop where
  inv : PInv s
  size : s.nodes.size = N
  kind : ∀ m, (s.nodeD m).kind = kd m
  un : N + 2 * UN s ≤ F

theorem PK.of_frame {F N : Nat} {kd : Nat → Kind} {s s' : State} (h : PK F N kd s) (hi : PInv s')
    (hsz : s'.nodes.size = s.nodes.size) (hk : ∀ m, (s'.nodeD m).kind = (s.nodeD m).kind)
    (hn : ∀ m, s.isNecessary m = true → s'.isNecessary m = true) : PK F N kd s' :=
  ⟨hi, hsz.trans h.size, fun m => (hk m).trans (h.kind m), by have := UN_le_of hsz hn; have := h.un; omega⟩

instance (F N : Nat) (kd : Nat → Kind) : KeepsN (PK F N kd) where
  of_nodes {s s'} h e1 e2 := by
    have hn : ∀ n, s'.nodeD n = s.nodeD n := fun n => by simp [State.nodeD, e1]
    exact h.of_frame (Keeps.of_nodes h.inv e1 e2) (by rw [e1]) (fun m => by rw [hn])
      (fun m hm => by simpa [State.isNecessary, hn] using hm)
  modify {s} n f h hk := by
    refine h.of_frame (Keeps.modify n f h.inv hk) (by simp) (fun m => ?_) (fun m hm => ?_)
    · rw [nodeD_modify]; split
      · exact (hk _).1
      · rfl
    · unfold State.isNecessary at hm ⊢
      rw [nodeD_modify]; split
      · rw [(hk _).2.2.2.2.2]; exact hm
      · exact hm

theorem PK.of_veq {F N : Nat} {kd : Nat → Kind} {g : Nat → Option Val} {s s' : State} (h : PK F N kd s) (v : VEq g s s') :
    PK F N kd s' :=
  h.of_frame (h.inv.of_veq v) v.size v.kind (fun m hm => by rw [v.isNecessary]; exact hm)

theorem PK.mono {F F' N : Nat} {kd : Nat → Kind} {s : State} (h : PK F N kd s) (hF : F ≤ F') : PK F' N kd s :=
  ⟨h.inv, h.size, h.kind, Nat.le_trans h.un hF⟩

/-- recording a sane parent entry keeps the carried invariant -/
theorem PK.addParent {F N : Nat} {kd : Nat → Kind} {s : State} (h : PK F N kd s) {c i p : Nat} (hp : p < N)
    (hedge : ∀ pr j, kd p = .mapRef pr j → j = c) :
    PK F N kd { s with nodes := s.nodes.modify c fun x => { x with parents := x.parents ++ [(p, i)] } } := by
  have hnd := fun m => nodeD_modify s c m (fun x => { x with parents := x.parents ++ [(p, i)] })
  have hk : ∀ m, (({ s with nodes := s.nodes.modify c fun x => { x with parents := x.parents ++ [(p, i)] } } : State).nodeD m).kind
      = (s.nodeD m).kind := fun m => by rw [hnd]; split <;> rfl
  refine h.of_frame ⟨fun n pr j e => h.inv.back n pr j (by rw [← hk]; exact e), fun c' p' i' hm => ?_⟩ (by simp) hk (fun m hm => ?_)
  · have hsz : ({ s with nodes := s.nodes.modify c fun x => { x with parents := x.parents ++ [(p, i)] } } : State).nodes.size
        = s.nodes.size := by simp
    rw [hsz]
    have old : (p', i') ∈ (s.nodeD c').parents → p' < s.nodes.size ∧ ∀ pr j,
        (({ s with nodes := s.nodes.modify c fun x => { x with parents := x.parents ++ [(p, i)] } } : State).nodeD p').kind = .mapRef pr j →
          j = c' := fun hm' => by
      obtain ⟨h1, h2⟩ := h.inv.pu c' p' i' hm'
      exact ⟨h1, fun pr j e => h2 pr j (by rw [← hk]; exact e)⟩
    rw [hnd] at hm; split at hm
    · rename_i e
      rcases List.mem_append.1 hm with hm' | hm'
      · exact old hm'
      · simp only [List.mem_singleton, Prod.mk.injEq] at hm'
        obtain ⟨rfl, rfl⟩ := hm'
        refine ⟨by rw [h.size]; exact hp, fun pr j e' => ?_⟩
        rw [hk, h.kind] at e'
        rw [← e.1]; exact hedge pr j e'
    · exact old hm
  · unfold State.isNecessary at hm ⊢
    rw [hnd]; split
    · simp [Node.isNecessary]
    · exact hm

/-- … and if the child was unnecessary, two units of fuel are gained -/
theorem PK.addParent_lt {F N : Nat} {kd : Nat → Kind} {s s3 : State} (h : PK F N kd s) {c i p : Nat}
    (h3 : PK F N kd s3) (hn : s3.nodes = s.nodes.modify c fun x => { x with parents := x.parents ++ [(p, i)] })
    (hc : c < N) (h0 : (!s.isNecessary c) = true) : 2 ≤ F ∧ PK (F - 2) N kd s3 := by
  have hnd : ∀ m, s3.nodeD m = if c = m ∧ m < s.nodes.size then
      (fun x : Node => { x with parents := x.parents ++ [(p, i)] }) (s.nodeD m) else s.nodeD m := fun m => by
    have := nodeD_modify s c m (fun x : Node => { x with parents := x.parents ++ [(p, i)] })
    rw [← this]; simp [State.nodeD, hn]
  have hlt : UN s3 < UN s := by
    refine UN_lt_of (by rw [h3.size, h.size]) (fun m hm => ?_) (by rw [h.size]; exact hc) (by simpa using h0) ?_
    · unfold State.isNecessary at hm ⊢
      rw [hnd]; split
      · simp [Node.isNecessary]
      · exact hm
    · unfold State.isNecessary
      rw [hnd, if_pos ⟨rfl, by rw [h.size]; exact hc⟩]; simp [Node.isNecessary]
  have := h.un
  exact ⟨by omega, h3.inv, h3.size, h3.kind, by omega⟩

/-- the children of a `map_ref` node -/
theorem PK.hedge {F N : Nat} {kd : Nat → Kind} {s : State} (h : PK F N kd s) {n c : Nat} (hc : c ∈ s.children n) :
    ∀ pr j, kd n = .mapRef pr j → j = c := by
  intro pr j e
  rw [← h.kind] at e
  cases hv : (s.nodeD n).valid
  · simp [State.children, Node.kind?, hv] at hc
  · simp [State.children, Node.kind?, hv, e] at hc
    exact hc.symm

section
variable {K : Kind → Prop} {g : Nat → Option Val} {sp : Nat → Val → Val} {N : Nat} {kd : Nat → Kind}

/-- `markMapRefUnknown` in the cascade -/
theorem BPs.mmu {F fuel n : Nat} (hn : n < N) (hf : F ≤ fuel) :
    BPs K (PK F N kd) g (Engine.markMapRefUnknown fuel n) (Engine.markMapRefUnknown fuel n) := fun s =>
  BP.of (BSimAt.markMapRefUnknown_gen (fun _ v hp => hp.of_veq v) fun hp =>
    markMapRefUnknown_returns_of_size fuel n s hp.inv (by rw [hp.size]; exact hn) (by have := hp.un; rw [hp.size]; omega))

theorem BPs.mmu_noop {F fuel n : Nat} (hn : n < N) (hf : F ≤ fuel) :
    BPs K (PK F N kd) g (Engine.markMapRefUnknown fuel n) (pure ()) := fun s =>
  BP.of (BSimAt.mmu_noop_gen (fun _ v hp => hp.of_veq v) fun hp =>
    markMapRefUnknown_returns_of_size fuel n s hp.inv (by rw [hp.size]; exact hn) (by have := hp.un; rw [hp.size]; omega))

/-- on a node that does not exist both engines panic -/
theorem BP.becameNecessary_ge {F : Nat} (env : Env) (fuel n : Nat) {s : State} (hn : N ≤ n) :
    BP K (PK F N kd) g s (becameNecessary env fuel n) (becameNecessary (virtEnv env sp) fuel n) := by
  intro hp
  have hnone : s.nodes[n]? = none := Array.getElem?_eq_none (by rw [hp.size]; exact hn)
  refine BSimAt.mk' (Sim.becameNecessary env fuel n s) (fun _ _ r s' hr => ?_) (fun _ _ r t hr => ?_)
  · cases fuel with
    | zero => unfold becameNecessary at hr; cases hr
    | succ fuel =>
      unfold becameNecessary at hr
      obtain ⟨nd, hnd, -⟩ := bind_getNode_inv hr
      rw [hnone] at hnd; cases hnd
  · cases fuel with
    | zero => unfold becameNecessary at hr; cases hr
    | succ fuel =>
      unfold becameNecessary at hr
      obtain ⟨nd, hnd, -⟩ := bind_getNode_inv hr
      rw [virt_getElem?, hnone] at hnd; cases hnd

theorem BPs.link (env : Env) (fuel : Nat) :
    (∀ F n, F + 2 ≤ fuel → BPs K (PK F N kd) g (becameNecessary env fuel n) (becameNecessary (virtEnv env sp) fuel n)) ∧
    (∀ F c i p, F + 1 ≤ fuel → p < N → (∀ pr j, kd p = .mapRef pr j → j = c) →
      BPs K (PK F N kd) g (addParentWithoutAdjustingHeights env fuel c i p)
        (addParentWithoutAdjustingHeights (virtEnv env sp) fuel c i p)) := by
  induction fuel with
  | zero =>
    constructor
    · intro F n hf; omega
    · intro F c i p hf; omega
  | succ fuel ih =>
    constructor
    · intro F n hf s
      by_cases hn : n < N
      · unfold becameNecessary
        pbsim
        all_goals first
          | exact BPs.mmu hn (by omega) _
          | exact ih.2 F _ _ n (by omega) hn (hps.hedge (by assumption)) _
          | pbsim_kind
      · exact BP.becameNecessary_ge env _ n (by omega)
    · intro F c i p hf hp hedge s
      unfold addParentWithoutAdjustingHeights
      pbsim_step
      pbsim_step
      pbsim_step
      pbsim_step
      rename_i s1 _
      unfold Engine.addParent
      refine BP.seq (BP.of (BSimAt.modNode' c (by fcomm) (by fkind) fun h => h.addParent hp hedge)) fun _ s2 h2 => ?_
      rw [run_modNode] at h2; cases h2
      refine BP.getNode_seq fun nd hnd hne => ?_
      try fnorm
      have hc : c < N := by
        have := lt_of_some hnd
        rw [← hps.size]; simpa using this
      -- the rest, from a state with the nodes of `s2`
      have rest : ∀ s3 : State, s3.nodes = s1.nodes.modify c (fun x => { x with parents := x.parents ++ [(p, i)] }) →
          BP K (PK F N kd) g s3
            (if (!s1.isNecessary c) = true then do
                becameNecessary env fuel c
                let __do_lift ← getNode p
                match __do_lift.kind? with
                  | some (Kind.expert e) => runEdgeCallback env e i
                  | x => pure ()
              else do
                let cn ← getNode c
                match cn.kind? with
                  | some (Kind.mapRef p_1 input) =>
                    if cn.didChange = true then do
                      markMapRefUnknown fuel p
                      let __do_lift ← getNode p
                      match __do_lift.kind? with
                        | some (Kind.expert e) => runEdgeCallback env e i
                        | x => pure ()
                    else do
                      let __do_lift ← getNode p
                      match __do_lift.kind? with
                        | some (Kind.expert e) => runEdgeCallback env e i
                        | x => pure ()
                  | x => do
                    let __do_lift ← getNode p
                    match __do_lift.kind? with
                      | some (Kind.expert e) => runEdgeCallback env e i
                      | x => pure ())
            (if (!s1.isNecessary c) = true then do
                becameNecessary (virtEnv env sp) fuel c
                let __do_lift ← getNode p
                match __do_lift.kind? with
                  | some (Kind.expert e) => runEdgeCallback (virtEnv env sp) e i
                  | x => pure ()
              else do
                let cn ← getNode c
                match cn.kind? with
                  | some (Kind.mapRef p_1 input) =>
                    if cn.didChange = true then do
                      markMapRefUnknown fuel p
                      let __do_lift ← getNode p
                      match __do_lift.kind? with
                        | some (Kind.expert e) => runEdgeCallback (virtEnv env sp) e i
                        | x => pure ()
                    else do
                      let __do_lift ← getNode p
                      match __do_lift.kind? with
                        | some (Kind.expert e) => runEdgeCallback (virtEnv env sp) e i
                        | x => pure ()
                  | x => do
                    let __do_lift ← getNode p
                    match __do_lift.kind? with
                      | some (Kind.expert e) => runEdgeCallback (virtEnv env sp) e i
                      | x => pure ()) := by
        intro s3 e3
        refine BP.cond Iff.rfl (fun hw => ?_) (fun hw => ?_)
        · refine BP.intro fun hp3 => ?_
          obtain ⟨hF, hp3'⟩ := hps.addParent_lt hp3 e3 hc hw
          refine BP.seq (BP.change (ih.1 (F - 2) c (by omega) s3) (fun _ => hp3') (fun _ s' h' => h'.mono (by omega)))
            fun _ _ _ => ?_
          pbsim
          pbsim_kind
        · pbsim
          pbsim_kind
          all_goals first
            | pbsim_kind
            | (refine BP.ite_left (fun _ => BP.noop_seq (BPs.mmu_noop hp (by omega) _) fun _ _ => ?_) (fun _ => ?_)
               <;> pbsim <;> pbsim_kind)
      refine BP.cond Iff.rfl (fun hv => ?_) (fun hv => ?_)
      · refine BP.mod_seq ?_ ?_ (by rfl) ?_ <;> (first | rfl | skip)
        exact rest _ rfl
      · exact rest _ rfl

/-- **the linking cascade bisimulates** (carried invariant `PInv`; fuel `size + 2 * UN + 2`, where `UN` = number of unnecessary nodes) -/
theorem BSim.link (env : Env) (fuel : Nat) :
    (∀ n s, s.nodes.size + 2 * UN s + 2 ≤ fuel →
      BSimAt K PInv g s (becameNecessary env fuel n) (becameNecessary (virtEnv env sp) fuel n)) ∧
    (∀ c i p s, s.nodes.size + 2 * UN s + 1 ≤ fuel → p < s.nodes.size → (∀ pr j, (s.nodeD p).kind = .mapRef pr j → j = c) →
      BSimAt K PInv g s (addParentWithoutAdjustingHeights env fuel c i p)
        (addParentWithoutAdjustingHeights (virtEnv env sp) fuel c i p)) := by
  constructor
  · intro n s hf
    exact BP.close (Sim.becameNecessary env fuel n s)
      (BP.change ((BPs.link (N := s.nodes.size) (kd := fun m => (s.nodeD m).kind) env fuel).1 (s.nodes.size + 2 * UN s) n hf s)
        (fun hp => ⟨hp, rfl, fun _ => rfl, Nat.le_refl _⟩) (fun _ _ h => h.inv))
  · intro c i p s hf hp hedge
    exact BP.close (Sim.addParentWithoutAdjustingHeights env fuel c i p s)
      (BP.change ((BPs.link (N := s.nodes.size) (kd := fun m => (s.nodeD m).kind) env fuel).2 (s.nodes.size + 2 * UN s) c i p hf hp
          hedge s)
        (fun hp => ⟨hp, rfl, fun _ => rfl, Nat.le_refl _⟩) (fun _ _ h => h.inv))

end

/-- the contract of `became_necessary` -/
theorem bnC (K : Kind → Prop) (env : Env) (sp : Nat → Val → Val) : BnC K env sp := by
  intro g fuel n s hf
  exact (BSim.link env fuel).1 n s (by have := UN_le_size s; omega)

/-- the contract of `add_parent_without_adjusting_heights` -/
theorem apC (K : Kind → Prop) (env : Env) (sp : Nat → Val → Val) : ApC K env sp := by
  intro g fuel c i p s hf hp hedge
  exact (BSim.link env fuel).2 c i p s (by have := UN_le_size s; omega) hp hedge

end IncrVerif.Proofs.FullT
