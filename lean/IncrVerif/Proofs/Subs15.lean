import IncrVerif.Proofs.Subs11
import IncrVerif.Proofs.Subs14
/-!
# Subscriptions, part 13: whole histories (S3)

For a subscription token `t`: the updates logged for `t` over a whole history are computed by `specT`:
`Initialised v` at the first `stabilise` at whose start `t` is registered on an observer that is created or in
use, then `Changed v` at exactly those later `stabilise`s (while still registered on a live observer) after which
the observer reads a value different from the one delivered last; nothing else.
-/
namespace IncrVerif.Proofs.SubsH
open IncrVerif.Engine IncrVerif.Driver IncrVerif.Proofs IncrVerif.Proofs.Step IncrVerif.Proofs.Sched
open IncrVerif.Proofs.Quiet

/-- the update of a notification for token `t` -/
def pickTok (t : Nat) : Event → Option Update
  | .notif t' u => if t' = t then some u else none
  | _ => none

/-- the updates delivered to token `t`, in chronological order (`State.log` is stored newest first) -/
def tokLog (t : Nat) (log : List Event) : List Update := log.reverse.filterMap (pickTok t)

/-- is token `t` registered on observer record `ob`, and is `ob` created or in use? -/
def liveOn (t : Nat) (ob : ObsRec) : Bool :=
  (ob.state == .created || ob.state == .inUse) && ob.handlers.any (·.token == t)

/-- the observer on which token `t` is registered and which is created or in use (if any) -/
def liveObs (s : State) (t : Nat) : Option Nat :=
  (List.range s.observers.size).find? fun o =>
    match s.observers[o]? with
    | some ob => liveOn t ob
    | none => false

/-- the value carried by an update -/
def valOf : Update → Option Val
  | .initialised v => some v
  | .changed v => some v
  | .invalidated => none

/-- what a subscription on observer `o` is told at the end of a `stabilise` that ended in `s'`, given the updates
`acc` it has received so far: `Initialised` the first time, afterwards `Changed` iff the value read differs
from the one delivered last -/
def nextUpdates (env : Env) (s' : State) (o : Nat) (acc : List Update) : List Update :=
  match s'.tryGetValue env o with
  | .ok v =>
    match acc.getLast? with
    | none => [.initialised v]
    | some u => if valOf u = some v then [] else [.changed v]
  | .error _ => []

/-- **the specification of the notifications of token `t`** along a history: only `stabilise` delivers, and
only while the token is registered on a created or in-use observer at the start of that `stabilise` -/
def specT (env : Env) (t : Nat) : List Action → State → Array Nat → List Update → List Update
  | [], _, _, acc => acc
  | a :: as, s, tk, acc =>
    match (stepAction env a tk).run.run s with
    | (.ok r, s') =>
      let acc' := match a with
        | .stabilise =>
          (match liveObs s t with
           | some o => acc ++ nextUpdates env s' o acc
           | none => acc)
        | _ => acc
      specT env t as s' r.2 acc'
    | (.error _, _) => acc

/-! ## `tokLog` -/

theorem tokLog_append (t : Nat) (a b : List Event) : tokLog t (a ++ b) = tokLog t b ++ tokLog t a := by
  unfold tokLog; rw [List.reverse_append, List.filterMap_append]

theorem tokLog_notNotif (t : Nat) (l : List Event) (h : ∀ e, e ∈ l → NotNotif e) : tokLog t l = [] := by
  unfold tokLog
  rw [List.filterMap_eq_nil_iff]
  intro e he
  have := h e (List.mem_reverse.1 he)
  cases e <;> first | rfl | exact this.elim

theorem tokLog_reverse (t : Nat) (l : List Event) : tokLog t l.reverse = l.filterMap (pickTok t) := by
  unfold tokLog; rw [List.reverse_reverse]

/-- a list of notifications with pairwise different tokens contains at most one for `t` -/
theorem filterMap_pick_of_nodup (t : Nat) (l : List Event) (hn : (l.filterMap notifTok).Nodup) :
    (∀ u, Event.notif t u ∈ l → l.filterMap (pickTok t) = [u]) ∧
    ((∀ u, Event.notif t u ∉ l) → l.filterMap (pickTok t) = []) := by
  induction l with
  | nil => exact ⟨fun u h => (List.not_mem_nil h).elim, fun _ => rfl⟩
  | cons e l ih =>
    cases e with
    | notif t' u' =>
      have hn' : t' ∉ l.filterMap notifTok ∧ (l.filterMap notifTok).Nodup := by
        simpa [List.filterMap_cons, notifTok] using hn
      obtain ⟨ih1, ih2⟩ := ih hn'.2
      by_cases e : t' = t
      · subst e
        have hnone : ∀ u, Event.notif t' u ∉ l := by
          intro u hu
          apply hn'.1
          rw [List.mem_filterMap]
          exact ⟨_, hu, rfl⟩
        constructor
        · intro u hu
          rcases List.mem_cons.1 hu with h | h
          · cases h
            simp only [List.filterMap_cons, pickTok, if_true]
            rw [ih2 hnone]
          · exact absurd h (hnone u)
        · intro h; exact absurd (List.mem_cons_self ..) (h u')
      · constructor
        · intro u hu
          rcases List.mem_cons.1 hu with h | h
          · cases h; exact absurd rfl e
          · simp only [List.filterMap_cons, pickTok, if_neg e]
            exact ih1 u h
        · intro h
          simp only [List.filterMap_cons, pickTok, if_neg e]
          exact ih2 fun u hu => h u (List.mem_cons_of_mem _ hu)
    | inv a b c d =>
      have hn' : (l.filterMap notifTok).Nodup := by simpa [List.filterMap_cons, notifTok] using hn
      obtain ⟨ih1, ih2⟩ := ih hn'
      constructor
      · intro u hu
        rcases List.mem_cons.1 hu with h | h
        · cases h
        · simp only [List.filterMap_cons, pickTok]; exact ih1 u h
      · intro h
        simp only [List.filterMap_cons, pickTok]
        exact ih2 fun u hu => h u (List.mem_cons_of_mem _ hu)
    | cut a b c d e' =>
      have hn' : (l.filterMap notifTok).Nodup := by simpa [List.filterMap_cons, notifTok] using hn
      obtain ⟨ih1, ih2⟩ := ih hn'
      constructor
      · intro u hu
        rcases List.mem_cons.1 hu with h | h
        · cases h
        · simp only [List.filterMap_cons, pickTok]; exact ih1 u h
      · intro h
        simp only [List.filterMap_cons, pickTok]
        exact ih2 fun u hu => h u (List.mem_cons_of_mem _ hu)
    | note a =>
      have hn' : (l.filterMap notifTok).Nodup := by simpa [List.filterMap_cons, notifTok] using hn
      obtain ⟨ih1, ih2⟩ := ih hn'
      constructor
      · intro u hu
        rcases List.mem_cons.1 hu with h | h
        · cases h
        · simp only [List.filterMap_cons, pickTok]; exact ih1 u h
      · intro h
        simp only [List.filterMap_cons, pickTok]
        exact ih2 fun u hu => h u (List.mem_cons_of_mem _ hu)

/-! ## live registrations -/

/-- token `t` is registered with record `h` on observer `o`, which is created or in use -/
def Live (s : State) (t o : Nat) (h : HandlerRec) : Prop :=
  ∃ ob, s.observers[o]? = some ob ∧ (ob.state = .created ∨ ob.state = .inUse) ∧ h ∈ ob.handlers ∧ h.token = t

theorem liveOn_iff (t : Nat) (ob : ObsRec) :
    liveOn t ob = true ↔ (ob.state = .created ∨ ob.state = .inUse) ∧ ∃ h, h ∈ ob.handlers ∧ h.token = t := by
  unfold liveOn
  simp only [Bool.and_eq_true, Bool.or_eq_true, beq_iff_eq, List.any_eq_true]

theorem liveObs_some {s : State} {t o : Nat} (h : liveObs s t = some o) : ∃ x, Live s t o x := by
  unfold liveObs at h
  have hp := List.find?_some h
  cases ho : s.observers[o]? with
  | none => rw [ho] at hp; cases hp
  | some ob =>
    rw [ho] at hp
    obtain ⟨hs, x, hx, ht⟩ := (liveOn_iff t ob).1 hp
    exact ⟨x, ob, ho, hs, hx, ht⟩

theorem liveObs_none {s : State} {t : Nat} (h : liveObs s t = none) (o : Nat) (x : HandlerRec) :
    ¬ Live s t o x := by
  rintro ⟨ob, ho, hs, hx, ht⟩
  unfold liveObs at h
  rw [List.find?_eq_none] at h
  have hlt : o < s.observers.size := (Array.getElem?_eq_some_iff.1 ho).1
  have := h o (List.mem_range.2 hlt)
  rw [ho] at this
  exact this ((liveOn_iff t ob).2 ⟨hs, x, hx, ht⟩)

theorem liveObs_of_live {s : State} {t o : Nat} {x : HandlerRec} (H : HInv s) (h : Live s t o x) :
    liveObs s t = some o := by
  cases hl : liveObs s t with
  | none => exact absurd h (liveObs_none hl o x)
  | some o' =>
    obtain ⟨x', ob', ho', -, hx', ht'⟩ := liveObs_some hl
    obtain ⟨ob, ho, -, hx, ht⟩ := h
    have : o' = o := H.tok.unique o' o ob' ob ho' ho t
      (List.mem_map.2 ⟨x', hx', ht'⟩) (List.mem_map.2 ⟨x, hx, ht⟩)
    rw [this]

theorem handler_unique {l : List HandlerRec} (hn : (l.map (·.token)).Nodup) {a b : HandlerRec}
    (ha : a ∈ l) (hb : b ∈ l) (e : a.token = b.token) : a = b := by
  induction l with
  | nil => cases ha
  | cons c l ih =>
    rw [List.map_cons, List.nodup_cons] at hn
    rcases List.mem_cons.1 ha with ha | ha <;> rcases List.mem_cons.1 hb with hb | hb
    · rw [ha, hb]
    · exfalso; apply hn.1; rw [← ha, e]; exact List.mem_map.2 ⟨b, hb, rfl⟩
    · exfalso; apply hn.1; rw [← hb, ← e]; exact List.mem_map.2 ⟨a, ha, rfl⟩
    · exact ih hn.2 ha hb

/-- two registrations of the same token are the same registration -/
theorem reg_unique {s : State} (H : HInv s) {t o1 o2 : Nat} {ob1 ob2 : ObsRec} {h1 h2 : HandlerRec}
    (e1 : s.observers[o1]? = some ob1) (m1 : h1 ∈ ob1.handlers) (t1 : h1.token = t)
    (e2 : s.observers[o2]? = some ob2) (m2 : h2 ∈ ob2.handlers) (t2 : h2.token = t) :
    o1 = o2 ∧ ob1 = ob2 ∧ h1 = h2 := by
  have : o1 = o2 := H.tok.unique o1 o2 ob1 ob2 e1 e2 t
    (List.mem_map.2 ⟨h1, m1, t1⟩) (List.mem_map.2 ⟨h2, m2, t2⟩)
  subst this
  rw [e1] at e2; cases e2
  exact ⟨rfl, rfl, handler_unique (H.tokNodup o1 ob1 e1) m1 m2 (t1.trans t2.symm)⟩

/-! ## the invariant linking the log of token `t` to the state -/

structure TInv (s : State) (t : Nat) (acc : List Update) : Prop where
  log : tokLog t s.log = acc
  unborn : s.nextToken ≤ t → acc = []
  live : ∀ o h, Live s t o h → (h.prev = .neverBeenUpdated ↔ acc = []) ∧
    (acc ≠ [] → ∃ ob u v, s.observers[o]? = some ob ∧ ob.state = .inUse ∧ acc.getLast? = some u ∧
      valOf u = some v ∧ (s.nodeD ob.node).value = some v)

theorem lifeLe_inUse {b : ObsState} (h : Life.lifeLe .inUse b) (hb : b = .created ∨ b = .inUse) :
    b = .inUse := by
  rcases hb with rfl | rfl
  · exact absurd h (by decide)
  · rfl

/-- every action other than `stabilise` keeps it -/
theorem TInv.nstep {s s' : State} {t : Nat} {acc : List Update} (T : TInv s t acc) (N : NStep s s') :
    TInv s' t acc := by
  refine ⟨by rw [N.log]; exact T.log, fun h => T.unborn (Nat.le_trans N.nextToken h), ?_⟩
  rintro o h ⟨ob', ho', hs', hh, ht⟩
  rcases N.recs o ob' h ho' hh with ⟨ob, ho, hm, hnode, hle⟩ | ⟨hfresh, hprev⟩
  · have hs : ob.state = .created ∨ ob.state = .inUse := P12a.lifeLe_back hle hs'
    obtain ⟨T1, T2⟩ := T.live o h ⟨ob, ho, hs, hm, ht⟩
    refine ⟨T1, fun hne => ?_⟩
    obtain ⟨ob0, u, v, ho0, hst0, hl, hv, hval⟩ := T2 hne
    rw [ho] at ho0; cases ho0
    rw [hst0] at hle
    exact ⟨ob', u, v, ho', lifeLe_inUse hle hs', hl, hv, by rw [hnode, N.value]; exact hval⟩
  · rw [ht] at hfresh
    have := T.unborn hfresh
    exact ⟨⟨fun _ => this, fun _ => hprev⟩, fun hne => absurd this hne⟩

theorem tinv_init (N : Nat) (d : Bool) (t : Nat) : TInv (State.init N d) t [] := by
  refine ⟨rfl, fun _ => rfl, ?_⟩
  rintro o h ⟨ob, ho, -⟩
  simp [State.init] at ho

/-! ## one `stabilise` -/

theorem obsInv_final {env : Env} {fuel : Nat} {s s' : State} (R : Stabilised env fuel s s') :
    ObsInv s' [] [] := by
  have := R.inv.core.obs
  unfold ObsOK at this
  rw [R.newObservers, R.disallowedObservers] at this
  exact this

/-- a registration of `s` on a created or in-use observer, through a `stabilise`: the observer is in use
afterwards and reads `v`, and the handler is told `Initialised v` if it was never called, `Changed v` if the
stored value of the node changed, nothing otherwise -/
theorem stab_live {env : Env} {fuel : Nat} {s t3 s' : State} (R : Stabilised env fuel s s')
    (M : MidState env s t3 s') {o : Nat} {ob : ObsRec} (h : HandlerRec)
    (ho : s.observers[o]? = some ob) (hs : ob.state = .created ∨ ob.state = .inUse) :
    ∃ ob' v, s'.observers[o]? = some ob' ∧ ob'.node = ob.node ∧ ob'.state = .inUse ∧
      (s'.nodeD ob.node).value = some v ∧ s'.tryGetValue env o = .ok v ∧
      expected s s' o h = (if h.prev = .neverBeenUpdated then some (.initialised v)
        else if (s.nodeD ob.node).value = some v then none else some (.changed v)) := by
  obtain ⟨ob', ho', hn', hst'⟩ := R.obs.2 o ob ho
  have hst : ob'.state = .inUse := by
    rw [hst']; rcases hs with e | e <;> rw [e] <;> rfl
  have O' := obsInv_final R
  have Q' := R.inv.core
  have hmem : o ∈ (s'.nodeD ob'.node).observers := (O'.mem ob'.node o).2 ⟨ob', ho', rfl, Or.inl hst⟩
  have hnec : s'.isNecessary ob'.node = true := by
    rw [isNecessary_iff]; right; left; exact List.ne_nil_of_mem hmem
  obtain ⟨-, -, hval, hv, hsome⟩ := R.values ob'.node hnec _ (Nat.lt_succ_self _)
  obtain ⟨v, hev⟩ := Option.isSome_iff_exists.1 hsome
  have hvalue : (s'.nodeD ob'.node).value = some v := by rw [hval]; exact hev
  have hread : s'.tryGetValue env o = .ok v := by
    unfold State.tryGetValue
    rw [Q'.alive, Q'.status, ho']
    simp only [Bool.not_true, Bool.false_eq_true, if_false, hst]
    rw [hv, hev]
    rfl
  refine ⟨ob', v, ho', hn', hst, by rw [← hn']; exact hvalue, hread, ?_⟩
  have hnode := M.ended.node ob'.node
  have hch : (s'.nodeD ob'.node).changedAt = (t3.nodeD ob'.node).changedAt := by rw [hnode]
  have hvl : (s'.nodeD ob'.node).value = (t3.nodeD ob'.node).value := by rw [hnode]
  have hvc := (M.valchg ob'.node).1
  rw [← hch, ← hvl, hvalue] at hvc
  unfold expected
  rw [ho']
  simp only [hst, if_true, hvalue]
  by_cases hp : h.prev = .neverBeenUpdated
  · rw [if_pos hp, if_pos hp]
  · rw [if_neg hp, if_neg hp, ← hn']
    by_cases hc : (s'.nodeD ob'.node).changedAt = s.stabNum
    · rw [if_pos hc, if_neg (fun e => (hvc.1 hc) e.symm)]
    · rw [if_neg hc]
      have : (s.nodeD ob'.node).value = some v := by
        apply Classical.byContradiction
        intro hne
        exact hc (hvc.2 (fun e => hne e.symm))
      rw [if_pos this]

/-- a registration of `s` on an observer that is neither created nor in use is told nothing -/
theorem stab_dead {env : Env} {fuel : Nat} {s s' : State} (R : Stabilised env fuel s s')
    {o : Nat} {ob : ObsRec} (h : HandlerRec) (ho : s.observers[o]? = some ob)
    (hs : ¬ (ob.state = .created ∨ ob.state = .inUse)) : expected s s' o h = none := by
  obtain ⟨ob', ho', -, hst'⟩ := R.obs.2 o ob ho
  have hst : ob'.state ≠ .inUse := by
    rw [hst']
    cases e : ob.state
    · exact absurd (Or.inl e) hs
    · exact absurd (Or.inr e) hs
    · intro x; cases x
    · intro x; cases x
  unfold expected
  rw [ho']
  simp only [hst, if_false]

/-- every handler record after a `stabilise` comes from a record of the same observer with the same token -/
theorem stab_back {env : Env} {s t3 s' : State} (M : MidState env s t3 s') {o : Nat} {ob' : ObsRec}
    {h' : HandlerRec} (ho' : s'.observers[o]? = some ob') (hm : h' ∈ ob'.handlers) :
    ∃ ob h, s.observers[o]? = some ob ∧ h ∈ ob.handlers ∧ h.token = h'.token := by
  have hlt : o < t3.observers.size := by
    rw [← M.ended.obsSize]; exact (Array.getElem?_eq_some_iff.1 ho').1
  obtain ⟨ob3, ho3⟩ : ∃ ob3, t3.observers[o]? = some ob3 := ⟨_, Array.getElem?_eq_getElem hlt⟩
  have hlt0 : o < s.observers.size := by rw [← M.obsMap.1]; exact hlt
  obtain ⟨ob, ho⟩ : ∃ ob, s.observers[o]? = some ob := ⟨_, Array.getElem?_eq_getElem hlt0⟩
  have hh : ob3.handlers = ob.handlers := by
    have := M.handlers o
    rw [hOf_of_some ho3, hOf_of_some ho] at this
    exact this
  have hE := M.ended.obs o ob3 ho3
  rw [ho'] at hE
  injection hE with hE
  rw [hE] at hm
  split at hm
  · simp only [List.mem_map] at hm
    obtain ⟨h3, hm3, e3⟩ := hm
    refine ⟨ob, h3, ho, by rw [← hh]; exact hm3, ?_⟩
    rw [← e3]
    unfold stepPrev
    split <;> rfl
  · exact ⟨ob, h', ho, by rw [← hh]; exact hm, rfl⟩

/-- what `specT` appends at a `stabilise` -/
def accAfter (env : Env) (s s' : State) (t : Nat) (acc : List Update) : List Update :=
  match liveObs s t with
  | some o => acc ++ nextUpdates env s' o acc
  | none => acc

theorem getLast?_append_singleton {α} (l : List α) (a : α) : (l ++ [a]).getLast? = some a := by
  simp

/-- **a `stabilise` keeps the link between the log of `t` and the state**, extending the log of `t` by exactly
what `specT` says -/
theorem TInv.stabilise {env : Env} {fuel : Nat} {s s' : State} {t : Nat} {acc : List Update}
    (U : UInv env s) (heff : PureHandlers env) (hrun : (stabilise env fuel).run.run s = (.ok (), s'))
    (T : TInv s t acc) : TInv s' t (accAfter env s s' t acc) := by
  have R := stabilise_u U heff hrun
  obtain ⟨t3, M⟩ := R.mid
  obtain ⟨-, hspec, hnodup⟩ := endNotifs_spec U M
  obtain ⟨pre, hpre, hnn⟩ := M.log
  obtain ⟨P1, P2⟩ := filterMap_pick_of_nodup t (endNotifs env t3) hnodup
  have hlog : tokLog t s'.log = acc ++ (endNotifs env t3).filterMap (pickTok t) := by
    rw [M.ended.log, hpre, tokLog_append, tokLog_append, tokLog_reverse, tokLog_notNotif t pre hnn, T.log,
      List.append_nil]
  have hnt : s'.nextToken = s.nextToken := by rw [M.ended.nextToken, M.nextToken]
  have O' := obsInv_final R
  -- the case of a live registration
  have key : ∀ o ob h, s.observers[o]? = some ob → (ob.state = .created ∨ ob.state = .inUse) →
      h ∈ ob.handlers → h.token = t →
      ∃ ob' v, s'.observers[o]? = some ob' ∧ ob'.node = ob.node ∧ ob'.state = .inUse ∧
        (s'.nodeD ob.node).value = some v ∧ accAfter env s s' t acc = acc ++ nextUpdates env s' o acc ∧
        (endNotifs env t3).filterMap (pickTok t) = nextUpdates env s' o acc ∧
        ∃ u, (acc ++ nextUpdates env s' o acc).getLast? = some u ∧ valOf u = some v := by
    intro o ob h ho hs hm ht
    obtain ⟨ob', v, ho', hn', hst', hval', hread, hexp⟩ := stab_live R M h ho hs
    have hlive : liveObs s t = some o := liveObs_of_live U.hinv ⟨ob, ho, hs, hm, ht⟩
    have hacc : accAfter env s s' t acc = acc ++ nextUpdates env s' o acc := by
      unfold accAfter; rw [hlive]
    -- membership in the delivered notifications is decided by this registration alone
    have hmem : ∀ u, Event.notif t u ∈ endNotifs env t3 ↔ expected s s' o h = some u := by
      intro u
      rw [hspec]
      constructor
      · rintro ⟨o2, ob2, h2, ho2, hm2, ht2, he2⟩
        obtain ⟨e1, e2, e3⟩ := reg_unique U.hinv ho2 hm2 ht2 ho hm ht
        subst e1; subst e3; exact he2
      · intro he; exact ⟨o, ob, h, ho, hm, ht, he⟩
    obtain ⟨T1, T2⟩ := T.live o h ⟨ob, ho, hs, hm, ht⟩
    refine ⟨ob', v, ho', hn', hst', hval', hacc, ?_⟩
    unfold nextUpdates
    rw [hread]
    by_cases hp : h.prev = .neverBeenUpdated
    · have hacc0 : acc = [] := T1.1 hp
      rw [if_pos hp] at hexp
      rw [hacc0]
      simp only [List.getLast?_nil, List.nil_append]
      exact ⟨P1 _ ((hmem _).2 hexp), _, rfl, rfl⟩
    · have hne : acc ≠ [] := fun e => hp (T1.2 e)
      obtain ⟨ob0, u, w, ho0, -, hl, hw, hvalw⟩ := T2 hne
      rw [ho] at ho0; cases ho0
      rw [if_neg hp, hvalw] at hexp
      rw [hl]
      simp only [hw]
      by_cases e : w = v
      · rw [if_pos (by rw [e])] at hexp ⊢
        refine ⟨P2 fun u' hu' => ?_, u, by rw [List.append_nil]; exact hl, by rw [hw, e]⟩
        rw [hmem, hexp] at hu'; cases hu'
      · have : ¬ (some w = some v) := fun x => e (Option.some.inj x)
        rw [if_neg this] at hexp ⊢
        exact ⟨P1 _ ((hmem _).2 hexp), _, getLast?_append_singleton _ _, rfl⟩
  -- no live registration: nothing is delivered
  have dead : liveObs s t = none → (endNotifs env t3).filterMap (pickTok t) = [] := by
    intro hl
    apply P2
    intro u hu
    rw [hspec] at hu
    obtain ⟨o2, ob2, h2, ho2, hm2, ht2, he2⟩ := hu
    have hs2 : ¬ (ob2.state = .created ∨ ob2.state = .inUse) :=
      fun hs => liveObs_none hl o2 h2 ⟨ob2, ho2, hs, hm2, ht2⟩
    rw [stab_dead R h2 ho2 hs2] at he2; cases he2
  refine ⟨?_, ?_, ?_⟩
  · -- the log
    rw [hlog]
    cases hl : liveObs s t with
    | none => unfold accAfter; rw [hl, dead hl, List.append_nil]
    | some o =>
      obtain ⟨h, ob, ho, hs, hm, ht⟩ := liveObs_some hl
      obtain ⟨-, -, -, -, -, -, hacc, hdel, -⟩ := key o ob h ho hs hm ht
      rw [hacc, hdel]
  · -- unborn tokens
    intro hle
    rw [hnt] at hle
    have hacc0 := T.unborn hle
    cases hl : liveObs s t with
    | none => unfold accAfter; rw [hl]; exact hacc0
    | some o =>
      obtain ⟨h, ob, ho, hs, hm, ht⟩ := liveObs_some hl
      have := U.hinv.tok.fresh o ob ho t (List.mem_map.2 ⟨h, hm, ht⟩)
      omega
  · -- live registrations afterwards
    rintro o h' ⟨ob', ho', hs', hm', ht'⟩
    obtain ⟨ob, h, ho, hm, hth⟩ := stab_back M ho' hm'
    have ht : h.token = t := hth.trans ht'
    -- the observer was created or in use before
    obtain ⟨ob1, ho1, -, hst1⟩ := R.obs.2 o ob ho
    rw [ho'] at ho1; cases ho1
    have hs : ob.state = .created ∨ ob.state = .inUse := by
      cases e : ob.state
      · exact Or.inl rfl
      · exact Or.inr rfl
      · rw [e] at hst1
        rcases hs' with x | x <;> rw [x] at hst1 <;> cases hst1
      · rw [e] at hst1
        rcases hs' with x | x <;> rw [x] at hst1 <;> cases hst1
    obtain ⟨ob2, v, ho2, hn2, hst2, hval2, hacc, -, u, hlast, hvu⟩ := key o ob h ho hs hm ht
    rw [ho'] at ho2; cases ho2
    have hne : accAfter env s s' t acc ≠ [] := by
      rw [hacc]; intro e; rw [e] at hlast; cases hlast
    have hcalled := R.called o ob' h' ho' hst2 hm'
    refine ⟨⟨fun e => absurd e hcalled, fun e => absurd e hne⟩, fun _ => ?_⟩
    exact ⟨ob', u, v, ho', hst2, by rw [hacc]; exact hlast, hvu, by rw [hn2]; exact hval2⟩

/-! ## whole histories -/

/-- what one action appends to the updates of token `t` -/
def stepAcc (env : Env) (t : Nat) (a : Action) (s s' : State) (acc : List Update) : List Update :=
  match a with
  | .stabilise => accAfter env s s' t acc
  | _ => acc

theorem stepAcc_other (env : Env) (t : Nat) {a : Action} (s s' : State) (acc : List Update)
    (h : a ≠ .stabilise) : stepAcc env t a s s' acc = acc := by
  cases a <;> first | rfl | exact absurd rfl h

/-- one step of `specT` -/
theorem specT_cons_ok (env : Env) (t : Nat) (a : Action) (as : List Action) (s s' : State) (tk : Array Nat)
    (acc : List Update) (r : String × Array Nat) (hx : (stepAction env a tk).run.run s = (.ok r, s')) :
    specT env t (a :: as) s tk acc = specT env t as s' r.2 (stepAcc env t a s s' acc) := by
  rw [specT, hx]
  cases a <;> rfl

theorem specT_run {env : Env} (heff : PureHandlers env) {t : Nat} {acts : List Action} {s s' : State}
    {tk tk' : Array Nat} {acc : List Update} (U : UInv env s) (T : TInv s t acc)
    (ha : ∀ a, a ∈ acts → SubAction env a) (h : runActions env acts s tk = .ok (s', tk')) :
    TInv s' t (specT env t acts s tk acc) := by
  induction acts generalizing s tk acc with
  | nil => simp only [runActions] at h; cases h; exact T
  | cons a as ih =>
    simp only [runActions] at h
    rcases hx : (stepAction env a tk).run.run s with ⟨_ | r, s1⟩
    · rw [hx] at h; cases h
    · rw [hx] at h
      have hstep := step_u U heff (ha a (List.mem_cons_self ..)) hx
      rw [specT_cons_ok env t a as s s1 tk acc r hx]
      refine ih hstep.1 ?_ (fun b hb => ha b (List.mem_cons_of_mem _ hb)) h
      by_cases e : a = .stabilise
      · subst e
        exact T.stabilise U heff (step_stabilise hx)
      · rw [stepAcc_other env t s s1 acc e]
        exact T.nstep (hstep.2 e)

/-- **S3.** Along every history of the fragment from the initial state, the updates logged for token `t` are
exactly `specT`. -/
theorem history_notifications {env : Env} (heff : PureHandlers env) {N : Nat} {d : Bool}
    {acts : List Action} {s : State} {tk : Array Nat} (ha : ∀ a, a ∈ acts → SubAction env a)
    (h : runActions env acts (State.init N d) #[] = .ok (s, tk)) (t : Nat) :
    tokLog t s.log = specT env t acts (State.init N d) #[] [] :=
  (specT_run heff (uinv_init env N d) (tinv_init N d t) ha h).log

/-! ## consequences -/

/-- the shape of the updates of one subscription: `Initialised` first, then only `Changed` -/
def Shape : List Update → Prop
  | [] => True
  | u :: rest => (∃ v, u = .initialised v) ∧ ∀ x, x ∈ rest → ∃ w, x = .changed w

theorem shape_append {l : List Update} (h : Shape l) (hne : l ≠ []) (w : Val) : Shape (l ++ [.changed w]) := by
  cases l with
  | nil => exact absurd rfl hne
  | cons u rest =>
    refine ⟨h.1, fun x hx => ?_⟩
    rcases List.mem_append.1 hx with hx | hx
    · exact h.2 x hx
    · rw [List.mem_singleton] at hx; exact ⟨w, hx⟩

theorem shape_next (env : Env) (s' : State) (o : Nat) {acc : List Update} (h : Shape acc) :
    Shape (acc ++ nextUpdates env s' o acc) := by
  unfold nextUpdates
  cases s'.tryGetValue env o with
  | error e => simpa using h
  | ok v =>
    cases hl : acc.getLast? with
    | none =>
      rw [List.getLast?_eq_none_iff] at hl
      rw [hl]
      exact ⟨⟨v, rfl⟩, fun x hx => by cases hx⟩
    | some u =>
      dsimp only
      split
      · simpa using h
      · exact shape_append h (by intro e; rw [e] at hl; cases hl) v

/-- `specT` only produces `Initialised` once, first, and then `Changed` (never `Invalidated`) -/
theorem specT_shape (env : Env) (t : Nat) (acts : List Action) (s : State) (tk : Array Nat)
    {acc : List Update} (h : Shape acc) : Shape (specT env t acts s tk acc) := by
  induction acts generalizing s tk acc with
  | nil => exact h
  | cons a as ih =>
    rcases hx : (stepAction env a tk).run.run s with ⟨_ | r, s1⟩
    · rw [specT, hx]; exact h
    · rw [specT_cons_ok env t a as s s1 tk acc r hx]
      apply ih
      by_cases e : a = .stabilise
      · subst e
        show Shape (accAfter env s s1 t acc)
        unfold accAfter
        cases liveObs s t with
        | none => exact h
        | some o => exact shape_next env s1 o h
      · rw [stepAcc_other env t s s1 acc e]; exact h

/-- a dead token (`Life.Dead`: issued, and registered on no created or in-use observer) has no live registration -/
theorem liveObs_none_of_dead {s : State} {t : Nat} (h : Life.Dead s t) : liveObs s t = none := by
  cases hl : liveObs s t with
  | none => rfl
  | some o =>
    obtain ⟨x, ob, ho, hs, hx, ht⟩ := liveObs_some hl
    exfalso
    apply h.2 o ob ho
    unfold Life.liveTokens
    rcases hs with e | e <;> rw [e] <;> exact List.mem_map.2 ⟨x, hx, ht⟩

/-- an unissued token has no live registration -/
theorem liveObs_none_of_fresh {s : State} {t : Nat} (H : HInv s) (h : s.nextToken ≤ t) : liveObs s t = none := by
  cases hl : liveObs s t with
  | none => rfl
  | some o =>
    obtain ⟨x, ob, ho, hs, hx, ht⟩ := liveObs_some hl
    have := H.tok.fresh o ob ho t (List.mem_map.2 ⟨x, hx, ht⟩)
    omega

end IncrVerif.Proofs.SubsH
