import IncrVerif.Proofs.DriverH23
/-!
# Drivers, bridge 1: from the drain invariant to the invariant between effects (`midOfDInv`)

When a non-expert node `n` is about to run (drain invariant of the virtual state with current node `n`), the state in
which `n` is stamped satisfies the structural invariant at rest: the only necessary stale unqueued node was `n`, and `n`
is not stale once stamped.
-/
namespace IncrVerif.Proofs.DriverH
open IncrVerif.Engine IncrVerif.Driver IncrVerif.Proofs IncrVerif.Proofs.Step IncrVerif.Proofs.Sched
open IncrVerif.Proofs.ExpertH IncrVerif.Proofs.ExpertH.QR

/-- a freshly stamped node of static kind is not stale -/
theorem staleOf_stamped {S : State} {n : Nat} (T : Stamps S) (hr : (S.nodeD n).recomputedAt = S.stabNum) :
    staleOf S n = false :=
  staleOf_fresh T.now hr T.var (fun c => (T.node c).2)

/-- the structural invariant at rest of the virtual state in which the current node is stamped -/
theorem struct_started {env : Env} {rk : Nat → Nat} {S : State} {n : Nat}
    (I : BindH.DInv env S (some n)) (A : AllStatic env rk S) (nd : ∀ c, (S.nodeD c).parents.Nodup) :
    Struct env rk (started n S) := by
  have hR := sameR_started n S
  have hnn : S.isNecessary n = true := (I.cur n rfl).1
  have hnlt : n < S.nodes.size := nec_lt_size hnn
  have hnq : (S.nodeD n).inRch = false := (I.cur n rfl).2 n (BindH.Below.refl n)
  have hst : ∀ m, m < S.nodes.size → S.isStale m = staleOf S m := fun m hm =>
    isStale_static S m (A.node m hm).valid (A.node m hm).kind
  have hother : ∀ m, m ≠ n → staleOf (started n S) m = staleOf S m := fun m hm =>
    hR.staleOf (by rw [started_other' n S hm])
  have hself : staleOf (started n S) n = false := by
    apply staleOf_fresh (s := started n S) I.stamps.now (started_self' n S hnlt) I.stamps.var
    intro c
    rw [hR.changedAt]; exact (I.stamps.node c).2
  refine struct_of_bgraph (allStatic_congrR A hR) (bgraph_congrR I.graph hR) (heapInv_congrR I.heap hR)
    (fun c => by rw [hR.parents]; exact nd c) ?_ ?_
  · intro m hn hs
    rw [hR.nec] at hn
    rw [hR.inRch]
    by_cases hm : m = n
    · subst hm; rw [hself] at hs; cases hs
    · rw [hother m hm, ← hst m (nec_lt_size hn)] at hs
      rcases I.pending m hn hs with h | h
      · exact h
      · injection h with h; exact absurd h.symm hm
  · intro m hq
    rw [hR.inRch] at hq
    have hm : m ≠ n := by
      intro e; subst e; rw [hnq] at hq; cases hq
    rw [hother m hm, ← hst m (lt_size_of_inRch hq)]
    exact I.qstale m hq

theorem xfrag_started {E : Env} {s : State} (F : XFrag E s) (n : Nat) : XFrag E (started n s) := by
  have hk : ∀ m, ((started n s).nodeD m).kind = (s.nodeD m).kind := (sameR_started n s).kind
  have hv : ∀ m, ((started n s).nodeD m).valid = (s.nodeD m).valid := (sameR_started n s).valid
  have hsz : (started n s).nodes.size = s.nodes.size := (sameR_started n s).size
  refine ⟨F.pc, fun m hm => ?_, fun m hm => ?_, fun m e hm hke => ?_, fun e er he => F.xok e er he⟩
  · rw [hk]; exact F.kind m (by rw [← hsz]; exact hm)
  · rw [hv]; exact F.valid m (by rw [← hsz]; exact hm)
  · rw [hk] at hke
    exact F.xrec m e (by rw [← hsz]; exact hm) hke

theorem ahhEmpty_started {s : State} (A : AhhEmpty s) (n : Nat) : AhhEmpty (started n s) := by
  refine ⟨A.length, A.buckets, fun m => ?_⟩
  rw [started_nodeD]
  split
  · exact A.marks m
  · exact A.marks m

/-- **bridge 1** -/
theorem midOfDInv (E : Env) : MidOfDInv E := by
  intro n s I A hne
  obtain ⟨rk, AS⟩ := A.rank
  have nd : ∀ c, ((virt s).nodeD c).parents.Nodup := fun c => by
    rw [virt_nodeD, virtNode_parents]; exact A.nodup c
  refine ⟨xfrag_started A.frag n, ahhEmpty_started A.ahh n, ⟨rk, ?_⟩, A.pinv, fun m => ?_⟩
  · rw [virt_started n s hne]
    exact struct_started I AS nd
  · rw [started_nodeD]
    split
    · exact A.handlers m
    · exact A.handlers m

end IncrVerif.Proofs.DriverH
