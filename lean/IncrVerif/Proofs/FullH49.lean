import IncrVerif.Proofs.FullH14
import IncrVerif.Proofs.FullH13
import IncrVerif.Proofs.FullH37
/-!
# C01 full fragment, API actions, part 1: what the API actions other than `stabilise` do to the nodes of the ACTUAL state (`AFrame`)
(port of MapRef26: no `aCore` field of an existing node changes, the new nodes are isolated and store no value; stage S3: cutoffs are only ever reset to
`.eq` / `.never` (the `cutoff` action), stamps do not change)
-/
namespace IncrVerif.Proofs.FullH
open IncrVerif.Engine IncrVerif.Driver IncrVerif.Proofs IncrVerif.Proofs.Step IncrVerif.Proofs.Sched IncrVerif.Proofs.Quiet
open IncrVerif.Proofs.MapOldH (enc dec WId dec_enc MReach GoodMachine)

namespace AP

/-- the fields of an existing node no API action other than `stabilise` changes -/
def aCore (nd : Node) :=
  (nd.kind, nd.valid, nd.value, nd.didChange, nd.parents, nd.observers, nd.forceNecessary, nd.oldState, nd.changedAt,
    nd.recomputedAt)

/-- how the cutoff of an existing node may change: it is kept, or reset to `.eq` / `.never` (never set to `.dependOn _`) -/
def CutStep (c c' : CutoffK) : Prop := c' = c ∨ c' = .eq ∨ c' = .never

theorem CutStep.refl (c : CutoffK) : CutStep c c := Or.inl rfl
theorem CutStep.trans {a b c : CutoffK} (h1 : CutStep a b) (h2 : CutStep b c) : CutStep a c := by
  rcases h2 with e | e
  · rw [e]; exact h1
  · exact Or.inr e

structure AFrame (s s' : State) : Prop where
  sizeLe : s.nodes.size ≤ s'.nodes.size
  node : ∀ n, n < s.nodes.size → aCore (s'.nodeD n) = aCore (s.nodeD n)
  cut : ∀ n, n < s.nodes.size → CutStep (s.nodeD n).cutoff (s'.nodeD n).cutoff
  /-- new nodes are isolated and store nothing -/
  fresh : ∀ n, s.nodes.size ≤ n → s'.isNecessary n = false ∧ (s'.nodeD n).value = none ∧ (s'.nodeD n).oldState = .unit ∧
    (s'.nodeD n).changedAt = -1
  pc : s'.panicCountdown = s.panicCountdown

theorem isNecessary_default_of_ge (s : State) (n : Nat) (h : s.nodes.size ≤ n) : s.isNecessary n = false := by
  unfold State.isNecessary; rw [nodeD_default_of_ge s n h]; rfl

theorem value_default_of_ge (s : State) (n : Nat) (h : s.nodes.size ≤ n) :
    (s.nodeD n).value = none ∧ (s.nodeD n).oldState = .unit ∧ (s.nodeD n).changedAt = -1 := by
  rw [nodeD_default_of_ge s n h]; exact ⟨rfl, rfl, rfl⟩

theorem isNecessary_of_aCore {a b : Node} (h : aCore a = aCore b) : a.isNecessary = b.isNecessary := by
  simp only [aCore, Prod.mk.injEq] at h
  simp [Node.isNecessary, h.2.2.2.2.1, h.2.2.2.2.2.1, h.2.2.2.2.2.2.1]

theorem value_of_aCore {a b : Node} (h : aCore a = aCore b) :
    a.value = b.value ∧ a.oldState = b.oldState ∧ a.changedAt = b.changedAt := by
  simp only [aCore, Prod.mk.injEq] at h
  exact ⟨h.2.2.1, h.2.2.2.2.2.2.2.1, h.2.2.2.2.2.2.2.2.1⟩

theorem AFrame.refl (s : State) : AFrame s s :=
  ⟨Nat.le_refl _, fun _ _ => rfl, fun _ _ => CutStep.refl _, fun n h => ⟨isNecessary_default_of_ge s n h, value_default_of_ge s n h⟩, rfl⟩

theorem AFrame.trans {a b c : State} (h1 : AFrame a b) (h2 : AFrame b c) : AFrame a c := by
  refine ⟨Nat.le_trans h1.sizeLe h2.sizeLe, fun n hn => ?_, fun n hn => ?_, fun n hn => ?_, h2.pc.trans h1.pc⟩
  · exact (h2.node n (Nat.lt_of_lt_of_le hn h1.sizeLe)).trans (h1.node n hn)
  · exact (h1.cut n hn).trans (h2.cut n (Nat.lt_of_lt_of_le hn h1.sizeLe))
  · by_cases hb : n < b.nodes.size
    · have := h1.fresh n hn
      unfold State.isNecessary at this ⊢
      rw [isNecessary_of_aCore (h2.node n hb), (value_of_aCore (h2.node n hb)).1, (value_of_aCore (h2.node n hb)).2.1,
        (value_of_aCore (h2.node n hb)).2.2]; exact this
    · exact h2.fresh n (by omega)

instance : Step.PreOrd AFrame := ⟨AFrame.refl, AFrame.trans⟩

theorem AFrame.of_nodes {s s' : State} (h1 : s'.nodes = s.nodes)
    (h2 : s'.panicCountdown = s.panicCountdown) : AFrame s s' := by
  have hnd : ∀ m, s'.nodeD m = s.nodeD m := fun m => by simp [State.nodeD, h1]
  refine ⟨by rw [h1]; exact Nat.le_refl _, fun n _ => by rw [hnd], fun n _ => by rw [hnd]; exact CutStep.refl _, fun n hn => ?_, h2⟩
  unfold State.isNecessary; rw [hnd]; exact ⟨isNecessary_default_of_ge s n hn, value_default_of_ge s n hn⟩

theorem AFrame.modNode (s : State) (n : Nat) (f : Node → Node)
    (hf : ∀ x, aCore (f x) = aCore x ∧ CutStep x.cutoff (f x).cutoff) :
    AFrame s { s with nodes := s.nodes.modify n f } := by
  refine ⟨by simp, fun m _ => ?_, fun m _ => ?_, fun m hm => ?_, rfl⟩
  · rw [nodeD_modify]; split
    · exact (hf _).1
    · rfl
  · rw [nodeD_modify]; split
    · exact (hf _).2
    · exact CutStep.refl _
  · unfold State.isNecessary
    rw [nodeD_modify, if_neg (fun e => by omega)]
    exact ⟨isNecessary_default_of_ge s m hm, value_default_of_ge s m hm⟩

theorem AFrame.push (s : State) (nd : Node) (hp : nd.parents = []) (ho : nd.observers = [])
    (hf : nd.forceNecessary = false) (hv : nd.value = none) (hs : nd.oldState = .unit) (hc : nd.changedAt = -1) :
    AFrame s { s with nodes := s.nodes.push nd } := by
  have hold : ∀ m, m < s.nodes.size → ({ s with nodes := s.nodes.push nd } : State).nodeD m = s.nodeD m := by
    intro m hm
    simp only [State.nodeD, Array.getElem?_push]
    rw [if_neg (by omega)]
  refine ⟨by simp, fun m hm => ?_, fun m hm => ?_, fun m hm => ?_, rfl⟩
  · rw [hold m hm]
  · rw [hold m hm]; exact CutStep.refl _
  · unfold State.isNecessary State.nodeD
    simp only [Array.getElem?_push]
    split
    · simp [Node.isNecessary, hp, ho, hf, hv, hs, hc]
    · have : s.nodes[m]? = none := Array.getElem?_eq_none (by omega)
      rw [this]; exact ⟨rfl, rfl, rfl, rfl⟩

theorem PresA.modNode (n : Nat) (f : Node → Node) (hf : ∀ x, aCore (f x) = aCore x ∧ CutStep x.cutoff (f x).cutoff) :
    Step.Pres AFrame (Engine.modNode n f) := by
  unfold Engine.modNode; exact Step.Pres.modify fun s => AFrame.modNode s n f hf

end AP

macro_rules
  | `(tactic| qleaf) =>
    `(tactic| ((with_reducible apply Step.Pres.modify); intro _; exact AP.AFrame.of_nodes rfl rfl))
macro_rules
  | `(tactic| qleaf) => `(tactic| ((with_reducible apply AP.PresA.modNode); intro _; exact ⟨rfl, Or.inl rfl⟩))

namespace AP

macro "apf_leaf " n:ident : command =>
  `(macro_rules | `(tactic| qleaf) => `(tactic| with_reducible apply $n))

theorem PresA.bumpCounter (f) : Step.Pres AFrame (Engine.bumpCounter f) := by unfold Engine.bumpCounter; qpres
apf_leaf PresA.bumpCounter
theorem PresA.modBind (b f) : Step.Pres AFrame (Engine.modBind b f) := by unfold Engine.modBind; qpres
apf_leaf PresA.modBind

theorem PresA.createNode (k sc c) : Step.Pres AFrame (Engine.createNode k sc c) := by
  unfold Engine.createNode
  qpres
  apply Step.Pres.modify; intro s
  exact AFrame.push s _ rfl rfl rfl rfl rfl rfl
apf_leaf PresA.createNode

theorem PresA.createVar (v sc) : Step.Pres AFrame (Engine.createVar v sc) := by unfold Engine.createVar; qpres
apf_leaf PresA.createVar
theorem PresA.createBind (b l) : Step.Pres AFrame (Engine.createBind b l) := by unfold Engine.createBind; qpres
apf_leaf PresA.createBind
theorem PresA.resolveOpnd (loc o) : Step.Pres AFrame (Engine.resolveOpnd loc o) := by
  unfold Engine.resolveOpnd; qpres
apf_leaf PresA.resolveOpnd
theorem PresA.isConstant (n) : Step.Pres AFrame (Engine.isConstant n) := by unfold Engine.isConstant; qpres
apf_leaf PresA.isConstant

theorem PresA.elabInstr {env : Env} {sp : Nat → Val → Val} (loc : List Nat) (v : Val) {i : Instr}
    (h : InstrS env sp i) : Step.Pres AFrame (Engine.elabInstr loc v i) := by
  unfold Engine.elabInstr
  cases i <;> simp only [InstrS] at h <;> qpres

/-- the `cutoff` instruction: the cutoff of the target is reset to `.eq` / `.never` -/
theorem PresA.elabCutoff (loc : List Nat) (v : Val) (n : Opnd) {c : CutoffK} (hc : c = .eq ∨ c = .never) :
    Step.Pres AFrame (Engine.elabInstr loc v (.cutoff n c)) := by
  unfold Engine.elabInstr
  simp only []
  refine Step.Pres.bind Step.Pres.get fun _ => Step.Pres.bind (PresA.resolveOpnd _ _) fun m =>
    Step.Pres.bind (PresA.modNode m _ fun x => ⟨rfl, Or.inr hc⟩) fun _ => Step.Pres.pure _

theorem PresA.elabInstrM {env : Env} {sp : Nat → Val → Val} (env' : Env) (loc : List Nat) (v : Val) {i : Instr}
    (h : InstrS env sp i) : Step.Pres AFrame (Engine.elabInstrM env' loc v i) := by
  rw [elabInstrM_eq _ _ _ h]; exact PresA.elabInstr loc v h

theorem PresA.getObs (o) : Step.Pres AFrame (Engine.getObs o) := by unfold Engine.getObs; qpres
apf_leaf PresA.getObs
theorem PresA.modObs (o f) : Step.Pres AFrame (Engine.modObs o f) := by unfold Engine.modObs; qpres
apf_leaf PresA.modObs
theorem PresA.disallowFutureUse (o) : Step.Pres AFrame (Engine.disallowFutureUse o) := by
  unfold Engine.disallowFutureUse; qpres
apf_leaf PresA.disallowFutureUse
theorem PresA.getVar (v) : Step.Pres AFrame (Engine.getVar v) := Step.Pres.getVar v
theorem PresA.modVar (v f) : Step.Pres AFrame (Engine.modVar v f) := by unfold Engine.modVar; qpres
apf_leaf PresA.modVar
theorem PresA.rchLink (n) : Step.Pres AFrame (Engine.rchLink n) := by unfold Engine.rchLink; qpres
apf_leaf PresA.rchLink
theorem PresA.rchInsert (n) : Step.Pres AFrame (Engine.rchInsert n) := by unfold Engine.rchInsert; qpres
apf_leaf PresA.rchInsert
theorem PresA.didSetVarWhileNotStabilising (v) : Step.Pres AFrame (Engine.didSetVarWhileNotStabilising v) := by
  unfold Engine.didSetVarWhileNotStabilising; qpres
apf_leaf PresA.didSetVarWhileNotStabilising
theorem PresA.writeVar (v f b) : Step.Pres AFrame (Engine.writeVar v f b) := by
  unfold Engine.writeVar; qpres
apf_leaf PresA.writeVar

theorem PresA.discard {α} {x : M α} (h : Step.Pres AFrame x) : Step.Pres AFrame (discard x) := by
  unfold Functor.discard; exact Step.Pres.map _ h

/-- the API actions whose frame is `AFrame`: all of the full fragment but `stabilise` (creation: the simulated instructions, and the `cutoff` action) -/
def AAction (env : Env) (sp : Nat → Val → Val) : Action → Prop
  | .create i => InstrS env sp i ∨ ∃ n c, i = .cutoff n c ∧ (c = .eq ∨ c = .never)
  | .observe _ => True
  | .cloneObs _ | .dropObs _ | .disallow _ => True
  | .set _ _ | .modify _ _ | .update _ _ | .replace _ _ | .replaceWith _ _ | .get _ => True
  | .isStable | .stats => True
  | _ => False

theorem PresA.stepAction {env : Env} {sp : Nat → Val → Val} (a : Action) (tk : Array Nat) (h : AAction env sp a) :
    Step.Pres AFrame (Engine.stepAction env a tk) := by
  unfold Engine.stepAction
  cases a <;> simp only [AAction] at h
  case create i =>
    rcases h with h | ⟨n, c, rfl, hc⟩
    · refine Step.Pres.bind (PresA.elabInstrM env [] .unit h) fun r => ?_
      qpres
    · refine Step.Pres.bind (PresA.elabCutoff [] .unit n hc) fun r => ?_
      qpres
  all_goals first
    | (qpres; done)
    | (refine Step.Pres.bind (PresA.discard (PresA.writeVar _ _ _)) fun _ => ?_; qpres; done)

end AP
end IncrVerif.Proofs.FullH
