import IncrVerif.Proofs.ExpertH24
/-!
# Expert fragment: simulation of the notification walk, part 1
(`shouldCutoff`, `childChanged`, `parentIterCanRecomputeNow`)
-/
namespace IncrVerif.Proofs.ExpertH
open IncrVerif.Engine IncrVerif.Driver IncrVerif.Proofs IncrVerif.Proofs.Step IncrVerif.Proofs.Sched

theorem keepEv_cut (c n : Nat) (o v : Val) (r : Bool) : keepEv (.cut c n o v r) = true := rfl

theorem Sim.shouldCutoff (env : Env) (n : Nat) (o v : Val) :
    Sim (Engine.shouldCutoff env n o v) (Engine.shouldCutoff (virtEnv env) n o v) := by
  intro s; unfold Engine.shouldCutoff; simp only [virtEnv_cutoff]; xsim
  split <;> xsim
  all_goals exact Sim.logEv_keep _ rfl _
macro_rules | `(tactic| xsim_leaf) => `(tactic| with_reducible exact IncrVerif.Proofs.ExpertH.Sim.shouldCutoff _ _ _ _)

/-- an expert parent runs its edge callback (invisible); its virtual `fold` does nothing; there are no map_ref
nodes -/
theorem Sim.childChanged (env : Env) (fuel p c ci : Nat) (o o' : Option Val) :
    Sim (Engine.childChanged env fuel p c ci o) (Engine.childChanged (virtEnv env) fuel p c ci o') := by
  intro s
  cases fuel with
  | zero => unfold Engine.childChanged; xsim
  | succ fuel =>
    unfold Engine.childChanged
    xsim
    xsim_kind
macro_rules | `(tactic| xsim_leaf) => `(tactic|
  with_reducible exact IncrVerif.Proofs.ExpertH.Sim.childChanged _ _ _ _ _ _ _)

theorem Sim.parentIterCanRecomputeNow (p child : Nat) :
    Sim (Engine.parentIterCanRecomputeNow p child) (Engine.parentIterCanRecomputeNow p child) := by
  intro s; unfold Engine.parentIterCanRecomputeNow; xsim
  xsim_kind
  all_goals exact SimAt.ret _
macro_rules | `(tactic| xsim_leaf) => `(tactic|
  with_reducible exact IncrVerif.Proofs.ExpertH.Sim.parentIterCanRecomputeNow _ _)

end IncrVerif.Proofs.ExpertH
