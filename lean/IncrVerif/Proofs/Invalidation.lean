import IncrVerif.Proofs.StepStamp
/-!
# Helper lemmas for C03 (nodes built inside a bind never run after its input changed)

* Part 1: what "invalid" means for the pure predicates (`isStale`, `children`, `shouldBeInvalidated`,
  `needsToBeComputed`, `State.value`).
* Part 2: master equations for `maybeHandleAfterStabilisation`, `invalidateNode` (four parts:
  bookkeeping `invStamped (handled ..)`, `invDetach`, `invCascade`, `invFinish`), `rchRemove`.
* Part 3: two relations pushed through every function of the model in the `Pres` style of
  `Proofs/Step.lean` / `Proofs/StepStamp.lean`:
  `Still x s s'` (no node removed; an invalid node stays invalid; a node other than `x` that has no
  stored value still has none; a node other than `x` that is clean — invalid ⇒ no stored value — stays
  clean) — true of everything that does not recompute a node other than `x`;
  `Mono s s'` (no node removed; an invalid node stays invalid; an invalid node without a stored value
  stays so) — true of EVERYTHING, `recompute`, `drainHeap`, `stabilise` included.
  `valid` is written in exactly one place (`invalidate_node`, with `false`); the proof of
  `PresM.invalidateNode` is the only one that is not pure decomposition.
* Part 4: what `invalidate_node` establishes when it returns; the leaf case in closed form.
* Part 5: the `BindLhsChange` branch of `recomputeOne`, phase by phase, and the heart of C03
  (`lhsChange_old_generation`).
* Part 6: node registration in `allNodesCreatedOnRhs` (`Grow`, `createNode_run`,
  `lhsRunClosure_registers`).
* Part 7: an invalid node is never queued (debug builds) and never computed; `propagate_invalidity`
  step equations; the entry points as one type (`Call`) with `Call.mono`.
* Part 8: a machine-checked counterexample: "invalid ⇒ no stored value" is not inductive in release
  builds.
* Part 9: example states.
-/
open IncrVerif.Engine IncrVerif.Proofs IncrVerif.Proofs.Step
namespace IncrVerif.Proofs.Inval

/-! ## Part 1: an invalid node, seen by the pure predicates -/

theorem kind?_invalid {nd : Node} (h : nd.valid = false) : nd.kind? = none := by
  simp [Node.kind?, h]

theorem kind?_valid {nd : Node} (h : nd.valid = true) : nd.kind? = some nd.kind := by
  simp [Node.kind?, h]

theorem children_invalid (s : State) (n : Nat) (h : (s.nodeD n).valid = false) : s.children n = [] := by
  simp [State.children, kind?_invalid h]

theorem isStale_invalid (s : State) (n : Nat) (h : (s.nodeD n).valid = false) : s.isStale n = false := by
  simp [State.isStale, kind?_invalid h]

theorem needsToBeComputed_invalid (s : State) (n : Nat) (h : (s.nodeD n).valid = false) :
    s.needsToBeComputed n = false := by
  simp [State.needsToBeComputed, isStale_invalid s n h]

theorem shouldBeInvalidated_invalid (s : State) (n : Nat) (h : (s.nodeD n).valid = false) :
    s.shouldBeInvalidated n = false := by
  simp [State.shouldBeInvalidated, kind?_invalid h]

/-- the value read through an invalid node is its stored value (also for a MapRef node: an invalid
node has no kind any more, so nothing is read through its input) -/
theorem value_invalid (env : Env) (s : State) (n : Nat) (h : (s.nodeD n).valid = false) :
    s.value env n = (s.nodeD n).value := by
  simp [State.value, State.valueWith, kind?_invalid h]

/-! ## Part 2: master equations for `maybeHandleAfterStabilisation`, `invalidateNode`, `rchRemove` -/

/-- `nodeD_modify` for a state that also differs in other fields -/
theorem nodeD_of_modify {t s : State} {n : Nat} {f : Node → Node} (h : t.nodes = s.nodes.modify n f)
    (m : Nat) : t.nodeD m = if n = m ∧ m < s.nodes.size then f (s.nodeD m) else s.nodeD m := by
  have := nodeD_modify s n m f
  simp only [State.nodeD] at this ⊢
  rw [h]; exact this

theorem nodeD_of_nodes {t s : State} (h : t.nodes = s.nodes) (m : Nat) : t.nodeD m = s.nodeD m := by
  simp only [State.nodeD, h]

/-- `maybe_handle_after_stabilisation n`: `n` is queued for the handler phase iff it has update
handlers and is not queued already -/
def handled (n : Nat) (s : State) : State :=
  if (s.nodeD n).numOnUpdateHandlers > 0 ∧ (s.nodeD n).inHandleAfterStab = false then
    { s with nodes := s.nodes.modify n fun x => { x with inHandleAfterStab := true },
             handleAfterStab := s.handleAfterStab ++ [n] }
  else s

theorem maybeHandleAfterStabilisation_run (n : Nat) (s : State) (nd : Node)
    (hn : s.nodes[n]? = some nd) :
    (maybeHandleAfterStabilisation n).run.run s = (.ok (), handled n s) := by
  have hD := nodeD_of_some hn
  simp only [maybeHandleAfterStabilisation, handleAfterStabilisation, run_bind, run_getNode, hn,
    run_ite, run_modNode, run_modify, run_pure, handled, hD]
  by_cases h1 : nd.numOnUpdateHandlers > 0
  · cases h2 : nd.inHandleAfterStab <;> simp [h1]
  · simp [h1]

theorem handled_nodeD (n m : Nat) (s : State) :
    (handled n s).nodeD m =
      if n = m ∧ (s.nodeD n).numOnUpdateHandlers > 0 ∧ (s.nodeD n).inHandleAfterStab = false ∧
          m < s.nodes.size then
        { s.nodeD m with inHandleAfterStab := true }
      else s.nodeD m := by
  unfold handled
  by_cases h : (s.nodeD n).numOnUpdateHandlers > 0 ∧ (s.nodeD n).inHandleAfterStab = false
  · rw [if_pos h, nodeD_of_modify (s := s) (n := n) (f := fun x => { x with inHandleAfterStab := true }) rfl]
    by_cases h2 : n = m ∧ m < s.nodes.size
    · rw [if_pos h2, if_pos ⟨h2.1, h.1, h.2, h2.2⟩]
    · rw [if_neg h2, if_neg (fun hc => h2 ⟨hc.1, hc.2.2.2⟩)]
  · rw [if_neg h, if_neg (fun hc => h ⟨hc.2.1, hc.2.2.1⟩)]

/-- the bookkeeping at the start of `invalidate_node`: value dropped, both stamps set to the current
round, counter bumped -/
def invStamped (n : Nat) (s : State) : State :=
  { s with nodes := s.nodes.modify n fun x =>
             { x with value := none, changedAt := s.stabNum, recomputedAt := s.stabNum },
           counters := { s.counters with invalidated := s.counters.invalidated + 1 } }

/-- `invalidate_node`, middle part 1: a necessary node lets go of its children -/
def invDetach (fuel n : Nat) (sc : Scope) : M Unit := do
  if (← get).isNecessary n then
    removeChildren fuel n
    setHeight n ((← scopeHeight sc) + 1)

/-- `invalidate_node`, middle part 2: a bind main takes the nodes created on its rhs with it -/
def invCascade (fuel : Nat) (k : Kind) : M Unit := do
  match k with
  | .bindMain b _ =>
    let all := (← getBind b).allNodesCreatedOnRhs
    modBind b fun x => { x with allNodesCreatedOnRhs := [] }
    for r in all do invalidateNode fuel r
  | _ => pure ()

/-- `invalidate_node`, last part: the node becomes invalid, its parents are scheduled for
`propagate_invalidity`, the node leaves the recompute heap -/
def invFinish (n : Nat) : M Unit := do
  modNode n fun x => { x with valid := false }
  for (p, _) in (← getNode n).parents do
    modify fun s => { s with propagateInvalidity := p :: s.propagateInvalidity }
  let s ← get
  dassert (!s.needsToBeComputed n) "node:invalidate_node:not-needs-to-be-computed"
  if (s.nodeD n).inRch then rchRemove n

theorem invalidateNode_zero (n : Nat) (s : State) :
    (invalidateNode 0 n).run.run s = (.error .outOfFuel, s) := rfl

theorem invalidateNode_missing (fuel n : Nat) (s : State) (hn : s.nodes[n]? = none) :
    (invalidateNode (fuel + 1) n).run.run s = (.error (.site "model:no-such-node"), s) := by
  unfold invalidateNode
  rw [run_bind, run_getNode, hn]

/-- an invalid node: nothing happens -/
theorem invalidateNode_invalid (fuel n : Nat) (s : State) (nd : Node) (hn : s.nodes[n]? = some nd)
    (hv : nd.valid = false) : (invalidateNode (fuel + 1) n).run.run s = (.ok (), s) := by
  unfold invalidateNode
  rw [run_bind_ok (run_getNode_some hn)]
  simp only [hv, Bool.not_false, if_true]
  rfl

/-- a valid node: the four parts -/
theorem invalidateNode_run (fuel n : Nat) (s : State) (nd : Node) (hn : s.nodes[n]? = some nd)
    (hv : nd.valid = true) :
    (invalidateNode (fuel + 1) n).run.run s =
      (do invDetach fuel n nd.createdIn; invCascade fuel nd.kind; invFinish n).run.run
        (invStamped n (handled n s)) := by
  unfold invalidateNode
  rw [run_bind_ok (run_getNode_some hn)]
  simp only [hv, Bool.not_true, Bool.false_eq_true, if_false]
  rw [run_bind_ok (maybeHandleAfterStabilisation_run n s nd hn)]
  rw [run_bind_get, run_bind_modNode, run_bind_modify]
  change StateT.run (ExceptT.run _) (invStamped n (handled n s)) = _
  generalize invStamped n (handled n s) = t
  simp only [invDetach, invCascade, invFinish, bind_assoc, run_bind_get]
  cases hnec : t.isNecessary n <;> cases nd.kind <;>
    simp only [Bool.false_eq_true, if_false, if_true, bind_assoc, pure_bind]


/-! ### the last part of `invalidate_node` in closed form -/

/-- the parents pushed on the `propagate_invalidity` stack (the last parent ends up on top) -/
def pushParents (ps : List (Nat × Nat)) (s : State) : State :=
  { s with propagateInvalidity := (ps.map (·.1)).reverse ++ s.propagateInvalidity }

theorem run_pushLoop (ps : List (Nat × Nat)) (s : State) :
    (forIn ps PUnit.unit fun (x : Nat × Nat) (_ : PUnit) => do
        modify fun s => { s with propagateInvalidity := x.1 :: s.propagateInvalidity }
        pure (ForInStep.yield PUnit.unit) : M PUnit).run.run s = (.ok ⟨⟩, pushParents ps s) := by
  induction ps generalizing s with
  | nil => rfl
  | cons p ps ih =>
    rw [List.forIn_cons, bind_assoc, run_bind_modify, pure_bind, ih]
    simp [pushParents]

/-- node `n` marked invalid -/
def markedInvalid (n : Nat) (s : State) : State :=
  { s with nodes := s.nodes.modify n fun x => { x with valid := false } }

theorem markedInvalid_nodeD (n m : Nat) (s : State) :
    (markedInvalid n s).nodeD m =
      if n = m ∧ m < s.nodes.size then { s.nodeD m with valid := false } else s.nodeD m :=
  nodeD_modify s n m _

/-- the last part of `invalidate_node` on an existing node `nd`: the debug assertion cannot fire (the
node is invalid by then, so it does not need to be computed); the heap removal happens iff the node is
marked as being in the heap -/
theorem invFinish_run (n : Nat) (t : State) (nd : Node) (hn : t.nodes[n]? = some nd) :
    (invFinish n).run.run t =
      if nd.heightInRch ≥ 0 then (rchRemove n).run.run (pushParents nd.parents (markedInvalid n t))
      else (.ok (), pushParents nd.parents (markedInvalid n t)) := by
  have hlt := lt_of_some hn
  have hn1 : (markedInvalid n t).nodes[n]? = some { nd with valid := false } := by
    simp [markedInvalid, Array.getElem?_modify, hn]
  have hD : (pushParents nd.parents (markedInvalid n t)).nodeD n = { nd with valid := false } := by
    rw [nodeD_of_nodes (t := pushParents nd.parents (markedInvalid n t)) (s := markedInvalid n t) rfl,
      nodeD_of_some hn1]
  have hntc : (pushParents nd.parents (markedInvalid n t)).needsToBeComputed n = false :=
    needsToBeComputed_invalid _ _ (by rw [hD])
  unfold invFinish
  rw [run_bind_modNode]
  change StateT.run (ExceptT.run _) (markedInvalid n t) = _
  rw [run_bind_ok (run_getNode_some hn1)]
  rw [run_bind_ok (run_pushLoop _ _), run_bind_get, run_bind, run_dassert]
  simp only [hntc, Bool.not_false, Bool.true_eq_false, and_false, if_false, hD, Node.inRch]
  by_cases h : nd.heightInRch ≥ 0
  · simp [h]
  · simp only [h, decide_false, Bool.false_eq_true, if_false]; rfl

/-- node `n` taken out of bucket `h` (position `idx` in the bucket `q`) of the recompute heap -/
def rchRemoved (n h : Nat) (q : List Nat) (idx : Nat) (s : State) : State :=
  { s with nodes := s.nodes.modify n fun x => { x with heightInRch := -1 },
           rch := { s.rch with queues := s.rch.queues.set! h (swapRemoveBack q idx),
                               length := s.rch.length - 1 } }

/-- `remove` on a node that is marked as queued, does not need to be computed, and really is in the
bucket its marker names -/
theorem rchRemove_run (n : Nat) (s : State) (nd : Node) (q : List Nat) (idx : Nat)
    (hn : s.nodes[n]? = some nd) (hin : nd.heightInRch ≥ 0) (hntc : s.needsToBeComputed n = false)
    (hq : s.rch.queues[nd.heightInRch.toNat]? = some q) (hidx : q.idxOf? n = some idx) :
    (rchRemove n).run.run s = (.ok (), rchRemoved n nd.heightInRch.toNat q idx s) := by
  have hnot : ¬ nd.heightInRch < 0 := by omega
  unfold rchRemove rchUnlink
  rw [run_bind_get, run_bind_ok (run_getNode_some hn), run_bind, run_dassert]
  simp only [Node.inRch, hin, hntc, decide_true, Bool.not_false, Bool.and_self, Bool.true_eq_false,
    and_false, if_false]
  simp only [bind_assoc]
  rw [run_bind_ok (run_getNode_some hn), run_bind_get]
  simp only [hq, hnot, if_false, hidx]
  rfl

/-! ## Part 3: the relations -/

/-- node `m` is "clean": if it is invalid, it has no stored value -/
def Clean (s : State) (m : Nat) : Prop := (s.nodeD m).valid = false → (s.nodeD m).value = none

/-- `s'` comes after `s`; `x` is the node being recomputed, if any.  No node removed; an invalid node
stays invalid; a node other than `x` without a stored value still has none; a clean node other than
`x` stays clean. -/
structure Still (x : Option Nat) (s s' : State) : Prop where
  size : s.nodes.size ≤ s'.nodes.size
  keep : ∀ m, m < s.nodes.size → (s.nodeD m).valid = false → (s'.nodeD m).valid = false
  vnone : ∀ m, m < s.nodes.size → x ≠ some m → (s.nodeD m).value = none → (s'.nodeD m).value = none
  clean : ∀ m, m < s.nodes.size → x ≠ some m → Clean s m → Clean s' m

/-- `s'` comes after `s`: no node removed; an invalid node stays invalid; an invalid node without a
stored value stays so -/
structure Mono (s s' : State) : Prop where
  size : s.nodes.size ≤ s'.nodes.size
  keep : ∀ m, m < s.nodes.size → (s.nodeD m).valid = false → (s'.nodeD m).valid = false
  dead : ∀ m, m < s.nodes.size → (s.nodeD m).valid = false → (s.nodeD m).value = none →
    (s'.nodeD m).value = none

theorem Still.refl (x : Option Nat) (s : State) : Still x s s :=
  ⟨Nat.le_refl _, fun _ _ h => h, fun _ _ _ h => h, fun _ _ _ h => h⟩

theorem Still.trans {x : Option Nat} {a b c : State} (h1 : Still x a b) (h2 : Still x b c) :
    Still x a c where
  size := Nat.le_trans h1.size h2.size
  keep m hm h := h2.keep m (Nat.lt_of_lt_of_le hm h1.size) (h1.keep m hm h)
  vnone m hm hx h := h2.vnone m (Nat.lt_of_lt_of_le hm h1.size) hx (h1.vnone m hm hx h)
  clean m hm hx h := h2.clean m (Nat.lt_of_lt_of_le hm h1.size) hx (h1.clean m hm hx h)

instance (x : Option Nat) : PreOrd (Still x) := ⟨Still.refl x, Still.trans⟩

theorem Mono.refl (s : State) : Mono s s := ⟨Nat.le_refl _, fun _ _ h => h, fun _ _ _ h => h⟩

theorem Mono.trans {a b c : State} (h1 : Mono a b) (h2 : Mono b c) : Mono a c where
  size := Nat.le_trans h1.size h2.size
  keep m hm h := h2.keep m (Nat.lt_of_lt_of_le hm h1.size) (h1.keep m hm h)
  dead m hm hv h :=
    h2.dead m (Nat.lt_of_lt_of_le hm h1.size) (h1.keep m hm hv) (h1.dead m hm hv h)

instance : PreOrd Mono := ⟨Mono.refl, Mono.trans⟩

/-- outside a recompute -/
theorem Still.mono {s s' : State} (h : Still none s s') : Mono s s' :=
  ⟨h.size, h.keep, fun m hm _ hn => h.vnone m hm (by simp) hn⟩

/-- during the recompute of a node that was not dead to begin with -/
theorem Still.mono_of {n : Nat} {s s' : State} (h : Still (some n) s s')
    (hn : ¬ ((s.nodeD n).valid = false ∧ (s.nodeD n).value = none)) : Mono s s' := by
  refine ⟨h.size, h.keep, fun m hm hv hnone => ?_⟩
  by_cases hmn : m = n
  · subst hmn; exact absurd ⟨hv, hnone⟩ hn
  · exact h.vnone m hm (by simpa using fun e => hmn e.symm) hnone

theorem Still.weaken {x : Option Nat} {s s' : State} (h : Still none s s') : Still x s s' :=
  ⟨h.size, h.keep, fun m hm _ hn => h.vnone m hm (by simp) hn,
    fun m hm _ hn => h.clean m hm (by simp) hn⟩

/-- the state after rewriting node `n` with `f` (other fields may differ too) -/
theorem Still.of_modify {x : Option Nat} {s t : State} {n : Nat} {f : Node → Node}
    (h : t.nodes = s.nodes.modify n f)
    (hf1 : ∀ y, y.valid = false → (f y).valid = false)
    (hf2 : ∀ y, y.value = none → (f y).value = none)
    (hf3 : ∀ y, (y.valid = false → y.value = none) → (f y).valid = false → (f y).value = none) :
    Still x s t := by
  refine ⟨by rw [h]; simp, fun m _ hm => ?_, fun m _ _ hm => ?_, fun m _ _ hm => ?_⟩
  · rw [nodeD_of_modify h]; split
    · exact hf1 _ hm
    · exact hm
  · rw [nodeD_of_modify h]; split
    · exact hf2 _ hm
    · exact hm
  · unfold Clean
    rw [nodeD_of_modify h]; split
    · exact hf3 _ hm
    · exact hm

theorem Still.of_eq {x : Option Nat} {s s' : State} (h1 : s'.nodes = s.nodes) : Still x s s' := by
  have : ∀ m, s'.nodeD m = s.nodeD m := nodeD_of_nodes h1
  refine ⟨by rw [h1]; exact Nat.le_refl _, fun m _ h => ?_, fun m _ _ h => ?_, fun m _ _ h => ?_⟩
  · rw [this]; exact h
  · rw [this]; exact h
  · unfold Clean; rw [this]; exact h

theorem Still.of_quiet {x : Option Nat} {s s' : State} (q : Quiet s s') : Still x s s' :=
  ⟨by rw [q.size]; exact Nat.le_refl _, fun m _ h => by rw [(q.node m).valid]; exact h,
    fun m _ _ h => by rw [(q.node m).value]; exact h,
    fun m _ _ h => by unfold Clean; rw [(q.node m).value, (q.node m).valid]; exact h⟩

theorem Still.modNode {x : Option Nat} (s : State) (n : Nat) (f : Node → Node)
    (hf1 : ∀ y, y.valid = false → (f y).valid = false)
    (hf2 : ∀ y, y.value = none → (f y).value = none)
    (hf3 : ∀ y, (y.valid = false → y.value = none) → (f y).valid = false → (f y).value = none) :
    Still x s { s with nodes := s.nodes.modify n f } :=
  Still.of_modify rfl hf1 hf2 hf3

/-- the node being recomputed may get a value -/
theorem Still.modNode_self (s : State) (n : Nat) (f : Node → Node)
    (hf1 : ∀ y, y.valid = false → (f y).valid = false) :
    Still (some n) s { s with nodes := s.nodes.modify n f } := by
  have hne : ∀ m, some n ≠ some m → ¬ (n = m ∧ m < s.nodes.size) := by
    intro m hx hc; exact hx (by rw [hc.1])
  refine ⟨by simp, fun m _ h => ?_, fun m _ hx h => ?_, fun m _ hx h => ?_⟩
  · rw [nodeD_modify]; split
    · exact hf1 _ h
    · exact h
  · rw [nodeD_modify, if_neg (hne m hx)]; exact h
  · unfold Clean; rw [nodeD_modify, if_neg (hne m hx)]; exact h

theorem Still.push {x : Option Nat} (s : State) (nd : Node) :
    Still x s { s with nodes := s.nodes.push nd } := by
  have : ∀ m, m < s.nodes.size → ({ s with nodes := s.nodes.push nd } : State).nodeD m = s.nodeD m := by
    intro m hm
    simp [State.nodeD, Array.getElem?_push, Nat.ne_of_lt hm]
  refine ⟨by simp, fun m hm h => ?_, fun m hm _ h => ?_, fun m hm _ h => ?_⟩
  · rw [this m hm]; exact h
  · rw [this m hm]; exact h
  · unfold Clean; rw [this m hm]; exact h

/-- the junction inside `invalidate_node`: marking `n` invalid keeps it clean, because its value was
dropped before -/
theorem Still.of_markedInvalid (x : Option Nat) (n : Nat) (t : State)
    (h : x = some n ∨ (t.nodeD n).value = none) : Still x t (markedInvalid n t) := by
  refine ⟨by simp [Inval.markedInvalid], fun m _ hm => ?_, fun m _ _ hm => ?_, fun m _ hx hm => ?_⟩
  · rw [markedInvalid_nodeD]; split
    · rfl
    · exact hm
  · rw [markedInvalid_nodeD]; split <;> exact hm
  · unfold Clean
    rw [markedInvalid_nodeD]; split
    · rename_i hc
      intro _
      rcases h with h | h
      · exact absurd (by rw [h, hc.1]) hx
      · rw [← hc.1]; exact h
    · exact hm

theorem Still.of_invStamped (x : Option Nat) (n : Nat) (s : State) : Still x s (invStamped n s) :=
  Still.of_modify (n := n)
    (f := fun y => { y with value := none, changedAt := s.stabNum, recomputedAt := s.stabNum }) rfl
    (fun _ h => h) (fun _ _ => rfl) (fun _ _ _ => rfl)

theorem Still.of_handled (x : Option Nat) (n : Nat) (s : State) : Still x s (handled n s) := by
  unfold Inval.handled
  split
  · exact Still.of_modify (n := n) (f := fun y => { y with inHandleAfterStab := true }) rfl
      (fun _ h => h) (fun _ h => h) (fun _ h => h)
  · exact Still.refl _ _

/-! ### the decomposition tactic (own leaf table: the `Quiet`/`Stamp` leaves are not consulted) -/

syntax "mleaf" : tactic
macro_rules | `(tactic| mleaf) => `(tactic| fail "no leaf")

macro "mstep" : tactic => `(tactic| first
  | with_reducible apply Pres.pure | with_reducible apply Pres.get | with_reducible apply Pres.panic
  | with_reducible apply Pres.throw
  | with_reducible apply Pres.bind | with_reducible apply Pres.map | with_reducible apply Pres.mapM
  | with_reducible apply Pres.getNode | with_reducible apply Pres.dassert
  | with_reducible apply Pres.getBind | with_reducible apply Pres.getExpert
  | with_reducible apply Pres.getVar | with_reducible apply Pres.assertM
  | mleaf
  | intro _ | split | dsimp only)

macro "mpres" : tactic => `(tactic| repeat (any_goals mstep))

/-- register a lemma as a leaf -/
macro "mono_leaf " n:ident : command =>
  `(macro_rules | `(tactic| mleaf) => `(tactic| with_reducible apply $n))

theorem PresM.modNode {x : Option Nat} (n : Nat) (f : Node → Node)
    (hf1 : ∀ y, y.valid = false → (f y).valid = false)
    (hf2 : ∀ y, y.value = none → (f y).value = none)
    (hf3 : ∀ y, (y.valid = false → y.value = none) → (f y).valid = false → (f y).value = none) :
    Pres (Still x) (Engine.modNode n f) := by
  unfold Engine.modNode; exact Pres.modify fun s => Still.modNode s n f hf1 hf2 hf3

theorem PresM.modNode_self (n : Nat) (f : Node → Node)
    (hf1 : ∀ y, y.valid = false → (f y).valid = false) :
    Pres (Still (some n)) (Engine.modNode n f) := by
  unfold Engine.modNode; exact Pres.modify fun s => Still.modNode_self s n f hf1

theorem PresM.ofQuiet {x : Option Nat} {α} {m : M α} (h : Pres Quiet m) : Pres (Still x) m :=
  h.mono fun _ _ q => Still.of_quiet q

macro_rules | `(tactic| mleaf) => `(tactic| apply Pres.forIn)
macro_rules
  | `(tactic| mleaf) =>
    `(tactic| ((with_reducible apply Pres.modify); intro _; exact Still.push _ _))
macro_rules
  | `(tactic| mleaf) =>
    `(tactic| ((with_reducible apply PresM.modNode_self); intro _ h; first | exact h | rfl))
macro_rules
  | `(tactic| mleaf) =>
    `(tactic| ((with_reducible apply PresM.modNode)
               · intro _ h; first | exact h | rfl
               · intro _ h; first | exact h | rfl
               · intro _ h; first | exact h | (intro _; rfl)))
macro_rules
  | `(tactic| mleaf) =>
    `(tactic| ((with_reducible apply Pres.modify); intro _; exact Still.of_eq rfl))

mono_leaf PresS.getObs
mono_leaf PresS.scopeIsNecessary
mono_leaf PresS.expertOf
mono_leaf PresS.isConstant
mono_leaf PresS.resolveOpnd
mono_leaf PresS.expertIdxRaw
mono_leaf PresS.discard
mono_leaf Pres.valueUnwrap
mono_leaf Pres.scopeHeight

section ladder
variable {x : Option Nat}

theorem PresM.tick : Pres (Still x) tick := PresM.ofQuiet Pres.tick
mono_leaf PresM.tick
theorem PresM.logEv (e) : Pres (Still x) (logEv e) := by unfold Engine.logEv; mpres
mono_leaf PresM.logEv
theorem PresM.bumpCounter (f) : Pres (Still x) (bumpCounter f) := by unfold Engine.bumpCounter; mpres
mono_leaf PresM.bumpCounter
theorem PresM.modBind (b f) : Pres (Still x) (modBind b f) := by unfold Engine.modBind; mpres
mono_leaf PresM.modBind
theorem PresM.modExpert (b f) : Pres (Still x) (modExpert b f) := by unfold Engine.modExpert; mpres
mono_leaf PresM.modExpert
theorem PresM.modVar (b f) : Pres (Still x) (modVar b f) := by unfold Engine.modVar; mpres
mono_leaf PresM.modVar
theorem PresM.modObs (b f) : Pres (Still x) (modObs b f) := by unfold Engine.modObs; mpres
mono_leaf PresM.modObs
theorem PresM.rchLink (n) : Pres (Still x) (rchLink n) := by unfold Engine.rchLink; mpres
mono_leaf PresM.rchLink
theorem PresM.rchUnlink (n) : Pres (Still x) (rchUnlink n) := by unfold Engine.rchUnlink; mpres
mono_leaf PresM.rchUnlink
theorem PresM.rchInsert (n) : Pres (Still x) (rchInsert n) := PresM.ofQuiet (Pres.rchInsert n)
mono_leaf PresM.rchInsert
theorem PresM.rchRemove (n) : Pres (Still x) (rchRemove n) := by unfold Engine.rchRemove; mpres
mono_leaf PresM.rchRemove
theorem PresM.rchMinHeight : Pres (Still x) rchMinHeight := PresM.ofQuiet Pres.rchMinHeight
mono_leaf PresM.rchMinHeight
theorem PresM.rchIncreaseHeight (n) : Pres (Still x) (rchIncreaseHeight n) := by
  unfold Engine.rchIncreaseHeight; mpres
mono_leaf PresM.rchIncreaseHeight
theorem PresM.rchRemoveMin : Pres (Still x) rchRemoveMin := by unfold Engine.rchRemoveMin; mpres
mono_leaf PresM.rchRemoveMin
theorem PresM.setHeight (n h) : Pres (Still x) (setHeight n h) := by unfold Engine.setHeight; mpres
mono_leaf PresM.setHeight
theorem PresM.ahhAddUnlessMem (n) : Pres (Still x) (ahhAddUnlessMem n) := by
  unfold Engine.ahhAddUnlessMem; mpres
mono_leaf PresM.ahhAddUnlessMem
theorem PresM.ahhRemoveMin : Pres (Still x) ahhRemoveMin := by unfold Engine.ahhRemoveMin; mpres
mono_leaf PresM.ahhRemoveMin
theorem PresM.ensureHeightRequirement (a b c d) : Pres (Still x) (ensureHeightRequirement a b c d) := by
  unfold Engine.ensureHeightRequirement; mpres
mono_leaf PresM.ensureHeightRequirement
theorem PresM.adjustHeightsLoop (oc op fuel) : Pres (Still x) (adjustHeightsLoop oc op fuel) := by
  induction fuel with
  | zero => unfold Engine.adjustHeightsLoop; mpres
  | succ fuel ih => unfold Engine.adjustHeightsLoop; mpres; all_goals exact ih
mono_leaf PresM.adjustHeightsLoop
theorem PresM.adjustHeights (oc op fuel) : Pres (Still x) (adjustHeights oc op fuel) := by
  unfold Engine.adjustHeights; mpres
mono_leaf PresM.adjustHeights
theorem PresM.addParent (a b c) : Pres (Still x) (addParent a b c) := by unfold Engine.addParent; mpres
mono_leaf PresM.addParent
theorem PresM.removeParent (a b c) : Pres (Still x) (removeParent a b c) := by
  unfold Engine.removeParent; mpres
mono_leaf PresM.removeParent
theorem PresM.handleAfterStabilisation (n) : Pres (Still x) (handleAfterStabilisation n) :=
  PresM.ofQuiet (Pres.handleAfterStabilisation n)
mono_leaf PresM.handleAfterStabilisation
theorem PresM.maybeHandleAfterStabilisation (n) : Pres (Still x) (maybeHandleAfterStabilisation n) :=
  PresM.ofQuiet (Pres.maybeHandleAfterStabilisation n)
mono_leaf PresM.maybeHandleAfterStabilisation
theorem PresM.shouldCutoff (env n o v) : Pres (Still x) (shouldCutoff env n o v) :=
  PresM.ofQuiet (Pres.shouldCutoff env n o v)
mono_leaf PresM.shouldCutoff
theorem PresM.edgeOnChange (env e edge) : Pres (Still x) (edgeOnChange env e edge) :=
  PresM.ofQuiet (Pres.edgeOnChange env e edge)
mono_leaf PresM.edgeOnChange
theorem PresM.runEdgeCallback (env e i) : Pres (Still x) (runEdgeCallback env e i) :=
  PresM.ofQuiet (Pres.runEdgeCallback env e i)
mono_leaf PresM.runEdgeCallback
theorem PresM.observabilityChange (e b) : Pres (Still x) (observabilityChange e b) := by
  unfold Engine.observabilityChange; mpres
mono_leaf PresM.observabilityChange
theorem PresM.markMapRefUnknown (fuel n) : Pres (Still x) (markMapRefUnknown fuel n) := by
  induction fuel generalizing n with
  | zero => unfold Engine.markMapRefUnknown; mpres
  | succ fuel ih => unfold Engine.markMapRefUnknown; mpres; all_goals exact ih _
mono_leaf PresM.markMapRefUnknown

theorem PresM.necessary (env : Env) (fuel : Nat) :
    (∀ n, Pres (Still x) (becameNecessary env fuel n)) ∧
    (∀ c i p, Pres (Still x) (addParentWithoutAdjustingHeights env fuel c i p)) := by
  induction fuel with
  | zero =>
    constructor
    · intro n; unfold Engine.becameNecessary; mpres
    · intro c i p; unfold Engine.addParentWithoutAdjustingHeights; mpres
  | succ fuel ih =>
    constructor
    · intro n; unfold Engine.becameNecessary; mpres; all_goals exact ih.2 _ _ _
    · intro c i p; unfold Engine.addParentWithoutAdjustingHeights; mpres; all_goals exact ih.1 _
theorem PresM.becameNecessary (env fuel n) : Pres (Still x) (becameNecessary env fuel n) :=
  (PresM.necessary env fuel).1 n
mono_leaf PresM.becameNecessary
theorem PresM.addParentWithoutAdjustingHeights (env fuel c i p) :
    Pres (Still x) (addParentWithoutAdjustingHeights env fuel c i p) := (PresM.necessary env fuel).2 c i p
mono_leaf PresM.addParentWithoutAdjustingHeights

theorem PresM.unnecessary (fuel : Nat) :
    (∀ n, Pres (Still x) (becameUnnecessary fuel n)) ∧ (∀ n, Pres (Still x) (checkIfUnnecessary fuel n)) ∧
    (∀ n, Pres (Still x) (removeChildren fuel n)) := by
  induction fuel with
  | zero =>
    refine ⟨?_, ?_, ?_⟩
    · intro n; unfold Engine.becameUnnecessary; mpres
    · intro n; unfold Engine.checkIfUnnecessary; mpres
    · intro n; unfold Engine.removeChildren; mpres
  | succ fuel ih =>
    refine ⟨?_, ?_, ?_⟩
    · intro n; unfold Engine.becameUnnecessary; mpres; all_goals exact ih.2.2 _
    · intro n; unfold Engine.checkIfUnnecessary; mpres; all_goals exact ih.1 _
    · intro n; unfold Engine.removeChildren; mpres; all_goals exact ih.2.1 _
theorem PresM.becameUnnecessary (fuel n) : Pres (Still x) (becameUnnecessary fuel n) :=
  (PresM.unnecessary fuel).1 n
mono_leaf PresM.becameUnnecessary
theorem PresM.checkIfUnnecessary (fuel n) : Pres (Still x) (checkIfUnnecessary fuel n) :=
  (PresM.unnecessary fuel).2.1 n
mono_leaf PresM.checkIfUnnecessary
theorem PresM.removeChildren (fuel n) : Pres (Still x) (removeChildren fuel n) :=
  (PresM.unnecessary fuel).2.2 n
mono_leaf PresM.removeChildren

theorem PresM.invDetach (fuel n sc) : Pres (Still x) (invDetach fuel n sc) := by
  unfold Inval.invDetach; mpres
theorem PresM.invCascade (fuel k) (ih : ∀ r, Pres (Still x) (invalidateNode fuel r)) :
    Pres (Still x) (invCascade fuel k) := by
  unfold Inval.invCascade; mpres; all_goals exact ih _

/-- what comes after `valid := false` in `invalidate_node` -/
theorem PresM.invFinish_tail (n : Nat) (t : State) (r : Except Panic Unit) (s' : State)
    (h : (invFinish n).run.run t = (r, s')) : Still x (markedInvalid n t) s' := by
  unfold Inval.invFinish at h
  rw [run_bind_modNode] at h
  refine Pres.h ?_ _ _ _ h
  mpres

/-- `invalidate_node`: the one place where `valid` is written.  It is written with `false`, and only
after the stored value has been dropped — which is why a clean node stays clean. -/
theorem PresM.invalidateNode (fuel n) : Pres (Still x) (invalidateNode fuel n) := by
  induction fuel generalizing n with
  | zero => unfold Engine.invalidateNode; mpres
  | succ fuel ih =>
    constructor
    intro s r s' h
    cases hn : s.nodes[n]? with
    | none => rw [invalidateNode_missing fuel n s hn] at h; cases h; exact Still.refl _ _
    | some nd =>
      cases hv : nd.valid with
      | false => rw [invalidateNode_invalid fuel n s nd hn hv] at h; cases h; exact Still.refl _ _
      | true =>
        rw [invalidateNode_run fuel n s nd hn hv] at h
        have h0 : Still x s (invStamped n (handled n s)) :=
          (Still.of_handled x n s).trans (Still.of_invStamped x n _)
        have hlt0 : n < (invStamped n (handled n s)).nodes.size := by
          have := h0.size; have := lt_of_some hn; omega
        have hv0 : ((invStamped n (handled n s)).nodeD n).value = none := by
          rw [nodeD_of_modify (t := invStamped n (handled n s)) (s := handled n s) (n := n)
            (f := fun y => { y with value := none, changedAt := (handled n s).stabNum,
                                    recomputedAt := (handled n s).stabNum }) rfl,
            if_pos ⟨rfl, by simpa [invStamped] using hlt0⟩]
        rw [run_bind] at h
        rcases h1 : (Inval.invDetach fuel n nd.createdIn).run.run (invStamped n (handled n s)) with ⟨r1, t1⟩
        have q1 := (PresM.invDetach (x := x) fuel n nd.createdIn).h _ _ _ h1
        rw [h1] at h
        cases r1 with
        | error e => cases h; exact h0.trans q1
        | ok u1 =>
          simp only [] at h
          rw [run_bind] at h
          rcases h2 : (Inval.invCascade fuel nd.kind).run.run t1 with ⟨r2, t2⟩
          have q2 := (PresM.invCascade (x := x) fuel nd.kind ih).h _ _ _ h2
          rw [h2] at h
          cases r2 with
          | error e => cases h; exact (h0.trans q1).trans q2
          | ok u2 =>
            simp only [] at h
            have q3 := PresM.invFinish_tail (x := x) n t2 r s' h
            have q12 := q1.trans q2
            have hj : x = some n ∨ (t2.nodeD n).value = none := by
              by_cases hx : x = some n
              · exact Or.inl hx
              · exact Or.inr (q12.vnone n hlt0 hx hv0)
            exact ((h0.trans q12).trans (Still.of_markedInvalid x n t2 hj)).trans q3
mono_leaf PresM.invalidateNode

theorem PresM.propagateInvalidity (fuel) : Pres (Still x) (propagateInvalidity fuel) := by
  induction fuel with
  | zero => unfold Engine.propagateInvalidity; mpres
  | succ fuel ih => unfold Engine.propagateInvalidity; mpres; all_goals exact ih
mono_leaf PresM.propagateInvalidity
theorem PresM.becameNecessaryPropagate (env fuel n) :
    Pres (Still x) (becameNecessaryPropagate env fuel n) := by
  unfold Engine.becameNecessaryPropagate; mpres
mono_leaf PresM.becameNecessaryPropagate
theorem PresM.stateAddParent (env fuel c i p) : Pres (Still x) (stateAddParent env fuel c i p) := by
  unfold Engine.stateAddParent; mpres
mono_leaf PresM.stateAddParent
theorem PresM.changeChildBindRhs (env fuel m o nw i) :
    Pres (Still x) (changeChildBindRhs env fuel m o nw i) := by
  unfold Engine.changeChildBindRhs; mpres
mono_leaf PresM.changeChildBindRhs

/-! ### expert API -/
theorem PresM.assertRunningIsChild (n name) : Pres (Still x) (assertRunningIsChild n name) := by
  unfold Engine.assertRunningIsChild; mpres
mono_leaf PresM.assertRunningIsChild
theorem PresM.expertMakeStale (n) : Pres (Still x) (expertMakeStale n) := by
  unfold Engine.expertMakeStale; mpres
mono_leaf PresM.expertMakeStale
theorem PresM.expertAddDependency (env fuel n c cb) :
    Pres (Still x) (expertAddDependency env fuel n c cb) := by
  unfold Engine.expertAddDependency; mpres
mono_leaf PresM.expertAddDependency
theorem PresM.swapEdgeIndices (n c1 i1 c2 i2) : Pres (Still x) (swapEdgeIndices n c1 i1 c2 i2) := by
  unfold Engine.swapEdgeIndices; mpres
mono_leaf PresM.swapEdgeIndices
theorem PresM.expertRemoveDependency (fuel n dep) :
    Pres (Still x) (expertRemoveDependency fuel n dep) := by
  unfold Engine.expertRemoveDependency; mpres
mono_leaf PresM.expertRemoveDependency
theorem PresM.expertInvalidate (fuel n) : Pres (Still x) (expertInvalidate fuel n) := by
  unfold Engine.expertInvalidate; mpres
mono_leaf PresM.expertInvalidate

/-! ### node creation, var writes, effects -/
theorem PresM.createNode (k sc c) : Pres (Still x) (createNode k sc c) := by
  unfold Engine.createNode; mpres
mono_leaf PresM.createNode
theorem PresM.createVar (v sc) : Pres (Still x) (createVar v sc) := by unfold Engine.createVar; mpres
mono_leaf PresM.createVar
theorem PresM.createBind (b l) : Pres (Still x) (createBind b l) := by unfold Engine.createBind; mpres
mono_leaf PresM.createBind
set_option maxHeartbeats 1000000 in
theorem PresM.elabInstr (loc v i) : Pres (Still x) (elabInstr loc v i) := by
  cases i with
  | mapOp op => cases op <;> (simp only [Engine.elabInstr]; mpres)
  | _ => simp only [Engine.elabInstr]; mpres
mono_leaf PresM.elabInstr
theorem PresM.elabTemplateBase (t v init) : Pres (Still x) (elabTemplateBase t v init) := by
  unfold Engine.elabTemplateBase; mpres
mono_leaf PresM.elabTemplateBase
theorem PresM.memoCall (env m key) : Pres (Still x) (memoCall env m key) := by
  unfold Engine.memoCall; mpres
mono_leaf PresM.memoCall
theorem PresM.elabInstrM (env loc v i) : Pres (Still x) (elabInstrM env loc v i) := by
  unfold Engine.elabInstrM; mpres
mono_leaf PresM.elabInstrM
theorem PresM.elabTemplate (env t v) : Pres (Still x) (elabTemplate env t v) := by
  unfold Engine.elabTemplate; mpres
mono_leaf PresM.elabTemplate
theorem PresM.didSetVarWhileNotStabilising (v) : Pres (Still x) (didSetVarWhileNotStabilising v) := by
  unfold Engine.didSetVarWhileNotStabilising; mpres
mono_leaf PresM.didSetVarWhileNotStabilising
theorem PresM.writeVar (v f b) : Pres (Still x) (writeVar v f b) := by unfold Engine.writeVar; mpres
mono_leaf PresM.writeVar
theorem PresM.disallowFutureUse (o) : Pres (Still x) (disallowFutureUse o) := by
  unfold Engine.disallowFutureUse; mpres
mono_leaf PresM.disallowFutureUse
/-- dropping a `Var` handle touches `vars` and `deadVars` only -/
theorem PresM.dropVarHandle (v) : Pres (Still x) (dropVarHandle v) := by
  unfold Engine.dropVarHandle; mpres
mono_leaf PresM.dropVarHandle
mono_leaf PresS.withVarHandle
theorem PresM.runEffectBasic (env e) : Pres (Still x) (runEffectBasic env e) := by
  unfold Engine.runEffectBasic; mpres
mono_leaf PresM.runEffectBasic
theorem PresM.runEffects (env fuel effs arg) : Pres (Still x) (runEffects env fuel effs arg) := by
  unfold Engine.runEffects; mpres
mono_leaf PresM.runEffects

/-! ### per-key operators, operator closures -/
theorem PresM.expertValue (env e d sl) : Pres (Still x) (expertValue env e d sl) := by
  unfold Engine.expertValue; mpres
mono_leaf PresM.expertValue
theorem PresM.withOldEvents (env g n σ old y new did) :
    Pres (Still x) (withOldEvents env g n σ old y new did) := by
  unfold Engine.withOldEvents; mpres
mono_leaf PresM.withOldEvents
set_option maxHeartbeats 1000000 in
theorem PresM.perKeyDriver (env fuel op m) : Pres (Still x) (perKeyDriver env fuel op m) := by
  unfold Engine.perKeyDriver; mpres
mono_leaf PresM.perKeyDriver

/-! ### notifications -/
theorem PresM.childChanged (env fuel p c ci o) : Pres (Still x) (childChanged env fuel p c ci o) :=
  PresM.ofQuiet (Pres.childChanged env fuel p c ci o)
mono_leaf PresM.childChanged
theorem PresM.parentIterCanRecomputeNow (p c) : Pres (Still x) (parentIterCanRecomputeNow p c) :=
  PresM.ofQuiet (Pres.parentIterCanRecomputeNow p c)
mono_leaf PresM.parentIterCanRecomputeNow
theorem PresM.maybeChangeValueManual (env fuel n o d b) :
    Pres (Still x) (maybeChangeValueManual env fuel n o d b) := by
  unfold Engine.maybeChangeValueManual; mpres
mono_leaf PresM.maybeChangeValueManual

/-! ### observers, handlers -/
theorem PresM.subscribe (o hid) : Pres (Still x) (subscribe o hid) := by unfold Engine.subscribe; mpres
mono_leaf PresM.subscribe
theorem PresM.unsubscribe (o t ow) : Pres (Still x) (unsubscribe o t ow) := by
  unfold Engine.unsubscribe; mpres
mono_leaf PresM.unsubscribe
theorem PresM.addNewObservers (env fuel) : Pres (Still x) (addNewObservers env fuel) := by
  unfold Engine.addNewObservers; mpres
mono_leaf PresM.addNewObservers
theorem PresM.unlinkDisallowedObservers (fuel) : Pres (Still x) (unlinkDisallowedObservers fuel) := by
  unfold Engine.unlinkDisallowedObservers; mpres
mono_leaf PresM.unlinkDisallowedObservers
theorem PresM.runAll (env fuel o n nu now) : Pres (Still x) (runAll env fuel o n nu now) := by
  unfold Engine.runAll; mpres
mono_leaf PresM.runAll
theorem PresM.stabiliseEnd (env fuel) : Pres (Still x) (stabiliseEnd env fuel) := by
  unfold Engine.stabiliseEnd; mpres
mono_leaf PresM.stabiliseEnd
theorem PresM.setMaxHeightAllowed (N) : Pres (Still x) (setMaxHeightAllowed N) := by
  unfold Engine.setMaxHeightAllowed; mpres
mono_leaf PresM.setMaxHeightAllowed

end ladder

/-! ### `maybeChangeValue`, `recomputeOne`: the node being recomputed may get a value -/
theorem PresM.maybeChangeValue (env fuel n v) :
    Pres (Still (some n)) (maybeChangeValue env fuel n v) := by
  unfold Engine.maybeChangeValue; mpres
mono_leaf PresM.maybeChangeValue

set_option maxHeartbeats 1000000 in
theorem PresM.recomputeOne_self (env fuel n) : Pres (Still (some n)) (recomputeOne env fuel n) := by
  unfold Engine.recomputeOne; mpres

/-- `recompute_one`, any node, any outcome: `Mono` -/
theorem PresMono.recomputeOne (env fuel n) : Pres Mono (recomputeOne env fuel n) := by
  constructor
  intro s r s' h
  have h1 := (PresM.recomputeOne_self env fuel n).h s r s' h
  by_cases hd : (s.nodeD n).valid = false ∧ (s.nodeD n).value = none
  · have hst : Mono s (started n s) := by
      refine ⟨by simp [started], fun m _ hm => ?_, fun m _ _ hm => ?_⟩
      · rw [started_nodeD]; split <;> exact hm
      · rw [started_nodeD]; split <;> exact hm
    cases hn : s.nodes[n]? with
    | none =>
      rw [recomputeOne_missing_run env fuel n s hn] at h
      cases h; exact hst
    | some nd =>
      have hv : nd.valid = false := by rw [← nodeD_of_some hn]; exact hd.1
      rw [recomputeOne_invalid_run env fuel n s nd hn hv] at h
      cases h; exact hst
  · exact h1.mono_of hd

/-! ### `Mono` for everything -/

theorem PresMono.ofStill {α} {m : M α} (h : Pres (Still none) m) : Pres Mono m :=
  h.mono fun _ _ q => q.mono

macro_rules | `(tactic| mleaf) => `(tactic| ((with_reducible apply PresMono.ofStill); mleaf))
mono_leaf PresMono.recomputeOne

theorem PresMono.recompute (env fuel n) : Pres Mono (recompute env fuel n) := by
  induction fuel generalizing n with
  | zero => unfold Engine.recompute; mpres
  | succ fuel ih => unfold Engine.recompute; mpres; all_goals exact ih _
mono_leaf PresMono.recompute

theorem PresMono.drainHeap (env fuel) : Pres Mono (drainHeap env fuel) := by
  induction fuel with
  | zero => unfold Engine.drainHeap; mpres
  | succ fuel ih => unfold Engine.drainHeap; mpres; all_goals exact ih
mono_leaf PresMono.drainHeap

theorem PresMono.stabilise (env fuel) : Pres Mono (stabilise env fuel) := by
  unfold Engine.stabilise; mpres

/-! ## Part 4: what `invalidate_node` establishes -/

theorem pushParents_nil (s : State) : pushParents [] s = s := rfl

/-- the state after `invalidate_node n` on a valid node that is not necessary, not a bind main and not
in the recompute heap -/
def invalidated (n : Nat) (s : State) : State := markedInvalid n (invStamped n (handled n s))

/-- node `n` of `invalidated n s`, field by field -/
theorem invalidated_nodeD (n : Nat) (s : State) (nd : Node) (hn : s.nodes[n]? = some nd) :
    (invalidated n s).nodeD n =
      { nd with valid := false, value := none, changedAt := s.stabNum, recomputedAt := s.stabNum,
                inHandleAfterStab := nd.inHandleAfterStab || decide (nd.numOnUpdateHandlers > 0) } := by
  have hlt := lt_of_some hn
  have hD := nodeD_of_some hn
  have hsz : (handled n s).nodes.size = s.nodes.size := by
    unfold handled; split <;> simp
  have hst : (handled n s).stabNum = s.stabNum := by unfold handled; split <;> rfl
  unfold invalidated
  rw [markedInvalid_nodeD, if_pos ⟨rfl, by simpa [invStamped, hsz] using hlt⟩]
  rw [nodeD_of_modify (t := invStamped n (handled n s)) (s := handled n s) (n := n)
    (f := fun y => { y with value := none, changedAt := (handled n s).stabNum,
                            recomputedAt := (handled n s).stabNum }) rfl,
    if_pos ⟨rfl, by rw [hsz]; exact hlt⟩, handled_nodeD, hD, hst]
  by_cases h1 : nd.numOnUpdateHandlers > 0
  · by_cases h2 : nd.inHandleAfterStab = false
    · rw [if_pos ⟨rfl, h1, h2, hlt⟩]; simp [h1]
    · rw [if_neg (fun hc => h2 hc.2.2.1)]
      have h2' : nd.inHandleAfterStab = true := by simpa using h2
      simp [h2']
  · rw [if_neg (fun hc => h1 hc.2.1)]; simp [h1]

theorem invalidated_other (n m : Nat) (s : State) (hm : m ≠ n) :
    (invalidated n s).nodeD m = s.nodeD m := by
  unfold invalidated
  rw [markedInvalid_nodeD, if_neg (fun hc => hm hc.1.symm)]
  rw [nodeD_of_modify (t := invStamped n (handled n s)) (s := handled n s) (n := n)
    (f := fun y => { y with value := none, changedAt := (handled n s).stabNum,
                            recomputedAt := (handled n s).stabNum }) rfl,
    if_neg (fun hc => hm hc.1.symm), handled_nodeD, if_neg (fun hc => hm hc.1.symm)]

/-- the rest of `invalidated n s` -/
theorem invalidated_fields (n : Nat) (s : State) :
    (invalidated n s).counters = { s.counters with invalidated := s.counters.invalidated + 1 } ∧
    (invalidated n s).propagateInvalidity = s.propagateInvalidity ∧
    (invalidated n s).handleAfterStab =
      (if (s.nodeD n).numOnUpdateHandlers > 0 ∧ (s.nodeD n).inHandleAfterStab = false
       then s.handleAfterStab ++ [n] else s.handleAfterStab) ∧
    (invalidated n s).rch = s.rch ∧ (invalidated n s).binds = s.binds ∧
    (invalidated n s).stabNum = s.stabNum ∧ (invalidated n s).nodes.size = s.nodes.size := by
  unfold invalidated markedInvalid invStamped handled
  split <;> simp

/-- valid, not necessary, not a bind main: no cascade -/
theorem invalidateNode_leaf_run (fuel n : Nat) (s : State) (nd : Node) (hn : s.nodes[n]? = some nd)
    (hv : nd.valid = true) (hnec : nd.isNecessary = false) (hk : ∀ b lc, nd.kind ≠ .bindMain b lc) :
    (invalidateNode (fuel + 1) n).run.run s =
      if nd.heightInRch ≥ 0 then (rchRemove n).run.run (invalidated n s)
      else (.ok (), invalidated n s) := by
  have hlt := lt_of_some hn
  have hD := nodeD_of_some hn
  rw [invalidateNode_run fuel n s nd hn hv]
  have hsz : (handled n s).nodes.size = s.nodes.size := by
    unfold handled; split <;> simp
  -- node `n` in the stamped state
  have hD1 : (invStamped n (handled n s)).nodeD n =
      { (handled n s).nodeD n with value := none, changedAt := (handled n s).stabNum,
                                   recomputedAt := (handled n s).stabNum } := by
    rw [nodeD_of_modify (t := invStamped n (handled n s)) (s := handled n s) (n := n)
      (f := fun y => { y with value := none, changedAt := (handled n s).stabNum,
                              recomputedAt := (handled n s).stabNum }) rfl,
      if_pos ⟨rfl, by rw [hsz]; exact hlt⟩]
  have hH : ((handled n s).nodeD n).parents = nd.parents ∧
      ((handled n s).nodeD n).observers = nd.observers ∧
      ((handled n s).nodeD n).forceNecessary = nd.forceNecessary ∧
      ((handled n s).nodeD n).heightInRch = nd.heightInRch := by
    rw [handled_nodeD, hD]; split <;> exact ⟨rfl, rfl, rfl, rfl⟩
  have hnec1 : (invStamped n (handled n s)).isNecessary n = false := by
    unfold State.isNecessary Node.isNecessary
    rw [hD1]
    simp only [hH.1, hH.2.1, hH.2.2.1]
    exact hnec
  have hn1 : (invStamped n (handled n s)).nodes[n]? = some ((invStamped n (handled n s)).nodeD n) :=
    some_of_lt (by simpa [invStamped, hsz] using hlt)
  have hpar : ((invStamped n (handled n s)).nodeD n).parents = [] := by
    rw [hD1]; simp only [hH.1]
    simp only [Node.isNecessary, Bool.or_eq_false_iff, Bool.not_eq_false', List.isEmpty_iff] at hnec
    exact hnec.1.1
  have hrch : ((invStamped n (handled n s)).nodeD n).heightInRch = nd.heightInRch := by
    rw [hD1]; exact hH.2.2.2
  have hcas : invCascade fuel nd.kind = pure () := by
    unfold invCascade
    cases hkk : nd.kind <;> first | rfl | exact absurd hkk (hk _ _)
  rw [hcas]
  unfold invDetach
  simp only [bind_assoc, run_bind_get, hnec1, Bool.false_eq_true, if_false, pure_bind]
  rw [invFinish_run n _ _ hn1, hpar, hrch, pushParents_nil]
  rfl


/-- valid, necessary, not a bind main: `remove_children`, the height reset, the final part -/
theorem invalidateNode_necessary_run (fuel n : Nat) (s : State) (nd : Node)
    (hn : s.nodes[n]? = some nd) (hv : nd.valid = true) (hnec : nd.isNecessary = true)
    (hk : ∀ b lc, nd.kind ≠ .bindMain b lc) :
    (invalidateNode (fuel + 1) n).run.run s =
      (do removeChildren fuel n
          setHeight n ((← scopeHeight nd.createdIn) + 1)
          invFinish n).run.run (invStamped n (handled n s)) := by
  rw [invalidateNode_run fuel n s nd hn hv]
  have hcas : invCascade fuel nd.kind = pure () := by
    unfold invCascade
    cases hkk : nd.kind <;> first | rfl | exact absurd hkk (hk _ _)
  have hsz : (handled n s).nodes.size = s.nodes.size := by unfold handled; split <;> simp
  have hnec1 : (invStamped n (handled n s)).isNecessary n = true := by
    have hD1 : (invStamped n (handled n s)).nodeD n =
        { (handled n s).nodeD n with value := none, changedAt := (handled n s).stabNum,
                                     recomputedAt := (handled n s).stabNum } := by
      rw [nodeD_of_modify (t := invStamped n (handled n s)) (s := handled n s) (n := n)
        (f := fun y => { y with value := none, changedAt := (handled n s).stabNum,
                                recomputedAt := (handled n s).stabNum }) rfl,
        if_pos ⟨rfl, by rw [hsz]; exact lt_of_some hn⟩]
    unfold State.isNecessary Node.isNecessary
    rw [hD1, handled_nodeD, nodeD_of_some hn]
    split <;> exact hnec
  rw [hcas]
  unfold invDetach
  simp only [bind_assoc, run_bind_get, hnec1, if_true, pure_bind]

/-- the leaf case, node marked as queued and really in its bucket -/
theorem invalidateNode_leaf_queued_run (fuel n : Nat) (s : State) (nd : Node) (q : List Nat) (idx : Nat)
    (hn : s.nodes[n]? = some nd) (hv : nd.valid = true) (hnec : nd.isNecessary = false)
    (hk : ∀ b lc, nd.kind ≠ .bindMain b lc) (hin : nd.heightInRch ≥ 0)
    (hq : s.rch.queues[nd.heightInRch.toNat]? = some q) (hidx : q.idxOf? n = some idx) :
    (invalidateNode (fuel + 1) n).run.run s =
      (.ok (), rchRemoved n nd.heightInRch.toNat q idx (invalidated n s)) := by
  rw [invalidateNode_leaf_run fuel n s nd hn hv hnec hk, if_pos hin]
  obtain ⟨_, _, _, hr, _, _, hsz⟩ := invalidated_fields n s
  have hD := invalidated_nodeD n s nd hn
  have hn' : (invalidated n s).nodes[n]? = some ((invalidated n s).nodeD n) :=
    some_of_lt (by rw [hsz]; exact lt_of_some hn)
  have hh : ((invalidated n s).nodeD n).heightInRch = nd.heightInRch := by rw [hD]
  have := rchRemove_run n (invalidated n s) _ q idx hn' (by rw [hh]; exact hin)
    (needsToBeComputed_invalid _ _ (by rw [hD])) (by rw [hh, hr]; exact hq) hidx
  rw [this, hh]

/-- a `remove` that returns leaves the node unmarked -/
theorem rchRemove_ok_unmarked {n : Nat} {s s' : State} {u : Unit}
    (h : (rchRemove n).run.run s = (.ok u, s')) : (s'.nodeD n).heightInRch = -1 := by
  unfold rchRemove at h
  rw [run_bind_get] at h
  obtain ⟨nd, s1, h1, ha⟩ := bind_ok_inv h
  obtain ⟨e1, hn⟩ := getNode_ok_inv h1
  obtain ⟨_, s2, h2, hb⟩ := bind_ok_inv ha
  have e2 := dassert_ok_inv h2
  obtain ⟨_, s3, h3, hc⟩ := bind_ok_inv hb
  have q := (PresM.rchUnlink (x := none) n).h _ _ _ h3
  have hlt : n < s3.nodes.size := by
    have := q.size; have := lt_of_some hn; rw [e2, e1] at *; omega
  rw [run_bind_modNode, run_modify] at hc
  cases hc
  rw [nodeD_of_modify (s := s3) (n := n) (f := fun y => { y with heightInRch := -1 }) rfl,
    if_pos ⟨rfl, hlt⟩]

/-- `invalidate_node n` returned: `n` exists and is invalid; if it was valid before, it has no stored
value any more and is not marked as queued in the recompute heap -/
theorem invalidateNode_ok {fuel n : Nat} {s s' : State} {u : Unit}
    (h : (invalidateNode fuel n).run.run s = (.ok u, s')) :
    n < s.nodes.size ∧ (s'.nodeD n).valid = false ∧
      ((s.nodeD n).valid = true → (s'.nodeD n).value = none ∧ (s'.nodeD n).inRch = false) := by
  cases fuel with
  | zero => rw [invalidateNode_zero] at h; cases h
  | succ fuel =>
    cases hn : s.nodes[n]? with
    | none => rw [invalidateNode_missing fuel n s hn] at h; cases h
    | some nd =>
      have hlt := lt_of_some hn
      have hD := nodeD_of_some hn
      cases hv : nd.valid with
      | false =>
        rw [invalidateNode_invalid fuel n s nd hn hv] at h; cases h
        refine ⟨hlt, by rw [hD]; exact hv, fun hc => ?_⟩
        rw [hD, hv] at hc; cases hc
      | true =>
        refine ⟨hlt, ?_⟩
        rw [invalidateNode_run fuel n s nd hn hv] at h
        have h0 : Still none s (invStamped n (handled n s)) :=
          (Still.of_handled none n s).trans (Still.of_invStamped none n _)
        have hlt0 : n < (invStamped n (handled n s)).nodes.size := Nat.lt_of_lt_of_le hlt h0.size
        have hv0 : ((invStamped n (handled n s)).nodeD n).value = none := by
          rw [nodeD_of_modify (t := invStamped n (handled n s)) (s := handled n s) (n := n)
            (f := fun y => { y with value := none, changedAt := (handled n s).stabNum,
                                    recomputedAt := (handled n s).stabNum }) rfl,
            if_pos ⟨rfl, by simpa [invStamped] using hlt0⟩]
        obtain ⟨_, t1, h1, h⟩ := bind_ok_inv h
        obtain ⟨_, t2, h2, h⟩ := bind_ok_inv h
        have q1 := (PresM.invDetach (x := none) fuel n nd.createdIn).h _ _ _ h1
        have q2 := (PresM.invCascade (x := none) fuel nd.kind
          (fun r => PresM.invalidateNode fuel r)).h _ _ _ h2
        have q12 := q1.trans q2
        have hlt2 : n < t2.nodes.size := Nat.lt_of_lt_of_le hlt0 q12.size
        have hv2 : (t2.nodeD n).value = none := q12.vnone n hlt0 (by simp) hv0
        have hn2 := some_of_lt hlt2
        rw [invFinish_run n t2 _ hn2] at h
        have hP : ((pushParents (t2.nodeD n).parents (markedInvalid n t2)).nodeD n) =
            { t2.nodeD n with valid := false } := by
          rw [nodeD_of_nodes (t := pushParents (t2.nodeD n).parents (markedInvalid n t2))
            (s := markedInvalid n t2) rfl, markedInvalid_nodeD, if_pos ⟨rfl, hlt2⟩]
        have hltP : n < (pushParents (t2.nodeD n).parents (markedInvalid n t2)).nodes.size := by
          simpa [pushParents, markedInvalid] using hlt2
        split at h
        · have q3 := (PresM.rchRemove (x := none) n).h _ _ _ h
          have := rchRemove_ok_unmarked h
          exact ⟨q3.keep n hltP (by rw [hP]), fun _ =>
            ⟨q3.vnone n hltP (by simp) (by rw [hP]; exact hv2), by simp [Node.inRch, this]⟩⟩
        · rename_i hneg
          cases h
          rw [hP]
          exact ⟨rfl, fun _ => ⟨hv2, by simpa [Node.inRch] using hneg⟩⟩

/-- the loop `for r in l do invalidate_node r` returned: every member of `l` is invalid -/
theorem invalidateAll_ok {fuel : Nat} {l : List Nat} {s s' : State} {u : PUnit}
    (h : (forIn l PUnit.unit fun (r : Nat) (_ : PUnit) => do
            invalidateNode fuel r
            pure (ForInStep.yield PUnit.unit) : M PUnit).run.run s = (.ok u, s')) :
    ∀ r, r ∈ l → r < s'.nodes.size ∧ (s'.nodeD r).valid = false := by
  refine forIn_post (fun r t => r < t.nodes.size ∧ (t.nodeD r).valid = false) _ ?_ l ?_ s u s' h
  · intro a b t r t' hp hb
    have q : Still none t t' :=
      (Pres.bind (PresM.invalidateNode (x := none) fuel b) (fun _ => Pres.pure _)).h _ _ _ hb
    exact ⟨Nat.lt_of_lt_of_le hp.1 q.size, q.keep a hp.1 hp.2⟩
  · intro a _ t r t' hb
    obtain ⟨_, t1, h1, h2⟩ := bind_ok_inv hb
    obtain ⟨rfl, rfl⟩ := pure_ok_inv h2
    obtain ⟨hlt, hv, _⟩ := invalidateNode_ok h1
    have q := (PresM.invalidateNode (x := none) fuel a).h _ _ _ h1
    exact ⟨rfl, Nat.lt_of_lt_of_le hlt q.size, hv⟩

/-! ## Part 5: the `BindLhsChange` branch of `recompute_one`, phase by phase -/

/-- phase 1: forget the old generation's list, run the user's closure inside scope `bind b`; the
result is the new right-hand side -/
def lhsRunClosure (env : Env) (n b : Nat) (br : BindRec) : M Nat := do
  modBind b fun x => { x with allNodesCreatedOnRhs := [] }
  let lhsVal ← valueUnwrap env br.lhs "node:recompute_one:child-value"
  let oldScope := (← get).currentScope
  modify fun s => { s with currentScope := .bind b }
  tick
  let t := env.body br.body lhsVal
  logEv (.inv s!"b{br.body}" n [lhsVal] "")
  let rhs ← elabTemplate env t lhsVal
  modify fun s => { s with currentScope := oldScope }
  pure rhs

/-- phase 2: swap the right-hand side of the bind main -/
def lhsRelink (env : Env) (fuel n b : Nat) (br : BindRec) (now : Int) (rhs : Nat) : M Unit := do
  modBind b fun x => { x with rhs := some rhs }
  modNode n fun x => { x with changedAt := now }
  changeChildBindRhs env fuel br.main br.rhs rhs 1

/-- phase 3: if the bind has run before, invalidate everything the previous run created -/
def lhsInvalidateOld (fuel : Nat) (br : BindRec) : M Unit := do
  if br.rhs.isSome then
    for r in br.allNodesCreatedOnRhs do invalidateNode fuel r
    propagateInvalidity fuel

/-- phase 4: the change detector itself "changes" -/
def lhsFinish (env : Env) (fuel n : Nat) : M (Option Nat) := do
  dassert (← getNode n).valid "node:recompute_one:lhs-change-valid"
  maybeChangeValue env fuel n .unit

theorem recomputeOne_bindLhsChange_run (env : Env) (fuel n : Nat) (s : State) (nd : Node) (b : Nat)
    (br : BindRec) (hn : s.nodes[n]? = some nd) (hv : nd.valid = true)
    (hk : nd.kind = .bindLhsChange b) (hb : s.binds[b]? = some br) :
    (recomputeOne env fuel n).run.run s =
      (do let rhs ← lhsRunClosure env n b br
          lhsRelink env fuel n b br s.stabNum rhs
          lhsInvalidateOld fuel br
          lhsFinish env fuel n).run.run (started n s) := by
  have hk? : ({ nd with recomputedAt := s.stabNum } : Node).kind? = some (.bindLhsChange b) := by
    simp [Node.kind?, hv, hk]
  have hn' := started_getElem? n s nd hn
  unfold recomputeOne
  simp only [run_bind_get]
  cases hd : s.cfg.debug
  all_goals
    simp only [started, hd, Bool.false_eq_true, if_false, if_true, run_bind_modify,
      run_bind_bumpCounter, run_bind_get, run_bind_modNode] at hn' ⊢
    rw [run_bind_ok (run_getNode_some hn'), hk?]
    dsimp only
    simp only [getBind, bind_assoc, run_bind_get, hb, pure_bind]
    simp only [lhsRunClosure, lhsRelink, lhsInvalidateOld, lhsFinish, bind_assoc, pure_bind]
    cases br.rhs <;> simp only [Option.isSome, Bool.false_eq_true, if_false, if_true, bind_assoc, pure_bind]


theorem PresM.lhsRunClosure {x : Option Nat} (env n b br) :
    Pres (Still x) (lhsRunClosure env n b br) := by
  unfold Inval.lhsRunClosure; mpres
theorem PresM.lhsRelink {x : Option Nat} (env fuel n b br now rhs) :
    Pres (Still x) (lhsRelink env fuel n b br now rhs) := by
  unfold Inval.lhsRelink; mpres
theorem PresM.lhsFinish (env fuel n) : Pres (Still (some n)) (lhsFinish env fuel n) := by
  unfold Inval.lhsFinish; mpres

theorem Still.of_started (x : Option Nat) (n : Nat) (s : State) : Still x s (started n s) :=
  Still.of_modify (n := n) (f := fun y => { y with recomputedAt := s.stabNum }) rfl
    (fun _ h => h) (fun _ h => h) (fun _ h => h)

/-- loop rule: an invariant `K` of the state that every iteration keeps (whatever its outcome) and
may use, and a per-element postcondition that later iterations keep -/
theorem forIn_post_inv {α} (K : State → Prop) (P : α → State → Prop)
    (f : α → PUnit → M (ForInStep PUnit))
    (hK : ∀ b s r s', K s → (f b ⟨⟩).run.run s = (r, s') → K s')
    (hkeep : ∀ a b s r s', P a s → (f b ⟨⟩).run.run s = (r, s') → P a s')
    (l : List α)
    (hpost : ∀ a, a ∈ l → ∀ s r s', K s → (f a ⟨⟩).run.run s = (.ok r, s') → r = .yield ⟨⟩ ∧ P a s') :
    ∀ s r s', K s → (forIn l PUnit.unit f).run.run s = (.ok r, s') → K s' ∧ ∀ a, a ∈ l → P a s' := by
  induction l with
  | nil =>
    intro s r s' hk h
    rw [List.forIn_nil, run_pure] at h; cases h
    exact ⟨hk, fun a ha => by cases ha⟩
  | cons a l ih =>
    intro s r s' hk h
    rw [List.forIn_cons] at h
    obtain ⟨y, s1, hy, hrest⟩ := bind_ok_inv h
    obtain ⟨rfl, hp⟩ := hpost a (List.mem_cons_self ..) s y s1 hk hy
    have hk1 := hK a s _ s1 hk hy
    simp only at hrest
    obtain ⟨hk', hall⟩ := ih (fun a ha => hpost a (List.mem_cons_of_mem _ ha)) s1 r s' hk1 hrest
    refine ⟨hk', fun a' ha' => ?_⟩
    rcases List.mem_cons.1 ha' with rfl | hmem
    · exact forIn_keep (P a') f (hkeep a') l s1 _ s' hp hrest
    · exact hall a' hmem

/-- the heart of C03.  `recompute_one n` on a valid `BindLhsChange` node of a bind that has run before
(`br.rhs = some r0`) returned: every node the previous run of the closure registered
(`br.allNodesCreatedOnRhs`, read in the initial state) is invalid in the final state; and it has no
stored value, provided it existed, is not `n` itself, and was clean in the initial state. -/
theorem lhsChange_old_generation (env : Env) (fuel n : Nat) (s s' : State) (nd : Node) (b : Nat)
    (br : BindRec) (r0 : Nat) (res : Option Nat)
    (hn : s.nodes[n]? = some nd) (hv : nd.valid = true) (hk : nd.kind = .bindLhsChange b)
    (hb : s.binds[b]? = some br) (hr : br.rhs = some r0)
    (h : (recomputeOne env fuel n).run.run s = (.ok res, s')) :
    ∀ r, r ∈ br.allNodesCreatedOnRhs →
      r < s'.nodes.size ∧ (s'.nodeD r).valid = false ∧
      (r < s.nodes.size → r ≠ n → Clean s r → (s'.nodeD r).value = none) := by
  rw [recomputeOne_bindLhsChange_run env fuel n s nd b br hn hv hk hb] at h
  obtain ⟨rhs, t1, h1, ha⟩ := bind_ok_inv h
  obtain ⟨_, t2, h2, hb'⟩ := bind_ok_inv ha
  obtain ⟨_, t3, h3, hc⟩ := bind_ok_inv hb'
  have q0 : Still (some n) s t2 :=
    ((Still.of_started (some n) n s).trans ((PresM.lhsRunClosure env n b br).h _ _ _ h1)).trans
      ((PresM.lhsRelink env fuel n b br s.stabNum rhs).h _ _ _ h2)
  have q3 := (PresM.lhsFinish env fuel n).h _ _ _ hc
  -- the invalidation phase
  unfold lhsInvalidateOld at h3
  simp only [hr, Option.isSome_some, if_true] at h3
  obtain ⟨_, t25, hloop, hprop⟩ := bind_ok_inv h3
  have qprop := (PresM.propagateInvalidity (x := some n) fuel).h _ _ _ hprop
  -- the nodes whose value we track
  let G : Nat → Prop := fun r => r < s.nodes.size ∧ r ≠ n ∧ Clean s r
  let K : State → Prop := fun t => ∀ r, G r → r < t.nodes.size ∧ Clean t r
  let P : Nat → State → Prop := fun r t =>
    r < t.nodes.size ∧ (t.nodeD r).valid = false ∧ (G r → (t.nodeD r).value = none)
  have hne : ∀ r, r ≠ n → some n ≠ some r := fun r hrn e => hrn (Option.some.inj e).symm
  have hK2 : K t2 := fun r g =>
    ⟨Nat.lt_of_lt_of_le g.1 q0.size, q0.clean r g.1 (hne r g.2.1) g.2.2⟩
  have step : ∀ (a : Nat) (t : State) (y : Except Panic (ForInStep PUnit)) (t' : State),
      (do invalidateNode fuel a; pure (ForInStep.yield PUnit.unit) : M _).run.run t = (y, t') →
      Still (some n) t t' := fun a t y t' e =>
    (Pres.bind (PresM.invalidateNode (x := some n) fuel a) (fun _ => Pres.pure _)).h _ _ _ e
  have hloop' := forIn_post_inv K P _ ?_ ?_ br.allNodesCreatedOnRhs ?_ t2 _ t25 hK2 hloop
  · intro r hmem
    obtain ⟨hlt, hinv, hval⟩ := hloop'.2 r hmem
    have q : Still (some n) t25 s' := qprop.trans q3
    refine ⟨Nat.lt_of_lt_of_le hlt q.size, q.keep r hlt hinv, fun h1 h2 h3 => ?_⟩
    exact q.vnone r hlt (hne r h2) (hval ⟨h1, h2, h3⟩)
  · intro a t y t' hk e
    have q := step a t y t' e
    exact fun r g => ⟨Nat.lt_of_lt_of_le (hk r g).1 q.size, q.clean r (hk r g).1 (hne r g.2.1) (hk r g).2⟩
  · intro a c t y t' hp e
    have q := step c t y t' e
    exact ⟨Nat.lt_of_lt_of_le hp.1 q.size, q.keep a hp.1 hp.2.1,
      fun g => q.vnone a hp.1 (hne a g.2.1) (hp.2.2 g)⟩
  · intro a _ t y t' hk e
    obtain ⟨_, tm, e1, e2⟩ := bind_ok_inv e
    obtain ⟨rfl, rfl⟩ := pure_ok_inv e2
    obtain ⟨hlt, hinv, hval⟩ := invalidateNode_ok e1
    have q := (PresM.invalidateNode (x := none) fuel a).h _ _ _ e1
    refine ⟨rfl, Nat.lt_of_lt_of_le hlt q.size, hinv, fun g => ?_⟩
    cases hva : (t.nodeD a).valid with
    | true => exact (hval hva).1
    | false => exact q.vnone a hlt (by simp) ((hk a g).2 hva)

/-! ## Part 6: which nodes a run of a bind's closure registers in `allNodesCreatedOnRhs` -/

/-- the nodes registered as created on the right-hand side of bind `b` -/
def rhsNodes (s : State) (b : Nat) : List Nat :=
  match s.binds[b]? with
  | some br => br.allNodesCreatedOnRhs
  | none => []

/-- the state after `Node::create` -/
def created (kind : Kind) (scope : Scope) (cutoff : CutoffK) (s : State) : State :=
  { s with counters := { s.counters with created := s.counters.created + 1 },
           nodes := s.nodes.push { kind := kind, createdIn := scope, cutoff := cutoff },
           binds := match scope with
             | .top => s.binds
             | .bind b => s.binds.modify b fun x =>
                 { x with allNodesCreatedOnRhs := x.allNodesCreatedOnRhs ++ [s.nodes.size] } }

/-- node creation never fails; the new node's name is the old number of nodes; a node created in
scope `bind b` is appended to that bind's `allNodesCreatedOnRhs` -/
theorem createNode_run (kind : Kind) (scope : Scope) (cutoff : CutoffK) (s : State) :
    (createNode kind scope cutoff).run.run s = (.ok s.nodes.size, created kind scope cutoff s) := by
  unfold createNode
  rw [run_bind_get, run_bind_bumpCounter, run_bind_modify]
  cases scope <;> rfl

theorem rhsNodes_modify (s : State) (b b' : Nat) (f : BindRec → BindRec)
    (t : State) (ht : t.binds = s.binds.modify b f) :
    rhsNodes t b' = if b = b' then (match s.binds[b']? with
        | some br => (f br).allNodesCreatedOnRhs | none => []) else rhsNodes s b' := by
  unfold rhsNodes
  rw [ht, Array.getElem?_modify]
  by_cases h : b = b'
  · subst h; simp only [if_true]; cases s.binds[b]? <;> rfl
  · simp only [h, if_false]

/-- `s'` comes after `s` by node creation only: nodes and binds are only appended, scopes of old nodes
are unchanged, the `allNodesCreatedOnRhs` lists of old binds only grow, and they grow by exactly the
new nodes created in that bind's scope -/
structure Grow (s s' : State) : Prop where
  size : s.nodes.size ≤ s'.nodes.size
  bsize : s.binds.size ≤ s'.binds.size
  createdIn : ∀ m, m < s.nodes.size → (s'.nodeD m).createdIn = (s.nodeD m).createdIn
  old : ∀ b, b < s.binds.size → ∀ m, m ∈ rhsNodes s b → m ∈ rhsNodes s' b
  new : ∀ b, b < s.binds.size → ∀ m, s.nodes.size ≤ m → m < s'.nodes.size →
    (s'.nodeD m).createdIn = .bind b → m ∈ rhsNodes s' b
  only : ∀ b, b < s.binds.size → ∀ m, m ∈ rhsNodes s' b →
    m ∈ rhsNodes s b ∨ (s.nodes.size ≤ m ∧ m < s'.nodes.size ∧ (s'.nodeD m).createdIn = .bind b)

theorem Grow.refl (s : State) : Grow s s :=
  ⟨Nat.le_refl _, Nat.le_refl _, fun _ _ => rfl, fun _ _ _ h => h,
    fun _ _ m h1 h2 => absurd h2 (by omega), fun _ _ _ h => Or.inl h⟩

theorem Grow.trans {a b c : State} (h1 : Grow a b) (h2 : Grow b c) : Grow a c where
  size := Nat.le_trans h1.size h2.size
  bsize := Nat.le_trans h1.bsize h2.bsize
  createdIn m hm := (h2.createdIn m (Nat.lt_of_lt_of_le hm h1.size)).trans (h1.createdIn m hm)
  old k hk m hm := h2.old k (Nat.lt_of_lt_of_le hk h1.bsize) m (h1.old k hk m hm)
  new k hk m hm1 hm2 hc := by
    have hk' := Nat.lt_of_lt_of_le hk h1.bsize
    by_cases hmb : m < b.nodes.size
    · exact h2.old k hk' m (h1.new k hk m hm1 hmb (by rw [← h2.createdIn m hmb]; exact hc))
    · exact h2.new k hk' m (by omega) hm2 hc
  only k hk m hm := by
    have hk' := Nat.lt_of_lt_of_le hk h1.bsize
    rcases h2.only k hk' m hm with h | ⟨g1, g2, g3⟩
    · rcases h1.only k hk m h with h | ⟨g1, g2, g3⟩
      · exact Or.inl h
      · exact Or.inr ⟨g1, Nat.lt_of_lt_of_le g2 h2.size, by rw [h2.createdIn m g2]; exact g3⟩
    · exact Or.inr ⟨Nat.le_trans h1.size g1, g2, g3⟩

instance : PreOrd Grow := ⟨Grow.refl, Grow.trans⟩

theorem Grow.of_eq {s s' : State} (h1 : s'.nodes = s.nodes) (h2 : s'.binds = s.binds) : Grow s s' := by
  have hD : ∀ m, s'.nodeD m = s.nodeD m := nodeD_of_nodes h1
  have hR : ∀ b, rhsNodes s' b = rhsNodes s b := fun b => by simp only [rhsNodes, h2]
  refine ⟨by rw [h1]; exact Nat.le_refl _, by rw [h2]; exact Nat.le_refl _, fun m _ => by rw [hD],
    fun b _ m h => by rw [hR]; exact h, fun b _ m g1 g2 => ?_, fun b _ m h => Or.inl (by rw [← hR]; exact h)⟩
  rw [h1] at g2; omega

theorem Grow.modNode (s : State) (n : Nat) (f : Node → Node) (hf : ∀ y, (f y).createdIn = y.createdIn) :
    Grow s { s with nodes := s.nodes.modify n f } := by
  refine ⟨by simp, Nat.le_refl _, fun m _ => ?_, fun b _ m h => h, fun b _ m g1 g2 => ?_,
    fun b _ m h => Or.inl h⟩
  · rw [nodeD_modify]; split
    · exact hf _
    · rfl
  · simp at g2; omega

theorem Grow.modBind (s : State) (b : Nat) (f : BindRec → BindRec)
    (hf : ∀ y, (f y).allNodesCreatedOnRhs = y.allNodesCreatedOnRhs) :
    Grow s { s with binds := s.binds.modify b f } := by
  have hR : ∀ b', rhsNodes { s with binds := s.binds.modify b f } b' = rhsNodes s b' := by
    intro b'
    rw [rhsNodes_modify s b b' f _ rfl]
    split
    · unfold rhsNodes; cases s.binds[b']? <;> simp [hf]
    · rfl
  refine ⟨Nat.le_refl _, by simp, fun m _ => rfl, fun b' _ m h => by rw [hR]; exact h,
    fun b' _ m g1 g2 => ?_, fun b' _ m h => Or.inl (by rw [← hR]; exact h)⟩
  simp at g2; omega

theorem Grow.pushBind (s : State) (br : BindRec) : Grow s { s with binds := s.binds.push br } := by
  have hR : ∀ b', b' < s.binds.size → rhsNodes { s with binds := s.binds.push br } b' = rhsNodes s b' := by
    intro b' hb'
    simp [rhsNodes, Array.getElem?_push, Nat.ne_of_lt hb']
  refine ⟨Nat.le_refl _, by simp, fun m _ => rfl, fun b' hb' m h => by rw [hR b' hb']; exact h,
    fun b' _ m g1 g2 => ?_, fun b' hb' m h => Or.inl (by rw [← hR b' hb']; exact h)⟩
  simp at g2; omega

theorem Grow.of_created (kind : Kind) (scope : Scope) (cutoff : CutoffK) (s : State) :
    Grow s (created kind scope cutoff s) := by
  have hsz : (created kind scope cutoff s).nodes.size = s.nodes.size + 1 := by simp [Inval.created]
  have hold : ∀ m, m < s.nodes.size → (created kind scope cutoff s).nodeD m = s.nodeD m := by
    intro m hm
    simp [Inval.created, State.nodeD, Array.getElem?_push, Nat.ne_of_lt hm]
  have hnew : ((created kind scope cutoff s).nodeD s.nodes.size).createdIn = scope := by
    simp [Inval.created, State.nodeD]
  have hR : ∀ b', rhsNodes (created kind scope cutoff s) b' =
      if scope = .bind b' ∧ b' < s.binds.size then rhsNodes s b' ++ [s.nodes.size] else rhsNodes s b' := by
    intro b'
    cases scope with
    | top => simp [rhsNodes, Inval.created]
    | bind b =>
      rw [rhsNodes_modify s b b' (fun x => { x with allNodesCreatedOnRhs := x.allNodesCreatedOnRhs ++ [s.nodes.size] })
        (created kind (.bind b) cutoff s) rfl]
      by_cases hbb : b = b'
      · subst hbb
        simp only [if_true, true_and]
        by_cases hlt : b < s.binds.size
        · simp [rhsNodes, hlt]
        · simp [rhsNodes, hlt]
      · have : ¬ (Scope.bind b = Scope.bind b' ∧ b' < s.binds.size) := fun hc => hbb (Scope.bind.inj hc.1)
        rw [if_neg hbb, if_neg this]
  refine ⟨by rw [hsz]; omega, ?_, fun m hm => by rw [hold m hm], fun b' _ m h => ?_,
    fun b' hb' m g1 g2 hc => ?_, fun b' hb' m h => ?_⟩
  · cases scope <;> simp [Inval.created]
  · rw [hR]; split
    · exact List.mem_append_left _ h
    · exact h
  · have hm : m = s.nodes.size := by omega
    subst hm
    rw [hnew] at hc
    rw [hR, if_pos ⟨hc, hb'⟩]
    exact List.mem_append_right _ (List.mem_singleton.2 rfl)
  · rw [hR] at h
    split at h
    · rename_i hc
      rcases List.mem_append.1 h with h | h
      · exact Or.inl h
      · have hm : m = s.nodes.size := List.mem_singleton.1 h
        subst hm
        exact Or.inr ⟨Nat.le_refl _, by omega, by rw [hnew]; exact hc.1⟩
    · exact Or.inl h

/-! the ladder for `Grow`: everything `elabTemplate` runs -/

theorem PresG.createNode (k sc c) : Pres Grow (createNode k sc c) := by
  constructor
  intro s r s' h
  rw [createNode_run] at h; cases h
  exact Grow.of_created k sc c s
mono_leaf PresG.createNode

theorem PresG.modNode (n : Nat) (f : Node → Node) (hf : ∀ y, (f y).createdIn = y.createdIn) :
    Pres Grow (Engine.modNode n f) := by
  unfold Engine.modNode; exact Pres.modify fun s => Grow.modNode s n f hf
theorem PresG.modBind (b : Nat) (f : BindRec → BindRec)
    (hf : ∀ y, (f y).allNodesCreatedOnRhs = y.allNodesCreatedOnRhs) :
    Pres Grow (Engine.modBind b f) := by
  unfold Engine.modBind; exact Pres.modify fun s => Grow.modBind s b f hf

macro_rules
  | `(tactic| mleaf) => `(tactic| ((with_reducible apply PresG.modNode); intro _; rfl))
macro_rules
  | `(tactic| mleaf) => `(tactic| ((with_reducible apply PresG.modBind); intro _; rfl))
macro_rules
  | `(tactic| mleaf) =>
    `(tactic| ((with_reducible apply Pres.modify); intro _; exact Grow.pushBind _ _))
macro_rules
  | `(tactic| mleaf) =>
    `(tactic| ((with_reducible apply Pres.modify); intro _; exact Grow.of_eq rfl rfl))

theorem PresG.tick : Pres Grow tick := by unfold Engine.tick; mpres
mono_leaf PresG.tick
theorem PresG.logEv (e) : Pres Grow (logEv e) := by unfold Engine.logEv; mpres
mono_leaf PresG.logEv
theorem PresG.modExpert (b f) : Pres Grow (modExpert b f) := by unfold Engine.modExpert; mpres
mono_leaf PresG.modExpert
theorem PresG.createVar (v sc) : Pres Grow (createVar v sc) := by unfold Engine.createVar; mpres
mono_leaf PresG.createVar
theorem PresG.createBind (b l) : Pres Grow (createBind b l) := by unfold Engine.createBind; mpres
mono_leaf PresG.createBind
set_option maxHeartbeats 1000000 in
theorem PresG.elabInstr (loc v i) : Pres Grow (elabInstr loc v i) := by
  cases i with
  | mapOp op => cases op <;> (simp only [Engine.elabInstr]; mpres)
  | _ => simp only [Engine.elabInstr]; mpres
mono_leaf PresG.elabInstr
theorem PresG.elabTemplateBase (t v init) : Pres Grow (elabTemplateBase t v init) := by
  unfold Engine.elabTemplateBase; mpres
mono_leaf PresG.elabTemplateBase
theorem PresG.memoCall (env m key) : Pres Grow (memoCall env m key) := by
  unfold Engine.memoCall; mpres
mono_leaf PresG.memoCall
theorem PresG.elabInstrM (env loc v i) : Pres Grow (elabInstrM env loc v i) := by
  unfold Engine.elabInstrM; mpres
mono_leaf PresG.elabInstrM
theorem PresG.elabTemplate (env t v) : Pres Grow (elabTemplate env t v) := by
  unfold Engine.elabTemplate; mpres
mono_leaf PresG.elabTemplate

/-- the closure of bind `b` has run (phase 1 of the `BindLhsChange` step returned): the bind's
`allNodesCreatedOnRhs` now lists exactly the nodes created during this run in scope `bind b` -/
theorem lhsRunClosure_registers (env : Env) (n b : Nat) (br : BindRec) (s0 s1 : State)
    (r : Except Panic Nat) (hb : b < s0.binds.size)
    (h : (lhsRunClosure env n b br).run.run s0 = (r, s1)) :
    s0.nodes.size ≤ s1.nodes.size ∧
    ∀ m, m ∈ rhsNodes s1 b ↔
      (s0.nodes.size ≤ m ∧ m < s1.nodes.size ∧ (s1.nodeD m).createdIn = .bind b) := by
  unfold lhsRunClosure at h
  unfold Engine.modBind at h
  rw [run_bind_modify] at h
  have hg : Grow _ s1 := Pres.h (by mpres) _ _ _ h
  have hempty : rhsNodes { s0 with binds := s0.binds.modify b fun x =>
      { x with allNodesCreatedOnRhs := [] } } b = [] := by
    rw [rhsNodes_modify s0 b b (fun x => { x with allNodesCreatedOnRhs := [] }) _ rfl]
    simp only [if_true]
    cases s0.binds[b]? <;> rfl
  have hb' : b < ({ s0 with binds := s0.binds.modify b fun x =>
      { x with allNodesCreatedOnRhs := [] } } : State).binds.size := by simpa using hb
  refine ⟨hg.size, fun m => ⟨fun hm => ?_, fun hm => hg.new b hb' m hm.1 hm.2.1 hm.2.2⟩⟩
  rcases hg.only b hb' m hm with h | h
  · rw [hempty] at h; cases h
  · exact h

/-! ## Part 7: an invalid node is never queued (debug builds), and never computed -/

/-- debug builds: `insert` of an invalid node trips the precondition assertion; nothing changes -/
theorem rchInsert_invalid_debug (n : Nat) (s : State) (nd : Node) (hn : s.nodes[n]? = some nd)
    (hv : nd.valid = false) (hd : s.cfg.debug = true) :
    (rchInsert n).run.run s = (.error (.site "recompute_heap:insert:precondition"), s) := by
  have hntc : s.needsToBeComputed n = false :=
    needsToBeComputed_invalid s n (by rw [nodeD_of_some hn]; exact hv)
  rw [rchInsert_run, hn]
  simp only [hntc, Bool.and_false, hd, and_self, if_true]

/-- the direct-recompute chain started on an invalid node panics at once -/
theorem recompute_invalid_run (env : Env) (fuel n : Nat) (s : State) (nd : Node)
    (hn : s.nodes[n]? = some nd) (hv : nd.valid = false) :
    (recompute env (fuel + 1) n).run.run s =
      (.error (.site "node:recompute_one:invalid-node"), started n s) := by
  unfold recompute
  rw [run_bind, recomputeOne_invalid_run env fuel n s nd hn hv]

/-- the heap drain: if the node taken out of the heap is invalid, the drain panics -/
theorem drainHeap_invalid_min (env : Env) (fuel n : Nat) (s s1 : State) (nd : Node)
    (hmin : rchRemoveMin.run.run s = (.ok (some n), s1))
    (hn : s1.nodes[n]? = some nd) (hv : nd.valid = false) :
    (drainHeap env (fuel + 2)).run.run s =
      (.error (.site "node:recompute_one:invalid-node"), started n s1) := by
  unfold drainHeap
  rw [run_bind_ok hmin]
  simp only []
  rw [run_bind, recompute_invalid_run env fuel n s1 nd hn hv]

/-! ### `propagate_invalidity`, one step -/

theorem propagateInvalidity_nil (fuel : Nat) (s : State) (h : s.propagateInvalidity = []) :
    (propagateInvalidity (fuel + 1)).run.run s = (.ok (), s) := by
  unfold propagateInvalidity
  rw [run_bind_get]
  simp only [h]
  rfl

/-- an invalid node on the stack is skipped -/
theorem propagateInvalidity_skip (fuel n : Nat) (rest : List Nat) (s : State)
    (h : s.propagateInvalidity = n :: rest) (hv : (s.nodeD n).valid = false) :
    (propagateInvalidity (fuel + 1)).run.run s =
      (propagateInvalidity fuel).run.run { s with propagateInvalidity := rest } := by
  unfold propagateInvalidity
  rw [run_bind_get]
  simp only [h]
  rw [run_bind_modify, run_bind_get]
  have : (({ s with propagateInvalidity := rest } : State).nodeD n).valid = false := hv
  simp only [this, Bool.false_eq_true, if_false]
  cases fuel <;> rfl

/-- a valid node on the stack that should be invalidated (one of its inputs is invalid) is
invalidated, then the walk continues -/
theorem propagateInvalidity_invalidates (fuel n : Nat) (rest : List Nat) (s : State)
    (h : s.propagateInvalidity = n :: rest) (hv : (s.nodeD n).valid = true)
    (hs : s.shouldBeInvalidated n = true) :
    (propagateInvalidity (fuel + 1)).run.run s =
      (do invalidateNode fuel n; propagateInvalidity fuel).run.run
        { s with propagateInvalidity := rest } := by
  unfold propagateInvalidity
  rw [run_bind_get]
  simp only [h]
  rw [run_bind_modify, run_bind_get]
  have h1 : (({ s with propagateInvalidity := rest } : State).nodeD n).valid = true := hv
  have h2 : ({ s with propagateInvalidity := rest } : State).shouldBeInvalidated n = true := hs
  simp only [h1, h2, if_true]
  cases fuel <;> rfl

/-! ### the entry points, in one type -/

/-- a call of a function of the model (result discarded): the public entry points and the internal
functions C03 talks about -/
inductive Call where
  | stabilise (env : Env) (fuel : Nat)
  | writeVar (v : Nat) (f : Val → Val) (isSet : Bool)
  | subscribe (o hid : Nat)
  | unsubscribe (o token owner : Nat)
  | disallowFutureUse (o : Nat)
  | elabInstrM (env : Env) (loc : List Nat) (lhsVal : Val) (i : Instr)
  | expertAddDependency (env : Env) (fuel n child : Nat) (cb : Bool)
  | expertRemoveDependency (fuel n dep : Nat)
  | expertMakeStale (n : Nat)
  | expertInvalidate (fuel n : Nat)
  | runEffects (env : Env) (fuel : Nat) (effs : List Effect) (arg : Int)
  | setMaxHeightAllowed (newMax : Nat)
  | drainHeap (env : Env) (fuel : Nat)
  | recompute (env : Env) (fuel n : Nat)
  | recomputeOne (env : Env) (fuel n : Nat)
  | maybeChangeValueManual (env : Env) (fuel n : Nat) (o : Option Val) (d b : Bool)
  | invalidateNode (fuel n : Nat)
  | propagateInvalidity (fuel : Nat)
  | changeChildBindRhs (env : Env) (fuel main : Nat) (old : Option Nat) (new index : Nat)
  | becameNecessary (env : Env) (fuel n : Nat)
  | becameUnnecessary (fuel n : Nat)
  | stabiliseEnd (env : Env) (fuel : Nat)
  | addNewObservers (env : Env) (fuel : Nat)
  | unlinkDisallowedObservers (fuel : Nat)

def Call.run : Call → M Unit
  | .stabilise env fuel => Engine.stabilise env fuel
  | .writeVar v f isSet => do let _ ← Engine.writeVar v f isSet
  | .subscribe o hid => do let _ ← Engine.subscribe o hid
  | .unsubscribe o t ow => do let _ ← Engine.unsubscribe o t ow
  | .disallowFutureUse o => Engine.disallowFutureUse o
  | .elabInstrM env loc v i => do let _ ← Engine.elabInstrM env loc v i
  | .expertAddDependency env fuel n c cb => do let _ ← Engine.expertAddDependency env fuel n c cb
  | .expertRemoveDependency fuel n dep => Engine.expertRemoveDependency fuel n dep
  | .expertMakeStale n => Engine.expertMakeStale n
  | .expertInvalidate fuel n => Engine.expertInvalidate fuel n
  | .runEffects env fuel effs arg => Engine.runEffects env fuel effs arg
  | .setMaxHeightAllowed N => Engine.setMaxHeightAllowed N
  | .drainHeap env fuel => Engine.drainHeap env fuel
  | .recompute env fuel n => Engine.recompute env fuel n
  | .recomputeOne env fuel n => do let _ ← Engine.recomputeOne env fuel n
  | .maybeChangeValueManual env fuel n o d b => do let _ ← Engine.maybeChangeValueManual env fuel n o d b
  | .invalidateNode fuel n => Engine.invalidateNode fuel n
  | .propagateInvalidity fuel => Engine.propagateInvalidity fuel
  | .changeChildBindRhs env fuel m o nw i => Engine.changeChildBindRhs env fuel m o nw i
  | .becameNecessary env fuel n => Engine.becameNecessary env fuel n
  | .becameUnnecessary fuel n => Engine.becameUnnecessary fuel n
  | .stabiliseEnd env fuel => Engine.stabiliseEnd env fuel
  | .addNewObservers env fuel => Engine.addNewObservers env fuel
  | .unlinkDisallowedObservers fuel => Engine.unlinkDisallowedObservers fuel

mono_leaf PresMono.stabilise

theorem Call.mono (c : Call) : Pres Mono c.run := by
  cases c <;> (simp only [Call.run]; mpres)

/-- the calls that do not recompute any node -/
def Call.noRecompute : Call → Prop
  | .stabilise .. | .drainHeap .. | .recompute .. | .recomputeOne .. => False
  | _ => True

/-- … keep every clean node clean and every value-less node value-less -/
theorem Call.still (c : Call) (h : c.noRecompute) : Pres (Still none) c.run := by
  cases c <;> first | exact absurd h id | (simp only [Call.run]; mpres)


/-! ## Part 8: "an invalid node has no stored value" is NOT inductive in release builds

`recompute_one` stores the freshly computed value with `maybe_change_value` without re-checking that the
node is still valid.  In a debug build a closure can only invalidate (through the expert API) a node of
which the running node is a child; in a release build that assertion is compiled out, and the closure
can invalidate the very node being recomputed.  The value then lands in an invalid node, and an
observer of that node reads it (instead of `ObservingInvalid`). -/

/-- like `Step.exEnv`, but function 1 has a side effect: it invalidates node 1 through the expert API -/
def cexEnv : Env := { exEnv with fnEff := fun f _ => if f = 1 then [.xInval (.abs 1)] else [] }

/-- release build (no debug assertions); node 0: constant 5; node 1: `map f1 [0]`, observed -/
def cexS : State :=
  { State.init 8 false with
    nodes := #[
      { kind := .const (.int 5), createdIn := .top, value := some (.int 5), recomputedAt := 0, changedAt := 0,
        height := 0, parents := [(1, 0)] },
      { kind := .map 1 [0], createdIn := .top, recomputedAt := -1, height := 1, observers := [0] }],
    observers := #[{ node := 1, state := .inUse }],
    stabNum := 1, status := .stabilising }

def cexOut : State := ((recomputeOne cexEnv 5 1).run.run cexS).2
/-- what the observer of node 1 reads afterwards (outside the stabilisation), as a string -/
def cexRead : String :=
  match ({ cexOut with status := .notStabilising }).tryGetValue cexEnv 0 with
  | .ok v => v.render
  | .error e => e.render

theorem release_counterexample :
    returned ((recomputeOne cexEnv 5 1).run.run cexS) = true ∧ (cexOut.nodeD 1).valid = false ∧
    (cexOut.nodeD 1).value = some (.int 5) ∧ cexRead = "5" := by
  decide +kernel
/-! ## Part 9: example environment and states (non-vacuity witnesses used by `Props/C03.lean`) -/

/-- like `Step.exEnv`; every bind body creates one constant and returns it -/
def exEnvB : Env := { exEnv with body := fun _ _ => { instrs := [.const (.int 9)], ret := .loc 0 } }

/-- round 1.  node 0: var cell 0, changed in this round (the lhs of bind 0); node 1: the
`bind_lhs_change` node of bind 0; node 2: its `bind_main`, observed; nodes 3 and 4 were created by the
previous run of the closure (scope `bind 0`): node 3 is the current rhs, node 4 (`map f0 [3]`) is
used by nobody.  Debug assertions on, limit 8, nothing in the heap. -/
def exB : State :=
  { State.init 8 with
    nodes := #[
      { kind := .var 0, createdIn := .top, value := some (.int 1), recomputedAt := 1, changedAt := 1,
        height := 0, parents := [(1, 0)], cutoff := .never },
      { kind := .bindLhsChange 0, createdIn := .top, value := some .unit, recomputedAt := 0, changedAt := 0,
        height := 1, parents := [(2, 0)], cutoff := .never },
      { kind := .bindMain 0 1, createdIn := .top, value := some (.int 7), recomputedAt := 0, changedAt := 0,
        height := 3, observers := [0] },
      { kind := .const (.int 7), createdIn := .bind 0, value := some (.int 7), recomputedAt := 0,
        changedAt := 0, height := 2, parents := [(2, 1)] },
      { kind := .map 0 [3], createdIn := .bind 0, value := some (.int 7), recomputedAt := 0,
        changedAt := 0, height := -1, numOnUpdateHandlers := 1 }],
    vars := #[{ value := .int 1, setAt := 1, node := 0 }],
    binds := #[{ lhs := 0, body := 0, lhsChange := 1, main := 2, rhs := some 3,
                 allNodesCreatedOnRhs := [3, 4] }],
    observers := #[{ node := 2, state := .inUse }],
    stabNum := 1, status := .stabilising }

/-- `exB` where node 4 (still not necessary) sits in bucket 2 of the recompute heap -/
def exBq : State :=
  { exB with
    nodes := exB.nodes.modify 4 fun x => { x with height := 2, heightInRch := 2 },
    rch := { exB.rch with queues := exB.rch.queues.set! 2 [4], length := 1, lowerBound := 2 } }

/-- `exB` after `invalidate_node 4` -/
def exBdead : State := invalidated 4 exB

/-- `exB` after the `bind_lhs_change` step of node 1 -/
def exBafter : State := ((recomputeOne exEnvB 6 1).run.run exB).2


end IncrVerif.Proofs.Inval
