import IncrVerif.Proofs.CutH15
-- Port of Proofs/Quiet17.lean to ARBITRARY cutoffs (scratch name Q17); overview in Props/C06History.lean
/-!
# Part 17: necessary = in the cone of a linked observer
-/
namespace IncrVerif.Proofs.CutH
open IncrVerif.Engine IncrVerif.Proofs IncrVerif.Proofs.Step IncrVerif.Proofs.Sched
variable {e : Bool}

/-- `n` is reachable from `a` through child edges -/
inductive Reach (s : State) : Nat → Nat → Prop
  | refl (a : Nat) : Reach s a a
  | step {a p c : Nat} : Reach s a p → c ∈ kids (s.nodeD p).kind → Reach s a c

/-- node `n` is in the cone of an observer that is linked (in use, or disallowed and not yet unlinked) -/
def InCone (s : State) (n : Nat) : Prop :=
  ∃ (o : Nat) (ob : ObsRec), s.observers[o]? = some ob ∧ (ob.state = .inUse ∨ ob.state = .disallowed) ∧
    Reach s ob.node n

theorem nec_of_reach {env : Env} {s : State} (S : Struct env s) {a n : Nat} (h : Reach s a n)
    (ha : s.isNecessary a = true) : s.isNecessary n = true := by
  induction h with
  | refl => exact ha
  | step _ hc ih =>
    obtain ⟨i, hi, e⟩ := List.mem_iff_getElem.1 hc
    have hm := S.conv _ i _ (by rw [List.getElem?_eq_getElem hi, e]) ((wants_closed rfl).2 ih)
    exact nec_of_mem_parents hm

/-- **C05 cone, static fragment.** With the structural invariant and the observer bookkeeping, a node is
necessary iff it is reachable through child edges from the node of a linked observer. -/
theorem nec_iff_cone {env : Env} {s : State} {pn pd : List Nat} (S : Struct env s) (O : ObsInv s pn pd)
    (n : Nat) : s.isNecessary n = true ↔ InCone s n := by
  constructor
  · intro hn
    -- induction on the distance of `n` from the end of the node array: parents have larger indices
    have key : ∀ d n, s.nodes.size - n ≤ d → s.isNecessary n = true → InCone s n := by
      intro d
      induction d with
      | zero =>
        intro n hd hn
        have := nec_lt_size hn
        omega
      | succ d ih =>
        intro n hd hn
        have hlt := nec_lt_size hn
        rw [isNecessary_iff] at hn
        rcases hn with hp | ho | hf
        · obtain ⟨⟨p, i⟩, hx⟩ := List.exists_mem_of_ne_nil _ hp
          obtain ⟨hk, hw⟩ := S.par n p i hx
          have hnp : n < p := GInv.par_lt S hx
          have hpn : s.isNecessary p = true := (wants_closed rfl).1 hw
          obtain ⟨o, ob, h1, h2, h3⟩ := ih p (by have := nec_lt_size hpn; omega) hpn
          exact ⟨o, ob, h1, h2, Reach.step h3 (List.mem_of_getElem? hk)⟩
        · obtain ⟨o, hx⟩ := List.exists_mem_of_ne_nil _ ho
          obtain ⟨ob, h1, h2, h3⟩ := (O.mem n o).1 hx
          exact ⟨o, ob, h1, h3, by rw [h2]; exact Reach.refl n⟩
        · rw [(GInv.node S hlt).force] at hf; cases hf
    exact key _ n (Nat.le_refl _) hn
  · rintro ⟨o, ob, h1, h2, h3⟩
    refine nec_of_reach S h3 ?_
    rw [isNecessary_iff]
    right; left
    exact List.ne_nil_of_mem ((O.mem ob.node o).2 ⟨ob, h1, rfl, h2⟩)

end IncrVerif.Proofs.CutH
