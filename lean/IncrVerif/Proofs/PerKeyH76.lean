import IncrVerif.Proofs.PerKeyH5
import IncrVerif.Proofs.PerKeyH6
/-!
# Per-key operators: the drain (`DrainSpecP` from `StepSpecP` and `PopSpecP`); no node runs twice

Assembly, modelled on `Proofs/DriverH31.lean` (`recompute_invD`, `chain_onceD`, `drainHeap_invD`, `drain_onceD`), which
follows `BindH12`/`BindH13`; the stamps are read in the virtual states `V s`.  Nodes may be created during the drain
(`PStep.grow`, `FrameB.grow`).
-/
namespace IncrVerif.Proofs.PerKeyH
open IncrVerif.Engine IncrVerif.Driver IncrVerif.Proofs IncrVerif.Proofs.Step IncrVerif.Proofs.Sched
open IncrVerif.Proofs.ExpertH IncrVerif.Proofs.EffH IncrVerif.Proofs.DriverH

/-! ## the frame -/

theorem PStep.refl (s : State) : PStep s s :=
  ⟨BindH.FrameB.refl _, Nat.le_refl _, rfl, fun _ _ => rfl,
    fun m hm => by rw [nodeD_default_of_ge s m hm]; rfl⟩

theorem dnKey_observers {a b : Node} (h : dnKey a = dnKey b) : a.observers = b.observers := by
  simp only [dnKey, Prod.mk.injEq] at h
  exact h.2.2.2.2.1

theorem PStep.trans {a b c : State} (h1 : PStep a b) (h2 : PStep b c) : PStep a c :=
  ⟨h1.frameB.trans h2.frameB, Nat.le_trans h1.grow h2.grow, h2.key.trans h1.key,
    fun m hm => (h2.node m (Nat.lt_of_lt_of_le hm h1.grow)).trans (h1.node m hm),
    fun m hm => by
      by_cases hb : m < b.nodes.size
      · rw [dnKey_observers (h2.node m hb)]; exact h1.newObs m hm
      · exact h2.newObs m (by omega)⟩

theorem PStep.stabNum {s s' : State} (f : PStep s s') : s'.stabNum = s.stabNum := f.frameB.stabNum

theorem PStep.vars {s s' : State} (f : PStep s s') : s'.vars = s.vars := f.frameB.vars

/-! ## one step: the case split on the kind -/

/-- **one `recomputeOne` of the drain**, from the three step contracts -/
theorem stepSpecP_of {env : Env} (h1 : LcStepSpec env) (h2 : XStepSpec env) (h3 : StaticStepSpec env) :
    StepSpecP env := by
  intro fuel n s s' r D N h
  have hk := D.aux.frag.kindD n
  cases hkind : (s.nodeD n).kind with
  | expert e => exact h2 fuel n e s s' r D N hkind h
  | map f args =>
    by_cases hf : fnPerKey ≤ f
    · have e : f = fnPerKey + (f - fnPerKey) := by omega
      rw [e] at hkind
      exact h1 fuel n (f - fnPerKey) args s s' r D N hkind h
    · refine h3 fuel n s s' r D N (fun e he => ?_) (fun f' args' he => ?_) h
      · rw [hkind] at he; cases he
      · rw [hkind] at he; injection he with e1 _; subst e1; omega
  | _ =>
    refine h3 fuel n s s' r D N (fun e he => ?_) (fun f' args' he => ?_) h
    all_goals (rw [hkind] at he; cases he)

/-! ## stamps in the virtual states -/

/-- what is said about each node of a trace from `s` to `s'`, on the stamps of the virtual states: it had not run in
this round before, and it is stamped afterwards -/
def RanP (s s' : State) (m : Nat) : Prop :=
  ((V s).nodeD m).recomputedAt < s.stabNum ∧ ((V s').nodeD m).recomputedAt = s.stabNum

/-- a node stamped in this round keeps the stamp -/
theorem PStep.ranP {s s' : State} (f : PStep s s') {m : Nat}
    (h : ((V s).nodeD m).recomputedAt = s.stabNum) : ((V s').nodeD m).recomputedAt = s.stabNum :=
  (f.frameB.ran m h).1

/-- a node not yet stamped after some steps was not stamped before them -/
theorem PStep.not_yet {s s' : State} (f : PStep s s') (st : Stamps (V s)) {m : Nat}
    (h : ((V s').nodeD m).recomputedAt < s.stabNum) : ((V s).nodeD m).recomputedAt < s.stabNum :=
  BindH.FrameB.not_yet f.frameB st h

theorem RanP.extend_left {a b c : State} {m : Nat} (f : PStep a b) (st : Stamps (V a))
    (h : RanP b c m) : RanP a c m := by
  obtain ⟨h2, h3⟩ := h
  rw [f.stabNum] at h2 h3
  exact ⟨f.not_yet st h2, h3⟩

theorem RanP.extend_right {a b c : State} {m : Nat} (f : PStep b c) (hab : b.stabNum = a.stabNum)
    (h : RanP a b m) : RanP a c m := by
  obtain ⟨h2, h3⟩ := h
  have k1 := f.ranP (m := m) (by rw [hab]; exact h3)
  exact ⟨h2, by rw [hab] at k1; exact k1⟩

/-- before the current node runs it is not stamped (in the virtual state) -/
theorem PD.cur_not_yet {env : Env} {s : State} {n : Nat} (D : PD env s (some n)) :
    ((V s).nodeD n).recomputedAt < s.stabNum :=
  D.inv.fresh n n (BindH.Below.refl n) (Or.inr rfl)

theorem heapInv_of_V {s : State} (h : HeapInv (V s)) : HeapInv s :=
  h.congr rfl (V_size s).symm fun m => by
    rw [V_nodeD]
    exact ⟨rfl, rfl, (V_isNecessary s m).symm⟩

/-! ## the chain -/

/-- **the direct-recompute chain** -/
theorem recompute_P {env : Env} (hStep : StepSpecP env) :
    ∀ (fuel n : Nat) (s s' : State), PD env s (some n) → NoRem s →
    (recompute env fuel n).run.run s = (.ok (), s') → PD env s' none ∧ NoRem s' ∧ PStep s s' := by
  intro fuel
  induction fuel with
  | zero => intro n s s' _ _ h; unfold recompute at h; cases h
  | succ fuel ih =>
    intro n s s' D N h
    unfold recompute at h
    obtain ⟨r, s1, h1, h2⟩ := bind_ok_inv h
    obtain ⟨D1, N1, f1, -⟩ := hStep fuel n s s1 r D N h1
    cases r with
    | none =>
      obtain ⟨-, rfl⟩ := pure_ok_inv h2
      exact ⟨D1, N1, f1⟩
    | some p =>
      obtain ⟨D2, N2, f2⟩ := ih p s1 s' D1 N1 h2
      exact ⟨D2, N2, f1.trans f2⟩

/-- the nodes of a direct-recompute chain are pairwise distinct; each had not run before and is stamped afterwards -/
theorem chain_onceP {env : Env} (hStep : StepSpecP env) :
    ∀ (fuel n : Nat) (s s' : State), PD env s (some n) → NoRem s →
    (recompute env fuel n).run.run s = (.ok (), s') →
    (chainTrace env fuel n s).Nodup ∧ ∀ m, m ∈ chainTrace env fuel n s → RanP s s' m := by
  intro fuel
  induction fuel with
  | zero => intro n s s' _ _ h; unfold recompute at h; cases h
  | succ fuel ih =>
    intro n s s' D N h
    unfold recompute at h
    obtain ⟨r, s1, h1, h2⟩ := bind_ok_inv h
    obtain ⟨D1, N1, f1, hn1⟩ := hStep fuel n s s1 r D N h1
    have hn0 := D.cur_not_yet
    unfold chainTrace
    rw [h1]
    cases r with
    | none =>
      obtain ⟨-, rfl⟩ := pure_ok_inv h2
      refine ⟨by simp, ?_⟩
      intro m hm
      rw [List.mem_singleton] at hm
      subst hm
      exact ⟨hn0, hn1⟩
    | some p =>
      obtain ⟨hnd, hall⟩ := ih p s1 s' D1 N1 h2
      obtain ⟨-, -, f2⟩ := recompute_P hStep fuel p s1 s' D1 N1 h2
      have hnot : n ∉ chainTrace env fuel p s1 := by
        intro hmem
        have := (hall n hmem).1
        rw [f1.stabNum] at this
        omega
      refine ⟨List.nodup_cons.2 ⟨hnot, hnd⟩, ?_⟩
      intro m hm
      rcases List.mem_cons.1 hm with rfl | hm
      · exact RanP.extend_right f2 f1.stabNum ⟨hn0, hn1⟩
      · exact (hall m hm).extend_left f1 D.inv.stamps

/-! ## the drain -/

theorem drainHeap_P {env : Env} (hStep : StepSpecP env) (hPop : PopSpecP env) :
    ∀ (fuel : Nat) (s s' : State), PD env s none → NoRem s →
    (drainHeap env fuel).run.run s = (.ok (), s') →
    PD env s' none ∧ NoRem s' ∧ s'.rch.length = 0 ∧ PStep s s' := by
  intro fuel
  induction fuel with
  | zero => intro s s' _ _ h; unfold drainHeap at h; cases h
  | succ fuel ih =>
    intro s s' D N h
    unfold drainHeap at h
    obtain ⟨r, s1, h1, h2⟩ := bind_ok_inv h
    cases r with
    | none =>
      obtain ⟨-, rfl⟩ := pure_ok_inv h2
      have := rchRemoveMin_inv (heapInv_of_V D.inv.heap) h1
      simp only at this
      obtain ⟨e, he⟩ := this
      subst e
      exact ⟨D, N, he, PStep.refl _⟩
    | some n =>
      obtain ⟨u, s2, h3, h4⟩ := bind_ok_inv h2
      obtain ⟨D1, N1, f1⟩ := hPop s s1 n D N h1
      obtain ⟨D2, N2, f2⟩ := recompute_P hStep fuel n s1 s2 D1 N1 h3
      obtain ⟨D3, N3, he, f3⟩ := ih s2 s' D2 N2 h4
      exact ⟨D3, N3, he, (f1.trans f2).trans f3⟩

/-- **At most once.** The nodes run by a successful `drainHeap` from a state with the drain invariant with per-key
operators are pairwise distinct; each had (virtual) `recomputedAt < stabNum` before the drain and has
`recomputedAt = stabNum` after it. -/
theorem drain_onceP {env : Env} (hStep : StepSpecP env) (hPop : PopSpecP env) :
    ∀ (fuel : Nat) (s s' : State), PD env s none → NoRem s →
    (drainHeap env fuel).run.run s = (.ok (), s') →
    (drainTrace env fuel s).Nodup ∧ ∀ m, m ∈ drainTrace env fuel s → RanP s s' m := by
  intro fuel
  induction fuel with
  | zero => intro s s' _ _ h; unfold drainHeap at h; cases h
  | succ fuel ih =>
    intro s s' D N h
    unfold drainHeap at h
    obtain ⟨r, s1, h1, h2⟩ := bind_ok_inv h
    unfold drainTrace
    rw [h1]
    cases r with
    | none => exact ⟨List.nodup_nil, fun m hm => by cases hm⟩
    | some n =>
      obtain ⟨u, s2, h3, h4⟩ := bind_ok_inv h2
      dsimp only
      rw [h3]
      dsimp only
      obtain ⟨D1, N1, f1⟩ := hPop s s1 n D N h1
      obtain ⟨D2, N2, f2⟩ := recompute_P hStep fuel n s1 s2 D1 N1 h3
      obtain ⟨-, -, -, f3⟩ := drainHeap_P hStep hPop fuel s2 s' D2 N2 h4
      obtain ⟨hnd1, hall1⟩ := chain_onceP hStep fuel n s1 s2 D1 N1 h3
      obtain ⟨hnd2, hall2⟩ := ih s2 s' D2 N2 h4
      refine ⟨List.nodup_append.2 ⟨hnd1, hnd2, ?_⟩, ?_⟩
      · intro a ha b hb e
        subst e
        have h5 := (hall1 a ha).2
        have h6 := (hall2 a hb).1
        rw [f2.stabNum] at h6
        omega
      · intro m hm
        rcases List.mem_append.1 hm with hm | hm
        · exact ((hall1 m hm).extend_right f3 f2.stabNum).extend_left f1 D.inv.stamps
        · exact (hall2 m hm).extend_left (f1.trans f2) D.inv.stamps

/-- every node of the trace of the drain had not run in this round before the drain and is stamped after it
(stamps of the virtual states `V s`, `V s'`) -/
theorem drain_once_P (env : Env) (hStep : StepSpecP env) (hPop : PopSpecP env) :
    ∀ (fuel : Nat) (s s' : State), PD env s none → NoRem s → (drainHeap env fuel).run.run s = (.ok (), s') →
    ∀ m, m ∈ drainTrace env fuel s →
      ((V s).nodeD m).recomputedAt < s.stabNum ∧ ((V s').nodeD m).recomputedAt = s.stabNum :=
  fun fuel s s' D N h => (drain_onceP hStep hPop fuel s s' D N h).2

/-- **the drain** -/
theorem drainSpecP_of {env : Env} (hS : StepSpecP env) (hP : PopSpecP env) : DrainSpecP env := by
  intro fuel s s' D N h
  obtain ⟨D', N', he, f⟩ := drainHeap_P hS hP fuel s s' D N h
  exact ⟨D', N', he, f, (drain_onceP hS hP fuel s s' D N h).1⟩

end IncrVerif.Proofs.PerKeyH
