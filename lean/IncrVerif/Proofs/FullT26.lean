import IncrVerif.Proofs.FullT25
import IncrVerif.Proofs.FullT17
import IncrVerif.Proofs.FullT19
/-!
# C04 combined fragment: the step contract `StepTotF` assembled from its five cases
-/
namespace IncrVerif.Proofs.FullT
open IncrVerif.Engine IncrVerif.Driver IncrVerif.Proofs IncrVerif.Proofs.Step IncrVerif.Proofs.Sched IncrVerif.Proofs.Quiet IncrVerif.Proofs.FullH
open IncrVerif.Proofs.BindH (DInv BGraph StepRelB TargetB FrameB)
open IncrVerif.Proofs.NestH (AuxS2 Aux2 GenOK2 F2Inv DT HBo2 RhsRan Lim cnt TotIf HasRoomG StepL2 LcStepsOK2 LcStepTotG)

/-- CONTRACT (LS3): a simulated step (static / `bindMain` with cutoff `.eq`, or a change detector) returned if the state it ends in has room -/
def SimTotC (need : Nat → Nat) (env : Env) (sp : Nat → Val → Val) (N : Nat) : Prop :=
  ∀ (t s : State) (g : Nat → Option Val) (fuel n : Nat), DInvF env sp t s g (some n) → PInv s → DT (VE env sp) N (virt g s) →
    (∀ p i, (s.nodeD n).kind ≠ .mapRef p i) → (∀ m i, (s.nodeD n).kind ≠ .mapWithOld m i) →
    ((s.nodeD n).cutoff = .eq ∨ ∃ b, (s.nodeD n).kind = .bindLhsChange b) →
    ∀ (r1 : Except Panic (Option Nat)) (s1 : State), (recomputeOne env fuel n).run.run s = (r1, s1) → s1.nodes.size ≤ N → need s1.nodes.size ≤ fuel →
      ∃ r, r1 = .ok r ∧ PInv s1

/-- CONTRACT (SW): the step of a `map_with_old` node -/
def MwoTotC (env : Env) (sp : Nat → Val → Val) (N : Nat) : Prop :=
  (∀ (t s : State) (g : Nat → Option Val) (fuel n m i : Nat), DInvF env sp t s g (some n) → PInv s → DT (VE env sp) N (virt g s) → s.nodes.size ≤ N →
    (s.nodeD n).kind = .mapWithOld m i → s.nodes.size ≤ fuel → 1 ≤ fuel →
    ∃ r s', (recomputeOne env fuel n).run.run s = (.ok r, s') ∧ PInv s') ∧
  (∀ (t s s' : State) (g : Nat → Option Val) (fuel n m i : Nat) (r : Option Nat), DInvF env sp t s g (some n) → DT (VE env sp) N (virt g s) →
    (s.nodeD n).kind = .mapWithOld m i → (recomputeOne env fuel n).run.run s = (.ok r, s') →
    DInvF env sp t s' g r ∧ FrameB (virt g s) (virt g s') ∧ ((virt g s').nodeD n).recomputedAt = s.stabNum ∧
      ((virt g s').nodeD n).valid = true ∧ DT (VE env sp) N (virt g s'))

section
variable {env : Env} {sp : Nat → Val → Val} {N : Nat}

theorem stepTotF {need : Nat → Nat} (hsz : ∀ sz, sz ≤ need sz) (hpos : ∀ sz, 1 ≤ need sz) (E : EnvS env sp) (hF : FirstFn env)
    (L : LcStepTotG need (VE env sp) N) (SIM : SimTotC need env sp N) (MW : MwoTotC env sp N) : StepTotF need env sp N := by
  intro fuel n t s g X r1 s1 h hN hf
  have D := X.d
  have hgrow := recomputeOne_sizeF D h
  have hroom : s.nodes.size ≤ N := Nat.le_trans hgrow hN
  have hfs : s.nodes.size ≤ fuel := Nat.le_trans hgrow (Nat.le_trans (hsz _) hf)
  have hf1 : 1 ≤ fuel := Nat.le_trans (hpos _) hf
  by_cases hk1 : ∀ p i, (s.nodeD n).kind ≠ .mapRef p i
  · by_cases hk2 : ∀ m i, (s.nodeD n).kind ≠ .mapWithOld m i
    · by_cases hex : (s.nodeD n).cutoff = .eq ∨ ∃ b, (s.nodeD n).kind = .bindLhsChange b
      · -- simulated
        obtain ⟨r, e, P1⟩ := SIM t s g fuel n D X.p X.t hk1 hk2 hex r1 s1 h hN hf
        subst e
        obtain ⟨g', D', f', hr', hv⟩ := step_simulated_v (lcSim_of E) (lcKSpec_of_envS E) D hk1 hk2 hex h
        obtain ⟨-, -, T'⟩ := NestH.T2g.step_tot L D.inv X.t hv (by rw [virt_size]; exact hN) (by rw [virt_size]; exact hf) hf1
        exact ⟨r, rfl, g', ⟨D', P1, T'⟩, f', hr'⟩
      · -- the verdict step
        have hk3 : ∀ b, (s.nodeD n).kind ≠ .bindLhsChange b := fun b e => hex (Or.inr ⟨b, e⟩)
        obtain ⟨r, s', hrun, P1⟩ := step_verdict_returns' D X.p X.t hroom hk1 hk2 hk3 hfs hf1
        rw [hrun] at h
        cases h
        obtain ⟨D', f', hr', -, T'⟩ := step_verdict_dt hF D X.t hk1 hk2 hk3 hrun
        exact ⟨r, rfl, g, ⟨D', P1, T'⟩, f', hr'⟩
    · -- map_with_old
      have : ∃ m i, (s.nodeD n).kind = .mapWithOld m i := by
        cases hkd : (s.nodeD n).kind <;>
          first | exact ⟨_, _, rfl⟩ | (exfalso; apply hk2; intro m i; rw [hkd]; intro h; cases h)
      obtain ⟨m, i, hk⟩ := this
      obtain ⟨r, s', hrun, P1⟩ := MW.1 t s g fuel n m i D X.p X.t hroom hk hfs hf1
      rw [hrun] at h
      cases h
      obtain ⟨D', f', hr', -, T'⟩ := MW.2 t s _ g fuel n m i r D X.t hk hrun
      exact ⟨r, rfl, g, ⟨D', P1, T'⟩, f', hr'⟩
  · -- map_ref
    have : ∃ p i, (s.nodeD n).kind = .mapRef p i := by
      cases hkd : (s.nodeD n).kind <;>
        first | exact ⟨_, _, rfl⟩ | (exfalso; apply hk1; intro p i; rw [hkd]; intro h; cases h)
    obtain ⟨p, i, hk⟩ := this
    obtain ⟨r, s', hrun, P1⟩ := step_mapRef_returns' D X.p X.t hroom hk hf1
    rw [hrun] at h
    cases h
    obtain ⟨g', D', f', hr', -, T'⟩ := step_mapRef_dt D X.t hk hrun
    exact ⟨r, rfl, g', ⟨D', P1, T'⟩, f', hr'⟩

end
end IncrVerif.Proofs.FullT
