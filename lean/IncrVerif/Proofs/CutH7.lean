import IncrVerif.Proofs.CutH1
-- Port of Proofs/Quiet1.lean to ARBITRARY cutoffs (scratch name Q1); overview in Props/C06History.lean
/-!
# Whole-history theorem for static programs, part 1: the structural invariant

Definitions:
* `AllStatic env s`: the fragment — every node is valid, of static kind (`const`, `var`, pure `map`, `fold`),
  (ANY cutoff), was created at top level, is not forced necessary, and its children were
  created before it; no fault armed; the current scope is the top level.
* `Op`, `Wants`, `GInv env s op`: the structural invariant *with open nodes*.  `op n = .linking k`: node
  `n` is inside `becameNecessary`, exactly its first `k` child edges are recorded; `op n = .unlinking k`:
  `n` is inside `becameUnnecessary`, exactly its child edges from index `k` on are still recorded;
  `op n = .closed`: exactly the child edges of necessary nodes are recorded.
* `Struct env s := GInv env s (fun _ => .closed)`: the invariant at rest.  It implies the structural fields
  of `Sched.Graph` and `Sched.HeapInv`.
-/
namespace IncrVerif.Proofs.CutH
open IncrVerif.Engine IncrVerif.Proofs IncrVerif.Proofs.Step IncrVerif.Proofs.Sched

/-! ## the fragment -/

structure StaticNode (env : Env) (s : State) (n : Nat) : Prop where
  valid : (s.nodeD n).valid = true
  kind : StaticKind env (s.nodeD n).kind
  top : (s.nodeD n).createdIn = .top
  force : (s.nodeD n).forceNecessary = false
  kidsLt : ∀ c, c ∈ kids (s.nodeD n).kind → c < n

structure AllStatic (env : Env) (s : State) : Prop where
  pc : s.panicCountdown = none
  scope : s.currentScope = .top
  node : ∀ n, n < s.nodes.size → StaticNode env s n

/-! ## open nodes -/

inductive Op where
  | closed
  | linking (k : Nat)
  | unlinking (k : Nat)
deriving DecidableEq, Repr

/-- should the child edge `i` of node `p` be recorded (in the parent list of the child)? -/
def Wants (s : State) (op : Nat → Op) (p i : Nat) : Prop :=
  match op p with
  | .closed => s.isNecessary p = true
  | .linking k => i < k
  | .unlinking k => k ≤ i

def upd (op : Nat → Op) (n : Nat) (x : Op) : Nat → Op := fun m => if m = n then x else op m

theorem upd_self (op : Nat → Op) (n : Nat) (x : Op) : upd op n x n = x := by simp [upd]
theorem upd_other (op : Nat → Op) (n : Nat) (x : Op) {m : Nat} (h : m ≠ n) : upd op n x m = op m := by
  simp [upd, h]
theorem upd_upd (op : Nat → Op) (n : Nat) (x y : Op) : upd (upd op n x) n y = upd op n y := by
  funext m; simp only [upd]; split <;> rfl
theorem upd_eq_self (op : Nat → Op) (n : Nat) (x : Op) (h : op n = x) : upd op n x = op := by
  funext m; simp only [upd]; split
  · rename_i e; rw [e, h]
  · rfl
theorem upd_comm (op : Nat → Op) {n m : Nat} (x y : Op) (h : n ≠ m) :
    upd (upd op n x) m y = upd (upd op m y) n x := by
  funext k; simp only [upd]
  by_cases h1 : k = m <;> by_cases h2 : k = n <;> simp only [h1, h2, if_true, if_false]
  · subst h1; subst h2; exact absurd rfl h
  · rw [← h1, if_neg h2]
  · rw [← h2, if_neg h1]

theorem wants_closed {s : State} {op : Nat → Op} {p i : Nat} (h : op p = .closed) :
    Wants s op p i ↔ s.isNecessary p = true := by simp [Wants, h]
theorem wants_linking {s : State} {op : Nat → Op} {p i k : Nat} (h : op p = .linking k) :
    Wants s op p i ↔ i < k := by simp [Wants, h]
theorem wants_unlinking {s : State} {op : Nat → Op} {p i k : Nat} (h : op p = .unlinking k) :
    Wants s op p i ↔ k ≤ i := by simp [Wants, h]

/-! ## the recompute heap, without reference to necessity -/

structure HeapG (s : State) : Prop where
  wf : HeapWF s
  lb : ∀ m, (s.nodeD m).inRch = true → s.rch.lowerBound ≤ (s.nodeD m).heightInRch
  lb0 : 0 ≤ s.rch.lowerBound

/-! ## the structural invariant with open nodes -/

structure GInv (env : Env) (s : State) (op : Nat → Op) : Prop where
  static : AllStatic env s
  /-- recorded parent entries are real child edges that should be recorded -/
  par : ∀ c p i, (p, i) ∈ (s.nodeD c).parents →
    (kids (s.nodeD p).kind)[i]? = some c ∧ Wants s op p i
  /-- child edges that should be recorded are -/
  conv : ∀ p i c, (kids (s.nodeD p).kind)[i]? = some c → Wants s op p i → (p, i) ∈ (s.nodeD c).parents
  nodup : ∀ c, (s.nodeD c).parents.Nodup
  /-- children of closed nodes are strictly lower -/
  hlt : ∀ c p i, (p, i) ∈ (s.nodeD c).parents → op p = .closed →
    (s.nodeD c).height < (s.nodeD p).height
  hpos : ∀ n, s.isNecessary n = true → op n = .closed → 0 ≤ (s.nodeD n).height
  lnec : ∀ p k, op p = .linking k → s.isNecessary p = true ∧ (s.nodeD p).inRch = false
  unec : ∀ p k, op p = .unlinking k → s.isNecessary p = false
  heap : HeapG s
  hgt : ∀ m, (s.nodeD m).inRch = true → op m = .closed → (s.nodeD m).heightInRch = (s.nodeD m).height
  qnec : ∀ m, (s.nodeD m).inRch = true → s.isNecessary m = true ∨ ∃ k, op m = .unlinking k
  /-- closed necessary stale nodes are queued -/
  queued : ∀ m, op m = .closed → s.isNecessary m = true → staleOf s m = true → (s.nodeD m).inRch = true
  /-- only stale nodes are queued -/
  qstale : ∀ m, (s.nodeD m).inRch = true → staleOf s m = true
  opLt : ∀ m, op m ≠ .closed → m < s.nodes.size

def allClosed : Nat → Op := fun _ => .closed

/-- the structural invariant at rest -/
def Struct (env : Env) (s : State) : Prop := GInv env s allClosed

/-! ## basic facts -/

theorem nodeD_default (s : State) (n : Nat) (h : s.nodes.size ≤ n) : s.nodeD n = default :=
  nodeD_default_of_ge s n h

theorem nec_lt_size {s : State} {n : Nat} (h : s.isNecessary n = true) : n < s.nodes.size := by
  by_cases hn : n < s.nodes.size
  · exact hn
  · rw [State.isNecessary, nodeD_default s n (by omega)] at h; cases h

theorem mem_parents_lt_size {s : State} {c : Nat} {x : Nat × Nat} (h : x ∈ (s.nodeD c).parents) :
    c < s.nodes.size := by
  by_cases hn : c < s.nodes.size
  · exact hn
  · rw [nodeD_default s c (by omega)] at h; cases h

theorem nec_of_mem_parents {s : State} {c : Nat} {x : Nat × Nat} (h : x ∈ (s.nodeD c).parents) :
    s.isNecessary c = true := by
  simp only [State.isNecessary, Node.isNecessary, Bool.or_eq_true, Bool.not_eq_true',
    List.isEmpty_eq_false_iff]
  exact Or.inl (Or.inl (List.ne_nil_of_mem h))

theorem isNecessary_iff (s : State) (n : Nat) :
    s.isNecessary n = true ↔
      ((s.nodeD n).parents ≠ [] ∨ (s.nodeD n).observers ≠ [] ∨ (s.nodeD n).forceNecessary = true) := by
  simp only [State.isNecessary, Node.isNecessary, Bool.or_eq_true, Bool.not_eq_true',
    List.isEmpty_eq_false_iff, or_assoc]

theorem getElem?_mem_kids {k : Kind} {i c : Nat} (h : (kids k)[i]? = some c) : c ∈ kids k :=
  List.mem_of_getElem? h

namespace GInv
variable {env : Env} {s : State} {op : Nat → Op}

theorem node (I : GInv env s op) {n : Nat} (h : n < s.nodes.size) : StaticNode env s n :=
  I.static.node n h

theorem kid_lt (I : GInv env s op) {p i c : Nat} (h : (kids (s.nodeD p).kind)[i]? = some c) : c < p := by
  by_cases hp : p < s.nodes.size
  · exact (I.node hp).kidsLt c (getElem?_mem_kids h)
  · rw [nodeD_default s p (by omega)] at h
    simp [kids] at h
    cases h

theorem par_lt (I : GInv env s op) {c p i : Nat} (h : (p, i) ∈ (s.nodeD c).parents) : c < p :=
  I.kid_lt (I.par c p i h).1

theorem par_lt_size (I : GInv env s op) {c p i : Nat} (h : (p, i) ∈ (s.nodeD c).parents) :
    p < s.nodes.size := by
  by_cases hp : p < s.nodes.size
  · exact hp
  · have := (I.par c p i h).1
    rw [nodeD_default s p (by omega)] at this
    simp [kids] at this
    cases this

theorem isStale (I : GInv env s op) {m : Nat} (hm : m < s.nodes.size) : s.isStale m = staleOf s m :=
  isStale_static s m (I.node hm).valid (I.node hm).kind

theorem children (I : GInv env s op) {m : Nat} (hm : m < s.nodes.size) :
    s.children m = kids (s.nodeD m).kind :=
  children_eq_kids s m (I.node hm).valid (I.node hm).kind

end GInv

/-! ## `Struct` gives the structural part of the scheduling invariant -/

/-- var nodes and var cells name each other -/
structure VarsOK (s : State) : Prop where
  node : ∀ n c, n < s.nodes.size → (s.nodeD n).kind = .var c → ∃ vc, s.vars[c]? = some vc ∧ vc.node = n
  cell : ∀ c vc, s.vars[c]? = some vc → vc.node < s.nodes.size ∧ (s.nodeD vc.node).kind = .var c

theorem Struct.heapInv {env : Env} {s : State} (I : Struct env s) : HeapInv s where
  wf := I.heap.wf
  hgt m hm := I.hgt m hm rfl
  lb m hm := by rw [← I.hgt m hm rfl]; exact I.heap.lb m hm
  lb0 := I.heap.lb0
  nec m hm := by
    rcases I.qnec m hm with h | ⟨k, h⟩
    · exact h
    · cases h

theorem Struct.graph {env : Env} {s : State} (I : Struct env s) (V : VarsOK s) : Graph env s where
  pc := I.static.pc
  nec n hn := by
    have hlt := nec_lt_size hn
    have sn := I.node hlt
    exact ⟨hlt, sn.valid, sn.kind, I.hpos n hn rfl⟩
  var n c hn hk := by
    obtain ⟨vc, h, -⟩ := V.node n c (nec_lt_size hn) hk
    exact ⟨vc, h⟩
  child n hn i c hk := by
    have hm := I.conv n i c hk ((wants_closed rfl).2 hn)
    exact ⟨nec_of_mem_parents hm, hm, I.hlt c n i hm rfl⟩
  parent c p i h := by
    obtain ⟨h1, h2⟩ := I.par c p i h
    exact ⟨(wants_closed rfl).1 h2, h1⟩

/-- at rest the heap holds exactly the necessary stale nodes -/
theorem Struct.queued_iff {env : Env} {s : State} (I : Struct env s) (m : Nat) :
    (s.nodeD m).inRch = true ↔ (s.isNecessary m = true ∧ s.isStale m = true) := by
  constructor
  · intro h
    have hn := I.heapInv.nec m h
    rw [GInv.isStale I (nec_lt_size hn)]
    exact ⟨hn, I.qstale m h⟩
  · rintro ⟨hn, hs⟩
    rw [GInv.isStale I (nec_lt_size hn)] at hs
    exact I.queued m rfl hn hs

/-! ## what the invariant reads of a state -/

structure NodeG (a b : Node) : Prop where
  valid : b.valid = a.valid
  kind : b.kind = a.kind
  cutoff : b.cutoff = a.cutoff
  createdIn : b.createdIn = a.createdIn
  forceNecessary : b.forceNecessary = a.forceNecessary
  parents : b.parents = a.parents
  observers : b.observers = a.observers
  height : b.height = a.height
  heightInRch : b.heightInRch = a.heightInRch
  recomputedAt : b.recomputedAt = a.recomputedAt
  changedAt : b.changedAt = a.changedAt

theorem NodeG.refl (a : Node) : NodeG a a := ⟨rfl, rfl, rfl, rfl, rfl, rfl, rfl, rfl, rfl, rfl, rfl⟩

structure SameG (s s' : State) : Prop where
  pc : s'.panicCountdown = s.panicCountdown
  scope : s'.currentScope = s.currentScope
  size : s'.nodes.size = s.nodes.size
  rch : s'.rch = s.rch
  vars : s'.vars = s.vars
  node : ∀ m, NodeG (s.nodeD m) (s'.nodeD m)

theorem SameG.refl (s : State) : SameG s s := ⟨rfl, rfl, rfl, rfl, rfl, fun _ => NodeG.refl _⟩

theorem SameG.of_nodes {s s' : State} (h1 : s'.nodes = s.nodes) (h2 : s'.panicCountdown = s.panicCountdown)
    (h3 : s'.currentScope = s.currentScope) (h4 : s'.rch = s.rch) (h5 : s'.vars = s.vars) : SameG s s' := by
  refine ⟨h2, h3, by rw [h1], h4, h5, fun m => ?_⟩
  have : s'.nodeD m = s.nodeD m := by simp [State.nodeD, h1]
  rw [this]; exact NodeG.refl _

theorem SameG.nec {s s' : State} (h : SameG s s') (m : Nat) : s'.isNecessary m = s.isNecessary m := by
  simp only [State.isNecessary, Node.isNecessary, (h.node m).parents, (h.node m).observers,
    (h.node m).forceNecessary]

theorem SameG.inRch {s s' : State} (h : SameG s s') (m : Nat) : (s'.nodeD m).inRch = (s.nodeD m).inRch := by
  simp only [Node.inRch, (h.node m).heightInRch]

theorem SameG.staleOf {s s' : State} (h : SameG s s') (m : Nat) : staleOf s' m = staleOf s m :=
  staleOf_congr (h.node m).kind (h.node m).recomputedAt h.vars (fun c _ => (h.node c).changedAt)

theorem SameG.wants {s s' : State} (h : SameG s s') (op : Nat → Op) (p i : Nat) :
    Wants s' op p i ↔ Wants s op p i := by
  unfold Wants; rw [h.nec]

theorem HeapG.congr {s s' : State} (h : HeapG s) (hr : s'.rch = s.rch) (hsz : s'.nodes.size = s.nodes.size)
    (hm : ∀ m, (s'.nodeD m).heightInRch = (s.nodeD m).heightInRch) : HeapG s' := by
  refine ⟨HeapWF_congr h.wf hr hsz hm, ?_, by rw [hr]; exact h.lb0⟩
  intro m hq
  have : (s.nodeD m).inRch = true := by simpa only [Node.inRch, hm m] using hq
  rw [hr, hm m]; exact h.lb m this

/-- as `NodeG`, without the cutoff: the structural invariant does not read cutoffs -/
structure NodeGC (a b : Node) : Prop where
  valid : b.valid = a.valid
  kind : b.kind = a.kind
  createdIn : b.createdIn = a.createdIn
  forceNecessary : b.forceNecessary = a.forceNecessary
  parents : b.parents = a.parents
  observers : b.observers = a.observers
  height : b.height = a.height
  heightInRch : b.heightInRch = a.heightInRch
  recomputedAt : b.recomputedAt = a.recomputedAt
  changedAt : b.changedAt = a.changedAt

theorem NodeG.toC {a b : Node} (h : NodeG a b) : NodeGC a b :=
  ⟨h.valid, h.kind, h.createdIn, h.forceNecessary, h.parents, h.observers, h.height, h.heightInRch,
    h.recomputedAt, h.changedAt⟩

structure SameC (s s' : State) : Prop where
  pc : s'.panicCountdown = s.panicCountdown
  scope : s'.currentScope = s.currentScope
  size : s'.nodes.size = s.nodes.size
  rch : s'.rch = s.rch
  vars : s'.vars = s.vars
  node : ∀ m, NodeGC (s.nodeD m) (s'.nodeD m)

theorem SameG.toC {s s' : State} (h : SameG s s') : SameC s s' :=
  ⟨h.pc, h.scope, h.size, h.rch, h.vars, fun m => (h.node m).toC⟩

theorem SameC.nec {s s' : State} (h : SameC s s') (m : Nat) : s'.isNecessary m = s.isNecessary m := by
  simp only [State.isNecessary, Node.isNecessary, (h.node m).parents, (h.node m).observers,
    (h.node m).forceNecessary]

theorem SameC.inRch {s s' : State} (h : SameC s s') (m : Nat) : (s'.nodeD m).inRch = (s.nodeD m).inRch := by
  simp only [Node.inRch, (h.node m).heightInRch]

theorem SameC.staleOf {s s' : State} (h : SameC s s') (m : Nat) : staleOf s' m = staleOf s m :=
  staleOf_congr (h.node m).kind (h.node m).recomputedAt h.vars (fun c _ => (h.node c).changedAt)

theorem SameC.wants {s s' : State} (h : SameC s s') (op : Nat → Op) (p i : Nat) :
    Wants s' op p i ↔ Wants s op p i := by
  unfold Wants; rw [h.nec]

theorem GInv.congrC {env : Env} {s s' : State} {op : Nat → Op} (I : GInv env s op) (h : SameC s s') :
    GInv env s' op where
  static := by
    refine ⟨by rw [h.pc]; exact I.static.pc, by rw [h.scope]; exact I.static.scope, fun n hn => ?_⟩
    have sn := I.static.node n (by rw [← h.size]; exact hn)
    have g := h.node n
    exact ⟨by rw [g.valid]; exact sn.valid, by rw [g.kind]; exact sn.kind,
      by rw [g.createdIn]; exact sn.top, by rw [g.forceNecessary]; exact sn.force,
      by rw [g.kind]; exact sn.kidsLt⟩
  par c p i hm := by
    rw [(h.node c).parents] at hm
    rw [(h.node p).kind, h.wants]
    exact I.par c p i hm
  conv p i c hk hw := by
    rw [(h.node p).kind] at hk
    rw [h.wants] at hw
    rw [(h.node c).parents]
    exact I.conv p i c hk hw
  nodup c := by rw [(h.node c).parents]; exact I.nodup c
  hlt c p i hm ho := by
    rw [(h.node c).parents] at hm
    rw [(h.node c).height, (h.node p).height]
    exact I.hlt c p i hm ho
  hpos n hn ho := by
    rw [h.nec] at hn
    rw [(h.node n).height]; exact I.hpos n hn ho
  lnec p k ho := by rw [h.nec, h.inRch]; exact I.lnec p k ho
  unec p k ho := by rw [h.nec]; exact I.unec p k ho
  heap := I.heap.congr h.rch h.size (fun m => (h.node m).heightInRch)
  hgt m hq ho := by
    rw [h.inRch] at hq
    rw [(h.node m).heightInRch, (h.node m).height]; exact I.hgt m hq ho
  qnec m hq := by
    rw [h.inRch] at hq
    rw [h.nec]; exact I.qnec m hq
  queued m ho hn hs := by
    rw [h.nec] at hn
    rw [h.staleOf] at hs
    rw [h.inRch]; exact I.queued m ho hn hs
  qstale m hq := by
    rw [h.inRch] at hq
    rw [h.staleOf]; exact I.qstale m hq
  opLt m ho := by rw [h.size]; exact I.opLt m ho

theorem GInv.congr {env : Env} {s s' : State} {op : Nat → Op} (I : GInv env s op) (h : SameG s s') :
    GInv env s' op := I.congrC h.toC

/-! ## loop rule in run form -/

/-- a `forIn` over a list whose body always yields: an invariant indexed by the number of iterations done -/
theorem forIn_ok_inv {α β} (f : α → β → M (ForInStep β)) (l : List α) (I : Nat → β → State → Prop)
    (hstep : ∀ j a b t r t', l[j]? = some a → I j b t → (f a b).run.run t = (.ok r, t') →
      ∃ b', r = .yield b' ∧ I (j + 1) b' t') :
    ∀ (rest : List α) (j : Nat) (b : β) (s : State) (b' : β) (s' : State), l.drop j = rest →
      j ≤ l.length → I j b s → (forIn rest b f).run.run s = (.ok b', s') → I l.length b' s' := by
  intro rest
  induction rest with
  | nil =>
    intro j b s b' s' hd hle hI h
    rw [List.forIn_nil, run_pure] at h
    cases h
    have : l.length ≤ j := List.drop_eq_nil_iff.1 hd
    have hj : j = l.length := by omega
    subst hj
    exact hI
  | cons a rest ih =>
    intro j b s b' s' hd hle hI h
    rw [List.forIn_cons] at h
    obtain ⟨r, t, h1, h2⟩ := bind_ok_inv h
    have hj : l[j]? = some a := by
      have := congrArg List.head? hd
      simpa [List.head?_drop] using this
    have hlt : j < l.length := by
      rcases Nat.lt_or_ge j l.length with hlt | hge
      · exact hlt
      · rw [List.getElem?_eq_none hge] at hj; cases hj
    obtain ⟨b1, rfl, hI1⟩ := hstep j a b s r t hj hI h1
    have hd' : l.drop (j + 1) = rest := by
      have := congrArg List.tail hd
      simpa [List.tail_drop] using this
    exact ih (j + 1) b1 t b' s' hd' hlt hI1 h2

end IncrVerif.Proofs.CutH
