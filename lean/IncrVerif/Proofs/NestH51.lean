import IncrVerif.Proofs.NestH43
import IncrVerif.Proofs.NestH12
import IncrVerif.Proofs.NestH11
import IncrVerif.Proofs.NestH15
import IncrVerif.Proofs.BindH90
import IncrVerif.Proofs.Quiet13
/-!
# Nested binds (F2), part 4p1: the prefix of `stabilise`, one iteration of `addNewObservers` / `unlinkDisallowedObservers`

Port of `BindH89` (`C2p1`) from `Struct1`/`GInv1`/`SInv1` to `Struct2 env rk`/`GInv2 env rk`/`SInv2 env rk` (the SAME ghost rank before and
after: no node is created).  The observer bookkeeping (`ObsInv`, `ObsSet`, `ObsMap`, `IterRel`, `obsAdded`, `obsRemoved`, …) is generic
(`Quiet13`); the frame accessors `C2p.pf_kind`, `C2p.pf_createdIn`, `C2p.pf_force`, `C2p.obsAdded_marks`, `C2p.obsRemoved_marks`,
`C2p.MFr.trans`, `C2p.obsTop_step` of `BindH89` are generic too and are reused.

Observers watch top-level nodes only (`SInv2.obsTop`); making a top-level bind main node necessary / unnecessary cascades through inner
binds and chains of scopes: all of that is inside `becameNecessary_spec2` / `checkIfUnnecessary_spec2`.
-/
namespace IncrVerif.Proofs.NestH
open IncrVerif.Engine IncrVerif.Driver IncrVerif.Proofs IncrVerif.Proofs.Step IncrVerif.Proofs.Sched IncrVerif.Proofs.Quiet
open IncrVerif.Proofs.Quiet.P12
open IncrVerif.Proofs.BindH

/-- the invariant during the prefix of `stabilise`, graphs with nested binds (fragment F2, ghost rank `rk`): `pn` / `pd` are the observers
still to be added / unlinked -/
structure SInv2 (env : Env) (rk : Nat → Nat) (s : State) (pn pd : List Nat) : Prop where
  struct : Struct2 env rk s
  obs : ObsInv s pn pd
  obsTop : ∀ (o : Nat) (ob : ObsRec), s.observers[o]? = some ob →
    (s.nodeD ob.node).createdIn = .top ∧ ∀ b, (s.nodeD ob.node).kind ≠ .bindLhsChange b
  pinv : s.propagateInvalidity = []
  handlers : ∀ m, (s.nodeD m).numOnUpdateHandlers = 0
  noForce : ∀ m, (s.nodeD m).forceNecessary = false

namespace N4p

/-! ## the structural invariant through one iteration -/

/-- the end of the body of `add_new_observers`: the link cascade if the node was not necessary -/
theorem struct_add2 {env : Env} {rk : Nat → Nat} {fuel n : Nat} {l : List Nat} {was : Bool} {t t4 t' : State}
    {r : ForInStep PUnit}
    (I : Struct2 env rk t) (U : NodeUpd n (fObservers l) t t4) (hb : t4.binds = t.binds) (hl : l ≠ [])
    (hwas : was = t.isNecessary n)
    (htop : (t.nodeD n).createdIn = .top) (hnlc : ∀ b, (t.nodeD n).kind ≠ .bindLhsChange b)
    (hnf : ∀ m, (t.nodeD m).forceNecessary = false)
    (hp : t4.propagateInvalidity = [])
    (h : (if (!was) = true then do
            becameNecessaryPropagate env fuel n
            pure (ForInStep.yield PUnit.unit)
          else pure (ForInStep.yield PUnit.unit)).run.run t4 = (.ok r, t')) :
    r = .yield PUnit.unit ∧ Struct2 env rk t' ∧ CFrame t4 t' ∧ t'.propagateInvalidity = [] ∧
      (∀ m, t4.isNecessary m = true → t'.isNecessary m = true) ∧ BR.MFr t4 t' := by
  cases hw : was with
  | true =>
    rw [hw] at h hwas
    simp only [Bool.not_true, Bool.false_eq_true, if_false] at h
    obtain ⟨hr, e⟩ := pure_ok_inv h
    rw [e]
    exact ⟨hr, NL.GInv2.addObs_nec I U hb hl hwas.symm htop hnlc, CFrame.refl _, hp, fun _ h => h, fun _ => rfl⟩
  | false =>
    rw [hw] at h hwas
    simp only [Bool.not_false, if_true] at h
    obtain ⟨_, t5, h5, h⟩ := bind_ok_inv h
    obtain ⟨hr, e⟩ := pure_ok_inv h
    rw [e]
    unfold becameNecessaryPropagate at h5
    obtain ⟨_, t6, h6, h5⟩ := bind_ok_inv h5
    obtain ⟨I1, hpar, hnq⟩ := NL.GInv2.addObs_open I U hb hl hwas.symm rfl htop hnlc
    have K := keeps_fObservers l
    have hk4 : (t4.nodeD n).kind = (t.nodeD n).kind := U.kind K n
    obtain ⟨I2, -, hL⟩ := becameNecessary_spec2 h6 I1 (upd_self _ _ _) hnq
      (by
        intro m hm
        by_cases e : m = n
        · rw [e]; exact Nat.le_refl _
        · rw [upd_other _ _ _ e] at hm; exact absurd rfl hm)
      (by intro p i hpi; rw [hpar] at hpi; cases hpi)
      (by
        intro m k
        by_cases e : m = n
        · rw [e, upd_self]; exact fun e => by cases e
        · rw [upd_other _ _ _ e]; exact fun e => by cases e)
      (by
        intro m b br hf
        rw [U.forceNecessary K, hnf m] at hf; cases hf)
      (by
        intro b br hbr hlc
        exfalso
        have := (I1.frag.recs b br hbr).2.2.1
        rw [hlc, hk4] at this
        exact hnlc b this)
    rw [upd_upd, upd_eq_self allClosed n .closed rfl] at I2
    have hp6 : t6.propagateInvalidity = [] := by rw [hL.pinv]; exact hp
    have e5 := P12.propagateInvalidity_nil hp6 h5
    rw [e5]
    exact ⟨hr, I2, hL.fr, hp6, fun m hm => hL.nec hm, ((BR.PresM.link env fuel).1 n).h _ _ _ h6⟩

/-- the end of the body of `unlink_disallowed_observers`: the unlink cascade if the node is no longer necessary -/
theorem struct_unlink2 {env : Env} {rk : Nat → Nat} {fuel n : Nat} {l : List Nat} {t t3 t' : State}
    (I : Struct2 env rk t) (U : NodeUpd n (fObservers l) t t3) (hb : t3.binds = t.binds)
    (hn : t.isNecessary n = true) (hl : (t.nodeD n).observers = [] → l = [])
    (h : (checkIfUnnecessary fuel n).run.run t3 = (.ok (), t')) :
    Struct2 env rk t' ∧ URel t3 t' ∧ BR.MFr t3 t' := by
  obtain ⟨H1, H2⟩ := GInv2.remObs I U hb rfl hn hl
  have hM : BR.MFr t3 t' := ((BR.PresM.unlink fuel).2.1 n).h _ _ _ h
  cases hnc : t3.isNecessary n with
  | true =>
    obtain ⟨I2, -, hU⟩ := checkIfUnnecessary_spec2 h (H1 hnc) (fun m hm => absurd rfl hm) (Or.inl ⟨hnc, rfl⟩)
    rw [upd_eq_self allClosed n .closed rfl] at I2
    exact ⟨I2, hU, hM⟩
  | false =>
    obtain ⟨I2, -, hU⟩ := checkIfUnnecessary_spec2 h (H2 hnc)
      (by
        intro m hm
        by_cases e : m = n
        · rw [e]; exact Nat.le_refl _
        · rw [upd_other _ _ _ e] at hm; exact absurd rfl hm)
      (Or.inr ⟨hnc, upd_self _ _ _⟩)
    rw [upd_upd, upd_eq_self allClosed n .closed rfl] at I2
    exact ⟨I2, hU, hM⟩

/-! ## one iteration of `add_new_observers` -/

theorem add_created2 {env : Env} {rk : Nat → Nat} {fuel o : Nat} {rest pd : List Nat} {t t4 t' : State} {ob : ObsRec}
    {was : Bool} {r : ForInStep PUnit}
    (I : SInv2 env rk t (o :: rest) pd) (hob : t.observers[o]? = some ob) (hst : ob.state = .created)
    (hwas : was = t.isNecessary ob.node)
    (h4 : (handleAfterStabilisation ob.node).run.run (obsAdded o ob.node ((0 : Nat) : Int) t) = (.ok (), t4))
    (h : (if (!was) = true then do
            becameNecessaryPropagate env fuel ob.node
            pure (ForInStep.yield PUnit.unit)
          else pure (ForInStep.yield PUnit.unit)).run.run t4 = (.ok r, t')) :
    r = .yield PUnit.unit ∧ SInv2 env rk t' rest pd ∧ IterRel .created .inUse t t' ∧
      (∀ m, t.isNecessary m = true → t'.isNecessary m = true) ∧ BR.MFr t t' := by
  have hn : ob.node < t.nodes.size := (I.obs.inRange o ob hob).1
  have U3 : NodeUpd ob.node (fObservers ((t.nodeD ob.node).observers ++ [o])) t
      (obsAdded o ob.node ((0 : Nat) : Int) t) := obsAdded_upd hn
  have R : Irrel ob.node (obsAdded o ob.node ((0 : Nat) : Int) t) t4 := by
    rcases has_cases h4 with e | e
    · rw [e]; exact Irrel.refl _ _
    · rw [e]; exact Irrel.marked _ _
  have U4 := U3.then_same R.same
  have L := R.rel (fun _ => False)
  have hp4 : t4.propagateInvalidity = [] := (L.pinv.trans rfl).trans I.pinv
  have hb4 : t4.binds = t.binds := (BL.CFrame.binds L.fr).trans rfl
  have hl : (t.nodeD ob.node).observers ++ [o] ≠ [] := by simp
  obtain ⟨htop, hnlc⟩ := I.obsTop o ob hob
  obtain ⟨hr, I', F, hp', hnec, hM⟩ := struct_add2 I.struct U4 hb4 hl hwas htop hnlc I.noForce hp4 h
  have F3 : CFrame (obsAdded o ob.node ((0 : Nat) : Int) t) t' := L.fr.trans F
  have P : PFrame t t' := (obsAdded_frame o ob.node t).trans F3.toP
  have S : ObsSet o .inUse t t' :=
    (ObsSet.of_modify (t' := obsAdded o ob.node ((0 : Nat) : Int) t) rfl).then_eq (cf_obsArr F3)
  have O' : ObsInv t' rest pd := obsInv_add_step I.obs hob hst S (F3.size.trans U3.size)
    ((F3.observers ob.node).trans U3.self.observers)
    (fun m hm => (F3.observers m).trans (U3.other m hm).observers)
  have M4 : BR.MFr (obsAdded o ob.node ((0 : Nat) : Int) t) t4 :=
    (BR.PresM.handleAfterStabilisation ob.node).h _ _ _ h4
  refine ⟨hr, ⟨I', O', C2p.obsTop_step S P I.obsTop, hp', fun m => by rw [pf_num P]; exact I.handlers m,
      fun m => by rw [C2p.pf_force P]; exact I.noForce m⟩,
    ⟨P, (cf_newObs F3).trans rfl, (cf_disObs F3).trans rfl, S.size, fun o' ob' ho' => ?_⟩, fun m hm => hnec m ?_,
    C2p.MFr.trans (C2p.MFr.trans (C2p.obsAdded_marks _ _ _ _) M4) hM⟩
  · obtain ⟨ob1, h1, h2, -, h3⟩ := S.recs o' ob' ho'
    refine ⟨ob1, h1, h2, ?_⟩
    rcases h3 with ⟨_, h3⟩ | ⟨e, h3⟩
    · exact Or.inl h3
    · rw [e, hob] at ho'; cases ho'
      exact Or.inr ⟨hst, h3⟩
  · by_cases e : m = ob.node
    · rw [e]; exact (U4.nec_self_iff (keeps_fObservers _)).2 (Or.inr (Or.inl hl))
    · rw [U4.nec_other e]; exact hm

/-! ## one iteration of `unlink_disallowed_observers` -/

theorem unlink_iter2 {env : Env} {rk : Nat → Nat} {fuel o : Nat} {rest : List Nat} {t t' : State} {ob : ObsRec}
    (I : SInv2 env rk t [] (o :: rest)) (hob : t.observers[o]? = some ob)
    (h : (checkIfUnnecessary fuel ob.node).run.run (obsRemoved o ob.node ((0 : Nat) : Int) t) = (.ok (), t')) :
    SInv2 env rk t' [] rest ∧ IterRel .disallowed .unlinked t t' ∧ BR.MFr t t' := by
  have hn : ob.node < t.nodes.size := (I.obs.inRange o ob hob).1
  have hst : ob.state = .disallowed := (I.obs.dis o ob hob).2 (List.mem_cons_self ..)
  have hmem : o ∈ (t.nodeD ob.node).observers := (I.obs.mem ob.node o).2 ⟨ob, hob, rfl, Or.inr hst⟩
  have hnec : t.isNecessary ob.node = true :=
    (isNecessary_iff t ob.node).2 (Or.inr (Or.inl (List.ne_nil_of_mem hmem)))
  have U3 : NodeUpd ob.node (fObservers ((t.nodeD ob.node).observers.filter (· != o))) t
      (obsRemoved o ob.node ((0 : Nat) : Int) t) := obsRemoved_upd hn
  obtain ⟨I', hU, hM⟩ := struct_unlink2 I.struct U3 rfl hnec (fun e => by rw [e]; rfl) h
  have F3 := hU.fr
  have P : PFrame t t' := (obsRemoved_frame o ob.node t).trans F3.toP
  have S : ObsSet o .unlinked t t' :=
    (ObsSet.of_modify (t' := obsRemoved o ob.node ((0 : Nat) : Int) t) rfl).then_eq (cf_obsArr F3)
  have O' : ObsInv t' [] rest := obsInv_unlink_step I.obs hob S (F3.size.trans U3.size)
    ((F3.observers ob.node).trans U3.self.observers)
    (fun m hm => (F3.observers m).trans (U3.other m hm).observers)
  refine ⟨⟨I', O', C2p.obsTop_step S P I.obsTop, (hU.pinv.trans rfl).trans I.pinv,
      fun m => by rw [pf_num P]; exact I.handlers m, fun m => by rw [C2p.pf_force P]; exact I.noForce m⟩,
    ⟨P, (cf_newObs F3).trans rfl, (cf_disObs F3).trans rfl, S.size, fun o' ob' ho' => ?_⟩,
    C2p.MFr.trans (C2p.obsRemoved_marks _ _ _ _) hM⟩
  obtain ⟨ob1, h1, h2, -, h3⟩ := S.recs o' ob' ho'
  refine ⟨ob1, h1, h2, ?_⟩
  rcases h3 with ⟨_, h3⟩ | ⟨e, h3⟩
  · exact Or.inl h3
  · rw [e, hob] at ho'; cases ho'
    exact Or.inr ⟨hst, h3⟩

/-- fields of the state that the invariant does not read -/
theorem sInv2_congr {env : Env} {rk : Nat → Nat} {s s' : State} {pn pd : List Nat} (I : SInv2 env rk s pn pd)
    (h1 : s'.observers = s.observers) (h2 : s'.nodes = s.nodes) (h3 : s'.panicCountdown = s.panicCountdown)
    (h4 : s'.currentScope = s.currentScope) (h5 : s'.rch = s.rch) (h6 : s'.vars = s.vars)
    (h7 : s'.propagateInvalidity = s.propagateInvalidity) (h8 : s'.binds = s.binds) : SInv2 env rk s' pn pd := by
  have hnd : ∀ m, s'.nodeD m = s.nodeD m := fun m => by simp [State.nodeD, h2]
  refine ⟨NL.GInv2.congr I.struct ⟨SameG.of_nodes h2 h3 h4 h5 h6, h8⟩, obsInv_congr I.obs h1 h2, ?_, h7.trans I.pinv,
    fun m => ?_, fun m => ?_⟩
  · intro o ob h
    rw [h1] at h
    rw [hnd]; exact I.obsTop o ob h
  · rw [hnd]; exact I.handlers m
  · rw [hnd]; exact I.noForce m

end N4p

end IncrVerif.Proofs.NestH
