import IncrVerif.Proofs.BindH74
/-!
# Binds, the run of a change detector in fragment F1, part 3: the state after phase 3 against the state before the run; the last step

* `MidRel`: the state `t` after `lhsInvalidateOld` against the state `s` before the run;
* `Mid`: everything known about `t` and about the last step (`maybeChangeValue n ()`);
* `lc_mid`: from the drain invariant, through the three contracts, to the last step.
-/
namespace IncrVerif.Proofs.BindH
open IncrVerif.Engine IncrVerif.Proofs IncrVerif.Proofs.Step IncrVerif.Proofs.Sched IncrVerif.Proofs.Quiet
namespace CC

/-- fields that nothing in the run of a change detector touches on a surviving node -/
structure NK (a b : Node) : Prop where
  kind : b.kind = a.kind
  valid : b.valid = a.valid
  cutoff : b.cutoff = a.cutoff
  createdIn : b.createdIn = a.createdIn
  value : b.value = a.value
  observers : b.observers = a.observers
  forceNecessary : b.forceNecessary = a.forceNecessary
  num : b.numOnUpdateHandlers = a.numOnUpdateHandlers

/-- the state `t` after phase 3 against the state `s` before the run; `l` = the new generation -/
structure MidRel (n b rhs : Nat) (br : BindRec) (l : List Nat) (s t : State) : Prop where
  grow : s.nodes.size ≤ t.nodes.size
  nk : ∀ m, m < s.nodes.size → m ∉ br.allNodesCreatedOnRhs → NK (s.nodeD m) (t.nodeD m)
  recO : ∀ m, m < s.nodes.size → m ∉ br.allNodesCreatedOnRhs → m ≠ n →
    (t.nodeD m).recomputedAt = (s.nodeD m).recomputedAt
  chgO : ∀ m, m < s.nodes.size → m ∉ br.allNodesCreatedOnRhs → m ≠ n →
    (t.nodeD m).changedAt = (s.nodeD m).changedAt
  recN : (t.nodeD n).recomputedAt = s.stabNum
  chgN : (t.nodeD n).changedAt = s.stabNum
  dead : ∀ m, m ∈ br.allNodesCreatedOnRhs → (t.nodeD m).valid = false ∧ (t.nodeD m).kind = (s.nodeD m).kind ∧
    (t.nodeD m).createdIn = (s.nodeD m).createdIn ∧ (t.nodeD m).observers = [] ∧
    (t.nodeD m).forceNecessary = false ∧ (t.nodeD m).recomputedAt ≤ s.stabNum ∧
    (t.nodeD m).changedAt ≤ s.stabNum ∧ (t.nodeD m).numOnUpdateHandlers = 0
  new : ∀ m, s.nodes.size ≤ m → m < t.nodes.size →
    (t.nodeD m).createdIn = .bind b ∧ (t.nodeD m).valid = true ∧ (t.nodeD m).recomputedAt = -1 ∧
    (t.nodeD m).changedAt = -1 ∧ (t.nodeD m).value = none ∧ (t.nodeD m).observers = [] ∧
    (t.nodeD m).forceNecessary = false ∧ (t.nodeD m).numOnUpdateHandlers = 0
  bind : t.binds[b]? = some { { br with allNodesCreatedOnRhs := l } with rhs := some rhs }
  lmem : ∀ m, m ∈ l ↔ (s.nodes.size ≤ m ∧ m < t.nodes.size)
  bindsSize : t.binds.size = s.binds.size
  bindsOther : ∀ b', b' ≠ b → t.binds[b']? = s.binds[b']?
  vars : t.vars = s.vars
  stabNum : t.stabNum = s.stabNum
  top : t.top = s.top

theorem NK.of_key {a b : Node} (h : NKey a b) : NK a b :=
  ⟨h.kind, h.valid, h.cutoff, h.createdIn, h.value, h.observers, h.forceNecessary, h.num⟩

theorem midRel_of {env : Env} {n b rhs : Nat} {br : BindRec} {l : List Nat} {s s1 s2 s3 : State}
    (X : Pre env n b br s) (A : F1Inv env s) (P : P1 env n b rhs br l s s1) (Q : P2 env n b rhs br l s1 s2)
    (R : P3 env br s2 s3) : MidRel n b rhs br l s s3 := by
  have hnd : n ∉ br.allNodesCreatedOnRhs := fun h => X.dy_ne_n A h rfl
  have key3 : ∀ m, m < s.nodes.size → m ∉ br.allNodesCreatedOnRhs → m ≠ n → NKey (s.nodeD m) (s3.nodeD m) := by
    intro m hm hd e
    rw [R.rel.other m hd, ← P.old_other hm e]; exact Q.key e
  have key3N : NKey { s.nodeD n with recomputedAt := s.stabNum, changedAt := s.stabNum } (s3.nodeD n) := by
    rw [R.rel.other n hnd]
    have := Q.keyN
    rw [P.self X.hlt, P.stabNum] at this
    exact this
  have hsz3 : s3.nodes.size = s1.nodes.size := R.rel.size.trans Q.rel.size
  refine
    { grow := by rw [hsz3]; exact P.grow
      nk := fun m hm hd => ?_
      recO := fun m hm hd e => (key3 m hm hd e).recomputedAt
      chgO := fun m hm hd e => (key3 m hm hd e).changedAt
      recN := key3N.recomputedAt
      chgN := key3N.changedAt
      dead := fun m hm => ?_
      new := fun m h1 h2 => ?_
      bind := by rw [R.rel.binds]; exact Q.rel.bind
      lmem := fun m => by rw [P.lmem m, hsz3]
      bindsSize := by rw [R.rel.binds, Q.rel.bindsSize]; exact P.rel.bindsSize
      bindsOther := fun b' e => by rw [R.rel.binds, Q.rel.bindsOther b' e]; exact P.rel.bindsOther b' e
      vars := by rw [R.rel.vars, Q.rel.vars]; exact P.rel.vars
      stabNum := by rw [R.rel.stabNum, Q.rel.stabNum]; exact P.stabNum
      top := by rw [R.rel.top, Q.rel.top]; exact P.rel.top }
  · by_cases e : m = n
    · subst e
      exact ⟨key3N.kind, key3N.valid, key3N.cutoff, key3N.createdIn, key3N.value, key3N.observers,
        key3N.forceNecessary, key3N.num⟩
    · exact NK.of_key (key3 m hm hd e)
  · obtain ⟨hlt, -, -⟩ := X.dyOld A hm
    have e := X.dy_ne_n A hm
    obtain ⟨d1, d2, d3, -, d5, d6, -, -, d9, d10, d11⟩ := R.rel.dead m hm
    have k := Q.key e
    rw [P.old_other hlt e] at k
    refine ⟨d1, d2.trans k.kind, d3.trans k.createdIn, d5, d6, ?_, ?_, ?_⟩
    · rw [Q.rel.stabNum, P.stabNum] at d9; exact d9
    · rw [Q.rel.stabNum, P.stabNum] at d10; exact d10
    · rw [d11, k.num]; exact A.noHandlers m
  · rw [hsz3] at h2
    have e : m ≠ n := by have := X.hlt; omega
    have hd : m ∉ br.allNodesCreatedOnRhs := fun h => by have := (X.dyOld A h).1; omega
    obtain ⟨c1, c2, c3, c4, c5, -, c7, c8, -, -, c11⟩ := P.new h1 h2
    have k := Q.key e
    rw [R.rel.other m hd]
    exact ⟨k.createdIn.trans c1, k.valid.trans c2, k.recomputedAt.trans c3, k.changedAt.trans c4,
      k.value.trans c5, k.observers.trans c7, k.forceNecessary.trans c8, k.num.trans c11⟩

/-- everything known about the state `t` after phase 3 and about the last step -/
structure Mid (env : Env) (n b rhs : Nat) (br : BindRec) (l : List Nat) (r : Option Nat) (s t s' : State) :
    Prop where
  pre : Pre env n b br s
  rel : MidRel n b rhs br l s t
  rhsOK : ((s.nodeD rhs).createdIn = .top ∧ rhs < n ∧ ∀ b', (s.nodeD rhs).kind ≠ .bindLhsChange b') ∨
    (s.nodes.size ≤ rhs ∧ rhs < t.nodes.size)
  rhsNotDy : rhs ∉ br.allNodesCreatedOnRhs
  ginv : GInv1 env t allClosed (· = br.main) []
  ahh : AhhEmpty t
  pinv : t.propagateInvalidity = []
  noForce : ∀ m, (t.nodeD m).forceNecessary = false
  noHandlers : ∀ m, (t.nodeD m).numOnUpdateHandlers = 0
  necMain : t.isNecessary br.main = true
  necN : t.isNecessary n = true
  kidsMain : t.children br.main = [n, rhs]
  graph : BGraph env t
  step : StepRelB n .unit true r t s'
  last : BC.LastK t s'
  num : ∀ m, (s'.nodeD m).numOnUpdateHandlers = (t.nodeD m).numOnUpdateHandlers

theorem lc_mid {env : Env} (CS : ClosureSpec1 env) (RS : RelinkSpec1 env) (IS : InvalSpec1 env)
    {fuel n b : Nat} {s s' : State} {r : Option Nat}
    (I : DInv env s (some n)) (A : F1Inv env s) (hk : (s.nodeD n).kind = .bindLhsChange b)
    (h : (recomputeOne env fuel n).run.run s = (.ok r, s')) :
    ∃ br rhs l t, Mid env n b rhs br l r s t s' := by
  obtain ⟨br, X⟩ := lc_pre I A hk
  obtain ⟨rhs, s1, s2, s3, h1, h2, h3, h4⟩ := lc_run_inv X.hlt X.hvn hk X.hb h
  obtain ⟨l, P⟩ := phase1 CS X A h1
  have Q := phase2 RS X A P h2
  have R := phase3 IS X A P Q h3
  have M := midRel_of X A P Q R
  have hnd : n ∉ br.allNodesCreatedOnRhs := fun h => X.dy_ne_n A h rfl
  have hmd : br.main ∉ br.allNodesCreatedOnRhs := fun h => X.dy_ne_main A h rfl
  have hsz3 : s3.nodes.size = s1.nodes.size := R.rel.size.trans Q.rel.size
  -- the adjust-heights heap
  have ahh3 : AhhEmpty s3 := by
    refine ⟨by rw [R.rel.ahh]; exact Q.ahh.length, ?_, fun m => ?_⟩
    · intro i hi
      have hi' : i < s2.ahh.queues.size := by rw [← R.rel.ahh]; exact hi
      have := Q.ahh.buckets i hi'
      simp only [R.rel.ahh]; exact this
    · by_cases hd : m ∈ br.allNodesCreatedOnRhs
      · rw [(R.rel.dead m hd).2.2.2.2.2.2.2.1]; exact Q.ahh.marks m
      · rw [R.rel.other m hd]; exact Q.ahh.marks m
  have nf3 : ∀ m, (s3.nodeD m).forceNecessary = false := by
    intro m
    by_cases hd : m ∈ br.allNodesCreatedOnRhs
    · exact (M.dead m hd).2.2.2.2.1
    · rw [R.rel.other m hd]; exact Q.noForce m
  have nh3 : ∀ m, (s3.nodeD m).numOnUpdateHandlers = 0 := by
    intro m
    by_cases hd : m ∈ br.allNodesCreatedOnRhs
    · exact (M.dead m hd).2.2.2.2.2.2.2
    · rw [R.rel.other m hd, Q.num]; exact P.noHandlers A m
  have necMain : s3.isNecessary br.main = true := by
    show (s3.nodeD br.main).isNecessary = true
    rw [R.rel.other _ hmd]; exact Q.necMain
  have hcm : s3.children br.main = [n, rhs] := by
    have := R.g.main_children M.bind
    rw [← X.hlc]; exact this
  have necN : s3.isNecessary n = true := by
    have h0 : (s3.children br.main)[0]? = some n := by rw [hcm]; rfl
    exact nec_of_mem_parents (R.g.conv br.main 0 n h0 ((wants_closed rfl).2 necMain))
  have g : BGraph env s3 := by
    apply bgraph_of_ginv1 R.g nf3
    intro m c hm hkc
    cases hsc : (s3.nodeD m).createdIn with
    | bind b' => exact absurd hkc (((R.g.frag.node m hm).inScope b' hsc).2.1 c)
    | top =>
      by_cases hd : m ∈ br.allNodesCreatedOnRhs
      · exfalso
        rw [(M.dead m hd).2.2.1, (X.dyOld A hd).2.2] at hsc; cases hsc
      · by_cases hlt : m < s.nodes.size
        · have k := M.nk m hlt hd
          rw [k.kind] at hkc
          rw [k.createdIn] at hsc
          rw [M.vars]
          exact I.graph.var m c hlt ((A.frag.node m hlt).top hsc).1 hkc
        · exfalso
          rw [(M.new m (by omega) hm).1] at hsc; cases hsc
  obtain ⟨S, L⟩ := BC.mcv_last g (heapInv_of_ginv1 R.g) necN (by rw [M.recN, M.stabNum])
    (by rw [(M.nk n X.hlt hnd).cutoff]; exact A.lcCut n b hk) h4
  refine ⟨br, rhs, l, s3, X, M, ?_, P.rhs_notDy X A, R.g, ahh3, R.rel.pinv.trans Q.pinv, nf3, nh3, necMain, necN,
    hcm, g, S, L, fun m => ((PresC.maybeChangeValue env fuel n .unit).h _ _ _ h4).num m⟩
  rcases P.rhs with h5 | h5
  · exact Or.inl h5
  · exact Or.inr ⟨h5, by rw [hsz3]; exact P.rlt⟩

end CC
end IncrVerif.Proofs.BindH
