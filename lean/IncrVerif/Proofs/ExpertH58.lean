import IncrVerif.Proofs.ExpertH57
/-!
# Expert nodes, E2: the drain keeps the callback discipline `SlotInv`

`recomputeOneX_slots`, `recomputeX_slots`, `popX_slots`, `drainHeapX_slots`.  Besides the drain invariant `DInvX` the
step needs that the unnecessary nodes have not been recomputed in this round (`UnnecOK` of the virtual state, first
component; `DStepX.unnec` carries it along the drain).
-/
namespace IncrVerif.Proofs.ExpertH
open IncrVerif.Engine IncrVerif.Driver IncrVerif.Proofs IncrVerif.Proofs.Step IncrVerif.Proofs.Sched
open IncrVerif.Proofs.ExpertH.QR IncrVerif.Proofs.Xp

/-! ## small facts -/

theorem fireRec_keys (env : Env) (s : State) (r : ExpertRec) (a : ExpertEdge) :
    ∀ x, x ∈ (fireRec env s r a).slots → x ∈ r.slots ∨ x.1 = a.dep := by
  intro x hx
  unfold fireRec at hx
  split at hx
  · rcases List.mem_cons.1 hx with rfl | hx
    · exact Or.inr rfl
    · exact Or.inl (List.mem_filter.1 hx).1
  · exact Or.inl hx

theorem foldl_fireRec_keys (env : Env) (s : State) (edges : List ExpertEdge) :
    ∀ (r : ExpertRec) x, x ∈ (edges.foldl (fireRec env s) r).slots →
      x ∈ r.slots ∨ ∃ ed, ed ∈ edges ∧ x.1 = ed.dep := by
  induction edges with
  | nil => intro r x hx; exact Or.inl hx
  | cons a rest ih =>
    intro r x hx
    rw [List.foldl_cons] at hx
    rcases ih _ x hx with h | ⟨ed, hed, h⟩
    · rcases fireRec_keys env s r a x h with h | h
      · exact Or.inl h
      · exact Or.inr ⟨a, List.mem_cons_self .., h⟩
    · exact Or.inr ⟨ed, List.mem_cons_of_mem _ hed, h⟩

theorem readyRec_keys (env : Env) (s : State) (er : ExpertRec) :
    ∀ x, x ∈ (readyRec env s er).slots → x ∈ er.slots ∨ ∃ ed, ed ∈ er.children ∧ x.1 = ed.dep := by
  intro x hx
  unfold readyRec at hx
  split at hx
  · exact foldl_fireRec_keys env s er.children (resetRec er) x hx
  · exact Or.inl hx

theorem evalArgs_some_mem {ev : Nat → Option Val} {l : List Nat} {vals : List Val} (h : evalArgs ev l = some vals)
    {a : Nat} (ha : a ∈ l) : ∃ w, ev a = some w := by
  induction l generalizing vals with
  | nil => cases ha
  | cons b bs ih =>
    simp only [evalArgs] at h
    cases hb : ev b with
    | none => rw [hb] at h; cases h
    | some w =>
      cases hs : evalArgs ev bs with
      | none => rw [hb, hs] at h; cases h
      | some ws =>
        rcases List.mem_cons.1 ha with rfl | ha'
        · exact ⟨w, hb⟩
        · exact ih hs ha'

theorem lt_of_expert {s : State} {q e : Nat} (hk : (s.nodeD q).kind = .expert e) : q < s.nodes.size := by
  by_cases h : q < s.nodes.size
  · exact h
  · rw [nodeD_default_of_ge s q (by omega)] at hk; cases hk

/-! ## the precondition of the walk, from the drain invariant -/

/-- `T` is the state `s` in which the current node `c` has been stamped "recomputed now" and — when `c` is an expert —
its record is ready for the closure (`readyRec`): it satisfies `Pre` -/
theorem pre_of {env : Env} {c : Nat} {s T : State} (D : DInvX env s (some c))
    (U : UnnecOK (virtEnv env) (virt s)) (L : SlotInv env s) (FT : XFrag env T)
    (hN : ∀ m, T.nodeD m = (started c s).nodeD m) (hsz : T.nodes.size = s.nodes.size)
    (hst : T.stabNum = s.stabNum) (hnd : T.nextDep = s.nextDep)
    (hX : ∀ e, (s.nodeD c).kind ≠ .expert e → T.experts[e]? = s.experts[e]?)
    (hXc : ∀ e, (s.nodeD c).kind = .expert e →
      ∃ er, s.experts[e]? = some er ∧ T.experts[e]? = some (readyRec env s er)) : Pre env c T := by
  have I := D.inv
  have G := I.graph
  have F := D.frag
  have hnecv : (virt s).isNecessary c = true := (I.cur c rfl).1
  have hnec : s.isNecessary c = true := by rw [← virt_isNecessary]; exact hnecv
  have hlt : c < s.nodes.size := by rw [← virt_size]; exact (G.nec c hnecv).1
  -- the nodes of `T`
  have nK : ∀ m, (T.nodeD m).kind = (s.nodeD m).kind := fun m => by rw [hN, started_nodeD]; split <;> rfl
  have nV : ∀ m, (T.nodeD m).value = (s.nodeD m).value := fun m => by rw [hN, started_nodeD]; split <;> rfl
  have nC : ∀ m, (T.nodeD m).changedAt = (s.nodeD m).changedAt := fun m => by
    rw [hN, started_nodeD]; split <;> rfl
  have nP : ∀ m, (T.nodeD m).parents = (s.nodeD m).parents := fun m => by rw [hN, started_nodeD]; split <;> rfl
  have nCut : ∀ m, (T.nodeD m).cutoff = (s.nodeD m).cutoff := fun m => by rw [hN, started_nodeD]; split <;> rfl
  have nNec : ∀ m, T.isNecessary m = s.isNecessary m := fun m => by
    unfold State.isNecessary; rw [hN, started_nodeD]; split <;> rfl
  have nR : ∀ m, m ≠ c → (T.nodeD m).recomputedAt = (s.nodeD m).recomputedAt := fun m hm => by
    rw [hN, started_nodeD, if_neg fun h => hm h.1.symm]
  have vS : ∀ m, s.value env m = (s.nodeD m).value := fun m => value_plain env s m (F.noMapRef m)
  have vT : ∀ m, T.value env m = s.value env m := fun m => by
    rw [value_plain env T m (FT.noMapRef m), vS, nV]
  -- the records of `T`
  have recs : ∀ (e : Nat) (erT : ExpertRec), T.experts[e]? = some erT →
      (s.experts[e]? = some erT ∧ (s.nodeD c).kind ≠ .expert e) ∨
        ((s.nodeD c).kind = .expert e ∧ ∃ er, s.experts[e]? = some er ∧ erT = readyRec env s er) := by
    intro e erT he
    by_cases hk : (s.nodeD c).kind = .expert e
    · obtain ⟨er, h1, h2⟩ := hXc e hk
      rw [he] at h2; cases h2
      exact Or.inr ⟨hk, er, h1, rfl⟩
    · rw [hX e hk] at he; exact Or.inl ⟨he, hk⟩
  have recCh : ∀ (e : Nat) (erT : ExpertRec), T.experts[e]? = some erT →
      ∃ er, s.experts[e]? = some er ∧ erT.children = er.children := by
    intro e erT he
    rcases recs e erT he with ⟨h, -⟩ | ⟨-, er, h1, rfl⟩
    · exact ⟨erT, h, rfl⟩
    · exact ⟨er, h1, (readyRec_fields env s er).2.2.1⟩
  -- the edges on `c`, read in the virtual graph
  have kidsOf : ∀ (q e : Nat) (er : ExpertRec), (s.nodeD q).kind = .expert e → s.experts[e]? = some er →
      kids ((virt s).nodeD q).kind = er.children.map (·.child) := by
    intro q e er hk he
    rw [virt_kids, hk]; simp only [kidsX, xRec_some he]
  refine ⟨FT, by rw [hsz]; exact hlt, ?_, ?_, ?_, ?_, ?_, ?_, ?_, ?_⟩
  · -- cut
    rw [nCut]
    have := (G.nec c hnecv).2.2.2.1
    rwa [virt_nodeD, virtNode_cutoff] at this
  · -- par
    intro p ci e erT ed hp hk he hed
    rw [nP] at hp; rw [nK] at hk
    obtain ⟨er, hes, hch⟩ := recCh e erT he
    have := (G.parent c p ci (by rw [virt_nodeD, virtNode_parents]; exact hp)).2
    rw [kidsOf p e er hk hes, List.getElem?_map, ← hch, hed] at this
    simpa using this
  · -- child
    intro q e erT j ed hk he hq hed hc
    rw [nK] at hk; rw [nNec] at hq; rw [nP]
    obtain ⟨er, hes, hch⟩ := recCh e erT he
    have := (G.child q (by rw [virt_isNecessary]; exact hq) j c (by
      rw [kidsOf q e er hk hes, List.getElem?_map, ← hch, hed, ← hc]; rfl)).2.1
    rwa [virt_nodeD, virtNode_parents] at this
  · -- deps
    intro e erT he
    rw [hnd]
    rcases recs e erT he with ⟨h, -⟩ | ⟨-, er, h1, rfl⟩
    · exact L.deps e erT h
    · obtain ⟨d1, d2, d3⟩ := L.deps e er h1
      rw [(readyRec_fields env s er).2.2.1]
      refine ⟨d1, d2, fun x hx => ?_⟩
      rcases readyRec_keys env s er x hx with h | ⟨ed, hed, h⟩
      · exact d3 x h
      · rw [h]; exact d2 ed hed
  · -- flag
    intro n e erT hk he hw
    rw [nK] at hk; rw [nNec]
    rcases recs e erT he with ⟨h, -⟩ | ⟨hkc, -⟩
    · exact L.flag n e erT hk h hw
    · rw [F.xinj hk hkc]; exact hnec
  · -- good
    intro n e erT hk he hcond
    rw [nK] at hk
    rcases recs e erT he with ⟨h, hne⟩ | ⟨hkc, er, h1, rfl⟩
    · have G0 : Good env s erT := by
        refine L.good n e erT hk h ?_
        rcases hcond with hw | ⟨hnc, hstale⟩
        · exact Or.inl hw
        · refine Or.inr ?_
          rw [isStale_expert (FT.validD n) (by rw [nK]; exact hk) he, nR n hnc] at hstale
          rw [isStale_expert (F.validD n) hk h, ← hstale]
          congr 1
          apply any_congr_mem
          intro x _
          rw [nC]
      intro ed hed hcb
      rw [vT]; exact G0 ed hed hcb
    · obtain ⟨-, -, f3, -⟩ := readyRec_fields env s er
      obtain ⟨d1, -, -⟩ := L.deps e er h1
      intro ed hed hcb
      rw [f3] at hed
      rw [vT]
      by_cases hw : er.willFireAllCallbacks = true
      · obtain ⟨vals, hvals⟩ := I.kids_values
        rw [kidsOf c e er hkc h1] at hvals
        obtain ⟨w, hw2⟩ := evalArgs_some_mem hvals (List.mem_map.2 ⟨ed, hed, rfl⟩)
        rw [virt_nodeD, virtNode_value] at hw2
        have hvw : s.value env ed.child = some w := by rw [vS]; exact hw2
        rw [readyRec_slots env s er hw d1 ed w hed hcb hvw, hvw]
      · have hw' : er.willFireAllCallbacks = false := by simpa using hw
        rw [readyRec_slots_unchanged env s er hw']
        exact L.good c e er hkc h1 (Or.inl hw') ed hed hcb
  · -- old
    intro q e erT hk he hw hmem
    rw [nK] at hk
    rcases recs e erT he with ⟨h, hne⟩ | ⟨-, er, -, rfl⟩
    · have hqc : q ≠ c := fun hq => hne (hq ▸ hk)
      rw [nR q hqc, hst]
      have hv : ((virt s).nodeD q).recomputedAt < s.stabNum := by
        by_cases hq : s.isNecessary q = true
        · have hqv : (virt s).isNecessary q = true := by rw [virt_isNecessary]; exact hq
          have hanc : Anc (virt s) q c := Anc.step hqv (by rw [kidsOf q e erT hk h]; exact hmem) (Anc.refl c)
          exact I.fresh c (Or.inr rfl) q hanc
        · have hq' : s.isNecessary q = false := by simpa using hq
          exact (U q (by rw [virt_size]; exact lt_of_expert hk) (by rw [virt_isNecessary]; exact hq')).1
      rw [virt_nodeD, virtNode_recomputedAt, hk] at hv
      simp only [forced, xRec_some h] at hv
      cases hf : erT.forceStale with
      | true => exact Or.inl rfl
      | false => rw [hf] at hv; exact Or.inr (by simpa using hv)
    · rw [(readyRec_fields env s er).2.2.2.2.2.2.2.2] at hw; cases hw
  · -- cflag
    intro e erT hk he
    rw [nK] at hk
    obtain ⟨er, -, h2⟩ := hXc e hk
    rw [he] at h2; cases h2
    exact (readyRec_fields env s er).2.2.2.2.2.2.2.2

/-! ## the drain -/

section
variable {env : Env} {s : State}

/-- **one `recomputeOne`.** -/
theorem recomputeOneX_slots {fuel n : Nat} {s' : State} {r : Option Nat} (D : DInvX env s (some n))
    (U : UnnecOK (virtEnv env) (virt s)) (L : SlotInv env s)
    (h : (recomputeOne env fuel n).run.run s = (.ok r, s')) : SlotInv env s' := by
  have hnec : (virt s).isNecessary n = true := (D.inv.cur n rfl).1
  have hlt : n < s.nodes.size := by rw [← virt_size]; exact (D.inv.graph.nec n hnec).1
  by_cases hk : ∀ e, (s.nodeD n).kind ≠ .expert e
  · obtain ⟨v, es, hrun⟩ := recomputeOne_as_mcv_x (D.frag.fr D.pinv) hlt (D.frag.kind n hlt) hk h
    rw [hrun] at h
    have frT : Fr (logged es (started n s)) := ((D.frag.fr D.pinv).started n).logged es
    have FT : XFrag env (logged es (started n s)) := D.frag.of_xf (xf_started_logged es n s) frT
    have P : Pre env n (logged es (started n s)) :=
      pre_of D U L FT (fun _ => rfl) (by simp [logged, started]) rfl rfl (fun _ _ => rfl)
        (fun e he => absurd he (hk e))
    exact mcv_slots P h
  · have : ∃ e, (s.nodeD n).kind = .expert e := by
      cases hkd : (s.nodeD n).kind <;>
        first | exact ⟨_, rfl⟩ | (exfalso; apply hk; intro e; rw [hkd]; intro h; cases h)
    obtain ⟨e, hkk⟩ := this
    obtain ⟨v, ch, er, -, -, -, he, hrun, -, frT⟩ := step_expert_ran D.frag D.inv D.pinv hkk h
    have FT := ranState_frag D.frag hkk he frT
    have P : Pre env n (ranState env n e s er) :=
      pre_of D U L FT (fun m => ranState_nodeD env n e s er m) (by rw [ranState_nodes]; simp [started]) rfl rfl
        (fun e' he' => ranState_get_ne env n e s er (fun h => he' (h ▸ hkk)))
        (fun e' he' => by
          rw [hkk] at he'; cases he'
          exact ⟨er, he, ranState_get env n e he⟩)
    exact mcv_slots P hrun

/-- **the direct-recompute chain.** -/
theorem recomputeX_slots : ∀ (fuel n : Nat) (s s' : State), DInvX env s (some n) →
    UnnecOK (virtEnv env) (virt s) → SlotInv env s →
    (recompute env fuel n).run.run s = (.ok (), s') → SlotInv env s' := by
  intro fuel
  induction fuel with
  | zero => intro n s s' _ _ _ h; unfold recompute at h; cases h
  | succ fuel ih =>
    intro n s s' D U L h
    unfold recompute at h
    obtain ⟨r, s1, h1, h2⟩ := bind_ok_inv h
    obtain ⟨D1, f1, -⟩ := recomputeOneX_inv D h1
    have L1 := recomputeOneX_slots D U L h1
    cases r with
    | none =>
      obtain ⟨-, rfl⟩ := pure_ok_inv h2
      exact L1
    | some p => exact ih p s1 s' D1 (f1.unnec U) L1 h2

/-- `SlotInv` along work that changes neither the expert records nor what `SlotInv` reads of the nodes -/
theorem SlotInv.of_frame {s1 : State} (L : SlotInv env s) (xf : XF s s1)
    (hx : s1.experts = s.experts) (hv : ∀ m, s1.value env m = s.value env m)
    (hnec : ∀ m, s1.isNecessary m = s.isNecessary m) (hst : ∀ m, s1.isStale m = s.isStale m) :
    SlotInv env s1 := by
  refine ⟨fun e er he => ?_, fun m e er hk he hw => ?_, fun m e er hk he hc => ?_⟩
  · rw [hx] at he; rw [xf.nextDep]; exact L.deps e er he
  · rw [hx] at he; rw [xf.kind] at hk; rw [hnec]; exact L.flag m e er hk he hw
  · rw [hx] at he; rw [xf.kind] at hk; rw [hst] at hc
    intro ed hed hcb
    rw [hv]; exact L.good m e er hk he hc ed hed hcb

/-- taking a node out of the heap changes heap fields only -/
theorem popX_slots {s1 : State} {r : Option Nat} (D : DInvX env s none) (L : SlotInv env s)
    (h : rchRemoveMin.run.run s = (.ok r, s1)) : SlotInv env s1 := by
  have hinv := rchRemoveMin_inv (heapInv_of_virt D.inv.heap) h
  cases r with
  | none => obtain ⟨rfl, -⟩ := hinv; exact L
  | some n =>
    obtain ⟨-, -, -, hs1, -⟩ := hinv
    have xf : XF s s1 := PresX.rchRemoveMin.h _ _ _ h
    have hnd : ∀ m, s1.nodeD m =
        if n = m ∧ m < s.nodes.size then { s.nodeD m with heightInRch := -1 } else s.nodeD m := by
      intro m; rw [hs1]; exact nodeD_modify s n m _
    have hx : s1.experts = s.experts := by rw [hs1]
    have hvars : s1.vars = s.vars := by rw [hs1]
    have hb : s1.binds = s.binds := by rw [hs1]
    refine L.of_frame xf hx (fun m => ?_) (fun m => ?_) (fun m => ?_)
    · apply value_congr env s s1 xf.size
      intro k; rw [hnd]; split <;> rfl
    · unfold State.isNecessary; rw [hnd]; split <;> rfl
    · have hk : ∀ k, (s1.nodeD k).kind? = (s.nodeD k).kind? := fun k => by rw [hnd]; split <;> rfl
      have hr : ∀ k, (s1.nodeD k).recomputedAt = (s.nodeD k).recomputedAt := fun k => by rw [hnd]; split <;> rfl
      have hc : ∀ k, (s1.nodeD k).changedAt = (s.nodeD k).changedAt := fun k => by rw [hnd]; split <;> rfl
      unfold State.isStale State.children
      simp only [hk, hr, hc, hx, hvars, hb]

/-- **the loop.** -/
theorem drainHeapX_slots : ∀ (fuel : Nat) (s s' : State), DInvX env s none →
    UnnecOK (virtEnv env) (virt s) → SlotInv env s →
    (drainHeap env fuel).run.run s = (.ok (), s') → SlotInv env s' := by
  intro fuel
  induction fuel with
  | zero => intro s s' _ _ _ h; unfold drainHeap at h; cases h
  | succ fuel ih =>
    intro s s' D U L h
    unfold drainHeap at h
    obtain ⟨r, s1, h1, h2⟩ := bind_ok_inv h
    have L1 := popX_slots D L h1
    cases r with
    | none =>
      obtain ⟨-, rfl⟩ := pure_ok_inv h2
      exact L1
    | some n =>
      obtain ⟨u, s2, h3, h4⟩ := bind_ok_inv h2
      obtain ⟨hv, F1, hp1, A1⟩ := popX D h1
      obtain ⟨I1, -⟩ := pop_inv D.inv hv
      have D1 : DInvX env s1 (some n) := ⟨F1, I1, hp1, A1⟩
      have U1 : UnnecOK (virtEnv env) (virt s1) := pop_unnec D.inv.heap U hv
      obtain ⟨D2, f2⟩ := recomputeX_inv fuel n s1 s2 D1 h3
      have L2 := recomputeX_slots fuel n s1 s2 D1 U1 L1 h3
      exact ih s2 s' D2 (f2.unnec U1) L2 h4

end
end IncrVerif.Proofs.ExpertH
