import IncrVerif.Proofs.FullH43
import IncrVerif.Proofs.FullH14
/-!
# C01 full fragment: the global hypothesis on the environment (`EnvS`, F5.lean) gives the template condition of `recomputeOne_simX`
-/
namespace IncrVerif.Proofs.FullH
open IncrVerif.Engine IncrVerif.Proofs IncrVerif.Proofs.Step IncrVerif.Proofs.Sched IncrVerif.Proofs.Quiet

theorem ST.opndS_of_raw {o : Opnd} (h : match o with | .outer _ => True | .loc _ => True | _ => False) : OpndS o := by
  cases o <;> first | trivial | exact h.elim

theorem ST.templS_of_envS {env : Env} {sp : Nat → Val → Val} (h : EnvS env sp) (b : Nat) (v : Val) :
    ST.TemplS env sp (env.body b v) := by
  obtain ⟨hi, hr⟩ := h b v
  refine ⟨fun i hm => ?_, ST.opndS_of_raw hr⟩
  obtain ⟨h1, h2⟩ := hi i hm
  cases i <;> first
    | exact h1.elim
    | exact ⟨h1, fun o ho => ST.opndS_of_raw (h2 o ho)⟩
    | exact ⟨trivial, fun o ho => ST.opndS_of_raw (h2 o ho)⟩

end IncrVerif.Proofs.FullH
