import IncrVerif.Proofs.MapRef12
/-!
# map_ref fragment: the `didChange` invariant through the linking / unlinking cascades, part 1

Definitions (`Mk`, `Unclean`, `KN`, `Inherit`), the frames `VFrame` (what `RFrag`, `State.value`, staleness of
map_ref nodes read) and `PP` (parent lists and `propagateInvalidity` equal), `markMapRefUnknown`.
-/
namespace IncrVerif.Proofs.MapRefH
open IncrVerif.Engine IncrVerif.Proofs IncrVerif.Proofs.Step IncrVerif.Proofs.Sched IncrVerif.Proofs.Quiet

/-- the nodes `markMapRefUnknown n` marks: `n` if it is a map_ref node, and from a map_ref node on to its recorded
parents.  `Mk s a n`: `a` is marked by `markMapRefUnknown n` -/
inductive Mk (s : State) : Nat → Nat → Prop
  | self {n : Nat} : IsMapRef (s.nodeD n).kind → Mk s n n
  | up {n p ci a : Nat} : IsMapRef (s.nodeD n).kind → (p, ci) ∈ (s.nodeD n).parents → Mk s a p → Mk s a n

/-- the ghost value is not what the node reads -/
def Unclean (env : Env) (g : Nat → Option Val) (s : State) (m : Nat) : Prop := g m ≠ s.value env m

/-- the invariant at one node -/
def KN (env : Env) (g : Nat → Option Val) (s : State) (m : Nat) : Prop :=
  IsMapRef (s.nodeD m).kind → Unclean env g s m → (s.nodeD m).didChange = true

/-- a map_ref node that is not stale is unclean only because its input is an unclean map_ref node -/
def Inherit (env : Env) (g : Nat → Option Val) (s : State) : Prop :=
  ∀ m pr i, (s.nodeD m).kind = .mapRef pr i → s.isStale m = false → Unclean env g s m →
    IsMapRef (s.nodeD i).kind ∧ Unclean env g s i

theorem kInv_iff {env : Env} {g : Nat → Option Val} {s : State} :
    KInv env g s ↔ ∀ m, s.isNecessary m = true → KN env g s m := by
  constructor
  · intro K m hm hk hu
    obtain ⟨p, i, hk⟩ := isMapRef_iff.1 hk
    cases hd : (s.nodeD m).didChange with
    | true => rfl
    | false => exact absurd (K m p i hm hk hd) hu
  · intro H m p i hm hk hd
    by_cases hu : g m = s.value env m
    · exact hu
    · have := H m hm (by rw [hk]; trivial) hu
      rw [this] at hd; cases hd

theorem Mk.isMapRef {s : State} {a n : Nat} (h : Mk s a n) : IsMapRef (s.nodeD n).kind := by
  cases h with
  | self h => exact h
  | up h _ _ => exact h

/-- `Mk` only reads kinds and parent lists, and is monotone in the parent lists -/
theorem Mk.mono {s s' : State} (hk : ∀ m, (s'.nodeD m).kind = (s.nodeD m).kind)
    (hp : ∀ m x, x ∈ (s.nodeD m).parents → x ∈ (s'.nodeD m).parents) {a n : Nat} (h : Mk s a n) : Mk s' a n := by
  induction h with
  | self h => exact Mk.self (by rw [hk]; exact h)
  | up h1 h2 _ ih => exact Mk.up (by rw [hk]; exact h1) (hp _ _ h2) ih

/-! ## `VFrame`: what `RFrag`, `State.value` and the staleness of map_ref nodes read -/

structure VFrame (s s' : State) : Prop where
  size : s'.nodes.size = s.nodes.size
  kind : ∀ m, (s'.nodeD m).kind = (s.nodeD m).kind
  valid : ∀ m, (s'.nodeD m).valid = (s.nodeD m).valid
  cutoff : ∀ m, (s'.nodeD m).cutoff = (s.nodeD m).cutoff
  value : ∀ m, (s'.nodeD m).value = (s.nodeD m).value
  rcp : ∀ m, (s'.nodeD m).recomputedAt = (s.nodeD m).recomputedAt
  chg : ∀ m, (s'.nodeD m).changedAt = (s.nodeD m).changedAt
  pc : s.panicCountdown = none → s'.panicCountdown = none

theorem VFrame.refl (s : State) : VFrame s s :=
  ⟨rfl, fun _ => rfl, fun _ => rfl, fun _ => rfl, fun _ => rfl, fun _ => rfl, fun _ => rfl, id⟩

theorem VFrame.trans {a b c : State} (h1 : VFrame a b) (h2 : VFrame b c) : VFrame a c :=
  ⟨h2.size.trans h1.size, fun m => (h2.kind m).trans (h1.kind m), fun m => (h2.valid m).trans (h1.valid m),
    fun m => (h2.cutoff m).trans (h1.cutoff m), fun m => (h2.value m).trans (h1.value m),
    fun m => (h2.rcp m).trans (h1.rcp m), fun m => (h2.chg m).trans (h1.chg m), fun h => h2.pc (h1.pc h)⟩

instance : Step.PreOrd VFrame := ⟨VFrame.refl, VFrame.trans⟩

theorem VFrame.of_nodes {s s' : State} (h1 : s'.nodes = s.nodes) (h2 : s'.panicCountdown = s.panicCountdown) :
    VFrame s s' := by
  have hnd : ∀ m, s'.nodeD m = s.nodeD m := fun m => by simp [State.nodeD, h1]
  exact ⟨by rw [h1], fun m => by rw [hnd], fun m => by rw [hnd], fun m => by rw [hnd], fun m => by rw [hnd],
    fun m => by rw [hnd], fun m => by rw [hnd], fun h => by rw [h2]; exact h⟩

/-- what a `modNode` must keep of a node -/
def NodeV (a b : Node) : Prop :=
  b.kind = a.kind ∧ b.valid = a.valid ∧ b.cutoff = a.cutoff ∧ b.value = a.value ∧
    b.recomputedAt = a.recomputedAt ∧ b.changedAt = a.changedAt

theorem VFrame.modNode (s : State) (n : Nat) (f : Node → Node) (hf : ∀ x, NodeV x (f x)) :
    VFrame s { s with nodes := s.nodes.modify n f } := by
  refine ⟨by simp, ?_, ?_, ?_, ?_, ?_, ?_, id⟩
  all_goals intro m; rw [nodeD_modify]; split
  any_goals rfl
  · exact (hf _).1
  · exact (hf _).2.1
  · exact (hf _).2.2.1
  · exact (hf _).2.2.2.1
  · exact (hf _).2.2.2.2.1
  · exact (hf _).2.2.2.2.2

theorem _root_.IncrVerif.Proofs.Quiet.CFrame.toV {s s' : State} (h : CFrame s s') : VFrame s s' := by
  have e := fun m => h.node m
  simp only [nodeKey, Prod.mk.injEq] at e
  exact ⟨h.size, fun m => (e m).1, fun m => (e m).2.2.2.2.1, fun m => (e m).2.2.1, fun m => (e m).2.2.2.1,
    fun m => (e m).2.2.2.2.2.1, fun m => (e m).2.2.2.2.2.2.1, h.pc⟩

theorem _root_.IncrVerif.Proofs.Quiet.CFrame.varsM {s s' : State} (h : CFrame s s') : s'.vars = s.vars := by
  have := h.key; simp only [stateKey, Prod.mk.injEq] at this; exact this.1

theorem VFrame.value_eq {s s' : State} (h : VFrame s s') (env : Env) (m : Nat) : s'.value env m = s.value env m :=
  value_congr env s s' h.size (fun k => by simp only [valueCore, h.kind, h.valid, h.value]) m

theorem VFrame.kind? {s s' : State} (h : VFrame s s') (m : Nat) : (s'.nodeD m).kind? = (s.nodeD m).kind? := by
  simp only [Node.kind?, h.kind, h.valid]

/-- staleness of a map_ref node -/
theorem isStale_mapRef {s : State} {m pr i : Nat} (hk : (s.nodeD m).kind = .mapRef pr i) :
    s.isStale m = ((s.nodeD m).valid &&
      ((s.nodeD m).recomputedAt == -1 || decide ((s.nodeD i).changedAt > (s.nodeD m).recomputedAt))) := by
  unfold State.isStale State.children
  cases hv : (s.nodeD m).valid with
  | false => simp [Node.kind?, hv]
  | true => simp [Node.kind?, hv, hk]

theorem VFrame.isStale_mapRef {s s' : State} (h : VFrame s s') {m pr i : Nat}
    (hk : (s.nodeD m).kind = .mapRef pr i) : s'.isStale m = s.isStale m := by
  rw [MapRefH.isStale_mapRef hk, MapRefH.isStale_mapRef (s := s') (by rw [h.kind]; exact hk), h.valid, h.rcp, h.chg]

theorem VFrame.unclean {env : Env} {g : Nat → Option Val} {s s' : State} (h : VFrame s s') (m : Nat) :
    Unclean env g s' m ↔ Unclean env g s m := by
  unfold Unclean; rw [h.value_eq]

theorem RFrag.of_vframe {env : Env} {s s' : State} (h : VFrame s s') (F : RFrag env s) : RFrag env s' where
  pc := h.pc F.pc
  kind m hm := by rw [h.kind]; exact F.kind m (by rw [← h.size]; exact hm)
  valid m hm := by rw [h.valid]; exact F.valid m (by rw [← h.size]; exact hm)
  back m hm := by rw [h.kind]; exact F.back m (by rw [← h.size]; exact hm)
  cut m p i hk := by rw [h.kind] at hk; rw [h.cutoff]; exact F.cut m p i hk

theorem Inherit.of_vframe {env : Env} {g : Nat → Option Val} {s s' : State} (h : VFrame s s')
    (T : Inherit env g s) : Inherit env g s' := by
  intro m pr i hk hst hu
  rw [h.kind] at hk
  rw [h.isStale_mapRef hk] at hst
  rw [h.unclean] at hu
  obtain ⟨h1, h2⟩ := T m pr i hk hst hu
  exact ⟨by rw [h.kind]; exact h1, (h.unclean i).2 h2⟩

theorem RFrag.of_cframe {env : Env} {s s' : State} (h : CFrame s s') (F : RFrag env s) : RFrag env s' :=
  F.of_vframe h.toV

theorem Inherit.of_cframe {env : Env} {g : Nat → Option Val} {s s' : State} (h : CFrame s s')
    (T : Inherit env g s) : Inherit env g s' := T.of_vframe h.toV

/-- `KN` is monotone: kinds and read values constant, flags only go up -/
theorem KN.mono {env : Env} {g : Nat → Option Val} {s s' : State} (h : VFrame s s') (fm : FM s s') {m : Nat}
    (K : KN env g s m) : KN env g s' m := by
  intro hk hu
  rw [h.kind] at hk
  exact fm m (K hk ((h.unclean m).1 hu))

theorem nec_congr {s s' : State} {m : Nat} (hp : (s'.nodeD m).parents = (s.nodeD m).parents)
    (ho : (s'.nodeD m).observers = (s.nodeD m).observers)
    (hf : (s'.nodeD m).forceNecessary = (s.nodeD m).forceNecessary) : s'.isNecessary m = s.isNecessary m := by
  simp only [State.isNecessary, Node.isNecessary, hp, ho, hf]

theorem RFrag.mapRef_valid {env : Env} {s : State} (F : RFrag env s) {m : Nat} (h : IsMapRef (s.nodeD m).kind) :
    (s.nodeD m).valid = true := by
  obtain ⟨p, i, hk⟩ := isMapRef_iff.1 h
  exact F.valid m (F.lt_of_mapRef hk)

theorem RFrag.children {env : Env} {s : State} (F : RFrag env s) {n : Nat} (hn : n < s.nodes.size) :
    s.children n = kidsR (s.nodeD n).kind := by
  unfold State.children
  have hv := F.valid n hn
  have hk := F.kind n hn
  simp only [Node.kind?, hv, if_true]
  cases hkd : (s.nodeD n).kind <;> rw [hkd] at hk <;> first | rfl | exact hk.elim

/-! ## `PP`: parent lists and `propagateInvalidity` are unchanged -/

def PP (s s' : State) : Prop :=
  (∀ m, (s'.nodeD m).parents = (s.nodeD m).parents) ∧ s'.propagateInvalidity = s.propagateInvalidity

instance : Step.PreOrd PP :=
  ⟨fun _ => ⟨fun _ => rfl, rfl⟩, fun h1 h2 => ⟨fun m => (h2.1 m).trans (h1.1 m), h2.2.trans h1.2⟩⟩

theorem PP.of_nodes {s s' : State} (h1 : s'.nodes = s.nodes) (h2 : s'.propagateInvalidity = s.propagateInvalidity) :
    PP s s' := by
  refine ⟨fun m => ?_, h2⟩
  have : s'.nodeD m = s.nodeD m := by simp [State.nodeD, h1]
  rw [this]

theorem PP.modNode (s : State) (n : Nat) (f : Node → Node) (hf : ∀ x, (f x).parents = x.parents) :
    PP s { s with nodes := s.nodes.modify n f } := by
  refine ⟨fun m => ?_, rfl⟩
  rw [nodeD_modify]; split
  · exact hf _
  · rfl

theorem PresPP.modNode (n : Nat) (f : Node → Node) (hf : ∀ x, (f x).parents = x.parents) :
    Step.Pres PP (Engine.modNode n f) := by
  unfold Engine.modNode; exact Step.Pres.modify fun s => PP.modNode s n f hf

macro_rules
  | `(tactic| qleaf) =>
    `(tactic| ((with_reducible apply Step.Pres.modify); intro _; exact PP.of_nodes rfl rfl))
macro_rules
  | `(tactic| qleaf) => `(tactic| ((with_reducible apply PresPP.modNode); intro _; rfl))

macro "pp_leaf " n:ident : command =>
  `(macro_rules | `(tactic| qleaf) => `(tactic| with_reducible apply $n))

theorem PresPP.tick : Step.Pres PP Engine.tick := by unfold Engine.tick; qpres
pp_leaf PresPP.tick
theorem PresPP.logEv (e) : Step.Pres PP (Engine.logEv e) := by unfold Engine.logEv; qpres
pp_leaf PresPP.logEv
theorem PresPP.modExpert (e f) : Step.Pres PP (Engine.modExpert e f) := by unfold Engine.modExpert; qpres
pp_leaf PresPP.modExpert
theorem PresPP.edgeOnChange (env e edge) : Step.Pres PP (Engine.edgeOnChange env e edge) := by
  unfold Engine.edgeOnChange; qpres
pp_leaf PresPP.edgeOnChange
theorem PresPP.runEdgeCallback (env e i) : Step.Pres PP (Engine.runEdgeCallback env e i) := by
  unfold Engine.runEdgeCallback; qpres
pp_leaf PresPP.runEdgeCallback
theorem PresPP.observabilityChange (e b) : Step.Pres PP (Engine.observabilityChange e b) := by
  unfold Engine.observabilityChange; qpres
pp_leaf PresPP.observabilityChange
theorem PresPP.setHeight (n h) : Step.Pres PP (Engine.setHeight n h) := by unfold Engine.setHeight; qpres
pp_leaf PresPP.setHeight
theorem PresPP.rchLink (n) : Step.Pres PP (Engine.rchLink n) := by unfold Engine.rchLink; qpres
pp_leaf PresPP.rchLink
theorem PresPP.rchInsert (n) : Step.Pres PP (Engine.rchInsert n) := by unfold Engine.rchInsert; qpres
pp_leaf PresPP.rchInsert
theorem PresPP.handleAfterStabilisation (n) : Step.Pres PP (Engine.handleAfterStabilisation n) := by
  unfold Engine.handleAfterStabilisation; qpres
pp_leaf PresPP.handleAfterStabilisation
theorem PresPP.maybeHandleAfterStabilisation (n) : Step.Pres PP (Engine.maybeHandleAfterStabilisation n) := by
  unfold Engine.maybeHandleAfterStabilisation; qpres
pp_leaf PresPP.maybeHandleAfterStabilisation

theorem PresPP.markMapRefUnknown (fuel n) : Step.Pres PP (Engine.markMapRefUnknown fuel n) := by
  induction fuel generalizing n with
  | zero => unfold Engine.markMapRefUnknown; qpres
  | succ fuel ih =>
    unfold Engine.markMapRefUnknown
    qpres
    all_goals (apply Step.Pres.forIn; intro a b; qpres; exact ih _)
pp_leaf PresPP.markMapRefUnknown

/-! ## missing `FM` leaves -/

theorem PresFM.setHeight (n h) : Step.Pres FM (Engine.setHeight n h) := by unfold Engine.setHeight; qpres
fm_leaf PresFM.setHeight
theorem PresFM.observabilityChange (e b) : Step.Pres FM (Engine.observabilityChange e b) := by
  unfold Engine.observabilityChange; qpres
fm_leaf PresFM.observabilityChange

theorem PresFM.markMapRefUnknown (fuel n) : Step.Pres FM (Engine.markMapRefUnknown fuel n) := by
  induction fuel generalizing n with
  | zero => unfold Engine.markMapRefUnknown; qpres
  | succ fuel ih =>
    unfold Engine.markMapRefUnknown
    qpres
    all_goals (apply Step.Pres.forIn; intro a b; qpres; exact ih _)
fm_leaf PresFM.markMapRefUnknown

/-! ## the light relation: everything the invariant reads is constant, except that flags go up -/

structure Lt (s s' : State) : Prop where
  fr : CFrame s s'
  fm : FM s s'
  pp : PP s s'

theorem Lt.refl (s : State) : Lt s s := ⟨CFrame.refl s, PreOrd.refl s, PreOrd.refl s⟩
theorem Lt.trans {a b c : State} (h1 : Lt a b) (h2 : Lt b c) : Lt a c :=
  ⟨h1.fr.trans h2.fr, PreOrd.trans h1.fm h2.fm, PreOrd.trans h1.pp h2.pp⟩

theorem Lt.nec {s s' : State} (h : Lt s s') (m : Nat) : s'.isNecessary m = s.isNecessary m :=
  nec_congr (h.pp.1 m) (h.fr.observers m) (h.fr.forceNecessary m)

/-- `lt_run h`: the relation `Lt` between the states of the run `h` of a program made of the leaves above -/
macro "lt_run " h:term : term =>
  `(Lt.mk (Step.Pres.h (by qpres) _ _ _ $h) (Step.Pres.h (by qpres) _ _ _ $h) (Step.Pres.h (by qpres) _ _ _ $h))

/-! ## `markMapRefUnknown` marks -/

theorem markMapRefUnknown_lt {fuel n : Nat} {s s' : State} {r : Except Panic Unit}
    (h : (Engine.markMapRefUnknown fuel n).run.run s = (r, s')) : Lt s s' :=
  ⟨(PresF.markMapRefUnknown fuel n).h _ _ _ h, (PresFM.markMapRefUnknown fuel n).h _ _ _ h,
    (PresPP.markMapRefUnknown fuel n).h _ _ _ h⟩

theorem Lt.mk_iff {s s' : State} (h : Lt s s') {a n : Nat} (hm : Mk s a n) : Mk s' a n :=
  hm.mono h.fr.kind (fun m x hx => by rw [h.pp.1]; exact hx)

/-- **(1)** a successful `markMapRefUnknown n` raises the flag of every node of `Mk s · n` (map_ref nodes are
valid) -/
theorem markMapRefUnknown_marks {fuel n : Nat} {s s' : State} {u : Unit}
    (hv : ∀ m, IsMapRef (s.nodeD m).kind → (s.nodeD m).valid = true)
    (h : (Engine.markMapRefUnknown fuel n).run.run s = (.ok u, s')) :
    ∀ a, Mk s a n → (s'.nodeD a).didChange = true := by
  induction fuel generalizing n s s' u with
  | zero => unfold Engine.markMapRefUnknown at h; cases h
  | succ fuel ih =>
    intro a hm
    have hmr := hm.isMapRef
    obtain ⟨pr, i, hk⟩ := isMapRef_iff.1 hmr
    unfold Engine.markMapRefUnknown at h
    obtain ⟨nd, hnd, h⟩ := bind_getNode_inv h
    have hndD : s.nodeD n = nd := nodeD_of_some hnd
    have hn : n < s.nodes.size := lt_of_some hnd
    have hq : nd.kind? = some (.mapRef pr i) := by rw [← hndD, Node.kind?, hv n hmr, hk]; rfl
    rw [hq] at h
    dsimp only at h
    obtain ⟨s1, hs1, h⟩ := bind_modNode_inv h
    obtain ⟨nd1, hnd1, h⟩ := bind_getNode_inv h
    have L1 : Lt s s1 := by
      rw [hs1]
      exact ⟨CFrame.modNode s n _ (fun _ => rfl), FM.modNode s n _ (fun _ _ => rfl), PP.modNode s n _ (fun _ => rfl)⟩
    have hflag1 : (s1.nodeD n).didChange = true := by
      rw [hs1, nodeD_modify, if_pos ⟨rfl, hn⟩]
    have hpar1 : nd1.parents = (s.nodeD n).parents := by
      rw [← nodeD_of_some hnd1]; exact L1.pp.1 n
    rw [hpar1] at h
    obtain ⟨_, s2, hloop, h⟩ := bind_ok_inv h
    obtain ⟨-, e⟩ := pure_ok_inv h
    rw [e]
    have hvt : ∀ t, Lt s t → ∀ m, IsMapRef (t.nodeD m).kind → (t.nodeD m).valid = true := by
      intro t L m hm'
      rw [L.fr.kind] at hm'
      rw [L.fr.toV.valid]; exact hv m hm'
    have L := forIn_inv_post (fun t => Lt s t)
      (fun (x : Nat × Nat) t => ∀ a, Mk s a x.1 → (t.nodeD a).didChange = true) _ (s.nodeD n).parents
      (by
        intro x hx t r t' Lt' hb
        obtain ⟨p, ci⟩ := x
        obtain ⟨_, t1, hcall, hb⟩ := bind_ok_inv hb
        obtain ⟨hr, e⟩ := pure_ok_inv hb
        rw [← e] at hcall
        refine ⟨Lt'.trans (markMapRefUnknown_lt hcall), hr, fun a ha => ?_⟩
        exact ih (hvt t Lt') hcall a (Lt'.mk_iff ha))
      (by
        intro x y hy t r t' Lt' hp hb a ha
        obtain ⟨p, ci⟩ := y
        obtain ⟨_, t1, hcall, hb⟩ := bind_ok_inv hb
        obtain ⟨hr, e⟩ := pure_ok_inv hb
        rw [← e] at hcall
        exact (markMapRefUnknown_lt hcall).fm a (hp a ha))
      s1 _ s2 L1 hloop
    obtain ⟨L2, hall⟩ := L
    cases hm with
    | self _ =>
      have : FM s1 s2 := by
        refine Step.Pres.h ?_ _ _ _ hloop
        apply Step.Pres.forIn; intro a b; qpres
      exact this n hflag1
    | up _ hmem hup => exact hall _ hmem a hup

end IncrVerif.Proofs.MapRefH
