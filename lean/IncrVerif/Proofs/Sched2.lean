import IncrVerif.Proofs.Sched1
/-!
# Heap lemmas for the scheduling invariant: `HeapInv` through insert / min-height / remove-min
-/
namespace IncrVerif.Proofs.Sched
open IncrVerif.Engine IncrVerif.Proofs IncrVerif.Proofs.Step


/-! ## auxiliary lemmas -/

theorem inRch_iff (nd : Node) : nd.inRch = true ↔ 0 ≤ nd.heightInRch := by
  simp [Node.inRch]

theorem inRch_false_iff (nd : Node) : nd.inRch = false ↔ nd.heightInRch < 0 := by
  simp [Node.inRch]

theorem lt_size_of_inRch {s : State} {m : Nat} (hm : (s.nodeD m).inRch = true) : m < s.nodes.size := by
  by_cases h : m < s.nodes.size
  · exact h
  · rw [nodeD_default_of_ge s m (by omega)] at hm; cases hm

/-- `HeapWF` only looks at the heap, the node count and the markers -/
theorem HeapWF_congr {s s' : State} (h : HeapWF s) (hr : s'.rch = s.rch)
    (_hsz : s'.nodes.size = s.nodes.size)
    (hm : ∀ m, (s'.nodeD m).heightInRch = (s.nodeD m).heightInRch) : HeapWF s' := by
  rw [← HWF_release_iff] at h ⊢
  unfold HWF at *
  have e : markerOf s'.nodes = markerOf s.nodes := funext hm
  rw [hr, e]; exact ⟨h.1, by simp⟩

/-- `lb ≤ firstNonEmpty q fuel lb` -/
theorem firstNonEmpty_ge (q : Array (List Nat)) (fuel lb : Nat) : lb ≤ firstNonEmpty q fuel lb := by
  induction fuel generalizing lb with
  | zero => exact Nat.le_refl _
  | succ fuel ih =>
    unfold firstNonEmpty
    split
    · have := ih (lb + 1); omega
    · exact Nat.le_refl _

/-- with enough fuel, `firstNonEmpty` finds the first non-empty bucket at or above `lb` -/
theorem firstNonEmpty_spec (q : Array (List Nat)) (fuel lb j : Nat) (hj : lb ≤ j) (hlt : j < q.size)
    (hne : q[j] ≠ []) (hf : j - lb < fuel) :
    firstNonEmpty q fuel lb ≤ j ∧ ∃ x xs, q[firstNonEmpty q fuel lb]? = some (x :: xs) := by
  induction fuel generalizing lb with
  | zero => omega
  | succ fuel ih =>
    unfold firstNonEmpty
    have hlb : lb < q.size := by omega
    have e : q[lb]? = some q[lb] := Array.getElem?_eq_getElem hlb
    cases hq : q[lb] with
    | nil =>
      rw [e, hq]
      simp only
      have hne' : lb ≠ j := by
        intro e'; subst e'; exact hne hq
      exact ih (lb + 1) (by omega) (by omega)
    | cons x xs =>
      rw [e, hq]
      simp only
      exact ⟨hj, x, xs, by rw [e, hq]⟩

/-- `HeapInv` only looks at the heap, the node count, and `heightInRch`/`height`/necessity of the nodes -/
theorem HeapInv.congr {s s' : State} (h : HeapInv s) (hr : s'.rch = s.rch)
    (hsz : s'.nodes.size = s.nodes.size)
    (hm : ∀ m, (s'.nodeD m).heightInRch = (s.nodeD m).heightInRch ∧
      (s'.nodeD m).height = (s.nodeD m).height ∧ s'.isNecessary m = s.isNecessary m) :
    HeapInv s' := by
  have hin : ∀ m, (s'.nodeD m).inRch = (s.nodeD m).inRch := fun m => by
    simp only [Node.inRch, (hm m).1]
  refine ⟨HeapWF_congr h.wf hr hsz (fun m => (hm m).1), ?_, ?_, by rw [hr]; exact h.lb0, ?_⟩
  · intro m hq
    rw [hin] at hq
    rw [(hm m).1, (hm m).2.1]; exact h.hgt m hq
  · intro m hq
    rw [hin] at hq
    rw [hr, (hm m).2.1]; exact h.lb m hq
  · intro m hq
    rw [hin] at hq
    rw [(hm m).2.2]; exact h.nec m hq

theorem inserted_isNecessary (p : Nat) (h : Int) (s : State) (m : Nat) :
    (inserted p h s).isNecessary m = s.isNecessary m := by
  simp only [State.isNecessary, inserted_nodeD]
  split <;> rfl

theorem inserted_inRch (p : Nat) (h : Int) (s : State) (hp : p < s.nodes.size) (h0 : 0 ≤ h) (m : Nat) :
    ((inserted p h s).nodeD m).inRch = true ↔ (m = p ∨ (s.nodeD m).inRch = true) := by
  rw [inserted_nodeD]
  by_cases e : m = p
  · subst e
    rw [if_pos ⟨rfl, hp⟩]
    simp only [inRch_iff, true_or, iff_true]
    exact h0
  · have : ¬ (p = m ∧ m < s.nodes.size) := fun h => e h.1.symm
    rw [if_neg this]
    simp [e]

/-- inserting a necessary, not queued node at its height keeps the heap invariant -/
theorem HeapInv.inserted {s : State} (h : HeapInv s) {p : Nat} {nd : Node}
    (hp : s.nodes[p]? = some nd) (hnot : nd.inRch = false) (h0 : 0 ≤ nd.height)
    (hmax : nd.height ≤ s.rch.maxAllowed) (hnec : s.isNecessary p = true) :
    HeapInv (inserted p nd.height s) := by
  have hlt : p < s.nodes.size := lt_of_some hp
  have hnd : s.nodeD p = nd := nodeD_of_some hp
  have hw := (HWF_release_iff s).2 h.wf
  have hmk : markerOf s.nodes p = -1 := hw.marker_neg hp hnot
  obtain ⟨⟨hb, hl⟩, -⟩ := hw
  have hb0 : BucketsOK s.rch.queues (setMk p (-1) (markerOf s.nodes)) := by
    rw [setMk_self p _ _ hmk]; exact hb
  have hh : nd.height.toNat < s.rch.queues.size := by
    simp only [Heap.maxAllowed] at hmax; omega
  obtain ⟨hb', hs'⟩ := BucketsOK.link hb0 nd.height.toNat hh
  have e : ((nd.height.toNat : Nat) : Int) = nd.height := by omega
  rw [e] at hb'
  have key : ∀ m, (IncrVerif.Proofs.inserted p nd.height s).nodeD m =
      if m = p then { s.nodeD m with heightInRch := nd.height } else s.nodeD m := by
    intro m
    rw [inserted_nodeD]
    by_cases e : m = p
    · subst e; rw [if_pos ⟨rfl, hlt⟩, if_pos rfl]
    · have : ¬ (p = m ∧ m < s.nodes.size) := fun h => e h.1.symm
      rw [if_neg this, if_neg e]
  refine ⟨?_, ?_, ?_, ?_, ?_⟩
  rotate_left 3
  · show 0 ≤ (if nd.height < s.rch.lowerBound then nd.height else s.rch.lowerBound)
    have := h.lb0
    split <;> omega
  rotate_right 3
  · rw [← HWF_release_iff]
    refine ⟨⟨?_, ?_⟩, by simp⟩
    · show BucketsOK (s.rch.queues.modify nd.height.toNat (· ++ [p]))
        (markerOf (s.nodes.modify p fun x => { x with heightInRch := nd.height }))
      rw [markerOf_modify_set _ _ _ hlt]; exact hb'
    · show s.rch.length + 1 = bucketSum (s.rch.queues.modify nd.height.toNat (· ++ [p]))
      rw [hs', hl]
  · intro m hq
    rw [key] at hq ⊢
    by_cases e : m = p
    · subst e; rw [if_pos rfl]; simp only [hnd]
    · rw [if_neg e] at hq ⊢; exact h.hgt m hq
  · intro m hq
    rw [key] at hq ⊢
    show (if nd.height < s.rch.lowerBound then nd.height else s.rch.lowerBound) ≤ _
    by_cases e : m = p
    · subst e; rw [if_pos rfl]; simp only [hnd]
      split <;> omega
    · rw [if_neg e] at hq ⊢
      have := h.lb m hq
      split <;> omega
  · intro m hq
    rw [inserted_isNecessary]
    rw [key] at hq
    by_cases e : m = p
    · subst e; exact hnec
    · rw [if_neg e] at hq; exact h.nec m hq

/-- `min_height` is below every queued node -/
theorem minHeightOf_le {s : State} (h : HeapInv s) {m : Nat} (hm : (s.nodeD m).inRch = true) :
    minHeightOf s ≤ (s.nodeD m).height := by
  have hlt := lt_size_of_inRch hm
  have hlb := h.lb m hm
  have hg := h.hgt m hm
  have h0 : 0 ≤ (s.nodeD m).heightInRch := (inRch_iff _).1 hm
  unfold minHeightOf
  by_cases he : s.rch.length = 0
  · have := h.empty he m
    rw [hm] at this; cases this
  · have he' : (s.rch.length == 0) = false := by simpa using he
    rw [he']
    simp only [Bool.false_eq_true, if_false]
    split
    · exact hlb
    · rcases h.wf.range m hlt with h1 | ⟨_, h2⟩
      · omega
      · have hj : (s.nodeD m).heightInRch.toNat < s.rch.queues.size := by omega
        have hmem := (h.wf.mem _ hj m).2 ⟨hlt, by omega⟩
        have hne : s.rch.queues[(s.nodeD m).heightInRch.toNat] ≠ [] := by
          intro e; rw [e] at hmem; cases hmem
        have := (firstNonEmpty_spec s.rch.queues (s.rch.queues.size + 1) s.rch.lowerBound.toNat
          _ (by omega) hj hne (by omega)).1
        omega

theorem HeapInv.withMinHeight {s : State} (h : HeapInv s) : HeapInv (withMinHeight s) :=
  ⟨⟨h.wf.mem, h.wf.nodup, h.wf.length, h.wf.range⟩, h.hgt, fun _ hm => minHeightOf_le h hm,
    by
      show 0 ≤ minHeightOf s
      unfold minHeightOf
      have := h.lb0
      split
      · omega
      · split <;> omega,
    h.nec⟩

theorem bucketSum_eq_zero_of_nil (q : Array (List Nat)) (h : ∀ i (hi : i < q.size), q[i] = []) :
    bucketSum q = 0 := by
  unfold bucketSum
  have : ∀ l : List (List Nat), (∀ x ∈ l, x = []) → (l.map List.length).sum = 0 := by
    intro l
    induction l with
    | nil => intro _; rfl
    | cons a l ih =>
      intro hl
      simp only [List.map_cons, List.sum_cons]
      rw [ih (fun x hx => hl x (List.mem_cons_of_mem _ hx)), hl a (List.mem_cons_self ..)]
      rfl
  apply this
  intro x hx
  obtain ⟨i, hi, e⟩ := List.mem_iff_getElem.1 hx
  have hi' : i < q.size := by simpa using hi
  rw [← e]
  simpa using h i hi'

/-- a non-empty heap has a queued node -/
theorem HeapInv.exists_queued {s : State} (h : HeapInv s) (he : s.rch.length ≠ 0) :
    ∃ m, (s.nodeD m).inRch = true := by
  have hs : bucketSum s.rch.queues ≠ 0 := by rw [← h.wf.length]; exact he
  have : ¬ ∀ i (hi : i < s.rch.queues.size), s.rch.queues[i] = [] :=
    fun hall => hs (bucketSum_eq_zero_of_nil _ hall)
  false_or_by_contra
  rename_i hno
  apply this
  intro i hi
  cases hq : s.rch.queues[i] with
  | nil => rfl
  | cons m ms =>
    exfalso
    have := (h.wf.mem i hi m).1 (by rw [hq]; exact List.mem_cons_self ..)
    apply hno
    exact ⟨m, by rw [inRch_iff, this.2]; omega⟩

/-- a queued node sits in the (non-empty) bucket of its height, at or above the lower bound; the
first non-empty bucket from the lower bound is at or below it -/
theorem HeapInv.firstNonEmpty_le {s : State} (h : HeapInv s) {m : Nat}
    (hm : (s.nodeD m).inRch = true) :
    (firstNonEmpty s.rch.queues (s.rch.queues.size + 1) s.rch.lowerBound.toNat : Int) ≤
        (s.nodeD m).height ∧
      ∃ x xs, s.rch.queues[firstNonEmpty s.rch.queues (s.rch.queues.size + 1)
        s.rch.lowerBound.toNat]? = some (x :: xs) := by
  have hlt := lt_size_of_inRch hm
  have hlb := h.lb m hm
  have hg := h.hgt m hm
  have h0 : 0 ≤ (s.nodeD m).heightInRch := (inRch_iff _).1 hm
  rcases h.wf.range m hlt with h1 | ⟨_, h2⟩
  · omega
  · have hj : (s.nodeD m).heightInRch.toNat < s.rch.queues.size := by omega
    have hmem := (h.wf.mem _ hj m).2 ⟨hlt, by omega⟩
    have hne : s.rch.queues[(s.nodeD m).heightInRch.toNat] ≠ [] := by
      intro e; rw [e] at hmem; cases hmem
    have := firstNonEmpty_spec s.rch.queues (s.rch.queues.size + 1) s.rch.lowerBound.toNat
      _ (by omega) hj hne (by omega)
    exact ⟨by omega, this.2⟩

/-- `remove_min` under the heap invariant: `none` only on the empty heap; otherwise a queued node of
minimal height is taken out and nothing else changes -/
theorem rchRemoveMin_inv {s s1 : State} {r : Option Nat} (h : HeapInv s)
    (hr : rchRemoveMin.run.run s = (.ok r, s1)) :
    match r with
    | none => s1 = s ∧ s.rch.length = 0
    | some n =>
      (s.nodeD n).inRch = true ∧
      (∀ m, (s.nodeD m).inRch = true → (s.nodeD n).height ≤ (s.nodeD m).height) ∧
      HeapInv s1 ∧
      s1 = { s with rch := s1.rch, nodes := s.nodes.modify n fun x => { x with heightInRch := -1 } } ∧
      s1.rch.queues.size = s.rch.queues.size := by
  simp only [rchRemoveMin, run_bind, run_get, run_ite, run_pure, run_dassert] at hr
  by_cases he : s.rch.length = 0
  · rw [if_pos (by simpa using he)] at hr
    cases hr
    exact ⟨rfl, he⟩
  rw [if_neg (by simpa using he)] at hr
  split at hr
  next a s' heq =>
    split at heq
    · cases heq
    cases heq
    obtain ⟨m0, hm0⟩ := h.exists_queued he
    obtain ⟨-, x, xs, hq⟩ := h.firstNonEmpty_le hm0
    generalize hF : firstNonEmpty s.rch.queues (s.rch.queues.size + 1) s.rch.lowerBound.toNat = F
      at hq hr
    rw [hq] at hr
    simp only [run_bind, run_modify, run_modNode, run_pure] at hr
    cases hr
    have hFlt : F < s.rch.queues.size := (Array.getElem?_eq_some_iff.1 hq).1
    have hqe : s.rch.queues[F] = x :: xs := (Array.getElem?_eq_some_iff.1 hq).2
    have hx := (h.wf.mem F hFlt x).1 (by rw [hqe]; exact List.mem_cons_self ..)
    have hxq : (s.nodeD x).inRch = true := by rw [inRch_iff, hx.2]; omega
    have hxh : (s.nodeD x).height = (F : Int) := by rw [← h.hgt x hxq]; exact hx.2
    have hmin : ∀ m, (s.nodeD m).inRch = true → (s.nodeD x).height ≤ (s.nodeD m).height := by
      intro m hm
      have := (h.firstNonEmpty_le hm).1
      rw [hF] at this
      omega
    have key : ∀ m, (({ s with
        rch := { s.rch with queues := s.rch.queues.set! F xs, lowerBound := F,
                            length := s.rch.length - 1 },
        nodes := s.nodes.modify x fun y => { y with heightInRch := -1 } } : State).nodeD m) =
        if m = x then { s.nodeD m with heightInRch := -1 } else s.nodeD m := by
      intro m
      have := nodeD_modify { s with
        rch := { s.rch with queues := s.rch.queues.set! F xs, lowerBound := F,
                            length := s.rch.length - 1 } } x m
          (fun y => { y with heightInRch := -1 })
      refine this.trans ?_
      by_cases e : m = x
      · subst e; rw [if_pos ⟨rfl, hx.1⟩, if_pos rfl]; rfl
      · have : ¬ (x = m ∧ m < s.nodes.size) := fun h => e h.1.symm
        rw [if_neg this, if_neg e]; rfl
    have keyq : ∀ m, (({ s with
        rch := { s.rch with queues := s.rch.queues.set! F xs, lowerBound := F,
                            length := s.rch.length - 1 },
        nodes := s.nodes.modify x fun y => { y with heightInRch := -1 } } : State).nodeD m).inRch
          = true → m ≠ x ∧ (s.nodeD m).inRch = true := by
      intro m hq
      rw [key] at hq
      by_cases e : m = x
      · rw [if_pos e] at hq; simp [Node.inRch] at hq
      · rw [if_neg e] at hq; exact ⟨e, hq⟩
    refine ⟨hxq, hmin, ⟨?_, ?_, ?_, ?_, ?_⟩, rfl, ?_⟩
    rotate_left 5
    · show (s.rch.queues.set! F xs).size = s.rch.queues.size
      rw [Array.set!_eq_setIfInBounds, Array.size_setIfInBounds]
    rotate_left 3
    · show (0 : Int) ≤ (F : Int)
      omega
    rotate_right 3
    · rw [← HWF_release_iff]
      obtain ⟨⟨hb, hl⟩, -⟩ := (HWF_release_iff s).2 h.wf
      obtain ⟨hb', hs', -⟩ := hb.pop F hFlt hqe
      refine ⟨⟨?_, ?_⟩, by simp⟩
      · show BucketsOK (s.rch.queues.set! F xs)
          (markerOf (s.nodes.modify x fun y => { y with heightInRch := -1 }))
        rw [markerOf_modify_neg, Array.set!_eq_setIfInBounds]; exact hb'
      · show s.rch.length - 1 = bucketSum (s.rch.queues.set! F xs)
        rw [Array.set!_eq_setIfInBounds]; omega
    · intro m hq
      obtain ⟨e, hq'⟩ := keyq m hq
      rw [key, if_neg e]; exact h.hgt m hq'
    · intro m hq
      obtain ⟨e, hq'⟩ := keyq m hq
      rw [key, if_neg e]
      show (F : Int) ≤ _
      have := hmin m hq'
      omega
    · intro m hq
      obtain ⟨e, hq'⟩ := keyq m hq
      have := h.nec m hq'
      simp only [State.isNecessary] at this ⊢
      rw [key, if_neg e]; exact this
  next e s' heq =>
    cases hr

end IncrVerif.Proofs.Sched
