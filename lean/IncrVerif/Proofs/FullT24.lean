import IncrVerif.Proofs.FullT22
import IncrVerif.Proofs.FullH61
/-!
# C04 combined fragment: WHOLE HISTORIES never panic — from the contracts for `stabilise` (`StabTotC`) and for the other API actions (`ActTotC`)
(mirror of `NestH.runS_total2` / `history_total2`, Proofs/NestH108)
-/
namespace IncrVerif.Proofs.FullT
open IncrVerif.Engine IncrVerif.Driver IncrVerif.Proofs IncrVerif.Proofs.Step IncrVerif.Proofs.Sched IncrVerif.Proofs.Quiet IncrVerif.Proofs.FullH
open IncrVerif.Proofs.NestH (TotIf HasRoomG ResOK runS growTop grow2)

/-- CONTRACT: `stabilise` returns if the state it ends in has room -/
def StabTotC (needS : Nat → Nat) (env : Env) (sp : Nat → Val → Val) (N : Nat) : Prop :=
  ∀ (fuel : Nat) (s : State) (g : Nat → Option Val), QF env sp N s g →
    TotIf (stabilise env fuel) s (HasRoomG needS N fuel) (fun _ s' => ∃ g', QF env sp N s' g' ∧ StabF env sp s s' g')

/-- CONTRACT: every other API action of the fragment whose indices exist returns if the state it ends in has at most `N` nodes -/
def ActTotC (env : Env) (sp : Nat → Val → Val) (N : Nat) : Prop :=
  ∀ (s : State) (g : Nat → Option Val) (a : Action) (tk : Array Nat), QF env sp N s g → ActionFull env sp s.top.size a →
    ActionIdxF s.top.size s.vars.size s.observers.size a → a ≠ .stabilise →
    TotIf (stepAction env a tk) s (ResOK N) (fun r s' => r.2 = tk ∧ QF env sp N s' g ∧
      s'.top.size = s.top.size + growTop (virtA a) ∧ s'.vars.size = s.vars.size + (grow2 (virtA a)).2.1 ∧
      s'.observers.size = s.observers.size + (grow2 (virtA a)).2.2)

section
variable {env : Env} {sp : Nat → Val → Val} {N : Nat} {needS : Nat → Nat}

theorem hasRoomG_of_le {fuel : Nat} {s s' : State} (hmono : ∀ a b, a ≤ b → needS a ≤ needS b) (h : s.nodes.size ≤ s'.nodes.size)
    (R : HasRoomG needS N fuel s') : HasRoomG needS N fuel s :=
  ⟨Nat.le_trans h R.1, Nat.le_trans (hmono _ _ h) R.2⟩

/-- **one action of a history** -/
theorem step_totIfF (E : EnvS env sp) (hF : FirstFn env) (S : StabTotC needS env sp N) (A : ActTotC env sp N)
    {s : State} {g : Nat → Option Val} {a : Action} {tk : Array Nat}
    (Q : QF env sp N s g) (ha : ActionFull env sp s.top.size a) (hidx : ActionIdxF s.top.size s.vars.size s.observers.size a) :
    TotIf (stepAction env a tk) s (HasRoomG needS N fuelDefault) (fun r s1 => r.2 = tk ∧ (∃ g1, QF env sp N s1 g1) ∧
      s1.top.size = s.top.size + growTop (virtA a) ∧ s1.vars.size = s.vars.size + (grow2 (virtA a)).2.1 ∧
      s1.observers.size = s.observers.size + (grow2 (virtA a)).2.2) := by
  intro r s1 hx hroom1
  by_cases hns : a = .stabilise
  · subst hns
    obtain ⟨r0, hst, hok⟩ := NestH.T2i.step_stabilise_cases hx
    obtain ⟨u, e, g1, Q1, R⟩ := S fuelDefault s g Q r0 s1 hst hroom1
    have er := hok u e
    exact ⟨_, er, rfl, ⟨g1, Q1⟩, by rw [R.top]; rfl, by rw [R.vars]; rfl, R.obs.1⟩
  · obtain ⟨r0, e, htk, Q1, h1, h2, h3⟩ := A s g a tk Q ha hidx hns r s1 hx hroom1.1
    exact ⟨r0, e, htk, ⟨g, Q1⟩, h1, h2, h3⟩

theorem nextT_eq (a : Action) (T : Nat) : nextT a T = T + growTop (virtA a) := by
  cases a <;> try rfl
  rename_i i
  cases i <;> rfl

/-- **Whole histories, from any state satisfying the invariants.** -/
theorem runS_totalF (E : EnvS env sp) (hF : FirstFn env) (S : StabTotC needS env sp N) (A : ActTotC env sp N)
    (hmono : ∀ a b, a ≤ b → needS a ≤ needS b) (acts : List Action) :
    ∀ (s : State) (tk : Array Nat) (g : Nat → Option Val), QF env sp N s g → HistFull env sp s.top.size acts →
      ValidIdxF s.top.size s.vars.size s.observers.size acts → HasRoomG needS N fuelDefault (runS env acts s tk).2 →
      ∃ s' tk' g', Quiet.runActions env acts s tk = .ok (s', tk') ∧ QF env sp N s' g' := by
  induction acts with
  | nil => intro s tk g Q _ _ _; exact ⟨s, tk, g, rfl, Q⟩
  | cons a as ih =>
    intro s tk g Q hH hV hroom
    obtain ⟨haF, hH'⟩ := hH
    obtain ⟨hidx, hV'⟩ := hV
    have key := step_totIfF (tk := tk) E hF S A Q haF hidx
    rcases hx : (stepAction env a tk).run.run s with ⟨e | r, s1⟩
    · simp only [runS, hx] at hroom
      obtain ⟨_, e', -⟩ := key _ _ hx hroom
      cases e'
    · simp only [runS, hx] at hroom
      have hroom1 : HasRoomG needS N fuelDefault s1 := hasRoomG_of_le hmono (NestH.runS_size env as s1 r.2) hroom
      obtain ⟨r0, e', -, ⟨g1, Q1⟩, h1, h2, h3⟩ := key _ _ hx hroom1
      have hH1 : HistFull env sp s1.top.size as := by
        rw [h1, ← nextT_eq]; exact hH'
      have hV1 : ValidIdxF s1.top.size s1.vars.size s1.observers.size as := by rw [h1, h2, h3]; exact hV'
      obtain ⟨s', tk', g', hr, Q'⟩ := ih s1 r.2 g1 Q1 hH1 hV1 hroom
      refine ⟨s', tk', g', ?_, Q'⟩
      simp only [Quiet.runActions, hx]
      exact hr

/-- the initial state -/
theorem pinv_init (N : Nat) (d : Bool) : PInv (State.init N d) := by
  refine ⟨fun n pr i h => ?_, fun c p i h => ?_⟩
  · rw [FullH.init_nodeD] at h; cases h
  · rw [FullH.init_nodeD] at h; cases h

theorem qf_init (env : Env) (sp : Nat → Val → Val) (N : Nat) (d : Bool) : ∃ g, QF env sp N (State.init N d) g := by
  obtain ⟨g, Q⟩ := qinvF_init env sp N d
  refine ⟨g, Q, pinv_init N d, ?_⟩
  rw [virt_init]
  exact NestH.qt_init _ N d

/-- **C04 for the combined fragment, modulo the two contracts.** -/
theorem history_totalF (E : EnvS env sp) (hF : FirstFn env) (S : StabTotC needS env sp N) (A : ActTotC env sp N)
    (hmono : ∀ a b, a ≤ b → needS a ≤ needS b) {d : Bool} {acts : List Action} (hH : HistFull env sp 0 acts)
    (hV : ValidIdxF 0 0 0 acts) (hroom : HasRoomG needS N fuelDefault (runS env acts (State.init N d) #[]).2) :
    ∃ s tk g, Quiet.runActions env acts (State.init N d) #[] = .ok (s, tk) ∧ QF env sp N s g := by
  obtain ⟨g0, Q0⟩ := qf_init env sp N d
  exact runS_totalF E hF S A hmono acts (State.init N d) #[] g0 Q0 hH hV hroom

end
end IncrVerif.Proofs.FullT
