import IncrVerif.Proofs.PerKeyH83
/-!
# Per-key operators, the semantic theorem, part 3: a settled template instance stores the from-scratch evaluation

For every NECESSARY local of an instance: its stored value is the corresponding entry of `evalLocs` (induction on the
instruction index; an operand of a necessary node is necessary).
-/
namespace IncrVerif.Proofs.PerKeyH
open IncrVerif IncrVerif.Engine IncrVerif.Driver IncrVerif.Proofs IncrVerif.Proofs.Step IncrVerif.Proofs.Sched
open IncrVerif.Proofs.ExpertH IncrVerif.Proofs.EffH IncrVerif.Proofs.DriverH

/-- the current values of the outer nodes `n<k>` (as in `OutputOK`) -/
def ovOf (env : Env) (s : State) : Nat → Option Val := fun k => (s.top[k]?).bind fun o => s.value env o

variable {env : Env} {s : State}

/-- an operand of the `j`-th instruction that resolves to a necessary node evaluates to that node's stored value -/
theorem opnd_val (H : Settled env s) {t : Template} {key v : Int} {p : Nat} {locs : List Nat} (j : Nat)
    (hp : s.isNecessary p = true → (s.nodeD p).value = some (.int v))
    (IH : ∀ j' c, j' < j → locs[j']? = some c → s.isNecessary c = true →
      (evalLocs env (ovOf env s) key v t.instrs)[j' + 1]? = some ((s.nodeD c).value))
    (o : Opnd) (ho : OpndOK j o) (a : Nat) (hr : resP s.top (p :: locs.take j) o = some a)
    (ha : s.isNecessary a = true) :
    evalOpnd (ovOf env s) (evalLocs env (ovOf env s) key v (t.instrs.take j)) o = (s.nodeD a).value := by
  cases o with
  | outer k =>
    simp only [resP] at hr
    simp only [evalOpnd, ovOf, hr, Option.bind_some]
    exact H.value_plain a
  | loc i =>
    simp only [OpndOK] at ho
    simp only [resP] at hr
    simp only [evalOpnd]
    cases i with
    | zero =>
      simp only [List.getElem?_cons_zero, Option.some.injEq] at hr
      subst hr
      rw [evalLocs_zero, hp ha]
      rfl
    | succ i' =>
      simp only [List.getElem?_cons_succ] at hr
      rw [List.getElem?_take] at hr
      split at hr
      · rename_i hlt
        rw [evalLocs_take_getElem? env (ovOf env s) key v t.instrs j (i' + 1) ho, IH i' a hlt hr ha]
        rfl
      · cases hr
  | abs n => exact ho.elim
  | slot k => exact ho.elim

/-- **every necessary local of a settled instance stores its from-scratch evaluation** -/
theorem inst_locals (H : Settled env s) {t : Template} (T : TemplOK env t) {key v : Int} {p : Nat} {locs : List Nat}
    {m : Nat} (I : Inst s t key p locs m)
    (hp : s.isNecessary p = true → (s.nodeD p).value = some (.int v)) :
    ∀ j c, locs[j]? = some c → s.isNecessary c = true →
      (evalLocs env (ovOf env s) key v t.instrs)[j + 1]? = some ((s.nodeD c).value) := by
  intro j
  induction j using Nat.strongRecOn with
  | _ j IH =>
    intro c hc hnec
    have hjl : j < t.instrs.length := by
      rw [← I.len]
      exact (List.getElem?_eq_some_iff.mp hc).1
    have hi : t.instrs[j]? = some t.instrs[j] := List.getElem?_eq_getElem hjl
    generalize t.instrs[j] = i at hi
    rw [evalLocs_succ env (ovOf env s) key v t.instrs j i hi]
    congr 1
    have hkind := I.kind j i c hi hc
    have hT := T.instr i (List.mem_of_getElem? hi)
    have hO := T.opnd j i hi
    have hC := H.necCons hnec
    have hvalid := H.valid hnec
    have IH' : ∀ j' c, j' < j → locs[j']? = some c → s.isNecessary c = true →
        (evalLocs env (ovOf env s) key v t.instrs)[j' + 1]? = some ((s.nodeD c).value) :=
      fun j' c' hlt hc' hn' => IH j' hlt c' hc' hn'
    cases i with
    | const v0 =>
      simp only [instrKind, Option.some.injEq] at hkind
      rw [consV_const hkind.symm hC]
      rfl
    | lhsConst =>
      simp only [instrKind, Option.some.injEq] at hkind
      rw [consV_const hkind.symm hC]
      rfl
    | map f args =>
      simp only [instrKind] at hkind
      simp only [TInstrOK] at hT
      cases hR : args.mapM (resP s.top (p :: locs.take j)) with
      | none => rw [hR] at hkind; cases hkind
      | some nodes =>
        rw [hR] at hkind
        simp only [Option.map_some, Option.some.injEq] at hkind
        have hf : f < fnPerKey := by
          have := hT.1
          unfold fnZip at this
          unfold fnPerKey
          omega
        obtain ⟨vals, hv, hval⟩ := consV_map hkind.symm hf hC
        have hch : s.children c = nodes := children_map' hvalid hkind.symm
        have hE : args.mapM (evalOpnd (ovOf env s) (evalLocs env (ovOf env s) key v (t.instrs.take j))) = some vals := by
          refine mapM_eval _ _ (fun a => (s.nodeD a).value) args nodes vals hR hv ?_
          intro o ho a hr ha w hw
          have han : s.isNecessary a = true := H.down c hnec a (by rw [hch]; exact ha)
          rw [opnd_val H j hp IH' o (hO o ho) a hr han, hw]
        simp only [evalInstr, hE, Option.map_some]
        rw [hval, penv_fn_lt env hT.1]
    | fold f init cs =>
      simp only [instrKind] at hkind
      simp only [TInstrOK] at hT
      have hne : cs.isEmpty = false := by
        cases cs with
        | nil => exact absurd rfl hT.2
        | cons _ _ => rfl
      rw [hne] at hkind
      simp only [Bool.false_eq_true, if_false] at hkind
      cases hR : cs.mapM (resP s.top (p :: locs.take j)) with
      | none => rw [hR] at hkind; cases hkind
      | some nodes =>
        rw [hR] at hkind
        simp only [Option.map_some, Option.some.injEq] at hkind
        obtain ⟨vals, hv, hval⟩ := consV_fold hkind.symm hC
        have hch : s.children c = nodes := children_fold' hvalid hkind.symm
        have hE : cs.mapM (evalOpnd (ovOf env s) (evalLocs env (ovOf env s) key v (t.instrs.take j))) = some vals := by
          refine mapM_eval _ _ (fun a => (s.nodeD a).value) cs nodes vals hR hv ?_
          intro o ho a hr ha w hw
          have han : s.isNecessary a = true := H.down c hnec a (by rw [hch]; exact ha)
          rw [opnd_val H j hp IH' o (hO o ho) a hr han, hw]
        simp only [evalInstr, hE, Option.map_some]
        rw [hval, penv_foldStep_lt env hT.1]
    | _ => exact hT.elim

/-- **the return node of a settled instance stores `evalTempl`** -/
theorem inst_ret (H : Settled env s) {t : Template} (T : TemplOK env t) {key v : Int} {p : Nat} {locs : List Nat}
    {m : Nat} (I : Inst s t key p locs m)
    (hp : s.isNecessary p = true → (s.nodeD p).value = some (.int v))
    (hm : s.isNecessary m = true) :
    evalTempl env (ovOf env s) t key v = (s.nodeD m).value := by
  rw [evalTempl_eq]
  have h := opnd_val H (t := t) (key := key) (v := v) (p := p) (locs := locs) t.instrs.length hp
    (fun j' c _ hc hn => inst_locals H T I hp j' c hc hn) t.ret T.ret m
    (by rw [← I.len, List.take_length]; exact I.ret) hm
  rw [List.take_length] at h
  exact h

end IncrVerif.Proofs.PerKeyH
