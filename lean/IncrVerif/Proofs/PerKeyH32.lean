import IncrVerif.Proofs.PerKeyH31
/-!
# twin simulation, part 10: `resolveOpnd`, `isConstant`, node creation (port of the first half of `Proofs/ExpertH31.lean`)
-/
namespace IncrVerif.Proofs.PerKeyH
open IncrVerif.Engine IncrVerif.Driver IncrVerif.Proofs IncrVerif.Proofs.Step IncrVerif.Proofs.Sched
open IncrVerif.Proofs.ExpertH IncrVerif.Proofs.EffH

section
variable {s : State} {l : List Event} {α β : Type}

/-- a read-only program followed by a continuation: the continuation starts in the same state (the twin's log may
have changed) -/
theorem TSimL.ro_seq {x x' : M α} {f f' : α → M β} (hro : Step.Pres SameS x) (hx : TSimL s l x x')
    (hf : ∀ a l1, TSimL s l1 (f a) (f' a)) : TSimL s l (x >>= f) (x' >>= f') := by
  refine TSimL.seq hx fun a s1 l1 h1 => ?_
  have e : s1 = s := hro.h s _ s1 h1
  rw [e]; exact hf a l1

end

theorem TSim.resolveOpnd (loc : List Nat) (o : Opnd) : TSim (Engine.resolveOpnd loc o) (Engine.resolveOpnd loc o) := by
  apply TSim.ofL; intro s l; unfold Engine.resolveOpnd
  cases o <;> dsimp only <;> tsim <;> split <;> tsim
macro_rules | `(tactic| tsim_leaf) => `(tactic| with_reducible exact IncrVerif.Proofs.PerKeyH.TSim.resolveOpnd _ _)

/-- the constant of a `const` node (the twin has the same `const` nodes) -/
theorem TSim.isConstant (n : Nat) : TSim (Engine.isConstant n) (Engine.isConstant n) := by
  apply TSim.ofL; intro s l; unfold Engine.isConstant; tsim
  tsim_kind
macro_rules | `(tactic| tsim_leaf) => `(tactic| with_reducible exact IncrVerif.Proofs.PerKeyH.TSim.isConstant _)

/-! ## node creation -/

theorem twL_crState (l : List Event) (k : Kind) (sc : Scope) (c : CutoffK) (s : State) :
    twL l (crState k sc c s) = crState (twKind k) sc c (twL l s) := by
  have h : (s.nodes.push { kind := k, createdIn := sc, cutoff := c }).map twNode
      = (twL l s).nodes.push { kind := twKind k, createdIn := sc, cutoff := c } := by
    rw [Array.map_push]; rfl
  unfold crState twL at *
  cases sc <;> simp only [] <;> rw [h] <;> simp

/-- a new node of a kind of the fragment; the twin creates the twin kind -/
theorem TSimL.createNode {s : State} {l : List Event} {k : Kind} (sc : Scope) (c : CutoffK) (hk : XK k) :
    TSimL s l (Engine.createNode k sc c) (Engine.createNode (twKind k) sc c) := by
  intro hn r s' hr
  rw [run_createNode] at hr ⊢
  cases hr
  rw [twL_size]
  exact ⟨⟨l, by rw [twL_crState l k sc c s]⟩, fr_crState sc hn hk⟩

theorem TSim.createNode {k : Kind} (sc : Scope) (c : CutoffK) (hk : XK k) :
    TSim (Engine.createNode k sc c) (Engine.createNode (twKind k) sc c) :=
  TSim.ofL fun _ _ => TSimL.createNode sc c hk

theorem TSim.createVar (v : Val) (sc : Scope) : TSim (Engine.createVar v sc) (Engine.createVar v sc) := by
  apply TSim.ofL; intro s l
  unfold Engine.createVar
  refine TSimL.get_seq ?_
  tnorm
  refine TSimL.seq (TSimL.createNode (k := .var s.vars.size) sc .eq trivial) fun _ _ _ _ => ?_
  tsim

end IncrVerif.Proofs.PerKeyH
