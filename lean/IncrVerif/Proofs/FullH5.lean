import IncrVerif.Proofs.FullH3
/-!
# C01 full fragment, part 4: the fragment of PROGRAMS (API actions, closures, histories) and its virtual image

`ActionFull env sp T a`: the API actions of the full fragment — those of fragment F2 (`NestH.ActionF2`: static creation, binds incl. nested binds, observers,
variable writes, `stabilise`) plus `mapRef` and `mapWithOld` (with a `Good` machine), at top level and inside closures.  `virtA a`: the virtual action.
`ActionFull env sp T a → ActionF2 (VE env sp) T (virtA a)`.
-/
namespace IncrVerif.Proofs.FullH
open IncrVerif.Engine IncrVerif.Driver IncrVerif.Proofs IncrVerif.Proofs.Step IncrVerif.Proofs.Sched IncrVerif.Proofs.Quiet
open IncrVerif.Proofs.MapOldH (enc dec WId dec_enc MReach GoodMachine)
open IncrVerif.Proofs.BindH (OpndF1 InstrF1)
open IncrVerif.Proofs.NestH (InstrF2 BodyF2 InstrTop2 ActionF2 HistF2)

/-- instructions of closures of the full fragment (`P body'`: the inner body is fine) -/
def InstrFullC (env : Env) (sp : Nat → Val → Val) (P : Nat → Prop) (T nloc : Nat) : Instr → Prop
  | .const _ => True
  | .lhsConst => True
  | .map f args => f < pBase ∧ (f < fnZip → ∀ vals, env.fnEff f vals = []) ∧ ∀ a, a ∈ args → OpndF1 T nloc a
  | .fold _ _ cs => ∀ a, a ∈ cs → OpndF1 T nloc a
  | .mapRef p o => PId p ∧ OpndF1 T nloc o
  | .mapWithOld m o => WId m ∧ Good env sp m ∧ OpndF1 T nloc o
  | .bind body' o => P body' ∧ OpndF1 T nloc o
  | .dependOn a b => OpndF1 T nloc a ∧ OpndF1 T nloc b
  | _ => False

/-- the closure `body` may be used by a bind created when the naming table had `T` entries (fuel: nesting depth) -/
def BodyFull (env : Env) (sp : Nat → Val → Val) (T : Nat) : Nat → Nat → Prop
  | 0, _ => False
  | f+1, body => ∀ v : Val, (∀ j i, (env.body body v).instrs[j]? = some i → InstrFullC env sp (BodyFull env sp T f) T j i) ∧
      OpndF1 T (env.body body v).instrs.length (env.body body v).ret

/-- top-level creation instructions of the full fragment -/
def InstrTopF (env : Env) (sp : Nat → Val → Val) (T : Nat) : Instr → Prop
  | .const _ => True
  | .var _ => True
  | .map f args => f < pBase ∧ (f < fnZip → ∀ vals, env.fnEff f vals = []) ∧ ∀ a, a ∈ args → OpndOK a
  | .fold _ _ cs => ∀ a, a ∈ cs → OpndOK a
  | .zip a b => OpndOK a ∧ OpndOK b
  | .mapRef p o => PId p ∧ OpndOK o
  | .mapWithOld m o => WId m ∧ Good env sp m ∧ OpndOK o
  | .bind body lhs => (∃ k, lhs = .outer k) ∧ ∃ f, BodyFull env sp T f body
  | .dependOn a b => OpndOK a ∧ OpndOK b
  | .cutoff n c => OpndOK n ∧ (c = .eq ∨ c = .never)
  | _ => False

/-- the number of handles after action `a` (the `cutoff` action creates no node) -/
def nextT (a : Action) (T : Nat) : Nat :=
  match a with
  | .create (.cutoff _ _) => T
  | .create _ => T + 1
  | _ => T

/-- the API actions of the full fragment, when the naming table has `T` entries -/
def ActionFull (env : Env) (sp : Nat → Val → Val) (T : Nat) : Action → Prop
  | .create i => InstrTopF env sp T i
  | .observe n => Quiet.OpndOK n
  | .cloneObs _ | .dropObs _ | .disallow _ => True
  | .set _ _ | .modify _ _ | .update _ _ | .replace _ _ | .replaceWith _ _ | .get _ => True
  | .stabilise | .isStable | .stats => True
  | _ => False

/-- a history of the full fragment (`T` = number of handles created so far) -/
def HistFull (env : Env) (sp : Nat → Val → Val) : Nat → List Action → Prop
  | _, [] => True
  | T, a :: as => ActionFull env sp T a ∧ HistFull env sp (nextT a T) as

/-- the virtual action -/
def virtA : Action → Action
  | .create (.cutoff _ _) => .stats
  | .create i => .create (virtI i)
  | a => a

theorem virtI_length (t : Template) : (virtT t).instrs.length = t.instrs.length := by simp [virtT]

theorem instrF2_virt {env : Env} {sp : Nat → Val → Val} {P P' : Nat → Prop} {T nloc : Nat} {i : Instr}
    (hP : ∀ b, P b → P' b) (h : InstrFullC env sp P T nloc i) : InstrF2 (VE env sp) P' T nloc (virtI i) := by
  cases i <;> simp only [InstrFullC] at h <;> simp only [virtI, InstrF2, InstrF1] <;> try exact h
  case map f args =>
    exact ⟨by have := h.1; unfold pBase at this; unfold fnPerKey; omega, h.2.1, h.2.2⟩
  case mapRef p o =>
    refine ⟨by have := pId_lt h.1; unfold wBase at this; unfold fnPerKey; omega, fun hf => ?_, fun a ha => ?_⟩
    · have := pBase_ge_zip; omega
    · simp at ha; subst ha; exact h.2
  case mapWithOld m o =>
    refine ⟨enc_lt h.1, fun hf => ?_, fun a ha => ?_⟩
    · unfold wBase at hf; unfold fnZip at hf; omega
    · simp at ha; subst ha; exact h.2.2
  case bind body' o => exact ⟨hP _ h.1, h.2⟩
  case dependOn a b =>
    refine ⟨by decide, fun hf => absurd hf (by decide), fun x hx => ?_⟩
    simp at hx
    rcases hx with rfl | rfl
    · exact h.1
    · exact h.2

theorem bodyF2_virt {env : Env} {sp : Nat → Val → Val} {T : Nat} :
    ∀ (f body : Nat), BodyFull env sp T f body → BodyF2 (VE env sp) T f body := by
  intro f
  induction f with
  | zero => intro body h; exact h.elim
  | succ f ih =>
    intro body h v
    obtain ⟨h1, h2⟩ := h v
    rw [virtEnv_body]
    refine ⟨fun j i hj => ?_, by rw [virtI_length]; exact h2⟩
    simp only [virtT, List.getElem?_map] at hj
    cases hi : (env.body body v).instrs[j]? with
    | none => rw [hi] at hj; cases hj
    | some i0 =>
      rw [hi] at hj
      simp only [Option.map_some, Option.some.injEq] at hj
      subst hj
      exact instrF2_virt (fun b hb => ih b hb) (h1 j i0 hi)

theorem actionF2_virt {env : Env} {sp : Nat → Val → Val} {T : Nat} {a : Action} (h : ActionFull env sp T a) :
    ActionF2 (VE env sp) T (virtA a) := by
  cases a <;> (try exact h)
  rename_i i
  simp only [ActionFull] at h
  cases i <;> simp only [InstrTopF] at h <;> simp only [virtA, ActionF2, virtI, InstrTop2, StaticInstr] <;> try exact h
  case map f args =>
    exact ⟨by have := h.1; unfold pBase at this; unfold fnPerKey; omega, h.2.1, h.2.2⟩
  case mapRef p o =>
    refine ⟨by have := pId_lt h.1; unfold wBase at this; unfold fnPerKey; omega, fun hf => ?_, fun a ha => ?_⟩
    · have := pBase_ge_zip; omega
    · simp at ha; subst ha; exact h.2
  case mapWithOld m o =>
    refine ⟨enc_lt h.1, fun hf => ?_, fun a ha => ?_⟩
    · unfold wBase at hf; unfold fnZip at hf; omega
    · simp at ha; subst ha; exact h.2.2
  case bind body lhs =>
    obtain ⟨h1, f, h2⟩ := h
    exact ⟨h1, f, bodyF2_virt f body h2⟩
  case dependOn a b =>
    refine ⟨by decide, fun hf => absurd hf (by decide), fun x hx => ?_⟩
    simp at hx
    rcases hx with rfl | rfl
    · exact h.1
    · exact h.2

theorem histF2_virt {env : Env} {sp : Nat → Val → Val} : ∀ (acts : List Action) (T : Nat), HistFull env sp T acts →
    HistF2 (VE env sp) T (acts.map virtA) := by
  intro acts
  induction acts with
  | nil => intro T _; trivial
  | cons a as ih =>
    intro T h
    obtain ⟨h1, h2⟩ := h
    refine ⟨actionF2_virt h1, ?_⟩
    have := ih _ h2
    cases a <;> try exact this
    rename_i i
    cases i <;> exact this

end IncrVerif.Proofs.FullH
