import IncrVerif.Proofs.BindH107
import IncrVerif.Proofs.BindH108
/-!
# Binds, part 4h-2 (B4): whole histories of the fragment

* `top_step`: a successful action of the fragment changes the number of naming-table entries exactly as `HistF1` counts them: a `create` pushes one entry
  (every instruction of `InstrTop` returns a handle), every other action leaves the table alone (`C2h0`: nothing but `create` writes `top`);
* `HistF1 env T acts`: the static description of a history of the fragment;
* `runActions_q1`, `history_q1`, `history_prefix1`, `history_stabilise1` (ports of `Quiet.runActions_q`, `Quiet.history_q`, `Quiet.history_prefix`,
  `Quiet.history_stabilise`).
-/
namespace IncrVerif.Proofs.BindH
open IncrVerif.Engine IncrVerif.Driver IncrVerif.Proofs IncrVerif.Proofs.Step IncrVerif.Proofs.Sched IncrVerif.Proofs.Quiet

namespace C2h

top_leaf PresTop.stabilise

/-- the actions of the fragment other than `create` never touch the naming table, whatever their outcome -/
theorem PresTop.stepAction {env : Env} {T : Nat} {a : Action} (tokens : Array Nat) (ha : ActionF1 env T a)
    (hc : ∀ i, a ≠ .create i) : Step.Pres TopSame (stepAction env a tokens) := by
  cases a <;> try exact ha.elim
  case create i => exact (hc i rfl).elim
  all_goals (unfold Engine.stepAction; qpres)

/-- a successful `create` of the fragment pushes exactly one entry onto the naming table -/
theorem top_size_create {env : Env} {T : Nat} {s s' : State} {i : Instr} {tokens : Array Nat} {r : String × Array Nat}
    (hsc : s.currentScope = .top) (hi : InstrTop env T i)
    (h : (stepAction env (.create i) tokens).run.run s = (.ok r, s')) : s'.top.size = s.top.size + 1 := by
  unfold stepAction at h
  simp only at h
  obtain ⟨ro, s1, h1, h2⟩ := bind_ok_inv h
  by_cases hb : ∃ body lhs, i = .bind body lhs
  · obtain ⟨body, lhs, ei⟩ := hb
    rw [ei] at hi h1
    obtain ⟨⟨k, ek⟩, -⟩ := hi
    rw [ek] at h1
    obtain ⟨l, -, ero, C⟩ := C2c.elab_bind1 hsc h1
    rw [ero] at h2
    simp only at h2
    obtain ⟨s2, e2, h3⟩ := bind_modify_inv h2
    obtain ⟨-, e3⟩ := pure_ok_inv h3
    rw [e3, e2]
    show (s1.top.push _).size = _
    rw [Array.size_push, C.top]
  · have hst : StaticInstr env i := by
      cases i <;> first | exact hi | exact (hb ⟨_, _, rfl⟩).elim
    obtain ⟨k, ero, -, -, C⟩ := C2c.elab_static1 hsc hst h1
    rw [ero] at h2
    simp only at h2
    obtain ⟨s2, e2, h3⟩ := bind_modify_inv h2
    obtain ⟨-, e3⟩ := pure_ok_inv h3
    rw [e3, e2]
    show (s1.top.push _).size = _
    rw [Array.size_push, C.top]

/-- the number of naming-table entries after an action of the fragment -/
theorem top_step {env : Env} {s s' : State} {a : Action} {tokens : Array Nat} {r : String × Array Nat}
    (hsc : s.currentScope = .top) :
    ActionF1 env s.top.size a → (stepAction env a tokens).run.run s = (.ok r, s') →
    s'.top.size = (match a with | .create _ => s.top.size + 1 | _ => s.top.size) := by
  intro ha h
  by_cases hc : ∃ i, a = .create i
  · obtain ⟨i, e⟩ := hc
    rw [e] at h ha ⊢
    exact top_size_create hsc ha h
  · have hc' : ∀ i, a ≠ .create i := fun i e => hc ⟨i, e⟩
    have ht := ((PresTop.stepAction tokens ha hc').h _ _ _ h).top
    rw [ht]
    cases a <;> first | rfl | exact (hc' _ rfl).elim

end C2h

/-- a history of the fragment: the `T` of `ActionF1` is the number of naming-table entries, i.e. the number of `create` actions so far (every instruction of
`InstrTop` creates exactly one top-level handle) -/
def HistF1 (env : Env) : Nat → List Action → Prop
  | _, [] => True
  | T, a :: as => ActionF1 env T a ∧ HistF1 env (match a with | .create _ => T + 1 | _ => T) as

section
variable {env : Env}
  (STAB : ∀ {fuel : Nat} {s s' : State}, QInv1 env s → (stabilise env fuel).run.run s = (.ok (), s') → QInv1 env s')
include STAB

/-- a run of `as ++ bs` from a state satisfying the invariant: the prefix runs, reaches a state satisfying the invariant, and the rest is a history of
the fragment for the naming table of that state -/
theorem runActions_split1 {as bs : List Action} {s s' : State} {tk tk' : Array Nat}
    (Q : QInv1 env s) (hH : HistF1 env s.top.size (as ++ bs))
    (h : Quiet.runActions env (as ++ bs) s tk = .ok (s', tk')) :
    ∃ s1 tk1, Quiet.runActions env as s tk = .ok (s1, tk1) ∧ QInv1 env s1 ∧ HistF1 env s1.top.size bs ∧
      Quiet.runActions env bs s1 tk1 = .ok (s', tk') := by
  induction as generalizing s tk with
  | nil => exact ⟨s, tk, rfl, Q, hH, h⟩
  | cons a as ih =>
    simp only [List.cons_append, Quiet.runActions] at h ⊢
    obtain ⟨ha, hrest⟩ := hH
    rcases hx : (stepAction env a tk).run.run s with ⟨_ | r, s1⟩
    · rw [hx] at h; cases h
    · rw [hx] at h
      have Q1 := step_q1 STAB Q ha hx
      have ht := C2h.top_step Q.struct.frag.scope ha hx
      have hrest' : HistF1 env s1.top.size (as ++ bs) := by rw [ht]; exact hrest
      exact ih Q1 hrest' h

/-- **B4, a list of actions.** A history of the fragment that runs without panic from a state satisfying the invariant ends in a state satisfying it. -/
theorem runActions_q1 {acts : List Action} {s s' : State} {tk tk' : Array Nat}
    (Q : QInv1 env s) (hH : HistF1 env s.top.size acts)
    (h : Quiet.runActions env acts s tk = .ok (s', tk')) : QInv1 env s' := by
  have hH' : HistF1 env s.top.size (acts ++ []) := by rw [List.append_nil]; exact hH
  have h' : Quiet.runActions env (acts ++ []) s tk = .ok (s', tk') := by rw [List.append_nil]; exact h
  obtain ⟨s1, tk1, -, Q1, -, h2⟩ := runActions_split1 STAB Q hH' h'
  simp only [Quiet.runActions] at h2
  cases h2
  exact Q1

/-- **B4, whole histories.** The initial state followed by a history of the fragment. -/
theorem history_q1 {N : Nat} {d : Bool} {acts : List Action} {s : State} {tk : Array Nat}
    (hH : HistF1 env 0 acts) (h : Quiet.runActions env acts (State.init N d) #[] = .ok (s, tk)) : QInv1 env s :=
  runActions_q1 STAB (qinv1_init env N d) hH h

/-- **B4: every state reached.** If a history of the fragment runs (without panic) from the initial state, then every prefix runs, and the state it reaches
satisfies the invariant (and the rest of the history is a history of the fragment for its naming table). -/
theorem history_prefix1 {N : Nat} {d : Bool} {as bs : List Action} {s : State} {tk : Array Nat}
    (hH : HistF1 env 0 (as ++ bs)) (h : Quiet.runActions env (as ++ bs) (State.init N d) #[] = .ok (s, tk)) :
    ∃ s1 tk1, Quiet.runActions env as (State.init N d) #[] = .ok (s1, tk1) ∧ QInv1 env s1 ∧
      HistF1 env s1.top.size bs ∧ Quiet.runActions env bs s1 tk1 = .ok (s, tk) :=
  runActions_split1 STAB (qinv1_init env N d) hH h

/-- **B4: every `stabilise` of a history.** At each `stabilise` action of a history of the fragment that runs from the initial state: the state `s1` before it
satisfies the invariant, the `stabilise` returns a state `s2` (so `stabilise_q1` applies to it), which satisfies the invariant, and the rest of the
history runs from `s2`. -/
theorem history_stabilise1 {N : Nat} {d : Bool} {as bs : List Action} {s : State} {tk : Array Nat}
    (hH : HistF1 env 0 (as ++ Action.stabilise :: bs))
    (h : Quiet.runActions env (as ++ Action.stabilise :: bs) (State.init N d) #[] = .ok (s, tk)) :
    ∃ s1 tk1 s2, Quiet.runActions env as (State.init N d) #[] = .ok (s1, tk1) ∧ QInv1 env s1 ∧
      (stabilise env fuelDefault).run.run s1 = (.ok (), s2) ∧ QInv1 env s2 ∧ HistF1 env s2.top.size bs ∧
      Quiet.runActions env bs s2 tk1 = .ok (s, tk) := by
  obtain ⟨s1, tk1, h1, Q1, hH1, h2⟩ := history_prefix1 STAB hH h
  simp only [Quiet.runActions] at h2
  rcases hx : (stepAction env .stabilise tk1).run.run s1 with ⟨_ | r, s2⟩
  · rw [hx] at h2; cases h2
  · rw [hx] at h2
    replace h2 : Quiet.runActions env bs s2 r.2 = .ok (s, tk) := h2
    have hst := Quiet.step_stabilise hx
    have ht := C2h.top_step Q1.struct.frag.scope hH1.1 hx
    have hH2 : HistF1 env s2.top.size bs := by rw [ht]; exact hH1.2
    have htk : r.2 = tk1 := by
      unfold stepAction at hx
      dsimp only at hx
      obtain ⟨u, s3, h3, h4⟩ := bind_ok_inv hx
      obtain ⟨e, -⟩ := pure_ok_inv h4
      rw [e]
    rw [htk] at h2
    exact ⟨s1, tk1, s2, h1, Q1, hst, STAB Q1 hst, hH2, h2⟩

end

end IncrVerif.Proofs.BindH
