import IncrVerif.Proofs.FullH14
import IncrVerif.Proofs.FullH18
import IncrVerif.Proofs.FullH30
import IncrVerif.Proofs.FullH25
import IncrVerif.Proofs.FullH41
import IncrVerif.Proofs.FullH26
/-!
# C01 full fragment: THE DRAIN — every step of the actual drain keeps the drain invariant `DInvF`

A step of a static / `bindMain` node is simulated (same ghost), a run of a change detector is simulated (the ghost is erased on the dying generation):
the theorems of fragment F2 apply to the virtual run.  The steps of `map_ref` / `map_with_old` nodes are described directly (`step_mapRef`, `step_mwo`).
What the helpers for change detectors provide is taken as the two hypotheses `LcSimSpec` (simulation) and `LcKSpec` (`didChange` invariant).
-/
namespace IncrVerif.Proofs.FullH
open IncrVerif.Engine IncrVerif.Driver IncrVerif.Proofs IncrVerif.Proofs.Step IncrVerif.Proofs.Sched IncrVerif.Proofs.Quiet
open IncrVerif.Proofs.MapOldH (MReach)
open IncrVerif.Proofs.BindH (DInv BGraph StepRelB FrameB TargetB)
open IncrVerif.Proofs.NestH (AuxS2 Aux2 GenOK2 F2Inv StepL2 LcStepsOK2)

/-- the simulation of a run of a change detector (helper `fh-step`) -/
def LcSimSpec (env : Env) (sp : Nat → Val → Val) : Prop :=
  ∀ (t s : State) (g : Nat → Option Val) (fuel n b : Nat) (r : Option Nat) (s' : State),
    DInvF env sp t s g (some n) → (s.nodeD n).kind = .bindLhsChange b →
    (recomputeOne env fuel n).run.run s = (.ok r, s') →
    ∃ g', (recomputeOne (VE env sp) fuel n).run.run (virt g s) = (.ok r, virt g' s') ∧ Fr (FK env sp) g' s' ∧ GR g g' s s'

/-- the `didChange` invariant through a run of a change detector (helper `fh-kl`) -/
def LcKSpec (env : Env) (sp : Nat → Val → Val) : Prop :=
  ∀ (t s : State) (g g' : Nat → Option Val) (fuel n b : Nat) (r : Option Nat) (s' : State),
    DInvF env sp t s g (some n) → (s.nodeD n).kind = .bindLhsChange b →
    (recomputeOne env fuel n).run.run s = (.ok r, s') →
    (recomputeOne (VE env sp) fuel n).run.run (virt g s) = (.ok r, virt g' s') → Fr (FK env sp) g' s' → GR g g' s s' →
    KInv env g' s'

/-- the step of a `map_with_old` node (helper `fh-mw`) -/
def MwoStepSpec (env : Env) (sp : Nat → Val → Val) : Prop :=
  ∀ (t s : State) (g : Nat → Option Val) (fuel n m i : Nat) (r : Option Nat) (s' : State),
    DInvF env sp t s g (some n) → (s.nodeD n).kind = .mapWithOld m i →
    (recomputeOne env fuel n).run.run s = (.ok r, s') →
    DInvF env sp t s' g r ∧ FrameB (virt g s) (virt g s') ∧
      ((virt g s').nodeD n).recomputedAt = s.stabNum ∧ ((virt g s').nodeD n).valid = true

/-- the verdict step: a static / `bindMain` node whose actual cutoff is `.never` or `.dependOn a` (helper `fh-mw`) -/
def VdStepSpec (env : Env) (sp : Nat → Val → Val) : Prop :=
  ∀ (t s : State) (g : Nat → Option Val) (fuel n : Nat) (r : Option Nat) (s' : State),
    DInvF env sp t s g (some n) → (∀ p i, (s.nodeD n).kind ≠ .mapRef p i) → (∀ m i, (s.nodeD n).kind ≠ .mapWithOld m i) →
    (∀ b, (s.nodeD n).kind ≠ .bindLhsChange b) → (s.nodeD n).cutoff ≠ .eq →
    (recomputeOne env fuel n).run.run s = (.ok r, s') →
    DInvF env sp t s' g r ∧ FrameB (virt g s) (virt g s') ∧
      ((virt g s').nodeD n).recomputedAt = s.stabNum ∧ ((virt g s').nodeD n).valid = true

section
variable {env : Env} {sp : Nat → Val → Val}

theorem kc_of_vm {s s' : State} (v : VM s s') (hsz : s'.nodes.size = s.nodes.size) (m : Nat) :
    (s'.nodeD m).kind = (s.nodeD m).kind ∧ (s'.nodeD m).cutoff = (s.nodeD m).cutoff := by
  by_cases hm : m < s.nodes.size
  · exact ⟨(v.kind m hm).1, (v.kind m hm).2.1⟩
  · rw [nodeD_default_of_ge s m (by omega), nodeD_default_of_ge s' m (by omega)]; exact ⟨rfl, rfl⟩

/-- the scheduling hypothesis of fragment F2 for the virtual environment, with `GenOK2` -/
theorem hVirt (env : Env) (sp : Nat → Val → Val) (t : State) :
    LcStepsOK2 (VE env sp) (fun s => AuxS2 (VE env sp) t s ∧ GenOK2 (VE env sp) s) :=
  NestH.lcStepsOK_gen2 (NestH.closure_spec2 _) (NestH.relink_spec2 _) (NestH.inval_spec2 _) (NestH.closure_elab2' _) t

theorem mapRefsBack_of_vm {s s' : State} (hb : MapRefsBack s) (v : VM s s') : MapRefsBack s' := by
  intro n nd p i hn hk
  have hlt := lt_of_some hn
  have hk' : (s'.nodeD n).kind = .mapRef p i := by rw [nodeD_of_some hn]; exact hk
  by_cases h : n < s.nodes.size
  · rw [(v.kind n h).1] at hk'
    exact hb n (s.nodeD n) p i (some_of_lt h) hk'
  · exact (v.newn n (by omega) hlt).2.2 p i hk'

theorem KInv.of_ghost {g g' : Nat → Option Val} {s : State} (K : KInv env g s)
    (h : ∀ m, (s.nodeD m).valid = true → g' m = g m) : KInv env g' s := by
  intro m p i hv hn hk hd
  rw [h m hv]; exact K m p i hv hn hk hd

theorem valid_of_vm {s s' : State} (v : VM s s') {m : Nat} (h : (s'.nodeD m).valid = true) : (s.nodeD m).valid = true := by
  cases hv : (s.nodeD m).valid with
  | true => rfl
  | false => rw [v.valid m hv] at h; cases h

/-- the machine invariant after a simulated step: old `map_with_old` nodes that are valid afterwards kept their stored value (`hval`, from the virtual
step relation), new ones are pristine -/
theorem minv_after {s s' : State} {n : Nat} (M : MInv env s) (v : VM s s') (nv : NVn n s s') (hn : n < s.nodes.size)
    (hnk : ∀ m i, (s'.nodeD n).kind ≠ .mapWithOld m i)
    (hval : ∀ x m i, x < s.nodes.size → x ≠ n → (s'.nodeD x).valid = true → (s.nodeD x).kind = .mapWithOld m i →
      (s'.nodeD x).value = (s.nodeD x).value) :
    MInv env s' := by
  intro x m i hv hk
  by_cases hx : x < s.nodes.size
  · have hxn : x ≠ n := by
      intro e; subst e; exact hnk m i hk
    obtain ⟨k1, -, k3⟩ := v.kind x hx
    have hk0 : (s.nodeD x).kind = .mapWithOld m i := by rw [← k1]; exact hk
    rw [hval x m i hx hxn hv hk0, k3]
    exact M x m i (valid_of_vm v hv) hk0
  · have hx' : x < s'.nodes.size := by
      by_cases h : x < s'.nodes.size
      · exact h
      · rw [nodeD_default_of_ge s' x (by omega)] at hk; cases hk
    have hxn : x ≠ n := by omega
    rw [nv.new x hxn (by omega) hx', (v.newn x (by omega) hx').2.1]
    exact MReach.init

theorem virt_value_field (g : Nat → Option Val) (s : State) {x : Nat} (h : ∀ p i, (s.nodeD x).kind ≠ .mapRef p i) :
    ((virt g s).nodeD x).value = (s.nodeD x).value := by
  rw [virt_nodeD, virtNode_value_of_not_mapRef _ _ h]

/-- **one step of the drain, a node that is simulated** (static kinds, `bindMain`, change detectors) -/
theorem step_simulated (LS : LcSimSpec env sp) (LK : LcKSpec env sp) {t s : State} {g : Nat → Option Val} {fuel n : Nat}
    {r : Option Nat} {s' : State} (D : DInvF env sp t s g (some n))
    (hk1 : ∀ p i, (s.nodeD n).kind ≠ .mapRef p i) (hk2 : ∀ m i, (s.nodeD n).kind ≠ .mapWithOld m i)
    (hex : (s.nodeD n).cutoff = .eq ∨ ∃ b, (s.nodeD n).kind = .bindLhsChange b)
    (h : (recomputeOne env fuel n).run.run s = (.ok r, s')) :
    ∃ g', DInvF env sp t s' g' r ∧ FrameB (virt g s) (virt g' s') ∧
      ((virt g' s').nodeD n).recomputedAt = s.stabNum ∧ ((virt g' s').nodeD n).valid = true := by
  have I := D.inv
  have gr := I.graph
  obtain ⟨hnec, hnlt, hnv, -, -⟩ := I.cur_facts
  rw [virt_size] at hnlt
  rw [virt_nodeD, virtNode_valid] at hnv
  have hkids := kids_settled D
  have nv := recomputeOne_nv env fuel n s s' r h
  have hBk := (gr.node n (by rw [virt_size]; exact hnlt) (by rw [virt_nodeD, virtNode_valid]; exact hnv)).1
  rw [virt_nodeD, virtNode_kind] at hBk
  by_cases hk3 : ∀ b, (s.nodeD n).kind ≠ .bindLhsChange b
  · -- static kind or `bindMain`: same ghost
    have hrhs : ∀ b lc br r0, (s.nodeD n).kind = .bindMain b lc → s.binds[b]? = some br → br.rhs = some r0 →
        (s.nodeD r0).valid = true := by
      intro b lc br r0 hkd hb hr
      have hc : r0 ∈ (virt g s).children n := by
        rw [virt_children]
        unfold State.children Node.kind?
        rw [hnv, hkd]
        simp only [if_true, hb, hr]
        simp
      have := ((gr.node n (by rw [virt_size]; exact hnlt) (by rw [virt_nodeD, virtNode_valid]; exact hnv)).2.2 r0 hc).2
      rw [virt_nodeD, virtNode_valid] at this
      exact this
    have hcn : (s.nodeD n).cutoff = .eq := by
      rcases hex with e | ⟨b, e⟩
      · exact e
      · exact absurd e (hk3 b)
    obtain ⟨hv, hfr, vm⟩ := recomputeOne_sim D.frag hnlt hnv hk1 hk2 hk3 hcn hrhs (fun a ha => (hkids a ha).1) h
    have hkS : StaticKind (VE env sp) ((virt g s).nodeD n).kind ∨ ∃ b lc, ((virt g s).nodeD n).kind = .bindMain b lc := by
      rw [virt_nodeD, virtNode_kind]
      cases hkd : (s.nodeD n).kind <;> rw [hkd] at hBk <;> simp only [virtKind] at hBk ⊢ <;>
        first
        | exact Or.inl hBk
        | exact Or.inr ⟨_, _, rfl⟩
        | exact absurd hkd (hk3 _)
    obtain ⟨v, ch, ht, R⟩ := BindH.recomputeOne_stepB gr I.heap hnec hkS I.kids_values hv
    have I' := BindH.stepB_inv I ht R
    have A' := (hVirt env sp t).other fuel n _ _ r I ⟨D.aux, D.gen⟩ hkS hv
    obtain ⟨K', F'⟩ := static_keepsK' D hk1 hk2 hk3 (Or.inl hcn) h
    have hsz' : s'.nodes.size = s.nodes.size := by have := R.size; rw [virt_size, virt_size] at this; exact this
    obtain ⟨Dp', C'⟩ := dep_stepB D.dep D.cr I R (fun m => (kc_of_vm vm hsz' m).1) (fun m => (kc_of_vm vm hsz' m).2)
      (fun a b _ hc => by rw [hcn] at hc; cases hc)
    refine ⟨g, ⟨F', I', A'.1, A'.2, K', ?_, D.gs.of_gr (GR.of_vm vm), Dp', C'⟩, R.frame, R.recomputedAt, by rw [R.shape.valid]; rw [virt_nodeD, virtNode_valid]; exact hnv⟩
    refine minv_after D.m vm nv hnlt (fun m i hk => hk2 m i (by rw [← (vm.kind n hnlt).1]; exact hk)) ?_
    intro x m i hx hxn hxv hkx
    have hmr : ∀ p i, (s.nodeD x).kind ≠ .mapRef p i := by intro p i; rw [hkx]; intro h; cases h
    have h1 := (R.other x hxn).value
    rw [virt_value_field g s hmr, virt_value_field g s' (by rw [(vm.kind x hx).1]; exact hmr)] at h1
    exact h1
  · -- a change detector: the ghost may be erased on the dying generation
    have : ∃ b, (s.nodeD n).kind = .bindLhsChange b := by
      cases hkd : (s.nodeD n).kind <;>
        first | exact ⟨_, rfl⟩ | (exfalso; apply hk3; intro b; rw [hkd]; intro h; cases h)
    obtain ⟨b, hkb⟩ := this
    obtain ⟨g', hv, hfr, R0⟩ := LS t s g fuel n b r s' D hkb h
    have hkv : ((virt g s).nodeD n).kind = .bindLhsChange b := by rw [virt_nodeD, virtNode_kind, hkb]; rfl
    obtain ⟨⟨br, br', R⟩, A'⟩ := (hVirt env sp t).lc fuel n b _ _ r I ⟨D.aux, D.gen⟩ hkv hv
    have I' := NestH.stepL2_inv I hkv R
    have K' := LK t s g g' fuel n b r s' D hkb h hv hfr R0
    have hback := mapRefsBack_of_vm D.frag.back R0.vm
    have hpc : s'.panicCountdown = none := I'.graph.pc
    have hkids' : ∀ x c, (s'.nodeD x).valid = true → c ∈ s'.children x → (s'.nodeD c).valid = true ∧ c < s'.nodes.size := by
      intro x c hxv hc
      have hx : x < s'.nodes.size := by
        by_cases hx : x < s'.nodes.size
        · exact hx
        · rw [BindH.children_default s' x (by omega)] at hc; cases hc
      have := (I'.graph.node x (by rw [virt_size]; exact hx) (by rw [virt_nodeD, virtNode_valid]; exact hxv)).2.2 c
        (by rw [virt_children]; exact hc)
      rw [virt_size, virt_nodeD, virtNode_valid] at this
      exact ⟨this.2, this.1⟩
    obtain ⟨Dp', C'⟩ := dep_stepL2 D.dep D.cr I hkb R R0.vm nv hnlt hkids'
    refine ⟨g', ⟨⟨hfr, hback, hpc⟩, I', A'.1, A'.2, K', ?_, D.gs.of_gr R0, Dp', C'⟩, R.frame I, R.self.1, R.self.2.2.2.1⟩
    refine minv_after D.m R0.vm nv hnlt (fun m i hk => ?_) ?_
    · rw [(R0.vm.kind n hnlt).1, hkb] at hk; cases hk
    · intro x m i hx hxn hxv hkx
      have hmr : ∀ p i, (s.nodeD x).kind ≠ .mapRef p i := by intro p i; rw [hkx]; intro h; cases h
      rcases R.old x (by rw [virt_size]; exact hx) hxn with ⟨-, hd, -⟩ | ⟨-, -, -, h4, -⟩
      · rw [virt_nodeD, virtNode_valid, hxv] at hd; cases hd
      · rw [virt_value_field g s hmr, virt_value_field g' s' (by rw [(R0.vm.kind x hx).1]; exact hmr)] at h4
        exact h4

end
end IncrVerif.Proofs.FullH
